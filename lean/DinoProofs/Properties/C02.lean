import DinoProofs.Lemmas.Grid
import DinoProofs.Lemmas.GridFourier
import DinoProofs.Lemmas.GridLinear
import DinoProofs.Lemmas.GridEps
import DinoGen.GridCert
import Mathlib.Analysis.Real.Sqrt
import Mathlib.Algebra.BigOperators.Field
import Mathlib.Analysis.SpecialFunctions.Trigonometric.Basic
import Mathlib.Tactic.NormNum
import Mathlib.Tactic.Linarith
import Mathlib.Tactic.IntervalCases
import Mathlib.Data.List.Basic

/-!
# C02 — spectral differential operators are exact on band-limited fields

Property theorems about the model `Dino.Grid` (both modal layouts, all sizes `M`, `L`, paddings,
any radius `r ≠ 0`).

* T2.1 `real_derivative_hasDerivAt`, `fast_derivative_hasDerivAt` (+ `deriv` forms)
* T2.2 `dDlon_dDlon`, `dDlon_kills_zonal`
* T2.3 `laplacian_inverseLaplacian`, `inverseLaplacian_laplacian`, `inverseLaplacian_zero_mean`,
  `inverseLaplacian_padding`, `eigenvalues_radius`, `inverseEigenvalues_radius`, list forms on the
  domain `Dom`
* T2.4 `D1_sub_D2` (arbitrary weights), `legendre_equation` (weights with `a² = (l²−m²)/(4l²−1)`),
  `legendre_equation_model` (the model's own weights, any `sqrt` that squares back),
  `legendre_equation_real` (ℝ, `Real.sqrt`)
* T2.5 `kCross_kCross`, `div_kCross`, `curl_kCross`, linearity of every operator, clip laws
* T2.6 the wind round trip, as an **exact-arithmetic reduction to two nodal identities**:
  `roundtrip_decomp` (no hypothesis on the quadrature: `ζ' = curl S grad χ + div S grad ψ`,
  `δ' = div S grad χ − curl S grad ψ` for any additive odd `S`), `sandwich_shTransforms` (the `S` of the
  model's own transforms `realSynth/realAnalysis/fastSynth/fastAnalysis` *is* additive, odd, homogeneous —
  `Dino.Grid.linMap_*` in `Lemmas/GridLinear.lean`), `vor_div_roundtrip`, `vor_div_roundtrip_clipped`
  (from Hyp-A / Hyp-B on `Dom`), `vor_div_roundtrip_eps` (residuals of Hyp-A / Hyp-B bounded by `ε`
  relative to `max|∇²ψ|` ⇒ round trip within `2ε`), `div_rotated_gradient`,
  `ent2_sandwich_separable` (`S` acts row-wise through the `cos⁻²`-weighted Legendre Gram matrix),
  `hypA_of_units` / `hypB_of_units` (Hyp-A/B on `Dom` follow from the unit fields of `Dom`).
  `Dom ly k` = arrays of the grid's shape that vanish at `l = 0`, in the top `k` wavenumbers, on the
  padding and **wherever the grid's mask is false** (`domB_iff`: the driver's Boolean test).
  Side condition of every theorem that divides by `cos θ`: `hcos : ∀ c ∈ cosl, c ≠ 0`
  (`cosLat_ne_zero`, `equiangular_cosLat_ne_zero`: pole-free node sets satisfy it).
  Non-vacuity: `lyT` (real layout, `M = 3`, `L = 5`, ℚ, a genuine monic-Legendre transform pair) satisfies
  Hyp-A and Hyp-B exactly on all of `Dom` for both clip settings (`hypA_T`, `hypB_T`) and violates Hyp-A off
  the mask (`hypA_T_fails_unmasked`).

PARTIAL (labelled, see DESIGN §6/C02, §10): the latitude-derivative recurrence is proved
*consistent with the Laplacian* (`legendre_equation`) and with multiplication by `sin θ`
(`D1_sub_D2`); it is not derived from a formal definition of the associated Legendre functions,
which the installed Mathlib does not have.  Hyp-A/Hyp-B of T2.6 are validated numerically on the
implementation by the harness (on fields drawn from exactly `Dom`, with a negative control off the
mask), not proved: "curl grad = 0", "div grad = ∇²", "div of a rotated gradient = 0" *are* Hyp-B, Hyp-A
and Hyp-B + `div_kCross`.
-/

set_option linter.unusedSectionVars false
set_option linter.unusedSimpArgs false
set_option linter.unusedVariables false

namespace Dino.C02
open Dino.Lin Dino.Fourier Dino.Grid Finset

/-! ## T2.2 longitude derivative -/
section T22
variable {K : Type} [CommRing K]

/-- **T2.2** `d_dlon ∘ d_dlon = −m²` row-wise (`m` = the frequency the code attaches to the row),
 for both layouts, whenever the array has the row parity the code insists on. -/
theorem dDlon_dDlon (ly : Layout) (x : List (List K)) (i l : Nat) (hi : i < x.length)
    (hpar : if ly.fast then x.length % 2 = 0 else x.length % 2 = 1) :
    ent2 (dDlon ly (dDlon ly x)) i l
      = -(((ly.freq i : Nat) : K) * ((ly.freq i : Nat) : K)) * ent2 x i l :=
  ent2_dDlon_dDlon ly x i l hi hpar

/-- **T2.2** `d_dlon` kills the zonal rows (`m = 0`) -/
theorem dDlon_kills_zonal (ly : Layout) (x : List (List K)) (i l : Nat) (hi : i < x.length)
    (h0 : ly.freq i = 0) : ent2 (dDlon ly x) i l = 0 := by
  rw [ent2_dDlon ly x i l hi, h0]
  split <;> simp

/-- on the rows that carry data the frequency is `|m|` of `modal_axes` -/
theorem freq_eq_abs_m (ly : Layout) (i : Nat) (h : ly.fast = true → i < 2 * ly.M) :
    ly.freq i = ly.mAbs i := ly.freq_eq_mAbs i h

theorem dDlon_add (ly : Layout) (x y : List (List K)) (hx : IsMat x ly.rows ly.cols)
    (hy : IsMat y ly.rows ly.cols) : dDlon ly (madd x y) = madd (dDlon ly x) (dDlon ly y) := by
  have hxy := isMat_madd x y _ _ hx hy
  apply mat_ext _ _ _ _ (isMat_dDlon ly _ hxy) (isMat_madd _ _ _ _ (isMat_dDlon ly x hx) (isMat_dDlon ly y hy))
  intro i hi j _
  rw [ent2_madd _ _ _ _ i j (isMat_dDlon ly x hx) (isMat_dDlon ly y hy),
    ent2_dDlon ly _ i j (by rw [hxy.1]; exact hi), ent2_dDlon ly x i j (by rw [hx.1]; exact hi),
    ent2_dDlon ly y i j (by rw [hy.1]; exact hi),
    ent2_madd x y _ _ (i + 1) j hx hy, ent2_madd x y _ _ (i - 1) j hx hy]
  by_cases hc : (if ly.fast = true then i % 2 = 0 else i % 2 = 1)
  · simp only [if_pos hc]; ring
  · simp only [if_neg hc]; ring

theorem dDlon_neg (ly : Layout) (x : List (List K)) (hx : IsMat x ly.rows ly.cols) :
    dDlon ly (mneg x) = mneg (dDlon ly x) := by
  have hn := isMat_mneg x _ _ hx
  apply mat_ext _ _ _ _ (isMat_dDlon ly _ hn) (isMat_mneg _ _ _ (isMat_dDlon ly x hx))
  intro i hi j _
  rw [ent2_mneg, ent2_dDlon ly _ i j (by rw [hn.1]; exact hi),
    ent2_dDlon ly x i j (by rw [hx.1]; exact hi), ent2_mneg, ent2_mneg]
  by_cases hc : (if ly.fast = true then i % 2 = 0 else i % 2 = 1)
  · simp only [if_pos hc]; ring
  · simp only [if_neg hc]; ring

theorem dDlon_smul (ly : Layout) (c : K) (x : List (List K)) (hx : IsMat x ly.rows ly.cols) :
    dDlon ly (mscale c x) = mscale c (dDlon ly x) := by
  have hn := isMat_mscale c x _ _ hx
  apply mat_ext _ _ _ _ (isMat_dDlon ly _ hn) (isMat_mscale c _ _ _ (isMat_dDlon ly x hx))
  intro i hi j _
  rw [ent2_mscale, ent2_dDlon ly _ i j (by rw [hn.1]; exact hi),
    ent2_dDlon ly x i j (by rw [hx.1]; exact hi), ent2_mscale, ent2_mscale]
  by_cases hc : (if ly.fast = true then i % 2 = 0 else i % 2 = 1)
  · simp only [if_pos hc]; ring
  · simp only [if_neg hc]; ring

end T22

/-! ## the domain of the round trips -/
section dom
variable {K : Type} [CommRing K]

/-- the arrays on which the round trips are identities: shape `rows × cols`, zero global mean
 (column `l = 0`), zero in the top `k` wavenumbers and on the padding columns (`l ≥ L − k`), and zero
 wherever the grid's `mask` is false: the triangle `l < |m|`, row 1 (`m = −0`) and the padding rows of
 the fast layout, the padding columns.  These are exactly the fields the harness draws (`dom()`:
 `normal · mask`, column 0 and the top `k` columns zeroed) when it validates Hyp-A / Hyp-B; outside the
 mask Hyp-A is false (`to_nodal` discards such entries while `∇²` does not), which the harness records
 as a negative control. -/
def Dom (ly : Layout) (k : Nat) (x : List (List K)) : Prop :=
  IsMat x ly.rows ly.cols ∧ (∀ i j, (j = 0 ∨ ly.L ≤ j + k) → ent2 x i j = 0)
    ∧ ∀ i j, ly.maskAt i j = false → ent2 x i j = 0

/-- the Boolean test `Dino.Grid.domB` of the model (driver op `grid dom`, by which the harness checks that
 every field it draws for Hyp-A / Hyp-B lies in the domain, and that its negative controls do not) decides
 exactly `Dom` -/
theorem domB_iff [DecidableEq K] (ly : Layout) (k : Nat) (x : List (List K)) :
    domB (fun v => decide (v = 0)) ly k x = true ↔ Dom ly k x := by
  have hent : ∀ i j, (x.getD i []).getD j 0 = ent2 x i j := fun i j => rfl
  constructor
  · intro h
    simp only [domB, Bool.and_eq_true, decide_eq_true_eq, List.all_eq_true, List.mem_range, hent] at h
    obtain ⟨⟨hl, hrows⟩, hE⟩ := h
    have hM : IsMat x ly.rows ly.cols := ⟨hl, hrows⟩
    have hE' : ∀ i j, (j = 0 ∨ ly.L ≤ j + k ∨ ly.maskAt i j = false) → ent2 x i j = 0 := by
      intro i j hc
      by_cases hi : i < ly.rows
      · by_cases hj : j < ly.cols
        · have := hE i hi j hj
          simp only [Bool.or_eq_true, Bool.not_eq_true', Bool.not_eq_eq_eq_not, Bool.not_true,
            Bool.or_eq_false_iff, decide_eq_false_iff_not, decide_eq_true_eq] at this
          rcases this with h1 | h1
          · rcases hc with h | h | h
            · exact absurd h h1.1.1
            · exact absurd h h1.1.2
            · rw [h] at h1; simp at h1
          · exact h1
        · exact ent2_of_col_le x _ _ i j hM (by omega)
      · exact ent2_of_row_le x i j (by rw [hM.1]; omega)
    exact ⟨hM, fun i j h => hE' i j (by tauto), fun i j h => hE' i j (Or.inr (Or.inr h))⟩
  · intro h
    obtain ⟨hM, h1, h2⟩ := h
    simp only [domB, Bool.and_eq_true, decide_eq_true_eq, List.all_eq_true, List.mem_range, hent]
    refine ⟨⟨hM.1, hM.2⟩, ?_⟩
    intro i _ j _
    simp only [Bool.or_eq_true, Bool.not_eq_true', Bool.not_eq_eq_eq_not, Bool.not_true,
      Bool.or_eq_false_iff, decide_eq_false_iff_not, decide_eq_true_eq]
    by_cases hc : j = 0 ∨ ly.L ≤ j + k
    · exact Or.inr (h1 i j hc)
    · cases hm : ly.maskAt i j
      · exact Or.inr (h2 i j hm)
      · left
        exact ⟨⟨fun h => hc (Or.inl h), fun h => hc (Or.inr h)⟩, by simp⟩
end dom

/-! ## T2.3 Laplacian and its inverse -/
section T23
variable {K : Type} [Field K] [CharZero K]

theorem eigenvalue_ne_zero (ly : Layout) (r : K) (hr : r ≠ 0) (j : Nat) (h0 : 0 < j) (hj : j < ly.L) :
    ent (eigenvalues ly r) j ≠ 0 := by
  have hL := ly.L_le_cols
  rw [ent_eigenvalues, if_pos (by omega), ly.lval_of_lt j hj]
  have h1 : (j : K) ≠ 0 := Nat.cast_ne_zero.mpr (by omega)
  have h2 : ((j + 1 : ℕ) : K) ≠ 0 := Nat.cast_ne_zero.mpr (by omega)
  exact div_ne_zero (neg_ne_zero.mpr (mul_ne_zero h1 h2)) (mul_ne_zero hr hr)

/-- **T2.3** `laplacian ∘ inverse_laplacian = id` on `1 ≤ l < L` (every row, both layouts) -/
theorem laplacian_inverseLaplacian (ly : Layout) (r : K) (hr : r ≠ 0) (x : List (List K))
    (i j : Nat) (h0 : 0 < j) (hj : j < ly.L) :
    ent2 (laplacian ly r (inverseLaplacian ly r x)) i j = ent2 x i j := by
  have he := eigenvalue_ne_zero ly r hr j h0 hj
  unfold laplacian
  rw [ent2_mulCols, ent2_inverseLaplacian, if_pos ⟨h0, hj⟩]
  field_simp

/-- **T2.3** `inverse_laplacian ∘ laplacian = id` on `1 ≤ l < L` -/
theorem inverseLaplacian_laplacian (ly : Layout) (r : K) (hr : r ≠ 0) (x : List (List K))
    (i j : Nat) (h0 : 0 < j) (hj : j < ly.L) :
    ent2 (inverseLaplacian ly r (laplacian ly r x)) i j = ent2 x i j := by
  have he := eigenvalue_ne_zero ly r hr j h0 hj
  rw [ent2_inverseLaplacian, if_pos ⟨h0, hj⟩]
  unfold laplacian
  rw [ent2_mulCols]
  field_simp

/-- **T2.3** `inverse_laplacian` returns zero at `l = 0` (whatever the input) -/
theorem inverseLaplacian_zero_mean (ly : Layout) (r : K) (x : List (List K)) (i : Nat) :
    ent2 (inverseLaplacian ly r x) i 0 = 0 := by
  rw [ent2_inverseLaplacian, if_neg (by omega), mul_zero]

/-- **T2.3** `inverse_laplacian` returns zero on the padding columns (whatever the input) -/
theorem inverseLaplacian_padding (ly : Layout) (r : K) (x : List (List K)) (i j : Nat)
    (hj : ly.L ≤ j) : ent2 (inverseLaplacian ly r x) i j = 0 := by
  rw [ent2_inverseLaplacian, if_neg (by omega), mul_zero]

/-- the Laplacian of a constant (`l = 0`) vanishes, and it vanishes on the padding -/
theorem laplacian_zero_mean (ly : Layout) (r : K) (x : List (List K)) (i j : Nat)
    (hj : j = 0 ∨ ly.L ≤ j) : ent2 (laplacian ly r x) i j = 0 := by
  rw [ent2_laplacian]
  by_cases hc : j < ly.cols
  · rw [if_pos hc]
    rcases hj with h | h
    · subst h
      by_cases hL : 0 < ly.L
      · rw [ly.lval_of_lt 0 hL]; simp
      · rw [ly.lval_of_ge 0 (by omega)]; simp
    · rw [ly.lval_of_ge j h]; simp
  · rw [if_neg hc, mul_zero]

/-- **T2.3** eigenvalues scale as `r⁻²` -/
theorem eigenvalues_radius (ly : Layout) (r : K) (j : Nat) :
    ent (eigenvalues ly r) j = ent (eigenvalues ly 1) j / (r * r) := by
  rw [ent_eigenvalues, ent_eigenvalues]
  split <;> simp

/-- **T2.3** inverse eigenvalues scale as `r²` -/
theorem inverseEigenvalues_radius (ly : Layout) (r : K) (hr : r ≠ 0) (j : Nat) :
    ent (inverseEigenvalues ly r) j = ent (inverseEigenvalues ly 1) j * (r * r) := by
  rw [ent_inverseEigenvalues, ent_inverseEigenvalues]
  by_cases h : 0 < j ∧ j < ly.L
  · rw [if_pos h, if_pos h, eigenvalues_radius ly r j]
    have he := eigenvalue_ne_zero ly (1 : K) one_ne_zero j h.1 h.2
    field_simp
  · rw [if_neg h, if_neg h, zero_mul]

theorem dom_inverseLaplacian (ly : Layout) (k : Nat) (r : K) (x : List (List K)) (hx : Dom ly k x) :
    Dom ly k (inverseLaplacian ly r x) := by
  refine ⟨isMat_inverseLaplacian ly r x hx.1, ?_, ?_⟩
  · intro i j hj
    rw [ent2_inverseLaplacian, hx.2.1 i j hj, zero_mul]
  · intro i j hm
    rw [ent2_inverseLaplacian, hx.2.2 i j hm, zero_mul]

/-- **T2.3** (list form) `∇²(∇⁻² x) = x` for zero-mean `x` -/
theorem laplacian_inverseLaplacian_eq (ly : Layout) (k : Nat) (r : K) (hr : r ≠ 0)
    (x : List (List K)) (hx : Dom ly k x) : laplacian ly r (inverseLaplacian ly r x) = x := by
  apply mat_ext _ _ _ _ (isMat_laplacian ly r _ (isMat_inverseLaplacian ly r x hx.1)) hx.1
  intro i _ j _
  by_cases h : 0 < j ∧ j < ly.L
  · exact laplacian_inverseLaplacian ly r hr x i j h.1 h.2
  · rw [laplacian_zero_mean ly r _ i j (by omega), hx.2.1 i j (by omega)]

/-- **T2.3** (list form) `∇⁻²(∇² x) = x` for zero-mean `x` -/
theorem inverseLaplacian_laplacian_eq (ly : Layout) (k : Nat) (r : K) (hr : r ≠ 0)
    (x : List (List K)) (hx : Dom ly k x) : inverseLaplacian ly r (laplacian ly r x) = x := by
  apply mat_ext _ _ _ _ (isMat_inverseLaplacian ly r _ (isMat_laplacian ly r x hx.1)) hx.1
  intro i _ j _
  by_cases h : 0 < j ∧ j < ly.L
  · exact inverseLaplacian_laplacian ly r hr x i j h.1 h.2
  · rw [ent2_inverseLaplacian, if_neg h, mul_zero, hx.2.1 i j (by omega)]

end T23

/-! ## T2.4 latitude derivatives -/
section T24
variable {K : Type} [Field K] [CharZero K]

/-- **T2.4a** for *arbitrary* weight arrays: `cos_lat_d_dlat − sec_lat_d_dlat_cos2 = 2·Mu`, where
 `Mu = sinLatMulW` is the three-term multiplication by `sin θ` built from the same weights. Holds in
 every entry, including the top wavenumber and the padding. -/
theorem D1_sub_D2 (ly : Layout) (a b x : List (List K)) (hx : IsMat x ly.rows ly.cols)
    (ha : IsMat a ly.rows ly.cols) (hb : IsMat b ly.rows ly.cols) :
    msub (cosLatDDlatW ly a b x) (secLatDDlatCos2W ly a b x) = mscale (1 + 1) (sinLatMulW a b x) := by
  have h1 := isMat_cosLatDDlatW ly a b x hx ha hb
  have h2 := isMat_secLatDDlatCos2W ly a b x hx ha hb
  have h3 := isMat_sinLatMulW a b x _ _ hx ha hb
  apply mat_ext _ _ _ _ (isMat_msub _ _ _ _ h1 h2) (isMat_mscale _ _ _ _ h3)
  intro i _ j hj
  rw [ent2_msub _ _ _ _ i j h1 h2, ent2_mscale, ent2_cosLatDDlatW ly a b x i j hx ha hb hj,
    ent2_secLatDDlatCos2W ly a b x i j hx ha hb hj, ent2_sinLatMulW a b x _ _ i j hx ha hb hj]
  by_cases hc : j + 1 < ly.cols
  · rw [if_pos hc, if_pos hc]
    by_cases h0 : j = 0
    · rw [if_pos h0, if_pos h0, if_pos h0]; push_cast; ring
    · rw [if_neg h0, if_neg h0, if_neg h0]; push_cast; ring
  · rw [if_neg hc, if_neg hc, ent2_of_col_le a _ _ i (j + 1) ha (by omega)]
    by_cases h0 : j = 0
    · rw [if_pos h0, if_pos h0, if_pos h0]; ring
    · rw [if_neg h0, if_neg h0, if_neg h0]; push_cast; ring

/-- `cos_lat_d_dlat` below the top wavenumber, as the sequence operator `d1F` -/
theorem ent2_D1_interior (ly : Layout) (a b z : List (List K)) (hz : IsMat z ly.rows ly.cols)
    (ha : IsMat a ly.rows ly.cols) (hb : IsMat b ly.rows ly.cols) (i j : Nat) (hj : j + 1 < ly.L) :
    ent2 (cosLatDDlatW ly a b z) i j = d1F (ent2 a i) (ent2 b i) (ent2 z i) j := by
  have hL := ly.L_le_cols
  have c1 : j + 1 < ly.cols := by omega
  rw [ent2_cosLatDDlatW ly a b z i j hz ha hb (by omega), if_pos c1, ly.lval_of_lt (j + 1) hj]
  unfold d1F
  by_cases h0 : j = 0
  · rw [if_pos h0, if_pos h0]
  · rw [if_neg h0, if_neg h0, ly.lval_of_lt (j - 1) (by omega)]

theorem ent2_Mu (a b z : List (List K)) (R C : Nat) (hz : IsMat z R C) (ha : IsMat a R C)
    (hb : IsMat b R C) (i j : Nat) (hj : j < C) :
    ent2 (sinLatMulW a b z) i j = muF (ent2 a i) (ent2 b i) (ent2 z i) j := by
  rw [ent2_sinLatMulW a b z R C i j hz ha hb hj]
  rfl

theorem d1F_congr (A B f g : ℕ → K) (j : ℕ) (h1 : f (j + 1) = g (j + 1))
    (h2 : j ≠ 0 → f (j - 1) = g (j - 1)) : d1F A B f j = d1F A B g j := by
  unfold d1F
  by_cases h0 : j = 0
  · rw [if_pos h0, if_pos h0, h1]
  · rw [if_neg h0, if_neg h0, h1, h2 h0]

theorem muF_congr (A B f g : ℕ → K) (j : ℕ) (h1 : f (j + 1) = g (j + 1))
    (h2 : j ≠ 0 → f (j - 1) = g (j - 1)) : muF A B f j = muF A B g j := by
  unfold muF
  by_cases h0 : j = 0
  · rw [if_pos h0, if_pos h0, h1]
  · rw [if_neg h0, if_neg h0, h1, h2 h0]

/-- **T2.4b** the Legendre equation in coefficient space.  For weight arrays with
 `a[m,l]² = (l² − m²)/(4l² − 1)` (`|m| ≤ l < L`) and `b[m,l] = a[m,l+1]`, at every entry inside the
 triangle whose two upper neighbours are inside the truncation (`l + 2 < L`):

   `cosθ∂θ(cosθ∂θ x) + ∂λ∂λ x = (1 − sin²θ) · r²∇² x`.

 This ties the recurrence weights, the integer factors `(l+1), −l` of `cos_lat_d_dlat`, the
 eigenvalues `−l(l+1)/r²` and the longitude derivative to each other for every `(m, l)`. -/
theorem legendre_equation (ly : Layout) (a b x : List (List K)) (r : K) (hr : r ≠ 0)
    (hx : IsMat x ly.rows ly.cols) (ha : IsMat a ly.rows ly.cols) (hb : IsMat b ly.rows ly.cols)
    (hpad : ly.fast = true → ly.padRows % 2 = 0)
    (i j : Nat) (hi : i < ly.rows) (hmask : ly.maskAt i j = true) (hj : j + 2 < ly.L)
    (Ha : ∀ k, ly.mAbs i ≤ k → k < ly.L → ent2 a i k * ent2 a i k = ratio (ly.mAbs i) k)
    (Hb : ∀ k, k + 1 < ly.L → ent2 b i k = ent2 a i (k + 1)) :
    ent2 (madd (cosLatDDlatW ly a b (cosLatDDlatW ly a b x)) (dDlon ly (dDlon ly x))) i j
      = ent2 (msub (mscale (r * r) (laplacian ly r x))
          (sinLatMulW a b (sinLatMulW a b (mscale (r * r) (laplacian ly r x))))) i j := by
  have hL := ly.L_le_cols
  have hm := (ly.maskAt_iff i j).1 hmask
  have hmj : ly.mAbs i ≤ j := by rw [← ly.lval_of_lt j hm.2.2]; exact hm.1
  have hD1 := isMat_cosLatDDlatW ly a b x hx ha hb
  have hD1D1 := isMat_cosLatDDlatW ly a b _ hD1 ha hb
  have hdd := isMat_dDlon ly _ (isMat_dDlon ly x hx)
  have hy := isMat_mscale (r * r) _ _ _ (isMat_laplacian ly r x hx)
  have hMu := isMat_sinLatMulW a b _ _ _ hy ha hb
  have hMuMu := isMat_sinLatMulW a b _ _ _ hMu ha hb
  -- entries of y = r²·∇²x below L
  have hY : ∀ k, k < ly.L → ent2 (mscale (r * r) (laplacian ly r x)) i k
      = (fun (k : ℕ) => -((k : K) * ((k + 1 : ℕ) : K)) * ent2 x i k) k := by
    intro k hk
    have c1 : k < ly.cols := by omega
    rw [ent2_mscale, ent2_laplacian, if_pos c1, ly.lval_of_lt k hk]
    field_simp
  -- parity of the number of rows
  have hpar : if ly.fast then x.length % 2 = 0 else x.length % 2 = 1 := by
    rw [hx.1]
    cases hf : ly.fast
    · simp only [Bool.false_eq_true, if_false]
      have : ly.rows = 2 * ly.M - 1 := by simp [Layout.rows, hf]
      have : 0 < ly.rows := by omega
      omega
    · simp only [if_true]
      have : ly.rows = 2 * ly.M + ly.padRows := by simp [Layout.rows, hf]
      have := hpad hf
      omega
  rw [ent2_madd _ _ _ _ i j hD1D1 hdd, ent2_msub _ _ _ _ i j hy hMuMu,
    ent2_dDlon_dDlon ly x i j (by rw [hx.1]; exact hi) hpar,
    ly.freq_eq_mAbs i (fun hf => (hm.2.1 hf).2),
    ent2_D1_interior ly a b _ hD1 ha hb i j (by omega),
    d1F_congr _ _ _ (d1F (ent2 a i) (ent2 b i) (ent2 x i)) j
      (ent2_D1_interior ly a b x hx ha hb i (j + 1) (by omega))
      (fun _ => ent2_D1_interior ly a b x hx ha hb i (j - 1) (by omega)),
    ent2_Mu a b _ _ _ hMu ha hb i j (by omega),
    muF_congr _ _ _ (muF (ent2 a i) (ent2 b i)
        (fun (k : ℕ) => -((k : K) * ((k + 1 : ℕ) : K)) * ent2 x i k)) j
      (by rw [ent2_Mu a b _ _ _ hy ha hb i (j + 1) (by omega)]
          exact muF_congr _ _ _ _ (j + 1) (hY (j + 1 + 1) (by omega)) (fun _ => hY (j + 1 - 1) (by omega)))
      (fun h0 => by
        rw [ent2_Mu a b _ _ _ hy ha hb i (j - 1) (by omega)]
        exact muF_congr _ _ _ _ (j - 1) (hY (j - 1 + 1) (by omega)) (fun _ => hY (j - 1 - 1) (by omega))),
    hY j (by omega)]
  exact legendre_algebra (ent2 a i) (ent2 b i) (ent2 x i) (ly.mAbs i) j hmj
    (fun k hk => Hb k (by omega)) (fun k h1 h2 => Ha k h1 (by omega))

/-- **T2.4b** for the model's own weight arrays, with any `sqrt` that squares back on the ratios
 `(l² − m²)/(4l² − 1)`, `m ≤ l` -/
theorem legendre_equation_model (sqrt : K → K)
    (hs : ∀ m l : ℕ, m ≤ l → sqrt (ratio m l) * sqrt (ratio m l) = ratio m l)
    (ly : Layout) (x : List (List K)) (r : K) (hr : r ≠ 0) (hx : IsMat x ly.rows ly.cols)
    (hpad : ly.fast = true → ly.padRows % 2 = 0)
    (i j : Nat) (hi : i < ly.rows) (hmask : ly.maskAt i j = true) (hj : j + 2 < ly.L) :
    ent2 (madd (cosLatDDlat sqrt ly (cosLatDDlat sqrt ly x)) (dDlon ly (dDlon ly x))) i j
      = ent2 (msub (mscale (r * r) (laplacian ly r x))
          (sinLatMul sqrt ly (sinLatMul sqrt ly (mscale (r * r) (laplacian ly r x))))) i j := by
  have hm := (ly.maskAt_iff i j).1 hmask
  apply legendre_equation ly _ _ x r hr hx (isMat_weightA sqrt ly) (isMat_weightB sqrt ly) hpad i j hi
    hmask hj
  · intro k hk hkL
    apply weightA_sq sqrt ly i k hs _ hi
    rw [Layout.maskAt_iff, ly.lval_of_lt k hkL]
    exact ⟨hk, hm.2.1, hkL⟩
  · intro k hk
    exact weightB_eq_weightA_succ sqrt ly i k hk

end T24

/-! ## T2.5 linearity, `k ×` algebra, clipping -/
section T25
variable {K : Type} [Field K]

/-! ### linearity of the operators that are diagonal in `l` -/

theorem mulCols_add (x y : List (List K)) (v : List K) (R C : Nat) (hx : IsMat x R C)
    (hy : IsMat y R C) (hv : v.length = C) :
    mulCols (madd x y) v = madd (mulCols x v) (mulCols y v) := by
  have h1 := isMat_mulCols x v R C hx hv
  have h2 := isMat_mulCols y v R C hy hv
  apply mat_ext _ _ R C (isMat_mulCols _ v R C (isMat_madd x y R C hx hy) hv) (isMat_madd _ _ R C h1 h2)
  intro i _ j _
  rw [ent2_mulCols, ent2_madd x y R C i j hx hy, ent2_madd _ _ R C i j h1 h2, ent2_mulCols, ent2_mulCols]
  ring

theorem mulCols_smul (c : K) (x : List (List K)) (v : List K) (R C : Nat) (hx : IsMat x R C)
    (hv : v.length = C) : mulCols (mscale c x) v = mscale c (mulCols x v) := by
  apply mat_ext _ _ R C (isMat_mulCols _ v R C (isMat_mscale c x R C hx) hv)
    (isMat_mscale c _ R C (isMat_mulCols x v R C hx hv))
  intro i _ j _
  rw [ent2_mulCols, ent2_mscale, ent2_mscale, ent2_mulCols]
  ring

theorem mulCols_neg (x : List (List K)) (v : List K) (R C : Nat) (hx : IsMat x R C)
    (hv : v.length = C) : mulCols (mneg x) v = mneg (mulCols x v) := by
  apply mat_ext _ _ R C (isMat_mulCols _ v R C (isMat_mneg x R C hx) hv)
    (isMat_mneg _ R C (isMat_mulCols x v R C hx hv))
  intro i _ j _
  rw [ent2_mulCols, ent2_mneg, ent2_mneg, ent2_mulCols]
  ring

/-- **T2.5** `laplacian` is linear -/
theorem laplacian_add (ly : Layout) (r : K) (x y : List (List K)) (hx : IsMat x ly.rows ly.cols)
    (hy : IsMat y ly.rows ly.cols) :
    laplacian ly r (madd x y) = madd (laplacian ly r x) (laplacian ly r y) :=
  mulCols_add x y _ _ _ hx hy (length_eigenvalues ly r)
theorem laplacian_smul (ly : Layout) (r c : K) (x : List (List K)) (hx : IsMat x ly.rows ly.cols) :
    laplacian ly r (mscale c x) = mscale c (laplacian ly r x) :=
  mulCols_smul c x _ _ _ hx (length_eigenvalues ly r)

/-- **T2.5** `inverse_laplacian` is linear -/
theorem inverseLaplacian_add (ly : Layout) (r : K) (x y : List (List K))
    (hx : IsMat x ly.rows ly.cols) (hy : IsMat y ly.rows ly.cols) :
    inverseLaplacian ly r (madd x y) = madd (inverseLaplacian ly r x) (inverseLaplacian ly r y) :=
  mulCols_add x y _ _ _ hx hy (length_inverseEigenvalues ly r)
theorem inverseLaplacian_smul (ly : Layout) (r c : K) (x : List (List K))
    (hx : IsMat x ly.rows ly.cols) :
    inverseLaplacian ly r (mscale c x) = mscale c (inverseLaplacian ly r x) :=
  mulCols_smul c x _ _ _ hx (length_inverseEigenvalues ly r)

/-- **T2.5** `clip_wavenumbers` is linear -/
theorem clip_add (ly : Layout) (n : Nat) (x y : List (List K)) (hx : IsMat x ly.rows ly.cols)
    (hy : IsMat y ly.rows ly.cols) : clip ly n (madd x y) = madd (clip ly n x) (clip ly n y) :=
  mulCols_add x y _ _ _ hx hy (length_clipMask ly n)
theorem clip_smul (ly : Layout) (n : Nat) (c : K) (x : List (List K)) (hx : IsMat x ly.rows ly.cols) :
    clip ly n (mscale c x) = mscale c (clip ly n x) :=
  mulCols_smul c x _ _ _ hx (length_clipMask ly n)
theorem clip_neg (ly : Layout) (n : Nat) (x : List (List K)) (hx : IsMat x ly.rows ly.cols) :
    clip ly n (mneg x) = mneg (clip ly n x) :=
  mulCols_neg x _ _ _ hx (length_clipMask ly n)

theorem clipIf_add (ly : Layout) (c : Bool) (x y : List (List K)) (hx : IsMat x ly.rows ly.cols)
    (hy : IsMat y ly.rows ly.cols) : clipIf ly c (madd x y) = madd (clipIf ly c x) (clipIf ly c y) := by
  cases c
  · rfl
  · exact clip_add ly 1 x y hx hy

theorem clipIf_neg (ly : Layout) (c : Bool) (x : List (List K)) (hx : IsMat x ly.rows ly.cols) :
    clipIf ly c (mneg x) = mneg (clipIf ly c x) := by
  cases c
  · rfl
  · exact clip_neg ly 1 x hx

/-! ### clipping laws -/

/-- **T2.5** clipping is idempotent; more generally `clip n ∘ clip k = clip (max n k)` -/
theorem clip_clip (ly : Layout) (n k : Nat) (x : List (List K)) (hx : IsMat x ly.rows ly.cols) :
    clip ly n (clip ly k x) = clip ly (max n k) x := by
  apply mat_ext _ _ _ _ (isMat_clip ly n _ (isMat_clip ly k x hx)) (isMat_clip ly _ x hx)
  intro i _ j _
  rw [ent2_clip, ent2_clip, ent2_clip]
  by_cases h1 : j + n < ly.L <;> by_cases h2 : j + k < ly.L
  · rw [if_pos h1, if_pos h2, if_pos (by omega)]
  · rw [if_pos h1, if_neg h2, if_neg (by omega)]
  · rw [if_neg h1, if_neg (by omega)]
  · rw [if_neg h1, if_neg (by omega)]

theorem clip_idempotent (ly : Layout) (n : Nat) (x : List (List K)) (hx : IsMat x ly.rows ly.cols) :
    clip ly n (clip ly n x) = clip ly n x := by
  rw [clip_clip ly n n x hx, max_self]

/-- **T2.5** clipping commutes with every operator that is diagonal in `l` -/
theorem clip_mulCols (ly : Layout) (n : Nat) (x : List (List K)) (v : List K)
    (hx : IsMat x ly.rows ly.cols) (hv : v.length = ly.cols) :
    clip ly n (mulCols x v) = mulCols (clip ly n x) v := by
  apply mat_ext _ _ _ _ (isMat_clip ly n _ (isMat_mulCols x v _ _ hx hv))
    (isMat_mulCols _ v _ _ (isMat_clip ly n x hx) hv)
  intro i _ j _
  rw [ent2_clip, ent2_mulCols, ent2_mulCols, ent2_clip]
  split <;> ring

theorem clip_laplacian (ly : Layout) (n : Nat) (r : K) (x : List (List K))
    (hx : IsMat x ly.rows ly.cols) : clip ly n (laplacian ly r x) = laplacian ly r (clip ly n x) :=
  clip_mulCols ly n x _ hx (length_eigenvalues ly r)

theorem clip_inverseLaplacian (ly : Layout) (n : Nat) (r : K) (x : List (List K))
    (hx : IsMat x ly.rows ly.cols) :
    clip ly n (inverseLaplacian ly r x) = inverseLaplacian ly r (clip ly n x) :=
  clip_mulCols ly n x _ hx (length_inverseEigenvalues ly r)

/-- **T2.5** clipping commutes with the longitude derivative (which acts on rows) -/
theorem clip_dDlon (ly : Layout) (n : Nat) (x : List (List K)) (hx : IsMat x ly.rows ly.cols) :
    clip ly n (dDlon ly x) = dDlon ly (clip ly n x) := by
  have hc := isMat_clip ly n x hx
  apply mat_ext _ _ _ _ (isMat_clip ly n _ (isMat_dDlon ly x hx)) (isMat_dDlon ly _ hc)
  intro i hi j _
  rw [ent2_clip, ent2_dDlon ly x i j (by rw [hx.1]; exact hi),
    ent2_dDlon ly _ i j (by rw [hc.1]; exact hi), ent2_clip, ent2_clip]
  by_cases hc : (if ly.fast = true then i % 2 = 0 else i % 2 = 1)
  · simp only [if_pos hc]; split <;> ring
  · simp only [if_neg hc]; split <;> ring

/-! ### linearity of the latitude operators -/

theorem twoTerm_add (fa fb : List K) (a b x y : List (List K)) (R C : Nat) (hx : IsMat x R C)
    (hy : IsMat y R C) (ha : IsMat a R C) (hb : IsMat b R C) (hfa : fa.length = C)
    (hfb : fb.length = C) :
    twoTerm fa fb a b (madd x y) = madd (twoTerm fa fb a b x) (twoTerm fa fb a b y) := by
  have hxy := isMat_madd x y R C hx hy
  have h1 := isMat_twoTerm fa fb a b x R C hx ha hb hfa hfb
  have h2 := isMat_twoTerm fa fb a b y R C hy ha hb hfa hfb
  apply mat_ext _ _ R C (isMat_twoTerm fa fb a b _ R C hxy ha hb hfa hfb) (isMat_madd _ _ R C h1 h2)
  intro i _ j hj
  rw [ent2_madd _ _ R C i j h1 h2, ent2_twoTerm fa fb a b _ R C i j hxy ha hb hfa hfb hj,
    ent2_twoTerm fa fb a b x R C i j hx ha hb hfa hfb hj,
    ent2_twoTerm fa fb a b y R C i j hy ha hb hfa hfb hj,
    ent2_madd x y R C i (j + 1) hx hy, ent2_madd x y R C i (j - 1) hx hy]
  split <;> ring

theorem twoTerm_neg (fa fb : List K) (a b x : List (List K)) (R C : Nat) (hx : IsMat x R C)
    (ha : IsMat a R C) (hb : IsMat b R C) (hfa : fa.length = C) (hfb : fb.length = C) :
    twoTerm fa fb a b (mneg x) = mneg (twoTerm fa fb a b x) := by
  have hn := isMat_mneg x R C hx
  have h1 := isMat_twoTerm fa fb a b x R C hx ha hb hfa hfb
  apply mat_ext _ _ R C (isMat_twoTerm fa fb a b _ R C hn ha hb hfa hfb) (isMat_mneg _ R C h1)
  intro i _ j hj
  rw [ent2_mneg, ent2_twoTerm fa fb a b _ R C i j hn ha hb hfa hfb hj,
    ent2_twoTerm fa fb a b x R C i j hx ha hb hfa hfb hj, ent2_mneg, ent2_mneg]
  split <;> ring

theorem twoTerm_smul (fa fb : List K) (c : K) (a b x : List (List K)) (R C : Nat) (hx : IsMat x R C)
    (ha : IsMat a R C) (hb : IsMat b R C) (hfa : fa.length = C) (hfb : fb.length = C) :
    twoTerm fa fb a b (mscale c x) = mscale c (twoTerm fa fb a b x) := by
  have hn := isMat_mscale c x R C hx
  have h1 := isMat_twoTerm fa fb a b x R C hx ha hb hfa hfb
  apply mat_ext _ _ R C (isMat_twoTerm fa fb a b _ R C hn ha hb hfa hfb) (isMat_mscale c _ R C h1)
  intro i _ j hj
  rw [ent2_mscale, ent2_twoTerm fa fb a b _ R C i j hn ha hb hfa hfb hj,
    ent2_twoTerm fa fb a b x R C i j hx ha hb hfa hfb hj, ent2_mscale, ent2_mscale]
  split <;> ring

/-- **T2.5** `cos_lat_d_dlat` is linear (any weights) -/
theorem D1_add (ly : Layout) (a b x y : List (List K)) (hx : IsMat x ly.rows ly.cols)
    (hy : IsMat y ly.rows ly.cols) (ha : IsMat a ly.rows ly.cols) (hb : IsMat b ly.rows ly.cols) :
    cosLatDDlatW ly a b (madd x y) = madd (cosLatDDlatW ly a b x) (cosLatDDlatW ly a b y) :=
  twoTerm_add _ _ a b x y _ _ hx hy ha hb (by simp [Layout.length_lvals]) (by simp [Layout.length_lvals])
theorem D1_smul (ly : Layout) (c : K) (a b x : List (List K)) (hx : IsMat x ly.rows ly.cols)
    (ha : IsMat a ly.rows ly.cols) (hb : IsMat b ly.rows ly.cols) :
    cosLatDDlatW ly a b (mscale c x) = mscale c (cosLatDDlatW ly a b x) :=
  twoTerm_smul _ _ c a b x _ _ hx ha hb (by simp [Layout.length_lvals]) (by simp [Layout.length_lvals])
theorem D1_neg (ly : Layout) (a b x : List (List K)) (hx : IsMat x ly.rows ly.cols)
    (ha : IsMat a ly.rows ly.cols) (hb : IsMat b ly.rows ly.cols) :
    cosLatDDlatW ly a b (mneg x) = mneg (cosLatDDlatW ly a b x) :=
  twoTerm_neg _ _ a b x _ _ hx ha hb (by simp [Layout.length_lvals]) (by simp [Layout.length_lvals])

/-- **T2.5** `sec_lat_d_dlat_cos2` is linear (any weights) -/
theorem D2_add (ly : Layout) (a b x y : List (List K)) (hx : IsMat x ly.rows ly.cols)
    (hy : IsMat y ly.rows ly.cols) (ha : IsMat a ly.rows ly.cols) (hb : IsMat b ly.rows ly.cols) :
    secLatDDlatCos2W ly a b (madd x y)
      = madd (secLatDDlatCos2W ly a b x) (secLatDDlatCos2W ly a b y) :=
  twoTerm_add _ _ a b x y _ _ hx hy ha hb (by simp [Layout.length_lvals]) (by simp [Layout.length_lvals])
theorem D2_smul (ly : Layout) (c : K) (a b x : List (List K)) (hx : IsMat x ly.rows ly.cols)
    (ha : IsMat a ly.rows ly.cols) (hb : IsMat b ly.rows ly.cols) :
    secLatDDlatCos2W ly a b (mscale c x) = mscale c (secLatDDlatCos2W ly a b x) :=
  twoTerm_smul _ _ c a b x _ _ hx ha hb (by simp [Layout.length_lvals]) (by simp [Layout.length_lvals])
theorem D2_neg (ly : Layout) (a b x : List (List K)) (hx : IsMat x ly.rows ly.cols)
    (ha : IsMat a ly.rows ly.cols) (hb : IsMat b ly.rows ly.cols) :
    secLatDDlatCos2W ly a b (mneg x) = mneg (secLatDDlatCos2W ly a b x) :=
  twoTerm_neg _ _ a b x _ _ hx ha hb (by simp [Layout.length_lvals]) (by simp [Layout.length_lvals])

/-- **T2.5** multiplication by `sin θ` (`sinLatMulW`) is linear (any weights) -/
theorem Mu_add (a b x y : List (List K)) (R C : Nat) (hx : IsMat x R C) (hy : IsMat y R C)
    (ha : IsMat a R C) (hb : IsMat b R C) :
    sinLatMulW a b (madd x y) = madd (sinLatMulW a b x) (sinLatMulW a b y) := by
  have hxy := isMat_madd x y R C hx hy
  have h1 := isMat_sinLatMulW a b x R C hx ha hb
  have h2 := isMat_sinLatMulW a b y R C hy ha hb
  apply mat_ext _ _ R C (isMat_sinLatMulW a b _ R C hxy ha hb) (isMat_madd _ _ R C h1 h2)
  intro i _ j hj
  rw [ent2_madd _ _ R C i j h1 h2, ent2_sinLatMulW a b _ R C i j hxy ha hb hj,
    ent2_sinLatMulW a b x R C i j hx ha hb hj, ent2_sinLatMulW a b y R C i j hy ha hb hj,
    ent2_madd x y R C i (j + 1) hx hy, ent2_madd x y R C i (j - 1) hx hy]
  split <;> ring

theorem Mu_smul (c : K) (a b x : List (List K)) (R C : Nat) (hx : IsMat x R C)
    (ha : IsMat a R C) (hb : IsMat b R C) :
    sinLatMulW a b (mscale c x) = mscale c (sinLatMulW a b x) := by
  have hn := isMat_mscale c x R C hx
  have h1 := isMat_sinLatMulW a b x R C hx ha hb
  apply mat_ext _ _ R C (isMat_sinLatMulW a b _ R C hn ha hb) (isMat_mscale c _ R C h1)
  intro i _ j hj
  rw [ent2_mscale, ent2_sinLatMulW a b _ R C i j hn ha hb hj,
    ent2_sinLatMulW a b x R C i j hx ha hb hj, ent2_mscale, ent2_mscale]
  split <;> ring

/-! ### gradient, divergence, curl -/

theorem mdivc_add (x y : List (List K)) (c : K) (R C : Nat) (hx : IsMat x R C) (hy : IsMat y R C) :
    mdivc (madd x y) c = madd (mdivc x c) (mdivc y c) := by
  have h1 := isMat_mdivc x c R C hx
  have h2 := isMat_mdivc y c R C hy
  apply mat_ext _ _ R C (isMat_mdivc _ c R C (isMat_madd x y R C hx hy)) (isMat_madd _ _ R C h1 h2)
  intro i _ j _
  rw [ent2_mdivc, ent2_madd x y R C i j hx hy, ent2_madd _ _ R C i j h1 h2, ent2_mdivc, ent2_mdivc]
  ring

theorem isMat_grad (ly : Layout) (r : K) (a b x : List (List K)) (c : Bool)
    (hx : IsMat x ly.rows ly.cols) (ha : IsMat a ly.rows ly.cols) (hb : IsMat b ly.rows ly.cols) :
    IsMat (cosLatGradW ly r a b x c).1 ly.rows ly.cols
      ∧ IsMat (cosLatGradW ly r a b x c).2 ly.rows ly.cols :=
  ⟨isMat_clipIf ly c _ (isMat_mdivc _ r _ _ (isMat_dDlon ly x hx)),
   isMat_clipIf ly c _ (isMat_mdivc _ r _ _ (isMat_cosLatDDlatW ly a b x hx ha hb))⟩

/-- **T2.5** `cos_lat_grad` is additive (both components, both clip settings) -/
theorem grad_add (ly : Layout) (r : K) (a b x y : List (List K)) (c : Bool)
    (hx : IsMat x ly.rows ly.cols) (hy : IsMat y ly.rows ly.cols) (ha : IsMat a ly.rows ly.cols)
    (hb : IsMat b ly.rows ly.cols) :
    cosLatGradW ly r a b (madd x y) c = vadd2 (cosLatGradW ly r a b x c) (cosLatGradW ly r a b y c) := by
  unfold cosLatGradW vadd2
  simp only
  rw [dDlon_add ly x y hx hy, D1_add ly a b x y hx hy ha hb,
    mdivc_add _ _ r _ _ (isMat_dDlon ly x hx) (isMat_dDlon ly y hy),
    mdivc_add _ _ r _ _ (isMat_cosLatDDlatW ly a b x hx ha hb) (isMat_cosLatDDlatW ly a b y hy ha hb),
    clipIf_add ly c _ _ (isMat_mdivc _ r _ _ (isMat_dDlon ly x hx)) (isMat_mdivc _ r _ _ (isMat_dDlon ly y hy)),
    clipIf_add ly c _ _ (isMat_mdivc _ r _ _ (isMat_cosLatDDlatW ly a b x hx ha hb))
      (isMat_mdivc _ r _ _ (isMat_cosLatDDlatW ly a b y hy ha hb))]

theorem isMat_div (ly : Layout) (r : K) (a b : List (List K)) (v : Vec K) (c : Bool)
    (h1 : IsMat v.1 ly.rows ly.cols) (h2 : IsMat v.2 ly.rows ly.cols) (ha : IsMat a ly.rows ly.cols)
    (hb : IsMat b ly.rows ly.cols) : IsMat (divCosLatW ly r a b v c) ly.rows ly.cols :=
  isMat_clipIf ly c _ (isMat_mdivc _ r _ _
    (isMat_madd _ _ _ _ (isMat_dDlon ly _ h1) (isMat_secLatDDlatCos2W ly a b _ h2 ha hb)))

theorem isMat_curl (ly : Layout) (r : K) (a b : List (List K)) (v : Vec K) (c : Bool)
    (h1 : IsMat v.1 ly.rows ly.cols) (h2 : IsMat v.2 ly.rows ly.cols) (ha : IsMat a ly.rows ly.cols)
    (hb : IsMat b ly.rows ly.cols) : IsMat (curlCosLatW ly r a b v c) ly.rows ly.cols :=
  isMat_clipIf ly c _ (isMat_mdivc _ r _ _
    (isMat_msub _ _ _ _ (isMat_dDlon ly _ h2) (isMat_secLatDDlatCos2W ly a b _ h1 ha hb)))

/-- `div_cos_lat`, entry-wise -/
theorem ent2_div (ly : Layout) (r : K) (a b : List (List K)) (v : Vec K) (c : Bool)
    (h1 : IsMat v.1 ly.rows ly.cols) (h2 : IsMat v.2 ly.rows ly.cols) (ha : IsMat a ly.rows ly.cols)
    (hb : IsMat b ly.rows ly.cols) (i j : Nat) :
    ent2 (divCosLatW ly r a b v c) i j
      = if c = true ∧ ¬ (j + 1 < ly.L) then 0
        else (ent2 (dDlon ly v.1) i j + ent2 (secLatDDlatCos2W ly a b v.2) i j) / r := by
  unfold divCosLatW
  rw [ent2_clipIf, ent2_mdivc,
    ent2_madd _ _ _ _ i j (isMat_dDlon ly _ h1) (isMat_secLatDDlatCos2W ly a b _ h2 ha hb)]

/-- `curl_cos_lat`, entry-wise -/
theorem ent2_curl (ly : Layout) (r : K) (a b : List (List K)) (v : Vec K) (c : Bool)
    (h1 : IsMat v.1 ly.rows ly.cols) (h2 : IsMat v.2 ly.rows ly.cols) (ha : IsMat a ly.rows ly.cols)
    (hb : IsMat b ly.rows ly.cols) (i j : Nat) :
    ent2 (curlCosLatW ly r a b v c) i j
      = if c = true ∧ ¬ (j + 1 < ly.L) then 0
        else (ent2 (dDlon ly v.2) i j - ent2 (secLatDDlatCos2W ly a b v.1) i j) / r := by
  unfold curlCosLatW
  rw [ent2_clipIf, ent2_mdivc,
    ent2_msub _ _ _ _ i j (isMat_dDlon ly _ h2) (isMat_secLatDDlatCos2W ly a b _ h1 ha hb)]

/-- **T2.5** `k × (k × v) = −v` -/
theorem kCross_kCross (v : Vec K) : kCross (kCross v) = (mneg v.1, mneg v.2) := rfl

/-- **T2.5** `div(k × v) = −curl v` -/
theorem div_kCross (ly : Layout) (r : K) (a b : List (List K)) (v : Vec K) (c : Bool)
    (h1 : IsMat v.1 ly.rows ly.cols) (h2 : IsMat v.2 ly.rows ly.cols) (ha : IsMat a ly.rows ly.cols)
    (hb : IsMat b ly.rows ly.cols) :
    divCosLatW ly r a b (kCross v) c = mneg (curlCosLatW ly r a b v c) := by
  have hk1 : IsMat (kCross v).1 ly.rows ly.cols := isMat_mneg _ _ _ h2
  have hk2 : IsMat (kCross v).2 ly.rows ly.cols := h1
  apply mat_ext _ _ _ _ (isMat_div ly r a b _ c hk1 hk2 ha hb)
    (isMat_mneg _ _ _ (isMat_curl ly r a b v c h1 h2 ha hb))
  intro i _ j _
  rw [ent2_mneg, ent2_div ly r a b _ c hk1 hk2 ha hb, ent2_curl ly r a b v c h1 h2 ha hb]
  show (if c = true ∧ ¬ (j + 1 < ly.L) then 0
        else (ent2 (dDlon ly (mneg v.2)) i j + ent2 (secLatDDlatCos2W ly a b v.1) i j) / r) = _
  rw [dDlon_neg ly v.2 h2, ent2_mneg]
  split <;> ring

/-- **T2.5** `curl(k × v) = div v` -/
theorem curl_kCross (ly : Layout) (r : K) (a b : List (List K)) (v : Vec K) (c : Bool)
    (h1 : IsMat v.1 ly.rows ly.cols) (h2 : IsMat v.2 ly.rows ly.cols) (ha : IsMat a ly.rows ly.cols)
    (hb : IsMat b ly.rows ly.cols) :
    curlCosLatW ly r a b (kCross v) c = divCosLatW ly r a b v c := by
  have hk1 : IsMat (kCross v).1 ly.rows ly.cols := isMat_mneg _ _ _ h2
  have hk2 : IsMat (kCross v).2 ly.rows ly.cols := h1
  apply mat_ext _ _ _ _ (isMat_curl ly r a b _ c hk1 hk2 ha hb) (isMat_div ly r a b v c h1 h2 ha hb)
  intro i _ j _
  rw [ent2_curl ly r a b _ c hk1 hk2 ha hb, ent2_div ly r a b v c h1 h2 ha hb]
  show (if c = true ∧ ¬ (j + 1 < ly.L) then 0
        else (ent2 (dDlon ly v.1) i j - ent2 (secLatDDlatCos2W ly a b (mneg v.2)) i j) / r) = _
  rw [D2_neg ly a b v.2 h2 ha hb, ent2_mneg]
  split <;> ring

/-- **T2.5** `div_cos_lat` is additive -/
theorem div_add (ly : Layout) (r : K) (a b : List (List K)) (u v : Vec K) (c : Bool)
    (hu1 : IsMat u.1 ly.rows ly.cols) (hu2 : IsMat u.2 ly.rows ly.cols)
    (hv1 : IsMat v.1 ly.rows ly.cols) (hv2 : IsMat v.2 ly.rows ly.cols)
    (ha : IsMat a ly.rows ly.cols) (hb : IsMat b ly.rows ly.cols) :
    divCosLatW ly r a b (vadd2 u v) c = madd (divCosLatW ly r a b u c) (divCosLatW ly r a b v c) := by
  have hs1 : IsMat (vadd2 u v).1 ly.rows ly.cols := isMat_madd _ _ _ _ hu1 hv1
  have hs2 : IsMat (vadd2 u v).2 ly.rows ly.cols := isMat_madd _ _ _ _ hu2 hv2
  have hdu := isMat_div ly r a b u c hu1 hu2 ha hb
  have hdv := isMat_div ly r a b v c hv1 hv2 ha hb
  apply mat_ext _ _ _ _ (isMat_div ly r a b _ c hs1 hs2 ha hb) (isMat_madd _ _ _ _ hdu hdv)
  intro i _ j _
  rw [ent2_madd _ _ _ _ i j hdu hdv, ent2_div ly r a b _ c hs1 hs2 ha hb,
    ent2_div ly r a b u c hu1 hu2 ha hb, ent2_div ly r a b v c hv1 hv2 ha hb]
  show (if c = true ∧ ¬ (j + 1 < ly.L) then 0
        else (ent2 (dDlon ly (madd u.1 v.1)) i j
          + ent2 (secLatDDlatCos2W ly a b (madd u.2 v.2)) i j) / r) = _
  rw [dDlon_add ly _ _ hu1 hv1, D2_add ly a b _ _ hu2 hv2 ha hb,
    ent2_madd _ _ _ _ i j (isMat_dDlon ly _ hu1) (isMat_dDlon ly _ hv1),
    ent2_madd _ _ _ _ i j (isMat_secLatDDlatCos2W ly a b _ hu2 ha hb)
      (isMat_secLatDDlatCos2W ly a b _ hv2 ha hb)]
  split <;> ring

/-- **T2.5** `curl_cos_lat` is additive -/
theorem curl_add (ly : Layout) (r : K) (a b : List (List K)) (u v : Vec K) (c : Bool)
    (hu1 : IsMat u.1 ly.rows ly.cols) (hu2 : IsMat u.2 ly.rows ly.cols)
    (hv1 : IsMat v.1 ly.rows ly.cols) (hv2 : IsMat v.2 ly.rows ly.cols)
    (ha : IsMat a ly.rows ly.cols) (hb : IsMat b ly.rows ly.cols) :
    curlCosLatW ly r a b (vadd2 u v) c = madd (curlCosLatW ly r a b u c) (curlCosLatW ly r a b v c) := by
  have hs1 : IsMat (vadd2 u v).1 ly.rows ly.cols := isMat_madd _ _ _ _ hu1 hv1
  have hs2 : IsMat (vadd2 u v).2 ly.rows ly.cols := isMat_madd _ _ _ _ hu2 hv2
  have hdu := isMat_curl ly r a b u c hu1 hu2 ha hb
  have hdv := isMat_curl ly r a b v c hv1 hv2 ha hb
  apply mat_ext _ _ _ _ (isMat_curl ly r a b _ c hs1 hs2 ha hb) (isMat_madd _ _ _ _ hdu hdv)
  intro i _ j _
  rw [ent2_madd _ _ _ _ i j hdu hdv, ent2_curl ly r a b _ c hs1 hs2 ha hb,
    ent2_curl ly r a b u c hu1 hu2 ha hb, ent2_curl ly r a b v c hv1 hv2 ha hb]
  show (if c = true ∧ ¬ (j + 1 < ly.L) then 0
        else (ent2 (dDlon ly (madd u.2 v.2)) i j
          - ent2 (secLatDDlatCos2W ly a b (madd u.1 v.1)) i j) / r) = _
  rw [dDlon_add ly _ _ hu2 hv2, D2_add ly a b _ _ hu1 hv1 ha hb,
    ent2_madd _ _ _ _ i j (isMat_dDlon ly _ hu2) (isMat_dDlon ly _ hv2),
    ent2_madd _ _ _ _ i j (isMat_secLatDDlatCos2W ly a b _ hu1 ha hb)
      (isMat_secLatDDlatCos2W ly a b _ hv1 ha hb)]
  split <;> ring

/-! ### homogeneity of gradient, divergence and curl (used to reduce Hyp-A / Hyp-B to unit fields) -/

theorem mdivc_smul (s : K) (x : List (List K)) (d : K) (R C : Nat) (hx : IsMat x R C) :
    mdivc (mscale s x) d = mscale s (mdivc x d) := by
  apply mat_ext _ _ R C (isMat_mdivc _ d R C (isMat_mscale s x R C hx))
    (isMat_mscale s _ R C (isMat_mdivc x d R C hx))
  intro i _ j _
  rw [ent2_mdivc, ent2_mscale, ent2_mscale, ent2_mdivc]
  ring

theorem clipIf_smul (ly : Layout) (c : Bool) (s : K) (x : List (List K)) (hx : IsMat x ly.rows ly.cols) :
    clipIf ly c (mscale s x) = mscale s (clipIf ly c x) := by
  cases c
  · rfl
  · exact clip_smul ly 1 s x hx

/-- **T2.5** `cos_lat_grad` is homogeneous -/
theorem grad_smul (ly : Layout) (r s : K) (a b x : List (List K)) (c : Bool)
    (hx : IsMat x ly.rows ly.cols) (ha : IsMat a ly.rows ly.cols) (hb : IsMat b ly.rows ly.cols) :
    cosLatGradW ly r a b (mscale s x) c
      = (mscale s (cosLatGradW ly r a b x c).1, mscale s (cosLatGradW ly r a b x c).2) := by
  unfold cosLatGradW
  simp only
  rw [dDlon_smul ly s x hx, D1_smul ly s a b x hx ha hb,
    mdivc_smul s _ r _ _ (isMat_dDlon ly x hx), mdivc_smul s _ r _ _ (isMat_cosLatDDlatW ly a b x hx ha hb),
    clipIf_smul ly c s _ (isMat_mdivc _ r _ _ (isMat_dDlon ly x hx)),
    clipIf_smul ly c s _ (isMat_mdivc _ r _ _ (isMat_cosLatDDlatW ly a b x hx ha hb))]

/-- **T2.5** `div_cos_lat` is homogeneous -/
theorem div_smul (ly : Layout) (r s : K) (a b : List (List K)) (v : Vec K) (c : Bool)
    (h1 : IsMat v.1 ly.rows ly.cols) (h2 : IsMat v.2 ly.rows ly.cols)
    (ha : IsMat a ly.rows ly.cols) (hb : IsMat b ly.rows ly.cols) :
    divCosLatW ly r a b (mscale s v.1, mscale s v.2) c = mscale s (divCosLatW ly r a b v c) := by
  have hs1 : IsMat (mscale s v.1, mscale s v.2).1 ly.rows ly.cols := isMat_mscale _ _ _ _ h1
  have hs2 : IsMat (mscale s v.1, mscale s v.2).2 ly.rows ly.cols := isMat_mscale _ _ _ _ h2
  have hd := isMat_div ly r a b v c h1 h2 ha hb
  apply mat_ext _ _ _ _ (isMat_div ly r a b _ c hs1 hs2 ha hb) (isMat_mscale _ _ _ _ hd)
  intro i _ j _
  rw [ent2_mscale, ent2_div ly r a b _ c hs1 hs2 ha hb, ent2_div ly r a b v c h1 h2 ha hb]
  show (if c = true ∧ ¬ (j + 1 < ly.L) then 0
        else (ent2 (dDlon ly (mscale s v.1)) i j
          + ent2 (secLatDDlatCos2W ly a b (mscale s v.2)) i j) / r) = _
  rw [dDlon_smul ly s _ h1, D2_smul ly s a b _ h2 ha hb, ent2_mscale, ent2_mscale]
  split <;> ring

/-- **T2.5** `curl_cos_lat` is homogeneous -/
theorem curl_smul (ly : Layout) (r s : K) (a b : List (List K)) (v : Vec K) (c : Bool)
    (h1 : IsMat v.1 ly.rows ly.cols) (h2 : IsMat v.2 ly.rows ly.cols)
    (ha : IsMat a ly.rows ly.cols) (hb : IsMat b ly.rows ly.cols) :
    curlCosLatW ly r a b (mscale s v.1, mscale s v.2) c = mscale s (curlCosLatW ly r a b v c) := by
  have hs1 : IsMat (mscale s v.1, mscale s v.2).1 ly.rows ly.cols := isMat_mscale _ _ _ _ h1
  have hs2 : IsMat (mscale s v.1, mscale s v.2).2 ly.rows ly.cols := isMat_mscale _ _ _ _ h2
  have hd := isMat_curl ly r a b v c h1 h2 ha hb
  apply mat_ext _ _ _ _ (isMat_curl ly r a b _ c hs1 hs2 ha hb) (isMat_mscale _ _ _ _ hd)
  intro i _ j _
  rw [ent2_mscale, ent2_curl ly r a b _ c hs1 hs2 ha hb, ent2_curl ly r a b v c h1 h2 ha hb]
  show (if c = true ∧ ¬ (j + 1 < ly.L) then 0
        else (ent2 (dDlon ly (mscale s v.2)) i j
          - ent2 (secLatDDlatCos2W ly a b (mscale s v.1)) i j) / r) = _
  rw [dDlon_smul ly s _ h2, D2_smul ly s a b _ h1 ha hb, ent2_mscale, ent2_mscale]
  split <;> ring

end T25

/-! ## T2.6 vorticity/divergence ↔ wind -/
section T26
variable {K : Type} [Field K]

/-- what the composition `uv_nodal_to_vor_div_modal ∘ vor_div_to_uv_nodal` does to a modal field
 between the two spectral stages: `to_modal((to_nodal(X) / cosθ) / cosθ)` -/
def sandwich (T : Transforms K) (cosl : List K) (X : List (List K)) : List (List K) :=
  T.toModal (divCols (divCols (T.toNodal X) cosl) cosl)

/-- number of top wavenumbers that must be empty: one for `clip = False`, two for `clip = True`
 (the gradient of wavenumber `L−2` lives at `L−1` and is clipped by design) -/
def topEmpty (c : Bool) : Nat := if c then 2 else 1

/-- the operator of Hyp-A: `div(S(cos_lat_grad ψ))` with `S = sandwich` applied component-wise -/
def divSGrad (ly : Layout) (r : K) (a b : List (List K)) (T : Transforms K) (cosl : List K) (c : Bool)
    (ψ : List (List K)) : List (List K) :=
  divCosLatW ly r a b (sandwich T cosl (cosLatGradW ly r a b ψ c).1,
    sandwich T cosl (cosLatGradW ly r a b ψ c).2) c

/-- the operator of Hyp-B: `curl(S(cos_lat_grad ψ))` -/
def curlSGrad (ly : Layout) (r : K) (a b : List (List K)) (T : Transforms K) (cosl : List K) (c : Bool)
    (ψ : List (List K)) : List (List K) :=
  curlCosLatW ly r a b (sandwich T cosl (cosLatGradW ly r a b ψ c).1,
    sandwich T cosl (cosLatGradW ly r a b ψ c).2) c

/-- the nodal sandwich `S` is shape-preserving, additive and odd whenever `to_nodal` and `to_modal`
 are (this discharges the three structural hypotheses of `vor_div_roundtrip` for any linear pair of
 transforms; `N × J` is the nodal shape).  Side condition of the division: no node at a pole
 (`cos θ_j ≠ 0`); with a zero the model's `x / 0 = 0` and the code's `inf`/`nan` differ. -/
theorem sandwich_linear (ly : Layout) (T : Transforms K) (cosl : List K) (N J : Nat)
    (hc : cosl.length = J) (hcos : ∀ c ∈ cosl, c ≠ 0)
    (hN : ∀ X, IsMat X ly.rows ly.cols → IsMat (T.toNodal X) N J)
    (hM : ∀ Z, IsMat Z N J → IsMat (T.toModal Z) ly.rows ly.cols)
    (hN_add : ∀ X Y, IsMat X ly.rows ly.cols → IsMat Y ly.rows ly.cols →
      T.toNodal (madd X Y) = madd (T.toNodal X) (T.toNodal Y))
    (hN_neg : ∀ X, IsMat X ly.rows ly.cols → T.toNodal (mneg X) = mneg (T.toNodal X))
    (hM_add : ∀ Z W, IsMat Z N J → IsMat W N J → T.toModal (madd Z W) = madd (T.toModal Z) (T.toModal W))
    (hM_neg : ∀ Z, IsMat Z N J → T.toModal (mneg Z) = mneg (T.toModal Z)) :
    (∀ X, IsMat X ly.rows ly.cols → IsMat (sandwich T cosl X) ly.rows ly.cols)
    ∧ (∀ X Y, IsMat X ly.rows ly.cols → IsMat Y ly.rows ly.cols →
        sandwich T cosl (madd X Y) = madd (sandwich T cosl X) (sandwich T cosl Y))
    ∧ (∀ X, IsMat X ly.rows ly.cols → sandwich T cosl (mneg X) = mneg (sandwich T cosl X)) := by
  have hdd : ∀ Z, IsMat Z N J → IsMat (divCols (divCols Z cosl) cosl) N J := fun Z hZ =>
    isMat_divCols _ _ _ _ (isMat_divCols _ _ _ _ hZ hc) hc
  have dd_add : ∀ Z W, IsMat Z N J → IsMat W N J →
      divCols (divCols (madd Z W) cosl) cosl
        = madd (divCols (divCols Z cosl) cosl) (divCols (divCols W cosl) cosl) := by
    intro Z W hZ hW
    apply mat_ext _ _ N J (hdd _ (isMat_madd Z W N J hZ hW)) (isMat_madd _ _ N J (hdd Z hZ) (hdd W hW))
    intro i _ j _
    rw [ent2_madd _ _ N J i j (hdd Z hZ) (hdd W hW), ent2_divCols, ent2_divCols, ent2_divCols,
      ent2_divCols, ent2_divCols, ent2_divCols, ent2_madd Z W N J i j hZ hW]
    ring
  have dd_neg : ∀ Z, IsMat Z N J →
      divCols (divCols (mneg Z) cosl) cosl = mneg (divCols (divCols Z cosl) cosl) := by
    intro Z hZ
    apply mat_ext _ _ N J (hdd _ (isMat_mneg Z N J hZ)) (isMat_mneg _ N J (hdd Z hZ))
    intro i _ j _
    rw [ent2_mneg, ent2_divCols, ent2_divCols, ent2_divCols, ent2_divCols, ent2_mneg]
    ring
  refine ⟨fun X hX => hM _ (hdd _ (hN X hX)), ?_, ?_⟩
  · intro X Y hX hY
    unfold sandwich
    rw [hN_add X Y hX hY, dd_add _ _ (hN X hX) (hN Y hY), hM_add _ _ (hdd _ (hN X hX)) (hdd _ (hN Y hY))]
  · intro X hX
    unfold sandwich
    rw [hN_neg X hX, dd_neg _ (hN X hX), hM_neg _ (hdd _ (hN X hX))]

/-- the same with the bundled notion `LinMap` (shape, additive, odd, homogeneous) -/
theorem sandwich_linMap (ly : Layout) (T : Transforms K) (cosl : List K) (N J : Nat)
    (hc : cosl.length = J) (hcos : ∀ c ∈ cosl, c ≠ 0)
    (hN : LinMap ly.rows ly.cols N J T.toNodal) (hM : LinMap N J ly.rows ly.cols T.toModal) :
    LinMap ly.rows ly.cols ly.rows ly.cols (sandwich T cosl) :=
  hM.comp ((linMap_divCols cosl N J hc).comp ((linMap_divCols cosl N J hc).comp hN))

/-- **T2.6, structural hypotheses discharged for the model's own transforms**: for every layout
 (real, fast, padded) and every basis `(f, p, w)` of consistent shape, the sandwich
 `S = to_modal ∘ (· / cos²θ) ∘ to_nodal` built from `shTransforms ly b` (`realSynth`/`realAnalysis`
 resp. `fastSynth`/`fastAnalysis`) is shape-preserving, additive, odd and homogeneous.  Its fields
 `.shape`, `.add`, `.neg` are exactly `hS_shape`, `hS_add`, `hS_neg` of `vor_div_roundtrip`. -/
theorem sandwich_shTransforms (ly : Layout) (b : SH.Basis K) (N J : Nat) (cosl : List K)
    (hb : BasisFor ly b N J) (hc : cosl.length = J) (hcos : ∀ c ∈ cosl, c ≠ 0) :
    LinMap ly.rows ly.cols ly.rows ly.cols (sandwich (shTransforms ly b) cosl) :=
  sandwich_linMap ly _ cosl N J hc hcos (linMap_toNodal ly b N J hb) (linMap_toModal ly b N J hb)

/-! ### the sandwich acts row-wise: Hyp-A / Hyp-B are statements about the Legendre tables alone -/

/-- cross Gram of the longitude factors of the analysis basis `ba` and the synthesis basis `bs` -/
def fCross (ba bs : SH.Basis K) (N r r' : Nat) : K := ∑ i ∈ range N, ent2 ba.f i r * ent2 bs.f i r'

/-- the `cos⁻²θ`-weighted Legendre cross Gram `Σ_j w_j · pa[r][j][l] · ps[r'][j][l'] / cos²θ_j` -/
def secGram (ba bs : SH.Basis K) (cosl : List K) (J r r' l l' : Nat) : K :=
  ∑ j ∈ range J, ent ba.w j * ent3 ba.p r j l * ent3 bs.p r' j l' / (ent cosl j * ent cosl j)

/-- **the nodal sandwich is separable**: for synthesis with `bs` and analysis with `ba` (the same basis
 for `shTransforms`), if the longitude factors are (bi)orthogonal, `Σ_i fa[i][r]·fs[i][r'] = g_r·δ_{rr'}`
 (discrete orthogonality of the Fourier basis on equispaced nodes), then `S = to_modal ∘ (·/cos²θ) ∘ to_nodal`
 acts on each modal row `r` separately, through the `cos⁻²θ`-weighted Gram matrix of the Legendre tables:
 `S(X)[r][l] = Σ_{l'} g_r · secGram[r][l][l'] · X[r][l']`.  Hence Hyp-A and Hyp-B do not involve the
 longitude transform at all. -/
theorem ent2_sandwich_separable (bs ba : SH.Basis K) (N R J L : Nat) (hbs : SH.Shaped bs N R J L)
    (hba : SH.Shaped ba N R J L) (cosl : List K) (hc : cosl.length = J) (hcos : ∀ c ∈ cosl, c ≠ 0)
    (g : Nat → K)
    (hF : ∀ r < R, ∀ r' < R, fCross ba bs N r r' = if r = r' then g r else 0)
    (X : List (List K)) (hX : IsMat X R L) (r l : Nat) (hr : r < R) :
    ent2 (sandwich ⟨SH.realSynth bs J, SH.realAnalysis ba R J L⟩ cosl X) r l
      = ∑ l' ∈ range L, g r * secGram ba bs cosl J r r l l' * ent2 X r l' := by
  have hz : IsMat (SH.realSynth bs J X) N J := isMat_realSynth bs N R J L hbs X
  have hdd : IsMat (divCols (divCols (SH.realSynth bs J X) cosl) cosl) N J :=
    isMat_divCols _ _ _ _ (isMat_divCols _ _ _ _ hz hc) hc
  have key : ent2 (sandwich ⟨SH.realSynth bs J, SH.realAnalysis ba R J L⟩ cosl X) r l
      = ∑ r' ∈ range R, ∑ l' ∈ range L,
          fCross ba bs N r r' * secGram ba bs cosl J r r' l l' * ent2 X r' l' := by
    show ent2 (SH.realAnalysis ba R J L (divCols (divCols (SH.realSynth bs J X) cosl) cosl)) r l = _
    rw [SH.ent2_realAnalysis ba N R J L hba _ hdd.2 (le_of_eq hdd.1) r l hr]
    have h1 : ∀ i j, ent2 (divCols (divCols (SH.realSynth bs J X) cosl) cosl) i j
        = (∑ r' ∈ range R, ent2 bs.f i r' * ∑ l' ∈ range L, ent3 bs.p r' j l' * ent2 X r' l')
          / ent cosl j / ent cosl j := by
      intro i j
      rw [ent2_divCols, ent2_divCols, SH.ent2_realSynth bs N R J L hbs X (rows_le_of_isMat _ _ _ hX)]
    simp only [h1, fCross, secGram, Finset.mul_sum, Finset.sum_mul, Finset.sum_div]
    rw [SH.sum4_reorder]
    apply Finset.sum_congr rfl; intro r' _
    apply Finset.sum_congr rfl; intro l' _
    rw [Finset.sum_comm]
    apply Finset.sum_congr rfl; intro j _
    apply Finset.sum_congr rfl; intro i _
    ring
  rw [key, Finset.sum_eq_single_of_mem r (Finset.mem_range.mpr hr)]
  · apply Finset.sum_congr rfl
    intro l' _
    rw [hF r hr r hr, if_pos rfl]
  · intro r' hr' hne
    apply Finset.sum_eq_zero
    intro l' _
    rw [hF r hr r' (Finset.mem_range.mp hr'), if_neg (fun h => hne h.symm), zero_mul, zero_mul]

/-- the composition of the two wind conversions, unfolded -/
theorem roundtrip_unfold (ly : Layout) (r : K) (a b : List (List K)) (T : Transforms K)
    (cosl : List K) (vor dv : List (List K)) (c : Bool) :
    uvNodalToVorDivModalW ly r a b T cosl (vorDivToUvNodalW ly r a b T cosl vor dv c).1
        (vorDivToUvNodalW ly r a b T cosl vor dv c).2 c
      = (curlCosLatW ly r a b (sandwich T cosl (getCosLatVectorW ly r a b vor dv c).1,
            sandwich T cosl (getCosLatVectorW ly r a b vor dv c).2) c,
         divCosLatW ly r a b (sandwich T cosl (getCosLatVectorW ly r a b vor dv c).1,
            sandwich T cosl (getCosLatVectorW ly r a b vor dv c).2) c) := rfl

/-- **T2.6, exact-arithmetic reduction** (no hypothesis on the quadrature): with `ψ = ∇⁻²ζ`,
 `χ = ∇⁻²δ`, the round trip `uv → (ζ, δ)` after `(ζ, δ) → uv` is, in every entry,

   `ζ' = curl(S(grad χ)) + div(S(grad ψ))`,   `δ' = div(S(grad χ)) − curl(S(grad ψ))`

 for any additive, odd, shape-preserving `S` — in particular for the model's own transforms
 (`sandwich_shTransforms`).  Everything that is *not* proved about the round trip is therefore
 contained in the two residuals `div(S(grad ·)) − ∇²·` (Hyp-A) and `curl(S(grad ·))` (Hyp-B). -/
theorem roundtrip_decomp (ly : Layout) (r : K) (a b : List (List K))
    (ha : IsMat a ly.rows ly.cols) (hb : IsMat b ly.rows ly.cols) (T : Transforms K) (cosl : List K)
    (hcos : ∀ c ∈ cosl, c ≠ 0) (c : Bool)
    (hS_shape : ∀ X, IsMat X ly.rows ly.cols → IsMat (sandwich T cosl X) ly.rows ly.cols)
    (hS_add : ∀ X Y, IsMat X ly.rows ly.cols → IsMat Y ly.rows ly.cols →
      sandwich T cosl (madd X Y) = madd (sandwich T cosl X) (sandwich T cosl Y))
    (hS_neg : ∀ X, IsMat X ly.rows ly.cols → sandwich T cosl (mneg X) = mneg (sandwich T cosl X))
    (vor dv : List (List K)) (hvor : IsMat vor ly.rows ly.cols) (hdv : IsMat dv ly.rows ly.cols)
    (i j : Nat) :
    ent2 (uvNodalToVorDivModalW ly r a b T cosl (vorDivToUvNodalW ly r a b T cosl vor dv c).1
        (vorDivToUvNodalW ly r a b T cosl vor dv c).2 c).1 i j
      = ent2 (curlSGrad ly r a b T cosl c (inverseLaplacian ly r dv)) i j
        + ent2 (divSGrad ly r a b T cosl c (inverseLaplacian ly r vor)) i j
    ∧ ent2 (uvNodalToVorDivModalW ly r a b T cosl (vorDivToUvNodalW ly r a b T cosl vor dv c).1
        (vorDivToUvNodalW ly r a b T cosl vor dv c).2 c).2 i j
      = ent2 (divSGrad ly r a b T cosl c (inverseLaplacian ly r dv)) i j
        - ent2 (curlSGrad ly r a b T cosl c (inverseLaplacian ly r vor)) i j := by
  rw [roundtrip_unfold]
  unfold curlSGrad divSGrad
  have hpsi := isMat_inverseLaplacian ly r vor hvor
  have hchi := isMat_inverseLaplacian ly r dv hdv
  obtain ⟨gp1, gp2⟩ := isMat_grad ly r a b (inverseLaplacian ly r vor) c hpsi ha hb
  obtain ⟨gc1, gc2⟩ := isMat_grad ly r a b (inverseLaplacian ly r dv) c hchi ha hb
  generalize hgp : cosLatGradW ly r a b (inverseLaplacian ly r vor) c = gp at *
  generalize hgc : cosLatGradW ly r a b (inverseLaplacian ly r dv) c = gc at *
  -- the wind in spectral space and its image under S
  have hw : getCosLatVectorW ly r a b vor dv c = vadd2 gc (kCross gp) := by
    unfold getCosLatVectorW; simp only [hgp, hgc]
  have hS1 : sandwich T cosl (vadd2 gc (kCross gp)).1
      = madd (sandwich T cosl gc.1) (mneg (sandwich T cosl gp.2)) := by
    show sandwich T cosl (madd gc.1 (mneg gp.2)) = _
    rw [hS_add _ _ gc1 (isMat_mneg _ _ _ gp2), hS_neg _ gp2]
  have hS2 : sandwich T cosl (vadd2 gc (kCross gp)).2
      = madd (sandwich T cosl gc.2) (sandwich T cosl gp.1) := by
    show sandwich T cosl (madd gc.2 gp.1) = _
    rw [hS_add _ _ gc2 gp1]
  have hSw : (sandwich T cosl (vadd2 gc (kCross gp)).1, sandwich T cosl (vadd2 gc (kCross gp)).2)
      = vadd2 (sandwich T cosl gc.1, sandwich T cosl gc.2)
          (kCross (sandwich T cosl gp.1, sandwich T cosl gp.2)) := by
    rw [hS1, hS2]; rfl
  rw [hw, hSw]
  have sc1 := hS_shape _ gc1
  have sc2 := hS_shape _ gc2
  have sp1 := hS_shape _ gp1
  have sp2 := hS_shape _ gp2
  have hk1 : IsMat (kCross (sandwich T cosl gp.1, sandwich T cosl gp.2)).1 ly.rows ly.cols :=
    isMat_mneg _ _ _ sp2
  have hk2 : IsMat (kCross (sandwich T cosl gp.1, sandwich T cosl gp.2)).2 ly.rows ly.cols := sp1
  rw [curl_add ly r a b _ _ c sc1 sc2 hk1 hk2 ha hb, div_add ly r a b _ _ c sc1 sc2 hk1 hk2 ha hb,
    curl_kCross ly r a b _ c sp1 sp2 ha hb, div_kCross ly r a b _ c sp1 sp2 ha hb]
  have hcc := isMat_curl ly r a b (sandwich T cosl gc.1, sandwich T cosl gc.2) c sc1 sc2 ha hb
  have hcp := isMat_curl ly r a b (sandwich T cosl gp.1, sandwich T cosl gp.2) c sp1 sp2 ha hb
  have hdc := isMat_div ly r a b (sandwich T cosl gc.1, sandwich T cosl gc.2) c sc1 sc2 ha hb
  have hdp := isMat_div ly r a b (sandwich T cosl gp.1, sandwich T cosl gp.2) c sp1 sp2 ha hb
  constructor
  · show ent2 (madd _ _) i j = _
    rw [ent2_madd _ _ _ _ i j hcc hdp]
  · show ent2 (madd _ _) i j = _
    rw [ent2_madd _ _ _ _ i j hdc (isMat_mneg _ _ _ hcp), ent2_mneg, sub_eq_add_neg]

/-! ### Hyp-A / Hyp-B are statements about linear operators -/

theorem mneg_eq_mscale (x : List (List K)) : mneg x = mscale (-1) x := by
  simp [mneg, mscale, scale]

/-- `div(S(grad ·))` is linear whenever `S` is: Hyp-A on a domain spanned by unit fields is decided by
 those unit fields (`linMap_ext`) -/
theorem linMap_divSGrad (ly : Layout) (r : K) (a b : List (List K)) (ha : IsMat a ly.rows ly.cols)
    (hb : IsMat b ly.rows ly.cols) (T : Transforms K) (cosl : List K) (c : Bool)
    (hS : LinMap ly.rows ly.cols ly.rows ly.cols (sandwich T cosl)) :
    LinMap ly.rows ly.cols ly.rows ly.cols (divSGrad ly r a b T cosl c) := by
  have hshape : ∀ x, IsMat x ly.rows ly.cols → IsMat (divSGrad ly r a b T cosl c x) ly.rows ly.cols := by
    intro x hx
    obtain ⟨g1, g2⟩ := isMat_grad ly r a b x c hx ha hb
    exact isMat_div ly r a b _ c (hS.shape _ g1) (hS.shape _ g2) ha hb
  have hsmul : ∀ (s : K) x, IsMat x ly.rows ly.cols →
      divSGrad ly r a b T cosl c (mscale s x) = mscale s (divSGrad ly r a b T cosl c x) := by
    intro s x hx
    obtain ⟨g1, g2⟩ := isMat_grad ly r a b x c hx ha hb
    unfold divSGrad
    rw [grad_smul ly r s a b x c hx ha hb]
    simp only
    rw [hS.smul s _ g1, hS.smul s _ g2]
    exact div_smul ly r s a b (sandwich T cosl (cosLatGradW ly r a b x c).1,
      sandwich T cosl (cosLatGradW ly r a b x c).2) c (hS.shape _ g1) (hS.shape _ g2) ha hb
  refine ⟨hshape, ?_, ?_, hsmul⟩
  · intro x y hx hy
    obtain ⟨gx1, gx2⟩ := isMat_grad ly r a b x c hx ha hb
    obtain ⟨gy1, gy2⟩ := isMat_grad ly r a b y c hy ha hb
    unfold divSGrad
    rw [grad_add ly r a b x y c hx hy ha hb]
    show divCosLatW ly r a b (sandwich T cosl (madd _ _), sandwich T cosl (madd _ _)) c = _
    rw [hS.add _ _ gx1 gy1, hS.add _ _ gx2 gy2]
    exact div_add ly r a b (sandwich T cosl (cosLatGradW ly r a b x c).1,
      sandwich T cosl (cosLatGradW ly r a b x c).2) (sandwich T cosl (cosLatGradW ly r a b y c).1,
      sandwich T cosl (cosLatGradW ly r a b y c).2) c (hS.shape _ gx1) (hS.shape _ gx2)
      (hS.shape _ gy1) (hS.shape _ gy2) ha hb
  · intro x hx
    rw [mneg_eq_mscale, hsmul (-1) x hx, ← mneg_eq_mscale]

/-- `curl(S(grad ·))` is linear whenever `S` is -/
theorem linMap_curlSGrad (ly : Layout) (r : K) (a b : List (List K)) (ha : IsMat a ly.rows ly.cols)
    (hb : IsMat b ly.rows ly.cols) (T : Transforms K) (cosl : List K) (c : Bool)
    (hS : LinMap ly.rows ly.cols ly.rows ly.cols (sandwich T cosl)) :
    LinMap ly.rows ly.cols ly.rows ly.cols (curlSGrad ly r a b T cosl c) := by
  have hshape : ∀ x, IsMat x ly.rows ly.cols → IsMat (curlSGrad ly r a b T cosl c x) ly.rows ly.cols := by
    intro x hx
    obtain ⟨g1, g2⟩ := isMat_grad ly r a b x c hx ha hb
    exact isMat_curl ly r a b _ c (hS.shape _ g1) (hS.shape _ g2) ha hb
  have hsmul : ∀ (s : K) x, IsMat x ly.rows ly.cols →
      curlSGrad ly r a b T cosl c (mscale s x) = mscale s (curlSGrad ly r a b T cosl c x) := by
    intro s x hx
    obtain ⟨g1, g2⟩ := isMat_grad ly r a b x c hx ha hb
    unfold curlSGrad
    rw [grad_smul ly r s a b x c hx ha hb]
    simp only
    rw [hS.smul s _ g1, hS.smul s _ g2]
    exact curl_smul ly r s a b (sandwich T cosl (cosLatGradW ly r a b x c).1,
      sandwich T cosl (cosLatGradW ly r a b x c).2) c (hS.shape _ g1) (hS.shape _ g2) ha hb
  refine ⟨hshape, ?_, ?_, hsmul⟩
  · intro x y hx hy
    obtain ⟨gx1, gx2⟩ := isMat_grad ly r a b x c hx ha hb
    obtain ⟨gy1, gy2⟩ := isMat_grad ly r a b y c hy ha hb
    unfold curlSGrad
    rw [grad_add ly r a b x y c hx hy ha hb]
    show curlCosLatW ly r a b (sandwich T cosl (madd _ _), sandwich T cosl (madd _ _)) c = _
    rw [hS.add _ _ gx1 gy1, hS.add _ _ gx2 gy2]
    exact curl_add ly r a b (sandwich T cosl (cosLatGradW ly r a b x c).1,
      sandwich T cosl (cosLatGradW ly r a b x c).2) (sandwich T cosl (cosLatGradW ly r a b y c).1,
      sandwich T cosl (cosLatGradW ly r a b y c).2) c (hS.shape _ gx1) (hS.shape _ gx2)
      (hS.shape _ gy1) (hS.shape _ gy2) ha hb
  · intro x hx
    rw [mneg_eq_mscale, hsmul (-1) x hx, ← mneg_eq_mscale]

theorem linMap_laplacian (ly : Layout) (r : K) :
    LinMap ly.rows ly.cols ly.rows ly.cols (laplacian ly r) where
  shape x hx := isMat_laplacian ly r x hx
  add x y hx hy := laplacian_add ly r x y hx hy
  neg x hx := mulCols_neg x _ _ _ hx (length_eigenvalues ly r)
  smul s x hx := laplacian_smul ly r s x hx

/-- **Hyp-A from unit fields**: if `S` is linear (`sandwich_shTransforms`) and Hyp-A holds, below the
 top wavenumber, for the unit fields `E_{ij}` of the domain (masked entries with
 `1 ≤ l < L − topEmpty`), then it holds on all of `Dom` -/
theorem hypA_of_units (ly : Layout) (r : K) (a b : List (List K)) (ha : IsMat a ly.rows ly.cols)
    (hb : IsMat b ly.rows ly.cols) (T : Transforms K) (cosl : List K) (c : Bool)
    (hS : LinMap ly.rows ly.cols ly.rows ly.cols (sandwich T cosl))
    (hunit : ∀ i < ly.rows, ∀ j < ly.cols, (0 < j ∧ j + topEmpty c < ly.L ∧ ly.maskAt i j = true) →
      ∀ p q, q + 1 < ly.L → ent2 (divSGrad ly r a b T cosl c (unitM ly.rows ly.cols i j)) p q
        = ent2 (laplacian ly r (unitM ly.rows ly.cols i j)) p q)
    (ψ : List (List K)) (hψ : Dom ly (topEmpty c) ψ) (p q : Nat) (hq : q + 1 < ly.L) :
    ent2 (divCosLatW ly r a b (sandwich T cosl (cosLatGradW ly r a b ψ c).1,
        sandwich T cosl (cosLatGradW ly r a b ψ c).2) c) p q = ent2 (laplacian ly r ψ) p q := by
  apply linMap_ext ly.rows ly.cols ly.rows ly.cols (divSGrad ly r a b T cosl c) (laplacian ly r)
    (linMap_divSGrad ly r a b ha hb T cosl c hS) (linMap_laplacian ly r)
    (fun i j => 0 < j ∧ j + topEmpty c < ly.L ∧ ly.maskAt i j = true) p q
    (fun i hi j hj hP => hunit i hi j hj hP p q hq) ψ hψ.1
  intro i j hP
  by_cases h1 : j = 0 ∨ ly.L ≤ j + topEmpty c
  · exact hψ.2.1 i j h1
  · apply hψ.2.2 i j
    cases hm : ly.maskAt i j
    · rfl
    · exact absurd ⟨by omega, by omega, hm⟩ hP

/-- **Hyp-B from unit fields** -/
theorem hypB_of_units (ly : Layout) (r : K) (a b : List (List K)) (ha : IsMat a ly.rows ly.cols)
    (hb : IsMat b ly.rows ly.cols) (T : Transforms K) (cosl : List K) (c : Bool)
    (hS : LinMap ly.rows ly.cols ly.rows ly.cols (sandwich T cosl))
    (hunit : ∀ i < ly.rows, ∀ j < ly.cols, (0 < j ∧ j + topEmpty c < ly.L ∧ ly.maskAt i j = true) →
      ∀ p q, q + 1 < ly.L → ent2 (curlSGrad ly r a b T cosl c (unitM ly.rows ly.cols i j)) p q = 0)
    (ψ : List (List K)) (hψ : Dom ly (topEmpty c) ψ) (p q : Nat) (hq : q + 1 < ly.L) :
    ent2 (curlCosLatW ly r a b (sandwich T cosl (cosLatGradW ly r a b ψ c).1,
        sandwich T cosl (cosLatGradW ly r a b ψ c).2) c) p q = 0 := by
  have hz : LinMap ly.rows ly.cols ly.rows ly.cols (fun x : List (List K) => mscale 0 x) :=
    ⟨fun x hx => isMat_mscale 0 x _ _ hx,
     fun x y hx hy => by
       apply mat_ext _ _ _ _ (isMat_mscale 0 _ _ _ (isMat_madd x y _ _ hx hy))
         (isMat_madd _ _ _ _ (isMat_mscale 0 x _ _ hx) (isMat_mscale 0 y _ _ hy))
       intro i _ j _
       rw [ent2_madd _ _ _ _ i j (isMat_mscale 0 x _ _ hx) (isMat_mscale 0 y _ _ hy), ent2_mscale,
         ent2_mscale, ent2_mscale]
       ring,
     fun x hx => by
       apply mat_ext _ _ _ _ (isMat_mscale 0 _ _ _ (isMat_mneg x _ _ hx))
         (isMat_mneg _ _ _ (isMat_mscale 0 x _ _ hx))
       intro i _ j _
       rw [ent2_mneg, ent2_mscale, ent2_mscale]
       ring,
     fun s x hx => by
       apply mat_ext _ _ _ _ (isMat_mscale 0 _ _ _ (isMat_mscale s x _ _ hx))
         (isMat_mscale s _ _ _ (isMat_mscale 0 x _ _ hx))
       intro i _ j _
       rw [ent2_mscale, ent2_mscale, ent2_mscale, ent2_mscale]
       ring⟩
  have := linMap_ext ly.rows ly.cols ly.rows ly.cols (curlSGrad ly r a b T cosl c) (fun x => mscale 0 x)
    (linMap_curlSGrad ly r a b ha hb T cosl c hS) hz
    (fun i j => 0 < j ∧ j + topEmpty c < ly.L ∧ ly.maskAt i j = true) p q
    (fun i hi j hj hP => by rw [hunit i hi j hj hP p q hq, ent2_mscale, zero_mul]) ψ hψ.1
    (by
      intro i j hP
      by_cases h1 : j = 0 ∨ ly.L ≤ j + topEmpty c
      · exact hψ.2.1 i j h1
      · apply hψ.2.2 i j
        cases hm : ly.maskAt i j
        · rfl
        · exact absurd ⟨by omega, by omega, hm⟩ hP)
  rw [ent2_mscale, zero_mul] at this
  exact this

end T26

section T26b
variable {K : Type} [Field K] [CharZero K]

/-- **T2.6** `uv → (ζ, δ)` after `(ζ, δ) → uv` is the identity *below the top wavenumber* on
 masked zero-mean fields whose top `topEmpty clip` wavenumbers are empty (`Dom`), provided the nodal
 stage satisfies, below the top wavenumber,

 * Hyp-A `div(S(cos_lat_grad ψ)) = ∇²ψ`,
 * Hyp-B `curl(S(cos_lat_grad ψ)) = 0`

 on that same domain, where `S = to_modal ∘ (· / cos²θ) ∘ to_nodal` (component-wise) is additive
 (`sandwich_shTransforms` for the model's transforms) and no node sits on a pole (`hcos`).
 The two hypotheses are statements about the quadrature and the Legendre functions; they are
 validated on the implementation by the harness (`hyp:A`, `hyp:B`) on fields drawn from exactly `Dom`
 and hold exactly on the rational instance `lyT` below; `vor_div_roundtrip_eps` is the form with
 residuals bounded by `ε`.  With `clip = False` the top wavenumber `L−1` of the result is *not*
 claimed (it carries an artefact of the latitude derivative, measured O(1) on the implementation);
 with `clip = True` it is zero, see `vor_div_roundtrip_clipped`. -/
theorem vor_div_roundtrip (ly : Layout) (r : K) (hr : r ≠ 0) (a b : List (List K))
    (ha : IsMat a ly.rows ly.cols) (hb : IsMat b ly.rows ly.cols) (T : Transforms K) (cosl : List K)
    (hcos : ∀ c ∈ cosl, c ≠ 0) (c : Bool)
    (hS_shape : ∀ X, IsMat X ly.rows ly.cols → IsMat (sandwich T cosl X) ly.rows ly.cols)
    (hS_add : ∀ X Y, IsMat X ly.rows ly.cols → IsMat Y ly.rows ly.cols →
      sandwich T cosl (madd X Y) = madd (sandwich T cosl X) (sandwich T cosl Y))
    (hS_neg : ∀ X, IsMat X ly.rows ly.cols → sandwich T cosl (mneg X) = mneg (sandwich T cosl X))
    (hypA : ∀ ψ, Dom ly (topEmpty c) ψ → ∀ i j, j + 1 < ly.L →
      ent2 (divCosLatW ly r a b (sandwich T cosl (cosLatGradW ly r a b ψ c).1,
        sandwich T cosl (cosLatGradW ly r a b ψ c).2) c) i j = ent2 (laplacian ly r ψ) i j)
    (hypB : ∀ ψ, Dom ly (topEmpty c) ψ → ∀ i j, j + 1 < ly.L →
      ent2 (curlCosLatW ly r a b (sandwich T cosl (cosLatGradW ly r a b ψ c).1,
        sandwich T cosl (cosLatGradW ly r a b ψ c).2) c) i j = 0)
    (vor dv : List (List K)) (hvor : Dom ly (topEmpty c) vor) (hdv : Dom ly (topEmpty c) dv)
    (i j : Nat) (hj : j + 1 < ly.L) :
    ent2 (uvNodalToVorDivModalW ly r a b T cosl (vorDivToUvNodalW ly r a b T cosl vor dv c).1
        (vorDivToUvNodalW ly r a b T cosl vor dv c).2 c).1 i j = ent2 vor i j
    ∧ ent2 (uvNodalToVorDivModalW ly r a b T cosl (vorDivToUvNodalW ly r a b T cosl vor dv c).1
        (vorDivToUvNodalW ly r a b T cosl vor dv c).2 c).2 i j = ent2 dv i j := by
  obtain ⟨d1, d2⟩ := roundtrip_decomp ly r a b ha hb T cosl hcos c hS_shape hS_add hS_neg vor dv
    hvor.1 hdv.1 i j
  have hpsi := dom_inverseLaplacian ly (topEmpty c) r vor hvor
  have hchi := dom_inverseLaplacian ly (topEmpty c) r dv hdv
  have A1 := hypA _ hpsi i j hj
  have A2 := hypA _ hchi i j hj
  have B1 := hypB _ hpsi i j hj
  have B2 := hypB _ hchi i j hj
  rw [laplacian_inverseLaplacian_eq ly _ r hr vor hvor] at A1
  rw [laplacian_inverseLaplacian_eq ly _ r hr dv hdv] at A2
  unfold curlSGrad divSGrad at d1 d2
  rw [d1, d2, A1, A2, B1, B2]
  exact ⟨zero_add _, sub_zero _⟩

/-- **T2.6** with the default `clip = True` the round trip is the identity as arrays (the clipped
 top wavenumber and the padding are zero on both sides), on masked zero-mean inputs whose top *two*
 wavenumbers are empty -/
theorem vor_div_roundtrip_clipped (ly : Layout) (r : K) (hr : r ≠ 0) (a b : List (List K))
    (ha : IsMat a ly.rows ly.cols) (hb : IsMat b ly.rows ly.cols) (T : Transforms K) (cosl : List K)
    (hcos : ∀ c ∈ cosl, c ≠ 0)
    (hS_shape : ∀ X, IsMat X ly.rows ly.cols → IsMat (sandwich T cosl X) ly.rows ly.cols)
    (hS_add : ∀ X Y, IsMat X ly.rows ly.cols → IsMat Y ly.rows ly.cols →
      sandwich T cosl (madd X Y) = madd (sandwich T cosl X) (sandwich T cosl Y))
    (hS_neg : ∀ X, IsMat X ly.rows ly.cols → sandwich T cosl (mneg X) = mneg (sandwich T cosl X))
    (hypA : ∀ ψ, Dom ly 2 ψ → ∀ i j, j + 1 < ly.L →
      ent2 (divCosLatW ly r a b (sandwich T cosl (cosLatGradW ly r a b ψ true).1,
        sandwich T cosl (cosLatGradW ly r a b ψ true).2) true) i j = ent2 (laplacian ly r ψ) i j)
    (hypB : ∀ ψ, Dom ly 2 ψ → ∀ i j, j + 1 < ly.L →
      ent2 (curlCosLatW ly r a b (sandwich T cosl (cosLatGradW ly r a b ψ true).1,
        sandwich T cosl (cosLatGradW ly r a b ψ true).2) true) i j = 0)
    (vor dv : List (List K)) (hvor : Dom ly 2 vor) (hdv : Dom ly 2 dv) :
    uvNodalToVorDivModalW ly r a b T cosl (vorDivToUvNodalW ly r a b T cosl vor dv true).1
        (vorDivToUvNodalW ly r a b T cosl vor dv true).2 true = (vor, dv) := by
  have main := vor_div_roundtrip ly r hr a b ha hb T cosl hcos true hS_shape hS_add hS_neg hypA hypB
    vor dv hvor hdv
  have hg := isMat_grad ly r a b (inverseLaplacian ly r vor) true
    (isMat_inverseLaplacian ly r vor hvor.1) ha hb
  have hg' := isMat_grad ly r a b (inverseLaplacian ly r dv) true
    (isMat_inverseLaplacian ly r dv hdv.1) ha hb
  have w1 : IsMat (getCosLatVectorW ly r a b vor dv true).1 ly.rows ly.cols :=
    isMat_madd _ _ _ _ hg'.1 (isMat_mneg _ _ _ hg.2)
  have w2 : IsMat (getCosLatVectorW ly r a b vor dv true).2 ly.rows ly.cols :=
    isMat_madd _ _ _ _ hg'.2 hg.1
  have s1 := hS_shape _ w1
  have s2 := hS_shape _ w2
  rw [roundtrip_unfold] at main ⊢
  have hc := isMat_curl ly r a b (sandwich T cosl (getCosLatVectorW ly r a b vor dv true).1,
    sandwich T cosl (getCosLatVectorW ly r a b vor dv true).2) true s1 s2 ha hb
  have hd := isMat_div ly r a b (sandwich T cosl (getCosLatVectorW ly r a b vor dv true).1,
    sandwich T cosl (getCosLatVectorW ly r a b vor dv true).2) true s1 s2 ha hb
  congr 1
  · apply mat_ext _ _ _ _ hc hvor.1
    intro i _ j _
    by_cases hj : j + 1 < ly.L
    · exact (main i j hj).1
    · rw [ent2_curl ly r a b _ true s1 s2 ha hb, if_pos ⟨rfl, hj⟩, hvor.2.1 i j (Or.inr (by omega))]
  · apply mat_ext _ _ _ _ hd hdv.1
    intro i _ j _
    by_cases hj : j + 1 < ly.L
    · exact (main i j hj).2
    · rw [ent2_div ly r a b _ true s1 s2 ha hb, if_pos ⟨rfl, hj⟩, hdv.2.1 i j (Or.inr (by omega))]

/-- **T2.6** the divergence of a rotated gradient vanishes (from Hyp-B) -/
theorem div_rotated_gradient (ly : Layout) (r : K) (a b : List (List K))
    (ha : IsMat a ly.rows ly.cols) (hb : IsMat b ly.rows ly.cols) (T : Transforms K) (cosl : List K)
    (hcos : ∀ c ∈ cosl, c ≠ 0) (c : Bool)
    (hS_shape : ∀ X, IsMat X ly.rows ly.cols → IsMat (sandwich T cosl X) ly.rows ly.cols)
    (ψ : List (List K)) (hψ : IsMat ψ ly.rows ly.cols)
    (hypB : ∀ i j, ent2 (curlCosLatW ly r a b (sandwich T cosl (cosLatGradW ly r a b ψ c).1,
        sandwich T cosl (cosLatGradW ly r a b ψ c).2) c) i j = 0) (i j : Nat) :
    ent2 (divCosLatW ly r a b (kCross (sandwich T cosl (cosLatGradW ly r a b ψ c).1,
        sandwich T cosl (cosLatGradW ly r a b ψ c).2)) c) i j = 0 := by
  obtain ⟨g1, g2⟩ := isMat_grad ly r a b ψ c hψ ha hb
  rw [div_kCross ly r a b _ c (hS_shape _ g1) (hS_shape _ g2) ha hb, ent2_mneg, hypB i j, neg_zero]

end T26b

/-! ## T2.6, ε-form over an ordered field -/
section T26eps
variable {K : Type} [Field K] [LinearOrder K] [IsStrictOrderedRing K]

/-- **T2.6 (ε-form)** over any ordered field (ℝ with the float tables read as real numbers, ℚ):
 if on the domain `Dom` the residuals of Hyp-A and Hyp-B are bounded *relative to the sup norm of
 `∇²ψ`* — `|div(S(grad ψ)) − ∇²ψ| ≤ ε·B` and `|curl(S(grad ψ))| ≤ ε·B` entry-wise below the top
 wavenumber whenever `|∇²ψ| ≤ B` entry-wise (this is literally what the harness measures: `hyp:A`,
 `hyp:B` compare with `rtol·max|∇²ψ|`) — then the wind round trip deviates from the identity by at
 most `C·ε·B` with the explicit constant `C = 2`, `B` a bound of `|ζ|` and `|δ|`.
 The structural hypotheses (`S` additive, odd) hold exactly for the model's transforms over any
 field (`sandwich_shTransforms`); `ε = 0` gives `vor_div_roundtrip`. -/
theorem vor_div_roundtrip_eps (ly : Layout) (r : K) (hr : r ≠ 0) (a b : List (List K))
    (ha : IsMat a ly.rows ly.cols) (hb : IsMat b ly.rows ly.cols) (T : Transforms K) (cosl : List K)
    (hcos : ∀ c ∈ cosl, c ≠ 0) (c : Bool)
    (hS_shape : ∀ X, IsMat X ly.rows ly.cols → IsMat (sandwich T cosl X) ly.rows ly.cols)
    (hS_add : ∀ X Y, IsMat X ly.rows ly.cols → IsMat Y ly.rows ly.cols →
      sandwich T cosl (madd X Y) = madd (sandwich T cosl X) (sandwich T cosl Y))
    (hS_neg : ∀ X, IsMat X ly.rows ly.cols → sandwich T cosl (mneg X) = mneg (sandwich T cosl X))
    (ε : K)
    (hypA : ∀ ψ, Dom ly (topEmpty c) ψ → ∀ B, (∀ i j, |ent2 (laplacian ly r ψ) i j| ≤ B) →
      ∀ i j, j + 1 < ly.L →
      |ent2 (divCosLatW ly r a b (sandwich T cosl (cosLatGradW ly r a b ψ c).1,
        sandwich T cosl (cosLatGradW ly r a b ψ c).2) c) i j - ent2 (laplacian ly r ψ) i j| ≤ ε * B)
    (hypB : ∀ ψ, Dom ly (topEmpty c) ψ → ∀ B, (∀ i j, |ent2 (laplacian ly r ψ) i j| ≤ B) →
      ∀ i j, j + 1 < ly.L →
      |ent2 (curlCosLatW ly r a b (sandwich T cosl (cosLatGradW ly r a b ψ c).1,
        sandwich T cosl (cosLatGradW ly r a b ψ c).2) c) i j| ≤ ε * B)
    (vor dv : List (List K)) (hvor : Dom ly (topEmpty c) vor) (hdv : Dom ly (topEmpty c) dv)
    (B : K) (hBv : ∀ i j, |ent2 vor i j| ≤ B) (hBd : ∀ i j, |ent2 dv i j| ≤ B)
    (i j : Nat) (hj : j + 1 < ly.L) :
    |ent2 (uvNodalToVorDivModalW ly r a b T cosl (vorDivToUvNodalW ly r a b T cosl vor dv c).1
        (vorDivToUvNodalW ly r a b T cosl vor dv c).2 c).1 i j - ent2 vor i j| ≤ 2 * ε * B
    ∧ |ent2 (uvNodalToVorDivModalW ly r a b T cosl (vorDivToUvNodalW ly r a b T cosl vor dv c).1
        (vorDivToUvNodalW ly r a b T cosl vor dv c).2 c).2 i j - ent2 dv i j| ≤ 2 * ε * B := by
  obtain ⟨d1, d2⟩ := roundtrip_decomp ly r a b ha hb T cosl hcos c hS_shape hS_add hS_neg vor dv
    hvor.1 hdv.1 i j
  have hpsi := dom_inverseLaplacian ly (topEmpty c) r vor hvor
  have hchi := dom_inverseLaplacian ly (topEmpty c) r dv hdv
  have e1 := laplacian_inverseLaplacian_eq ly _ r hr vor hvor
  have e2 := laplacian_inverseLaplacian_eq ly _ r hr dv hdv
  have A1 := hypA _ hpsi B (by rw [e1]; exact hBv) i j hj
  have A2 := hypA _ hchi B (by rw [e2]; exact hBd) i j hj
  have B1 := hypB _ hpsi B (by rw [e1]; exact hBv) i j hj
  have B2 := hypB _ hchi B (by rw [e2]; exact hBd) i j hj
  rw [e1] at A1
  rw [e2] at A2
  unfold curlSGrad divSGrad at d1 d2
  rw [d1, d2]
  rw [abs_le] at A1 A2 B1 B2 ⊢
  rw [abs_le]
  refine ⟨⟨?_, ?_⟩, ⟨?_, ?_⟩⟩ <;> linarith [A1.1, A1.2, A2.1, A2.2, B1.1, B1.2, B2.1, B2.2]

end T26eps

/-! ## the side condition `cos θ_j ≠ 0` holds on pole-free node sets -/
section poles

/-- `cos_lat = sqrt(1 − sin_lat²)` is positive at every node with `|sin θ| < 1` -/
theorem cosLat_pos (sinLat : List ℝ) (h : ∀ s ∈ sinLat, |s| < 1) :
    ∀ c ∈ cosLat Real.sqrt sinLat, 0 < c := by
  intro c hc
  simp only [cosLat, List.mem_map] at hc
  obtain ⟨s, hs, rfl⟩ := hc
  have := abs_lt.mp (h s hs)
  apply Real.sqrt_pos.mpr
  nlinarith [this.1, this.2]

/-- the side condition of the wind theorems for every node set strictly inside `(−1, 1)`: Gauss–Legendre
 nodes (roots of `P_n`, classically interior; the harness checks `max|sin_lat| < 1` on every grid it
 uses) and the equiangular nodes without poles (`equiangular_cosLat_ne_zero`) -/
theorem cosLat_ne_zero (sinLat : List ℝ) (h : ∀ s ∈ sinLat, |s| < 1) :
    ∀ c ∈ cosLat Real.sqrt sinLat, c ≠ 0 :=
  fun c hc => ne_of_gt (cosLat_pos sinLat h c hc)

/-- `associated_legendre.equiangular_nodes(n)`: `sin θ_j`, `θ_j = −π/2 + (j + ½)·π/n`, `j < n` -/
noncomputable def equiangularSin (n : ℕ) : List ℝ :=
  (List.range n).map fun (j : ℕ) => Real.sin (-(Real.pi / 2) + ((j : ℝ) + 1 / 2) * (Real.pi / n))

theorem equiangularSin_abs_lt_one (n : ℕ) : ∀ s ∈ equiangularSin n, |s| < 1 := by
  intro s hs
  simp only [equiangularSin, List.mem_map, List.mem_range] at hs
  obtain ⟨j, hj, rfl⟩ := hs
  have hn : (0 : ℝ) < n := by exact_mod_cast (by omega : 0 < n)
  have hjn : (j : ℝ) + 1 ≤ n := by exact_mod_cast hj
  have hpi := Real.pi_pos
  have hq : 0 < Real.pi / n := div_pos hpi hn
  have hfull : (n : ℝ) * (Real.pi / n) = Real.pi := by field_simp
  set θ := -(Real.pi / 2) + ((j : ℝ) + 1 / 2) * (Real.pi / n) with hθ
  have h1 : -(Real.pi / 2) < θ := by
    have : 0 < ((j : ℝ) + 1 / 2) * (Real.pi / n) := by positivity
    linarith
  have h2 : θ < Real.pi / 2 := by
    have : ((j : ℝ) + 1 / 2) * (Real.pi / n) < (n : ℝ) * (Real.pi / n) := by
      apply mul_lt_mul_of_pos_right _ hq
      linarith
    linarith
  have hcos : 0 < Real.cos θ := Real.cos_pos_of_mem_Ioo ⟨h1, h2⟩
  have hsq := Real.sin_sq_add_cos_sq θ
  rw [abs_lt]
  constructor <;> nlinarith [sq_nonneg (Real.sin θ), sq_nonneg (Real.cos θ)]

/-- the equiangular grid without poles satisfies the side condition of the wind theorems -/
theorem equiangular_cosLat_ne_zero (n : ℕ) : ∀ c ∈ cosLat Real.sqrt (equiangularSin n), c ≠ 0 :=
  cosLat_ne_zero _ (equiangularSin_abs_lt_one n)

/-- … and a grid with a node at a pole (`equiangular_with_poles`: `sin θ = ±1` at the ends) violates
 it, which is why the wind conversions and the harness probes exclude that spacing -/
example : (0 : ℝ) ∈ cosLat Real.sqrt [-1, 0, 1] := by
  simp [cosLat]

end poles

/-! ## T2.1 the longitude-derivative index maps are the analytic derivative -/
section T21

/-- **T2.1 (real layout)** `HasDerivAt` form, any odd number of rows, any column, any
 normalisation of the basis functions `1, cos λ, sin λ, cos 2λ, …` -/
theorem real_derivative_hasDerivAt (n0 n1 : ℝ) (x : List (List ℝ)) (w N l : ℕ)
    (hx : x.length = 2 * N + 1) (t : ℝ) :
    HasDerivAt (fun s => ∑ i ∈ range (2 * N + 1), ent2 x i l * realPhi n0 n1 i s)
      (∑ i ∈ range (2 * N + 1), ent2 (realDerivative x w) i l * realPhi n0 n1 i t) t :=
  Grid.real_derivative_hasDerivAt n0 n1 x w N l hx t

/-- **T2.1 (real layout)** `deriv` form -/
theorem real_derivative_deriv (n0 n1 : ℝ) (x : List (List ℝ)) (w N l : ℕ)
    (hx : x.length = 2 * N + 1) (t : ℝ) :
    deriv (fun s => ∑ i ∈ range (2 * N + 1), ent2 x i l * realPhi n0 n1 i s) t
      = ∑ i ∈ range (2 * N + 1), ent2 (realDerivative x w) i l * realPhi n0 n1 i t :=
  (real_derivative_hasDerivAt n0 n1 x w N l hx t).deriv

/-- **T2.1 (fast layout)** `HasDerivAt` form; `2N ≥ 2M` rows (zero basis functions on the padding
 rows and on row 1) -/
theorem fast_derivative_hasDerivAt (n0 n1 : ℝ) (M : ℕ) (x : List (List ℝ)) (w N l : ℕ)
    (hx : x.length = 2 * N) (t : ℝ) :
    HasDerivAt (fun s => ∑ i ∈ range (2 * N), ent2 x i l * fastPhi n0 n1 M i s)
      (∑ i ∈ range (2 * N), ent2 (zeroImagDerivative x w) i l * fastPhi n0 n1 M i t) t :=
  Grid.fast_derivative_hasDerivAt n0 n1 M x w N l hx t

/-- **T2.1 (fast layout)** `deriv` form -/
theorem fast_derivative_deriv (n0 n1 : ℝ) (M : ℕ) (x : List (List ℝ)) (w N l : ℕ)
    (hx : x.length = 2 * N) (t : ℝ) :
    deriv (fun s => ∑ i ∈ range (2 * N), ent2 x i l * fastPhi n0 n1 M i s) t
      = ∑ i ∈ range (2 * N), ent2 (zeroImagDerivative x w) i l * fastPhi n0 n1 M i t :=
  (fast_derivative_hasDerivAt n0 n1 M x w N l hx t).deriv

/-- **T2.1** in terms of `Grid.d_dlon` of either layout (`rows` of the layout; for the fast layout
 the padding must be even, as it always is) -/
theorem dDlon_hasDerivAt_real (n0 n1 : ℝ) (ly : Layout) (hf : ly.fast = false) (hM : 0 < ly.M)
    (x : List (List ℝ)) (hx : IsMat x ly.rows ly.cols) (l : ℕ) (t : ℝ) :
    HasDerivAt (fun s => ∑ i ∈ range ly.rows, ent2 x i l * realPhi n0 n1 i s)
      (∑ i ∈ range ly.rows, ent2 (dDlon ly x) i l * realPhi n0 n1 i t) t := by
  have hr : ly.rows = 2 * (ly.M - 1) + 1 := by simp [Layout.rows, hf]; omega
  have := real_derivative_hasDerivAt n0 n1 x ly.cols (ly.M - 1) l (by rw [hx.1, hr]) t
  rw [← hr] at this
  simpa [dDlon, hf] using this

theorem dDlon_hasDerivAt_fast (n0 n1 : ℝ) (ly : Layout) (hf : ly.fast = true)
    (hpad : ly.padRows % 2 = 0) (x : List (List ℝ)) (hx : IsMat x ly.rows ly.cols) (l : ℕ) (t : ℝ) :
    HasDerivAt (fun s => ∑ i ∈ range ly.rows, ent2 x i l * fastPhi n0 n1 ly.M i s)
      (∑ i ∈ range ly.rows, ent2 (dDlon ly x) i l * fastPhi n0 n1 ly.M i t) t := by
  have hr : ly.rows = 2 * (ly.M + ly.padRows / 2) := by simp [Layout.rows, hf]; omega
  have := fast_derivative_hasDerivAt n0 n1 ly.M x ly.cols (ly.M + ly.padRows / 2) l
    (by rw [hx.1, hr]) t
  rw [← hr] at this
  simpa [dDlon, hf] using this

end T21

/-! ## T2.4b over ℝ with `Real.sqrt` -/
section real

theorem ratio_nonneg (m l : ℕ) (h : m ≤ l) : 0 ≤ ratio (K := ℝ) m l := by
  rw [ratio_eq]
  rcases Nat.eq_zero_or_pos l with h0 | h0
  · subst h0
    have : m = 0 := by omega
    subst this
    simp
  · have h1 : (1 : ℝ) ≤ (l : ℝ) := by exact_mod_cast h0
    have h2 : (m : ℝ) ≤ (l : ℝ) := by exact_mod_cast h
    have h3 : (0 : ℝ) ≤ (m : ℝ) := Nat.cast_nonneg m
    apply div_nonneg
    · nlinarith
    · apply mul_nonneg <;> linarith

/-- **T2.4b** over ℝ with the real square root: the model's `cos_lat_d_dlat`, `d_dlon`, `laplacian`
 satisfy the coefficient-space Legendre equation for every layout, every size and every radius -/
theorem legendre_equation_real (ly : Layout) (x : List (List ℝ)) (r : ℝ) (hr : r ≠ 0)
    (hx : IsMat x ly.rows ly.cols) (hpad : ly.fast = true → ly.padRows % 2 = 0)
    (i j : Nat) (hi : i < ly.rows) (hmask : ly.maskAt i j = true) (hj : j + 2 < ly.L) :
    ent2 (madd (cosLatDDlat Real.sqrt ly (cosLatDDlat Real.sqrt ly x)) (dDlon ly (dDlon ly x))) i j
      = ent2 (msub (mscale (r * r) (laplacian ly r x))
          (sinLatMul Real.sqrt ly (sinLatMul Real.sqrt ly (mscale (r * r) (laplacian ly r x))))) i j :=
  legendre_equation_model Real.sqrt (fun m l h => Real.mul_self_sqrt (ratio_nonneg m l h))
    ly x r hr hx hpad i j hi hmask hj

/-- **T2.4a** for the model's weights over ℝ -/
theorem D1_sub_D2_real (ly : Layout) (x : List (List ℝ)) (hx : IsMat x ly.rows ly.cols) :
    msub (cosLatDDlat Real.sqrt ly x) (secLatDDlatCos2 Real.sqrt ly x)
      = mscale (1 + 1) (sinLatMul Real.sqrt ly x) :=
  D1_sub_D2 ly _ _ x hx (isMat_weightA _ ly) (isMat_weightB _ ly)

end real

/-! ## non-vacuity -/
section examples

/-- a real-layout grid with `M = 3`, `L = 6` and a fast-layout grid with padding -/
def lyR : Layout := ⟨false, 3, 6, 0, 0⟩
def lyF : Layout := ⟨true, 3, 6, 2, 2⟩
/-- a field with all entries different -/
noncomputable def xR : List (List ℝ) :=
  (List.range 5).map fun i => (List.range 6).map fun j => ((i * 7 + j * j + 1 : ℕ) : ℝ)
noncomputable def xF : List (List ℝ) :=
  (List.range 8).map fun i => (List.range 8).map fun j => ((i * 7 + j * j + 1 : ℕ) : ℝ)

/-- the hypotheses of `legendre_equation_real` hold at `(m, l) = (1, 2)` of the real layout
 (row 1) with radius `2` … -/
example :
    ent2 (madd (cosLatDDlat Real.sqrt lyR (cosLatDDlat Real.sqrt lyR xR)) (dDlon lyR (dDlon lyR xR))) 1 2
      = ent2 (msub (mscale (2 * 2) (laplacian lyR 2 xR))
          (sinLatMul Real.sqrt lyR (sinLatMul Real.sqrt lyR (mscale (2 * 2) (laplacian lyR 2 xR))))) 1 2 :=
  legendre_equation_real lyR xR 2 (by norm_num) (isMat_tab _ 5 6) (by decide) 1 2 (by decide)
    (by decide) (by decide)

/-- … and at `(m, l) = (−2, 3)` (row 5) of the padded fast layout -/
example :
    ent2 (madd (cosLatDDlat Real.sqrt lyF (cosLatDDlat Real.sqrt lyF xF)) (dDlon lyF (dDlon lyF xF))) 5 3
      = ent2 (msub (mscale (2 * 2) (laplacian lyF 2 xF))
          (sinLatMul Real.sqrt lyF (sinLatMul Real.sqrt lyF (mscale (2 * 2) (laplacian lyF 2 xF))))) 5 3 :=
  legendre_equation_real lyF xF 2 (by norm_num) (isMat_tab _ 8 8) (by decide) 5 3 (by decide)
    (by decide) (by decide)

/-- the domain of the round-trip theorems is inhabited by non-zero fields (masked: rows 3, 4 carry
 `m = ±2` and start at `l = 2`) -/
example : Dom (K := ℚ) lyR 2 [[0,1,2,3,0,0],[0,1,2,3,0,0],[0,1,2,3,0,0],[0,0,2,3,0,0],[0,0,2,3,0,0]] := by
  refine ⟨⟨rfl, by decide⟩, ?_, ?_⟩
  · intro i j hj
    have hj' : j = 0 ∨ 4 ≤ j := by simpa [lyR] using hj
    by_cases hi : i < 5
    · by_cases hj6 : j < 6
      · interval_cases i <;> interval_cases j <;> first | rfl | omega
      · exact ent2_of_col_le _ 5 6 i j ⟨rfl, by decide⟩ (by omega)
    · exact ent2_of_row_le _ i j (by simp; omega)
  · intro i j hm
    by_cases hi : i < 5
    · by_cases hj6 : j < 6
      · interval_cases i <;> interval_cases j <;> first | rfl | (exfalso; revert hm; decide)
      · exact ent2_of_col_le _ 5 6 i j ⟨rfl, by decide⟩ (by omega)
    · exact ent2_of_row_le _ i j (by simp; omega)

/-- … and an unmasked field (entry `(3, 1)`: `m = 2`, `l = 1`) is *not* in the domain: there Hyp-A is
 false on every real grid, see the harness' negative control `hyp:A-unmasked` -/
example : ¬ Dom (K := ℚ) lyR 2 [[0,1,2,3,0,0],[0,1,2,3,0,0],[0,1,2,3,0,0],[0,1,2,3,0,0],[0,0,2,3,0,0]] := by
  intro h
  have := h.2.2 3 1 (by decide)
  revert this
  decide

/-- T2.2 on a concrete odd row: `∂λ∂λ` multiplies row 3 (`m = 2`) by `−4` -/
example : ent2 (dDlon lyR (dDlon lyR xR)) 3 4 = -(2 * 2) * ent2 xR 3 4 := by
  have := dDlon_dDlon lyR xR 3 4 (by simp [xR]) (by simp [xR, lyR])
  simpa [Layout.freq, lyR] using this

/-! ### a toy instance of T2.6 (one zonal row; superseded by the `M = 3` instance `lyT` below)

 One zonal row (`M = 1`), `L = 3`, radius 1, rational stand-ins for the weights, the nodal stage
 replaced by a diagonal map chosen so that Hyp-A holds.  Kept as the smallest joint instance of the
 hypotheses; the instance on a genuine transform pair with `M = 3` is `lyT`. -/
def lyS : Layout := ⟨false, 1, 3, 0, 0⟩
def aS : List (List ℚ) := [[0, 1, 1]]
def bS : List (List ℚ) := [[1, 1, 0]]
def TS : Transforms ℚ := ⟨id, fun X => mulCols X [1 / 4, 1, 1]⟩
def coslS : List ℚ := [1, 1, 1]

theorem domS (ψ : List (List ℚ)) (h : Dom lyS 1 ψ) : ∃ p : ℚ, ψ = [[0, p, 0]] := by
  obtain ⟨⟨hl, hr⟩, hz⟩ := h
  have hl' : ψ.length = 1 := hl
  obtain ⟨row, rfl⟩ := List.length_eq_one_iff.mp hl'
  have h3 : row.length = 3 := hr row (by simp)
  obtain ⟨p0, p1, p2, rfl⟩ := List.length_eq_three.mp h3
  have h0 : p0 = 0 := by simpa [ent2] using hz.1 0 0 (Or.inl rfl)
  have h2 : p2 = 0 := by simpa [ent2] using hz.1 0 2 (Or.inr (by decide))
  exact ⟨p1, by rw [h0, h2]⟩

theorem isMat_aS : IsMat aS lyS.rows lyS.cols := ⟨rfl, by simp [aS, lyS, Layout.cols]⟩
theorem isMat_bS : IsMat bS lyS.rows lyS.cols := ⟨rfl, by simp [bS, lyS, Layout.cols]⟩

theorem domS_mk (p : ℚ) : Dom lyS 1 [[0, p, 0]] := by
  refine ⟨⟨rfl, by simp [lyS, Layout.cols]⟩, ?_, ?_⟩
  · intro i j hj
    have hj' : j = 0 ∨ 2 ≤ j := by
      rcases hj with h | h
      · exact Or.inl h
      · right; simp [lyS] at h; omega
    match i, j, hj' with
    | 0, 0, _ => rfl
    | 0, 1, h => omega
    | 0, 2, _ => rfl
    | 0, j + 3, _ => simp [ent2]
    | i + 1, j, _ => simp [ent2]
  · intro i j hm
    match i, j, hm with
    | 0, 0, _ => rfl
    | 0, 1, h => exact absurd h (by decide)
    | 0, 2, _ => rfl
    | 0, j + 3, _ => simp [ent2]
    | i + 1, j, _ => simp [ent2]

theorem sandwichS_shape (X : List (List ℚ)) (hX : IsMat X lyS.rows lyS.cols) :
    IsMat (sandwich TS coslS X) lyS.rows lyS.cols :=
  isMat_mulCols _ _ _ _ (isMat_divCols _ _ _ _ (isMat_divCols _ _ _ _ hX rfl) rfl) rfl

theorem ent2_sandwichS (X : List (List ℚ)) (i j : ℕ) :
    ent2 (sandwich TS coslS X) i j = ent2 X i j / ent coslS j / ent coslS j * ent [1 / 4, 1, (1 : ℚ)] j := by
  show ent2 (mulCols (divCols (divCols X coslS) coslS) [1 / 4, 1, 1]) i j = _
  rw [ent2_mulCols, ent2_divCols, ent2_divCols]

theorem hypA_S (ψ : List (List ℚ)) (hψ : Dom lyS 1 ψ) :
    divCosLatW lyS 1 aS bS (sandwich TS coslS (cosLatGradW lyS 1 aS bS ψ false).1,
        sandwich TS coslS (cosLatGradW lyS 1 aS bS ψ false).2) false = laplacian lyS 1 ψ := by
  obtain ⟨p, rfl⟩ := domS ψ hψ
  simp [divCosLatW, cosLatGradW, sandwich, TS, coslS, clipIf, mdivc, dDlon, realDerivative, lyS,
    secLatDDlatCos2W, cosLatDDlatW, twoTerm, aS, bS, Layout.lvals, Layout.cols, Layout.lval, shiftCols,
    shift, padInDim, emul, colsMul, mulCols, divCols, madd, vadd, zerosN, List.range, List.range.loop,
    laplacian, eigenvalues, scale]
  ring

theorem hypB_S (ψ : List (List ℚ)) (hψ : Dom lyS 1 ψ) (i j : ℕ) :
    ent2 (curlCosLatW lyS 1 aS bS (sandwich TS coslS (cosLatGradW lyS 1 aS bS ψ false).1,
        sandwich TS coslS (cosLatGradW lyS 1 aS bS ψ false).2) false) i j = 0 := by
  obtain ⟨p, rfl⟩ := domS ψ hψ
  have : curlCosLatW lyS 1 aS bS (sandwich TS coslS (cosLatGradW lyS 1 aS bS [[0, p, 0]] false).1,
        sandwich TS coslS (cosLatGradW lyS 1 aS bS [[0, p, 0]] false).2) false = [[0, 0, 0]] := by
    simp [curlCosLatW, cosLatGradW, sandwich, TS, coslS, clipIf, mdivc, dDlon, realDerivative, lyS,
      secLatDDlatCos2W, cosLatDDlatW, twoTerm, aS, bS, Layout.lvals, Layout.cols, Layout.lval, shiftCols,
      shift, padInDim, emul, colsMul, mulCols, divCols, madd, msub, vadd, zerosN, List.range,
      List.range.loop, scale]
  rw [this]
  match i, j with
  | 0, 0 => rfl
  | 0, 1 => rfl
  | 0, 2 => rfl
  | 0, j + 3 => simp [ent2]
  | i + 1, j => simp [ent2]

theorem sandwichS_add (X Y : List (List ℚ)) (hX : IsMat X lyS.rows lyS.cols)
    (hY : IsMat Y lyS.rows lyS.cols) :
    sandwich TS coslS (madd X Y) = madd (sandwich TS coslS X) (sandwich TS coslS Y) := by
  have h1 := sandwichS_shape X hX
  have h2 := sandwichS_shape Y hY
  apply mat_ext _ _ _ _ (sandwichS_shape _ (isMat_madd X Y _ _ hX hY)) (isMat_madd _ _ _ _ h1 h2)
  intro i _ j _
  rw [ent2_madd _ _ _ _ i j h1 h2, ent2_sandwichS, ent2_sandwichS, ent2_sandwichS,
    ent2_madd X Y _ _ i j hX hY]
  ring

theorem sandwichS_neg (X : List (List ℚ)) (hX : IsMat X lyS.rows lyS.cols) :
    sandwich TS coslS (mneg X) = mneg (sandwich TS coslS X) := by
  apply mat_ext _ _ _ _ (sandwichS_shape _ (isMat_mneg X _ _ hX)) (isMat_mneg _ _ _ (sandwichS_shape X hX))
  intro i _ j _
  rw [ent2_mneg, ent2_sandwichS, ent2_sandwichS, ent2_mneg]
  ring

/-- the conclusion of `vor_div_roundtrip` on this instance: every `(ζ, δ) = ([[0,p,0]], [[0,q,0]])`
 is recovered below the top wavenumber -/
example (p q : ℚ) (i j : ℕ) (hj : j + 1 < 3) :
    ent2 (uvNodalToVorDivModalW lyS 1 aS bS TS coslS
        (vorDivToUvNodalW lyS 1 aS bS TS coslS [[0, p, 0]] [[0, q, 0]] false).1
        (vorDivToUvNodalW lyS 1 aS bS TS coslS [[0, p, 0]] [[0, q, 0]] false).2 false).1 i j
      = ent2 [[0, p, 0]] i j
    ∧ ent2 (uvNodalToVorDivModalW lyS 1 aS bS TS coslS
        (vorDivToUvNodalW lyS 1 aS bS TS coslS [[0, p, 0]] [[0, q, 0]] false).1
        (vorDivToUvNodalW lyS 1 aS bS TS coslS [[0, p, 0]] [[0, q, 0]] false).2 false).2 i j
      = ent2 [[0, q, 0]] i j :=
  vor_div_roundtrip lyS 1 one_ne_zero aS bS isMat_aS isMat_bS TS coslS (by decide) false sandwichS_shape
    sandwichS_add sandwichS_neg (fun ψ hψ i j _ => by rw [hypA_S ψ hψ]) (fun ψ hψ i j _ => hypB_S ψ hψ i j)
    _ _ (domS_mk p) (domS_mk q) i j hj

/-! ### an instance of T2.6 with `M = 3` on a genuine (non-identity) transform pair

 Real layout, `M = 3`, `L = 5` (rows `m = 0, +1, −1, +2, −2`), radius 2, over ℚ.  Exact arithmetic
 rules out the orthonormal basis (its values are irrational), so the instance uses the *monic*
 associated Legendre functions `P̃_l^m` (`P̃_m^m = cos^m θ`, `P̃_{l+1}^m = sin θ·P̃_l^m − a²_{m,l}·P̃_{l−1}^m`,
 `a²_{m,l} = (l² − m²)/(4l² − 1)`) at nine Pythagorean latitudes, with the interpolatory quadrature on
 these nodes, synthesis with `pT` and analysis with the dual table `pdT = pT / (8·‖P̃_l^m‖²)`
 (`realSynth` / `realAnalysis` of the model, two bases), recurrence weights `a = a²`, `b = 1` of the
 monic basis, and `cosT` as the cosines of the nodes.  `pairT_inverts`: analysis inverts synthesis on
 the triangle (a genuine transform pair).  The longitude factor `fT` (five Walsh columns) enters
 Hyp-A / Hyp-B only through `fᵀf = 8·I`.  Hyp-A and Hyp-B hold *exactly* on all of `Dom`, for both
 clip settings; outside the mask Hyp-A fails on this instance too (`hypA_T_fails_unmasked`). -/

/-- longitude factor: the first five columns of the 8 × 8 Walsh–Hadamard matrix (orthogonal, `‖col‖² = 8`) -/
def fT : List (List ℚ) :=
  [[1, 1, 1, 1, 1],
   [1, -1, 1, -1, 1],
   [1, 1, -1, -1, 1],
   [1, -1, -1, 1, 1],
   [1, 1, 1, 1, -1],
   [1, -1, 1, -1, -1],
   [1, 1, -1, -1, -1],
   [1, -1, -1, 1, -1]]
/-- latitude nodes `sin θ_j` (Pythagorean, so that `cos θ_j` is rational too) -/
def sinT : List ℚ := [0, 3/5, -3/5, 4/5, -4/5, 5/13, -5/13, 12/13, -12/13]
def cosT : List ℚ := [1, 4/5, 4/5, 3/5, 3/5, 12/13, 12/13, 5/13, 5/13]
/-- interpolatory quadrature weights on `sinT` (exact for polynomials of degree ≤ 8) -/
def wT : List ℚ :=
  [4858009/10206000, 1105184375/3696694848, 1105184375/3696694848, 95846875/1642975488, 95846875/1642975488, 193946012429/872830728000, 193946012429/872830728000, 229374790489/1256876248320, 229374790489/1256876248320]
/-- monic associated Legendre tables `P̃_l^m(sin θ_j)`, one per modal row `m = 0, +1, −1, +2, −2`:
 `P̃_m^m = cos^m θ`, `P̃_{l+1}^m = sin θ · P̃_l^m − (l² − m²)/(4l² − 1) · P̃_{l−1}^m` -/
def pT : List (List (List ℚ)) :=
  [[[1, 0, -1/3, 0, 3/35],
    [1, 3/5, 2/75, -18/125, -408/4375],
    [1, -3/5, 2/75, 18/125, -408/4375],
    [1, 4/5, 23/75, 4/125, -233/4375],
    [1, -4/5, 23/75, -4/125, -233/4375],
    [1, 5/13, -94/507, -382/2197, -19192/999635],
    [1, -5/13, -94/507, 382/2197, -19192/999635],
    [1, 12/13, 263/507, 2556/10985, 81363/999635],
    [1, -12/13, 263/507, -2556/10985, 81363/999635]],
   [[0, 1, 0, -1/5, 0],
    [0, 4/5, 12/25, 16/125, -144/4375],
    [0, 4/5, -12/25, 16/125, 144/4375],
    [0, 3/5, 12/25, 33/125, 444/4375],
    [0, 3/5, -12/25, 33/125, -444/4375],
    [0, 12/13, 60/169, -528/10985, -19920/199927],
    [0, 12/13, -60/169, -528/10985, 19920/199927],
    [0, 5/13, 60/169, 551/2197, 30060/199927],
    [0, 5/13, -60/169, 551/2197, -30060/199927]],
   [[0, 1, 0, -1/5, 0],
    [0, 4/5, 12/25, 16/125, -144/4375],
    [0, 4/5, -12/25, 16/125, 144/4375],
    [0, 3/5, 12/25, 33/125, 444/4375],
    [0, 3/5, -12/25, 33/125, -444/4375],
    [0, 12/13, 60/169, -528/10985, -19920/199927],
    [0, 12/13, -60/169, -528/10985, 19920/199927],
    [0, 5/13, 60/169, 551/2197, 30060/199927],
    [0, 5/13, -60/169, 551/2197, -30060/199927]],
   [[0, 0, 1, 0, -1/7],
    [0, 0, 16/25, 48/125, 608/4375],
    [0, 0, 16/25, -48/125, 608/4375],
    [0, 0, 9/25, 36/125, 783/4375],
    [0, 0, 9/25, -36/125, 783/4375],
    [0, 0, 144/169, 720/2197, 864/199927],
    [0, 0, 144/169, -720/2197, 864/199927],
    [0, 0, 25/169, 300/2197, 20975/199927],
    [0, 0, 25/169, -300/2197, 20975/199927]],
   [[0, 0, 1, 0, -1/7],
    [0, 0, 16/25, 48/125, 608/4375],
    [0, 0, 16/25, -48/125, 608/4375],
    [0, 0, 9/25, 36/125, 783/4375],
    [0, 0, 9/25, -36/125, 783/4375],
    [0, 0, 144/169, 720/2197, 864/199927],
    [0, 0, 144/169, -720/2197, 864/199927],
    [0, 0, 25/169, 300/2197, 20975/199927],
    [0, 0, 25/169, -300/2197, 20975/199927]]]
/-- `1 / (8 · ‖P̃_l^m‖²)` (zero outside the triangle): the analysis table is `pT` scaled by it -/
def nrmT : List (List ℚ) :=
  [[1/16, 3/16, 45/64, 175/64, 11025/1024],
   [0, 3/32, 15/32, 525/256, 2205/256],
   [0, 3/32, 15/32, 525/256, 2205/256],
   [0, 0, 15/128, 105/128, 2205/512],
   [0, 0, 15/128, 105/128, 2205/512]]
/-- recurrence weights of the monic basis: `a[m,l] = (l² − m²)/(4l² − 1)`, `b[m,l] = 1` on the triangle -/
def aT : List (List ℚ) :=
  [[0, 1/3, 4/15, 9/35, 16/63],
   [0, 0, 1/5, 8/35, 5/21],
   [0, 0, 1/5, 8/35, 5/21],
   [0, 0, 0, 1/7, 4/21],
   [0, 0, 0, 1/7, 4/21]]
def bT : List (List ℚ) :=
  [[1, 1, 1, 1, 0],
   [0, 1, 1, 1, 0],
   [0, 1, 1, 1, 0],
   [0, 0, 1, 1, 0],
   [0, 0, 1, 1, 0]]



def lyT : Layout := ⟨false, 3, 5, 0, 0⟩
/-- the analysis (dual) table: `pT` scaled per `(m, l)` by `1/(8·‖P̃_l^m‖²)` -/
def pdT : List (List (List ℚ)) :=
  List.zipWith (fun pr nr => pr.map fun pj => List.zipWith (· * ·) pj nr) pT nrmT
def bSynT : SH.Basis ℚ := ⟨fT, pT, wT⟩
def bAnaT : SH.Basis ℚ := ⟨fT, pdT, wT⟩
/-- synthesis with the monic tables, analysis with their dual: `8 × 9` nodal arrays -/
def TT : Transforms ℚ := ⟨SH.realSynth bSynT 9, SH.realAnalysis bAnaT 5 9 5⟩

theorem shaped_bSynT : SH.Shaped bSynT 8 5 9 5 := ⟨rfl, rfl, by decide +kernel, by decide +kernel, rfl⟩
theorem shaped_bAnaT : SH.Shaped bAnaT 8 5 9 5 := ⟨rfl, rfl, by decide +kernel, by decide +kernel, rfl⟩
theorem isMat_aT : IsMat aT lyT.rows lyT.cols := ⟨rfl, by decide +kernel⟩
theorem isMat_bT : IsMat bT lyT.rows lyT.cols := ⟨rfl, by decide +kernel⟩
/-- the side condition of the division: no node at a pole -/
theorem cosT_ne_zero : ∀ c ∈ cosT, c ≠ 0 := by decide +kernel
/-- `cosT` is the cosine of the nodes: `sin² + cos² = 1` -/
example : List.zipWith (fun s c => s * s + c * c) sinT cosT = List.replicate 9 1 := by decide +kernel

/-- `S` of the instance is linear: from the linearity of the model's transforms -/
theorem sandwichT_linMap : LinMap lyT.rows lyT.cols lyT.rows lyT.cols (sandwich TT cosT) :=
  sandwich_linMap lyT TT cosT 8 9 rfl cosT_ne_zero
    (linMap_realSynth bSynT 8 5 9 5 5 shaped_bSynT) (linMap_realAnalysis bAnaT 8 5 9 5 shaped_bAnaT)

/-- `sandwich_shTransforms` on a concrete basis: the model's own transforms built from the synthesis
 basis of the instance give a linear `S` (shape hypothesis `BasisFor` instantiated) -/
example : LinMap lyT.rows lyT.cols lyT.rows lyT.cols (sandwich (shTransforms lyT bSynT) cosT) :=
  sandwich_shTransforms lyT bSynT 8 9 cosT (show BasisFor lyT bSynT 8 9 from shaped_bSynT) rfl cosT_ne_zero

/-- how the structural hypotheses of `vor_div_roundtrip` are discharged for the model's own transforms
 (any layout, any basis of consistent shape): only Hyp-A and Hyp-B remain -/
example {K : Type} [Field K] [CharZero K] (ly : Layout) (r : K) (hr : r ≠ 0) (a b : List (List K))
    (ha : IsMat a ly.rows ly.cols) (hb : IsMat b ly.rows ly.cols) (bs : SH.Basis K) (N J : Nat)
    (cosl : List K) (hbs : BasisFor ly bs N J) (hc : cosl.length = J) (hcos : ∀ c ∈ cosl, c ≠ 0) (c : Bool)
    (hypA : ∀ ψ, Dom ly (topEmpty c) ψ → ∀ i j, j + 1 < ly.L →
      ent2 (divCosLatW ly r a b (sandwich (shTransforms ly bs) cosl (cosLatGradW ly r a b ψ c).1,
        sandwich (shTransforms ly bs) cosl (cosLatGradW ly r a b ψ c).2) c) i j = ent2 (laplacian ly r ψ) i j)
    (hypB : ∀ ψ, Dom ly (topEmpty c) ψ → ∀ i j, j + 1 < ly.L →
      ent2 (curlCosLatW ly r a b (sandwich (shTransforms ly bs) cosl (cosLatGradW ly r a b ψ c).1,
        sandwich (shTransforms ly bs) cosl (cosLatGradW ly r a b ψ c).2) c) i j = 0)
    (vor dv : List (List K)) (hvor : Dom ly (topEmpty c) vor) (hdv : Dom ly (topEmpty c) dv)
    (i j : Nat) (hj : j + 1 < ly.L) :
    ent2 (uvNodalToVorDivModalW ly r a b (shTransforms ly bs) cosl
        (vorDivToUvNodalW ly r a b (shTransforms ly bs) cosl vor dv c).1
        (vorDivToUvNodalW ly r a b (shTransforms ly bs) cosl vor dv c).2 c).1 i j = ent2 vor i j
    ∧ ent2 (uvNodalToVorDivModalW ly r a b (shTransforms ly bs) cosl
        (vorDivToUvNodalW ly r a b (shTransforms ly bs) cosl vor dv c).1
        (vorDivToUvNodalW ly r a b (shTransforms ly bs) cosl vor dv c).2 c).2 i j = ent2 dv i j :=
  vor_div_roundtrip ly r hr a b ha hb (shTransforms ly bs) cosl hcos c
    (sandwich_shTransforms ly bs N J cosl hbs hc hcos).shape
    (sandwich_shTransforms ly bs N J cosl hbs hc hcos).add
    (sandwich_shTransforms ly bs N J cosl hbs hc hcos).neg hypA hypB vor dv hvor hdv i j hj

/-- a genuine transform pair: `to_modal ∘ to_nodal` returns the unit fields of the triangle (two samples;
 biorthogonality of all the tables is `pairT_biorthogonal`) -/
example : TT.toModal (TT.toNodal (unitM 5 5 3 2)) = unitM 5 5 3 2 := by decide +kernel
example : TT.toModal (TT.toNodal (unitM 5 5 1 3)) = unitM 5 5 1 3 := by decide +kernel

/-- biorthogonality of the analysis and synthesis tables on the triangle:
 `8 · Σ_j w_j · pdT[r][j][l] · pT[r][j][l'] = δ_{ll'}` for `|m(r)| ≤ l, l'` -/
theorem pairT_biorthogonal : ∀ r < 5, ∀ l < 5, ∀ l' < 5, lyT.maskAt r l = true → lyT.maskAt r l' = true →
    8 * ((List.range 9).map fun j => ent wT j * ent3 pdT r j l * ent3 pT r j l').sum
      = if l = l' then 1 else 0 := by decide +kernel

/-- … and it is not the identity map: the nodal field of `E_{3,2}` (`m = 2`, `l = 2`) at node `(1, 1)` -/
example : ent2 (TT.toNodal (unitM 5 5 3 2)) 1 1 = -16 / 25 := by decide +kernel

theorem sum_range_list (g : ℕ → ℚ) (n : ℕ) : ∑ i ∈ range n, g i = ((List.range n).map g).sum := by
  induction n with
  | zero => simp
  | succ n ih => rw [Finset.sum_range_succ, ih, List.range_succ, List.map_append, List.sum_append]; simp

/-- the Walsh columns are orthogonal: `fᵀf = 8·I` -/
theorem fCrossT : ∀ r < 5, ∀ r' < 5, fCross bAnaT bSynT 8 r r' = if r = r' then (fun _ => (8 : ℚ)) r else 0 := by
  have h : ∀ r < 5, ∀ r' < 5, ((List.range 8).map fun i => ent2 fT i r * ent2 fT i r').sum
      = if r = r' then (8 : ℚ) else 0 := by decide +kernel
  intro r hr r' hr'
  unfold fCross
  rw [sum_range_list]
  exact h r hr r' hr'

/-- `8 · Σ_j w_j · pdT[r][j][l] · pT[r][j][l'] / cos²θ_j`: the matrix through which the sandwich acts on
 modal row `r` (`atabT_spec`) -/
def atabT : List (List (List ℚ)) :=
  [[[192822571/81648000, 0, 70350571/122472000, 0, 22722571/357210000],
    [0, 111174571/27216000, 0, 43134571/68040000, 0],
    [70350571/10886400, 0, 70350571/16329600, 0, 22722571/47628000],
    [0, 43134571/4665600, 0, 43134571/11664000, 0],
    [22722571/2073600, 0, 22722571/3110400, 0, 22722571/9072000]],
   [[0, 0, 0, 0, 0],
    [0, 3/2, 0, 1/5, 0],
    [0, 0, 5/2, 0, 3/7],
    [0, 35/8, 0, 7/2, 0],
    [0, 0, 63/8, 0, 9/2]],
   [[0, 0, 0, 0, 0],
    [0, 3/2, 0, 1/5, 0],
    [0, 0, 5/2, 0, 3/7],
    [0, 35/8, 0, 7/2, 0],
    [0, 0, 63/8, 0, 9/2]],
   [[0, 0, 0, 0, 0],
    [0, 0, 0, 0, 0],
    [0, 0, 5/4, 0, 1/14],
    [0, 0, 0, 7/4, 0],
    [0, 0, 21/8, 0, 9/4]],
   [[0, 0, 0, 0, 0],
    [0, 0, 0, 0, 0],
    [0, 0, 5/4, 0, 1/14],
    [0, 0, 0, 7/4, 0],
    [0, 0, 21/8, 0, 9/4]]]

/-- `atabT` is `8` times the `cos⁻²θ`-weighted Gram matrix of the two tables (checked row by row) -/
def AtabRow (r : Nat) : Prop := ∀ l < 5, ∀ l' < 5,
    8 * ((List.range 9).map fun j =>
      ent wT j * ent3 pdT r j l * ent3 pT r j l' / (ent cosT j * ent cosT j)).sum = ent3 atabT r l l'
instance (r : Nat) : Decidable (AtabRow r) := by unfold AtabRow; infer_instance
theorem atabT_row0 : AtabRow 0 := by decide +kernel
theorem atabT_row1 : AtabRow 1 := by decide +kernel
theorem atabT_row2 : AtabRow 2 := by decide +kernel
theorem atabT_row3 : AtabRow 3 := by decide +kernel
theorem atabT_row4 : AtabRow 4 := by decide +kernel
theorem atabT_spec : ∀ r < 5, ∀ l < 5, ∀ l' < 5,
    8 * ((List.range 9).map fun j =>
      ent wT j * ent3 pdT r j l * ent3 pT r j l' / (ent cosT j * ent cosT j)).sum = ent3 atabT r l l' := by
  intro r hr
  interval_cases r
  · exact atabT_row0
  · exact atabT_row1
  · exact atabT_row2
  · exact atabT_row3
  · exact atabT_row4

/-- the sandwich of the instance, in closed form (row-wise action of `atabT`) -/
theorem sandwichT_eq (X : List (List ℚ)) (hX : IsMat X 5 5) :
    sandwich TT cosT X = SH.invLegendre atabT X := by
  apply mat_ext _ _ 5 5 (sandwichT_linMap.shape X hX)
    ⟨by rw [SH.invLegendre_length, hX.1]; rfl, SH.invLegendre_rows atabT X 5 (by decide +kernel)⟩
  intro r hr l hl
  rw [show TT = ⟨SH.realSynth bSynT 9, SH.realAnalysis bAnaT 5 9 5⟩ from rfl,
    ent2_sandwich_separable bSynT bAnaT 8 5 9 5 shaped_bSynT shaped_bAnaT cosT rfl cosT_ne_zero
      (fun _ => 8) fCrossT X hX r l hr,
    SH.ent2_invLegendre atabT X r l 5 (rows_le_of_isMat _ _ _ hX)]
  apply Finset.sum_congr rfl
  intro l' hl'
  rw [← atabT_spec r hr l hl l' (Finset.mem_range.mp hl')]
  unfold secGram
  rw [sum_range_list]
  rfl

/-- Hyp-A / Hyp-B operators of the instance with the sandwich in closed form -/
def divSGradT (c : Bool) (ψ : List (List ℚ)) : List (List ℚ) :=
  divCosLatW lyT 2 aT bT (SH.invLegendre atabT (cosLatGradW lyT 2 aT bT ψ c).1,
    SH.invLegendre atabT (cosLatGradW lyT 2 aT bT ψ c).2) c
def curlSGradT (c : Bool) (ψ : List (List ℚ)) : List (List ℚ) :=
  curlCosLatW lyT 2 aT bT (SH.invLegendre atabT (cosLatGradW lyT 2 aT bT ψ c).1,
    SH.invLegendre atabT (cosLatGradW lyT 2 aT bT ψ c).2) c

theorem divSGradT_eq (c : Bool) (ψ : List (List ℚ)) (hψ : IsMat ψ 5 5) :
    divSGrad lyT 2 aT bT TT cosT c ψ = divSGradT c ψ := by
  obtain ⟨g1, g2⟩ := isMat_grad lyT 2 aT bT ψ c hψ isMat_aT isMat_bT
  unfold divSGrad divSGradT
  rw [sandwichT_eq _ g1, sandwichT_eq _ g2]

theorem curlSGradT_eq (c : Bool) (ψ : List (List ℚ)) (hψ : IsMat ψ 5 5) :
    curlSGrad lyT 2 aT bT TT cosT c ψ = curlSGradT c ψ := by
  obtain ⟨g1, g2⟩ := isMat_grad lyT 2 aT bT ψ c hψ isMat_aT isMat_bT
  unfold curlSGrad curlSGradT
  rw [sandwichT_eq _ g1, sandwichT_eq _ g2]

/-- Hyp-A and Hyp-B on one unit field, below the top wavenumber (as truncated arrays) -/
def UnitOkT (c : Bool) (i j : Nat) : Prop :=
  (divSGradT c (unitM 5 5 i j)).map (List.take 4) = (laplacian lyT 2 (unitM 5 5 i j)).map (List.take 4)
    ∧ (curlSGradT c (unitM 5 5 i j)).map (List.take 4) = mzeros 5 4

instance (c : Bool) (i j : Nat) : Decidable (UnitOkT c i j) := by unfold UnitOkT; infer_instance

/-- Hyp-A and Hyp-B on the unit fields of modal row `i` that lie in `Dom lyT (topEmpty c)` -/
def UnitRowT (c : Bool) (i : Nat) : Prop :=
  ∀ j < 5, (0 < j ∧ j + topEmpty c < 5 ∧ lyT.maskAt i j = true) → UnitOkT c i j
instance (c : Bool) (i : Nat) : Decidable (UnitRowT c i) := by unfold UnitRowT; infer_instance

/-- the 13 unit fields of `Dom lyT 1` (clip = False), row by row -/
theorem unitsT_false_0 : UnitRowT false 0 := by decide +kernel
theorem unitsT_false_1 : UnitRowT false 1 := by decide +kernel
theorem unitsT_false_2 : UnitRowT false 2 := by decide +kernel
theorem unitsT_false_3 : UnitRowT false 3 := by decide +kernel
theorem unitsT_false_4 : UnitRowT false 4 := by decide +kernel
/-- the 8 unit fields of `Dom lyT 2` (clip = True), row by row -/
theorem unitsT_true_0 : UnitRowT true 0 := by decide +kernel
theorem unitsT_true_1 : UnitRowT true 1 := by decide +kernel
theorem unitsT_true_2 : UnitRowT true 2 := by decide +kernel
theorem unitsT_true_3 : UnitRowT true 3 := by decide +kernel
theorem unitsT_true_4 : UnitRowT true 4 := by decide +kernel

theorem unitsT (c : Bool) (i : Nat) (hi : i < 5) (j : Nat) (hj : j < 5)
    (hP : 0 < j ∧ j + topEmpty c < 5 ∧ lyT.maskAt i j = true) : UnitOkT c i j := by
  cases c <;> interval_cases i
  · exact unitsT_false_0 j hj hP
  · exact unitsT_false_1 j hj hP
  · exact unitsT_false_2 j hj hP
  · exact unitsT_false_3 j hj hP
  · exact unitsT_false_4 j hj hP
  · exact unitsT_true_0 j hj hP
  · exact unitsT_true_1 j hj hP
  · exact unitsT_true_2 j hj hP
  · exact unitsT_true_3 j hj hP
  · exact unitsT_true_4 j hj hP

theorem ent2_map_take (X : List (List ℚ)) (k p q : Nat) (hq : q < k) :
    ent2 (X.map (List.take k)) p q = ent2 X p q := by
  rw [ent2_map_rows _ (by simp), ent_take, if_pos hq, ← ent2_eq_ent]

/-- **Hyp-A holds exactly on all of `Dom`** of the instance (both clip settings) -/
theorem hypA_T (c : Bool) (ψ : List (List ℚ)) (hψ : Dom lyT (topEmpty c) ψ) (p q : Nat) (hq : q + 1 < lyT.L) :
    ent2 (divCosLatW lyT 2 aT bT (sandwich TT cosT (cosLatGradW lyT 2 aT bT ψ c).1,
        sandwich TT cosT (cosLatGradW lyT 2 aT bT ψ c).2) c) p q = ent2 (laplacian lyT 2 ψ) p q := by
  apply hypA_of_units lyT 2 aT bT isMat_aT isMat_bT TT cosT c sandwichT_linMap _ ψ hψ p q hq
  intro i hi j hj hP p q hq
  have hq4 : q < 4 := by have : lyT.L = 5 := rfl; omega
  have := congrArg (fun X => ent2 X p q) (unitsT c i hi j hj hP).1
  simp only [ent2_map_take _ 4 p q hq4] at this
  rw [show lyT.rows = 5 from rfl, show lyT.cols = 5 from rfl, divSGradT_eq c _ (isMat_unitM 5 5 i j)]
  exact this

/-- **Hyp-B holds exactly on all of `Dom`** of the instance -/
theorem hypB_T (c : Bool) (ψ : List (List ℚ)) (hψ : Dom lyT (topEmpty c) ψ) (p q : Nat) (hq : q + 1 < lyT.L) :
    ent2 (curlCosLatW lyT 2 aT bT (sandwich TT cosT (cosLatGradW lyT 2 aT bT ψ c).1,
        sandwich TT cosT (cosLatGradW lyT 2 aT bT ψ c).2) c) p q = 0 := by
  apply hypB_of_units lyT 2 aT bT isMat_aT isMat_bT TT cosT c sandwichT_linMap _ ψ hψ p q hq
  intro i hi j hj hP p q hq
  have hq4 : q < 4 := by have : lyT.L = 5 := rfl; omega
  have := congrArg (fun X => ent2 X p q) (unitsT c i hi j hj hP).2
  simp only [ent2_map_take _ 4 p q hq4, ent2_mzeros] at this
  rw [show lyT.rows = 5 from rfl, show lyT.cols = 5 from rfl, curlSGradT_eq c _ (isMat_unitM 5 5 i j)]
  exact this

/-- outside the mask Hyp-A is false on this instance as well: the unit field at `(m, l) = (+2, 1)`
 (row 3) is discarded by `to_nodal` while its Laplacian is `−l(l+1)/r² = −1/2` -/
theorem hypA_T_fails_unmasked :
    ent2 (divSGrad lyT 2 aT bT TT cosT false (unitM 5 5 3 1)) 3 1 = 0
      ∧ ent2 (laplacian lyT 2 (unitM 5 5 3 1)) 3 1 = -1 / 2 := by
  rw [divSGradT_eq false _ (isMat_unitM 5 5 3 1)]
  decide +kernel

/-- a field of the domain with non-zero entries in every row, `m = ±2` included -/
def vorT : List (List ℚ) := [[0,1,2,3,0],[0,1,-1,2,0],[0,2,1,1,0],[0,0,3,-2,0],[0,0,1,4,0]]
def divT : List (List ℚ) := [[0,-1,0,2,0],[0,3,1,-1,0],[0,1,1,5,0],[0,0,-2,1,0],[0,0,7,1,0]]

theorem dom_of_table (k : Nat) (X : List (List ℚ)) (hX : IsMat X 5 5)
    (h : ∀ i < 5, ∀ j < 5, (j = 0 ∨ 5 ≤ j + k ∨ lyT.maskAt i j = false) → ent2 X i j = 0) :
    Dom lyT k X := by
  refine ⟨hX, ?_, ?_⟩
  · intro i j hj
    have hj' : j = 0 ∨ 5 ≤ j + k := hj
    by_cases hi : i < 5
    · by_cases hj5 : j < 5
      · exact h i hi j hj5 (by omega)
      · exact ent2_of_col_le _ 5 5 i j hX (by omega)
    · exact ent2_of_row_le _ i j (by rw [hX.1]; omega)
  · intro i j hm
    by_cases hi : i < 5
    · by_cases hj5 : j < 5
      · exact h i hi j hj5 (Or.inr (Or.inr hm))
      · exact ent2_of_col_le _ 5 5 i j hX (by omega)
    · exact ent2_of_row_le _ i j (by rw [hX.1]; omega)

theorem dom_vorT : Dom lyT 1 vorT := dom_of_table 1 vorT ⟨rfl, by decide +kernel⟩ (by decide +kernel)
theorem dom_divT : Dom lyT 1 divT := dom_of_table 1 divT ⟨rfl, by decide +kernel⟩ (by decide +kernel)

/-- `vor_div_roundtrip` on the instance: every pair of `Dom lyT 1` is recovered below the top wavenumber … -/
example (vor dv : List (List ℚ)) (hvor : Dom lyT 1 vor) (hdv : Dom lyT 1 dv) (i j : ℕ) (hj : j + 1 < 5) :
    ent2 (uvNodalToVorDivModalW lyT 2 aT bT TT cosT (vorDivToUvNodalW lyT 2 aT bT TT cosT vor dv false).1
        (vorDivToUvNodalW lyT 2 aT bT TT cosT vor dv false).2 false).1 i j = ent2 vor i j
    ∧ ent2 (uvNodalToVorDivModalW lyT 2 aT bT TT cosT (vorDivToUvNodalW lyT 2 aT bT TT cosT vor dv false).1
        (vorDivToUvNodalW lyT 2 aT bT TT cosT vor dv false).2 false).2 i j = ent2 dv i j :=
  vor_div_roundtrip lyT 2 (by norm_num) aT bT isMat_aT isMat_bT TT cosT cosT_ne_zero false
    sandwichT_linMap.shape sandwichT_linMap.add sandwichT_linMap.neg (hypA_T false) (hypB_T false)
    vor dv hvor hdv i j hj

/-- … in particular the concrete pair `(vorT, divT)`, whose rows `m = ±2` are not zero -/
example : ent2 (uvNodalToVorDivModalW lyT 2 aT bT TT cosT
      (vorDivToUvNodalW lyT 2 aT bT TT cosT vorT divT false).1
      (vorDivToUvNodalW lyT 2 aT bT TT cosT vorT divT false).2 false).1 3 2 = 3 :=
  (vor_div_roundtrip lyT 2 (by norm_num) aT bT isMat_aT isMat_bT TT cosT cosT_ne_zero false
    sandwichT_linMap.shape sandwichT_linMap.add sandwichT_linMap.neg (hypA_T false) (hypB_T false)
    vorT divT dom_vorT dom_divT 3 2 (by decide)).1

/-- `vor_div_roundtrip_clipped` on the instance: with `clip = True` the round trip is the identity as arrays -/
example (vor dv : List (List ℚ)) (hvor : Dom lyT 2 vor) (hdv : Dom lyT 2 dv) :
    uvNodalToVorDivModalW lyT 2 aT bT TT cosT (vorDivToUvNodalW lyT 2 aT bT TT cosT vor dv true).1
        (vorDivToUvNodalW lyT 2 aT bT TT cosT vor dv true).2 true = (vor, dv) :=
  vor_div_roundtrip_clipped lyT 2 (by norm_num) aT bT isMat_aT isMat_bT TT cosT cosT_ne_zero
    sandwichT_linMap.shape sandwichT_linMap.add sandwichT_linMap.neg (hypA_T true) (hypB_T true)
    vor dv hvor hdv

/-- `Dom lyT 2` contains fields with non-zero rows `m = ±2` -/
example : Dom (K := ℚ) lyT 2 [[0,1,2,0,0],[0,1,-1,0,0],[0,2,1,0,0],[0,0,3,0,0],[0,0,1,0,0]] :=
  dom_of_table 2 [[0,1,2,0,0],[0,1,-1,0,0],[0,2,1,0,0],[0,0,3,0,0],[0,0,1,0,0]] ⟨rfl, by decide +kernel⟩ (by decide +kernel)

/-- `vor_div_roundtrip_eps` on the instance (the residuals vanish, so every `ε ≥ 0` is admissible) -/
example (vor dv : List (List ℚ)) (hvor : Dom lyT 1 vor) (hdv : Dom lyT 1 dv) (B : ℚ)
    (hBv : ∀ i j, |ent2 vor i j| ≤ B) (hBd : ∀ i j, |ent2 dv i j| ≤ B) (i j : ℕ) (hj : j + 1 < 5) :
    |ent2 (uvNodalToVorDivModalW lyT 2 aT bT TT cosT (vorDivToUvNodalW lyT 2 aT bT TT cosT vor dv false).1
        (vorDivToUvNodalW lyT 2 aT bT TT cosT vor dv false).2 false).1 i j - ent2 vor i j|
      ≤ 2 * (1 / 1000) * B
    ∧ |ent2 (uvNodalToVorDivModalW lyT 2 aT bT TT cosT (vorDivToUvNodalW lyT 2 aT bT TT cosT vor dv false).1
        (vorDivToUvNodalW lyT 2 aT bT TT cosT vor dv false).2 false).2 i j - ent2 dv i j|
      ≤ 2 * (1 / 1000) * B :=
  vor_div_roundtrip_eps lyT 2 (by norm_num) aT bT isMat_aT isMat_bT TT cosT cosT_ne_zero false
    sandwichT_linMap.shape sandwichT_linMap.add sandwichT_linMap.neg (1 / 1000)
    (fun ψ hψ B hB i j hj => by
      rw [hypA_T false ψ hψ i j hj, sub_self, abs_zero]
      exact mul_nonneg (by norm_num) (le_trans (abs_nonneg _) (hB 0 0)))
    (fun ψ hψ B hB i j hj => by
      rw [hypB_T false ψ hψ i j hj, abs_zero]
      exact mul_nonneg (by norm_num) (le_trans (abs_nonneg _) (hB 0 0)))
    vor dv hvor hdv B hBv hBd i j hj

end examples

/-! ## T2.6: Hyp-A / Hyp-B within `ε` from the unit fields, and kernel-checked certificates on live grids -/
section T26units_eps
variable {K : Type} [Field K] [LinearOrder K] [IsStrictOrderedRing K]

/-- `(∇²x)_{ij} = x_{ij}·λ_j` with `λ_j` the `j`-th Laplacian eigenvalue (`0` outside the array) -/
theorem ent2_laplacian_eig (ly : Layout) (r : K) (x : List (List K)) (i j : Nat) :
    ent2 (laplacian ly r x) i j = ent2 x i j * ent (eigenvalues ly r) j := by
  rw [ent2_laplacian, ent_eigenvalues]

/-- the only non-zero entry of `∇²E_{ij}` is `λ_j`, at `(i, j)` -/
theorem ent2_laplacian_unit (ly : Layout) (r : K) (i j : Nat) (hi : i < ly.rows) (hj : j < ly.cols) :
    ent2 (laplacian ly r (unitM ly.rows ly.cols i j)) i j = ent (eigenvalues ly r) j := by
  rw [ent2_laplacian_eig, ent2_unitM, if_pos ⟨⟨hi, hj⟩, rfl, rfl⟩, one_mul]

/-- **Hyp-A within `ε` from unit fields** (ε-version of `hypA_of_units`, any ordered field): if `S` is linear and,
 for every unit field `E_{ij}` of the domain (masked entries with `1 ≤ l < L − topEmpty`), the Hyp-A residual below
 the top wavenumber is at most `δ·max|∇²E_{ij}|` (`= δ·|(∇²E_{ij})_{ij}|`), then on **every** field `ψ` of `Dom`
 the residual is at most `(rows·cols)·δ·B` whenever `|∇²ψ| ≤ B` entry-wise — the hypothesis `hypA` of
 `vor_div_roundtrip_eps` with `ε = rows·cols·δ` (number of unit arrays times the unit residual). -/
theorem hypA_eps_of_units (ly : Layout) (r : K) (a b : List (List K)) (ha : IsMat a ly.rows ly.cols)
    (hb : IsMat b ly.rows ly.cols) (T : Transforms K) (cosl : List K) (c : Bool)
    (hS : LinMap ly.rows ly.cols ly.rows ly.cols (sandwich T cosl)) (δ : K) (hδ : 0 ≤ δ)
    (hunit : ∀ i < ly.rows, ∀ j < ly.cols, (0 < j ∧ j + topEmpty c < ly.L ∧ ly.maskAt i j = true) →
      ∀ p q, q + 1 < ly.L →
        |ent2 (divSGrad ly r a b T cosl c (unitM ly.rows ly.cols i j)) p q
          - ent2 (laplacian ly r (unitM ly.rows ly.cols i j)) p q|
          ≤ δ * |ent2 (laplacian ly r (unitM ly.rows ly.cols i j)) i j|)
    (ψ : List (List K)) (hψ : Dom ly (topEmpty c) ψ) (B : K)
    (hB : ∀ i j, |ent2 (laplacian ly r ψ) i j| ≤ B) (p q : Nat) (hq : q + 1 < ly.L) :
    |ent2 (divCosLatW ly r a b (sandwich T cosl (cosLatGradW ly r a b ψ c).1,
        sandwich T cosl (cosLatGradW ly r a b ψ c).2) c) p q - ent2 (laplacian ly r ψ) p q|
      ≤ ((ly.rows * ly.cols : ℕ) : K) * δ * B := by
  apply linMap_ext_eps ly.rows ly.cols ly.rows ly.cols (divSGrad ly r a b T cosl c) (laplacian ly r)
    (linMap_divSGrad ly r a b ha hb T cosl c hS) (linMap_laplacian ly r)
    (fun i j => 0 < j ∧ j + topEmpty c < ly.L ∧ ly.maskAt i j = true)
    (fun _ j => ent (eigenvalues ly r) j) p q δ hδ
    (fun i hi j hj hP => by
      have := hunit i hi j hj hP p q hq
      rwa [ent2_laplacian_unit ly r i j hi hj] at this) ψ hψ.1
  · intro i j hP
    by_cases h1 : j = 0 ∨ ly.L ≤ j + topEmpty c
    · exact hψ.2.1 i j h1
    · apply hψ.2.2 i j
      cases hm : ly.maskAt i j
      · rfl
      · exact absurd ⟨by omega, by omega, hm⟩ hP
  · intro i _ j _
    rw [← ent2_laplacian_eig]
    exact hB i j

/-- **Hyp-B within `ε` from unit fields** (ε-version of `hypB_of_units`) -/
theorem hypB_eps_of_units (ly : Layout) (r : K) (a b : List (List K)) (ha : IsMat a ly.rows ly.cols)
    (hb : IsMat b ly.rows ly.cols) (T : Transforms K) (cosl : List K) (c : Bool)
    (hS : LinMap ly.rows ly.cols ly.rows ly.cols (sandwich T cosl)) (δ : K) (hδ : 0 ≤ δ)
    (hunit : ∀ i < ly.rows, ∀ j < ly.cols, (0 < j ∧ j + topEmpty c < ly.L ∧ ly.maskAt i j = true) →
      ∀ p q, q + 1 < ly.L →
        |ent2 (curlSGrad ly r a b T cosl c (unitM ly.rows ly.cols i j)) p q|
          ≤ δ * |ent2 (laplacian ly r (unitM ly.rows ly.cols i j)) i j|)
    (ψ : List (List K)) (hψ : Dom ly (topEmpty c) ψ) (B : K)
    (hB : ∀ i j, |ent2 (laplacian ly r ψ) i j| ≤ B) (p q : Nat) (hq : q + 1 < ly.L) :
    |ent2 (curlCosLatW ly r a b (sandwich T cosl (cosLatGradW ly r a b ψ c).1,
        sandwich T cosl (cosLatGradW ly r a b ψ c).2) c) p q| ≤ ((ly.rows * ly.cols : ℕ) : K) * δ * B := by
  have hz : LinMap ly.rows ly.cols ly.rows ly.cols (fun x : List (List K) => mscale 0 x) :=
    ⟨fun x hx => isMat_mscale 0 x _ _ hx,
     fun x y hx hy => by
       apply mat_ext _ _ _ _ (isMat_mscale 0 _ _ _ (isMat_madd x y _ _ hx hy))
         (isMat_madd _ _ _ _ (isMat_mscale 0 x _ _ hx) (isMat_mscale 0 y _ _ hy))
       intro i _ j _
       rw [ent2_madd _ _ _ _ i j (isMat_mscale 0 x _ _ hx) (isMat_mscale 0 y _ _ hy), ent2_mscale,
         ent2_mscale, ent2_mscale]
       ring,
     fun x hx => by
       apply mat_ext _ _ _ _ (isMat_mscale 0 _ _ _ (isMat_mneg x _ _ hx))
         (isMat_mneg _ _ _ (isMat_mscale 0 x _ _ hx))
       intro i _ j _
       rw [ent2_mneg, ent2_mscale, ent2_mscale]
       ring,
     fun s x hx => by
       apply mat_ext _ _ _ _ (isMat_mscale 0 _ _ _ (isMat_mscale s x _ _ hx))
         (isMat_mscale s _ _ _ (isMat_mscale 0 x _ _ hx))
       intro i _ j _
       rw [ent2_mscale, ent2_mscale, ent2_mscale, ent2_mscale]
       ring⟩
  have := linMap_ext_eps ly.rows ly.cols ly.rows ly.cols (curlSGrad ly r a b T cosl c) (fun x => mscale 0 x)
    (linMap_curlSGrad ly r a b ha hb T cosl c hS) hz
    (fun i j => 0 < j ∧ j + topEmpty c < ly.L ∧ ly.maskAt i j = true)
    (fun _ j => ent (eigenvalues ly r) j) p q δ hδ
    (fun i hi j hj hP => by
      have := hunit i hi j hj hP p q hq
      rw [ent2_laplacian_unit ly r i j hi hj] at this
      rwa [ent2_mscale, zero_mul, sub_zero]) ψ hψ.1
    (by
      intro i j hP
      by_cases h1 : j = 0 ∨ ly.L ≤ j + topEmpty c
      · exact hψ.2.1 i j h1
      · apply hψ.2.2 i j
        cases hm : ly.maskAt i j
        · rfl
        · exact absurd ⟨by omega, by omega, hm⟩ hP) B
    (by
      intro i _ j _
      rw [← ent2_laplacian_eig]
      exact hB i j)
  rw [ent2_mscale, zero_mul, sub_zero] at this
  exact this

end T26units_eps

/-! ### what a kernel-checked `GCert` (`Dino/GridCert.lean`, `DinoGen/GridCert/*.lean`) means over ℚ -/
section gcert
open Dino.Grid.GCert

theorem dy_ne_zero (e : Nat) (n : Int) (hn : n ≠ 0) : dy e n ≠ 0 := by
  unfold dy
  exact div_ne_zero (Int.cast_ne_zero.mpr hn) (Nat.cast_ne_zero.mpr (pow_ne_zero e (by norm_num)))

theorem isMat_map_dy (x : List (List Int)) (e R C : Nat) (hl : x.length = R)
    (hr : ∀ row ∈ x, row.length = C) : IsMat (x.map fun row => row.map (dy e)) R C := by
  refine ⟨by simp [hl], ?_⟩
  intro row hrow
  simp only [List.mem_map] at hrow
  obtain ⟨r0, h0, rfl⟩ := hrow
  simp [hr r0 h0]

/-- the facts about the arrays of a certificate that the wind theorems need -/
structure GoodCert (c : GCert) : Prop where
  r_ne : c.r ≠ 0
  ha : IsMat c.aQ c.ly.rows c.ly.cols
  hb : IsMat c.bQ c.ly.rows c.ly.cols
  hbasis : BasisFor c.ly c.basis c.N c.J
  hcl : c.coslQ.length = c.J
  hcos : ∀ x ∈ c.coslQ, x ≠ 0

theorem goodCert_of_shapeOk (c : GCert) (h : c.shapeOk = true) : GoodCert c := by
  simp only [GCert.shapeOk, Bool.and_eq_true, decide_eq_true_eq, List.all_eq_true, Bool.or_eq_true,
    Bool.not_eq_true'] at h
  obtain ⟨⟨⟨⟨⟨⟨⟨⟨⟨⟨⟨⟨hr, hal⟩, har⟩, hbl⟩, hbr⟩, hfl⟩, hfr⟩, hpl⟩, hpar⟩, hpp⟩, hwl⟩, hcl⟩, hcn⟩ := h
  refine ⟨dy_ne_zero _ _ hr, isMat_map_dy _ _ _ _ hal har, isMat_map_dy _ _ _ _ hbl hbr, ?_, ?_, ?_⟩
  · have hsh : ∀ R, c.p.length = R → SH.Shaped c.basis c.N R c.J c.ly.cols := by
      intro R hR
      refine ⟨by simp [GCert.basis, hfl], by simp [GCert.basis, hR], ?_, ?_, by simp [GCert.basis, hwl]⟩
      · intro pm hpm
        simp only [GCert.basis, List.mem_map] at hpm
        obtain ⟨t, ht, rfl⟩ := hpm
        simp [(hpp t ht).1]
      · intro pm hpm pj hpj
        simp only [GCert.basis, List.mem_map] at hpm
        obtain ⟨t, ht, rfl⟩ := hpm
        simp only [List.mem_map] at hpj
        obtain ⟨row, hrow, rfl⟩ := hpj
        simp [(hpp t ht).2 row hrow]
    unfold BasisFor
    cases hf : c.ly.fast
    · rw [hf] at hpl
      simp only [Bool.false_eq_true, if_false] at hpl ⊢
      exact hsh _ hpl
    · rw [hf] at hpl hpar
      simp only [if_true] at hpl ⊢
      rcases hpar with h0 | h0
      · exact absurd h0 (by simp)
      · exact ⟨h0, hsh _ hpl⟩
  · simp [GCert.coslQ, hcl]
  · intro x hx
    simp only [GCert.coslQ, List.mem_map] at hx
    obtain ⟨n, hn, rfl⟩ := hx
    exact dy_ne_zero _ _ (hcn n hn)

/-- `S` of a certified grid is linear (from the linearity of the model's own transforms) -/
theorem GoodCert.sandwich_linMap {c : GCert} (g : GoodCert c) :
    LinMap c.ly.rows c.ly.cols c.ly.rows c.ly.cols (sandwich c.T c.coslQ) :=
  sandwich_shTransforms c.ly c.basis c.N c.J c.coslQ g.hbasis g.hcl g.hcos

theorem unitQ_eq_unitM (R C i j : Nat) : GCert.unitQ R C i j = unitM (K := ℚ) R C i j := rfl

theorem absQ_eq_abs (x : ℚ) : GCert.absQ x = |x| := by
  unfold GCert.absQ
  split
  · rw [abs_of_neg ‹_›]
  · rw [abs_of_nonneg (not_lt.mp ‹_›)]

theorem abs_le_of_within (t v : ℚ) (h : GCert.within t v = true) : |v| ≤ t := by
  simp only [GCert.within, Bool.and_eq_true, decide_eq_true_eq] at h
  exact abs_le.mpr h

/-- the Boolean test on the unit fields, read over ℚ: residuals of Hyp-A and Hyp-B of every unit field of the domain
 are at most `δ·|(∇²E_{ij})_{ij}|` below the top wavenumber, in every entry -/
theorem units_of_hypOk (c : GCert) (cl : Bool) (δ : ℚ) (hδ : 0 ≤ δ) (g : GoodCert c) (h : c.hypOk cl δ = true)
    (i : Nat) (hi : i < c.ly.rows) (j : Nat) (hj : j < c.ly.cols)
    (hP : 0 < j ∧ j + topEmpty cl < c.ly.L ∧ c.ly.maskAt i j = true) (p q : Nat) (hq : q + 1 < c.ly.L) :
    |ent2 (divSGrad c.ly c.r c.aQ c.bQ c.T c.coslQ cl (unitM c.ly.rows c.ly.cols i j)) p q
        - ent2 (laplacian c.ly c.r (unitM c.ly.rows c.ly.cols i j)) p q|
        ≤ δ * |ent2 (laplacian c.ly c.r (unitM c.ly.rows c.ly.cols i j)) i j|
    ∧ |ent2 (curlSGrad c.ly c.r c.aQ c.bQ c.T c.coslQ cl (unitM c.ly.rows c.ly.cols i j)) p q|
        ≤ δ * |ent2 (laplacian c.ly c.r (unitM c.ly.rows c.ly.cols i j)) i j| := by
  have hS := g.sandwich_linMap
  have hE := isMat_unitM (K := ℚ) c.ly.rows c.ly.cols i j
  have hD := (linMap_divSGrad c.ly c.r c.aQ c.bQ g.ha g.hb c.T c.coslQ cl hS).shape _ hE
  have hC := (linMap_curlSGrad c.ly c.r c.aQ c.bQ g.ha g.hb c.T c.coslQ cl hS).shape _ hE
  have hL := isMat_laplacian c.ly c.r _ hE
  by_cases hp : p < c.ly.rows
  · -- extract the test of this unit field, this output entry
    have h1 : c.rowOk cl δ i = true := by
      unfold GCert.hypOk at h
      rw [List.all_eq_true] at h
      exact h i (List.mem_range.mpr hi)
    have h2 : c.unitOk cl δ i j = true := by
      unfold GCert.rowOk at h1
      rw [List.all_eq_true] at h1
      have := h1 j (List.mem_range.mpr hj)
      have hin : GCert.inDom c.ly (if cl = true then 2 else 1) i j = true := by
        have h3 : j + (if cl = true then 2 else 1) < c.ly.L := hP.2.1
        simp [GCert.inDom, hP.1, h3, hP.2.2]
      rw [hin] at this
      simpa using this
    have h3 : GCert.within (δ * GCert.absQ (ent2 (laplacian c.ly c.r (unitM c.ly.rows c.ly.cols i j)) i j))
          (ent2 (msub (divSGrad c.ly c.r c.aQ c.bQ c.T c.coslQ cl (unitM c.ly.rows c.ly.cols i j))
            (laplacian c.ly c.r (unitM c.ly.rows c.ly.cols i j))) p q) = true
        ∧ GCert.within (δ * GCert.absQ (ent2 (laplacian c.ly c.r (unitM c.ly.rows c.ly.cols i j)) i j))
          (ent2 (curlSGrad c.ly c.r c.aQ c.bQ c.T c.coslQ cl (unitM c.ly.rows c.ly.cols i j)) p q) = true := by
      unfold GCert.unitOk at h2
      simp only [List.all_eq_true, List.mem_range, Bool.and_eq_true] at h2
      exact h2 p hp q (by omega)
    rw [absQ_eq_abs] at h3
    have hA := abs_le_of_within _ _ h3.1
    have hB := abs_le_of_within _ _ h3.2
    rw [ent2_msub _ _ _ _ p q hD hL] at hA
    exact ⟨hA, hB⟩
  · have z1 := ent2_of_row_le (divSGrad c.ly c.r c.aQ c.bQ c.T c.coslQ cl (unitM c.ly.rows c.ly.cols i j)) p q
      (by rw [hD.1]; omega)
    have z2 := ent2_of_row_le (curlSGrad c.ly c.r c.aQ c.bQ c.T c.coslQ cl (unitM c.ly.rows c.ly.cols i j)) p q
      (by rw [hC.1]; omega)
    have z3 := ent2_of_row_le (laplacian c.ly c.r (unitM c.ly.rows c.ly.cols i j)) p q (by rw [hL.1]; omega)
    rw [z1, z2, z3, sub_zero, abs_zero]
    exact ⟨mul_nonneg hδ (abs_nonneg _), mul_nonneg hδ (abs_nonneg _)⟩

/-- **T2.6 on a certified live grid (all fields of `Dom`, ℚ).**  If the kernel has checked `shapeOk` and
 `hypOk cl δ` for the arrays of a live `Grid` (radius, recurrence weights, basis arrays, `cos_lat`, read as exact
 rationals), then for **every** pair `(ζ, δ)` of `Dom ly (topEmpty cl)` bounded entry-wise by `B` the model's
 `uv_nodal_to_vor_div_modal ∘ vor_div_to_uv_nodal`, evaluated exactly on those arrays, returns the pair up to
 `2·(rows·cols·δ)·B` in every coefficient below the top wavenumber: both hypotheses of `vor_div_roundtrip_eps`
 are kernel-checked (`hypA_eps_of_units`, `hypB_eps_of_units`), none is sampled. -/
theorem roundtrip_of_gcert (c : GCert) (cl : Bool) (δ : ℚ) (hδ : 0 ≤ δ) (hs : c.shapeOk = true)
    (hh : c.hypOk cl δ = true) (vor dv : List (List ℚ)) (hvor : Dom c.ly (topEmpty cl) vor)
    (hdv : Dom c.ly (topEmpty cl) dv) (B : ℚ) (hBv : ∀ i j, |ent2 vor i j| ≤ B) (hBd : ∀ i j, |ent2 dv i j| ≤ B)
    (i j : Nat) (hj : j + 1 < c.ly.L) :
    |ent2 (uvNodalToVorDivModalW c.ly c.r c.aQ c.bQ c.T c.coslQ
        (vorDivToUvNodalW c.ly c.r c.aQ c.bQ c.T c.coslQ vor dv cl).1
        (vorDivToUvNodalW c.ly c.r c.aQ c.bQ c.T c.coslQ vor dv cl).2 cl).1 i j - ent2 vor i j|
      ≤ 2 * (((c.ly.rows * c.ly.cols : ℕ) : ℚ) * δ) * B
    ∧ |ent2 (uvNodalToVorDivModalW c.ly c.r c.aQ c.bQ c.T c.coslQ
        (vorDivToUvNodalW c.ly c.r c.aQ c.bQ c.T c.coslQ vor dv cl).1
        (vorDivToUvNodalW c.ly c.r c.aQ c.bQ c.T c.coslQ vor dv cl).2 cl).2 i j - ent2 dv i j|
      ≤ 2 * (((c.ly.rows * c.ly.cols : ℕ) : ℚ) * δ) * B := by
  have g := goodCert_of_shapeOk c hs
  have hS := g.sandwich_linMap
  exact vor_div_roundtrip_eps c.ly c.r g.r_ne c.aQ c.bQ g.ha g.hb c.T c.coslQ g.hcos cl hS.shape hS.add hS.neg
    (((c.ly.rows * c.ly.cols : ℕ) : ℚ) * δ)
    (fun ψ hψ B hB p q hq => hypA_eps_of_units c.ly c.r c.aQ c.bQ g.ha g.hb c.T c.coslQ cl hS δ hδ
      (fun i hi j hj hP p q hq => (units_of_hypOk c cl δ hδ g hh i hi j hj hP p q hq).1) ψ hψ B hB p q hq)
    (fun ψ hψ B hB p q hq => hypB_eps_of_units c.ly c.r c.aQ c.bQ g.ha g.hb c.T c.coslQ cl hS δ hδ
      (fun i hi j hj hP p q hq => (units_of_hypOk c cl δ hδ g hh i hi j hj hP p q hq).2) ψ hψ B hB p q hq)
    vor dv hvor hdv B hBv hBd i j hj

end gcert

/-! ### the generated grids (`DinoGen/GridCert/*.lean`, regenerated from the live code on every run)

 For each grid `h` of the family the kernel-checked certificates `h_shape`, `h_hyp0`, `h_hyp1` are turned into the
 round-trip bound for **every** pair of fields of `Dom`, both clip settings: `ε = rows·cols·2⁻⁴⁰`, i.e. the round
 trip is within `2·ε·max(|ζ|,|δ|)` of the identity below the top wavenumber. -/
section generated_grids
open DinoGen.GridCert

/-- the statement proved for each certified grid: on all of `Dom` the wind round trip of the model, evaluated
 exactly (ℚ) on the live arrays of the certificate, is within `2·ε·B` of the identity below the top wavenumber -/
def GridRoundtrip (c : GCert) (cl : Bool) (ε : ℚ) : Prop :=
  ∀ (vor dv : List (List ℚ)), Dom c.ly (topEmpty cl) vor → Dom c.ly (topEmpty cl) dv →
    ∀ B : ℚ, (∀ i j, |ent2 vor i j| ≤ B) → (∀ i j, |ent2 dv i j| ≤ B) → ∀ i j, j + 1 < c.ly.L →
    |ent2 (uvNodalToVorDivModalW c.ly c.r c.aQ c.bQ c.T c.coslQ
        (vorDivToUvNodalW c.ly c.r c.aQ c.bQ c.T c.coslQ vor dv cl).1
        (vorDivToUvNodalW c.ly c.r c.aQ c.bQ c.T c.coslQ vor dv cl).2 cl).1 i j - ent2 vor i j| ≤ 2 * ε * B
    ∧ |ent2 (uvNodalToVorDivModalW c.ly c.r c.aQ c.bQ c.T c.coslQ
        (vorDivToUvNodalW c.ly c.r c.aQ c.bQ c.T c.coslQ vor dv cl).1
        (vorDivToUvNodalW c.ly c.r c.aQ c.bQ c.T c.coslQ vor dv cl).2 cl).2 i j - ent2 dv i j| ≤ 2 * ε * B

theorem gridRoundtrip_of_gcert (c : GCert) (cl : Bool) (δ : ℚ) (hδ : 0 ≤ δ) (hs : c.shapeOk = true)
    (hh : c.hypOk cl δ = true) : GridRoundtrip c cl (((c.ly.rows * c.ly.cols : ℕ) : ℚ) * δ) :=
  fun vor dv hvor hdv B hBv hBd i j hj => roundtrip_of_gcert c cl δ hδ hs hh vor dv hvor hdv B hBv hBd i j hj

/-- `h1`: `RealSphericalHarmonics`, `M = 3`, `L = 4`, `8 × 4` Gauss nodes, radius 1 (modal `5 × 4`) -/
theorem roundtrip_h1 (cl : Bool) : GridRoundtrip h1 cl (20 * (1 / 2 ^ 40)) := by
  have h := gridRoundtrip_of_gcert h1 cl (1 / 2 ^ 40) (by norm_num) h1_shape (by cases cl; exact h1_hyp0; exact h1_hyp1)
  exact h

/-- `h2`: `RealSphericalHarmonics`, `M = 2`, `L = 4`, `5 × 4` Gauss nodes, radius 6.37, longitude offset 0.3 (modal `3 × 4`) -/
theorem roundtrip_h2 (cl : Bool) : GridRoundtrip h2 cl (12 * (1 / 2 ^ 40)) := by
  have h := gridRoundtrip_of_gcert h2 cl (1 / 2 ^ 40) (by norm_num) h2_shape (by cases cl; exact h2_hyp0; exact h2_hyp1)
  exact h

/-- `h3`: `FastSphericalHarmonics` with `base_shape_multiple = 4`, `M = 2`, `L = 3`, `8 × 4` Gauss nodes, radius 0.54 (modal `8 × 4`: four padding rows, one padding column; `Dom ly 2` is `{0}` here) -/
theorem roundtrip_h3 (cl : Bool) : GridRoundtrip h3 cl (32 * (1 / 2 ^ 40)) := by
  have h := gridRoundtrip_of_gcert h3 cl (1 / 2 ^ 40) (by norm_num) h3_shape (by cases cl; exact h3_hyp0; exact h3_hyp1)
  exact h

/-- `h4`: `RealSphericalHarmonics`, `M = 2`, `L = 3`, `5 × 6` equiangular nodes, radius 2 (modal `3 × 3`; `Dom ly 2` is `{0}` here) -/
theorem roundtrip_h4 (cl : Bool) : GridRoundtrip h4 cl (9 * (1 / 2 ^ 40)) := by
  have h := gridRoundtrip_of_gcert h4 cl (1 / 2 ^ 40) (by norm_num) h4_shape (by cases cl; exact h4_hyp0; exact h4_hyp1)
  exact h

/-- `h5`: `FastSphericalHarmonics`, `M = 2`, `L = 4`, `6 × 4` Gauss nodes, radius 1, longitude offset 0.7 (modal `4 × 4`, row 1 = `m = −0` masked) -/
theorem roundtrip_h5 (cl : Bool) : GridRoundtrip h5 cl (16 * (1 / 2 ^ 40)) := by
  have h := gridRoundtrip_of_gcert h5 cl (1 / 2 ^ 40) (by norm_num) h5_shape (by cases cl; exact h5_hyp0; exact h5_hyp1)
  exact h

/-- non-vacuity: the number of unit fields of `Dom` that each `hypOk` certificate covers (clip = False, clip = True) -/
example : (h1.domCount false, h1.domCount true) = (8, 3) := by decide +kernel
example : (h2.domCount false, h2.domCount true) = (6, 3) := by decide +kernel
example : (h3.domCount false, h3.domCount true) = (3, 0) := by decide +kernel
example : (h4.domCount false, h4.domCount true) = (3, 0) := by decide +kernel
example : (h5.domCount false, h5.domCount true) = (6, 3) := by decide +kernel

/-- a field of `Dom h1.ly 1` with non-zero entries in every modal row (`m = ±2` included) … -/
def vorH : List (List ℚ) := [[0, 1, 2, 0], [0, 1, -1, 0], [0, 2, 1, 0], [0, 0, 3, 0], [0, 0, 1, 0]]
theorem dom_vorH : Dom h1.ly 1 vorH := (domB_iff h1.ly 1 vorH).mp (by decide +kernel)
theorem bound_vorH : ∀ i j, |ent2 vorH i j| ≤ 3 := by
  have h : ∀ i < 5, ∀ j < 4, |ent2 vorH i j| ≤ 3 := by decide +kernel
  intro i j
  by_cases hi : i < 5
  · by_cases hj : j < 4
    · exact h i hi j hj
    · rw [ent2_of_col_le vorH 5 4 i j ⟨rfl, by decide +kernel⟩ (by omega)]; norm_num
  · rw [ent2_of_row_le vorH i j (by show 5 ≤ i; omega)]; norm_num

/-- … and `roundtrip_h1` on it: the exact rational round trip on the live arrays of grid `h1` returns the pair
 `(vorH, vorH)` up to `2·20·2⁻⁴⁰·3 < 1.1·10⁻¹⁰` in the entry `(m, l) = (+2, 2)` -/
example : |ent2 (uvNodalToVorDivModalW h1.ly h1.r h1.aQ h1.bQ h1.T h1.coslQ
      (vorDivToUvNodalW h1.ly h1.r h1.aQ h1.bQ h1.T h1.coslQ vorH vorH false).1
      (vorDivToUvNodalW h1.ly h1.r h1.aQ h1.bQ h1.T h1.coslQ vorH vorH false).2 false).1 3 2 - 3|
    ≤ 2 * (20 * (1 / 2 ^ 40)) * 3 :=
  (roundtrip_h1 false vorH vorH dom_vorH dom_vorH 3 bound_vorH bound_vorH 3 2 (by decide)).1

end generated_grids

end Dino.C02
