import DinoProofs.Lemmas.Dynamics
import DinoProofs.Lemmas.DynamicsMasked
import DinoProofs.Lemmas.DynamicsMaskedNat
import DinoProofs.Lemmas.DynamicsMoist
import DinoProofs.Lemmas.DynamicsToy
import Mathlib.Tactic.NormNum
import Mathlib.Data.Rat.Defs

/-!
# C04 — the full tendency does not depend on the reference-temperature split

Model: `Dino/Dynamics.lean` (abstract horizontal operations `HOps`, the four equation classes of
`dinosaur/primitive_equations.py`), `Dino/Implicit.lean` (`hMatrix` = `get_temperature_implicit_weights`),
`Dino/Sigma.lean`.  Laws of the horizontal operations are hypotheses (`Dino.Dynamics.Laws`,
`MoistLaws`), validated on the real grids by `harness/props/C04.py`.
-/
namespace Dino.C04
open Dino Dino.Sigma Dino.Dynamics

/-! ## T4.1 — the two halves of the split are the same discretisation -/
section T41
variable {K V : Type} [Field K] [AddCommGroup V] [Module K V]

/-- **T4.1** For every level set, reference profile `T` and `κ`: the implicit temperature weights
 `H = get_temperature_implicit_weights` applied to a divergence column `D` (with values in any
 `K`-module: spectral coefficients, nodal fields, scalars) equal the explicit formulas evaluated on
 the reference profile with `G = D`: `κ·T·(g-part of ω/p)` minus the centred advection of `T` by the
 `D`-part of `σ̇`.  Only `2 ≠ 0` is needed (no positivity of the thicknesses: both sides use the
 same totalised divisions). -/
theorem implicit_weights_eq_explicit_on_reference (v : Vert K) (T : List K) (κ : K) (D : List V)
    (n : ℕ) (hb : v.boundaries.length = n + 1) (hlc : v.logCenters.length = n) (hT : T.length = n)
    (hD : D.length = n) (h2 : (1 + 1 : K) ≠ 0) :
    Col.matvec (Implicit.hMatrix v.ds T v.alpha κ) D
      = Col.sub (Col.smul κ (Col.wmul T (gPart v.ds v.alpha D)))
          (advScalar v.ctc (sigmaDotOf v.ds (Col.cumSigmaIntegral v.ds D)) T) :=
  hMatrix_matvec_vert v T κ D n hb hlc hT hD h2

/-- `H` is additive in the reference profile (so is the implicit temperature tendency) -/
theorem implicit_weights_additive_in_reference (ds T dT al : List K) (κ : K) (D : List V) (n : ℕ)
    (hds : ds.length = n) (hD : D.length = n) (h : T.length = dT.length) :
    Col.matvec (Implicit.hMatrix ds (Col.sub T dT) al κ) D
      = Col.sub (Col.matvec (Implicit.hMatrix ds T al κ) D) (Col.matvec (Implicit.hMatrix ds dT al κ) D) :=
  hMatrix_sub ds T dT al κ D n hds hD h

end T41

section T41nodal
variable {K M N : Type} [Field K] [AddCommGroup M] [Module K M] [CommRing N] [Algebra K N]

/-- **T4.1 in terms of the model's own explicit routines**: `H·D` equals minus
 `κ·_t_omega_over_sigma_sp(T_ref, G = D, v·∇ln p = 0)` minus `_vertical_tendency(σ̇(D), T_ref)`,
 for a column `D` of nodal fields. -/
theorem implicit_weights_eq_minus_explicit_routines (eq : PrimitiveEquations K M N) (D : List N) (n : ℕ)
    (hn : 0 < n) (hb : eq.vert.boundaries.length = n + 1) (hlc : eq.vert.logCenters.length = n)
    (hT : eq.referenceTemperature.length = n) (hD : D.length = n) (h2 : (1 + 1 : K) ≠ 0) :
    Col.matvec eq.temperatureImplicitWeights D
      = Col.neg (Col.add
          (Col.smul eq.phys.kappa (eq.tOmegaOverSigmaSp eq.tRef D (Col.zerosLike D)))
          (eq.verticalTendency (sigmaDotOf eq.vert.ds (Col.cumSigmaIntegral eq.vert.ds D)) eq.tRef)) := by
  have hds := vert_ds_length eq.vert n hb
  have hal := vert_alpha_length eq.vert n hlc
  have hctc := vert_ctc_length eq.vert n hb
  have hsd := sigmaDotOf_length eq.vert.ds (Col.cumSigmaIntegral eq.vert.ds D) n hds (by simp [hds, hD])
  have hgp := gPart_length eq.vert.ds eq.vert.alpha D n hds hal hD
  have hadv := centeredAdvection_length eq.vert.ctc
    (sigmaDotOf eq.vert.ds (Col.cumSigmaIntegral eq.vert.ds D)) eq.tRef n hn hctc hsd
    (by simp [PrimitiveEquations.tRef, hT])
  have hadv' : (Col.centeredAdvection eq.vert.ctc
    (sigmaDotOf eq.vert.ds (Col.cumSigmaIntegral eq.vert.ds D))
    (List.map (constN : K → N) eq.referenceTemperature)).length = n := hadv
  rw [PrimitiveEquations.temperatureImplicitWeights,
    hMatrix_matvec_vert eq.vert eq.referenceTemperature eq.phys.kappa D n hb hlc hT hD h2, tOmega_eq]
  apply ext_lv (n := n)
  · simp [Col.sub, Col.smul, hgp, hT, advScalar_length _ _ _ n hn hctc hsd hT]
  · simp [Col.neg, Col.add, Col.smul, Col.mul, Col.sub, Col.zerosLike, PrimitiveEquations.tRef,
      PrimitiveEquations.verticalTendency, hT, hD, hgp, hadv']
  intro i hi
  have hz : lv (Col.zerosLike D : List N) i = 0 := by
    unfold Col.zerosLike; exact lv_map_zero (fun _ => (0 : N)) rfl D i
  rw [lv_sub _ _ (by simp [Col.smul, hgp, hT, advScalar_length _ _ _ n hn hctc hsd hT]), lv_smul, lv_wmul,
    lv_neg, lv_add _ _ (by simp [Col.smul, Col.mul, Col.sub, Col.zerosLike, PrimitiveEquations.tRef,
      PrimitiveEquations.verticalTendency, hT, hD, hgp, hadv']),
    lv_smul, lv_mul, lv_sub _ _ (by simp [Col.zerosLike, hD, hgp]), PrimitiveEquations.verticalTendency,
    PrimitiveEquations.tRef, lv_adv_const _ _ _ n hctc hsd hT i hi, lv_map_zero _ constN_zero, hz, constN_mul]
  module

end T41nodal

/-! ## T4.2 — dry and time-carrying classes -/
section T42
variable {K M N : Type} [Field K] [DecidableEq K] [AddCommGroup M] [Module K M] [CommRing N] [Algebra K N]

/-- **T4.2 (dry class)** Two reference profiles `T_ref` (in `eq`) and `T₂`, two states describing
 the same physical atmosphere (`T_ref + T′` equal level by level, everything else identical):
 `explicit_terms + implicit_terms` is the same `State`.  Hypotheses: the named laws of the
 horizontal operators, an admissible state (top wavenumber clipped, zero-mean divergence),
 `include_vertical_advection = True` (otherwise `T′` is advected by the semi-Lagrangian step and the
 statement is not claimed), `2 ≠ 0`. -/
theorem total_tendency_indep_of_reference (eq : PrimitiveEquations K M N) (T₂ : List K)
    (s₁ : State M) (t₂ : List M) (n : ℕ) (L : Laws eq.ops) (A : Admissible eq.ops s₁)
    (S : Shaped eq s₁ n) (hT₂ : T₂.length = n) (ht₂ : t₂.length = n)
    (hinc : eq.includeVerticalAdvection = true) (h2 : (1 + 1 : K) ≠ 0)
    (habs : ∀ i, i < n →
      lv t₂ i + lv T₂ i • eq.ops.oneModal
        = lv s₁.temperatureVariation i + lv eq.referenceTemperature i • eq.ops.oneModal) :
    total (withTRef eq T₂) (s₁.withT t₂) = total eq s₁ := by
  obtain ⟨dT, hdT⟩ : ∃ dT, dT = Col.sub eq.referenceTemperature T₂ := ⟨_, rfl⟩
  have hdl : dT.length = n := by rw [hdT]; simp [Col.sub, S.tr, hT₂]
  have hlv : ∀ i, lv dT i = lv eq.referenceTemperature i - lv T₂ i := by
    intro i; rw [hdT, lv_sub _ _ (by rw [S.tr, hT₂])]
  have h1 : T₂ = Col.sub eq.referenceTemperature dT := by
    apply ext_lv (n := n) hT₂ (by simp [Col.sub, S.tr, hdl])
    intro i _
    rw [lv_sub _ _ (by rw [S.tr, hdl]), hlv]
    ring
  have h3 : t₂ = shiftM eq.ops s₁.temperatureVariation dT := by
    apply ext_lv (n := n) ht₂ (by simp [shiftM, S.t, hdl])
    intro i hi
    rw [shiftM, lv_zipWith _ _ _ (by rw [S.t]; exact hi) (by rw [hdl]; exact hi), hlv, sub_smul,
      ← add_sub_assoc, ← habs i hi]
    module
  rw [h1, h3]
  exact total_shift eq s₁ dT n L A S hdl hinc h2

/-- `explicit + implicit` of `PrimitiveEquationsWithTime` (`sim_time` tendencies 1 and 0) -/
def totalWithTime (eq : PrimitiveEquations K M N) (s : StateWithTime K M) : StateWithTime K M :=
  { state := State.add (PrimitiveEquationsWithTime.explicitTerms eq s).state
      (PrimitiveEquationsWithTime.implicitTerms eq s).state
    simTime := (PrimitiveEquationsWithTime.explicitTerms eq s).simTime
      + (PrimitiveEquationsWithTime.implicitTerms eq s).simTime }

/-- **T4.2 (time-carrying class)** -/
theorem total_tendency_with_time_indep_of_reference (eq : PrimitiveEquations K M N) (T₂ : List K)
    (s₁ : StateWithTime K M) (t₂ : List M) (n : ℕ) (L : Laws eq.ops) (A : Admissible eq.ops s₁.state)
    (S : Shaped eq s₁.state n) (hT₂ : T₂.length = n) (ht₂ : t₂.length = n)
    (hinc : eq.includeVerticalAdvection = true) (h2 : (1 + 1 : K) ≠ 0)
    (habs : ∀ i, i < n →
      lv t₂ i + lv T₂ i • eq.ops.oneModal
        = lv s₁.state.temperatureVariation i + lv eq.referenceTemperature i • eq.ops.oneModal) :
    totalWithTime (withTRef eq T₂) { state := s₁.state.withT t₂, simTime := s₁.simTime }
      = totalWithTime eq s₁ := by
  have := total_tendency_indep_of_reference eq T₂ s₁.state t₂ n L A S hT₂ ht₂ hinc h2 habs
  unfold total at this
  simp only [totalWithTime, PrimitiveEquationsWithTime.explicitTerms,
    PrimitiveEquationsWithTime.implicitTerms, this]

end T42

/-! ## T4.3 — the moist class; T4.4 — the cloud class -/
section T43
variable {K M N : Type} [Field K] [DecidableEq K] [AddCommGroup M] [Module K M] [CommRing N] [Algebra K N]
  [Div N]

/-- `explicit + implicit` of `MoistPrimitiveEquations` (`none` = the `ValueError` of a missing
 tracer; `sim_time` tendencies 1 and 0) -/
def totalMoist (eq : PrimitiveEquations K M N) (s : StateWithTime K M) : Option (StateWithTime K M) :=
  (MoistPrimitiveEquations.explicitTerms eq s).map fun e =>
    { state := State.add e.state (MoistPrimitiveEquations.implicitTerms eq s).state
      simTime := e.simTime + (MoistPrimitiveEquations.implicitTerms eq s).simTime }

/-- `explicit + implicit` of `MoistPrimitiveEquationsWithCloudMoisture` -/
def totalCloud (eq : PrimitiveEquations K M N) (s : StateWithTime K M) : Option (StateWithTime K M) :=
  (MoistPrimitiveEquationsWithCloudMoisture.explicitTerms eq s).map fun e =>
    { state := State.add e.state (MoistPrimitiveEquationsWithCloudMoisture.implicitTerms eq s).state
      simTime := e.simTime + (MoistPrimitiveEquationsWithCloudMoisture.implicitTerms eq s).simTime }

/-- **T4.3 (moist class)** Two reference profiles, two states of the same absolute temperature that
 carry specific humidity `q` (spectral column `qm`): `explicit_terms + implicit_terms` of
 `MoistPrimitiveEquations` evaluates (no missing-tracer error) to the same `StateWithTime`.
 Hypotheses beyond T4.2: `MoistLaws` (`product_rule_resolved`, `curl_product_rule_resolved`:
 flux form = product-rule form through the nodal products — validated on quadratic and cubic grids,
 **false on linear grids**), `q` clipped like the rest of the state, `R ≠ 0`, and division by
 `1 + (c_pv/c_p − 1) q` being a true inverse at every level (`1 + ε_cp q ≠ 0` pointwise), which
 gives `(1+ε_R q)/(1+ε_cp q) − (ε_R−ε_cp) q/(1+ε_cp q) = 1`. -/
theorem total_tendency_moist_indep_of_reference (eq : PrimitiveEquations K M N) (T₂ : List K)
    (s₁ : StateWithTime K M) (t₂ qm : List M) (n : ℕ) (L : Laws eq.ops) (ML : MoistLaws eq.ops)
    (A : Admissible eq.ops s₁.state) (S : Shaped eq s₁.state n) (hT₂ : T₂.length = n) (ht₂ : t₂.length = n)
    (hinc : eq.includeVerticalAdvection = true) (h2 : (1 + 1 : K) ≠ 0) (hR : eq.phys.R ≠ 0)
    (hq : lookup specificHumidityKey s₁.state.tracers = some qm) (hqn : qm.length = n)
    (hqc : ∀ x ∈ qm, eq.ops.clip x = x)
    (hdiv : ∀ i, i < n → ∀ x : N,
      ((1 : N) + (eq.phys.CpVapor / (eq.phys.R / eq.phys.kappa) - 1) • eq.ops.toNodal (lv qm i))
        * (x / ((1 : N) + (eq.phys.CpVapor / (eq.phys.R / eq.phys.kappa) - 1) • eq.ops.toNodal (lv qm i))) = x)
    (habs : ∀ i, i < n →
      lv t₂ i + lv T₂ i • eq.ops.oneModal
        = lv s₁.state.temperatureVariation i + lv eq.referenceTemperature i • eq.ops.oneModal) :
    ∃ r, totalMoist eq s₁ = some r
      ∧ totalMoist (withTRef eq T₂) { state := s₁.state.withT t₂, simTime := s₁.simTime } = some r := by
  obtain ⟨h1, h3⟩ := shift_of_abs eq T₂ s₁.state.temperatureVariation t₂ n S.tr S.t hT₂ ht₂ habs
  have hd : (Col.sub eq.referenceTemperature T₂).length = n := by simp [Col.sub, S.tr, hT₂]
  have hFl : ((Col.smul (eq.phys.Rvapor / eq.phys.R - 1) (qm.map eq.ops.toNodal)).map
      fun m => (1 : N) + m).length = n := by simp [Col.smul, hqn]
  obtain ⟨e1, e2⟩ := totalMoistWith_shift eq s₁ (Col.sub eq.referenceTemperature T₂) n L ML A S hd hinc h2 hR
    qm hq hqn hqc
    ((Col.smul (eq.phys.Rvapor / eq.phys.R - 1) (qm.map eq.ops.toNodal)).map fun m => (1 : N) + m)
    (Col.zerosLike qm) hFl (by simp [Col.zerosLike, hqn])
    (fun i hi => by
      rw [lv_map _ _ (by simp [Col.smul, hqn]; exact hi), lv_smul, lv_map _ _ (by rw [hqn]; exact hi),
        lv_zerosLike, sub_zero])
    hdiv (MoistPrimitiveEquations.virtualTemperature eq)
    (MoistPrimitiveEquations.virtualTemperature
      (withTRef eq (Col.sub eq.referenceTemperature (Col.sub eq.referenceTemperature T₂))))
    (fun aux _ => virtualTemperature_eq eq aux _) (fun aux _ => virtualTemperature_eq _ aux _)
  rw [← h1, ← h3] at e2
  have hlen := moistTotalOf_lengths eq s₁.state n S _ qm
    (rTvOf_length eq.phys.R _ _ n (diag_shaped eq s₁.state n S).t hFl) hqn
  have hres := lv_condResidual_zero L eq.phys.R s₁.state.logSurfacePressure
    (Col.sub eq.referenceTemperature T₂) (Col.zerosLike qm : List N) (fun i => lv_zerosLike qm i)
  rw [State.addMomentum_zero _ _
    (by rw [hlen.1]; simp [condResidual, Col.zerosLike, hd, hqn])
    (by rw [hlen.2]; simp [condResidual, Col.zerosLike, hd, hqn])
    (fun i => (hres i).1) (fun i => (hres i).2)] at e2
  exact ⟨_, e1, e2⟩

/-- **T4.4 (cloud class), `cloud_split_residual`**: for `MoistPrimitiveEquationsWithCloudMoisture`
 the two totals are *not* equal: with `c = q_l + q_i` (nodal) and `dT = T_ref − T₂`,
 `total(T₂) = total(T_ref) + R·dT·clip((curl | div)_cos_lat(c · sec²θ · cosθ∇ln p_s))` in the vorticity
 resp. divergence tendency, level by level; temperature, surface pressure, tracers and `sim_time`
 tendencies agree.  (`_virtual_temperature` applies the loading `−(q_l+q_i)` to `T'` only, so the
 share `−R·T_ref·(q_l+q_i)∇ln p_s` of the pressure-gradient force is in neither half.)  No
 assumption on `q_l`, `q_i` beyond their shapes. -/
theorem cloud_split_residual (eq : PrimitiveEquations K M N) (T₂ : List K)
    (s₁ : StateWithTime K M) (t₂ qm qlm qim : List M) (n : ℕ) (L : Laws eq.ops) (ML : MoistLaws eq.ops)
    (A : Admissible eq.ops s₁.state) (S : Shaped eq s₁.state n) (hT₂ : T₂.length = n) (ht₂ : t₂.length = n)
    (hinc : eq.includeVerticalAdvection = true) (h2 : (1 + 1 : K) ≠ 0) (hR : eq.phys.R ≠ 0)
    (hq : lookup specificHumidityKey s₁.state.tracers = some qm) (hqn : qm.length = n)
    (hqc : ∀ x ∈ qm, eq.ops.clip x = x)
    (hql : lookup cloudWaterKey s₁.state.tracers = some qlm) (hqln : qlm.length = n)
    (hqi : lookup cloudIceKey s₁.state.tracers = some qim) (hqin : qim.length = n)
    (hdiv : ∀ i, i < n → ∀ x : N,
      ((1 : N) + (eq.phys.CpVapor / (eq.phys.R / eq.phys.kappa) - 1) • eq.ops.toNodal (lv qm i))
        * (x / ((1 : N) + (eq.phys.CpVapor / (eq.phys.R / eq.phys.kappa) - 1) • eq.ops.toNodal (lv qm i))) = x)
    (habs : ∀ i, i < n →
      lv t₂ i + lv T₂ i • eq.ops.oneModal
        = lv s₁.state.temperatureVariation i + lv eq.referenceTemperature i • eq.ops.oneModal) :
    ∃ r₁ : StateWithTime K M, totalCloud eq s₁ = some r₁
      ∧ r₁.state.vorticity.length = n ∧ r₁.state.divergence.length = n
      ∧ totalCloud (withTRef eq T₂) { state := s₁.state.withT t₂, simTime := s₁.simTime }
        = some { state := r₁.state.addMomentum
                    (condResidual eq.ops eq.phys.R s₁.state.logSurfacePressure
                      (Col.sub eq.referenceTemperature T₂)
                      (Col.add (qlm.map eq.ops.toNodal) (qim.map eq.ops.toNodal)))
                 simTime := r₁.simTime } := by
  obtain ⟨h1, h3⟩ := shift_of_abs eq T₂ s₁.state.temperatureVariation t₂ n S.tr S.t hT₂ ht₂ habs
  have hd : (Col.sub eq.referenceTemperature T₂).length = n := by simp [Col.sub, S.tr, hT₂]
  have hFl : (Col.sub (Col.sub ((Col.smul (eq.phys.Rvapor / eq.phys.R - 1) (qm.map eq.ops.toNodal)).map
      fun m => (1 : N) + m) (qlm.map eq.ops.toNodal)) (qim.map eq.ops.toNodal)).length = n := by
    simp [Col.sub, Col.smul, hqn, hqln, hqin]
  have hl : lookup cloudWaterKey (computeDiagnosticState eq.ops eq.vert s₁.state).tracers
      = some (qlm.map eq.ops.toNodal) := by
    show lookup cloudWaterKey (mapTracers _ s₁.state.tracers) = _
    rw [lookup_mapTracers, hql]; rfl
  have hi' : lookup cloudIceKey (computeDiagnosticState eq.ops eq.vert s₁.state).tracers
      = some (qim.map eq.ops.toNodal) := by
    show lookup cloudIceKey (mapTracers _ s₁.state.tracers) = _
    rw [lookup_mapTracers, hqi]; rfl
  obtain ⟨e1, e2⟩ := totalMoistWith_shift eq s₁ (Col.sub eq.referenceTemperature T₂) n L ML A S hd hinc h2 hR
    qm hq hqn hqc _ (Col.add (qlm.map eq.ops.toNodal) (qim.map eq.ops.toNodal)) hFl
    (by simp [Col.add, hqln, hqin])
    (fun i hi => by
      rw [lv_sub _ _ (by simp [Col.sub, Col.smul, hqn, hqln, hqin]), lv_sub _ _ (by simp [Col.smul, hqn, hqln]),
        lv_map _ _ (by simp [Col.smul, hqn]; exact hi), lv_smul, lv_map _ _ (by rw [hqn]; exact hi),
        lv_add _ _ (by simp [hqln, hqin])]
      ring)
    hdiv (MoistPrimitiveEquations.virtualTemperatureWithClouds eq)
    (MoistPrimitiveEquations.virtualTemperatureWithClouds
      (withTRef eq (Col.sub eq.referenceTemperature (Col.sub eq.referenceTemperature T₂))))
    (fun aux ha => virtualTemperatureWithClouds_eq eq aux _ _ _ (by rw [ha]; exact hl) (by rw [ha]; exact hi'))
    (fun aux ha => virtualTemperatureWithClouds_eq _ aux _ _ _ (by rw [ha]; exact hl) (by rw [ha]; exact hi'))
  rw [← h1, ← h3] at e2
  have hlen := moistTotalOf_lengths eq s₁.state n S _ qm
    (rTvOf_length eq.phys.R _ _ n (diag_shaped eq s₁.state n S).t hFl) hqn
  exact ⟨_, e1, hlen.1, hlen.2, e2⟩

/-- **T4.4, `cloud_indep_of_reference_partial`**: the full statement
 "`totalCloud` does not depend on the reference profile" is **false** on the current code (see
 `cloud_split_residual` and the witness `cloud_depends_on_reference` below); it holds when there is no
 condensate, `q_l = q_i = 0`. -/
theorem cloud_indep_of_reference_partial (eq : PrimitiveEquations K M N) (T₂ : List K)
    (s₁ : StateWithTime K M) (t₂ qm qlm qim : List M) (n : ℕ) (L : Laws eq.ops) (ML : MoistLaws eq.ops)
    (A : Admissible eq.ops s₁.state) (S : Shaped eq s₁.state n) (hT₂ : T₂.length = n) (ht₂ : t₂.length = n)
    (hinc : eq.includeVerticalAdvection = true) (h2 : (1 + 1 : K) ≠ 0) (hR : eq.phys.R ≠ 0)
    (hq : lookup specificHumidityKey s₁.state.tracers = some qm) (hqn : qm.length = n)
    (hqc : ∀ x ∈ qm, eq.ops.clip x = x)
    (hql : lookup cloudWaterKey s₁.state.tracers = some qlm) (hqln : qlm.length = n)
    (hqi : lookup cloudIceKey s₁.state.tracers = some qim) (hqin : qim.length = n)
    (hql0 : ∀ x ∈ qlm, x = 0) (hqi0 : ∀ x ∈ qim, x = 0)
    (hdiv : ∀ i, i < n → ∀ x : N,
      ((1 : N) + (eq.phys.CpVapor / (eq.phys.R / eq.phys.kappa) - 1) • eq.ops.toNodal (lv qm i))
        * (x / ((1 : N) + (eq.phys.CpVapor / (eq.phys.R / eq.phys.kappa) - 1) • eq.ops.toNodal (lv qm i))) = x)
    (habs : ∀ i, i < n →
      lv t₂ i + lv T₂ i • eq.ops.oneModal
        = lv s₁.state.temperatureVariation i + lv eq.referenceTemperature i • eq.ops.oneModal) :
    ∃ r, totalCloud eq s₁ = some r
      ∧ totalCloud (withTRef eq T₂) { state := s₁.state.withT t₂, simTime := s₁.simTime } = some r := by
  obtain ⟨r₁, e1, hv, hdl, e2⟩ := cloud_split_residual eq T₂ s₁ t₂ qm qlm qim n L ML A S hT₂ ht₂ hinc h2 hR
    hq hqn hqc hql hqln hqi hqin hdiv habs
  have hd : (Col.sub eq.referenceTemperature T₂).length = n := by simp [Col.sub, S.tr, hT₂]
  have hz : ∀ (x : List M), (∀ y ∈ x, y = 0) → ∀ i, lv (x.map eq.ops.toNodal) i = 0 := by
    intro x hx i
    rw [lv_map_zero _ L.toNodal_lin.map_zero]
    by_cases h : i < x.length
    · rw [hx _ (lv_mem x i h), L.toNodal_lin.map_zero]
    · rw [lv_of_ge (by omega), L.toNodal_lin.map_zero]
  have hc0 : ∀ i, lv (Col.add (qlm.map eq.ops.toNodal) (qim.map eq.ops.toNodal)) i = 0 := by
    intro i
    rw [lv_add _ _ (by simp [hqln, hqin]), hz qlm hql0, hz qim hqi0, add_zero]
  have hres := lv_condResidual_zero L eq.phys.R s₁.state.logSurfacePressure
    (Col.sub eq.referenceTemperature T₂) _ hc0
  rw [State.addMomentum_zero _ _
    (by rw [hv]; simp [condResidual, Col.add, hd, hqln, hqin])
    (by rw [hdl]; simp [condResidual, Col.add, hd, hqln, hqin])
    (fun i => (hres i).1) (fun i => (hres i).2)] at e2
  exact ⟨r₁, e1, e2⟩

end T43

/-! ## the carrier is the MASKED coefficient space

T4.2 – T4.4 are generic in the modal carrier `M`.  On the real `Grid` the laws `roundtrip`, `curl_grad`,
`div_grad`, `div_uv` hold for masked coefficient arrays only (junk outside the triangular truncation survives
`clip_wavenumbers` but not `to_modal ∘ to_nodal`), so the theorems are applied with `M := ↥Mk`, the submodule of
masked arrays: every modal operation maps `Mk` to itself (`MaskClosed`), the laws are required on `Mk` only
(`LawsOn`, `MoistLawsOn`), and the states have masked leaves (they are `State ↥Mk`).  `harness/props/C04.py`
validates `MaskClosed` (exact zeros outside the mask), `LawsOn` (masked inputs) and the negative control (an
unmasked input violates `roundtrip`) on every grid it uses. -/
section Masked
variable {K M N : Type} [Field K] [DecidableEq K] [AddCommGroup M] [Module K M] [CommRing N] [Algebra K N]

/-- **T4.2 on the masked coefficient space**: laws restricted to the masked arrays `Mk` suffice -/
theorem total_tendency_indep_of_reference_masked (eq : PrimitiveEquations K M N) (Mk : Submodule K M)
    (C : MaskClosed eq.ops Mk) (ho : eq.orography ∈ Mk) (L : LawsOn eq.ops Mk) (T₂ : List K)
    (s₁ : State Mk) (t₂ : List Mk) (n : ℕ) (A : Admissible (eq.ops.restrict Mk C) s₁)
    (S : Shaped (eq.restrict Mk C ho) s₁ n) (hT₂ : T₂.length = n) (ht₂ : t₂.length = n)
    (hinc : eq.includeVerticalAdvection = true) (h2 : (1 + 1 : K) ≠ 0)
    (habs : ∀ i, i < n →
      lv t₂ i + lv T₂ i • (eq.ops.restrict Mk C).oneModal
        = lv s₁.temperatureVariation i + lv eq.referenceTemperature i • (eq.ops.restrict Mk C).oneModal) :
    total (withTRef (eq.restrict Mk C ho) T₂) (s₁.withT t₂) = total (eq.restrict Mk C ho) s₁ :=
  total_tendency_indep_of_reference (eq.restrict Mk C ho) T₂ s₁ t₂ n (laws_restrict C L) A S hT₂ ht₂ hinc h2 habs

/-- **T4.3 on the masked coefficient space** -/
theorem total_tendency_moist_indep_of_reference_masked [Div N] (eq : PrimitiveEquations K M N)
    (Mk : Submodule K M) (C : MaskClosed eq.ops Mk) (ho : eq.orography ∈ Mk) (L : LawsOn eq.ops Mk)
    (ML : MoistLawsOn eq.ops Mk) (T₂ : List K) (s₁ : StateWithTime K Mk) (t₂ qm : List Mk) (n : ℕ)
    (A : Admissible (eq.ops.restrict Mk C) s₁.state) (S : Shaped (eq.restrict Mk C ho) s₁.state n)
    (hT₂ : T₂.length = n) (ht₂ : t₂.length = n)
    (hinc : eq.includeVerticalAdvection = true) (h2 : (1 + 1 : K) ≠ 0) (hR : eq.phys.R ≠ 0)
    (hq : lookup specificHumidityKey s₁.state.tracers = some qm) (hqn : qm.length = n)
    (hqc : ∀ x ∈ qm, (eq.ops.restrict Mk C).clip x = x)
    (hdiv : ∀ i, i < n → ∀ x : N,
      ((1 : N) + (eq.phys.CpVapor / (eq.phys.R / eq.phys.kappa) - 1) • eq.ops.toNodal (lv qm i).1)
        * (x / ((1 : N) + (eq.phys.CpVapor / (eq.phys.R / eq.phys.kappa) - 1) • eq.ops.toNodal (lv qm i).1)) = x)
    (habs : ∀ i, i < n →
      lv t₂ i + lv T₂ i • (eq.ops.restrict Mk C).oneModal
        = lv s₁.state.temperatureVariation i
          + lv eq.referenceTemperature i • (eq.ops.restrict Mk C).oneModal) :
    ∃ r, totalMoist (eq.restrict Mk C ho) s₁ = some r
      ∧ totalMoist (withTRef (eq.restrict Mk C ho) T₂)
          { state := s₁.state.withT t₂, simTime := s₁.simTime } = some r :=
  total_tendency_moist_indep_of_reference (eq.restrict Mk C ho) T₂ s₁ t₂ qm n (laws_restrict C L)
    (moistLaws_restrict C ML) A S hT₂ ht₂ hinc h2 hR hq hqn hqc hdiv habs

end Masked

/-! ## the masked theorems speak about the UNRESTRICTED operations on arrays that lie in the mask

`total_tendency_indep_of_reference_masked` and `…_moist_…_masked` conclude about `eq.restrict Mk C ho` (modal
carrier `↥Mk`), while the operations compared with `/repo` by `harness/props/C04.py` are those of `eq` (modal
carrier `M`: the rectangular arrays).  `Subtype.val` intertwines the two (`Dino.Dynamics.restrict_hom`, every field by
`rfl`) and every equation class commutes with it (`total_restrict`, `totalMoist_restrict`: by unfolding, no law
used), so the theorems hold verbatim for `eq` itself applied to states whose leaves lie in `Mk`. -/
section OnMask
variable {K M N : Type} [Field K] [DecidableEq K] [AddCommGroup M] [Module K M] [CommRing N] [Algebra K N]

/-- naturality of `explicit + implicit` of the moist class -/
theorem totalMoist_restrict [Div N] (eq : PrimitiveEquations K M N) (Mk : Submodule K M)
    (C : MaskClosed eq.ops Mk) (ho : eq.orography ∈ Mk) (s : StateWithTime K Mk) :
    (totalMoist (eq.restrict Mk C ho) s).map (StateWithTime.mapLevels Subtype.val)
      = totalMoist eq (s.mapLevels Subtype.val) := by
  unfold totalMoist MoistPrimitiveEquations.explicitTerms MoistPrimitiveEquations.implicitTerms
    PrimitiveEquationsWithTime.implicitTerms
  have hvt : MoistPrimitiveEquations.virtualTemperature (eq.restrict Mk C ho)
      = MoistPrimitiveEquations.virtualTemperature eq := rfl
  have hs : (StateWithTime.mapLevels Subtype.val s).state = s.state.mapLevels Subtype.val := rfl
  rw [hvt, ← moistExplicitTermsWith_restrict eq Mk C ho, Option.map_map, Option.map_map, hs,
    ← implicitTerms_restrict eq Mk C ho]
  congr 1
  funext e
  simp only [Function.comp, StateWithTime.mapLevels]
  rw [← Submodule.coe_subtype, State.add_mapLevels]

/-- naturality of `explicit + implicit` of the cloud class -/
theorem totalCloud_restrict [Div N] (eq : PrimitiveEquations K M N) (Mk : Submodule K M)
    (C : MaskClosed eq.ops Mk) (ho : eq.orography ∈ Mk) (s : StateWithTime K Mk) :
    (totalCloud (eq.restrict Mk C ho) s).map (StateWithTime.mapLevels Subtype.val)
      = totalCloud eq (s.mapLevels Subtype.val) := by
  unfold totalCloud MoistPrimitiveEquationsWithCloudMoisture.explicitTerms
    MoistPrimitiveEquationsWithCloudMoisture.implicitTerms PrimitiveEquationsWithTime.implicitTerms
  have hvt : MoistPrimitiveEquations.virtualTemperatureWithClouds (eq.restrict Mk C ho)
      = MoistPrimitiveEquations.virtualTemperatureWithClouds eq := rfl
  have hs : (StateWithTime.mapLevels Subtype.val s).state = s.state.mapLevels Subtype.val := rfl
  rw [hvt, ← moistExplicitTermsWith_restrict eq Mk C ho, Option.map_map, Option.map_map, hs,
    ← implicitTerms_restrict eq Mk C ho]
  congr 1
  funext e
  simp only [Function.comp, StateWithTime.mapLevels]
  rw [← Submodule.coe_subtype, State.add_mapLevels]

set_option linter.unusedSectionVars false in
/-- the hypotheses of the masked theorems, read off a state of the unrestricted carrier whose leaves lie in `Mk` -/
theorem lift_hypotheses (eq : PrimitiveEquations K M N) (Mk : Submodule K M) (C : MaskClosed eq.ops Mk)
    (ho : eq.orography ∈ Mk) (T₂ : List K) (s' : State Mk) (t' : List Mk) (n : ℕ)
    (A : Admissible eq.ops (s'.mapLevels Subtype.val)) (S : Shaped eq (s'.mapLevels Subtype.val) n)
    (ht₂ : (t'.map Subtype.val).length = n)
    (habs : ∀ i, i < n →
      lv (t'.map Subtype.val) i + lv T₂ i • eq.ops.oneModal
        = lv (s'.mapLevels Subtype.val).temperatureVariation i
          + lv eq.referenceTemperature i • eq.ops.oneModal) :
    Admissible (eq.ops.restrict Mk C) s' ∧ Shaped (eq.restrict Mk C ho) s' n ∧ t'.length = n
      ∧ ∀ i, i < n →
        lv t' i + lv T₂ i • (eq.ops.restrict Mk C).oneModal
          = lv s'.temperatureVariation i + lv eq.referenceTemperature i • (eq.ops.restrict Mk C).oneModal := by
  refine ⟨⟨?_, ?_, ?_, ?_⟩, ⟨S.pos, S.hb, S.hlc, S.tr, ?_, ?_, ?_⟩, ?_, ?_⟩
  · exact fun z hz => Subtype.ext (A.vort_clip z.1 (List.mem_map_of_mem hz))
  · exact fun d hd => Subtype.ext (A.div_clip d.1 (List.mem_map_of_mem hd))
  · exact fun d hd => Subtype.ext (A.div_mean d.1 (List.mem_map_of_mem hd))
  · exact Subtype.ext A.lsp_clip
  · simpa [State.mapLevels] using S.z
  · simpa [State.mapLevels] using S.d
  · simpa [State.mapLevels] using S.t
  · simpa using ht₂
  · intro i hi
    have h := habs i hi
    have e1 : lv (t'.map Subtype.val) i = (lv t' i).1 := lv_map_zero Subtype.val rfl t' i
    have e2 : lv (s'.mapLevels Subtype.val).temperatureVariation i = (lv s'.temperatureVariation i).1 :=
      lv_map_zero Subtype.val rfl s'.temperatureVariation i
    rw [e1, e2] at h
    exact Subtype.ext h

/-- **T4.2 for the unrestricted operations on the mask**: `eq` is the object compared with the real classes
 (modal carrier `M` = rectangular arrays); the laws are required on the masked arrays `Mk` only, `Mk` is closed under
 the operations, and every leaf of the two states (and the orography) lies in `Mk`.  Then `explicit_terms +
 implicit_terms` **of `eq` itself** does not depend on the reference profile. -/
theorem total_tendency_indep_of_reference_on_mask (eq : PrimitiveEquations K M N) (Mk : Submodule K M)
    (C : MaskClosed eq.ops Mk) (ho : eq.orography ∈ Mk) (L : LawsOn eq.ops Mk) (T₂ : List K)
    (s₁ : State M) (t₂ : List M) (n : ℕ) (hs : s₁.InMask Mk) (ht : ∀ x ∈ t₂, x ∈ Mk)
    (A : Admissible eq.ops s₁) (S : Shaped eq s₁ n) (hT₂ : T₂.length = n) (ht₂ : t₂.length = n)
    (hinc : eq.includeVerticalAdvection = true) (h2 : (1 + 1 : K) ≠ 0)
    (habs : ∀ i, i < n →
      lv t₂ i + lv T₂ i • eq.ops.oneModal
        = lv s₁.temperatureVariation i + lv eq.referenceTemperature i • eq.ops.oneModal) :
    total (withTRef eq T₂) (s₁.withT t₂) = total eq s₁ := by
  obtain ⟨s', rfl⟩ := State.exists_lift s₁ hs
  obtain ⟨t', rfl⟩ := exists_lift_list t₂ ht
  obtain ⟨A', S', ht', habs'⟩ := lift_hypotheses eq Mk C ho T₂ s' t' n A S ht₂ habs
  have key := total_tendency_indep_of_reference_masked eq Mk C ho L T₂ s' t' n A' S' hT₂ ht' hinc h2 habs'
  calc total (withTRef eq T₂) ((s'.mapLevels Subtype.val).withT (t'.map Subtype.val))
      = (total ((withTRef eq T₂).restrict Mk C ho) (s'.withT t')).mapLevels Subtype.val :=
        (total_restrict (withTRef eq T₂) Mk C ho (s'.withT t')).symm
    _ = (total (eq.restrict Mk C ho) s').mapLevels Subtype.val := congrArg _ key
    _ = total eq (s'.mapLevels Subtype.val) := total_restrict eq Mk C ho s'

/-- **T4.3 for the unrestricted operations on the mask** -/
theorem total_tendency_moist_indep_of_reference_on_mask [Div N] (eq : PrimitiveEquations K M N)
    (Mk : Submodule K M) (C : MaskClosed eq.ops Mk) (ho : eq.orography ∈ Mk) (L : LawsOn eq.ops Mk)
    (ML : MoistLawsOn eq.ops Mk) (T₂ : List K) (s₁ : StateWithTime K M) (t₂ qm : List M) (n : ℕ)
    (hs : s₁.state.InMask Mk) (ht : ∀ x ∈ t₂, x ∈ Mk)
    (A : Admissible eq.ops s₁.state) (S : Shaped eq s₁.state n)
    (hT₂ : T₂.length = n) (ht₂ : t₂.length = n)
    (hinc : eq.includeVerticalAdvection = true) (h2 : (1 + 1 : K) ≠ 0) (hR : eq.phys.R ≠ 0)
    (hq : lookup specificHumidityKey s₁.state.tracers = some qm) (hqn : qm.length = n)
    (hqc : ∀ x ∈ qm, eq.ops.clip x = x)
    (hdiv : ∀ i, i < n → ∀ x : N,
      ((1 : N) + (eq.phys.CpVapor / (eq.phys.R / eq.phys.kappa) - 1) • eq.ops.toNodal (lv qm i))
        * (x / ((1 : N) + (eq.phys.CpVapor / (eq.phys.R / eq.phys.kappa) - 1) • eq.ops.toNodal (lv qm i))) = x)
    (habs : ∀ i, i < n →
      lv t₂ i + lv T₂ i • eq.ops.oneModal
        = lv s₁.state.temperatureVariation i + lv eq.referenceTemperature i • eq.ops.oneModal) :
    ∃ r, totalMoist eq s₁ = some r
      ∧ totalMoist (withTRef eq T₂) { state := s₁.state.withT t₂, simTime := s₁.simTime } = some r := by
  obtain ⟨st, tm⟩ := s₁
  obtain ⟨s', rfl⟩ := State.exists_lift st hs
  obtain ⟨t', rfl⟩ := exists_lift_list t₂ ht
  obtain ⟨A', S', ht', habs'⟩ := lift_hypotheses eq Mk C ho T₂ s' t' n A S ht₂ habs
  have hq0 : (lookup specificHumidityKey s'.tracers).map (List.map Subtype.val) = some qm := by
    rw [← lookup_mapTracers]; exact hq
  obtain ⟨qm', hq', rfl⟩ := Option.map_eq_some_iff.1 hq0
  have key := total_tendency_moist_indep_of_reference_masked eq Mk C ho L ML T₂ ⟨s', tm⟩ t' qm' n A' S' hT₂ ht'
    hinc h2 hR hq' (by simpa using hqn)
    (fun x hx => Subtype.ext (hqc x.1 (List.mem_map_of_mem hx)))
    (fun i hi x => by
      have := hdiv i hi x
      rwa [lv_map_zero Subtype.val rfl qm' i] at this)
    habs'
  obtain ⟨r, e1, e2⟩ := key
  refine ⟨StateWithTime.mapLevels Subtype.val r, ?_, ?_⟩
  · have := totalMoist_restrict eq Mk C ho ⟨s', tm⟩
    rw [e1] at this
    exact this.symm
  · have := totalMoist_restrict (withTRef eq T₂) Mk C ho ⟨s'.withT t', tm⟩
    rw [← withTRef_restrict, e2] at this
    exact this.symm

end OnMask

/-! ## non-vacuity: the hypotheses of T4.2 – T4.4 on a concrete object; the cloud witness

`Dino.Dynamics.Toy`: 2-jets in two variables over `ℚ` (a commutative algebra with two commuting
Leibniz derivations, a Laplacian that is invertible off the constants, a truncation as `clip`, and
a genuine inverse of `1 + c·q`), satisfying `Laws` and `MoistLaws` (`toy_laws`, `toy_moistLaws`).
Two uneven layers, variable `T_ref = [2, 3]` against `T₂ = [1, 5]`, non-constant humidity. -/
section Examples
open Dino.Dynamics.Toy

/-- a jet of degree ≤ 1 (a "clipped" field) -/
def exJ (a b c : ℚ) : J := ⟨a, b, c, 0, 0, 0⟩

def exEq : PrimitiveEquations ℚ J J :=
  { ops := toy
    vert := { boundaries := [0, 1 / 3, 1], logCenters := [-2, -1 / 2] }
    phys := { angularVelocity := 1, g := 1, R := 2, Rvapor := 3, CpVapor := 5, kappa := 1 / 4 }
    referenceTemperature := [2, 3]
    orography := exJ 0 1 1 }

def exState (tracers : List (String × List J)) : StateWithTime ℚ J :=
  { state :=
      { vorticity := [exJ 1 2 0, exJ 0 1 1]
        divergence := [exJ 0 1 2, exJ 0 (-1) 1]
        temperatureVariation := [⟨1, 1, 0, 1, 0, 0⟩, ⟨2, 0, 1, 0, 1, 0⟩]
        logSurfacePressure := exJ 0 1 1
        tracers := tracers }
    simTime := 7 }

def exT₂ : List ℚ := [1, 5]
/-- `T' + (T_ref − T₂)·1` -/
def exT' : List J := [⟨2, 1, 0, 1, 0, 0⟩, ⟨0, 0, 1, 0, 1, 0⟩]
def exQ : List J := [exJ (1 / 10) 1 0, exJ (1 / 5) 0 1]
def exQl : List J := [exJ 1 0 0, exJ (1 / 2) 1 0]
def exQi : List J := [exJ 0 0 0, exJ 0 0 1]
def exMoist : List (String × List J) := [(specificHumidityKey, exQ)]
def exCloud : List (String × List J) := [(specificHumidityKey, exQ), (cloudWaterKey, exQl), (cloudIceKey, exQi)]

theorem ex_admissible (tr : List (String × List J)) : Admissible exEq.ops (exState tr).state where
  vort_clip := by
    intro z hz
    simp only [exState, List.mem_cons, List.not_mem_nil, or_false] at hz
    rcases hz with rfl | rfl <;> rfl
  div_clip := by
    intro z hz
    simp only [exState, List.mem_cons, List.not_mem_nil, or_false] at hz
    rcases hz with rfl | rfl <;> rfl
  div_mean := by
    intro z hz
    simp only [exState, List.mem_cons, List.not_mem_nil, or_false] at hz
    rcases hz with rfl | rfl <;> (ext <;> simp [exEq, toy, J.lap, J.invLap, exJ])
  lsp_clip := rfl

theorem ex_shaped (tr : List (String × List J)) : Shaped exEq (exState tr).state 2 :=
  { pos := by norm_num, hb := rfl, hlc := rfl, tr := rfl, z := rfl, d := rfl, t := rfl }

theorem ex_abs : ∀ i, i < 2 →
    lv exT' i + lv exT₂ i • exEq.ops.oneModal
      = lv (exState tr).state.temperatureVariation i + lv exEq.referenceTemperature i • exEq.ops.oneModal := by
  intro i hi
  rcases (by omega : i = 0 ∨ i = 1) with rfl | rfl <;>
    (ext <;> simp [exT', exT₂, exState, exEq, toy, lv, J.add_def, J.smul_def, J.one_def] <;> norm_num)

theorem ex_q_clip : ∀ x ∈ exQ, exEq.ops.clip x = x := by
  intro z hz
  simp only [exQ, List.mem_cons, List.not_mem_nil, or_false] at hz
  rcases hz with rfl | rfl <;> rfl

theorem ex_div : ∀ i, i < 2 → ∀ x : J,
    ((1 : J) + (exEq.phys.CpVapor / (exEq.phys.R / exEq.phys.kappa) - 1) • exEq.ops.toNodal (lv exQ i))
      * (x / ((1 : J) + (exEq.phys.CpVapor / (exEq.phys.R / exEq.phys.kappa) - 1) • exEq.ops.toNodal (lv exQ i)))
      = x := by
  intro i hi x
  apply J.mul_div_cancel
  rcases (by omega : i = 0 ∨ i = 1) with rfl | rfl <;>
    (simp [exEq, exQ, exJ, toy, lv, J.add_def, J.smul_def, J.one_def] <;> norm_num)

/-- T4.2 on the concrete object -/
example : total (withTRef exEq exT₂) ((exState []).state.withT exT') = total exEq (exState []).state :=
  total_tendency_indep_of_reference exEq exT₂ (exState []).state exT' 2 toy_laws (ex_admissible _)
    (ex_shaped _) rfl rfl rfl (by norm_num) ex_abs

/-- T4.3 on the concrete object: non-constant humidity, variable reference profiles -/
example : ∃ r, totalMoist exEq (exState exMoist) = some r
    ∧ totalMoist (withTRef exEq exT₂) { state := (exState exMoist).state.withT exT', simTime := 7 } = some r :=
  total_tendency_moist_indep_of_reference exEq exT₂ (exState exMoist) exT' exQ 2 toy_laws toy_moistLaws
    (ex_admissible _) (ex_shaped _) rfl rfl rfl (by norm_num) (by show (2 : ℚ) ≠ 0; norm_num)
    (by simp [exState, exMoist, lookup]) rfl ex_q_clip ex_div ex_abs

/-- `cloud_indep_of_reference_partial` on the concrete object (no condensate) -/
example : ∃ r, totalCloud exEq
      (exState [(specificHumidityKey, exQ), (cloudWaterKey, [0, 0]), (cloudIceKey, [0, 0])]) = some r
    ∧ totalCloud (withTRef exEq exT₂)
        { state := (exState [(specificHumidityKey, exQ), (cloudWaterKey, [0, 0]),
            (cloudIceKey, [0, 0])]).state.withT exT', simTime := 7 } = some r :=
  cloud_indep_of_reference_partial exEq exT₂ _ exT' exQ [0, 0] [0, 0] 2 toy_laws toy_moistLaws
    (ex_admissible _) (ex_shaped _) rfl rfl rfl (by norm_num) (by show (2 : ℚ) ≠ 0; norm_num)
    (by simp [exState, lookup, specificHumidityKey]) rfl ex_q_clip
    (by simp [exState, lookup, specificHumidityKey, cloudWaterKey]) rfl
    (by simp [exState, lookup, specificHumidityKey, cloudWaterKey, cloudIceKey]) rfl
    (by simp) (by simp) ex_div ex_abs

/-! ### the masked reading on a grid where it matters: the toy grid with one coordinate outside the mask

`toy.withJunk` has modal carrier `J × ℚ`; `clip` keeps the extra coordinate, every other operation zeroes it and
`to_nodal` ignores it — the situation of the rectangular arrays of the real `Grid`.  The unrestricted `Laws`
FAIL on it (`not_laws_withJunk`), the laws restricted to the masked part hold (`lawsOn_withJunk`), the masked part
is closed (`withJunk_closed`), and T4.2 applies on the masked carrier. -/

/-- a jet as a masked array of the junk extension -/
def mkM (j : J) : ↥(maskedPart ℚ J) := ⟨(j, 0), (mem_maskedPart _).2 rfl⟩

theorem mkM_zero : mkM 0 = 0 := rfl

def exEqJ : PrimitiveEquations ℚ (J × ℚ) J :=
  { ops := toy.withJunk, vert := exEq.vert, phys := exEq.phys
    referenceTemperature := exEq.referenceTemperature, orography := (exEq.orography, 0) }

def exStateJ : State ↥(maskedPart ℚ J) :=
  { vorticity := (exState []).state.vorticity.map mkM
    divergence := (exState []).state.divergence.map mkM
    temperatureVariation := (exState []).state.temperatureVariation.map mkM
    logSurfacePressure := mkM (exState []).state.logSurfacePressure
    tracers := [] }

/-- the unrestricted laws fail on this grid; the restricted ones hold and the mask is closed -/
example : ¬ Laws toy.withJunk := not_laws_withJunk toy rfl
example : LawsOn toy.withJunk (maskedPart ℚ J) := lawsOn_withJunk toy toy_laws
example : MoistLawsOn toy.withJunk (maskedPart ℚ J) := moistLawsOn_withJunk toy toy_moistLaws
example : MaskClosed toy.withJunk (maskedPart ℚ J) := withJunk_closed toy

/-- the unmasked array `(0, 1)` is "clipped" but does not survive the nodal round trip -/
example : toy.withJunk.clip ((0 : J), (1 : ℚ)) = (0, 1) ∧
    toy.withJunk.clip (toy.withJunk.toModal (toy.withJunk.toNodal ((0 : J), (1 : ℚ)))) ≠ (0, 1) := by
  refine ⟨rfl, fun h => ?_⟩
  have := congrArg Prod.snd h
  exact zero_ne_one this

/-- **T4.2 on the masked carrier of the junk grid**: every hypothesis instantiated -/
theorem masked_example :
    total (withTRef (exEqJ.restrict (maskedPart ℚ J) (withJunk_closed toy) ((mem_maskedPart _).2 rfl)) exT₂)
        (exStateJ.withT (exT'.map mkM))
      = total (exEqJ.restrict (maskedPart ℚ J) (withJunk_closed toy) ((mem_maskedPart _).2 rfl)) exStateJ := by
  have A0 := ex_admissible ([] : List (String × List J))
  refine total_tendency_indep_of_reference_masked exEqJ (maskedPart ℚ J) (withJunk_closed toy)
    ((mem_maskedPart _).2 rfl) (lawsOn_withJunk toy toy_laws) exT₂ exStateJ (exT'.map mkM) 2
    ⟨?_, ?_, ?_, ?_⟩ ⟨by norm_num, rfl, rfl, rfl, rfl, rfl, rfl⟩ rfl rfl rfl (by norm_num) ?_
  · intro z hz
    obtain ⟨j, hj, rfl⟩ := List.mem_map.1 hz
    exact Subtype.ext (Prod.ext (A0.vort_clip j hj) rfl)
  · intro z hz
    obtain ⟨j, hj, rfl⟩ := List.mem_map.1 hz
    exact Subtype.ext (Prod.ext (A0.div_clip j hj) rfl)
  · intro z hz
    obtain ⟨j, hj, rfl⟩ := List.mem_map.1 hz
    exact Subtype.ext (Prod.ext (A0.div_mean j hj) rfl)
  · exact Subtype.ext (Prod.ext A0.lsp_clip rfl)
  · intro i hi
    have h0 := ex_abs (tr := []) i hi
    show lv (exT'.map mkM) i + lv exT₂ i • mkM exEq.ops.oneModal
      = lv ((exState []).state.temperatureVariation.map mkM) i + lv exEq.referenceTemperature i • mkM exEq.ops.oneModal
    rw [lv_map_zero mkM mkM_zero, lv_map_zero mkM mkM_zero]
    apply Subtype.ext
    apply Prod.ext
    · exact h0
    · simp [mkM]

/-! ### the moist masked theorem and the unrestricted-operations corollaries on the junk grid

Every hypothesis of `total_tendency_moist_indep_of_reference_masked` instantiated on `toy.withJunk` (non-constant
humidity, variable reference profiles, two uneven layers); then the corollaries for the UNRESTRICTED operations of
`exEqJ` (modal carrier `J × ℚ`, on which `Laws` fails: `not_laws_withJunk`) applied to raw arrays `(j, 0)`. -/

theorem exJ_ho : exEqJ.orography ∈ maskedPart ℚ J := (mem_maskedPart _).2 rfl

/-- the masked state of `masked_example`, with specific humidity and a time stamp -/
def exStateJM : StateWithTime ℚ ↥(maskedPart ℚ J) :=
  { state := { exStateJ with tracers := [(specificHumidityKey, exQ.map mkM)] }, simTime := 7 }

theorem exJ_admissible (tr : List (String × List ↥(maskedPart ℚ J))) :
    Admissible (exEqJ.ops.restrict (maskedPart ℚ J) (withJunk_closed toy)) { exStateJ with tracers := tr } := by
  have A0 := ex_admissible ([] : List (String × List J))
  refine ⟨?_, ?_, ?_, ?_⟩
  · intro z hz
    obtain ⟨j, hj, rfl⟩ := List.mem_map.1 hz
    exact Subtype.ext (Prod.ext (A0.vort_clip j hj) rfl)
  · intro z hz
    obtain ⟨j, hj, rfl⟩ := List.mem_map.1 hz
    exact Subtype.ext (Prod.ext (A0.div_clip j hj) rfl)
  · intro z hz
    obtain ⟨j, hj, rfl⟩ := List.mem_map.1 hz
    exact Subtype.ext (Prod.ext (A0.div_mean j hj) rfl)
  · exact Subtype.ext (Prod.ext A0.lsp_clip rfl)

theorem exJ_abs : ∀ i, i < 2 →
    lv (exT'.map mkM) i + lv exT₂ i • (exEqJ.ops.restrict (maskedPart ℚ J) (withJunk_closed toy)).oneModal
      = lv exStateJ.temperatureVariation i
        + lv exEqJ.referenceTemperature i • (exEqJ.ops.restrict (maskedPart ℚ J) (withJunk_closed toy)).oneModal := by
  intro i hi
  have h0 := ex_abs (tr := []) i hi
  show lv (exT'.map mkM) i + lv exT₂ i • mkM exEq.ops.oneModal
    = lv ((exState []).state.temperatureVariation.map mkM) i + lv exEq.referenceTemperature i • mkM exEq.ops.oneModal
  rw [lv_map_zero mkM mkM_zero, lv_map_zero mkM mkM_zero]
  apply Subtype.ext
  apply Prod.ext
  · exact h0
  · simp [mkM]

theorem exJ_q_clip : ∀ x ∈ exQ.map mkM, (exEqJ.ops.restrict (maskedPart ℚ J) (withJunk_closed toy)).clip x = x := by
  intro x hx
  obtain ⟨j, hj, rfl⟩ := List.mem_map.1 hx
  exact Subtype.ext (Prod.ext (ex_q_clip j hj) rfl)

theorem exJ_div : ∀ i, i < 2 → ∀ x : J,
    ((1 : J) + (exEqJ.phys.CpVapor / (exEqJ.phys.R / exEqJ.phys.kappa) - 1)
        • exEqJ.ops.toNodal (lv (exQ.map mkM) i).1)
      * (x / ((1 : J) + (exEqJ.phys.CpVapor / (exEqJ.phys.R / exEqJ.phys.kappa) - 1)
        • exEqJ.ops.toNodal (lv (exQ.map mkM) i).1)) = x := by
  intro i hi x
  rw [lv_map_zero mkM mkM_zero]
  exact ex_div i hi x

/-- **T4.3 on the masked carrier of the junk grid**: every hypothesis instantiated (review2 F, C04 N3) -/
theorem masked_moist_example :
    ∃ r, totalMoist (exEqJ.restrict (maskedPart ℚ J) (withJunk_closed toy) exJ_ho) exStateJM = some r
      ∧ totalMoist (withTRef (exEqJ.restrict (maskedPart ℚ J) (withJunk_closed toy) exJ_ho) exT₂)
          { state := exStateJM.state.withT (exT'.map mkM), simTime := exStateJM.simTime } = some r :=
  total_tendency_moist_indep_of_reference_masked exEqJ (maskedPart ℚ J) (withJunk_closed toy) exJ_ho
    (lawsOn_withJunk toy toy_laws) (moistLawsOn_withJunk toy toy_moistLaws) exT₂ exStateJM (exT'.map mkM)
    (exQ.map mkM) 2 (exJ_admissible _) ⟨by norm_num, rfl, rfl, rfl, rfl, rfl, rfl⟩ rfl rfl rfl (by norm_num)
    (by show (2 : ℚ) ≠ 0; norm_num) (by simp [exStateJM, lookup]) rfl exJ_q_clip exJ_div exJ_abs

/-- a jet as a raw array of the junk grid (junk coordinate zero) -/
def raw (j : J) : J × ℚ := (j, 0)

theorem raw_mem (l : List J) : ∀ x ∈ l.map raw, x ∈ maskedPart ℚ J := by
  intro x hx
  obtain ⟨j, _, rfl⟩ := List.mem_map.1 hx
  exact (mem_maskedPart _).2 rfl

/-- the state of the examples as RAW arrays of the junk grid -/
def exRaw (tr : List (String × List J)) : StateWithTime ℚ (J × ℚ) :=
  { state := (exState tr).state.mapLevels raw, simTime := 7 }

theorem exRaw_inMask (tr : List (String × List J)) : (exRaw tr).state.InMask (maskedPart ℚ J) where
  vorticity := raw_mem _
  divergence := raw_mem _
  temperatureVariation := raw_mem _
  logSurfacePressure := (mem_maskedPart _).2 rfl
  tracers := fun kv hkv => by
    obtain ⟨kv', _, rfl⟩ := List.mem_map.1 hkv
    exact raw_mem _

theorem exRaw_admissible (tr : List (String × List J)) : Admissible exEqJ.ops (exRaw tr).state := by
  have A0 := ex_admissible tr
  refine ⟨?_, ?_, ?_, ?_⟩
  · intro z hz
    obtain ⟨j, hj, rfl⟩ := List.mem_map.1 hz
    exact Prod.ext (A0.vort_clip j hj) rfl
  · intro z hz
    obtain ⟨j, hj, rfl⟩ := List.mem_map.1 hz
    exact Prod.ext (A0.div_clip j hj) rfl
  · intro z hz
    obtain ⟨j, hj, rfl⟩ := List.mem_map.1 hz
    exact Prod.ext (A0.div_mean j hj) rfl
  · exact Prod.ext A0.lsp_clip rfl

theorem exRaw_abs (tr : List (String × List J)) : ∀ i, i < 2 →
    lv (exT'.map raw) i + lv exT₂ i • exEqJ.ops.oneModal
      = lv (exRaw tr).state.temperatureVariation i + lv exEqJ.referenceTemperature i • exEqJ.ops.oneModal := by
  intro i hi
  have h0 := ex_abs (tr := tr) i hi
  show lv (exT'.map raw) i + lv exT₂ i • raw exEq.ops.oneModal
    = lv ((exState tr).state.temperatureVariation.map raw) i + lv exEq.referenceTemperature i • raw exEq.ops.oneModal
  rw [lv_map_zero raw rfl, lv_map_zero raw rfl]
  apply Prod.ext
  · exact h0
  · simp [raw]

/-- **T4.2 for the UNRESTRICTED operations of the junk grid** (on which `Laws` is false), raw arrays in the mask -/
theorem on_mask_example :
    total (withTRef exEqJ exT₂) ((exRaw []).state.withT (exT'.map raw)) = total exEqJ (exRaw []).state :=
  total_tendency_indep_of_reference_on_mask exEqJ (maskedPart ℚ J) (withJunk_closed toy) exJ_ho
    (lawsOn_withJunk toy toy_laws) exT₂ (exRaw []).state (exT'.map raw) 2 (exRaw_inMask _) (raw_mem _)
    (exRaw_admissible _) ⟨by norm_num, rfl, rfl, rfl, rfl, rfl, rfl⟩ rfl rfl rfl (by norm_num) (exRaw_abs _)

/-- **T4.3 for the UNRESTRICTED operations of the junk grid**, raw arrays in the mask, non-constant humidity -/
theorem on_mask_moist_example :
    ∃ r, totalMoist exEqJ (exRaw exMoist) = some r
      ∧ totalMoist (withTRef exEqJ exT₂)
          { state := (exRaw exMoist).state.withT (exT'.map raw), simTime := (exRaw exMoist).simTime } = some r :=
  total_tendency_moist_indep_of_reference_on_mask exEqJ (maskedPart ℚ J) (withJunk_closed toy) exJ_ho
    (lawsOn_withJunk toy toy_laws) (moistLawsOn_withJunk toy toy_moistLaws) exT₂ (exRaw exMoist) (exT'.map raw)
    (exQ.map raw) 2 (exRaw_inMask _) (raw_mem _) (exRaw_admissible _) ⟨by norm_num, rfl, rfl, rfl, rfl, rfl, rfl⟩
    rfl rfl rfl (by norm_num) (by show (2 : ℚ) ≠ 0; norm_num)
    (by simp [exRaw, exState, exMoist, lookup, State.mapLevels, mapTracers]) rfl
    (fun x hx => by
      obtain ⟨j, hj, rfl⟩ := List.mem_map.1 hx
      exact Prod.ext (ex_q_clip j hj) rfl)
    (fun i hi x => by
      rw [lv_map_zero raw rfl]
      exact ex_div i hi x)
    (exRaw_abs _)

/-- **T4.4, the negation of the full statement with a concrete witness**: there is a grid
 satisfying every named law, an admissible state with condensate and two reference profiles of the same
 absolute temperature for which `explicit + implicit` of `MoistPrimitiveEquationsWithCloudMoisture`
 evaluates without error and **differs** (here: level 0 of the divergence tendency, by
 `R·(T_ref − T₂)·clip(div(q_l ∇ln p_s)) = 2·1·(x + y)`). -/
theorem cloud_depends_on_reference :
    ∃ (eq : PrimitiveEquations ℚ J J) (T₂ : List ℚ) (s₁ : StateWithTime ℚ J) (t₂ : List J) (n : ℕ),
      Laws eq.ops ∧ MoistLaws eq.ops ∧ Admissible eq.ops s₁.state ∧ Shaped eq s₁.state n
      ∧ T₂.length = n ∧ t₂.length = n
      ∧ (∀ i, i < n → lv t₂ i + lv T₂ i • eq.ops.oneModal
          = lv s₁.state.temperatureVariation i + lv eq.referenceTemperature i • eq.ops.oneModal)
      ∧ totalCloud eq s₁ ≠ none
      ∧ totalCloud (withTRef eq T₂) { state := s₁.state.withT t₂, simTime := s₁.simTime }
          ≠ totalCloud eq s₁ := by
  refine ⟨exEq, exT₂, exState exCloud, exT', 2, toy_laws, toy_moistLaws, ex_admissible _, ex_shaped _, rfl, rfl,
    ex_abs, ?_, ?_⟩ <;>
  obtain ⟨r₁, e1, hv, hd, e2⟩ := cloud_split_residual exEq exT₂ (exState exCloud) exT' exQ exQl exQi 2
    toy_laws toy_moistLaws (ex_admissible _) (ex_shaped _) rfl rfl rfl (by norm_num)
    (by show (2 : ℚ) ≠ 0; norm_num)
    (by simp [exState, exCloud, lookup]) rfl ex_q_clip
    (by simp [exState, exCloud, lookup, specificHumidityKey, cloudWaterKey]) rfl
    (by simp [exState, exCloud, lookup, specificHumidityKey, cloudWaterKey, cloudIceKey]) rfl ex_div ex_abs
  · rw [e1]; simp
  · rw [e1, e2]
    intro h
    have hs : r₁.state.addMomentum _ = r₁.state := congrArg StateWithTime.state (Option.some.inj h)
    refine State.addMomentum_ne r₁.state _ 0 ?_ ?_ hs
    · rw [hd]; rfl
    · intro h0
      have := congrArg J.cx h0
      simp [condResidual, Col.sub, Col.add, lv, exEq, exState, exT₂, exQl, exQi, exJ, toy, HOps.divCosLat,
        HOps.cosLatGrad, weightedGradSec2, nodalGrad, J.clip, J.dx, J.dy, J.mul_def, J.smul_def, J.add_def,
        J.one_def, J.zero_def] at this
      norm_num at this

end Examples
end Dino.C04
