import DinoProofs.Lemmas.Dynamics
import Mathlib.Tactic.NormNum
import Mathlib.Data.Rat.Defs

/-!
# C04 — the full tendency does not depend on the reference-temperature split

Model: `Dino/Dynamics.lean` (abstract horizontal operations `HOps`, the four equation classes of
`dinosaur/primitive_equations.py`), `Dino/Implicit.lean` (`hMatrix` = `get_temperature_implicit_weights`),
`Dino/Sigma.lean`.  Laws of the horizontal operations are hypotheses (`Dino.Dynamics.Laws`,
`MoistLaws`), validated on the real grids by `harness/props/C04.py`.
-/
namespace Dino.C04
open Dino Dino.Sigma Dino.Dynamics

/-! ## T4.1 — the two halves of the split are the same discretisation -/
section T41
variable {K V : Type} [Field K] [AddCommGroup V] [Module K V]

/-- **T4.1** For every level set, reference profile `T` and `κ`: the implicit temperature weights
 `H = get_temperature_implicit_weights` applied to a divergence column `D` (with values in any
 `K`-module: spectral coefficients, nodal fields, scalars) equal the explicit formulas evaluated on
 the reference profile with `G = D`: `κ·T·(g-part of ω/p)` minus the centred advection of `T` by the
 `D`-part of `σ̇`.  Only `2 ≠ 0` is needed (no positivity of the thicknesses: both sides use the
 same totalised divisions). -/
theorem implicit_weights_eq_explicit_on_reference (v : Vert K) (T : List K) (κ : K) (D : List V)
    (n : ℕ) (hb : v.boundaries.length = n + 1) (hlc : v.logCenters.length = n) (hT : T.length = n)
    (hD : D.length = n) (h2 : (1 + 1 : K) ≠ 0) :
    Col.matvec (Implicit.hMatrix v.ds T v.alpha κ) D
      = Col.sub (Col.smul κ (Col.wmul T (gPart v.ds v.alpha D)))
          (advScalar v.ctc (sigmaDotOf v.ds (Col.cumSigmaIntegral v.ds D)) T) :=
  hMatrix_matvec_vert v T κ D n hb hlc hT hD h2

/-- `H` is additive in the reference profile (so is the implicit temperature tendency) -/
theorem implicit_weights_additive_in_reference (ds T dT al : List K) (κ : K) (D : List V) (n : ℕ)
    (hds : ds.length = n) (hD : D.length = n) (h : T.length = dT.length) :
    Col.matvec (Implicit.hMatrix ds (Col.sub T dT) al κ) D
      = Col.sub (Col.matvec (Implicit.hMatrix ds T al κ) D) (Col.matvec (Implicit.hMatrix ds dT al κ) D) :=
  hMatrix_sub ds T dT al κ D n hds hD h

end T41

section T41nodal
variable {K M N : Type} [Field K] [AddCommGroup M] [Module K M] [CommRing N] [Algebra K N]

/-- **T4.1 in terms of the model's own explicit routines**: `H·D` equals minus
 `κ·_t_omega_over_sigma_sp(T_ref, G = D, v·∇ln p = 0)` minus `_vertical_tendency(σ̇(D), T_ref)`,
 for a column `D` of nodal fields. -/
theorem implicit_weights_eq_minus_explicit_routines (eq : PrimitiveEquations K M N) (D : List N) (n : ℕ)
    (hn : 0 < n) (hb : eq.vert.boundaries.length = n + 1) (hlc : eq.vert.logCenters.length = n)
    (hT : eq.referenceTemperature.length = n) (hD : D.length = n) (h2 : (1 + 1 : K) ≠ 0) :
    Col.matvec eq.temperatureImplicitWeights D
      = Col.neg (Col.add
          (Col.smul eq.phys.kappa (eq.tOmegaOverSigmaSp eq.tRef D (Col.zerosLike D)))
          (eq.verticalTendency (sigmaDotOf eq.vert.ds (Col.cumSigmaIntegral eq.vert.ds D)) eq.tRef)) := by
  have hds := vert_ds_length eq.vert n hb
  have hal := vert_alpha_length eq.vert n hlc
  have hctc := vert_ctc_length eq.vert n hb
  have hsd := sigmaDotOf_length eq.vert.ds (Col.cumSigmaIntegral eq.vert.ds D) n hds (by simp [hds, hD])
  have hgp := gPart_length eq.vert.ds eq.vert.alpha D n hds hal hD
  have hadv := centeredAdvection_length eq.vert.ctc
    (sigmaDotOf eq.vert.ds (Col.cumSigmaIntegral eq.vert.ds D)) eq.tRef n hn hctc hsd
    (by simp [PrimitiveEquations.tRef, hT])
  have hadv' : (Col.centeredAdvection eq.vert.ctc
    (sigmaDotOf eq.vert.ds (Col.cumSigmaIntegral eq.vert.ds D))
    (List.map (constN : K → N) eq.referenceTemperature)).length = n := hadv
  rw [PrimitiveEquations.temperatureImplicitWeights,
    hMatrix_matvec_vert eq.vert eq.referenceTemperature eq.phys.kappa D n hb hlc hT hD h2, tOmega_eq]
  apply ext_lv (n := n)
  · simp [Col.sub, Col.smul, hgp, hT, advScalar_length _ _ _ n hn hctc hsd hT]
  · simp [Col.neg, Col.add, Col.smul, Col.mul, Col.sub, Col.zerosLike, PrimitiveEquations.tRef,
      PrimitiveEquations.verticalTendency, hT, hD, hgp, hadv']
  intro i hi
  have hz : lv (Col.zerosLike D : List N) i = 0 := by
    unfold Col.zerosLike; exact lv_map_zero (fun _ => (0 : N)) rfl D i
  rw [lv_sub _ _ (by simp [Col.smul, hgp, hT, advScalar_length _ _ _ n hn hctc hsd hT]), lv_smul, lv_wmul,
    lv_neg, lv_add _ _ (by simp [Col.smul, Col.mul, Col.sub, Col.zerosLike, PrimitiveEquations.tRef,
      PrimitiveEquations.verticalTendency, hT, hD, hgp, hadv']),
    lv_smul, lv_mul, lv_sub _ _ (by simp [Col.zerosLike, hD, hgp]), PrimitiveEquations.verticalTendency,
    PrimitiveEquations.tRef, lv_adv_const _ _ _ n hctc hsd hT i hi, lv_map_zero _ constN_zero, hz, constN_mul]
  module

end T41nodal

/-! ## T4.2 — dry and time-carrying classes -/
section T42
variable {K M N : Type} [Field K] [DecidableEq K] [AddCommGroup M] [Module K M] [CommRing N] [Algebra K N]

/-- **T4.2 (dry class)** Two reference profiles `T_ref` (in `eq`) and `T₂`, two states describing
 the same physical atmosphere (`T_ref + T′` equal level by level, everything else identical):
 `explicit_terms + implicit_terms` is the same `State`.  Hypotheses: the named laws of the
 horizontal operators, an admissible state (top wavenumber clipped, zero-mean divergence),
 `include_vertical_advection = True` (otherwise `T′` is advected by the semi-Lagrangian step and the
 statement is not claimed), `2 ≠ 0`. -/
theorem total_tendency_indep_of_reference (eq : PrimitiveEquations K M N) (T₂ : List K)
    (s₁ : State M) (t₂ : List M) (n : ℕ) (L : Laws eq.ops) (A : Admissible eq.ops s₁)
    (S : Shaped eq s₁ n) (hT₂ : T₂.length = n) (ht₂ : t₂.length = n)
    (hinc : eq.includeVerticalAdvection = true) (h2 : (1 + 1 : K) ≠ 0)
    (habs : ∀ i, i < n →
      lv t₂ i + lv T₂ i • eq.ops.oneModal
        = lv s₁.temperatureVariation i + lv eq.referenceTemperature i • eq.ops.oneModal) :
    total (withTRef eq T₂) (s₁.withT t₂) = total eq s₁ := by
  obtain ⟨dT, hdT⟩ : ∃ dT, dT = Col.sub eq.referenceTemperature T₂ := ⟨_, rfl⟩
  have hdl : dT.length = n := by rw [hdT]; simp [Col.sub, S.tr, hT₂]
  have hlv : ∀ i, lv dT i = lv eq.referenceTemperature i - lv T₂ i := by
    intro i; rw [hdT, lv_sub _ _ (by rw [S.tr, hT₂])]
  have h1 : T₂ = Col.sub eq.referenceTemperature dT := by
    apply ext_lv (n := n) hT₂ (by simp [Col.sub, S.tr, hdl])
    intro i _
    rw [lv_sub _ _ (by rw [S.tr, hdl]), hlv]
    ring
  have h3 : t₂ = shiftM eq.ops s₁.temperatureVariation dT := by
    apply ext_lv (n := n) ht₂ (by simp [shiftM, S.t, hdl])
    intro i hi
    rw [shiftM, lv_zipWith _ _ _ (by rw [S.t]; exact hi) (by rw [hdl]; exact hi), hlv, sub_smul,
      ← add_sub_assoc, ← habs i hi]
    module
  rw [h1, h3]
  exact total_shift eq s₁ dT n L A S hdl hinc h2

/-- `explicit + implicit` of `PrimitiveEquationsWithTime` (`sim_time` tendencies 1 and 0) -/
def totalWithTime (eq : PrimitiveEquations K M N) (s : StateWithTime K M) : StateWithTime K M :=
  { state := State.add (PrimitiveEquationsWithTime.explicitTerms eq s).state
      (PrimitiveEquationsWithTime.implicitTerms eq s).state
    simTime := (PrimitiveEquationsWithTime.explicitTerms eq s).simTime
      + (PrimitiveEquationsWithTime.implicitTerms eq s).simTime }

/-- **T4.2 (time-carrying class)** -/
theorem total_tendency_with_time_indep_of_reference (eq : PrimitiveEquations K M N) (T₂ : List K)
    (s₁ : StateWithTime K M) (t₂ : List M) (n : ℕ) (L : Laws eq.ops) (A : Admissible eq.ops s₁.state)
    (S : Shaped eq s₁.state n) (hT₂ : T₂.length = n) (ht₂ : t₂.length = n)
    (hinc : eq.includeVerticalAdvection = true) (h2 : (1 + 1 : K) ≠ 0)
    (habs : ∀ i, i < n →
      lv t₂ i + lv T₂ i • eq.ops.oneModal
        = lv s₁.state.temperatureVariation i + lv eq.referenceTemperature i • eq.ops.oneModal) :
    totalWithTime (withTRef eq T₂) { state := s₁.state.withT t₂, simTime := s₁.simTime }
      = totalWithTime eq s₁ := by
  have := total_tendency_indep_of_reference eq T₂ s₁.state t₂ n L A S hT₂ ht₂ hinc h2 habs
  unfold total at this
  simp only [totalWithTime, PrimitiveEquationsWithTime.explicitTerms,
    PrimitiveEquationsWithTime.implicitTerms, this]

end T42
end Dino.C04
