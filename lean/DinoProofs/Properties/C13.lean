import DinoProofs.Lemmas.Sigma
import Mathlib.Algebra.Order.Field.Basic
import Mathlib.Data.List.Chain
import Mathlib.Algebra.Order.Ring.Defs
import Mathlib.Tactic.NormNum

/-!
# C13 — vertical (sigma) calculus: property theorems

All statements are about the executable model `Dino.Sigma` (tied to
`dinosaur/sigma_coordinates.py`, `jax_numpy_utils.py`, `primitive_equations.py` by the
correspondence check of `harness/props/C13.py`), for an arbitrary field `K`, arbitrary
layer counts and arbitrary (uneven) level sets.
-/
namespace Dino.C13
open Dino.Sigma

variable {K : Type} [Field K]

/-! ## T13.1 cumulative integrals -/

/-- the downward cumulative integral ends at the total integral -/
theorem cumSigmaIntegral_down_last (b x : List K) (hx : mulv x (thickness b) ≠ []) :
    (cumSigmaIntegral b x true).getLast? = some (sigmaIntegral b x) := by
  simp only [cumSigmaIntegral, if_true, cumsum, sigmaIntegral]
  rw [cumsumFrom_getLast 0 _ hx, zero_add]

/-- the upward cumulative integral starts at the total integral -/
theorem cumSigmaIntegral_up_head (b x : List K) :
    (cumSigmaIntegral b x false).headD 0 = sigmaIntegral b x := by
  simp only [cumSigmaIntegral, Bool.false_eq_true, if_false, sigmaIntegral]
  exact rcumsum_headD _

/-- downward + upward = total + local layer contribution, layer by layer -/
theorem cumSigmaIntegral_down_add_up (b x : List K) :
    addv (cumSigmaIntegral b x true) (cumSigmaIntegral b x false)
      = (mulv x (thickness b)).map (fun a => sigmaIntegral b x + a) := by
  simp only [cumSigmaIntegral, if_true, Bool.false_eq_true, if_false, addv, cumsum, sigmaIntegral]
  rw [cumsumFrom_add_rcumsum]; simp

/-- all cumulative-sum strategies agree (matrix form, reference scan, flip-scan-flip) -/
theorem cumsum_methods_agree (x : List K) :
    cumsumM "dot" x = cumsumM "jax" x ∧ rcumsumM "dot" x = rcumsumM "jax" x := by
  constructor
  · simp [cumsumM, dotCumsum_false]
  · simp [rcumsumM, dotCumsum_true, rcumsumFlip_eq]

/-- unknown methods are rejected -/
theorem cumsum_method_rejected (m : String) (x : List K) (h1 : m ≠ "dot") (h2 : m ≠ "jax") :
    cumsumM m x = none ∧ rcumsumM m x = none := by
  simp [cumsumM, rcumsumM, h1, h2]

/-! ## T13.2 centred differences are exact on affine profiles -/

theorem centeredDifference_affine (b : List K) (a s : K)
    (h : ∀ c ∈ centerToCenter b, c ≠ 0) :
    centeredDifference b ((centers b).map fun c => a + s * c)
      = (centerToCenter b).map fun _ => s := by
  unfold centeredDifference
  rw [diffs_map_affine]
  unfold centerToCenter at h ⊢
  rw [List.zipWith_map_left, List.zipWith_self]
  apply List.map_congr_left
  intro c hc
  have := h c hc
  field_simp

/-! ## T13.3 summation by parts -/

/-- interior fluxes times the sum of adjacent thicknesses: `2·w·Δx` -/
theorem flux_mul_thickness [NeZero ((1 : K) + 1)] (b w x : List K)
    (hx : x.length + 1 = b.length) (hw : w.length + 1 = x.length)
    (h : ∀ c ∈ centerToCenter b, c ≠ 0) :
    mulv (mulv w (centeredDifference b x)) (addv (thickness b).tail (thickness b))
      = smul (1 + 1) (mulv w (diffs x)) := by
  have hc := centerToCenter_eq b
  unfold centeredDifference
  rw [hc] at h ⊢
  have h2' : ((1 : K) + 1) ≠ 0 := NeZero.ne _
  have hd : (thickness b).length = x.length := by simp [thickness]; omega
  have hdx : (diffs x).length = w.length := by simp; omega
  apply List.ext_getElem
  · simp [mulv, addv, smul, hd, hdx]; omega
  · intro i h1 h2
    have hi : i < w.length := by simp [mulv, smul, hdx] at h2; exact h2
    have hi1 : i < (thickness b).tail.length := by simp [hd]; omega
    have hi2 : i < (thickness b).length := by omega
    simp only [mulv, addv, smul, List.getElem_zipWith, List.getElem_map]
    have hne := h _ (List.getElem_mem (l := List.zipWith (fun hi lo => (hi + lo) / (1 + 1))
      (thickness b).tail (thickness b)) (n := i) (by simp; omega))
    simp only [List.getElem_zipWith] at hne
    have hs : (thickness b).tail[i] + (thickness b)[i] ≠ 0 := by
      intro h0; apply hne; rw [h0]; simp
    field_simp

/-- Centred vertical advection obeys summation by parts: the mass-weighted column sum of the
 advection term equals the column sum of `x` times the vertical-velocity difference, for zero
 boundary velocity, on every level set with non-degenerate centre spacing. -/
theorem summation_by_parts [NeZero ((1 : K) + 1)] (b w x : List K)
    (hx : x.length + 1 = b.length) (hw : w.length + 1 = x.length)
    (h : ∀ c ∈ centerToCenter b, c ≠ 0) :
    (mulv (thickness b) (centeredAdvection b w x)).sum
      = (mulv x (diffs ((0 : K) :: (w ++ [0])))).sum := by
  have h2' : ((1 : K) + 1) ≠ 0 := NeZero.ne _
  have hlen : (mulv w (centeredDifference b x)).length + 1 = (thickness b).length := by
    simp [mulv, centeredDifference, centerToCenter, thickness]; omega
  have key := sbp_aux (-(1 / (1 + 1) : K)) 0 (mulv w (centeredDifference b x)) (thickness b) hlen
  have hf : mulv ((0 : K) :: (w ++ [0])) ((0 : K) :: (centeredDifference b x ++ [0]))
      = (0 : K) :: (mulv w (centeredDifference b x) ++ [0]) := by
    have hl : w.length = (centeredDifference b x).length := by
      simp [centeredDifference, centerToCenter]; omega
    simp [mulv, List.zipWith_append hl]
  rw [abel_aux 0 w x hw]
  unfold centeredAdvection
  simp only [hf, List.tail_cons]
  rw [key, flux_mul_thickness b w x hx hw h, sum_smul]
  field_simp
  ring

/-! ## T13.4 the geopotential operator is `R` times the trapezoid rule in `log σ` -/

theorem geopotentialDiffDense_cons_cons (R a0 a1 t0 t1 : K) (al t : List K) :
    geopotentialDiffDense R (a0 :: a1 :: al) (t0 :: t1 :: t)
      = (R * a0 * (t0 + t1) + (geopotentialDiffDense R (a1 :: al) (t1 :: t)).headD 0)
          :: geopotentialDiffDense R (a1 :: al) (t1 :: t) := by
  simp only [geopotentialDiffDense, geopotentialWeights, matvec, geoOffDiag, mulv, List.map_cons,
    List.map_map, List.zipWith_cons_cons, List.sum_cons, List.headD_cons]
  congr 1
  · ring
  · congr 1
    · ring
    · apply List.map_congr_left; intro r _; simp

theorem geopotentialDiffSparse_cons_cons (R a0 a1 t0 t1 : K) (al t : List K) :
    geopotentialDiffSparse R (a0 :: a1 :: al) (t0 :: t1 :: t)
      = (R * a0 * (t0 + t1) + (geopotentialDiffSparse R (a1 :: al) (t1 :: t)).headD 0)
          :: geopotentialDiffSparse R (a1 :: al) (t1 :: t) := by
  simp only [geopotentialDiffSparse, smul, addv, subv, mulv, rcumsum, List.map_cons,
    List.tail_cons, List.dropLast_cons_cons, List.zipWith_cons_cons, List.headD_cons]
  congr 1
  · ring
  · congr 1
    ring

theorem cumLogSigmaIntegral_up_cons_cons (l0 l1 t0 t1 : K) (lc t : List K) :
    cumLogSigmaIntegral (l0 :: l1 :: lc) (t0 :: t1 :: t) false
      = ((t1 + t0) / (1 + 1) * (l1 - l0) + (cumLogSigmaIntegral (l1 :: lc) (t1 :: t) false).headD 0)
          :: cumLogSigmaIntegral (l1 :: lc) (t1 :: t) false := by
  simp [cumLogSigmaIntegral, logIntegrand, diffsAppend0, diffs, mulv, rcumsum]

/-- dense form = `R ·` upward trapezoid integral in `log σ`, every level set -/
theorem geopotentialDiffDense_eq_logIntegral [NeZero ((1 : K) + 1)] (R : K) (lc t : List K)
    (h : lc.length = t.length) :
    geopotentialDiffDense R (sigmaRatios lc) t = smul R (cumLogSigmaIntegral lc t false) := by
  have h2' : ((1 : K) + 1) ≠ 0 := NeZero.ne _
  induction lc generalizing t with
  | nil => cases t <;> simp_all [geopotentialDiffDense, sigmaRatios, geopotentialWeights, matvec,
      cumLogSigmaIntegral, smul, logIntegrand, mulv, rcumsum]
  | cons l0 lc ih =>
    match lc, t, h with
    | [], [t0], _ =>
      simp [geopotentialDiffDense, sigmaRatios, geopotentialWeights, matvec, geoOffDiag,
        cumLogSigmaIntegral, smul, logIntegrand, diffsAppend0, diffs, mulv, rcumsum]; ring
    | l1 :: lc, t0 :: t1 :: t, h =>
      have ih' := ih (t1 :: t) (by simpa using h)
      obtain ⟨a1, al, hal⟩ := sigmaRatios_cons_exists l1 lc
      rw [sigmaRatios, hal, geopotentialDiffDense_cons_cons, ← hal, ih',
        cumLogSigmaIntegral_up_cons_cons]
      cases hT : cumLogSigmaIntegral (l1 :: lc) (t1 :: t) false with
      | nil => simp [smul]; field_simp; ring
      | cons u us => simp [smul]; field_simp; ring

/-- cumulative-sum (sparse) form = `R ·` upward trapezoid integral in `log σ` -/
theorem geopotentialDiffSparse_eq_logIntegral [NeZero ((1 : K) + 1)] (R : K) (lc t : List K)
    (h : lc.length = t.length) :
    geopotentialDiffSparse R (sigmaRatios lc) t = smul R (cumLogSigmaIntegral lc t false) := by
  have h2' : ((1 : K) + 1) ≠ 0 := NeZero.ne _
  induction lc generalizing t with
  | nil => cases t <;> simp_all [geopotentialDiffSparse, sigmaRatios, smul, addv, subv, mulv,
      cumLogSigmaIntegral, logIntegrand, rcumsum]
  | cons l0 lc ih =>
    match lc, t, h with
    | [], [t0], _ =>
      simp [geopotentialDiffSparse, sigmaRatios, smul, addv, subv, mulv,
        cumLogSigmaIntegral, logIntegrand, diffsAppend0, diffs, rcumsum]; ring
    | l1 :: lc, t0 :: t1 :: t, h =>
      have ih' := ih (t1 :: t) (by simpa using h)
      obtain ⟨a1, al, hal⟩ := sigmaRatios_cons_exists l1 lc
      rw [sigmaRatios, hal, geopotentialDiffSparse_cons_cons, ← hal, ih',
        cumLogSigmaIntegral_up_cons_cons]
      cases hT : cumLogSigmaIntegral (l1 :: lc) (t1 :: t) false with
      | nil => simp [smul]; field_simp; ring
      | cons u us => simp [smul]; field_simp; ring

/-- the two vertical matrix-product strategies of the geopotential agree on every level set -/
theorem geopotentialDiff_dense_eq_sparse [NeZero ((1 : K) + 1)] (R : K) (lc t : List K)
    (h : lc.length = t.length) :
    geopotentialDiffDense R (sigmaRatios lc) t = geopotentialDiffSparse R (sigmaRatios lc) t := by
  rw [geopotentialDiffDense_eq_logIntegral R lc t h, geopotentialDiffSparse_eq_logIntegral R lc t h]


/-! ## T13.5 validation of the boundaries -/

section order
variable [LinearOrder K] [IsStrictOrderedRing K]

theorem diffs_all_pos_iff (b : List K) :
    (diffs b).all (fun d => decide (0 < d)) = true ↔ b.Pairwise (· < ·) := by
  rw [← List.isChain_iff_pairwise]
  induction b with
  | nil => simp [diffs]
  | cons p t ih =>
    cases t with
    | nil => simp [diffs]
    | cons q u =>
      simp only [diffs, List.all_cons, Bool.and_eq_true, decide_eq_true_eq, List.isChain_cons_cons,
        sub_pos] at ih ⊢
      rw [ih]

/-- A level set is accepted exactly when its first entry is (numerically) 0, its last entry is
 (numerically) 1 and it is strictly increasing. -/
theorem accepts_iff (c0 c1 : K → Bool) (b : List K) :
    accepts c0 c1 (fun d => decide (0 < d)) b = true ↔
      ∃ f l, b.head? = some f ∧ b.getLast? = some l ∧ c0 f = true ∧ c1 l = true ∧
        b.Pairwise (· < ·) := by
  unfold accepts
  cases hf : b.head? with
  | none => simp
  | some f =>
    cases hl : b.getLast? with
    | none => simp
    | some l =>
      have := diffs_all_pos_iff b
      simp only [List.all_eq_true, decide_eq_true_eq] at this
      simp [and_assoc, this]

/-- on an accepted level set every thickness and every centre-to-centre distance is positive,
 so the side conditions of T13.2 / T13.3 hold -/
theorem thickness_pos_of_increasing (b : List K) (h : b.Pairwise (· < ·)) :
    ∀ d ∈ thickness b, 0 < d := by
  have := (diffs_all_pos_iff b).2 h
  simpa [thickness, List.all_eq_true] using this

theorem centerToCenter_ne_zero_of_increasing (b : List K) (h : b.Pairwise (· < ·)) :
    ∀ c ∈ centerToCenter b, c ≠ 0 := by
  have : NeZero ((1 : K) + 1) := ⟨by positivity⟩
  rw [centerToCenter_eq]
  intro c hc
  rw [List.mem_iff_getElem] at hc
  obtain ⟨i, hi, rfl⟩ := hc
  simp only [List.getElem_zipWith]
  have hpos := thickness_pos_of_increasing b h
  have h1 := hpos _ (List.mem_of_mem_tail (List.getElem_mem (l := (thickness b).tail) (n := i)
    (by simp at hi ⊢; omega)))
  have h2 := hpos _ (List.getElem_mem (l := thickness b) (n := i) (by simp at hi ⊢; omega))
  positivity

/-- T13.2 on every admissible (strictly increasing) level set -/
theorem centeredDifference_affine_of_increasing (b : List K) (a s : K)
    (h : b.Pairwise (· < ·)) :
    centeredDifference b ((centers b).map fun c => a + s * c)
      = (centerToCenter b).map fun _ => s :=
  centeredDifference_affine b a s (centerToCenter_ne_zero_of_increasing b h)

/-- T13.3 on every admissible (strictly increasing) level set, any layer count -/
theorem summation_by_parts_of_increasing (b w x : List K)
    (hx : x.length + 1 = b.length) (hw : w.length + 1 = x.length)
    (h : b.Pairwise (· < ·)) :
    (mulv (thickness b) (centeredAdvection b w x)).sum
      = (mulv x (diffs ((0 : K) :: (w ++ [0])))).sum :=
  have : NeZero ((1 : K) + 1) := ⟨by positivity⟩
  summation_by_parts b w x hx hw (centerToCenter_ne_zero_of_increasing b h)

end order

/-! ## non-vacuity: the hypotheses are met by a concrete uneven 3-layer column over ℚ -/

example : accepts (fun x : ℚ => decide (|x| ≤ 1 / 10 ^ 8)) (fun x => decide (|x - 1| ≤ 1 / 10 ^ 5))
    (fun d => decide (0 < d)) [0, 1 / 10, 1 / 2, 1] = true := by
  norm_num [accepts, diffs]

example : ([0, 1 / 10, 1 / 2, 1] : List ℚ).Pairwise (· < ·) := by norm_num

example : ([1, 2, 3] : List ℚ).length + 1 = ([0, 1 / 10, 1 / 2, 1] : List ℚ).length ∧
    ([5, 7] : List ℚ).length + 1 = ([1, 2, 3] : List ℚ).length := by simp

/-- the old behaviour is really excluded: a level set that goes down is rejected -/
example : accepts (fun x : ℚ => decide (|x| ≤ 1 / 10 ^ 8)) (fun x => decide (|x - 1| ≤ 1 / 10 ^ 5))
    (fun d => decide (0 < d)) [0, 1 / 2, 1 / 4, 1] = false := by
  norm_num [accepts, diffs]

end Dino.C13
