import DinoProofs.Lemmas.Shard
import DinoProofs.Lemmas.ShardPad
import DinoProofs.Lemmas.ShardBasis
import DinoProofs.Lemmas.ShardGarbage
import DinoProofs.Lemmas.ShardBlock
import DinoProofs.Lemmas.ShardArrays
import DinoProofs.Lemmas.ShardEinsum
import DinoProofs.Lemmas.ShardEinsumMat
import DinoProofs.Properties.C15
import Mathlib.Algebra.Order.Floor.Ring

/-!
# C07 — sharded (model-parallel) execution equals single-device execution: property theorems

All statements are about the executable model `Dino.Shard` (tied to `jax_numpy_utils.py` and
`spherical_harmonic.py` by the schedule trace, the correspondence check and the sharded-vs-unsharded
differential of `harness/props/C07.py`).  XLA's SPMD partitioner, `shard_map`, the collectives and
`with_sharding_constraint` are *executed* by that check, not modelled: the theorems cover the logic
of the hand-written collective schedules (including the block decomposition that identifies what each
device ends with as its shard of the *unsharded* product), the subscript / strategy logic of `sharded_einsum`
and the padding / stacking / offset bookkeeping.

Devices are `0 … n-1`; a device-indexed value is a list; products `mm l x` and their sums live in an
arbitrary commutative monoid `M` (matrices of any shape), lists have any length, fields are arbitrary.
-/
namespace Dino.C07
open Dino.Shard Finset

/-! ## T7.1 / T7.2 — the two-way collective matmuls

### the property's own quantifier (axis sizes 1, 2, 4, 6, 8), by evaluating the schedule

The executable schedule is run with symbolic chunk ids (`Dino.Shard.Trace`): the result lists, per
device, every product `(lhs block of device a, chunk c, shard of device s)` it accumulated.  The
check `allgatherOK n` says: every device `a` accumulated exactly the products `(a, c, c)`, `c < n`,
once each (a permutation of that list, so nothing missing, nothing twice, no shard that was never
received); `reducescatterOK n`: device `a` ends with exactly the products `(s, a, s)`, `s < n`. -/

theorem allgather_schedule_1_2_4_6_8 : ∀ n ∈ [1, 2, 4, 6, 8], allgatherOK n = true := by
  decide +kernel

theorem reducescatter_schedule_1_2_4_6_8 : ∀ n ∈ [1, 2, 4, 6, 8], reducescatterOK n = true := by
  decide +kernel

/-- odd axis sizes `> 1` are rejected (`ValueError('axis_size must be 1 or even')`) -/
theorem odd_axis_rejected_3_5_7 :
    ∀ n ∈ [3, 5, 7], allgatherSym n = none ∧ reducescatterSym n = none := by
  decide +kernel

/-! ### every even axis size -/

section general
variable {L X M : Type} [AddCommMonoid M]

/-- **T7.1** for every even axis size `n = 2h ≥ 2` and every device `a`, the accumulated all-gather
 matmul is `Σ_c lhs_a[c] · rhs_c` (chunk `c` of the device's own coefficient block times the input
 shard of device `c`): the unsharded contraction. -/
theorem allgatherMatmul_even (mm : L → X → M) (z : X) (lhs : Nat → Nat → L) (rhs : List X)
    (h : Nat) (hn : rhs.length = 2 * h) (hh : 0 < h) :
    allgatherMatmul mm z lhs rhs
      = some ((List.range (2 * h)).map fun a => ∑ c ∈ range (2 * h), mm (lhs a c) (rhs.getD c z)) :=
  Dino.Shard.allgatherMatmul_even mm z lhs rhs h hn hh

/-- **T7.2** for every even axis size and every device `a`, the reduce-scatter matmul leaves on
 device `a` the `a`-th chunk of the full product: `Σ_s lhs_s[a] · rhs_s`. -/
theorem matmulReducescatter_even (mm : L → X → M) (z : X) (lhs : Nat → Nat → L) (rhs : List X)
    (h : Nat) (hn : rhs.length = 2 * h) (hh : 0 < h) :
    matmulReducescatter mm z lhs rhs
      = some ((List.range (2 * h)).map fun a => ∑ s ∈ range (2 * h), mm (lhs s a) (rhs.getD s z)) :=
  Dino.Shard.matmulReducescatter_even mm z lhs rhs h hn hh

/-- axis size 1: the plain matmul (both functions) -/
theorem collectives_one (mm : L → X → M) (z : X) (lhs : Nat → Nat → L) (x : X) :
    allgatherMatmul mm z lhs [x] = some [mm (lhs 0 0) x]
    ∧ matmulReducescatter (M := M) mm z lhs [x] = some [mm (lhs 0 0) x] := by
  constructor <;> simp [allgatherMatmul, matmulReducescatter, List.range_succ]

/-- odd axis sizes `> 1` are rejected, whatever the data -/
theorem collectives_odd_rejected (mm : L → X → M) (z : X) (lhs : Nat → Nat → L) (rhs : List X)
    (h : Nat) (hn : rhs.length = 2 * h + 3) :
    allgatherMatmul mm z lhs rhs = none ∧ matmulReducescatter (M := M) mm z lhs rhs = none := by
  constructor
  · unfold allgatherMatmul
    simp only [hn]
    rw [if_neg (by omega), if_pos (by omega)]
  · unfold matmulReducescatter
    simp only [hn]
    rw [if_neg (by omega), if_pos (by omega)]

/-- the combinatorial core: the chunk indices `a − k` and `a + k + 1` (`k < n/2`) used by the two
 halves of the schedule enumerate `Z/n` exactly once -/
theorem twoway_indices_cover (f : Nat → M) (h a : Nat) :
    ∑ k ∈ range h, (f (chunkIndex (2 * h) a (-(k : Int))) + f (chunkIndex (2 * h) a ((k : Int) + 1)))
      = ∑ c ∈ range (2 * h), f c := by
  rcases Nat.eq_zero_or_pos h with rfl | hh
  · simp
  rw [← twoway_cover f h a]
  apply Finset.sum_congr rfl
  intro k _
  rw [chunkIndex_neg _ _ _ (by omega), chunkIndex_succ]

end general

/-- non-vacuity: 4 devices, integer "matrices" of size 1 -/
example : allgatherMatmul (fun (l x : Int) => l * x) 0
      (fun a c => ((a + 1) * 10 + c : Nat)) [1, 2, 3, 4]
    = some [10 * 1 + 11 * 2 + 12 * 3 + 13 * 4, 20 * 1 + 21 * 2 + 22 * 3 + 23 * 4,
            30 * 1 + 31 * 2 + 32 * 3 + 33 * 4, 40 * 1 + 41 * 2 + 42 * 3 + 43 * 4] := by
  decide +kernel

example : matmulReducescatter (fun (l x : Int) => l * x) 0
      (fun s c => ((s + 1) * 10 + c : Nat)) [1, 2, 3, 4]
    = some [10 * 1 + 20 * 2 + 30 * 3 + 40 * 4, 11 * 1 + 21 * 2 + 31 * 3 + 41 * 4,
            12 * 1 + 22 * 2 + 32 * 3 + 42 * 4, 13 * 1 + 23 * 2 + 33 * 3 + 43 * 4] := by
  decide +kernel

/-! ### the full contraction: every device ends with its shard of the UNSHARDED product

`allgatherMatmul_even` / `matmulReducescatter_even` end at symbolic sums of chunk products.  Here the operands
are the blocks of two unsharded matrices of the list model: `A` (coefficients, `(n·r) × (n·k)`) and `B`
(inputs, `(n·k) × w`).  `lax.dynamic_slice_in_dim` is `rowChunk` / `colChunk`, the `shard_map` in-spec along
the leading axis of `rhs` is `splitEvery k B`, the chunk product is `Lin.matMul`, read entrywise (`ent2`: sums
of products then live in the commutative monoid `ℕ → ℕ → K`; entries outside a matrix read as `0`). -/

section full
open Dino.Lin
variable {K : Type} [CommRing K]

/-- the chunk product `matmul(lhs_chunk, rhs)` of the list model, read entrywise -/
def mmEnt (w : Nat) (l x : List (List K)) : Nat → Nat → K := ent2 (matMul l x w)

/-- **block decomposition, contraction axis split into `n` chunks** (all-gather form):
 `Σ_c (columns chunk c of A) · (rows chunk c of B) = A · B` -/
theorem block_decomposition_contraction (A B : List (List K)) (n k w : Nat) (hB : B.length ≤ n * k)
    (hw : ∀ r ∈ B, r.length = w) :
    ∑ c ∈ range n, mmEnt w (colChunk A c k) (rowChunk B c k) = mmEnt w A B :=
  Dino.Shard.block_contraction A B n k w hB hw

/-- **block decomposition, output rows** (reduce-scatter form): rows chunk `a` of `A · B` is
 (rows chunk `a` of `A`) · `B` -/
theorem block_decomposition_rows (A B : List (List K)) (a r w : Nat) :
    rowChunk (matMul A B w) a r = matMul (rowChunk A a r) B w :=
  (matMul_rowChunk A B a r w).symm

/-- **T7.1, full form.** `sharded_einsum` with `gather_inputs`: device `a` holds rows chunk `a` of the
 coefficients (`lhs_spec` taken from `out_spec`) with the whole contraction axis, and rows chunk `a` of the
 inputs.  For every axis size `n` that is `1` or even, every chunk sizes `k ≥ 1`, `r`, every width `w`:
 device `a` ends with exactly rows chunk `a` of the unsharded product `A · B`. -/
theorem allgatherMatmul_unsharded (A B : List (List K)) (n k r w : Nat)
    (hn : n = 1 ∨ (n % 2 = 0 ∧ 0 < n)) (hk : 0 < k) (hB : B.length = n * k)
    (hw : ∀ row ∈ B, row.length = w) :
    allgatherMatmul (mmEnt w) [] (fun a c => colChunk (rowChunk A a r) c k) (splitEvery k B)
      = some ((List.range n).map fun a => ent2 (rowChunk (matMul A B w) a r)) := by
  rw [allgatherMatmul_sum _ _ _ _ n (length_splitEvery B n k hk hB) hn]
  congr 1
  apply List.map_congr_left
  intro a _
  rw [block_decomposition_rows, ← block_contraction (rowChunk A a r) B n k w (by omega) hw]
  apply Finset.sum_congr rfl
  intro c hc
  rw [getD_splitEvery B n k c hk hB (Finset.mem_range.1 hc)]
  rfl

/-- **T7.2, full form.** `sharded_einsum` without `gather_inputs`: device `s` holds columns chunk `s` of the
 coefficients (`lhs_spec` taken from `rhs_spec`) with all output rows, and rows chunk `s` of the inputs; the
 output rows are scattered.  Device `a` ends with exactly rows chunk `a` of the unsharded product `A · B`. -/
theorem matmulReducescatter_unsharded (A B : List (List K)) (n k r w : Nat)
    (hn : n = 1 ∨ (n % 2 = 0 ∧ 0 < n)) (hk : 0 < k) (hB : B.length = n * k)
    (hw : ∀ row ∈ B, row.length = w) :
    matmulReducescatter (mmEnt w) [] (fun s a => rowChunk (colChunk A s k) a r) (splitEvery k B)
      = some ((List.range n).map fun a => ent2 (rowChunk (matMul A B w) a r)) := by
  rw [matmulReducescatter_sum _ _ _ _ n (length_splitEvery B n k hk hB) hn]
  congr 1
  apply List.map_congr_left
  intro a _
  rw [block_decomposition_rows, ← block_contraction (rowChunk A a r) B n k w (by omega) hw]
  apply Finset.sum_congr rfl
  intro c hc
  rw [getD_splitEvery B n k c hk hB (Finset.mem_range.1 hc), rowChunk_colChunk]
  rfl

/-- **batch letters.**  The einsums of the transforms carry batch letters (`z`, `s`, and `m` in the Legendre
 steps) that index independent matrix problems: with any batch index type `ι`, coefficients `A b` and inputs `B b`
 per batch index (the coefficients may or may not depend on it), both collectives leave on device `a`, for every
 batch index `b`, rows chunk `a` of the unsharded product `A b · B b`. -/
theorem collectives_unsharded_batched {ι : Type} (A B : ι → List (List K)) (n k r w : Nat)
    (hn : n = 1 ∨ (n % 2 = 0 ∧ 0 < n)) (hB : ∀ b, (B b).length ≤ n * k)
    (hw : ∀ b, ∀ row ∈ B b, row.length = w) :
    allgatherMatmul (fun (l x : ι → List (List K)) b => mmEnt w (l b) (x b)) (fun _ => [])
        (fun a c b => colChunk (rowChunk (A b) a r) c k)
        ((List.range n).map fun s b => rowChunk (B b) s k)
      = some ((List.range n).map fun a b => ent2 (rowChunk (matMul (A b) (B b) w) a r))
    ∧ matmulReducescatter (fun (l x : ι → List (List K)) b => mmEnt w (l b) (x b)) (fun _ => [])
        (fun s a b => rowChunk (colChunk (A b) s k) a r)
        ((List.range n).map fun s b => rowChunk (B b) s k)
      = some ((List.range n).map fun a b => ent2 (rowChunk (matMul (A b) (B b) w) a r)) := by
  constructor
  · rw [allgatherMatmul_sum _ _ _ _ n (by simp) hn]
    congr 1
    apply List.map_congr_left
    intro a _
    funext b
    rw [block_decomposition_rows, ← block_contraction (rowChunk (A b) a r) (B b) n k w (hB b) (hw b),
      Finset.sum_apply]
    apply Finset.sum_congr rfl
    intro c hc
    rw [getD_map_range n _ _ c (Finset.mem_range.1 hc)]
    rfl
  · rw [matmulReducescatter_sum _ _ _ _ n (by simp) hn]
    congr 1
    apply List.map_congr_left
    intro a _
    funext b
    rw [block_decomposition_rows, ← block_contraction (rowChunk (A b) a r) (B b) n k w (hB b) (hw b),
      Finset.sum_apply]
    apply Finset.sum_congr rfl
    intro c hc
    rw [getD_map_range n _ _ c (Finset.mem_range.1 hc)]
    show mmEnt w (rowChunk (colChunk (A b) c k) a r) (rowChunk (B b) c k) = _
    rw [rowChunk_colChunk]
    rfl

/-- the per-device results are the `shard_map` out-spec pieces of the unsharded product and reassemble to it -/
theorem out_shards_reassemble (A B : List (List K)) (n r w : Nat) (hr : 0 < r) (hA : A.length = n * r) :
    (splitEvery r (matMul A B w)).flatten = matMul A B w
    ∧ ∀ a < n, (splitEvery r (matMul A B w)).getD a [] = rowChunk (matMul A B w) a r := by
  have hl : (matMul A B w).length = n * r := by simp [matMul, hA]
  exact ⟨splitEvery_flatten r hr n _ hl, fun a ha => getD_splitEvery _ n r a hr hl ha⟩

/-! ### the same conclusions as ARRAYS (shapes included)

The four theorems above are *entrywise*: both sides are entry functions `ℕ → ℕ → K` (default `0`), and the shape of
`A` is unconstrained.  With `A : (n·r) × _` and `B : (n·k) × w` every chunk product the collectives form and every
output shard is a list of exactly `r` rows of width `w` (`collective_operand_shapes`), so the schedules can be run
with the accumulator `ShapedMat K r w` — arrays of that shape with the rowwise `zipWith (· + ·)` of the executable
model (`accum += …`) — and the conclusions become equalities of lists of rows. -/

/-- shapes of both sides: for `A` of `n·r` rows and `B` of rows of width `w`, the output shard of device `a < n`
 and every chunk product of both collectives are `r × w` arrays -/
theorem collective_operand_shapes (A B : List (List K)) (n k r w a c : Nat) (hA : A.length = n * r)
    (hw : ∀ row ∈ B, row.length = w) (ha : a < n) :
    ((rowChunk (matMul A B w) a r).length = r ∧ ∀ row ∈ rowChunk (matMul A B w) a r, row.length = w)
    ∧ ((matMul (colChunk (rowChunk A a r) c k) (rowChunk B c k) w).length = r
        ∧ ∀ row ∈ matMul (colChunk (rowChunk A a r) c k) (rowChunk B c k) w, row.length = w)
    ∧ ((matMul (rowChunk (colChunk A c k) a r) (rowChunk B c k) w).length = r
        ∧ ∀ row ∈ matMul (rowChunk (colChunk A c k) a r) (rowChunk B c k) w, row.length = w) := by
  have hB' : ∀ row ∈ rowChunk B c k, row.length = w := rowChunk_rows B c k w hw
  have hlen : (colChunk (rowChunk A a r) c k).length = r := by
    rw [colChunk_length, rowChunk_length_eq A n r a hA ha]
  refine ⟨⟨rowChunk_length_eq _ n r a (by rw [matMul_length, hA]) ha,
      rowChunk_rows _ a r w (matMul_rows A B w hw)⟩,
    ⟨by rw [matMul_length, hlen], matMul_rows _ _ w hB'⟩,
    ⟨by rw [rowChunk_colChunk, matMul_length, hlen], matMul_rows _ _ w hB'⟩⟩

/-- the entry functions of the entrywise theorems vanish outside the `r × w` shape of the shard -/
theorem unsharded_shard_entries_outside (A B : List (List K)) (n r w a : Nat) (hA : A.length = n * r)
    (hw : ∀ row ∈ B, row.length = w) (ha : a < n) (i j : Nat) (h : r ≤ i ∨ w ≤ j) :
    ent2 (rowChunk (matMul A B w) a r) i j = 0 := by
  obtain ⟨⟨h1, h2⟩, _⟩ := collective_operand_shapes A B n 0 r w a 0 hA hw ha
  exact ent2_outside _ r w h1 h2 i j h

/-- **T7.1 as arrays.**  With the accumulator `ShapedMat K r w` (lists of `r` rows of width `w`, rowwise
 `zipWith (· + ·)`), device `a` of the all-gather matmul ends with the LIST OF ROWS `rowChunk (A·B) a r`. -/
theorem allgatherMatmul_unsharded_arrays (A B : List (List K)) (n k r w : Nat)
    (hn : n = 1 ∨ (n % 2 = 0 ∧ 0 < n)) (hk : 0 < k) (hA : A.length = n * r) (hB : B.length = n * k)
    (hw : ∀ row ∈ B, row.length = w) :
    (allgatherMatmul (mmShaped r w) [] (fun a c => colChunk (rowChunk A a r) c k) (splitEvery k B)).map
        (fun devs => devs.map ShapedMat.val)
      = some ((List.range n).map fun a => rowChunk (matMul A B w) a r) := by
  rw [allgatherMatmul_sum _ _ _ _ n (length_splitEvery B n k hk hB) hn]
  simp only [Option.map_some, List.map_map]
  congr 1
  apply List.map_congr_left
  intro a ha
  rw [List.mem_range] at ha
  simp only [Function.comp]
  obtain ⟨⟨h1, h2⟩, _⟩ := collective_operand_shapes A B n k r w a 0 hA hw ha
  apply mat_ext_of_ent2 _ _ r w (ShapedMat.length_val _) h1 (ShapedMat.rows_val _) h2
  rw [ShapedMat.ent2_sum, block_decomposition_rows, ← block_contraction (rowChunk A a r) B n k w (by omega) hw]
  apply Finset.sum_congr rfl
  intro c hc
  rw [getD_splitEvery B n k c hk hB (Finset.mem_range.1 hc),
    mmShaped_val r w _ _ (by rw [colChunk_length, rowChunk_length_eq A n r a hA ha]) (rowChunk_rows B c k w hw)]

/-- **T7.2 as arrays.**  Device `a` of the reduce-scatter matmul ends with the list of rows `rowChunk (A·B) a r`. -/
theorem matmulReducescatter_unsharded_arrays (A B : List (List K)) (n k r w : Nat)
    (hn : n = 1 ∨ (n % 2 = 0 ∧ 0 < n)) (hk : 0 < k) (hA : A.length = n * r) (hB : B.length = n * k)
    (hw : ∀ row ∈ B, row.length = w) :
    (matmulReducescatter (mmShaped r w) [] (fun s a => rowChunk (colChunk A s k) a r) (splitEvery k B)).map
        (fun devs => devs.map ShapedMat.val)
      = some ((List.range n).map fun a => rowChunk (matMul A B w) a r) := by
  rw [matmulReducescatter_sum _ _ _ _ n (length_splitEvery B n k hk hB) hn]
  simp only [Option.map_some, List.map_map]
  congr 1
  apply List.map_congr_left
  intro a ha
  rw [List.mem_range] at ha
  simp only [Function.comp]
  obtain ⟨⟨h1, h2⟩, _⟩ := collective_operand_shapes A B n k r w a 0 hA hw ha
  apply mat_ext_of_ent2 _ _ r w (ShapedMat.length_val _) h1 (ShapedMat.rows_val _) h2
  rw [ShapedMat.ent2_sum, block_decomposition_rows, ← block_contraction (rowChunk A a r) B n k w (by omega) hw]
  apply Finset.sum_congr rfl
  intro c hc
  rw [getD_splitEvery B n k c hk hB (Finset.mem_range.1 hc),
    mmShaped_val r w _ _ (by rw [rowChunk_colChunk, colChunk_length, rowChunk_length_eq A n r a hA ha])
      (rowChunk_rows B c k w hw), rowChunk_colChunk]

/-- **reassembly as arrays.**  Concatenating the per-device results (the `shard_map` out-spec along the leading
 axis) of either collective gives the unsharded product `A · B` itself, as a list of rows. -/
theorem collectives_arrays_reassemble (A B : List (List K)) (n k r w : Nat)
    (hn : n = 1 ∨ (n % 2 = 0 ∧ 0 < n)) (hk : 0 < k) (hr : 0 < r) (hA : A.length = n * r) (hB : B.length = n * k)
    (hw : ∀ row ∈ B, row.length = w) :
    (allgatherMatmul (mmShaped r w) [] (fun a c => colChunk (rowChunk A a r) c k) (splitEvery k B)).map
        (fun devs => (devs.map ShapedMat.val).flatten) = some (matMul A B w)
    ∧ (matmulReducescatter (mmShaped r w) [] (fun s a => rowChunk (colChunk A s k) a r) (splitEvery k B)).map
        (fun devs => (devs.map ShapedMat.val).flatten) = some (matMul A B w) := by
  have hl : (matMul A B w).length = n * r := by rw [matMul_length, hA]
  have hfl : ((List.range n).map fun a => rowChunk (matMul A B w) a r).flatten = matMul A B w := by
    rw [map_rowChunk_eq_splitEvery _ n r hr hl, splitEvery_flatten r hr n _ hl]
  have h1 := allgatherMatmul_unsharded_arrays A B n k r w hn hk hA hB hw
  have h2 := matmulReducescatter_unsharded_arrays A B n k r w hn hk hA hB hw
  constructor
  · cases hag : allgatherMatmul (mmShaped r w) [] (fun a c => colChunk (rowChunk A a r) c k) (splitEvery k B) with
    | none => rw [hag] at h1; cases h1
    | some devs =>
      rw [hag] at h1
      simp only [Option.map_some, Option.some.injEq] at h1 ⊢
      rw [h1, hfl]
  · cases hrs : matmulReducescatter (mmShaped r w) [] (fun s a => rowChunk (colChunk A s k) a r) (splitEvery k B) with
    | none => rw [hrs] at h2; cases h2
    | some devs =>
      rw [hrs] at h2
      simp only [Option.map_some, Option.some.injEq] at h2 ⊢
      rw [h2, hfl]

/-- non-vacuity: 2 devices, `A` 2×4, `B` 4×2 (`k = 2`, `r = 1`); the hypotheses hold and the entries of the
 result are those of the unsharded product -/
def aEx : List (List ℤ) := [[1, 2, 3, 4], [5, 6, 7, 8]]
def bEx' : List (List ℤ) := [[1, 0], [0, 1], [2, 1], [1, 3]]

example : allgatherMatmul (mmEnt 2) [] (fun a c => colChunk (rowChunk aEx a 1) c 2) (splitEvery 2 bEx')
    = some ((List.range 2).map fun a => ent2 (rowChunk (matMul aEx bEx' 2) a 1)) :=
  allgatherMatmul_unsharded aEx bEx' 2 2 1 2 (Or.inr ⟨rfl, by omega⟩) (by omega) rfl (by decide)

example : matmulReducescatter (mmEnt 2) [] (fun s a => rowChunk (colChunk aEx s 2) a 1) (splitEvery 2 bEx')
    = some ((List.range 2).map fun a => ent2 (rowChunk (matMul aEx bEx' 2) a 1)) :=
  matmulReducescatter_unsharded aEx bEx' 2 2 1 2 (Or.inr ⟨rfl, by omega⟩) (by omega) rfl (by decide)

example : matMul aEx bEx' 2 = [[11, 17], [27, 37]] ∧ rowChunk (matMul aEx bEx' 2) 1 1 = [[27, 37]]
    ∧ colChunk (rowChunk aEx 1 1) 1 2 = [[7, 8]] ∧ splitEvery 2 bEx' = [[[1, 0], [0, 1]], [[2, 1], [1, 3]]] := by
  decide +kernel

/-- non-vacuity of the array forms on the same operands: the per-device lists of rows, and their concatenation -/
example : (allgatherMatmul (mmShaped 1 2) [] (fun a c => colChunk (rowChunk aEx a 1) c 2) (splitEvery 2 bEx')).map
      (fun devs => devs.map ShapedMat.val) = some [[[11, 17]], [[27, 37]]] := by
  rw [allgatherMatmul_unsharded_arrays aEx bEx' 2 2 1 2 (Or.inr ⟨rfl, by omega⟩) (by omega) rfl rfl (by decide)]
  decide +kernel

example : (matmulReducescatter (mmShaped 1 2) [] (fun s a => rowChunk (colChunk aEx s 2) a 1) (splitEvery 2 bEx')).map
      (fun devs => (devs.map ShapedMat.val).flatten) = some (matMul aEx bEx' 2) :=
  (collectives_arrays_reassemble aEx bEx' 2 2 1 2 (Or.inr ⟨rfl, by omega⟩) (by omega) (by omega) rfl rfl
    (by decide)).2

end full

/-! ## the subscript and strategy logic of `sharded_einsum`

`Dino.ShardEinsum` mirrors `_parse_einsum_subscripts`, `_determine_reduce_subscript`,
`_determine_transfer_subscript`, the subscripts built by `_reversed_arg_order_einsum` and the choice between
the two collectives with its `lhs_spec` / `split_axis` / `scatter_axis` / `axis_name` (compared with the real
functions on every pattern the transforms use and on a malformed stream by `harness/props/c07_einsum.py`).
Subscripts are ASCII (`\w` of the regular expression restricted to letters, digits, `_`). -/

section einsum
open Dino.ShardEinsum

/-- `_parse_einsum_subscripts` accepts exactly the strings `lhs,rhs->out` made of three non-empty words and
 returns the three words -/
theorem parseSubscripts_spec (s l r o : List Char) :
    parseSubscripts s = .ok (l, r, o)
      ↔ s = joinSubscripts l r o ∧ Word l ∧ Word r ∧ Word o ∧ l ≠ [] ∧ r ≠ [] ∧ o ≠ [] :=
  ⟨parseSubscripts_ok s l r o, fun ⟨hs, hl, hr, ho, hl0, hr0, ho0⟩ => by
    rw [hs]; exact parseSubscripts_join l r o hl hr ho hl0 hr0 ho0⟩

/-- on subscripts accepted by `sharded_einsum`, `_reversed_arg_order_einsum` calls `jnp.einsum` with the
 subscripts `rhs,lhs->out` (and the operands swapped), which parse back to the swapped triple -/
theorem reversedSubscripts_spec (s l r o : List Char) (h : parseSubscripts s = .ok (l, r, o)) :
    reversedSubscripts s = .ok (joinSubscripts r l o)
      ∧ parseSubscripts (joinSubscripts r l o) = .ok (r, l, o) := by
  obtain ⟨hs, hl, hr, ho, hl0, hr0, ho0⟩ := parseSubscripts_ok s l r o h
  rw [hs]
  exact ⟨reversedSubscripts_join l r o hl hr ho, parseSubscripts_join r l o hr hl ho hr0 hl0 ho0⟩

/-- the reversed-argument-order form denotes the same contraction: for every extents `dims`, operands `A`, `B`
 (as functions of their index lists) over a commutative semiring and every output index `env`,
 `einsum('l,r->o', A, B) = einsum('r,l->o', B, A)` (commutativity of the summand, same contracted letters) -/
theorem reversedArgOrder_same_contraction {K : Type} [CommSemiring K] (dims : Char → Nat)
    (l r o : List Char) (A B : List Nat → K) (env : Char → Nat) :
    einsum2 dims l r o A B env = einsum2 dims r l o B A env := by
  unfold einsum2
  rw [summedLetters_swap, einsumAt_swap]

/-- the reduce subscript chosen by `_determine_reduce_subscript` is a *contracted* letter (in both operands,
 not in the output — hence among the summed letters of the denotation when ASCII) whose `rhs` axis is
 *sharded* (`rhs_spec` entry not `None`); it occurs once in `lhs` and is the only such letter of `lhs` -/
theorem determineReduce_spec (l r o : List Char) (spec : List (Option String)) (c : Char)
    (h : determineReduce l r o spec = .ok c) :
    c ∈ l ∧ c ∈ r ∧ c ∉ o ∧ (∃ name, spec[r.idxOf c]? = some (some name)) ∧ l.count c = 1
      ∧ (c.toNat < 128 → c ∈ summedLetters l r o)
      ∧ ∀ c' ∈ l, c' ∈ r → c' ∉ o → (∃ name, spec[r.idxOf c']? = some (some name)) → c' = c := by
  obtain ⟨h1, h2, h3, h4⟩ := select_ok (keepReduce r o spec) l c h
  obtain ⟨ho, hr, hn⟩ := (keepReduce_true r o spec c).1 h2
  refine ⟨h1, hr, ho, hn, h3, fun hc => (mem_summedLetters l r o c hc).2 ⟨Or.inl h1, ho⟩, ?_⟩
  intro c' hc' hr' ho' hn'
  exact h4 c' hc' ((keepReduce_true r o spec c').2 ⟨ho', hr', hn'⟩)

/-- the transfer subscript chosen by `_determine_transfer_subscript` is an output letter coming from `lhs`
 only, whose output axis is *sharded* (`out_spec` entry not `None`); it is the only such letter of `lhs` -/
theorem determineTransfer_spec (l r o : List Char) (spec : List (Option String)) (c : Char)
    (h : determineTransfer l r o spec = .ok c) :
    c ∈ l ∧ c ∉ r ∧ c ∈ o ∧ (∃ name, spec[o.idxOf c]? = some (some name)) ∧ l.count c = 1
      ∧ ∀ c' ∈ l, c' ∉ r → c' ∈ o → (∃ name, spec[o.idxOf c']? = some (some name)) → c' = c := by
  obtain ⟨h1, h2, h3, h4⟩ := select_ok (keepTransfer r o spec) l c h
  obtain ⟨hr, ho, hn⟩ := (keepTransfer_true r o spec c).1 h2
  refine ⟨h1, hr, ho, hn, h3, ?_⟩
  intro c' hc' hr' ho' hn'
  exact h4 c' hc' ((keepTransfer_true r o spec c').2 ⟨hr', ho', hn'⟩)

/-- what `sharded_einsum` decides on a mesh: the reduce / transfer letters are the ones above; the mesh axis of
 the collective is the one sharding the reduce letter in `rhs`; an explicit `gather_inputs` is obeyed, the
 default compares the data volumes; the all-gather matmul splits `lhs` along the *reduce* letter, the
 reduce-scatter matmul scatters along the *transfer* letter; `lhs_spec` copies `out_spec` resp. `rhs_spec` -/
theorem plan_spec (s : List Char) (lsh rsh : List Nat) (g : Option Bool) (rspec ospec : List (Option String))
    (p : Plan) (h : plan s lsh rsh g rspec ospec = .ok p) :
    ∃ l r o, parseSubscripts s = .ok (l, r, o)
      ∧ determineReduce l r o rspec = .ok p.reduce
      ∧ determineTransfer l r o ospec = .ok p.transfer
      ∧ rspec[r.idxOf p.reduce]? = some p.axisName
      ∧ (∀ b, g = some b → p.gather = b)
      ∧ (g = none → p.gather = decide (prodL (outShape l r o lsh rsh) > prodL rsh))
      ∧ p.axis = l.idxOf (if p.gather then p.reduce else p.transfer)
      ∧ lhsPartitions l (if p.gather then o else r) (if p.gather then ospec else rspec) = .ok p.lhsSpec := by
  unfold plan at h
  cases hp : parseSubscripts s with
  | error e => rw [hp] at h; cases h
  | ok t =>
    obtain ⟨l, r, o⟩ := t
    rw [hp] at h
    simp only [bind, Except.bind] at h
    cases hred : determineReduce l r o rspec with
    | error e => rw [hred] at h; cases h
    | ok red =>
      rw [hred] at h
      simp only at h
      cases htr : determineTransfer l r o ospec with
      | error e => rw [htr] at h; cases h
      | ok tr =>
        rw [htr] at h
        simp only at h
        cases hname : specAt rspec (r.idxOf red) with
        | error e => rw [hname] at h; cases h
        | ok name =>
          rw [hname] at h
          simp only at h
          refine ⟨l, r, o, rfl, ?_⟩
          generalize hgc : chooseGather g (prodL (outShape l r o lsh rsh)) (prodL rsh) = gc at h
          have hg1 : ∀ b, g = some b → gc = b := by
            intro b hb; subst hb; simpa [chooseGather] using hgc.symm
          have hg2 : g = none → gc = decide (prodL (outShape l r o lsh rsh) > prodL rsh) := by
            intro hb; subst hb; simpa [chooseGather] using hgc.symm
          cases gc with
          | true =>
            simp only [if_true] at h
            cases hparts : lhsPartitions l o ospec with
            | error e => rw [hparts] at h; cases h
            | ok parts =>
              rw [hparts] at h
              simp only [pure, Except.pure, Except.ok.injEq] at h
              subst h
              exact ⟨hred, htr, (specAt_ok _ _ _).1 hname, hg1, hg2, by simp, by simpa using hparts⟩
          | false =>
            simp only [Bool.false_eq_true, if_false] at h
            cases hparts : lhsPartitions l r rspec with
            | error e => rw [hparts] at h; cases h
            | ok parts =>
              rw [hparts] at h
              simp only [pure, Except.pure, Except.ok.injEq] at h
              subst h
              exact ⟨hred, htr, (specAt_ok _ _ _).1 hname, hg1, hg2, by simp, by simpa using hparts⟩

/-- non-vacuity on the patterns of the transforms (`_transform_einsum`, one leading `z` dimension): inverse
 Legendre (reduce `l` over `y`), stacked inverse Fourier (reduce `m` over `x`, the unsharded `s` is skipped),
 forward Fourier (reduce `i`), forward Legendre (reduce `j`); explicit and default strategy -/
example :
    plan "mjl,zsml->zsmj".toList [8, 16, 8] [2, 2, 8, 8] (some true)
        [some "z", none, some "x", some "y"] [some "z", none, some "x", some "y"]
      = .ok { gather := true, lhsSpec := [some "x", some "y", none], axis := 2, axisName := some "y",
              reduce := 'l', transfer := 'j' }
    ∧ plan "ism,zsmj->zij".toList [16, 2, 8] [2, 2, 8, 16] (some false)
        [some "z", none, some "x", some "y"] [some "z", some "x", some "y"]
      = .ok { gather := false, lhsSpec := [none, none, some "x"], axis := 0, axisName := some "x",
              reduce := 'm', transfer := 'i' }
    ∧ plan "im,zij->zmj".toList [16, 16] [2, 16, 16] none
        [some "z", some "x", some "y"] [some "z", some "x", some "y"]
      = .ok { gather := false, lhsSpec := [some "x", none], axis := 1, axisName := some "x",
              reduce := 'i', transfer := 'm' }
    ∧ plan "mjl,zsmj->zsml".toList [8, 16, 8] [2, 2, 8, 16] none
        [some "z", none, some "x", some "y"] [some "z", none, some "x", some "y"]
      = .ok { gather := false, lhsSpec := [some "x", some "y", none], axis := 2, axisName := some "y",
              reduce := 'j', transfer := 'l' } := by
  decide +kernel

/-- malformed input is rejected as by the code: ellipsis, missing output, several sharded reduced axes, a spec
 shorter than the subscripts -/
example :
    parseSubscripts "mjl,...sml->...smj".toList = valueError
    ∧ parseSubscripts "ab,bc".toList = valueError
    ∧ reversedSubscripts "ab,bc".toList = valueError
    ∧ determineReduce "abd".toList "bdc".toList "ac".toList [some "x", some "y", none] = valueError
    ∧ determineReduce "ab".toList "cb".toList "ac".toList [some "x"] = indexError
    ∧ reversedSubscripts "ab,bc->ac".toList = .ok "bc,ab->ac".toList := by
  decide +kernel

end einsum

/-! ## from the plan to the collectives: `sharded_einsum` on the matrix pattern (PARTIAL)

`plan_spec` characterises the *decisions* of `sharded_einsum`, the `…_unsharded` theorems *assume* the block layout
`colChunk (rowChunk A a r) c k` / `rowChunk (colChunk A s k) a r` / `splitEvery k B`.  `Dino.ShardEinsum.shardedEinsumMat`
(`Dino/ShardEinsumMat.lean`, driver op `shard F semat`, compared with the real `sharded_einsum` by the harness) mirrors
what lies between them for two 2-D operands on a one-axis mesh: the `shard_map` blocks cut by `lhs_spec` / `rhs_spec`
and the `dynamic_slice_in_dim` chunks of size `block.shape[axis] // axis_size` along `split_axis` / `scatter_axis`. -/

section composed
open Dino.ShardEinsum Dino.Lin
variable {K : Type} [CommRing K]

/-- **`sharded_einsum = einsum` in the model — PARTIAL: the matrix pattern only.**

 FULL STATEMENT (NOT proved; covered by the schedule trace and the sharded-vs-unsharded differential of the harness):
 for every subscripts string, operand shapes of any rank (batch letters), `gather_inputs`, `rhs_spec`, `out_spec`
 accepted by `plan` on a mesh whose reduce axis has size 1 or even, the per-device results of the collective selected
 by the plan, run on the `shard_map` blocks of `lhs` (cut by `p.lhsSpec`) and `rhs` (cut by `rhs_spec`) with the chunks
 `dynamic_slice_in_dim(block, c · size, size, p.axis)`, are the `out_spec` blocks of `einsum2 dims l r o lhs rhs`.

 PROVED HERE: two 2-D operands, subscripts `"ik,kj->ij"` for any three distinct ASCII word letters, one mesh axis
 `name` of size `n` (`1` or even), `rhs_spec = out_spec = P(name, None)`, `A : (n·r) × (n·kk)`, `B : (n·kk) × w`,
 every `gather_inputs` (explicit or by data volume).  Then `plan` succeeds, the chunking it induces IS the
 `rowChunk` / `colChunk` / `splitEvery` chunking of `allgatherMatmul_unsharded` / `matmulReducescatter_unsharded`, device
 `a` ends with rows chunk `a` of `A · B` (entrywise, and as an `r × w` array), and `A · B` is `einsum2` of the pattern. -/
theorem shardedEinsum_matrix_partial (i k j : Char) (hi : isWord i = true) (hk : isWord k = true)
    (hj : isWord j = true) (hik : i ≠ k) (hkj : k ≠ j) (hij : i ≠ j) (name : String) (g : Option Bool)
    (A B : List (List K)) (n kk r w : Nat) (hn : n = 1 ∨ (n % 2 = 0 ∧ 0 < n)) (hkk : 0 < kk)
    (hA : A.length = n * r) (hB : B.length = n * kk) (hw : ∀ row ∈ B, row.length = w) :
    ∃ p, plan (joinSubscripts [i, k] [k, j] [i, j]) [n * r, n * kk] [n * kk, w] g [some name, none] [some name, none]
          = .ok p
      ∧ shardedEinsumMat (mmEnt w) p n (n * r, n * kk) (n * kk) A B
          = some ((List.range n).map fun a => ent2 (rowChunk (matMul A B w) a r))
      ∧ (shardedEinsumMat (mmShaped r w) p n (n * r, n * kk) (n * kk) A B).map (fun devs => devs.map ShapedMat.val)
          = some ((List.range n).map fun a => rowChunk (matMul A B w) a r)
      ∧ ∀ (dims : Char → Nat), B.length ≤ dims k → ∀ env,
          einsum2 dims [i, k] [k, j] [i, j] (matOperand A) (matOperand B) env
            = ent2 (matMul A B w) (env i) (env j) := by
  have hn0 : 0 < n := by rcases hn with rfl | ⟨_, h⟩ <;> omega
  refine ⟨_, plan_matrix i k j hi hk hj hik hkj hij name _ _ g, ?_, ?_,
    fun dims hd env => einsum2_matrix i k j (isWord_ascii k hk) hik hkj dims A B w hw hd env⟩
  · unfold shardedEinsumMat matrixPlan
    cases chooseGather g (prodL (outShape [i, k] [k, j] [i, j] [n * r, n * kk] [n * kk, w])) (prodL [n * kk, w])
    · simp only [Bool.false_eq_true, if_false, Nat.mul_div_cancel_left kk hn0]
      rw [show (fun d c => sliceAxis 0 (shardBlock [none, some name] name n (n * r, n * kk) A d) c
            (shapeAt (blockShape [none, some name] name n (n * r, n * kk)) 0 / n))
          = fun s a => rowChunk (colChunk A s kk) a r from by
        funext s a; exact chunks_scatter name n kk r hn0 A s a]
      exact matmulReducescatter_unsharded A B n kk r w hn hkk hB hw
    · simp only [if_true, Nat.mul_div_cancel_left kk hn0]
      rw [show (fun d c => sliceAxis 1 (shardBlock [some name, none] name n (n * r, n * kk) A d) c
            (shapeAt (blockShape [some name, none] name n (n * r, n * kk)) 1 / n))
          = fun a c => colChunk (rowChunk A a r) c kk from by
        funext a c; exact chunks_gather name n kk r hn0 A a c]
      exact allgatherMatmul_unsharded A B n kk r w hn hkk hB hw
  · unfold shardedEinsumMat matrixPlan
    cases chooseGather g (prodL (outShape [i, k] [k, j] [i, j] [n * r, n * kk] [n * kk, w])) (prodL [n * kk, w])
    · simp only [Bool.false_eq_true, if_false, Nat.mul_div_cancel_left kk hn0]
      rw [show (fun d c => sliceAxis 0 (shardBlock [none, some name] name n (n * r, n * kk) A d) c
            (shapeAt (blockShape [none, some name] name n (n * r, n * kk)) 0 / n))
          = fun s a => rowChunk (colChunk A s kk) a r from by
        funext s a; exact chunks_scatter name n kk r hn0 A s a]
      exact matmulReducescatter_unsharded_arrays A B n kk r w hn hkk hA hB hw
    · simp only [if_true, Nat.mul_div_cancel_left kk hn0]
      rw [show (fun d c => sliceAxis 1 (shardBlock [some name, none] name n (n * r, n * kk) A d) c
            (shapeAt (blockShape [some name, none] name n (n * r, n * kk)) 1 / n))
          = fun a c => colChunk (rowChunk A a r) c kk from by
        funext a c; exact chunks_gather name n kk r hn0 A a c]
      exact allgatherMatmul_unsharded_arrays A B n kk r w hn hkk hA hB hw

/-- non-vacuity: `sharded_einsum('ik,kj->ij', aEx, bEx', rhs_spec=P('x', None), out_spec=P('x', None))` on 2 devices,
 default strategy (the volumes 2·2 vs 4·2 select reduce-scatter) and forced gather; the per-device arrays -/
example : plan "ik,kj->ij".toList [2, 4] [4, 2] none [some "x", none] [some "x", none]
      = .ok (matrixPlan 'i' 'k' "x" false)
    ∧ plan "ik,kj->ij".toList [2, 4] [4, 2] (some true) [some "x", none] [some "x", none]
      = .ok (matrixPlan 'i' 'k' "x" true) := by
  constructor <;> decide +kernel

example : (shardedEinsumMat (mmShaped 1 2) (matrixPlan 'i' 'k' "x" false) 2 (2, 4) 4 aEx bEx').map
      (fun devs => devs.map ShapedMat.val) = some [[[11, 17]], [[27, 37]]]
    ∧ (shardedEinsumMat (mmShaped 1 2) (matrixPlan 'i' 'k' "x" true) 2 (2, 4) 4 aEx bEx').map
      (fun devs => devs.map ShapedMat.val) = some [[[11, 17]], [[27, 37]]] := by
  obtain ⟨p, hp, _, h3, _⟩ := shardedEinsum_matrix_partial 'i' 'k' 'j' (by decide) (by decide) (by decide) (by decide)
    (by decide) (by decide) "x" (some false) aEx bEx' 2 2 1 2 (Or.inr ⟨rfl, by omega⟩) (by omega) rfl rfl (by decide)
  obtain ⟨q, hq, _, h3', _⟩ := shardedEinsum_matrix_partial 'i' 'k' 'j' (by decide) (by decide) (by decide) (by decide)
    (by decide) (by decide) "x" (some true) aEx bEx' 2 2 1 2 (Or.inr ⟨rfl, by omega⟩) (by omega) rfl rfl (by decide)
  have hp' : p = matrixPlan 'i' 'k' "x" false := by
    have : plan "ik,kj->ij".toList [2 * 1, 2 * 2] [2 * 2, 2] (some false) [some "x", none] [some "x", none]
        = .ok (matrixPlan 'i' 'k' "x" false) := by decide +kernel
    exact (Except.ok.inj (hp.symm.trans this))
  have hq' : q = matrixPlan 'i' 'k' "x" true := by
    have : plan "ik,kj->ij".toList [2 * 1, 2 * 2] [2 * 2, 2] (some true) [some "x", none] [some "x", none]
        = .ok (matrixPlan 'i' 'k' "x" true) := by decide +kernel
    exact (Except.ok.inj (hq.symm.trans this))
  subst hp' hq'
  refine ⟨h3.trans ?_, h3'.trans ?_⟩ <;> decide +kernel

end composed

/-! ## T7.3 — the parallel prefix sum -/

section cumsum
variable {K : Type} [Field K]
open Dino.Sigma

/-- **T7.3** `_parallel_dot_cumsum` (per-shard cumulative sum plus the exclusive prefix of the
 all-gathered shard totals) equals the cumulative sum of the concatenation, in both directions,
 for any number of shards of any lengths. -/
theorem parallelDotCumsum_eq_cumsum (shards : List (List K)) :
    (parallelDotCumsumCore false shards).flatten = cumsum shards.flatten
    ∧ (parallelDotCumsumCore true shards).flatten = rcumsum shards.flatten
    ∧ ∀ rev, (parallelDotCumsumCore rev shards).map List.length = shards.map List.length :=
  ⟨parallelDotCumsumCore_false shards, parallelDotCumsumCore_true shards,
    fun rev => parallelDotCumsumCore_lengths rev shards⟩

/-- the call as made by `_dot_cumsum` under `shard_map`: an axis of length `n·s` cut into `n ≥ 1`
 shards of length `s ≥ 1` is accepted and reassembles to the unsharded (reverse) cumulative sum of
 `jax_numpy_utils.cumsum(method='dot')` on one device -/
theorem dotCumsum_sharded (x : List K) (n s : Nat) (hn : 0 < n) (hs : 0 < s) (hx : x.length = n * s)
    (rev : Bool) :
    ∃ r, parallelDotCumsum rev (splitEvery s x) = some r ∧ r.flatten = dotCumsum rev x := by
  have hlen := splitEvery_lengths s n hs x hx
  have hflat := splitEvery_flatten s hs n x hx
  refine ⟨parallelDotCumsumCore rev (splitEvery s x), ?_, ?_⟩
  · unfold parallelDotCumsum
    cases hsp : splitEvery s x with
    | nil =>
      rw [hsp] at hflat
      simp only [List.flatten_nil] at hflat
      rw [← hflat] at hx
      simp only [List.length_nil] at hx
      have : 0 < n * s := Nat.mul_pos hn hs
      omega
    | cons s0 t =>
      rw [hsp] at hlen
      have h0 : s0.length = s := hlen s0 (by simp)
      simp only
      rw [if_neg]
      rw [not_or]
      refine ⟨by omega, ?_⟩
      simp only [List.any_eq_true, bne_iff_ne, ne_eq, not_exists, not_and, not_not]
      intro u hu
      rw [hlen u hu, h0]
  · cases rev
    · rw [parallelDotCumsumCore_false, hflat, dotCumsum_false]
    · rw [parallelDotCumsumCore_true, hflat, dotCumsum_true]

/-- shards of unequal or zero length are rejected (`shard_map` / `index_in_dim`) -/
example : parallelDotCumsum false [[1, 2], [3]] = (none : Option (List (List ℚ)))
    ∧ parallelDotCumsum true [[], []] = (none : Option (List (List ℚ))) := by
  constructor <;> decide +kernel

/-- non-vacuity, 3 shards -/
example : parallelDotCumsum false [[1, 2], [3, 4], [5, 6]]
      = some ([[1, 3], [6, 10], [15, 21]] : List (List ℚ))
    ∧ parallelDotCumsum true [[1, 2], [3, 4], [5, 6]]
      = some ([[21, 20], [18, 15], [11, 6]] : List (List ℚ)) := by
  constructor <;> decide +kernel

/-- negative witness: with the *inclusive* prefix of the shard totals the result is wrong -/
theorem inclusive_prefix_is_wrong :
    (parallelDotCumsumInclusive ([[1, 2], [3, 4]] : List (List ℚ))).flatten
      ≠ cumsum ([[1, 2], [3, 4]] : List (List ℚ)).flatten := by
  decide +kernel

end cumsum

/-! ## T7.5 — stacking of the sign planes, frequency offset per shard -/

section rows
open Dino.SH Dino.Fourier

/-- `_stack_m ∘ _unstack_m = id` on an even number of rows, `_unstack_m ∘ _stack_m = id` on two
 planes of equal size -/
theorem stackM_unstackM {α : Type} (x : List α) (hx : x.length % 2 = 0) :
    stackM (evens x) (odds x) = x := stackM_evens_odds x hx

theorem unstackM_stackM {α : Type} (a b : List α) (h : a.length = b.length) :
    unstackM (stackM a b) = [a, b] := by
  unfold unstackM
  rw [evens_stackM a b h, odds_stackM a b h]

/-- under a mesh each `x`-shard is unstacked on its own and the planes are concatenated along `m`:
 for shards of even length this is the global `_unstack_m` -/
theorem shardedUnstackM_eq {α : Type} (shards : List (List α)) (h : ∀ u ∈ shards, u.length % 2 = 0) :
    shardedUnstackM shards = unstackM shards.flatten := by
  unfold shardedUnstackM unstackM
  rw [evens_flatten shards h, odds_flatten shards h]

/-- and per-shard `_stack_m` of the pieces is the global `_stack_m` -/
theorem shardedStackM_unstack {α : Type} (shards : List (List α)) (h : ∀ u ∈ shards, u.length % 2 = 0) :
    shardedStackM (shards.map evens) (shards.map odds) = shards.flatten := by
  have hf : List.Forall₂ (fun a b : List α => a.length = b.length) (shards.map evens) (shards.map odds) := by
    rw [List.forall₂_map_left_iff, List.forall₂_map_right_iff]
    apply List.forall₂_same.2
    intro u hu
    rw [evens_length, odds_length]
    have := h u hu
    omega
  rw [shardedStackM_eq _ _ hf, evens_flatten shards h, odds_flatten shards h,
    stackM_evens_odds _ (flatten_length_even shards h)]

variable {K : Type} [Field K]

/-- **T7.5** the longitudinal derivative computed shard by shard with
 `frequency_offset = (size // 2) · axis_index` and no communication equals the global derivative,
 for any number of shards of a common even length -/
theorem shardedDerivative_eq (shards : List (List (List K))) (s w : Nat) (hs : s % 2 = 0)
    (h : ∀ u ∈ shards, u.length = s) :
    (shardedDerivative shards w).flatten = zeroImagDerivative shards.flatten w 0 := by
  have := shardedDerivative_aux s hs w shards 0 h
  rwa [Nat.mul_zero] at this

/-- non-vacuity: 8 rows on 2 shards -/
example : (shardedDerivative ([[[1], [2], [3], [4]], [[5], [6], [7], [8]]] : List (List (List ℚ))) 1).flatten
    = zeroImagDerivative [[1], [2], [3], [4], [5], [6], [7], [8]] 1 0 := by decide +kernel

/-- the same statement with the validation of `fourier.real_basis_derivative_with_zero_imag`
 (`ValueError` for an odd number of rows): shards of a common even length are accepted, and so is the
 unsharded call on their concatenation -/
theorem shardedDerivativeChecked_eq (shards : List (List (List K))) (s w : Nat) (hs : s % 2 = 0)
    (h : ∀ u ∈ shards, u.length = s) :
    ∃ d, shardedDerivativeChecked shards w = some d
      ∧ zeroImagDerivativeChecked shards.flatten w 0 = some d.flatten := by
  refine ⟨shardedDerivative shards w,
    shardedDerivativeChecked_even shards w (fun u hu => by rw [h u hu]; exact hs), ?_⟩
  rw [shardedDerivative_eq shards s w hs h]
  unfold zeroImagDerivativeChecked
  rw [if_neg]
  have := flatten_length_even shards (fun u hu => by rw [h u hu]; exact hs)
  omega

/-- a shard with an odd number of rows makes the sharded call raise (`ValueError`), whatever the data -/
theorem odd_shards_rejected (shards : List (List (List K))) (w : Nat)
    (h : ∃ u ∈ shards, u.length % 2 = 1) : shardedDerivativeChecked shards w = none :=
  shardedDerivativeChecked_odd shards w h

/-- non-vacuity: two shards of 3 rows are rejected although the unsharded call on the 6 rows is accepted -/
example : shardedDerivativeChecked ([[[1], [2], [3]], [[4], [5], [6]]] : List (List (List ℚ))) 1 = none
    ∧ (zeroImagDerivativeChecked ([[1], [2], [3], [4], [5], [6]] : List (List ℚ)) 1 0).isSome = true := by
  constructor <;> decide +kernel

/-- why the code insists on even shards and on the offset `size // 2` — witnesses about the *unchecked
 arithmetic* `Fourier.zeroImagDerivative`, NOT about the behaviour of the code (for odd shards the code raises
 `ValueError` first: `odd_shards_rejected`): shards of odd length would split a `(+m, −m)` pair, and the offset
 `size` (instead of `size // 2`) doubles the wavenumber on the second shard -/
theorem odd_shards_are_wrong :
    (shardedDerivative ([[[1], [2], [3]], [[4], [5], [6]]] : List (List (List ℚ))) 1).flatten
      ≠ zeroImagDerivative [[1], [2], [3], [4], [5], [6]] 1 0 := by decide +kernel

theorem size_offset_is_wrong :
    (shardedDerivativeWrongOffset ([[[1], [2]], [[3], [4]]] : List (List (List ℚ))) 1).flatten
      ≠ zeroImagDerivative [[1], [2], [3], [4]] 1 0 := by decide +kernel

end rows

/-! ## T7.7 — `_round_to_multiple` and the padded shapes -/

/-- **T7.7** `≥ x`, a multiple, and the least such; division by zero is an error -/
theorem roundToMultiple_spec (x m : Nat) (hm : 0 < m) :
    ∃ r, roundToMultiple x m = some r ∧ x ≤ r ∧ m ∣ r ∧ r < x + m ∧
      ∀ k, m ∣ k → x ≤ k → r ≤ k := Dino.Shard.roundToMultiple_spec x m hm

theorem roundToMultiple_zero (x : Nat) : roundToMultiple x 0 = none :=
  Dino.Shard.roundToMultiple_zero x

/-- **side condition of the model of `_round_to_multiple`.**  Python computes
 `multiple * math.ceil(x / multiple)` with a binary64 quotient `d`.  For `x < 2^53` *any* `d` that is exact
 when `multiple ∣ x` and has relative error at most `2^-53` otherwise (both hold for IEEE-754 division of two
 integers below `2^53`) has the ceiling used by the model, so the integer formula agrees with the code on that
 range.  (Beyond it the two differ: `_round_to_multiple(2**53 + 1, 1) = 2**53`, observed by the check.) -/
theorem roundToMultiple_float_agrees (x m : ℕ) (hm : 0 < m) (hx : x < 2 ^ 53) (d : ℚ)
    (hexact : m ∣ x → d = (x : ℚ) / m)
    (herr : |d - (x : ℚ) / m| ≤ (x : ℚ) / m / 2 ^ 53) :
    roundToMultiple x m = some (m * ⌈d⌉.toNat) := by
  unfold roundToMultiple
  rw [if_neg (by omega)]
  congr 2
  have hmq : (0 : ℚ) < m := by exact_mod_cast hm
  have hdm := Nat.div_add_mod x m
  have hlt := Nat.mod_lt x hm
  set q := x / m with hq
  set rr := x % m with hrr
  have hxq : (x : ℚ) = (m : ℚ) * q + rr := by exact_mod_cast hdm.symm
  rcases Nat.eq_zero_or_pos rr with h0 | hpos
  · have hdvd : m ∣ x := Nat.dvd_of_mod_eq_zero (by omega)
    have hd : d = (q : ℚ) := by
      rw [hexact hdvd, hxq, h0]
      field_simp
      simp
    rw [hd]
    have : ⌈((q : ℕ) : ℚ)⌉ = (q : ℤ) := Int.ceil_natCast q
    rw [this, Int.toNat_natCast]
    have : x + m - 1 = m - 1 + m * q := by omega
    rw [this, Nat.add_mul_div_left _ _ hm, Nat.div_eq_of_lt (by omega)]
    omega
  · have hceil : ⌈d⌉ = ((q + 1 : ℕ) : ℤ) := by
      rw [Int.ceil_eq_iff]
      have hab := abs_le.1 herr
      set y := (x : ℚ) / m with hy
      have hym : y * m = x := by rw [hy]; field_simp
      have hp : (0 : ℚ) < 2 ^ 53 := by positivity
      set e := y / 2 ^ 53 with he
      have hey : e * 2 ^ 53 = y := by rw [he]; field_simp
      have hxq' : (x : ℚ) < 2 ^ 53 := by exact_mod_cast hx
      have hem : e * m < 1 := by
        have : e * m * 2 ^ 53 < 1 * 2 ^ 53 := by nlinarith
        exact lt_of_mul_lt_mul_right this hp.le
      have hr1 : (1 : ℚ) ≤ rr := by exact_mod_cast hpos
      have hr2 : (rr : ℚ) + 1 ≤ m := by exact_mod_cast hlt
      push_cast
      constructor
      · have : (q : ℚ) * m < d * m := by nlinarith
        have := lt_of_mul_lt_mul_right this hmq.le
        linarith
      · have : d * m ≤ ((q : ℚ) + 1) * m := by nlinarith
        exact le_of_mul_le_mul_right this hmq
    rw [hceil, Int.toNat_natCast]
    have : x + m - 1 = (rr - 1) + m * (q + 1) := by
      have : m * (q + 1) = m * q + m := by ring
      omega
    rw [this, Nat.add_mul_div_left _ _ hm, Nat.div_eq_of_lt (by omega)]
    omega

/-- non-vacuity: `x = 19, multiple = 16`: the exact quotient `19/16` satisfies both hypotheses -/
example : roundToMultiple 19 16 = some (16 * ⌈(19 : ℚ) / 16⌉.toNat) :=
  roundToMultiple_float_agrees 19 16 (by omega) (by norm_num) _ (fun _ => by norm_num)
    (by norm_num)

example : roundToMultiple 19 16 = some 32 := by decide

/-- the padded shapes of `FastSphericalHarmonics` on a mesh with `xs × ys` horizontal shards:
 they contain the unpadded limits, every axis is divisible by its number of shards, and the modal
 row axis is cut into shards of *even* length (the hypothesis of T7.5) -/
theorem padded_shapes (base z xs ys nlon nlat M L : Nat) (hx : 0 < xs) (hy : 0 < ys) :
    ∃ N J R Lp, nodalShape base (some (z, xs, ys)) nlon nlat = some (N, J)
      ∧ modalShape base (some (z, xs, ys)) M L = some (R, Lp)
      ∧ nlon ≤ N ∧ nlat ≤ J ∧ 2 * M ≤ R ∧ L ≤ Lp
      ∧ xs ∣ N ∧ ys ∣ J ∧ xs ∣ R ∧ ys ∣ Lp ∧ (R / xs) % 2 = 0 := by
  have hb : 0 < baseOr1 base := by unfold baseOr1; split <;> omega
  obtain ⟨N, hN, h1, h2, _⟩ := roundToMultiple_spec nlon (baseOr1 base * xs) (Nat.mul_pos hb hx)
  obtain ⟨J, hJ, h3, h4, _⟩ := roundToMultiple_spec nlat (baseOr1 base * ys) (Nat.mul_pos hb hy)
  obtain ⟨R, hR, h5, h6, _⟩ := roundToMultiple_spec (2 * M) (2 * baseOr1 base * xs)
    (Nat.mul_pos (by omega) hx)
  obtain ⟨Lp, hL, h7, h8, _⟩ := roundToMultiple_spec L (baseOr1 base * ys) (Nat.mul_pos hb hy)
  refine ⟨N, J, R, Lp, by simp [nodalShape, meshXY, hN, hJ], by simp [modalShape, meshXY, hR, hL],
    h1, h3, h5, h7, Dvd.dvd.trans (Dvd.intro_left _ rfl) h2, Dvd.dvd.trans (Dvd.intro_left _ rfl) h4,
    Dvd.dvd.trans (Dvd.intro_left _ rfl) h6, Dvd.dvd.trans (Dvd.intro_left _ rfl) h8, ?_⟩
  obtain ⟨q, rfl⟩ := h6
  rw [show 2 * baseOr1 base * xs * q = (2 * (baseOr1 base * q)) * xs by ring, Nat.mul_div_cancel _ hx]
  omega

/-- non-vacuity: the (z,x,y) = (1,2,2) mesh, `base = 8`, `Grid.with_wavenumbers(6)` -/
example : nodalShape 8 (some (1, 2, 2)) 19 10 = some (32, 16)
    ∧ modalShape 8 (some (1, 2, 2)) 6 7 = some (32, 16)
    ∧ nodalShape 0 none 19 10 = some (19, 10) ∧ modalShape 0 none 6 7 = some (12, 7) := by
  decide

/-! ## T7.6 — vertical padding for level counts not divisible by the mesh -/

section vertical
variable {α β : Type}

/-- **T7.6** `crop ∘ f ∘ pad = f` for every level-wise `f`, every level count, every `z` size -/
theorem withVerticalPadding_levelwise (zero : α) (zm : Nat) (hzm : 0 < zm) (g : α → β) (x : List α) :
    withVerticalPadding zero (some zm) (List.map g) x = some (x.map g) :=
  withVerticalPadding_eq zero zm hzm (List.map g) (fun x => by simp)
    (fun x k => by simp [List.map_append]) x

/-- more generally for a length-preserving `f` whose leading outputs ignore trailing zero levels -/
theorem withVerticalPadding_eq (zero : α) (zm : Nat) (hzm : 0 < zm) (f : List α → List β)
    (hlen : ∀ x, (f x).length = x.length)
    (hpre : ∀ x k, (f (x ++ List.replicate k zero)).take x.length = f x) (x : List α) :
    withVerticalPadding zero (some zm) f x = some (f x) :=
  Dino.Shard.withVerticalPadding_eq zero zm hzm f hlen hpre x

theorem withVerticalPadding_no_mesh (zero : α) (f : List α → List β) (x : List α) :
    withVerticalPadding zero none f x = some (f x) := withVerticalPadding_none zero f x

/-- non-vacuity: 3 levels on `z = 2` are padded to 4 and cropped back; one level is left alone -/
example : verticalPad 0 (some 2) [7, 8, 9] = some ([7, 8, 9, 0], some 1)
    ∧ verticalCrop [70, 80, 90, 0] (some 1) = [70, 80, 90]
    ∧ verticalPad 0 (some 2) [7] = some ([7], none)
    ∧ withVerticalPadding 0 (some 2) (List.map (· * 10)) [7, 8, 9] = some [70, 80, 90] := by
  decide

end vertical

/-! ## T7.4 — zero-padded bases: the padded transforms restricted to the resolved block are the unpadded
transforms, and everything they write on the padding is exactly zero -/

section basis
open Dino.SH Dino.Lin
variable {K : Type} [CommRing K]

/-- shape of an (unpadded) `FastSphericalHarmonics` basis: `f : N × 2H`, `p : H × J × L`, `w : J` -/
structure FastShaped (b : Basis K) (N H J L : Nat) : Prop where
  fl : b.f.length = N
  fr : ∀ fi ∈ b.f, fi.length = 2 * H
  pl : b.p.length = H
  pj : ∀ t ∈ b.p, t.length = J
  pll : ∀ t ∈ b.p, ∀ r ∈ t, r.length = L
  wl : b.w.length = J

theorem half_double (k : Nat) : 2 * k / 2 = k := by omega

/-- **T7.4** synthesis (`inverse_transform`, unstacked Fourier step) with the zero-padded basis on a
 zero-padded modal array is the zero-padded unpadded synthesis: the resolved block is unchanged, the
 nodal padding is exactly zero.  `npx, npy` nodal paddings, `2·hx, mpy` modal paddings. -/
theorem fastSynth_padded (b : Basis K) (N H J L npx npy hx mpy : Nat) (hb : FastShaped b N H J L)
    (x : List (List K)) (hxl : x.length = 2 * H) (hxL : ∀ r ∈ x, r.length = L) :
    fastSynth (padBasis b (2 * H) J L npx npy (2 * hx) mpy) (J + npy) (padMat x L (2 * hx) mpy)
      = padMat (fastSynth b J x) J npx npy := by
  have he : (evens x).length = H := by rw [evens_length, hxl]; omega
  have ho : (odds x).length = H := by rw [odds_length, hxl]; omega
  unfold fastSynth padBasis invFourier
  simp only [half_double]
  rw [evens_padMat x L hx mpy (by omega), odds_padMat x L hx mpy (by omega),
    invLegendre_pad b.p (evens x) J L hx npy mpy (by rw [hb.pl, he]) hb.pll
      (fun r hr => hxL r (mem_evens x r hr)),
    invLegendre_pad b.p (odds x) J L hx npy mpy (by rw [hb.pl, ho]) hb.pll
      (fun r hr => hxL r (mem_odds x r hr)),
    stackM_padMat _ _ J hx npy (by rw [invLegendre_length', invLegendre_length', he, ho]),
    matMul_pad b.f _ (2 * H) J npx (2 * hx) npy hb.fr
      (by rw [stackM_length _ _ (by rw [invLegendre_length', invLegendre_length', he, ho]),
            invLegendre_length', hb.pl, he]; omega)
      (fun r hr => by
        rcases mem_stackM _ _ r hr with h | h
        · exact invLegendre_rows' _ _ J hb.pj r h
        · exact invLegendre_rows' _ _ J hb.pj r h)]

/-- **T7.4** analysis (`transform`, unstacked Fourier step) -/
theorem fastAnalysis_padded (b : Basis K) (N H J L npx npy hx mpy : Nat) (hb : FastShaped b N H J L)
    (z : List (List K)) (hzl : z.length = N) (hzJ : ∀ r ∈ z, r.length = J) :
    fastAnalysis (padBasis b (2 * H) J L npx npy (2 * hx) mpy) (2 * H + 2 * hx) (J + npy) (L + mpy)
        (padMat z J npx npy)
      = padMat (fastAnalysis b (2 * H) J L z) L (2 * hx) mpy := by
  have hwz := weight_rows' b.w z J hb.wl hzJ
  have hfw := fwdFourier_rows b.f (weight b.w z) (2 * H) J hwz
  have hfl : (fwdFourier b.f (weight b.w z) (2 * H) J).length = 2 * H := by simp [fwdFourier, transposeM]
  have he : (evens (fwdFourier b.f (weight b.w z) (2 * H) J)).length = H := by rw [evens_length, hfl]; omega
  have ho : (odds (fwdFourier b.f (weight b.w z) (2 * H) J)).length = H := by rw [odds_length, hfl]; omega
  unfold fastAnalysis padBasis
  simp only [half_double]
  rw [weight_pad b.w z J npx npy hb.wl hzJ,
    fwdFourier_pad b.f _ (2 * H) J npx (2 * hx) npy hb.fr (by simp [weight, hb.fl, hzl]) hwz,
    evens_padMat _ J hx npy (by omega), odds_padMat _ J hx npy (by omega),
    fwdLegendre_pad b.p _ J L hx npy mpy (by rw [hb.pl, he]) hb.pll hb.pj
      (fun r hr => hfw r (mem_evens _ r hr)),
    fwdLegendre_pad b.p _ J L hx npy mpy (by rw [hb.pl, ho]) hb.pll hb.pj
      (fun r hr => hfw r (mem_odds _ r hr)),
    stackM_padMat _ _ L hx mpy (by rw [fwdLegendre_length, fwdLegendre_length, he, ho])]

/-- **T7.4** synthesis with the stacked Fourier step (`einsum('ism,...smj->...ij')`) -/
theorem fastSynthStacked_padded (b : Basis K) (N H J L npx npy hx mpy : Nat) (hb : FastShaped b N H J L)
    (x : List (List K)) (hxl : x.length = 2 * H) (hxL : ∀ r ∈ x, r.length = L) :
    fastSynthStacked (padBasis b (2 * H) J L npx npy (2 * hx) mpy) (J + npy) (padMat x L (2 * hx) mpy)
      = padMat (fastSynthStacked b J x) J npx npy := by
  have he : (evens x).length = H := by rw [evens_length, hxl]; omega
  have ho : (odds x).length = H := by rw [odds_length, hxl]; omega
  have hfe : ∀ fi ∈ b.f.map evens, fi.length = H := by
    intro fi hfi; obtain ⟨f0, hf0, rfl⟩ := List.mem_map.1 hfi
    rw [evens_length, hb.fr f0 hf0]; omega
  have hfo : ∀ fi ∈ b.f.map odds, fi.length = H := by
    intro fi hfi; obtain ⟨f0, hf0, rfl⟩ := List.mem_map.1 hfi
    rw [odds_length, hb.fr f0 hf0]; omega
  have hle : (invLegendre b.p (evens x)).length = H := by rw [invLegendre_length', hb.pl, he]; omega
  have hlo : (invLegendre b.p (odds x)).length = H := by rw [invLegendre_length', hb.pl, ho]; omega
  unfold fastSynthStacked padBasis
  simp only [half_double]
  rw [evens_padMat x L hx mpy (by omega), odds_padMat x L hx mpy (by omega),
    invLegendre_pad b.p (evens x) J L hx npy mpy (by rw [hb.pl, he]) hb.pll
      (fun r hr => hxL r (mem_evens x r hr)),
    invLegendre_pad b.p (odds x) J L hx npy mpy (by rw [hb.pl, ho]) hb.pll
      (fun r hr => hxL r (mem_odds x r hr)),
    map_evens_padMat b.f H npx hx hb.fr, map_odds_padMat b.f H npx hx hb.fr,
    matMul_pad _ _ H J npx hx npy hfe hle (invLegendre_rows' _ _ J hb.pj),
    matMul_pad _ _ H J npx hx npy hfo hlo (invLegendre_rows' _ _ J hb.pj),
    zipWith_vadd_padMat _ _ J npx npy (by simp [matMul])
      (fun r hr => by
        simp only [matMul, List.mem_map] at hr
        obtain ⟨c, _, rfl⟩ := hr
        exact vecMat_length _ _ _ (invLegendre_rows' _ _ J hb.pj))
      (fun r hr => by
        simp only [matMul, List.mem_map] at hr
        obtain ⟨c, _, rfl⟩ := hr
        exact vecMat_length _ _ _ (invLegendre_rows' _ _ J hb.pj))]

/-- **T7.4** analysis with the stacked Fourier step (`einsum('ism,...ij->...smj')`) -/
theorem fastAnalysisStacked_padded (b : Basis K) (N H J L npx npy hx mpy : Nat)
    (hb : FastShaped b N H J L) (z : List (List K)) (hzl : z.length = N) (hzJ : ∀ r ∈ z, r.length = J) :
    fastAnalysisStacked (padBasis b (2 * H) J L npx npy (2 * hx) mpy) (2 * H + 2 * hx) (J + npy) (L + mpy)
        (padMat z J npx npy)
      = padMat (fastAnalysisStacked b (2 * H) J L z) L (2 * hx) mpy := by
  have hwz := weight_rows' b.w z J hb.wl hzJ
  have hfe : ∀ fi ∈ b.f.map evens, fi.length = H := by
    intro fi hfi; obtain ⟨f0, hf0, rfl⟩ := List.mem_map.1 hfi
    rw [evens_length, hb.fr f0 hf0]; omega
  have hfo : ∀ fi ∈ b.f.map odds, fi.length = H := by
    intro fi hfi; obtain ⟨f0, hf0, rfl⟩ := List.mem_map.1 hfi
    rw [odds_length, hb.fr f0 hf0]; omega
  unfold fastAnalysisStacked padBasis
  simp only [half_double, show (2 * H + 2 * hx) / 2 = H + hx by omega]
  rw [weight_pad b.w z J npx npy hb.wl hzJ,
    map_evens_padMat b.f H npx hx hb.fr, map_odds_padMat b.f H npx hx hb.fr,
    fwdFourier_pad _ _ H J npx hx npy hfe (by simp [weight, hb.fl, hzl]) hwz,
    fwdFourier_pad _ _ H J npx hx npy hfo (by simp [weight, hb.fl, hzl]) hwz,
    fwdLegendre_pad b.p _ J L hx npy mpy (by simp [fwdFourier, transposeM, hb.pl]) hb.pll hb.pj
      (fwdFourier_rows _ _ H J hwz),
    fwdLegendre_pad b.p _ J L hx npy mpy (by simp [fwdFourier, transposeM, hb.pl]) hb.pll hb.pj
      (fwdFourier_rows _ _ H J hwz),
    stackM_padMat _ _ L hx mpy (by simp [fwdLegendre_length, fwdFourier, transposeM])]

/-! ### T7.4, second form — ARBITRARY content on the padding of the input

The theorems above take the zero-padded input `padMat x …`.  The padded Legendre table, Fourier matrix and
quadrature weights are zero on the padding, so the padded transforms do not depend on what the input holds there:
for ANY array `x'` of the padded shape that agrees with `x` on the resolved block (`cropMat x' … = x`; the padding
rows and columns of `x'` are unconstrained), the padded transform of `x'` is the zero-padded unpadded transform of
`x` — resolved entries unchanged, everything written on the output padding exactly zero.  (The harness probes
`to_nodal_garbage` / `to_modal_garbage` and the `… [garbage on the padding]` correspondence run the real transforms on
such inputs.) -/

/-- the padded synthesis sees a padded modal array only through its resolved block -/
theorem fastSynth_padding_irrelevant (b : Basis K) (N H J L npy hx mpy : Nat) (hb : FastShaped b N H J L)
    (x' : List (List K)) (hxl : x'.length = 2 * H + 2 * hx) (hxr : ∀ r ∈ x', r.length = L + mpy) :
    invLegendre (padTable b.p J L hx npy mpy) (evens x')
        = invLegendre (padTable b.p J L hx npy mpy) (evens (padMat (cropMat x' (2 * H) L) L (2 * hx) mpy))
    ∧ invLegendre (padTable b.p J L hx npy mpy) (odds x')
        = invLegendre (padTable b.p J L hx npy mpy) (odds (padMat (cropMat x' (2 * H) L) L (2 * hx) mpy)) := by
  have hcl : (cropMat x' (2 * H) L).length = 2 * H := cropMat_length x' (2 * H) L (by omega)
  have hcr : ∀ r ∈ cropMat x' (2 * H) L, r.length = L :=
    cropMat_rows x' (2 * H) L (fun r hr => by rw [hxr r hr]; omega)
  have he : (evens (cropMat x' (2 * H) L)).length = H := by rw [evens_length, hcl]; omega
  have ho : (odds (cropMat x' (2 * H) L)).length = H := by rw [odds_length, hcl]; omega
  constructor
  · rw [invLegendre_pad_any b.p (evens x') J L hx npy mpy (by rw [evens_length, hxl, hb.pl]; omega) hb.pll
        (fun r hr => hxr r (mem_evens x' r hr)),
      hb.pl, cropMat_evens, evens_padMat _ L hx mpy (by omega),
      invLegendre_pad b.p _ J L hx npy mpy (by rw [hb.pl, he]) hb.pll (fun r hr => hcr r (mem_evens _ r hr))]
  · rw [invLegendre_pad_any b.p (odds x') J L hx npy mpy (by rw [odds_length, hxl, hb.pl]; omega) hb.pll
        (fun r hr => hxr r (mem_odds x' r hr)),
      hb.pl, cropMat_odds, odds_padMat _ L hx mpy (by omega),
      invLegendre_pad b.p _ J L hx npy mpy (by rw [hb.pl, ho]) hb.pll (fun r hr => hcr r (mem_odds _ r hr))]

/-- **T7.4, arbitrary padding content** synthesis (`inverse_transform`, unstacked Fourier step): `x'` is any modal
 array of the padded shape `(2H + 2·hx) × (L + mpy)` that agrees with `x` on the resolved block -/
theorem fastSynth_padded_any (b : Basis K) (N H J L npx npy hx mpy : Nat) (hb : FastShaped b N H J L)
    (x x' : List (List K)) (hxl : x'.length = 2 * H + 2 * hx) (hxr : ∀ r ∈ x', r.length = L + mpy)
    (hagree : cropMat x' (2 * H) L = x) :
    fastSynth (padBasis b (2 * H) J L npx npy (2 * hx) mpy) (J + npy) x'
      = padMat (fastSynth b J x) J npx npy := by
  subst hagree
  obtain ⟨hE, hO⟩ := fastSynth_padding_irrelevant b N H J L npy hx mpy hb x' hxl hxr
  rw [← fastSynth_padded b N H J L npx npy hx mpy hb _ (cropMat_length x' (2 * H) L (by omega))
    (cropMat_rows x' (2 * H) L (fun r hr => by rw [hxr r hr]; omega))]
  unfold fastSynth padBasis
  simp only [half_double]
  rw [hE, hO]

/-- **T7.4, arbitrary padding content** synthesis with the stacked Fourier step -/
theorem fastSynthStacked_padded_any (b : Basis K) (N H J L npx npy hx mpy : Nat) (hb : FastShaped b N H J L)
    (x x' : List (List K)) (hxl : x'.length = 2 * H + 2 * hx) (hxr : ∀ r ∈ x', r.length = L + mpy)
    (hagree : cropMat x' (2 * H) L = x) :
    fastSynthStacked (padBasis b (2 * H) J L npx npy (2 * hx) mpy) (J + npy) x'
      = padMat (fastSynthStacked b J x) J npx npy := by
  subst hagree
  obtain ⟨hE, hO⟩ := fastSynth_padding_irrelevant b N H J L npy hx mpy hb x' hxl hxr
  rw [← fastSynthStacked_padded b N H J L npx npy hx mpy hb _ (cropMat_length x' (2 * H) L (by omega))
    (cropMat_rows x' (2 * H) L (fun r hr => by rw [hxr r hr]; omega))]
  unfold fastSynthStacked padBasis
  simp only [half_double]
  rw [hE, hO]

/-- **T7.4, arbitrary padding content** analysis (`transform`, unstacked Fourier step): `z'` is any nodal array of
 the padded shape `(N + npx) × (J + npy)` that agrees with `z` on the resolved block -/
theorem fastAnalysis_padded_any (b : Basis K) (N H J L npx npy hx mpy : Nat) (hb : FastShaped b N H J L)
    (z z' : List (List K)) (hzl : z'.length = N + npx) (hzr : ∀ r ∈ z', r.length = J + npy)
    (hagree : cropMat z' N J = z) :
    fastAnalysis (padBasis b (2 * H) J L npx npy (2 * hx) mpy) (2 * H + 2 * hx) (J + npy) (L + mpy) z'
      = padMat (fastAnalysis b (2 * H) J L z) L (2 * hx) mpy := by
  subst hagree
  have hcl : (cropMat z' N J).length = N := cropMat_length z' N J (by omega)
  have hcr : ∀ r ∈ cropMat z' N J, r.length = J := cropMat_rows z' N J (fun r hr => by rw [hzr r hr]; omega)
  have hF : fwdFourier (padMat b.f (2 * H) npx (2 * hx)) (weight (b.w ++ zerosN npy) z') (2 * H + 2 * hx) (J + npy)
      = fwdFourier (padMat b.f (2 * H) npx (2 * hx)) (weight (b.w ++ zerosN npy) (padMat (cropMat z' N J) J npx npy))
          (2 * H + 2 * hx) (J + npy) := by
    rw [fwdFourier_weight_pad_any b.f b.w z' N (2 * H) J npx (2 * hx) npy hb.fr hb.fl hb.wl hzl hzr,
      weight_pad b.w _ J npx npy hb.wl hcr,
      fwdFourier_pad b.f _ (2 * H) J npx (2 * hx) npy hb.fr (by simp [weight, hb.fl, hcl])
        (weight_rows' b.w _ J hb.wl hcr)]
  rw [← fastAnalysis_padded b N H J L npx npy hx mpy hb _ hcl hcr]
  unfold fastAnalysis padBasis
  simp only
  rw [hF]

/-- **T7.4, arbitrary padding content** analysis with the stacked Fourier step -/
theorem fastAnalysisStacked_padded_any (b : Basis K) (N H J L npx npy hx mpy : Nat) (hb : FastShaped b N H J L)
    (z z' : List (List K)) (hzl : z'.length = N + npx) (hzr : ∀ r ∈ z', r.length = J + npy)
    (hagree : cropMat z' N J = z) :
    fastAnalysisStacked (padBasis b (2 * H) J L npx npy (2 * hx) mpy) (2 * H + 2 * hx) (J + npy) (L + mpy) z'
      = padMat (fastAnalysisStacked b (2 * H) J L z) L (2 * hx) mpy := by
  subst hagree
  have hcl : (cropMat z' N J).length = N := cropMat_length z' N J (by omega)
  have hcr : ∀ r ∈ cropMat z' N J, r.length = J := cropMat_rows z' N J (fun r hr => by rw [hzr r hr]; omega)
  have hfe : ∀ fi ∈ b.f.map evens, fi.length = H := by
    intro fi hfi; obtain ⟨f0, hf0, rfl⟩ := List.mem_map.1 hfi
    rw [evens_length, hb.fr f0 hf0]; omega
  have hfo : ∀ fi ∈ b.f.map odds, fi.length = H := by
    intro fi hfi; obtain ⟨f0, hf0, rfl⟩ := List.mem_map.1 hfi
    rw [odds_length, hb.fr f0 hf0]; omega
  have hF : ∀ f0 : List (List K), (∀ fi ∈ f0, fi.length = H) → f0.length = N →
      fwdFourier (padMat f0 H npx hx) (weight (b.w ++ zerosN npy) z') (H + hx) (J + npy)
        = fwdFourier (padMat f0 H npx hx) (weight (b.w ++ zerosN npy) (padMat (cropMat z' N J) J npx npy))
            (H + hx) (J + npy) := by
    intro f0 hf0 hf0l
    rw [fwdFourier_weight_pad_any f0 b.w z' N H J npx hx npy hf0 hf0l hb.wl hzl hzr,
      weight_pad b.w _ J npx npy hb.wl hcr,
      fwdFourier_pad f0 _ H J npx hx npy hf0 (by simp [weight, hf0l, hcl]) (weight_rows' b.w _ J hb.wl hcr)]
  rw [← fastAnalysisStacked_padded b N H J L npx npy hx mpy hb _ hcl hcr]
  unfold fastAnalysisStacked padBasis
  simp only [show (2 * H + 2 * hx) / 2 = H + hx by omega]
  rw [map_evens_padMat b.f H npx hx hb.fr, map_odds_padMat b.f H npx hx hb.fr,
    hF _ hfe (by simp [hb.fl]), hF _ hfo (by simp [hb.fl])]

/-- the resolved block of a padded array is the unpadded array, the rest is zero -/
theorem cropMat_padMat (a : List (List K)) (c pr pc : Nat) (h : ∀ r ∈ a, r.length = c) :
    cropMat (padMat a c pr pc) a.length c = a := by
  unfold cropMat padMat
  rw [List.take_append_of_le_length (by simp), List.take_of_length_le (by simp), List.map_map]
  conv_rhs => rw [← List.map_id a]
  apply List.map_congr_left
  intro r hr
  simp only [Function.comp, id]
  rw [List.take_append_of_le_length (by rw [h r hr]), List.take_of_length_le (by rw [h r hr])]

/-- non-vacuity: a 2-node, one-wavenumber basis padded by one longitude node, one latitude node, two
 modal rows and one total wavenumber -/
def bEx : Basis ℚ := { f := [[1, 2], [3, 4]], p := [[[5, 6]]], w := [7] }

theorem bEx_shaped : FastShaped bEx 2 1 1 2 :=
  ⟨rfl, by decide, rfl, by decide, by decide, rfl⟩

example : fastSynth (padBasis bEx 2 1 2 1 1 2 1) 2 (padMat [[1, 2], [3, 4]] 2 2 1)
    = padMat (fastSynth bEx 1 [[1, 2], [3, 4]]) 1 1 1 :=
  fastSynth_padded bEx 2 1 1 2 1 1 1 1 bEx_shaped _ rfl (by decide)

example : fastSynth bEx 1 [[1, 2], [3, 4]] = [[95], [207]]
    ∧ padMat (fastSynth bEx 1 [[1, 2], [3, 4]]) 1 1 1 = [[95, 0], [207, 0], [0, 0]] := by
  constructor <;> decide +kernel

example : fastAnalysis (padBasis bEx 2 1 2 1 1 2 1) 4 2 3 (padMat [[1], [2]] 1 1 1)
    = padMat (fastAnalysis bEx 2 1 2 [[1], [2]]) 2 2 1 :=
  fastAnalysis_padded bEx 2 1 1 2 1 1 1 1 bEx_shaped _ rfl (by decide)

example : fastAnalysis bEx 2 1 2 [[1], [2]] = [[245, 294], [350, 420]] := by decide +kernel

/-- non-vacuity of the second form: NON-ZERO garbage on every padding row and column of the input (modal:
 column 2 and rows 2, 3; nodal: column 1 and row 2) — the outputs are those of the zero-padded inputs above -/
def xGarb : List (List ℚ) := [[1, 2, 99], [3, 4, -7], [11, 12, 13], [14, 15, 16]]
def zGarb : List (List ℚ) := [[1, 50], [2, -60], [70, 80]]

example : fastSynth (padBasis bEx 2 1 2 1 1 2 1) 2 xGarb = padMat (fastSynth bEx 1 [[1, 2], [3, 4]]) 1 1 1 :=
  fastSynth_padded_any bEx 2 1 1 2 1 1 1 1 bEx_shaped _ xGarb rfl (by decide) (by decide +kernel)

example : fastSynthStacked (padBasis bEx 2 1 2 1 1 2 1) 2 xGarb
    = padMat (fastSynthStacked bEx 1 [[1, 2], [3, 4]]) 1 1 1 :=
  fastSynthStacked_padded_any bEx 2 1 1 2 1 1 1 1 bEx_shaped _ xGarb rfl (by decide) (by decide +kernel)

example : fastAnalysis (padBasis bEx 2 1 2 1 1 2 1) 4 2 3 zGarb = padMat (fastAnalysis bEx 2 1 2 [[1], [2]]) 2 2 1 :=
  fastAnalysis_padded_any bEx 2 1 1 2 1 1 1 1 bEx_shaped _ zGarb rfl (by decide) (by decide +kernel)

example : fastAnalysisStacked (padBasis bEx 2 1 2 1 1 2 1) 4 2 3 zGarb
    = padMat (fastAnalysisStacked bEx 2 1 2 [[1], [2]]) 2 2 1 :=
  fastAnalysisStacked_padded_any bEx 2 1 1 2 1 1 1 1 bEx_shaped _ zGarb rfl (by decide) (by decide +kernel)

/-- the same by evaluation: garbage in, exactly the zero-padded unpadded results out -/
example : fastSynth (padBasis bEx 2 1 2 1 1 2 1) 2 xGarb = [[95, 0], [207, 0], [0, 0]]
    ∧ fastAnalysis (padBasis bEx 2 1 2 1 1 2 1) 4 2 3 zGarb = [[245, 294, 0], [350, 420, 0], [0, 0, 0], [0, 0, 0]]
    ∧ cropMat xGarb 2 2 = [[1, 2], [3, 4]] ∧ cropMat zGarb 2 1 = [[1], [2]] := by
  refine ⟨?_, ?_, ?_, ?_⟩ <;> decide +kernel

end basis

/-! ## masks aware of the padding: `clip_wavenumbers`, `inverse_laplacian` -/

section masks
variable {K : Type} [Field K]

/-- `Grid.clip_wavenumbers` on a padded layout (`num_zeros = n + modal_padding[-1]`): the mask is the
 unpadded mask followed by zeros -/
theorem clipMask_padded (L n pad : Nat) :
    (clipMask (L + pad) n pad : List K) = clipMask L n 0 ++ List.replicate pad 0 := by
  unfold clipMask
  rw [List.range_add, List.map_append, List.map_map]
  congr 1
  · apply List.map_congr_left
    intro j _
    have : (j + (n + pad) < L + pad) ↔ (j + (n + 0) < L) := by omega
    simp only [this]
  · rw [List.eq_replicate_iff]
    refine ⟨by simp, ?_⟩
    intro b hb
    obtain ⟨j, _, rfl⟩ := List.mem_map.1 hb
    simp only [Function.comp]
    rw [if_neg (by omega)]

/-- `Grid.inverse_laplacian` on a padded layout: entries `total_wavenumbers:` are set to zero, so
 the `1 / 0` of the zero-padded eigenvalues is never used -/
theorem invEigen_padded (eigs : List K) (pad : Nat) (junk : List K) (hj : junk.length = pad) :
    invEigen (eigs ++ junk) eigs.length = invEigen eigs eigs.length ++ List.replicate pad 0 := by
  unfold invEigen
  rw [List.zipIdx_append, List.map_append]
  congr 1
  rw [List.eq_replicate_iff]
  refine ⟨by simp [hj], ?_⟩
  intro b hb
  obtain ⟨ej, hej, rfl⟩ := List.mem_map.1 hb
  have := List.le_snd_of_mem_zipIdx hej
  rw [if_pos (Or.inr (by simpa using this))]

example : (clipMask 8 1 2 : List ℚ) = [1, 1, 1, 1, 1, 0, 0, 0]
    ∧ invEigen ([0, -2, -6, 0, 0] : List ℚ) 3 = [0, -1 / 2, -1 / 6, 0, 0] := by
  constructor <;> decide +kernel

end masks

/-! ## T7.8 — step filters on padded layouts (statement shared with `DinoProofs/Properties/C15.lean`) -/

section filters
open Dino.Filters

section maxpad
variable {R : Type} [LinearOrder R] [Zero R] [dlt : DecidableLT R]

theorem foldl_max_zeros (k : Nat) (m : R) (hm : 0 ≤ m) :
    (List.replicate k (0 : R)).foldl (fun m x => if m < x then x else m) m = m := by
  induction k with
  | zero => rfl
  | succ k ih =>
    rw [List.replicate_succ, List.foldl_cons, if_neg (not_lt.2 hm), ih]

/-- `np.max` of a non-negative axis does not see trailing zero padding -/
theorem maxL_padded (ls : List R) (k : Nat) (hne : ls ≠ []) (h0 : ∀ l ∈ ls, 0 ≤ l) :
    maxL (ls ++ List.replicate k 0) = maxL ls := by
  cases ls with
  | nil => exact absurd rfl hne
  | cons a t =>
    simp only [List.cons_append, maxL, List.foldl_append, Option.some.injEq]
    apply foldl_max_zeros
    have := (maxL_spec (a :: t) _ rfl).1
    exact h0 _ this

end maxpad

/-- exponential (step) filter: the scaling built from a zero-padded wavenumber axis is the scaling
 of the unpadded axis followed by ones — same normalisation `lmax`, same factors on the resolved
 wavenumbers, neutral on the padding -/
theorem expScaling_padded (a : ℝ) (p : ℕ) (c : ℝ) (ls : List ℝ) (k : ℕ) (hc : 0 ≤ c) (hc1 : c < 1)
    (h0 : ∀ l ∈ ls, 0 ≤ l) (hpos : ∃ l ∈ ls, 0 < l) :
    ∃ s, expScaling Real.exp a p c ls = some s ∧ s.length = ls.length
      ∧ expScaling Real.exp a p c (ls ++ List.replicate k 0) = some (s ++ List.replicate k 1) := by
  obtain ⟨l0, hl0, hl0pos⟩ := hpos
  have hne : ls ≠ [] := List.ne_nil_of_mem hl0
  obtain ⟨lmax, hm⟩ := maxL_isSome ls hne
  have hmpos : 0 < lmax := lt_of_lt_of_le hl0pos ((maxL_spec ls lmax hm).2 l0 hl0)
  refine ⟨ls.map (expFactor Real.exp a p c lmax), by simp [expScaling, hm], by simp, ?_⟩
  simp only [expScaling, maxL_padded ls k hne h0, hm, Option.map_some, List.map_append,
    List.map_replicate, C15.expFactor_mean a p c lmax hc hc1 hmpos]

theorem expStepScaling_padded (dt tau : ℝ) (p : ℕ) (c : ℝ) (ls : List ℝ) (k : ℕ) (hc : 0 ≤ c)
    (hc1 : c < 1) (h0 : ∀ l ∈ ls, 0 ≤ l) (hpos : ∃ l ∈ ls, 0 < l) :
    ∃ s, expStepScaling Real.exp dt tau p c ls = some s ∧ s.length = ls.length
      ∧ expStepScaling Real.exp dt tau p c (ls ++ List.replicate k 0) = some (s ++ List.replicate k 1) :=
  expScaling_padded _ p c ls k hc hc1 h0 hpos

theorem eigenvalues_padded (radius : ℝ) (ls : List ℝ) (k : ℕ) :
    eigenvalues radius (ls ++ List.replicate k 0) = eigenvalues radius ls ++ List.replicate k 0 := by
  simp [eigenvalues, eigenvalue]

/-- diffusion step filter (current code): the normaliser `np.abs(eigenvalues).max()` is the one of
 the unpadded axis, it is positive (so `dt / (tau · m^order)` is a guarded division), and the
 scaling is the unpadded scaling followed by the factor of eigenvalue 0 (`1` for `order ≥ 1`) -/
theorem diffStepScaling_padded (dt tau : ℝ) (order : ℕ) (radius : ℝ) (ls : List ℝ) (k : ℕ)
    (htau : tau ≠ 0) (hr : radius ≠ 0) (h0 : ∀ l ∈ ls, 0 ≤ l) (hpos : ∃ l ∈ ls, 0 < l) :
    ∃ m sc s, maxAbs (eigenvalues radius (ls ++ List.replicate k 0)) = some m ∧ 0 < m
      ∧ tau * powN m order ≠ 0
      ∧ diffStepScale dt tau order (eigenvalues radius ls) = some sc
      ∧ diffStepScale dt tau order (eigenvalues radius (ls ++ List.replicate k 0)) = some sc
      ∧ diffStepScaling Real.exp dt tau order (eigenvalues radius ls) = some s
      ∧ s.length = ls.length
      ∧ diffStepScaling Real.exp dt tau order (eigenvalues radius (ls ++ List.replicate k 0))
          = some (s ++ List.replicate k (diffFactor Real.exp sc order 0)) := by
  obtain ⟨m, hm, hmpos, hguard, _⟩ := C15.diffStepScale_guard tau order radius ls htau hr h0 hpos
  obtain ⟨l0, hl0, _⟩ := hpos
  have hmax : maxAbs (eigenvalues radius (ls ++ List.replicate k 0)) = some m := by
    rw [eigenvalues_padded, maxAbs, List.map_append, List.map_replicate,
      show absV (0 : ℝ) = 0 by simp [absV]]
    rw [maxL_padded _ k (by simp [eigenvalues, List.ne_nil_of_mem hl0])
      (fun l hl => by
        obtain ⟨e, _, rfl⟩ := List.mem_map.1 hl
        rw [C15.absV_eq_abs]; exact abs_nonneg e)]
    exact hm
  refine ⟨m, dt / (tau * powN m order), diffScaling Real.exp (dt / (tau * powN m order)) order
    (eigenvalues radius ls), hmax, hmpos, hguard, by simp [diffStepScale, hm],
    by simp [diffStepScale, hmax], by simp [diffStepScaling, diffStepScale, hm],
    by simp [diffScaling, eigenvalues], ?_⟩
  simp only [diffStepScaling, diffStepScale, hmax, Option.map_some]
  rw [eigenvalues_padded]
  simp [diffScaling]

/-- neutral on the padding when `order ≥ 1` -/
theorem diffFactor_padding (sc : ℝ) (order : ℕ) (ho : 1 ≤ order) : diffFactor Real.exp sc order 0 = 1 := by
  rw [C15.diffFactor_eq, neg_zero, zero_pow (by omega), mul_zero, Real.exp_zero]

/-- the code before commit 3d38ca0 normalised with `eigenvalues[-1]`, which is `0` on every padded
 layout: the division `dt / (tau · 0)` is unguarded (IEEE: `inf`, then `inf · 0 = NaN`) -/
theorem diffStepScaleOld_padded_unguarded (dt tau : ℝ) (order : ℕ) (radius : ℝ) (ls : List ℝ) (k : ℕ)
    (ho : 1 ≤ order) :
    diffStepScaleOld dt tau order (eigenvalues radius (ls ++ List.replicate (k + 1) 0))
      = some (dt / (tau * powN (absV (eigenvalue radius 0)) order))
    ∧ tau * powN (absV (eigenvalue radius 0)) order = 0 := by
  have := C15.diffStepScaleOld_guard_fails dt tau order radius (ls ++ List.replicate k 0) ho
  rwa [List.append_assoc, ← List.replicate_succ'] at this

section leaf
variable {K : Type} [Field K]

theorem mapIdx_rows (s : List K) (hs : 0 < s.length) : ∀ (rows : List (List K)),
    (∀ r ∈ rows, r.length = s.length) →
    (rows.flatten.mapIdx fun i v => s.getD (i % s.length) 0 * v)
      = (rows.map fun r => List.zipWith (· * ·) s r).flatten
  | [], _ => by simp
  | r :: t, h => by
    have hr : r.length = s.length := h r (by simp)
    simp only [List.flatten_cons, List.map_cons, List.mapIdx_append]
    congr 1
    · apply List.ext_getElem
      · simp [hr]
      · intro i h1 h2
        simp only [List.length_mapIdx] at h1
        simp only [List.getElem_mapIdx, List.getElem_zipWith]
        rw [Nat.mod_eq_of_lt (by omega), List.getD_eq_getElem?_getD, List.getElem?_eq_getElem (by omega)]
        rfl
    · have := mapIdx_rows s hs t (fun r' hr' => h r' (by simp [hr']))
      rw [← this, hr]
      simp only [Nat.add_mod_right]

/-- `_make_filter_fn` on a spectral leaf given by its rows (any leading axes `init`): each row is
 multiplied entrywise by the 1-D scaling -/
theorem filterLeaf_rows (s : List K) (hs : 0 < s.length) (init : List Nat) (rows : List (List K))
    (h : ∀ r ∈ rows, r.length = s.length) :
    filterLeaf [s.length] s (init ++ [s.length], rows.flatten)
      = (init ++ [s.length], (rows.map fun r => List.zipWith (· * ·) s r).flatten) := by
  rw [C15.filterLeaf_last_axis, mapIdx_rows s hs rows h]

/-- **T7.8** a step filter on a zero-padded layout: filtering the padded leaf with the padded
 scaling (`s` on the resolved wavenumbers, anything finite `p` on the padding) gives the padding of
 the unpadded filter applied to the unpadded leaf — resolved coefficients are filtered exactly as
 without padding, the padding stays zero. -/
theorem filterLeaf_padded (s p : List K) (hs : 0 < s.length) (init : List Nat)
    (rows : List (List K)) (h : ∀ r ∈ rows, r.length = s.length) :
    filterLeaf [(s ++ p).length] (s ++ p)
        (init ++ [(s ++ p).length], (rows.map (· ++ List.replicate p.length 0)).flatten)
      = (init ++ [(s ++ p).length],
          ((rows.map fun r => List.zipWith (· * ·) s r).map (· ++ List.replicate p.length 0)).flatten)
    ∧ filterLeaf [s.length] s (init ++ [s.length], rows.flatten)
      = (init ++ [s.length], (rows.map fun r => List.zipWith (· * ·) s r).flatten) := by
  refine ⟨?_, filterLeaf_rows s hs init rows h⟩
  rw [filterLeaf_rows (s ++ p) (by simp; omega) init _ (by
    intro r hr
    obtain ⟨r0, hr0, rfl⟩ := List.mem_map.1 hr
    simp [h r0 hr0])]
  congr 2
  rw [List.map_map, List.map_map]
  apply List.map_congr_left
  intro r hr
  simp only [Function.comp]
  rw [List.zipWith_append (by rw [h r hr])]
  congr 1
  apply List.ext_getElem
  · simp
  · intro i h1 h2
    simp

end leaf

end filters

end Dino.C07
