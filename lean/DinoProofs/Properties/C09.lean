import DinoProofs.Lemmas.SHEquiv

/-!
# C09 — the two spherical-harmonic implementations are observationally equivalent

`ι = Dino.SHEquiv.iota` is the fixed re-indexing from the layout of `RealSphericalHarmonics`
(`2M-1` rows `m = 0,+1,-1,…`) to the layout of `FastSphericalHarmonics` (`2M` rows `+0,-0,+1,-1,…`,
padded with `pr` zero rows and `pc` zero columns); `pad = padNodal` pads nodal arrays.
All statements are for arbitrary sizes `M, L, N, J`, arbitrary paddings and an arbitrary commutative
ring of scalars (a field where the code divides).

* `IotaRel br bf M L J` — the structural relation between the two `basis` values: `bf.f` is `br.f`
  with a zero column inserted at index 1 and zero columns from `2M` on, `bf.p[m]` is `br.p` at either
  row of the pair `m`, padded with zeros, `bf.w` extends `br.w`.
  `iotaRel_bases`: the two `basis` properties of the code (`realBasisOf (realBasis …) P w` and
  `fastBasisOf (realBasisZeroImag …) P w …`) satisfy it, for every Legendre table `P`.
* T9.1 `fastSynth_iota`, and the stronger `fastSynth_eq_real` (row 1 and the padding of the input
  are ignored); T9.2 `fastAnalysis_pad` (row 1 and all padding of the result are exactly zero).
* T9.3 `zeroImagDerivative_iota`; `fastMask_eq_iota`, `fastMvals_eq_iota`, `clip_iota`,
  `laplacian_iota`, `inverseLaplacian_iota`.
* T9.4 `fastSynthStacked_eq`, `fastAnalysisStacked_eq`; T9.5 `fastSynthOpt_eq`,
  `fastAnalysisOpt_eq` (every value of the option record gives the same result).
-/
namespace Dino.C09
open Finset Dino.Lin Dino.SH Dino.SHEquiv Dino.Fourier

section ring
variable {K : Type} [CommRing K]

/-- the fast basis is the `ι`-image of the real basis -/
structure IotaRel (br bf : Basis K) (M L J : Nat) : Prop where
  f0 : ∀ i r, r < 2 * M - 1 → ent2 bf.f i (src r) = ent2 br.f i r
  f1 : ∀ i, ent2 bf.f i 1 = 0
  fz : ∀ i r, 2 * M ≤ r → ent2 bf.f i r = 0
  p : ∀ r j l, r < 2 * M - 1 → j < J → l < L → ent3 bf.p (src r / 2) j l = ent3 br.p r j l
  pz : ∀ m j l, J ≤ j ∨ L ≤ l → ent3 bf.p m j l = 0
  w : ∀ j, j < J → ent bf.w j = ent br.w j

/-! ## T9.1 synthesis -/

/-- core of T9.1: whatever the fast-layout input `y` holds in row 1 and in its padding, the fast
 synthesis of `y` is the padded real synthesis of any `x` that agrees with `y` on the rows `src r` -/
theorem fastSynth_eq_of_rel (br bf : Basis K) (M L N J H pn pj pc : Nat) (hM : 1 ≤ M) (hH : M ≤ H)
    (hbr : Shaped br N (2 * M - 1) J L) (hbf : Shaped bf (N + pn) H (J + pj) (L + pc))
    (hrel : IotaRel br bf M L J) (x y : List (List K))
    (hyl : y.length = 2 * H) (hy : ∀ row ∈ y, row.length ≤ L + pc)
    (hx : ∀ row ∈ x, row.length ≤ L)
    (hxy : ∀ r l, r < 2 * M - 1 → l < L → ent2 y (src r) l = ent2 x r l) :
    fastSynth bf (J + pj) y = padNodal pn pj J (realSynth br J x) := by
  apply ext_ent2 _ _ (J + pj)
  · rw [fastSynth_length, padNodal_length, realSynth_length, hbf.fl, hbr.fl]
  · exact fastSynth_rows bf _ H _ _ hbf y
  · exact padNodal_rows pn pj J _ (realSynth_rows br N _ J L hbr x)
  intro i j
  rw [ent2_padNodal, ent2_fastSynth bf (N + pn) H (J + pj) (L + pc) hbf y hyl hy]
  by_cases hj : j < J
  · rw [ent2_realSynth br N (2 * M - 1) J L hbr x hx,
      sum_src _ (2 * M - 1) (2 * H) (by omega) (by omega) (by rw [hrel.f1]; ring)
        (fun r hr => by rw [hrel.fz i r (by omega)]; ring)]
    apply Finset.sum_congr rfl
    intro r hr
    have hr' : r < 2 * M - 1 := Finset.mem_range.1 hr
    rw [hrel.f0 i r hr']
    congr 1
    rw [sum_range_tail_zero _ L (L + pc) (by omega)
      (fun l hl => by rw [hrel.pz _ j l (Or.inr hl)]; ring)]
    apply Finset.sum_congr rfl
    intro l hl
    have hl' : l < L := Finset.mem_range.1 hl
    rw [hrel.p r j l hr' hj hl', hxy r l hr' hl']
  · have hj' : J ≤ j := by omega
    rw [ent2_of_width_le _ J i j (fun r hr => le_of_eq (realSynth_rows br N _ J L hbr x r hr)) hj']
    apply Finset.sum_eq_zero
    intro r _
    have : ∑ l ∈ range (L + pc), ent3 bf.p (r / 2) j l * ent2 y r l = 0 := by
      apply Finset.sum_eq_zero
      intro l _
      rw [hrel.pz _ j l (Or.inl hj')]; ring
    rw [this]; ring


/-- **T9.1** `Fast.synth (ι x) = pad (Real.synth x)` -/
theorem fastSynth_iota (br bf : Basis K) (M L N J H pn pj pr pc : Nat) (hM : 1 ≤ M)
    (hpr : 2 * M + pr = 2 * H)
    (hbr : Shaped br N (2 * M - 1) J L) (hbf : Shaped bf (N + pn) H (J + pj) (L + pc))
    (hrel : IotaRel br bf M L J) (x : List (List K))
    (hxl : x.length = 2 * M - 1) (hx : ∀ row ∈ x, row.length = L) :
    fastSynth bf (J + pj) (iota L pr pc x) = padNodal pn pj J (realSynth br J x) := by
  have hne : x ≠ [] := by intro h; rw [h] at hxl; simp at hxl; omega
  apply fastSynth_eq_of_rel br bf M L N J H pn pj pc hM (by omega) hbr hbf hrel x
  · rw [iota_length _ _ _ _ hne, hxl]; omega
  · intro row hrow; rw [iota_rows L pr pc x hx row hrow]
  · intro row hrow; rw [hx row hrow]
  · intro r l _ _; exact ent2_iota_src L pr pc x r l

/-- **T9.1, strong form**: the fast synthesis of *any* array of the fast shape is the padded real
 synthesis of its `ι`-preimage — row 1 and the padding rows / columns of the input have no
 influence on the result -/
theorem fastSynth_eq_real (br bf : Basis K) (M L N J H pn pj pc : Nat) (hM : 1 ≤ M) (hH : M ≤ H)
    (hbr : Shaped br N (2 * M - 1) J L) (hbf : Shaped bf (N + pn) H (J + pj) (L + pc))
    (hrel : IotaRel br bf M L J) (y : List (List K))
    (hyl : y.length = 2 * H) (hy : ∀ row ∈ y, row.length = L + pc) :
    fastSynth bf (J + pj) y = padNodal pn pj J (realSynth br J (unIota (2 * M) L y)) := by
  apply fastSynth_eq_of_rel br bf M L N J H pn pj pc hM hH hbr hbf hrel _ y hyl
  · intro row hrow; rw [hy row hrow]
  · intro row hrow
    rw [unIota_rows (2 * M) L y (fun r hr => by rw [hy r hr]; omega) row hrow]
  · intro r l hr hl
    rw [ent2_unIota, if_pos ⟨hl, src_lt r (2 * M) (by omega)⟩]

/-! ## T9.2 analysis -/

theorem exists_src (r : Nat) (h : r ≠ 1) : ∃ r0, r = src r0 := by
  refine ⟨if r = 0 then 0 else r - 1, ?_⟩
  unfold src
  split
  · rename_i h0; simp [h0]
  · rename_i h0
    have : r - 1 ≠ 0 := by omega
    simp [this]; omega

/-- **T9.2** the fast analysis of the padded nodal field is `ι` of the real analysis: row 1, the
 padding rows and the padding columns of the result are exactly zero -/
theorem fastAnalysis_pad (br bf : Basis K) (M L N J H pn pj pr pc : Nat) (hM : 1 ≤ M)
    (hpr : 2 * M + pr = 2 * H)
    (hbr : Shaped br N (2 * M - 1) J L) (hbf : Shaped bf (N + pn) H (J + pj) (L + pc))
    (hrel : IotaRel br bf M L J) (z : List (List K))
    (hz : ∀ zi ∈ z, zi.length = J) (hzl : z.length ≤ N) :
    fastAnalysis bf (2 * H) (J + pj) (L + pc) (padNodal pn pj J z)
      = iota L pr pc (realAnalysis br (2 * M - 1) J L z) := by
  have hRl := realAnalysis_length br N (2 * M - 1) J L hbr z
  have hRr := realAnalysis_rows br N (2 * M - 1) J L hbr (2 * M - 1) z
  apply ext_ent2 _ _ (L + pc)
  · rw [fastAnalysis_length bf (N + pn) H (J + pj) (L + pc) hbf,
      iota_length _ _ _ _ (by intro h; rw [h] at hRl; simp at hRl; omega), hRl]
    omega
  · exact fastAnalysis_rows bf _ H _ _ hbf _ _
  · exact iota_rows L pr pc _ hRr
  intro r l
  by_cases hr : r < 2 * H
  swap
  · rw [ent2_of_length_le _ r l (by
      rw [fastAnalysis_length bf (N + pn) H (J + pj) (L + pc) hbf]; omega), ent2_iota]
    split
    · rfl
    · rw [ent2_of_length_le _ _ l (by rw [hRl]; split <;> omega)]
  rw [ent2_fastAnalysis bf (N + pn) H (J + pj) (L + pc) hbf _
    (padNodal_rows pn pj J z hz) (by rw [padNodal_length]; omega) r l hr]
  by_cases h1 : r = 1
  · subst h1
    rw [ent2_iota_one]
    apply Finset.sum_eq_zero
    intro j _
    have : ∑ i ∈ range (N + pn), ent2 bf.f i 1 * (ent bf.w j * ent2 (padNodal pn pj J z) i j) = 0 := by
      apply Finset.sum_eq_zero
      intro i _
      rw [hrel.f1]; ring
    rw [this]; ring
  obtain ⟨r0, rfl⟩ := exists_src r h1
  rw [ent2_iota_src]
  by_cases hr0 : r0 < 2 * M - 1
  swap
  · rw [ent2_of_length_le _ r0 l (by rw [hRl]; omega)]
    apply Finset.sum_eq_zero
    intro j _
    have : ∑ i ∈ range (N + pn), ent2 bf.f i (src r0) * (ent bf.w j * ent2 (padNodal pn pj J z) i j)
        = 0 := by
      apply Finset.sum_eq_zero
      intro i _
      rw [hrel.fz i (src r0) (by unfold src; split <;> omega)]; ring
    rw [this]; ring
  by_cases hl : l < L
  swap
  · rw [ent2_of_width_le _ L r0 l (fun r hr => le_of_eq (hRr r hr)) (by omega)]
    apply Finset.sum_eq_zero
    intro j _
    rw [hrel.pz _ j l (Or.inr (by omega))]; ring
  rw [ent2_realAnalysis br N (2 * M - 1) J L hbr z hz hzl r0 l hr0,
    sum_range_tail_zero _ J (J + pj) (by omega)
      (fun j hj => by rw [hrel.pz _ j l (Or.inl hj)]; ring)]
  apply Finset.sum_congr rfl
  intro j hj
  have hj' : j < J := Finset.mem_range.1 hj
  rw [hrel.p r0 j l hr0 hj' hl]
  congr 1
  rw [sum_range_tail_zero _ N (N + pn) (by omega) (fun i hi => by
    rw [hrel.f0 i r0 hr0, ent2_of_length_le br.f i r0 (by rw [hbr.fl]; exact hi)]; ring)]
  apply Finset.sum_congr rfl
  intro i _
  rw [hrel.f0 i r0 hr0, hrel.w j hj', ent2_padNodal]

/-! ## T9.3 longitude derivative -/

/-- **T9.3** `real_basis_derivative_with_zero_imag (ι x) = ι (real_basis_derivative x)` for every
 array with an odd number of rows (the real layout; the code raises otherwise) -/
theorem zeroImagDerivative_iota (L pr pc : Nat) (x : List (List K)) (hodd : x.length % 2 = 1)
    (hx : ∀ r ∈ x, r.length = L) :
    zeroImagDerivative (iota L pr pc x) (L + pc) 0 = iota L pr pc (realDerivative x L) := by
  have hne : x ≠ [] := by intro h; rw [h] at hodd; simp at hodd
  have hDl : (realDerivative x L).length = x.length := by simp [realDerivative]
  have hDne : realDerivative x L ≠ [] := by
    intro h; rw [h] at hDl; simp at hDl; exact hne (List.eq_nil_of_length_eq_zero hDl.symm)
  apply ext_ent2 _ _ (L + pc)
  · simp only [zeroImagDerivative, List.length_map, List.length_range]
    rw [iota_length _ _ _ _ hne, iota_length _ _ _ _ hDne, hDl]
  · exact (derivative_rows _ _ (iota_rows L pr pc x hx)).2 0
  · exact iota_rows L pr pc _ (derivative_rows x L hx).1
  intro r l
  rw [ent2_zeroImagDerivative, iota_length _ _ _ _ hne]
  have hR : ∀ r, ent2 (iota L pr pc (realDerivative x L)) r l
      = if r = 1 then 0 else ent2 (realDerivative x L) (r - if r = 0 then 0 else 1) l :=
    fun r => ent2_iota L pr pc _ r l
  have hpos : 0 < x.length := by omega
  match r with
  | 0 =>
    rw [hR 0, ent2_iota_one, ent2_realDerivative]
    simp [hpos]
  | 1 =>
    rw [hR 1]
    simp
  | k + 2 =>
    have hRk : ent2 (iota L pr pc (realDerivative x L)) (k + 2) l
        = ent2 (realDerivative x L) (k + 1) l := by rw [hR]; simp
    rw [hRk, ent2_realDerivative]
    by_cases hin : k + 2 < x.length + 1 + pr
    swap
    · rw [if_neg hin, if_neg (by omega)]
    rw [if_pos hin]
    have e2 : k + 2 + 1 = src (k + 2) := by simp [src]
    have e3 : (0 + (k + 2) / 2 : Nat) = (k + 1 + 1) / 2 := by omega
    rw [e3]
    by_cases hpar : k % 2 = 0
    · -- fast row `k+2` is a cosine row: it reads the next row
      rw [if_pos (show (k + 2 + 1) % 2 = 1 by omega), if_pos (show (k + 1) % 2 = 1 by omega), e2,
        ent2_iota_src]
      by_cases hk : k + 1 < x.length
      · rw [if_pos hk]
      · rw [if_neg hk, ent2_of_length_le x (k + 2) l (by omega)]; ring
    · -- a sine row: it reads the previous row, which is never row 1
      rw [if_neg (show ¬ (k + 2 + 1) % 2 = 1 by omega), if_neg (show ¬ (k + 1) % 2 = 1 by omega),
        if_neg (show ¬ k + 1 = 0 by omega)]
      have e4 : k + 2 - 1 = src k := by unfold src; split <;> omega
      have e5 : k + 1 - 1 = k := by omega
      rw [e4, ent2_iota_src, e5]
      by_cases hk : k + 1 < x.length
      · rw [if_pos hk]
      · -- `k ≥ x.length - 1`, `k` odd and `x.length` odd: `k ≥ x.length`
        rw [if_neg hk, ent2_of_length_le x k l (by omega)]; ring


/-! ## T9.4 stacked = unstacked Fourier contraction -/

/-- **T9.4 (synthesis)** `einsum('ism,…smj->…ij')` against the reshaped `f` equals `_stack_m`
 followed by `einsum('im,…mj->…ij')`, for every `f` and every input with an even number of rows -/
theorem fastSynthStacked_eq (b : Basis K) (J : Nat) (x : List (List K)) (hx : x.length % 2 = 0)
    (hp : ∀ pm ∈ b.p, pm.length = J) : fastSynthStacked b J x = fastSynth b J x := by
  unfold fastSynthStacked fastSynth invFourier
  apply stacked_matMul
  · rw [invLegendre_length, invLegendre_length, evens_length, odds_length]
    have : (x.length + 1) / 2 = x.length / 2 := by omega
    rw [this]
  · exact invLegendre_rows _ _ J hp
  · exact invLegendre_rows _ _ J hp

/-- **T9.4 (analysis)** for every even row count of the fast layout -/
theorem fastAnalysisStacked_eq (b : Basis K) (H J L : Nat) (z : List (List K)) :
    fastAnalysisStacked b (2 * H) J L z = fastAnalysis b (2 * H) J L z := by
  unfold fastAnalysisStacked fastAnalysis
  have h := fwdFourier_evens_odds b.f (weight b.w z) H J
  have hH : 2 * H / 2 = H := by omega
  simp only [hH]
  rw [h.1, h.2]

/-! ## T9.5 the option record does not change results -/

/-- **T9.5 (synthesis)** every value of `stacked_fourier_transforms`, `reverse_einsum_arg_order` and
 `transform_precision` gives the unstacked, non-reversed result (commutativity of the contraction) -/
theorem fastSynthOpt_eq (o : Opts) (b : Basis K) (J : Nat) (x : List (List K))
    (hx : x.length % 2 = 0) (hp : ∀ pm ∈ b.p, pm.length = J) :
    fastSynthOpt o b J x = fastSynth b J x := by
  unfold fastSynthOpt
  simp only [invLegendreR_eq, matMulR_eq, ite_self]
  split
  · exact fastSynthStacked_eq b J x hx hp
  · rfl

/-- **T9.5 (analysis)** -/
theorem fastAnalysisOpt_eq (o : Opts) (b : Basis K) (H J L : Nat) (z : List (List K)) :
    fastAnalysisOpt o b (2 * H) J L z = fastAnalysis b (2 * H) J L z := by
  unfold fastAnalysisOpt
  simp only [fwdFourierR_eq, fwdLegendreR_eq, ite_self]
  split
  · exact fastAnalysisStacked_eq b H J L z
  · rfl

/-- two option records always agree -/
theorem fastSynthOpt_indep (o o' : Opts) (b : Basis K) (J : Nat) (x : List (List K))
    (hx : x.length % 2 = 0) (hp : ∀ pm ∈ b.p, pm.length = J) :
    fastSynthOpt o b J x = fastSynthOpt o' b J x := by
  rw [fastSynthOpt_eq o b J x hx hp, fastSynthOpt_eq o' b J x hx hp]

theorem fastAnalysisOpt_indep (o o' : Opts) (b : Basis K) (H J L : Nat) (z : List (List K)) :
    fastAnalysisOpt o b (2 * H) J L z = fastAnalysisOpt o' b (2 * H) J L z := by
  rw [fastAnalysisOpt_eq, fastAnalysisOpt_eq]

/-! ## clipping -/

theorem ent_clipMask (width nz j : Nat) :
    ent (clipMask width nz : List K) j = if j < width - nz then 1 else 0 := by
  unfold clipMask ent
  simp only [List.getD_eq_getElem?_getD, List.getElem?_map]
  rcases Nat.lt_or_ge j width with hj | hj
  · rw [List.getElem?_range hj]; rfl
  · rw [List.getElem?_eq_none (by simpa using hj)]
    simp; omega

/-- `clip_wavenumbers` commutes with `ι` (the fast layout zeroes `n + padding` trailing columns);
 both raise for `n ≤ 0` -/
theorem clip_iota (L pr pc : Nat) (n : Int) (x : List (List K)) (hx : ∀ r ∈ x, r.length = L) :
    clipWavenumbers L pc n (iota L pr pc x) = (clipWavenumbers L 0 n x).map (iota L pr pc) := by
  unfold clipWavenumbers
  split
  · rfl
  · simp only [Option.map_some, Nat.add_zero]
    congr 1
    apply mulLast_iota L pr pc x _ _ hx (by simp [clipMask]) (by simp [clipMask])
    intro j _
    rw [ent_clipMask, ent_clipMask]
    have : L + pc - (n.toNat + pc) = L - n.toNat := by omega
    rw [this]

/-! ## masks and modal axes -/

/-- `FastSphericalHarmonics.modal_axes[0]` is the `ι`-image of the real row axis -/
theorem fastMvals_eq_iota (M pr : Nat) : fastMvals M pr = iotaAxis 0 pr (realMvals M) := by
  simp [fastMvals_eq, realMvals_eq, iotaAxis]

/-- `modal_axes[1]` of the fast layout is the real column axis padded with zeros -/
theorem lvals_eq_pad (L pc : Nat) : lvals L pc = lvals L 0 ++ List.replicate pc 0 := by
  simp [lvals]

/-- `FastSphericalHarmonics.mask` is the `ι`-image of `RealSphericalHarmonics.mask`: row 1 and the
 padding are `False`, every other row is the real row -/
theorem fastMask_eq_iota (M L pr pc : Nat) (hM : 1 ≤ M) :
    fastMask M L pr pc = iotaWith false L pr pc (realMask M L) := by
  have hF : fastMask M L pr pc = (List.zipIdx (fastMvals M pr)).map fun mi => fastRow M L pc mi.1 mi.2 := rfl
  have hR : realMask M L = (realMvals M).map (realRow L) := rfl
  rw [hF, hR, fastMvals_eq, realMvals_eq]
  simp only [List.cons_append, List.zipIdx_cons, List.map_cons, iotaWith, Nat.zero_add]
  rw [fastRow_inside M L pc 0 0 (by omega) (by omega), fastRow_outside M L pc 0 1 (Or.inl rfl)]
  congr 2
  rw [List.zipIdx_append, List.map_append]
  congr 1
  · rw [zipIdx_map_congr _ _ _ (fun mi => realRow L mi.1 ++ List.replicate pc false)]
    · rw [zipIdx_map_fst' _ _ (fun m => realRow L m ++ List.replicate pc false), List.map_map]; rfl
    · intro m i hi1 hi2
      rw [mTail_length] at hi2
      exact fastRow_inside M L pc m i (by omega) (by omega)
  · rw [zipIdx_map_congr _ _ _ (fun _ => List.replicate (L + pc) false)]
    · simp
    · intro m i hi1 _
      rw [mTail_length] at hi1
      exact fastRow_outside M L pc m i (Or.inr (by omega))


end ring

/-! ## eigenvalue operations (fields: the code divides by `radius²`) -/
section field
variable {F : Type} [Field F]

theorem lvals_eq (L pc : Nat) : lvals L pc = lvals L 0 ++ List.replicate pc 0 := by
  simp [lvals]

theorem lapEig_length (r2 : F) (ls : List Nat) : (lapEig r2 ls).length = ls.length := by
  simp [lapEig]

theorem lvals_length (L pc : Nat) : (lvals L pc).length = L + pc := by simp [lvals]

theorem ent_lapEig_prefix (r2 : F) (L pc j : Nat) (hj : j < L) :
    ent (lapEig r2 (lvals L pc)) j = ent (lapEig r2 (lvals L 0)) j := by
  rw [lvals_eq L pc]
  unfold lapEig
  rw [List.map_append, ent_append, if_pos (by simpa [lvals] using hj)]

/-- `laplacian` commutes with `ι` -/
theorem laplacian_iota (r2 : F) (L pr pc : Nat) (x : List (List F)) (hx : ∀ r ∈ x, r.length = L) :
    laplacian r2 L pc (iota L pr pc x) = iota L pr pc (laplacian r2 L 0 x) := by
  unfold laplacian
  apply mulLast_iota L pr pc x _ _ hx (by simp [lapEig_length, lvals_length])
    (by simp [lapEig_length, lvals_length])
  intro j hj
  exact ent_lapEig_prefix r2 L pc j hj

theorem ent_invEig (r2 : F) (L pc j : Nat) :
    ent (invEig r2 L pc) j
      = if j < L + pc then (if j = 0 ∨ L ≤ j then 0 else 1 / ent (lapEig r2 (lvals L pc)) j) else 0 := by
  unfold invEig ent
  simp only [List.getD_eq_getElem?_getD, List.getElem?_map, List.getElem?_zipIdx]
  rcases Nat.lt_or_ge j (L + pc) with hj | hj
  · have hj' : j < (lapEig r2 (lvals L pc)).length := by simpa [lapEig_length, lvals_length] using hj
    rw [List.getElem?_eq_getElem hj', if_pos hj]
    simp
  · have hj' : (lapEig r2 (lvals L pc)).length ≤ j := by simpa [lapEig_length, lvals_length] using hj
    rw [List.getElem?_eq_none hj', if_neg (by omega)]
    simp

/-- `inverse_laplacian` commutes with `ι`: the inverse eigenvalues are set to `0` at `l = 0` and on
 the whole padding in the code itself, so no division by zero is involved -/
theorem inverseLaplacian_iota (r2 : F) (L pr pc : Nat) (x : List (List F))
    (hx : ∀ r ∈ x, r.length = L) :
    inverseLaplacian r2 L pc (iota L pr pc x) = iota L pr pc (inverseLaplacian r2 L 0 x) := by
  unfold inverseLaplacian
  apply mulLast_iota L pr pc x _ _ hx (by simp [invEig, lapEig_length, lvals_length])
    (by simp [invEig, lapEig_length, lvals_length])
  intro j hj
  rw [ent_invEig, ent_invEig, if_pos (show j < L + pc by omega), if_pos (show j < L + 0 by omega),
    ent_lapEig_prefix r2 L pc j hj]

/-- the eigenvalues and inverse eigenvalues vanish on the padding columns -/
theorem eig_padding_zero (r2 : F) (L pc j : Nat) (hj : L ≤ j) :
    ent (lapEig r2 (lvals L pc)) j = 0 ∧ ent (invEig r2 L pc) j = 0 := by
  constructor
  · rw [lvals_eq L pc]
    unfold lapEig
    rw [List.map_append, ent_append, if_neg (by simp [lvals]; omega)]
    simp only [List.map_replicate]
    unfold ent
    simp only [List.getD_eq_getElem?_getD, List.getElem?_replicate]
    split <;> simp
  · rw [ent_invEig]
    split
    · rw [if_pos (Or.inr hj)]
    · rfl


/-! ## the two `basis` properties of the code satisfy `IotaRel` -/
/-- the bases built by `RealSphericalHarmonics.basis` and `FastSphericalHarmonics.basis` from the
 same Fourier tables, the same Legendre table `P` (any table of shape `M × J × L`) and the same
 weights are `ι`-related, for every padding -/
theorem iotaRel_bases (cs sn : Nat → F) (s2p sp : F) (M N J L pn pr pj pc : Nat) (hM : 1 ≤ M)
    (P : List (List (List F))) (w : List F)
    (hPj : ∀ pm ∈ P, pm.length = J) (hPl : ∀ pm ∈ P, ∀ pj ∈ pm, pj.length = L) :
    IotaRel (realBasisOf (realBasis cs sn s2p sp M N) P w)
      (fastBasisOf (realBasisZeroImag cs sn s2p sp M N) P w pn pr pj pc (2 * M) J L) M L J where
  f0 := by
    intro i r _
    rw [ent2_fastBasisOf_f]; exact zeroImag_src cs sn s2p sp M N i r
  f1 := by
    intro i
    rw [ent2_fastBasisOf_f]; exact zeroImag_one cs sn s2p sp M N i
  fz := by
    intro i r hr
    rw [ent2_fastBasisOf_f]; exact zeroImag_tail cs sn s2p sp M N i r hM hr
  p := by
    intro r j l _ _ _
    rw [ent3_fastBasisOf, ent3_realBasisOf]
    have : src r / 2 = (r + 1) / 2 := by unfold src; split <;> omega
    rw [this]
  pz := by
    intro m j l h
    rw [ent3_fastBasisOf]; exact ent3_of_shape P J L m j l hPj hPl h
  w := by
    intro j _
    rw [ent_fastBasisOf_w]; rfl

/-- both bases have the shapes the transform theorems ask for -/
theorem bases_shaped (cs sn : Nat → F) (s2p sp : F) (M N J L pn pr pj pc : Nat)
    (P : List (List (List F))) (w : List F) (hP : P.length = M)
    (hPj : ∀ pm ∈ P, pm.length = J) (hPl : ∀ pm ∈ P, ∀ pj ∈ pm, pj.length = L) (hw : w.length = J) :
    Shaped (realBasisOf (realBasis cs sn s2p sp M N) P w) N (2 * M - 1) J L ∧
    Shaped (fastBasisOf (realBasisZeroImag cs sn s2p sp M N) P w pn pr pj pc (2 * M) J L)
      (N + pn) (M + pr / 2) (J + pj) (L + pc) :=
  ⟨realBasisOf_shaped _ P w M N J L (realBasis_length cs sn s2p sp M N).1 hP hPj hPl hw,
   fastBasisOf_shaped _ P w M N J L pn pr pj pc (realBasis_length cs sn s2p sp M N).2 hP hPj hPl hw⟩

end field

/-! ## non-vacuity: a concrete pair of bases over ℚ

`M = 2, L = 2, N = 3, J = 2`, paddings `(pn, pr, pj, pc) = (1, 2, 1, 1)` (so `H = 3`): the "cosine"
and "sine" tables, the norms, the Legendre table and the weights are arbitrary rationals. -/
section examples

def csQ (k : Nat) : ℚ := [1, -1 / 2, -1 / 2].getD k 0
def snQ (k : Nat) : ℚ := [0, 7 / 8, -7 / 8].getD k 0
def PQ : List (List (List ℚ)) := [[[1 / 2, 1 / 3], [1 / 2, -1 / 3]], [[0, 3 / 5], [0, 3 / 4]]]
def wQ : List ℚ := [1 / 2, 2 / 3]
def brQ : Basis ℚ := realBasisOf (realBasis csQ snQ (5 / 2) (7 / 4) 2 3) PQ wQ
def bfQ : Basis ℚ := fastBasisOf (realBasisZeroImag csQ snQ (5 / 2) (7 / 4) 2 3) PQ wQ 1 2 1 1 (2 * 2) 2 2
def xQ : List (List ℚ) := [[1, 2], [3, 4], [5, 6]]
def zQ : List (List ℚ) := [[1, -2], [3, 5], [-7, 10]]

theorem PQ_rows : ∀ pm ∈ PQ, pm.length = 2 := by decide
theorem PQ_cols : ∀ pm ∈ PQ, ∀ pj ∈ pm, pj.length = 2 := by decide

/-- the structural hypothesis of T9.1 / T9.2 holds for the bases the code builds -/
example : IotaRel brQ bfQ 2 2 2 :=
  iotaRel_bases csQ snQ (5 / 2) (7 / 4) 2 3 2 2 1 2 1 1 (by omega) PQ wQ PQ_rows PQ_cols

theorem shapedQ : Shaped brQ 3 (2 * 2 - 1) 2 2 ∧ Shaped bfQ (3 + 1) (2 + 2 / 2) (2 + 1) (2 + 1) :=
  bases_shaped csQ snQ (5 / 2) (7 / 4) 2 3 2 2 1 2 1 1 PQ wQ rfl PQ_rows PQ_cols rfl

/-- T9.1 instantiated: every hypothesis is discharged on the concrete object -/
example : fastSynth bfQ (2 + 1) (iota 2 2 1 xQ) = padNodal 1 1 2 (realSynth brQ 2 xQ) :=
  fastSynth_iota brQ bfQ 2 2 3 2 3 1 1 2 1 (by omega) (by omega) shapedQ.1 shapedQ.2
    (iotaRel_bases csQ snQ (5 / 2) (7 / 4) 2 3 2 2 1 2 1 1 (by omega) PQ wQ PQ_rows PQ_cols)
    xQ rfl (by decide)

/-- … and the common value is not trivial -/
example : realSynth brQ 2 xQ
    = [[193 / 105, 173 / 105], [166 / 105, 557 / 420], [-212 / 105, -1333 / 420]] := by
  simp [realSynth, invFourier, invLegendre, matMul, vecMat, vadd, scale, dotv, zerosN, brQ, realBasisOf,
    realBasis, pairs, dup, PQ, xQ, csQ, snQ, List.range_succ]
  norm_num

/-- T9.1 (strong form) instantiated on an input with junk in row 1 and in the padding -/
example : fastSynth bfQ (2 + 1) [[1, 2, 9], [7, 7, 7], [3, 4, 9], [5, 6, 9], [8, 8, 8], [9, 9, 9]]
    = padNodal 1 1 2 (realSynth brQ 2 (unIota (2 * 2) 2
        [[1, 2, 9], [7, 7, 7], [3, 4, 9], [5, 6, 9], [8, 8, 8], [9, 9, 9]])) :=
  fastSynth_eq_real brQ bfQ 2 2 3 2 3 1 1 1 (by omega) (by omega) shapedQ.1 shapedQ.2
    (iotaRel_bases csQ snQ (5 / 2) (7 / 4) 2 3 2 2 1 2 1 1 (by omega) PQ wQ PQ_rows PQ_cols)
    _ rfl (by decide)

example : unIota (2 * 2) 2 ([[1, 2, 9], [7, 7, 7], [3, 4, 9], [5, 6, 9], [8, 8, 8], [9, 9, 9]] : List (List ℚ))
    = xQ := by decide

/-- T9.2 instantiated -/
example : fastAnalysis bfQ (2 * 3) (2 + 1) (2 + 1) (padNodal 1 1 2 zQ)
    = iota 2 2 1 (realAnalysis brQ (2 * 2 - 1) 2 2 zQ) :=
  fastAnalysis_pad brQ bfQ 2 2 3 2 3 1 1 2 1 (by omega) (by omega) shapedQ.1 shapedQ.2
    (iotaRel_bases csQ snQ (5 / 2) (7 / 4) 2 3 2 2 1 2 1 1 (by omega) PQ wQ PQ_rows PQ_cols)
    zQ (by decide) (by decide)

example : realAnalysis brQ (2 * 2 - 1) 2 2 zQ = [[43 / 30, -61 / 45], [0, -11 / 5], [0, 1 / 4]] := by
  simp [realAnalysis, fwdLegendre, fwdFourier, weight, transposeM, col, vecMat, vadd, scale, zerosN, brQ,
    realBasisOf, realBasis, pairs, dup, PQ, wQ, zQ, csQ, snQ, List.range_succ]
  norm_num

/-- T9.3 instantiated -/
example : zeroImagDerivative (iota 2 2 1 xQ) (2 + 1) 0 = iota 2 2 1 (realDerivative xQ 2) :=
  zeroImagDerivative_iota 2 2 1 xQ (by decide) (by decide)

example : realDerivative xQ 2 = [[0, 0], [5, 6], [-3, -4]] := by
  simp [realDerivative, scale, zerosN, xQ, List.range_succ]

/-- masks -/
example : fastMask 2 3 2 1 = iotaWith false 3 2 1 (realMask 2 3) := fastMask_eq_iota 2 3 2 1 (by omega)

example : realMask 2 3 = [[true, true, true], [false, true, true], [false, true, true]] := by decide

example : fastMask 2 3 2 1 = [[true, true, true, false], [false, false, false, false],
    [false, true, true, false], [false, true, true, false], [false, false, false, false],
    [false, false, false, false]] := by decide

/-- clipping and the eigenvalue operations -/
example : clipWavenumbers 2 1 1 (iota 2 2 1 xQ) = (clipWavenumbers 2 0 1 xQ).map (iota 2 2 1) :=
  clip_iota 2 2 1 1 xQ (by decide)

example : clipWavenumbers 2 0 1 xQ = some [[1, 0], [3, 0], [5, 0]] := by
  simp [clipWavenumbers, mulLast, clipMask, xQ, List.range_succ]

example : laplacian (4 : ℚ) 2 1 (iota 2 2 1 xQ) = iota 2 2 1 (laplacian 4 2 0 xQ) :=
  laplacian_iota 4 2 2 1 xQ (by decide)

example : laplacian (4 : ℚ) 2 0 xQ = [[0, -1], [0, -2], [0, -3]] := by
  simp [laplacian, mulLast, lapEig, lvals, xQ, List.range_succ]
  norm_num

example : inverseLaplacian (4 : ℚ) 2 1 (iota 2 2 1 xQ) = iota 2 2 1 (inverseLaplacian 4 2 0 xQ) :=
  inverseLaplacian_iota 4 2 2 1 xQ (by decide)

example : inverseLaplacian (4 : ℚ) 2 0 xQ = [[0, -4], [0, -8], [0, -12]] := by
  simp [inverseLaplacian, mulLast, invEig, lapEig, lvals, xQ, List.range_succ]
  norm_num

/-- T9.4 / T9.5 instantiated: the stacked, reversed contraction with another precision hint -/
example : fastSynthStacked bfQ 3 (iota 2 2 1 xQ) = fastSynth bfQ 3 (iota 2 2 1 xQ) :=
  fastSynthStacked_eq bfQ 3 _ (by decide) shapedQ.2.pj

example : fastSynthOpt ⟨true, true, "highest"⟩ bfQ 3 (iota 2 2 1 xQ) = fastSynth bfQ 3 (iota 2 2 1 xQ) :=
  fastSynthOpt_eq _ bfQ 3 _ (by decide) shapedQ.2.pj

example : fastAnalysisOpt ⟨true, true, "float32"⟩ bfQ (2 * 3) 3 3 (padNodal 1 1 2 zQ)
    = fastAnalysis bfQ (2 * 3) 3 3 (padNodal 1 1 2 zQ) :=
  fastAnalysisOpt_eq _ bfQ 3 3 3 _

end examples

end Dino.C09
