import DinoProofs.Lemmas.SHEquiv
import DinoProofs.Lemmas.SHEquivLat
import DinoProofs.Lemmas.SHFastBlock

/-!
# C09 — the two spherical-harmonic implementations are observationally equivalent

`ι = Dino.SHEquiv.iota` is the fixed re-indexing from the layout of `RealSphericalHarmonics`
(`2M-1` rows `m = 0,+1,-1,…`) to the layout of `FastSphericalHarmonics` (`2M` rows `+0,-0,+1,-1,…`,
padded with `pr` zero rows and `pc` zero columns); `pad = padNodal` pads nodal arrays.
All statements are for arbitrary sizes `M, L, N, J`, arbitrary paddings and an arbitrary commutative
ring of scalars (a field where the code divides).

* `IotaRel br bf M L J` — the structural relation between the two `basis` values: `bf.f` is `br.f`
  with a zero column inserted at index 1 and zero columns from `2M` on, `bf.p[m]` is `br.p` at either
  row of the pair `m`, padded with zeros, `bf.w` extends `br.w`.
  `iotaRel_bases`: the two `basis` properties of the code (`realBasisOf (realBasis …) P w` and
  `fastBasisOf (realBasisZeroImag …) P w …`) satisfy it, for every Legendre table `P`.
* T9.1 `fastSynth_iota`, and the stronger `fastSynth_eq_real` (row 1 and the padding of the input
  are ignored); T9.2 `fastAnalysis_pad` (row 1 and all padding of the result are exactly zero).
* T9.3 `zeroImagDerivative_iota`; `fastMask_eq_iota`, `fastMvals_eq_iota`, `clip_iota`,
  `laplacian_iota`, `inverseLaplacian_iota`.
* T9.4 `fastSynthStacked_eq`, `fastAnalysisStacked_eq`; T9.5 `fastSynthOpt_eq`,
  `fastAnalysisOpt_eq` (every value of the option record gives the same result).
* Even padding: `fastModalPadding_even` (`2M + pr = 2·(M + pr/2)` from `_round_to_multiple(2M, 2·base·xs)`),
  hence `fastSynth_iota_built`, `fastAnalysis_pad_built` for the shapes the code builds.
* Latitude derivatives (`cos_lat_d_dlat`, `sec_lat_d_dlat_cos2`): exact `ι`-commutation is FALSE with column
  padding — `b[:, -1] = 0` zeroes the last *padded* column, so the fast operator writes
  `cr(L-1)·√((L²−m²)/(4L²−1))·x[m][L-1]` into padding column `L` (`fastDD_iota_colL`).  Proved instead:
  `fastDD_iota_entries` (every entry), `fastDD_iota_unIota` (block equality), `fastDD_iota_padding_zero`,
  `fastDD_iota_unpadded` (`pc = 0`: exact), `clip_fastDD_iota` / `laplacian_fastDD_iota` /
  `inverseLaplacian_fastDD_iota` / `fastSynth_fastDD_iota` (every following masked operation and the
  synthesis discard the column), `fastDD_block` (`√0 = 0`: block locality for arbitrary fast arrays).
* `cos_lat_grad`, `div_cos_lat`, `curl_cos_lat`: `…_iota_clip` (exact), `…_iota_noclip` (equal outside
  column `L`, on the block, value in column `L`); `kCross_iota`; `integrate_pad`.
* Composition of unclipped operators (review 2, N-C09-b; side condition `√0 = 0`, true of `numpy.sqrt`):
  `fastCosLatGrad_block`, `fastDivCosLat_block`, `fastCurlCosLat_block`, `zeroImagDerivative_block`,
  `kCross_block` — for EVERY array of the fast shape (not only `ι`-images) and both values of `clip` the
  unpadded block of the fast result is the real operator applied to the unpadded block(s); the results are
  fast-shaped (`…_fastShaped`), so the statements chain (`fastDivCosLat_fastCosLatGrad_block` / `…_iota`).
  `fastDD_congr_eqOff`, `fastCosLatGrad_congr_eqOff`, `fastDivCosLat_congr_eqOff`,
  `fastCurlCosLat_congr_eqOff`: "equal outside padding column `L`" is a congruence, so a composition on
  `ι`-images equals `ι` of the reference composition on every entry outside column `L`
  (`fastDivCosLat_fastCosLatGrad_iota_eqOff`), and row 1 / the other padding stay zero
  (`eqOff_iota_padding_zero`).
-/
namespace Dino.C09
open Finset Dino.Lin Dino.SH Dino.SHEquiv Dino.Fourier

section ring
variable {K : Type} [CommRing K]

/-- the fast basis is the `ι`-image of the real basis -/
structure IotaRel (br bf : Basis K) (M L J : Nat) : Prop where
  f0 : ∀ i r, r < 2 * M - 1 → ent2 bf.f i (src r) = ent2 br.f i r
  f1 : ∀ i, ent2 bf.f i 1 = 0
  fz : ∀ i r, 2 * M ≤ r → ent2 bf.f i r = 0
  p : ∀ r j l, r < 2 * M - 1 → j < J → l < L → ent3 bf.p (src r / 2) j l = ent3 br.p r j l
  pz : ∀ m j l, J ≤ j ∨ L ≤ l → ent3 bf.p m j l = 0
  w : ∀ j, j < J → ent bf.w j = ent br.w j

/-! ## T9.1 synthesis -/

/-- core of T9.1: whatever the fast-layout input `y` holds in row 1 and in its padding, the fast
 synthesis of `y` is the padded real synthesis of any `x` that agrees with `y` on the rows `src r` -/
theorem fastSynth_eq_of_rel (br bf : Basis K) (M L N J H pn pj pc : Nat) (hM : 1 ≤ M) (hH : M ≤ H)
    (hbr : Shaped br N (2 * M - 1) J L) (hbf : Shaped bf (N + pn) H (J + pj) (L + pc))
    (hrel : IotaRel br bf M L J) (x y : List (List K))
    (hyl : y.length = 2 * H) (hy : ∀ row ∈ y, row.length ≤ L + pc)
    (hx : ∀ row ∈ x, row.length ≤ L)
    (hxy : ∀ r l, r < 2 * M - 1 → l < L → ent2 y (src r) l = ent2 x r l) :
    fastSynth bf (J + pj) y = padNodal pn pj J (realSynth br J x) := by
  apply ext_ent2 _ _ (J + pj)
  · rw [fastSynth_length, padNodal_length, realSynth_length, hbf.fl, hbr.fl]
  · exact fastSynth_rows bf _ H _ _ hbf y
  · exact padNodal_rows pn pj J _ (realSynth_rows br N _ J L hbr x)
  intro i j
  rw [ent2_padNodal, ent2_fastSynth bf (N + pn) H (J + pj) (L + pc) hbf y hyl hy]
  by_cases hj : j < J
  · rw [ent2_realSynth br N (2 * M - 1) J L hbr x hx,
      sum_src _ (2 * M - 1) (2 * H) (by omega) (by omega) (by rw [hrel.f1]; ring)
        (fun r hr => by rw [hrel.fz i r (by omega)]; ring)]
    apply Finset.sum_congr rfl
    intro r hr
    have hr' : r < 2 * M - 1 := Finset.mem_range.1 hr
    rw [hrel.f0 i r hr']
    congr 1
    rw [sum_range_tail_zero _ L (L + pc) (by omega)
      (fun l hl => by rw [hrel.pz _ j l (Or.inr hl)]; ring)]
    apply Finset.sum_congr rfl
    intro l hl
    have hl' : l < L := Finset.mem_range.1 hl
    rw [hrel.p r j l hr' hj hl', hxy r l hr' hl']
  · have hj' : J ≤ j := by omega
    rw [ent2_of_width_le _ J i j (fun r hr => le_of_eq (realSynth_rows br N _ J L hbr x r hr)) hj']
    apply Finset.sum_eq_zero
    intro r _
    have : ∑ l ∈ range (L + pc), ent3 bf.p (r / 2) j l * ent2 y r l = 0 := by
      apply Finset.sum_eq_zero
      intro l _
      rw [hrel.pz _ j l (Or.inl hj')]; ring
    rw [this]; ring


/-- **T9.1** `Fast.synth (ι x) = pad (Real.synth x)` -/
theorem fastSynth_iota (br bf : Basis K) (M L N J H pn pj pr pc : Nat) (hM : 1 ≤ M)
    (hpr : 2 * M + pr = 2 * H)
    (hbr : Shaped br N (2 * M - 1) J L) (hbf : Shaped bf (N + pn) H (J + pj) (L + pc))
    (hrel : IotaRel br bf M L J) (x : List (List K))
    (hxl : x.length = 2 * M - 1) (hx : ∀ row ∈ x, row.length = L) :
    fastSynth bf (J + pj) (iota L pr pc x) = padNodal pn pj J (realSynth br J x) := by
  have hne : x ≠ [] := by intro h; rw [h] at hxl; simp at hxl; omega
  apply fastSynth_eq_of_rel br bf M L N J H pn pj pc hM (by omega) hbr hbf hrel x
  · rw [iota_length _ _ _ _ hne, hxl]; omega
  · intro row hrow; rw [iota_rows L pr pc x hx row hrow]
  · intro row hrow; rw [hx row hrow]
  · intro r l _ _; exact ent2_iota_src L pr pc x r l

/-- **T9.1, strong form**: the fast synthesis of *any* array of the fast shape is the padded real
 synthesis of its `ι`-preimage — row 1 and the padding rows / columns of the input have no
 influence on the result -/
theorem fastSynth_eq_real (br bf : Basis K) (M L N J H pn pj pc : Nat) (hM : 1 ≤ M) (hH : M ≤ H)
    (hbr : Shaped br N (2 * M - 1) J L) (hbf : Shaped bf (N + pn) H (J + pj) (L + pc))
    (hrel : IotaRel br bf M L J) (y : List (List K))
    (hyl : y.length = 2 * H) (hy : ∀ row ∈ y, row.length = L + pc) :
    fastSynth bf (J + pj) y = padNodal pn pj J (realSynth br J (unIota (2 * M) L y)) := by
  apply fastSynth_eq_of_rel br bf M L N J H pn pj pc hM hH hbr hbf hrel _ y hyl
  · intro row hrow; rw [hy row hrow]
  · intro row hrow
    rw [unIota_rows (2 * M) L y (fun r hr => by rw [hy r hr]; omega) row hrow]
  · intro r l hr hl
    rw [ent2_unIota, if_pos ⟨hl, src_lt r (2 * M) (by omega)⟩]

/-! ## T9.2 analysis -/

theorem exists_src (r : Nat) (h : r ≠ 1) : ∃ r0, r = src r0 := by
  refine ⟨if r = 0 then 0 else r - 1, ?_⟩
  unfold src
  split
  · rename_i h0; simp [h0]
  · rename_i h0
    have : r - 1 ≠ 0 := by omega
    simp [this]; omega

/-- **T9.2** the fast analysis of the padded nodal field is `ι` of the real analysis: row 1, the
 padding rows and the padding columns of the result are exactly zero -/
theorem fastAnalysis_pad (br bf : Basis K) (M L N J H pn pj pr pc : Nat) (hM : 1 ≤ M)
    (hpr : 2 * M + pr = 2 * H)
    (hbr : Shaped br N (2 * M - 1) J L) (hbf : Shaped bf (N + pn) H (J + pj) (L + pc))
    (hrel : IotaRel br bf M L J) (z : List (List K))
    (hz : ∀ zi ∈ z, zi.length = J) (hzl : z.length ≤ N) :
    fastAnalysis bf (2 * H) (J + pj) (L + pc) (padNodal pn pj J z)
      = iota L pr pc (realAnalysis br (2 * M - 1) J L z) := by
  have hRl := realAnalysis_length br N (2 * M - 1) J L hbr z
  have hRr := realAnalysis_rows br N (2 * M - 1) J L hbr (2 * M - 1) z
  apply ext_ent2 _ _ (L + pc)
  · rw [fastAnalysis_length bf (N + pn) H (J + pj) (L + pc) hbf,
      iota_length _ _ _ _ (by intro h; rw [h] at hRl; simp at hRl; omega), hRl]
    omega
  · exact fastAnalysis_rows bf _ H _ _ hbf _ _
  · exact iota_rows L pr pc _ hRr
  intro r l
  by_cases hr : r < 2 * H
  swap
  · rw [ent2_of_length_le _ r l (by
      rw [fastAnalysis_length bf (N + pn) H (J + pj) (L + pc) hbf]; omega), ent2_iota]
    split
    · rfl
    · rw [ent2_of_length_le _ _ l (by rw [hRl]; split <;> omega)]
  rw [ent2_fastAnalysis bf (N + pn) H (J + pj) (L + pc) hbf _
    (padNodal_rows pn pj J z hz) (by rw [padNodal_length]; omega) r l hr]
  by_cases h1 : r = 1
  · subst h1
    rw [ent2_iota_one]
    apply Finset.sum_eq_zero
    intro j _
    have : ∑ i ∈ range (N + pn), ent2 bf.f i 1 * (ent bf.w j * ent2 (padNodal pn pj J z) i j) = 0 := by
      apply Finset.sum_eq_zero
      intro i _
      rw [hrel.f1]; ring
    rw [this]; ring
  obtain ⟨r0, rfl⟩ := exists_src r h1
  rw [ent2_iota_src]
  by_cases hr0 : r0 < 2 * M - 1
  swap
  · rw [ent2_of_length_le _ r0 l (by rw [hRl]; omega)]
    apply Finset.sum_eq_zero
    intro j _
    have : ∑ i ∈ range (N + pn), ent2 bf.f i (src r0) * (ent bf.w j * ent2 (padNodal pn pj J z) i j)
        = 0 := by
      apply Finset.sum_eq_zero
      intro i _
      rw [hrel.fz i (src r0) (by unfold src; split <;> omega)]; ring
    rw [this]; ring
  by_cases hl : l < L
  swap
  · rw [ent2_of_width_le _ L r0 l (fun r hr => le_of_eq (hRr r hr)) (by omega)]
    apply Finset.sum_eq_zero
    intro j _
    rw [hrel.pz _ j l (Or.inr (by omega))]; ring
  rw [ent2_realAnalysis br N (2 * M - 1) J L hbr z hz hzl r0 l hr0,
    sum_range_tail_zero _ J (J + pj) (by omega)
      (fun j hj => by rw [hrel.pz _ j l (Or.inl hj)]; ring)]
  apply Finset.sum_congr rfl
  intro j hj
  have hj' : j < J := Finset.mem_range.1 hj
  rw [hrel.p r0 j l hr0 hj' hl]
  congr 1
  rw [sum_range_tail_zero _ N (N + pn) (by omega) (fun i hi => by
    rw [hrel.f0 i r0 hr0, ent2_of_length_le br.f i r0 (by rw [hbr.fl]; exact hi)]; ring)]
  apply Finset.sum_congr rfl
  intro i _
  rw [hrel.f0 i r0 hr0, hrel.w j hj', ent2_padNodal]

/-! ## T9.3 longitude derivative -/

/-- **T9.3** `real_basis_derivative_with_zero_imag (ι x) = ι (real_basis_derivative x)` for every
 array with an odd number of rows (the real layout; the code raises otherwise) -/
theorem zeroImagDerivative_iota (L pr pc : Nat) (x : List (List K)) (hodd : x.length % 2 = 1)
    (hx : ∀ r ∈ x, r.length = L) :
    zeroImagDerivative (iota L pr pc x) (L + pc) 0 = iota L pr pc (realDerivative x L) := by
  have hne : x ≠ [] := by intro h; rw [h] at hodd; simp at hodd
  have hDl : (realDerivative x L).length = x.length := by simp [realDerivative]
  have hDne : realDerivative x L ≠ [] := by
    intro h; rw [h] at hDl; simp at hDl; exact hne (List.eq_nil_of_length_eq_zero hDl.symm)
  apply ext_ent2 _ _ (L + pc)
  · simp only [zeroImagDerivative, List.length_map, List.length_range]
    rw [iota_length _ _ _ _ hne, iota_length _ _ _ _ hDne, hDl]
  · exact (derivative_rows _ _ (iota_rows L pr pc x hx)).2 0
  · exact iota_rows L pr pc _ (derivative_rows x L hx).1
  intro r l
  rw [ent2_zeroImagDerivative, iota_length _ _ _ _ hne]
  have hR : ∀ r, ent2 (iota L pr pc (realDerivative x L)) r l
      = if r = 1 then 0 else ent2 (realDerivative x L) (r - if r = 0 then 0 else 1) l :=
    fun r => ent2_iota L pr pc _ r l
  have hpos : 0 < x.length := by omega
  match r with
  | 0 =>
    rw [hR 0, ent2_iota_one, ent2_realDerivative]
    simp [hpos]
  | 1 =>
    rw [hR 1]
    simp
  | k + 2 =>
    have hRk : ent2 (iota L pr pc (realDerivative x L)) (k + 2) l
        = ent2 (realDerivative x L) (k + 1) l := by rw [hR]; simp
    rw [hRk, ent2_realDerivative]
    by_cases hin : k + 2 < x.length + 1 + pr
    swap
    · rw [if_neg hin, if_neg (by omega)]
    rw [if_pos hin]
    have e2 : k + 2 + 1 = src (k + 2) := by simp [src]
    have e3 : (0 + (k + 2) / 2 : Nat) = (k + 1 + 1) / 2 := by omega
    rw [e3]
    by_cases hpar : k % 2 = 0
    · -- fast row `k+2` is a cosine row: it reads the next row
      rw [if_pos (show (k + 2 + 1) % 2 = 1 by omega), if_pos (show (k + 1) % 2 = 1 by omega), e2,
        ent2_iota_src]
      by_cases hk : k + 1 < x.length
      · rw [if_pos hk]
      · rw [if_neg hk, ent2_of_length_le x (k + 2) l (by omega)]; ring
    · -- a sine row: it reads the previous row, which is never row 1
      rw [if_neg (show ¬ (k + 2 + 1) % 2 = 1 by omega), if_neg (show ¬ (k + 1) % 2 = 1 by omega),
        if_neg (show ¬ k + 1 = 0 by omega)]
      have e4 : k + 2 - 1 = src k := by unfold src; split <;> omega
      have e5 : k + 1 - 1 = k := by omega
      rw [e4, ent2_iota_src, e5]
      by_cases hk : k + 1 < x.length
      · rw [if_pos hk]
      · -- `k ≥ x.length - 1`, `k` odd and `x.length` odd: `k ≥ x.length`
        rw [if_neg hk, ent2_of_length_le x k l (by omega)]; ring


/-! ## T9.4 stacked = unstacked Fourier contraction -/

/-- **T9.4 (synthesis)** `einsum('ism,…smj->…ij')` against the reshaped `f` equals `_stack_m`
 followed by `einsum('im,…mj->…ij')`, for every `f` and every input with an even number of rows -/
theorem fastSynthStacked_eq (b : Basis K) (J : Nat) (x : List (List K)) (hx : x.length % 2 = 0)
    (hp : ∀ pm ∈ b.p, pm.length = J) : fastSynthStacked b J x = fastSynth b J x := by
  unfold fastSynthStacked fastSynth invFourier
  apply stacked_matMul
  · rw [invLegendre_length, invLegendre_length, evens_length, odds_length]
    have : (x.length + 1) / 2 = x.length / 2 := by omega
    rw [this]
  · exact invLegendre_rows _ _ J hp
  · exact invLegendre_rows _ _ J hp

/-- **T9.4 (analysis)** for every even row count of the fast layout -/
theorem fastAnalysisStacked_eq (b : Basis K) (H J L : Nat) (z : List (List K)) :
    fastAnalysisStacked b (2 * H) J L z = fastAnalysis b (2 * H) J L z := by
  unfold fastAnalysisStacked fastAnalysis
  have h := fwdFourier_evens_odds b.f (weight b.w z) H J
  have hH : 2 * H / 2 = H := by omega
  simp only [hH]
  rw [h.1, h.2]

/-! ## T9.5 the option record does not change results -/

/-- **T9.5 (synthesis)** every value of `stacked_fourier_transforms`, `reverse_einsum_arg_order` and
 `transform_precision` gives the unstacked, non-reversed result (commutativity of the contraction) -/
theorem fastSynthOpt_eq (o : Opts) (b : Basis K) (J : Nat) (x : List (List K))
    (hx : x.length % 2 = 0) (hp : ∀ pm ∈ b.p, pm.length = J) :
    fastSynthOpt o b J x = fastSynth b J x := by
  unfold fastSynthOpt
  simp only [invLegendreR_eq, matMulR_eq, ite_self]
  split
  · exact fastSynthStacked_eq b J x hx hp
  · rfl

/-- **T9.5 (analysis)** -/
theorem fastAnalysisOpt_eq (o : Opts) (b : Basis K) (H J L : Nat) (z : List (List K)) :
    fastAnalysisOpt o b (2 * H) J L z = fastAnalysis b (2 * H) J L z := by
  unfold fastAnalysisOpt
  simp only [fwdFourierR_eq, fwdLegendreR_eq, ite_self]
  split
  · exact fastAnalysisStacked_eq b H J L z
  · rfl

/-- two option records always agree -/
theorem fastSynthOpt_indep (o o' : Opts) (b : Basis K) (J : Nat) (x : List (List K))
    (hx : x.length % 2 = 0) (hp : ∀ pm ∈ b.p, pm.length = J) :
    fastSynthOpt o b J x = fastSynthOpt o' b J x := by
  rw [fastSynthOpt_eq o b J x hx hp, fastSynthOpt_eq o' b J x hx hp]

theorem fastAnalysisOpt_indep (o o' : Opts) (b : Basis K) (H J L : Nat) (z : List (List K)) :
    fastAnalysisOpt o b (2 * H) J L z = fastAnalysisOpt o' b (2 * H) J L z := by
  rw [fastAnalysisOpt_eq, fastAnalysisOpt_eq]

/-! ## clipping -/

theorem ent_clipMask (width nz j : Nat) :
    ent (clipMask width nz : List K) j = if j < width - nz then 1 else 0 := by
  unfold clipMask ent
  simp only [List.getD_eq_getElem?_getD, List.getElem?_map]
  rcases Nat.lt_or_ge j width with hj | hj
  · rw [List.getElem?_range hj]; rfl
  · rw [List.getElem?_eq_none (by simpa using hj)]
    simp; omega

/-- `clip_wavenumbers` commutes with `ι` (the fast layout zeroes `n + padding` trailing columns);
 both raise for `n ≤ 0` -/
theorem clip_iota (L pr pc : Nat) (n : Int) (x : List (List K)) (hx : ∀ r ∈ x, r.length = L) :
    clipWavenumbers L pc n (iota L pr pc x) = (clipWavenumbers L 0 n x).map (iota L pr pc) := by
  unfold clipWavenumbers
  split
  · rfl
  · simp only [Option.map_some, Nat.add_zero]
    congr 1
    apply mulLast_iota L pr pc x _ _ hx (by simp [clipMask]) (by simp [clipMask])
    intro j _
    rw [ent_clipMask, ent_clipMask]
    have : L + pc - (n.toNat + pc) = L - n.toNat := by omega
    rw [this]

/-! ## masks and modal axes -/

/-- `FastSphericalHarmonics.modal_axes[0]` is the `ι`-image of the real row axis -/
theorem fastMvals_eq_iota (M pr : Nat) : fastMvals M pr = iotaAxis 0 pr (realMvals M) := by
  simp [fastMvals_eq, realMvals_eq, iotaAxis]

/-- `modal_axes[1]` of the fast layout is the real column axis padded with zeros -/
theorem lvals_eq_pad (L pc : Nat) : lvals L pc = lvals L 0 ++ List.replicate pc 0 := by
  simp [lvals]

/-- `FastSphericalHarmonics.mask` is the `ι`-image of `RealSphericalHarmonics.mask`: row 1 and the
 padding are `False`, every other row is the real row -/
theorem fastMask_eq_iota (M L pr pc : Nat) (hM : 1 ≤ M) :
    fastMask M L pr pc = iotaWith false L pr pc (realMask M L) := by
  have hF : fastMask M L pr pc = (List.zipIdx (fastMvals M pr)).map fun mi => fastRow M L pc mi.1 mi.2 := rfl
  have hR : realMask M L = (realMvals M).map (realRow L) := rfl
  rw [hF, hR, fastMvals_eq, realMvals_eq]
  simp only [List.cons_append, List.zipIdx_cons, List.map_cons, iotaWith, Nat.zero_add]
  rw [fastRow_inside M L pc 0 0 (by omega) (by omega), fastRow_outside M L pc 0 1 (Or.inl rfl)]
  congr 2
  rw [List.zipIdx_append, List.map_append]
  congr 1
  · rw [zipIdx_map_congr _ _ _ (fun mi => realRow L mi.1 ++ List.replicate pc false)]
    · rw [zipIdx_map_fst' _ _ (fun m => realRow L m ++ List.replicate pc false), List.map_map]; rfl
    · intro m i hi1 hi2
      rw [mTail_length] at hi2
      exact fastRow_inside M L pc m i (by omega) (by omega)
  · rw [zipIdx_map_congr _ _ _ (fun _ => List.replicate (L + pc) false)]
    · simp
    · intro m i hi1 _
      rw [mTail_length] at hi1
      exact fastRow_outside M L pc m i (Or.inr (by omega))


end ring

/-! ## eigenvalue operations (fields: the code divides by `radius²`) -/
section field
variable {F : Type} [Field F]

theorem lvals_eq (L pc : Nat) : lvals L pc = lvals L 0 ++ List.replicate pc 0 := by
  simp [lvals]

theorem lapEig_length (r2 : F) (ls : List Nat) : (lapEig r2 ls).length = ls.length := by
  simp [lapEig]

theorem lvals_length (L pc : Nat) : (lvals L pc).length = L + pc := by simp [lvals]

theorem ent_lapEig_prefix (r2 : F) (L pc j : Nat) (hj : j < L) :
    ent (lapEig r2 (lvals L pc)) j = ent (lapEig r2 (lvals L 0)) j := by
  rw [lvals_eq L pc]
  unfold lapEig
  rw [List.map_append, ent_append, if_pos (by simpa [lvals] using hj)]

/-- `laplacian` commutes with `ι` -/
theorem laplacian_iota (r2 : F) (L pr pc : Nat) (x : List (List F)) (hx : ∀ r ∈ x, r.length = L) :
    laplacian r2 L pc (iota L pr pc x) = iota L pr pc (laplacian r2 L 0 x) := by
  unfold laplacian
  apply mulLast_iota L pr pc x _ _ hx (by simp [lapEig_length, lvals_length])
    (by simp [lapEig_length, lvals_length])
  intro j hj
  exact ent_lapEig_prefix r2 L pc j hj

theorem ent_invEig (r2 : F) (L pc j : Nat) :
    ent (invEig r2 L pc) j
      = if j < L + pc then (if j = 0 ∨ L ≤ j then 0 else 1 / ent (lapEig r2 (lvals L pc)) j) else 0 := by
  unfold invEig ent
  simp only [List.getD_eq_getElem?_getD, List.getElem?_map, List.getElem?_zipIdx]
  rcases Nat.lt_or_ge j (L + pc) with hj | hj
  · have hj' : j < (lapEig r2 (lvals L pc)).length := by simpa [lapEig_length, lvals_length] using hj
    rw [List.getElem?_eq_getElem hj', if_pos hj]
    simp
  · have hj' : (lapEig r2 (lvals L pc)).length ≤ j := by simpa [lapEig_length, lvals_length] using hj
    rw [List.getElem?_eq_none hj', if_neg (by omega)]
    simp

/-- `inverse_laplacian` commutes with `ι`: the inverse eigenvalues are set to `0` at `l = 0` and on
 the whole padding in the code itself, so no division by zero is involved -/
theorem inverseLaplacian_iota (r2 : F) (L pr pc : Nat) (x : List (List F))
    (hx : ∀ r ∈ x, r.length = L) :
    inverseLaplacian r2 L pc (iota L pr pc x) = iota L pr pc (inverseLaplacian r2 L 0 x) := by
  unfold inverseLaplacian
  apply mulLast_iota L pr pc x _ _ hx (by simp [invEig, lapEig_length, lvals_length])
    (by simp [invEig, lapEig_length, lvals_length])
  intro j hj
  rw [ent_invEig, ent_invEig, if_pos (show j < L + pc by omega), if_pos (show j < L + 0 by omega),
    ent_lapEig_prefix r2 L pc j hj]

/-- the eigenvalues and inverse eigenvalues vanish on the padding columns -/
theorem eig_padding_zero (r2 : F) (L pc j : Nat) (hj : L ≤ j) :
    ent (lapEig r2 (lvals L pc)) j = 0 ∧ ent (invEig r2 L pc) j = 0 := by
  constructor
  · rw [lvals_eq L pc]
    unfold lapEig
    rw [List.map_append, ent_append, if_neg (by simp [lvals]; omega)]
    simp only [List.map_replicate]
    unfold ent
    simp only [List.getD_eq_getElem?_getD, List.getElem?_replicate]
    split <;> simp
  · rw [ent_invEig]
    split
    · rw [if_pos (Or.inr hj)]
    · rfl


/-! ## the two `basis` properties of the code satisfy `IotaRel` -/
/-- the bases built by `RealSphericalHarmonics.basis` and `FastSphericalHarmonics.basis` from the
 same Fourier tables, the same Legendre table `P` (any table of shape `M × J × L`) and the same
 weights are `ι`-related, for every padding -/
theorem iotaRel_bases (cs sn : Nat → F) (s2p sp : F) (M N J L pn pr pj pc : Nat) (hM : 1 ≤ M)
    (P : List (List (List F))) (w : List F)
    (hPj : ∀ pm ∈ P, pm.length = J) (hPl : ∀ pm ∈ P, ∀ pj ∈ pm, pj.length = L) :
    IotaRel (realBasisOf (realBasis cs sn s2p sp M N) P w)
      (fastBasisOf (realBasisZeroImag cs sn s2p sp M N) P w pn pr pj pc (2 * M) J L) M L J where
  f0 := by
    intro i r _
    rw [ent2_fastBasisOf_f]; exact zeroImag_src cs sn s2p sp M N i r
  f1 := by
    intro i
    rw [ent2_fastBasisOf_f]; exact zeroImag_one cs sn s2p sp M N i
  fz := by
    intro i r hr
    rw [ent2_fastBasisOf_f]; exact zeroImag_tail cs sn s2p sp M N i r hM hr
  p := by
    intro r j l _ _ _
    rw [ent3_fastBasisOf, ent3_realBasisOf]
    have : src r / 2 = (r + 1) / 2 := by unfold src; split <;> omega
    rw [this]
  pz := by
    intro m j l h
    rw [ent3_fastBasisOf]; exact ent3_of_shape P J L m j l hPj hPl h
  w := by
    intro j _
    rw [ent_fastBasisOf_w]; rfl

/-- both bases have the shapes the transform theorems ask for -/
theorem bases_shaped (cs sn : Nat → F) (s2p sp : F) (M N J L pn pr pj pc : Nat)
    (P : List (List (List F))) (w : List F) (hP : P.length = M)
    (hPj : ∀ pm ∈ P, pm.length = J) (hPl : ∀ pm ∈ P, ∀ pj ∈ pm, pj.length = L) (hw : w.length = J) :
    Shaped (realBasisOf (realBasis cs sn s2p sp M N) P w) N (2 * M - 1) J L ∧
    Shaped (fastBasisOf (realBasisZeroImag cs sn s2p sp M N) P w pn pr pj pc (2 * M) J L)
      (N + pn) (M + pr / 2) (J + pj) (L + pc) :=
  ⟨realBasisOf_shaped _ P w M N J L (realBasis_length cs sn s2p sp M N).1 hP hPj hPl hw,
   fastBasisOf_shaped _ P w M N J L pn pr pj pc (realBasis_length cs sn s2p sp M N).2 hP hPj hPl hw⟩

end field

/-! ## C09-2: the modal row padding of the fast layout is even

`modal_shape[0] = _round_to_multiple(2M, 2·base·x_shards)` is a multiple of `2·base·x_shards`, hence even
and `≥ 2M`: the hypothesis `2*M + pr = 2*H` of `fastSynth_iota` / `fastAnalysis_pad` holds for the
shapes the code builds, with exactly the `H = M + pr/2` of `bases_shaped`. -/
section padding

theorem le_roundToMultiple (x m : Nat) (hm : 1 ≤ m) : x ≤ roundToMultiple x m := by
  unfold roundToMultiple
  have := Nat.lt_mul_div_succ (x + m - 1) (show 0 < m by omega)
  rw [Nat.mul_add, Nat.mul_one] at this
  omega

theorem roundToMultiple_dvd (x m : Nat) : m ∣ roundToMultiple x m := ⟨_, rfl⟩

theorem baseOf_pos (base : Nat) : 1 ≤ baseOf base := by
  unfold baseOf; split <;> omega

/-- the padded number of modal rows is even and at least `2M` -/
theorem fastModalShape_rows (M L base xs ys : Nat) (hxs : 1 ≤ xs) :
    2 * M ≤ (fastModalShape M L base xs ys).1 ∧ (fastModalShape M L base xs ys).1 % 2 = 0 := by
  have hb := baseOf_pos base
  have hpos : 1 ≤ 2 * baseOf base * xs := Nat.mul_pos (by omega) (by omega)
  refine ⟨le_roundToMultiple _ _ hpos, ?_⟩
  obtain ⟨q, hq⟩ := roundToMultiple_dvd (2 * M) (2 * baseOf base * xs)
  show roundToMultiple (2 * M) (2 * baseOf base * xs) % 2 = 0
  rw [hq, Nat.mul_assoc, Nat.mul_assoc]
  exact Nat.mul_mod_right 2 _

/-- **C09-2** `modal_padding[0]` is even: `2M + pr = 2·(M + pr/2)` for every `M, L`, every
 `base_shape_multiple` (including `None`/`0`) and every mesh with `x_shards ≥ 1` -/
theorem fastModalPadding_even (M L base xs ys : Nat) (hxs : 1 ≤ xs) :
    (fastModalPadding M L base xs ys).1 % 2 = 0 ∧
    2 * M + (fastModalPadding M L base xs ys).1 = 2 * (M + (fastModalPadding M L base xs ys).1 / 2) ∧
    2 * M + (fastModalPadding M L base xs ys).1 = (fastModalShape M L base xs ys).1 := by
  obtain ⟨h1, h2⟩ := fastModalShape_rows M L base xs ys hxs
  have : (fastModalPadding M L base xs ys).1 = (fastModalShape M L base xs ys).1 - 2 * M := rfl
  omega

/-- the other three paddings really are `shape − limits` (no truncated subtraction) -/
theorem fastShapes_ge (M L N J base xs ys : Nat) (hxs : 1 ≤ xs) (hys : 1 ≤ ys) :
    L ≤ (fastModalShape M L base xs ys).2 ∧ N ≤ (fastNodalShape N J base xs ys).1 ∧
    J ≤ (fastNodalShape N J base xs ys).2 := by
  have hb := baseOf_pos base
  exact ⟨le_roundToMultiple _ _ (Nat.mul_pos (by omega) (by omega)),
    le_roundToMultiple _ _ (Nat.mul_pos (by omega) (by omega)),
    le_roundToMultiple _ _ (Nat.mul_pos (by omega) (by omega))⟩

end padding

section built
variable {F : Type} [Field F]

/-- **T9.1 for the shapes the code builds**: no parity hypothesis is left — the bases are the two
 `basis` properties, the paddings are `modal_padding` / `nodal_padding` of `FastSphericalHarmonics` -/
theorem fastSynth_iota_built (cs sn : Nat → F) (s2p sp : F) (M N J L base xs ys : Nat) (hM : 1 ≤ M)
    (hxs : 1 ≤ xs) (P : List (List (List F))) (w : List F) (hP : P.length = M)
    (hPj : ∀ pm ∈ P, pm.length = J) (hPl : ∀ pm ∈ P, ∀ pj ∈ pm, pj.length = L) (hw : w.length = J)
    (x : List (List F)) (hxl : x.length = 2 * M - 1) (hx : ∀ row ∈ x, row.length = L) :
    fastSynth
        (fastBasisOf (realBasisZeroImag cs sn s2p sp M N) P w (fastNodalPadding N J base xs ys).1
          (fastModalPadding M L base xs ys).1 (fastNodalPadding N J base xs ys).2
          (fastModalPadding M L base xs ys).2 (2 * M) J L)
        (J + (fastNodalPadding N J base xs ys).2)
        (iota L (fastModalPadding M L base xs ys).1 (fastModalPadding M L base xs ys).2 x)
      = padNodal (fastNodalPadding N J base xs ys).1 (fastNodalPadding N J base xs ys).2 J
          (realSynth (realBasisOf (realBasis cs sn s2p sp M N) P w) J x) := by
  have hs := bases_shaped cs sn s2p sp M N J L (fastNodalPadding N J base xs ys).1
    (fastModalPadding M L base xs ys).1 (fastNodalPadding N J base xs ys).2
    (fastModalPadding M L base xs ys).2 P w hP hPj hPl hw
  exact fastSynth_iota _ _ M L N J _ _ _ _ _ hM (fastModalPadding_even M L base xs ys hxs).2.1 hs.1 hs.2
    (iotaRel_bases cs sn s2p sp M N J L _ _ _ _ hM P w hPj hPl) x hxl hx

/-- **T9.2 for the shapes the code builds** (`nrows = modal_shape[0] = 2M + pr`) -/
theorem fastAnalysis_pad_built (cs sn : Nat → F) (s2p sp : F) (M N J L base xs ys : Nat) (hM : 1 ≤ M)
    (hxs : 1 ≤ xs) (P : List (List (List F))) (w : List F) (hP : P.length = M)
    (hPj : ∀ pm ∈ P, pm.length = J) (hPl : ∀ pm ∈ P, ∀ pj ∈ pm, pj.length = L) (hw : w.length = J)
    (z : List (List F)) (hz : ∀ zi ∈ z, zi.length = J) (hzl : z.length ≤ N) :
    fastAnalysis
        (fastBasisOf (realBasisZeroImag cs sn s2p sp M N) P w (fastNodalPadding N J base xs ys).1
          (fastModalPadding M L base xs ys).1 (fastNodalPadding N J base xs ys).2
          (fastModalPadding M L base xs ys).2 (2 * M) J L)
        (fastModalShape M L base xs ys).1
        (J + (fastNodalPadding N J base xs ys).2) (L + (fastModalPadding M L base xs ys).2)
        (padNodal (fastNodalPadding N J base xs ys).1 (fastNodalPadding N J base xs ys).2 J z)
      = iota L (fastModalPadding M L base xs ys).1 (fastModalPadding M L base xs ys).2
          (realAnalysis (realBasisOf (realBasis cs sn s2p sp M N) P w) (2 * M - 1) J L z) := by
  have hs := bases_shaped cs sn s2p sp M N J L (fastNodalPadding N J base xs ys).1
    (fastModalPadding M L base xs ys).1 (fastNodalPadding N J base xs ys).2
    (fastModalPadding M L base xs ys).2 P w hP hPj hPl hw
  obtain ⟨_, he, hsh⟩ := fastModalPadding_even M L base xs ys hxs
  rw [← hsh, he]
  exact fastAnalysis_pad _ _ M L N J _ _ _ _ _ hM he hs.1 hs.2
    (iotaRel_bases cs sn s2p sp M N J L _ _ _ _ hM P w hPj hPl) z hz hzl

end built

/-! ## C09-1: the latitude derivatives, `grad` / `div` / `curl`, `k_cross`, `integrate`

`realDD cl cr` / `fastDD cl cr` (`Lemmas/SHEquivLat.lean`) are `cos_lat_d_dlat` and `sec_lat_d_dlat_cos2`
of the two layouts with the per-`l` factors abstracted (`realCosLatDDlat_eq` … are `rfl`).
`sqrt : F → F` is an arbitrary function (`√0 = 0` is asked for only where stated).

Exact `ι`-commutation is **false** for the raw derivatives when the fast layout has column padding:
`b[:, -1] = 0` zeroes the last *padded* column, so column `L - 1` of the fast table `b` keeps the weight
`√((L² − m²)/(4L² − 1))` and the fast derivative writes `cr(L-1)·b·x[·][L-1]` into padding column `L`.
What is proved: equality on every other entry, the exact value in column `L`, and that clipping, the
eigenvalue multipliers, the synthesis and a further latitude derivative all discard that column. -/
section latitude
variable {F : Type} [Field F]

theorem ent2_iota_outside (M L pr pc : Nat) (hM : 1 ≤ M) (z : List (List F)) (hz : RealShaped M L z)
    (i l : Nat) (h : i = 1 ∨ 2 * M ≤ i ∨ L ≤ l) : ent2 (iota L pr pc z) i l = 0 := by
  rw [ent2_iota]
  split
  · rfl
  · rename_i h1
    rcases h with h | h | h
    · exact absurd h h1
    · have h0 : ¬ i = 0 := by omega
      rw [if_neg h0]
      exact ent2_of_length_le z _ l (by rw [hz.1]; omega)
    · exact ent2_of_width_le z L _ l (fun r hr => le_of_eq (hz.2 r hr)) h

/-- **the fast latitude derivative of `ι x`, entry by entry** (`Dino.SHEquiv.ent2_fastDD_iota`): `ι` of
 the real derivative everywhere, except in padding column `L` (when `pc ≥ 1`), which holds
 `cr(L-1) · b_fast[i][L-1] · (ι x)[i][L-1]` -/
theorem fastDD_iota_entries (cl cr : Nat → F) (sqrt : F → F) (M L pr pc : Nat) (hM : 1 ≤ M)
    (x : List (List F)) (hxl : x.length = 2 * M - 1) (hx : ∀ r ∈ x, r.length = L) (i l : Nat) :
    ent2 (fastDD cl cr sqrt M L pr pc (iota L pr pc x)) i l
      = if l = L ∧ 1 ≤ L ∧ 1 ≤ pc then
          cr (L - 1) * ent2 (fastWeights sqrt M L pr pc).2 i (L - 1) * ent2 (iota L pr pc x) i (L - 1)
        else ent2 (iota L pr pc (realDD cl cr sqrt M L x)) i l :=
  ent2_fastDD_iota cl cr sqrt M L pr pc hM x hxl hx i l

/-- outside column `L` the fast derivative of `ι x` is `ι` of the real derivative -/
theorem fastDD_iota_eqOff (cl cr : Nat → F) (sqrt : F → F) (M L pr pc : Nat) (hM : 1 ≤ M)
    (x : List (List F)) (hxl : x.length = 2 * M - 1) (hx : ∀ r ∈ x, r.length = L) :
    EqOff L (fastDD cl cr sqrt M L pr pc (iota L pr pc x)) (iota L pr pc (realDD cl cr sqrt M L x)) := by
  intro i l hl
  rw [ent2_fastDD_iota cl cr sqrt M L pr pc hM x hxl hx, if_neg (fun h => hl h.1)]

theorem cast_pred_add_one (L : Nat) (hL : 1 ≤ L) : ((L - 1 : ℕ) : F) + 1 = (L : F) := by
  rw [← Nat.cast_succ, Nat.succ_eq_add_one, Nat.sub_add_cancel hL]

/-- **the value left in padding column `L`** (rows of real wavenumbers, `pc ≥ 1`):
 `cr(L-1) · √([|m| ≤ L-1]·(L² − m²)/(4L² − 1)) · x[r][L-1]` — the exact `l = L` coefficient of the
 derivative of a field band-limited to `l < L`, which the real layout has no column for -/
theorem fastDD_iota_colL (cl cr : Nat → F) (sqrt : F → F) (M L pr pc : Nat) (hM : 1 ≤ M) (hL : 1 ≤ L)
    (hpc : 1 ≤ pc) (x : List (List F)) (hxl : x.length = 2 * M - 1) (hx : ∀ r ∈ x, r.length = L)
    (r : Nat) (hr : r < 2 * M - 1) :
    ent2 (fastDD cl cr sqrt M L pr pc (iota L pr pc x)) (src r) L
      = cr (L - 1)
        * sqrt (boolK (decide (mAbs M r ≤ L - 1))
            * (((L : F) * (L : F)) - ((mAbs M r : F) * (mAbs M r : F)))
            / ((1 + 1) * (1 + 1) * ((L : F) * (L : F)) - 1))
        * ent2 x r (L - 1) := by
  have hc : L = L ∧ 1 ≤ L ∧ 1 ≤ pc := ⟨rfl, hL, hpc⟩
  rw [ent2_fastDD_iota cl cr sqrt M L pr pc hM x hxl hx, if_pos hc,
    (fastWeights_b_top sqrt M L pr pc hM hL hpc r hr).1, ent2_iota_src]
  unfold bVal
  rw [cast_pred_add_one L hL]

/-- row 1, the padding rows and the padding columns beyond `L` of the fast derivative are exactly zero -/
theorem fastDD_iota_padding_zero (cl cr : Nat → F) (sqrt : F → F) (M L pr pc : Nat) (hM : 1 ≤ M)
    (x : List (List F)) (hxl : x.length = 2 * M - 1) (hx : ∀ r ∈ x, r.length = L) (i l : Nat)
    (h : i = 1 ∨ 2 * M ≤ i ∨ L < l) :
    ent2 (fastDD cl cr sqrt M L pr pc (iota L pr pc x)) i l = 0 := by
  rw [ent2_fastDD_iota cl cr sqrt M L pr pc hM x hxl hx]
  split
  · rename_i hc
    have h' : i = 1 ∨ 2 * M ≤ i ∨ L ≤ L - 1 := by omega
    rw [ent2_iota_outside M L pr pc hM x ⟨hxl, hx⟩ i (L - 1) (by omega)]; ring
  · exact ent2_iota_outside M L pr pc hM _ (realDD_realShaped cl cr sqrt M L hM x ⟨hxl, hx⟩) i l (by omega)

/-- **restricted to the unpadded block the fast derivative of `ι x` is the real derivative of `x`** -/
theorem fastDD_iota_unIota (cl cr : Nat → F) (sqrt : F → F) (M L pr pc : Nat) (hM : 1 ≤ M)
    (x : List (List F)) (hxl : x.length = 2 * M - 1) (hx : ∀ r ∈ x, r.length = L) :
    unIota (2 * M) L (fastDD cl cr sqrt M L pr pc (iota L pr pc x)) = realDD cl cr sqrt M L x := by
  have hR := realDD_realShaped cl cr sqrt M L hM x ⟨hxl, hx⟩
  rw [unIota_congr M L pr pc hM _ _
    (fastDD_fastShaped cl cr sqrt M L pr pc hM _ (iota_fastShaped M L pr pc hM x ⟨hxl, hx⟩))
    (iota_fastShaped M L pr pc hM _ hR) (fastDD_iota_eqOff cl cr sqrt M L pr pc hM x hxl hx),
    unIota_iota M L pr pc hM _ hR.1 hR.2]

/-- without column padding (`pc = 0`, any row padding) the commutation is exact -/
theorem fastDD_iota_unpadded (cl cr : Nat → F) (sqrt : F → F) (M L pr : Nat) (hM : 1 ≤ M)
    (x : List (List F)) (hxl : x.length = 2 * M - 1) (hx : ∀ r ∈ x, r.length = L) :
    fastDD cl cr sqrt M L pr 0 (iota L pr 0 x) = iota L pr 0 (realDD cl cr sqrt M L x) := by
  apply eq_of_shaped M L pr 0 _ _
    (fastDD_fastShaped cl cr sqrt M L pr 0 hM _ (iota_fastShaped M L pr 0 hM x ⟨hxl, hx⟩))
    (iota_fastShaped M L pr 0 hM _ (realDD_realShaped cl cr sqrt M L hM x ⟨hxl, hx⟩))
  intro i l
  have hc : ¬ (l = L ∧ 1 ≤ L ∧ 1 ≤ 0) := by omega
  rw [ent2_fastDD_iota cl cr sqrt M L pr 0 hM x hxl hx, if_neg hc]

/-- **`clip_wavenumbers` removes the value in column `L`**: after clipping (any `n ≥ 1`; both raise for
 `n ≤ 0`) the fast derivative of `ι x` is exactly `ι` of the clipped real derivative -/
theorem clip_fastDD_iota (cl cr : Nat → F) (sqrt : F → F) (M L pr pc : Nat) (hM : 1 ≤ M) (n : Int)
    (x : List (List F)) (hxl : x.length = 2 * M - 1) (hx : ∀ r ∈ x, r.length = L) :
    clipWavenumbers L pc n (fastDD cl cr sqrt M L pr pc (iota L pr pc x))
      = (clipWavenumbers L 0 n (realDD cl cr sqrt M L x)).map (iota L pr pc) := by
  have hR := realDD_realShaped cl cr sqrt M L hM x ⟨hxl, hx⟩
  rw [← clip_iota L pr pc n _ hR.2]
  unfold clipWavenumbers
  split
  · rfl
  · congr 1
    apply mulLast_congr M L pr pc _ _ _
      (fastDD_fastShaped cl cr sqrt M L pr pc hM _ (iota_fastShaped M L pr pc hM x ⟨hxl, hx⟩))
      (iota_fastShaped M L pr pc hM _ hR) (by simp [clipMask]) ?_
      (fastDD_iota_eqOff cl cr sqrt M L pr pc hM x hxl hx)
    rw [ent_clipMask, if_neg (by omega)]

/-- so does the Laplacian (its eigenvalue at the padded `l = 0` is `0`) … -/
theorem laplacian_fastDD_iota (cl cr : Nat → F) (sqrt : F → F) (r2 : F) (M L pr pc : Nat) (hM : 1 ≤ M)
    (x : List (List F)) (hxl : x.length = 2 * M - 1) (hx : ∀ r ∈ x, r.length = L) :
    laplacian r2 L pc (fastDD cl cr sqrt M L pr pc (iota L pr pc x))
      = iota L pr pc (laplacian r2 L 0 (realDD cl cr sqrt M L x)) := by
  have hR := realDD_realShaped cl cr sqrt M L hM x ⟨hxl, hx⟩
  rw [← laplacian_iota r2 L pr pc _ hR.2]
  unfold laplacian
  exact mulLast_congr M L pr pc _ _ _
    (fastDD_fastShaped cl cr sqrt M L pr pc hM _ (iota_fastShaped M L pr pc hM x ⟨hxl, hx⟩))
    (iota_fastShaped M L pr pc hM _ hR) (by simp [lapEig_length, lvals_length])
    (eig_padding_zero r2 L pc L (le_refl L)).1 (fastDD_iota_eqOff cl cr sqrt M L pr pc hM x hxl hx)

/-- … and the inverse Laplacian (`inverse_eigenvalues[total_wavenumbers:] = 0`) -/
theorem inverseLaplacian_fastDD_iota (cl cr : Nat → F) (sqrt : F → F) (r2 : F) (M L pr pc : Nat)
    (hM : 1 ≤ M) (x : List (List F)) (hxl : x.length = 2 * M - 1) (hx : ∀ r ∈ x, r.length = L) :
    inverseLaplacian r2 L pc (fastDD cl cr sqrt M L pr pc (iota L pr pc x))
      = iota L pr pc (inverseLaplacian r2 L 0 (realDD cl cr sqrt M L x)) := by
  have hR := realDD_realShaped cl cr sqrt M L hM x ⟨hxl, hx⟩
  rw [← inverseLaplacian_iota r2 L pr pc _ hR.2]
  unfold inverseLaplacian
  exact mulLast_congr M L pr pc _ _ _
    (fastDD_fastShaped cl cr sqrt M L pr pc hM _ (iota_fastShaped M L pr pc hM x ⟨hxl, hx⟩))
    (iota_fastShaped M L pr pc hM _ hR) (by simp [invEig, lapEig_length, lvals_length])
    (eig_padding_zero r2 L pc L (le_refl L)).2 (fastDD_iota_eqOff cl cr sqrt M L pr pc hM x hxl hx)

/-- **`to_nodal` discards it**: the synthesis of the raw fast derivative is the padded synthesis of the
 real derivative (the padded Legendre columns are zero) -/
theorem fastSynth_fastDD_iota (br bf : Basis F) (M L N J H pn pj pr pc : Nat) (hM : 1 ≤ M)
    (hpr : 2 * M + pr = 2 * H)
    (hbr : Shaped br N (2 * M - 1) J L) (hbf : Shaped bf (N + pn) H (J + pj) (L + pc))
    (hrel : IotaRel br bf M L J) (cl cr : Nat → F) (sqrt : F → F) (x : List (List F))
    (hxl : x.length = 2 * M - 1) (hx : ∀ row ∈ x, row.length = L) :
    fastSynth bf (J + pj) (fastDD cl cr sqrt M L pr pc (iota L pr pc x))
      = padNodal pn pj J (realSynth br J (realDD cl cr sqrt M L x)) := by
  have hS := fastDD_fastShaped cl cr sqrt M L pr pc hM _ (iota_fastShaped M L pr pc hM x ⟨hxl, hx⟩)
  rw [fastSynth_eq_real br bf M L N J H pn pj pc hM (by omega) hbr hbf hrel _ (by rw [hS.1]; exact hpr) hS.2,
    fastDD_iota_unIota cl cr sqrt M L pr pc hM x hxl hx]

/-! ### the two methods of `Grid` -/

/-- `cos_lat_d_dlat`: block equality -/
theorem fastCosLatDDlat_iota_unIota (sqrt : F → F) (M L pr pc : Nat) (hM : 1 ≤ M)
    (x : List (List F)) (hxl : x.length = 2 * M - 1) (hx : ∀ r ∈ x, r.length = L) :
    unIota (2 * M) L (fastCosLatDDlat sqrt M L pr pc (iota L pr pc x)) = realCosLatDDlat sqrt M L x := by
  rw [fastCosLatDDlat_eq, realCosLatDDlat_eq]
  exact fastDD_iota_unIota _ _ sqrt M L pr pc hM x hxl hx

/-- `sec_lat_d_dlat_cos2`: block equality -/
theorem fastSecLatDDlatCos2_iota_unIota (sqrt : F → F) (M L pr pc : Nat) (hM : 1 ≤ M)
    (x : List (List F)) (hxl : x.length = 2 * M - 1) (hx : ∀ r ∈ x, r.length = L) :
    unIota (2 * M) L (fastSecLatDDlatCos2 sqrt M L pr pc (iota L pr pc x))
      = realSecLatDDlatCos2 sqrt M L x := by
  rw [fastSecLatDDlatCos2_eq, realSecLatDDlatCos2_eq]
  exact fastDD_iota_unIota _ _ sqrt M L pr pc hM x hxl hx

/-- `cos_lat_d_dlat` writes `−(L−1)·√((L²−m²)/(4L²−1))·x[m, L−1]` into padding column `L` -/
theorem fastCosLatDDlat_iota_colL (sqrt : F → F) (M L pr pc : Nat) (hM : 1 ≤ M) (hL : 1 ≤ L)
    (hpc : 1 ≤ pc) (x : List (List F)) (hxl : x.length = 2 * M - 1) (hx : ∀ r ∈ x, r.length = L)
    (r : Nat) (hr : r < 2 * M - 1) :
    ent2 (fastCosLatDDlat sqrt M L pr pc (iota L pr pc x)) (src r) L
      = -((L - 1 : ℕ) : F)
        * sqrt (boolK (decide (mAbs M r ≤ L - 1))
            * (((L : F) * (L : F)) - ((mAbs M r : F) * (mAbs M r : F)))
            / ((1 + 1) * (1 + 1) * ((L : F) * (L : F)) - 1))
        * ent2 x r (L - 1) := by
  rw [fastCosLatDDlat_eq]
  exact fastDD_iota_colL _ _ sqrt M L pr pc hM hL hpc x hxl hx r hr

/-- `sec_lat_d_dlat_cos2` writes `−(L+1)·√((L²−m²)/(4L²−1))·x[m, L−1]` there -/
theorem fastSecLatDDlatCos2_iota_colL (sqrt : F → F) (M L pr pc : Nat) (hM : 1 ≤ M) (hL : 1 ≤ L)
    (hpc : 1 ≤ pc) (x : List (List F)) (hxl : x.length = 2 * M - 1) (hx : ∀ r ∈ x, r.length = L)
    (r : Nat) (hr : r < 2 * M - 1) :
    ent2 (fastSecLatDDlatCos2 sqrt M L pr pc (iota L pr pc x)) (src r) L
      = -(((L - 1 : ℕ) : F) + (1 + 1))
        * sqrt (boolK (decide (mAbs M r ≤ L - 1))
            * (((L : F) * (L : F)) - ((mAbs M r : F) * (mAbs M r : F)))
            / ((1 + 1) * (1 + 1) * ((L : F) * (L : F)) - 1))
        * ent2 x r (L - 1) := by
  rw [fastSecLatDDlatCos2_eq]
  exact fastDD_iota_colL _ _ sqrt M L pr pc hM hL hpc x hxl hx r hr

/-- `clip_wavenumbers(cos_lat_d_dlat(·))` commutes with `ι` exactly -/
theorem clip_fastCosLatDDlat_iota (sqrt : F → F) (M L pr pc : Nat) (hM : 1 ≤ M) (n : Int)
    (x : List (List F)) (hxl : x.length = 2 * M - 1) (hx : ∀ r ∈ x, r.length = L) :
    clipWavenumbers L pc n (fastCosLatDDlat sqrt M L pr pc (iota L pr pc x))
      = (clipWavenumbers L 0 n (realCosLatDDlat sqrt M L x)).map (iota L pr pc) := by
  rw [fastCosLatDDlat_eq, realCosLatDDlat_eq]
  exact clip_fastDD_iota _ _ sqrt M L pr pc hM n x hxl hx

theorem clip_fastSecLatDDlatCos2_iota (sqrt : F → F) (M L pr pc : Nat) (hM : 1 ≤ M) (n : Int)
    (x : List (List F)) (hxl : x.length = 2 * M - 1) (hx : ∀ r ∈ x, r.length = L) :
    clipWavenumbers L pc n (fastSecLatDDlatCos2 sqrt M L pr pc (iota L pr pc x))
      = (clipWavenumbers L 0 n (realSecLatDDlatCos2 sqrt M L x)).map (iota L pr pc) := by
  rw [fastSecLatDDlatCos2_eq, realSecLatDDlatCos2_eq]
  exact clip_fastDD_iota _ _ sqrt M L pr pc hM n x hxl hx

/-- **block locality** (`√0 = 0`): for *every* array `y` of the fast shape the unpadded block of
 `cos_lat_d_dlat(y)` is `cos_lat_d_dlat` of the unpadded block of `y` — whatever a previous unclipped
 derivative left in column `L` (or anything else in row 1 / the padding) cannot reach a resolved
 coefficient through a further latitude derivative -/
theorem fastCosLatDDlat_block (sqrt : F → F) (hs : sqrt 0 = 0) (M L pr pc : Nat) (hM : 1 ≤ M)
    (y : List (List F)) (hyl : y.length = 2 * M + pr) (hy : ∀ r ∈ y, r.length = L + pc) :
    unIota (2 * M) L (fastCosLatDDlat sqrt M L pr pc y)
      = realCosLatDDlat sqrt M L (unIota (2 * M) L y) := by
  rw [fastCosLatDDlat_eq, realCosLatDDlat_eq]
  exact fastDD_block _ _ sqrt hs M L pr pc hM y hyl hy

theorem fastSecLatDDlatCos2_block (sqrt : F → F) (hs : sqrt 0 = 0) (M L pr pc : Nat) (hM : 1 ≤ M)
    (y : List (List F)) (hyl : y.length = 2 * M + pr) (hy : ∀ r ∈ y, r.length = L + pc) :
    unIota (2 * M) L (fastSecLatDDlatCos2 sqrt M L pr pc y)
      = realSecLatDDlatCos2 sqrt M L (unIota (2 * M) L y) := by
  rw [fastSecLatDDlatCos2_eq, realSecLatDDlatCos2_eq]
  exact fastDD_block _ _ sqrt hs M L pr pc hM y hyl hy

end latitude

/-! ## C09-1: `cos_lat_grad`, `div_cos_lat`, `curl_cos_lat`, `k_cross`, `integrate`

With `clip=True` (the default) the three differential operators commute with `ι` **exactly**; with
`clip=False` they agree with `ι` of the real result on every entry outside padding column `L`, hence on
the unpadded block, and column `L` holds the characterised value of the latitude derivative divided by
the radius. -/
section composites
variable {F : Type} [Field F]

omit [Field F] in
theorem realShaped_odd (M L : Nat) (hM : 1 ≤ M) (x : List (List F)) (hx : RealShaped M L x) :
    x.length % 2 = 1 := by rw [hx.1]; omega

/-- `cos_lat_grad(x, clip=True)` -/
theorem fastCosLatGrad_iota_clip (sqrt : F → F) (M L pr pc : Nat) (hM : 1 ≤ M) (r : F)
    (x : List (List F)) (hx : RealShaped M L x) :
    fastCosLatGrad sqrt M L pr pc r true (iota L pr pc x)
      = (iota L pr pc (realCosLatGrad sqrt M L r true x).1,
         iota L pr pc (realCosLatGrad sqrt M L r true x).2) := by
  have hX := iota_fastShaped M L pr pc hM x hx
  have hD := realDerivative_realShaped M L x hx
  have hR := realDD_realShaped (fun l => (l : F) + 1) (fun l => -(l : F)) sqrt M L hM x hx
  have hE := fastDD_iota_eqOff (fun l => (l : F) + 1) (fun l => -(l : F)) sqrt M L pr pc hM x hx.1 hx.2
  simp only [fastCosLatGrad, realCosLatGrad, clipIf, if_true, fastCosLatDDlat_eq, realCosLatDDlat_eq]
  rw [zeroImagDerivative_iota L pr pc x (realShaped_odd M L hM x hx) hx.2,
    divAll_iota M L pr pc hM _ r hD, clip1_iota M L pr pc hM _ (divAll_realShaped M L _ r hD),
    clip1_congr M L pr pc _ _
      (divAll_fastShaped M L pr pc _ r (fastDD_fastShaped _ _ sqrt M L pr pc hM _ hX))
      (divAll_fastShaped M L pr pc _ r (iota_fastShaped M L pr pc hM _ hR)) (hE.divAll r),
    divAll_iota M L pr pc hM _ r hR, clip1_iota M L pr pc hM _ (divAll_realShaped M L _ r hR)]

/-- `cos_lat_grad(x, clip=False)`: the longitude component is exact; the latitude component agrees
 outside column `L`, on the block, and column `L` holds the leaked value of `cos_lat_d_dlat` over `r` -/
theorem fastCosLatGrad_iota_noclip (sqrt : F → F) (M L pr pc : Nat) (hM : 1 ≤ M) (r : F)
    (x : List (List F)) (hx : RealShaped M L x) :
    (fastCosLatGrad sqrt M L pr pc r false (iota L pr pc x)).1
        = iota L pr pc (realCosLatGrad sqrt M L r false x).1 ∧
    EqOff L (fastCosLatGrad sqrt M L pr pc r false (iota L pr pc x)).2
        (iota L pr pc (realCosLatGrad sqrt M L r false x).2) ∧
    unIota (2 * M) L (fastCosLatGrad sqrt M L pr pc r false (iota L pr pc x)).2
        = (realCosLatGrad sqrt M L r false x).2 ∧
    ∀ i, ent2 (fastCosLatGrad sqrt M L pr pc r false (iota L pr pc x)).2 i L
        = ent2 (fastCosLatDDlat sqrt M L pr pc (iota L pr pc x)) i L / r := by
  have hX := iota_fastShaped M L pr pc hM x hx
  have hD := realDerivative_realShaped M L x hx
  have hR := realDD_realShaped (fun l => (l : F) + 1) (fun l => -(l : F)) sqrt M L hM x hx
  have hE := fastDD_iota_eqOff (fun l => (l : F) + 1) (fun l => -(l : F)) sqrt M L pr pc hM x hx.1 hx.2
  have hE' : EqOff L (divAll (fastDD (fun l => (l : F) + 1) (fun l => -(l : F)) sqrt M L pr pc
      (iota L pr pc x)) r) (iota L pr pc (divAll (realDD (fun l => (l : F) + 1) (fun l => -(l : F))
      sqrt M L x) r)) := by
    rw [← divAll_iota M L pr pc hM _ r hR]; exact hE.divAll r
  simp only [fastCosLatGrad, realCosLatGrad, clipIf, Bool.false_eq_true, if_false, fastCosLatDDlat_eq,
    realCosLatDDlat_eq]
  refine ⟨?_, hE', ?_, fun i => ent2_divAll _ r i L⟩
  · rw [zeroImagDerivative_iota L pr pc x (realShaped_odd M L hM x hx) hx.2,
      divAll_iota M L pr pc hM _ r hD]
  · rw [unIota_congr M L pr pc hM _ _
      (divAll_fastShaped M L pr pc _ r (fastDD_fastShaped _ _ sqrt M L pr pc hM _ hX))
      (iota_fastShaped M L pr pc hM _ (divAll_realShaped M L _ r hR)) hE',
      unIota_iota M L pr pc hM _ (divAll_realShaped M L _ r hR).1 (divAll_realShaped M L _ r hR).2]

/-- `div_cos_lat((u, v), clip=True)` -/
theorem fastDivCosLat_iota_clip (sqrt : F → F) (M L pr pc : Nat) (hM : 1 ≤ M) (r : F)
    (u v : List (List F)) (hu : RealShaped M L u) (hv : RealShaped M L v) :
    fastDivCosLat sqrt M L pr pc r true (iota L pr pc u) (iota L pr pc v)
      = iota L pr pc (realDivCosLat sqrt M L r true u v) := by
  have hV := iota_fastShaped M L pr pc hM v hv
  have hD := realDerivative_realShaped M L u hu
  have hDi := iota_fastShaped M L pr pc hM _ hD
  have hR := realDD_realShaped (fun l => (l : F) - 1) (fun l => -((l : F) + (1 + 1))) sqrt M L hM v hv
  have hRi := iota_fastShaped M L pr pc hM _ hR
  have hS := fastDD_fastShaped (fun l => (l : F) - 1) (fun l => -((l : F) + (1 + 1))) sqrt M L pr pc hM _ hV
  have hE := fastDD_iota_eqOff (fun l => (l : F) - 1) (fun l => -((l : F) + (1 + 1))) sqrt M L pr pc hM v
    hv.1 hv.2
  simp only [fastDivCosLat, realDivCosLat, clipIf, if_true, fastSecLatDDlatCos2_eq, realSecLatDDlatCos2_eq]
  rw [zeroImagDerivative_iota L pr pc u (realShaped_odd M L hM u hu) hu.2,
    clip1_congr M L pr pc _ _
      (divAll_fastShaped M L pr pc _ r (madd_fastShaped M L pr pc _ _ hDi hS))
      (divAll_fastShaped M L pr pc _ r (madd_fastShaped M L pr pc _ _ hDi hRi))
      ((hE.madd_left _ (L + pc) (by rw [hDi.1, hS.1]) (by rw [hDi.1, hRi.1]) hDi.2 hS.2 hRi.2).divAll r),
    madd_iota M L pr pc hM _ _ hD hR, divAll_iota M L pr pc hM _ r (madd_realShaped M L _ _ hD hR),
    clip1_iota M L pr pc hM _ (divAll_realShaped M L _ r (madd_realShaped M L _ _ hD hR))]

/-- `div_cos_lat((u, v), clip=False)`: equal outside column `L`, equal on the block; column `L` holds
 the leaked value of `sec_lat_d_dlat_cos2(v)` over `r` -/
theorem fastDivCosLat_iota_noclip (sqrt : F → F) (M L pr pc : Nat) (hM : 1 ≤ M) (r : F)
    (u v : List (List F)) (hu : RealShaped M L u) (hv : RealShaped M L v) :
    EqOff L (fastDivCosLat sqrt M L pr pc r false (iota L pr pc u) (iota L pr pc v))
        (iota L pr pc (realDivCosLat sqrt M L r false u v)) ∧
    unIota (2 * M) L (fastDivCosLat sqrt M L pr pc r false (iota L pr pc u) (iota L pr pc v))
        = realDivCosLat sqrt M L r false u v ∧
    ∀ i, ent2 (fastDivCosLat sqrt M L pr pc r false (iota L pr pc u) (iota L pr pc v)) i L
        = ent2 (fastSecLatDDlatCos2 sqrt M L pr pc (iota L pr pc v)) i L / r := by
  have hV := iota_fastShaped M L pr pc hM v hv
  have hD := realDerivative_realShaped M L u hu
  have hDi := iota_fastShaped M L pr pc hM _ hD
  have hR := realDD_realShaped (fun l => (l : F) - 1) (fun l => -((l : F) + (1 + 1))) sqrt M L hM v hv
  have hRi := iota_fastShaped M L pr pc hM _ hR
  have hS := fastDD_fastShaped (fun l => (l : F) - 1) (fun l => -((l : F) + (1 + 1))) sqrt M L pr pc hM _ hV
  have hE := fastDD_iota_eqOff (fun l => (l : F) - 1) (fun l => -((l : F) + (1 + 1))) sqrt M L pr pc hM v
    hv.1 hv.2
  have hQ := divAll_realShaped M L _ r (madd_realShaped M L _ _ hD hR)
  simp only [fastDivCosLat, realDivCosLat, clipIf, Bool.false_eq_true, if_false, fastSecLatDDlatCos2_eq,
    realSecLatDDlatCos2_eq]
  rw [zeroImagDerivative_iota L pr pc u (realShaped_odd M L hM u hu) hu.2]
  have hE' : EqOff L
      (divAll (madd (iota L pr pc (Fourier.realDerivative u L))
        (fastDD (fun l => (l : F) - 1) (fun l => -((l : F) + (1 + 1))) sqrt M L pr pc (iota L pr pc v))) r)
      (iota L pr pc (divAll (madd (Fourier.realDerivative u L)
        (realDD (fun l => (l : F) - 1) (fun l => -((l : F) + (1 + 1))) sqrt M L v)) r)) := by
    rw [← divAll_iota M L pr pc hM _ r (madd_realShaped M L _ _ hD hR), ← madd_iota M L pr pc hM _ _ hD hR]
    exact (hE.madd_left _ (L + pc) (by rw [hDi.1, hS.1]) (by rw [hDi.1, hRi.1]) hDi.2 hS.2 hRi.2).divAll r
  refine ⟨hE', ?_, ?_⟩
  · rw [unIota_congr M L pr pc hM _ _
      (divAll_fastShaped M L pr pc _ r (madd_fastShaped M L pr pc _ _ hDi hS))
      (iota_fastShaped M L pr pc hM _ hQ) hE', unIota_iota M L pr pc hM _ hQ.1 hQ.2]
  · intro i
    rw [ent2_divAll, ent2_madd _ _ (L + pc) (by rw [hDi.1, hS.1]) hDi.2 hS.2,
      ent2_iota_outside M L pr pc hM _ hD i L (Or.inr (Or.inr (le_refl L))), zero_add]

/-- `curl_cos_lat((u, v), clip=True)` -/
theorem fastCurlCosLat_iota_clip (sqrt : F → F) (M L pr pc : Nat) (hM : 1 ≤ M) (r : F)
    (u v : List (List F)) (hu : RealShaped M L u) (hv : RealShaped M L v) :
    fastCurlCosLat sqrt M L pr pc r true (iota L pr pc u) (iota L pr pc v)
      = iota L pr pc (realCurlCosLat sqrt M L r true u v) := by
  have hU := iota_fastShaped M L pr pc hM u hu
  have hD := realDerivative_realShaped M L v hv
  have hDi := iota_fastShaped M L pr pc hM _ hD
  have hR := realDD_realShaped (fun l => (l : F) - 1) (fun l => -((l : F) + (1 + 1))) sqrt M L hM u hu
  have hRi := iota_fastShaped M L pr pc hM _ hR
  have hS := fastDD_fastShaped (fun l => (l : F) - 1) (fun l => -((l : F) + (1 + 1))) sqrt M L pr pc hM _ hU
  have hE := fastDD_iota_eqOff (fun l => (l : F) - 1) (fun l => -((l : F) + (1 + 1))) sqrt M L pr pc hM u
    hu.1 hu.2
  simp only [fastCurlCosLat, realCurlCosLat, clipIf, if_true, fastSecLatDDlatCos2_eq, realSecLatDDlatCos2_eq]
  rw [zeroImagDerivative_iota L pr pc v (realShaped_odd M L hM v hv) hv.2,
    clip1_congr M L pr pc _ _
      (divAll_fastShaped M L pr pc _ r (msub_fastShaped M L pr pc _ _ hDi hS))
      (divAll_fastShaped M L pr pc _ r (msub_fastShaped M L pr pc _ _ hDi hRi))
      ((hE.msub_left _ (L + pc) (by rw [hDi.1, hS.1]) (by rw [hDi.1, hRi.1]) hDi.2 hS.2 hRi.2).divAll r),
    msub_iota M L pr pc hM _ _ hD hR, divAll_iota M L pr pc hM _ r (msub_realShaped M L _ _ hD hR),
    clip1_iota M L pr pc hM _ (divAll_realShaped M L _ r (msub_realShaped M L _ _ hD hR))]

/-- `curl_cos_lat((u, v), clip=False)`: column `L` holds minus the leaked value of
 `sec_lat_d_dlat_cos2(u)` over `r` -/
theorem fastCurlCosLat_iota_noclip (sqrt : F → F) (M L pr pc : Nat) (hM : 1 ≤ M) (r : F)
    (u v : List (List F)) (hu : RealShaped M L u) (hv : RealShaped M L v) :
    EqOff L (fastCurlCosLat sqrt M L pr pc r false (iota L pr pc u) (iota L pr pc v))
        (iota L pr pc (realCurlCosLat sqrt M L r false u v)) ∧
    unIota (2 * M) L (fastCurlCosLat sqrt M L pr pc r false (iota L pr pc u) (iota L pr pc v))
        = realCurlCosLat sqrt M L r false u v ∧
    ∀ i, ent2 (fastCurlCosLat sqrt M L pr pc r false (iota L pr pc u) (iota L pr pc v)) i L
        = -ent2 (fastSecLatDDlatCos2 sqrt M L pr pc (iota L pr pc u)) i L / r := by
  have hU := iota_fastShaped M L pr pc hM u hu
  have hD := realDerivative_realShaped M L v hv
  have hDi := iota_fastShaped M L pr pc hM _ hD
  have hR := realDD_realShaped (fun l => (l : F) - 1) (fun l => -((l : F) + (1 + 1))) sqrt M L hM u hu
  have hRi := iota_fastShaped M L pr pc hM _ hR
  have hS := fastDD_fastShaped (fun l => (l : F) - 1) (fun l => -((l : F) + (1 + 1))) sqrt M L pr pc hM _ hU
  have hE := fastDD_iota_eqOff (fun l => (l : F) - 1) (fun l => -((l : F) + (1 + 1))) sqrt M L pr pc hM u
    hu.1 hu.2
  have hQ := divAll_realShaped M L _ r (msub_realShaped M L _ _ hD hR)
  simp only [fastCurlCosLat, realCurlCosLat, clipIf, Bool.false_eq_true, if_false, fastSecLatDDlatCos2_eq,
    realSecLatDDlatCos2_eq]
  rw [zeroImagDerivative_iota L pr pc v (realShaped_odd M L hM v hv) hv.2]
  have hE' : EqOff L
      (divAll (msub (iota L pr pc (Fourier.realDerivative v L))
        (fastDD (fun l => (l : F) - 1) (fun l => -((l : F) + (1 + 1))) sqrt M L pr pc (iota L pr pc u))) r)
      (iota L pr pc (divAll (msub (Fourier.realDerivative v L)
        (realDD (fun l => (l : F) - 1) (fun l => -((l : F) + (1 + 1))) sqrt M L u)) r)) := by
    rw [← divAll_iota M L pr pc hM _ r (msub_realShaped M L _ _ hD hR), ← msub_iota M L pr pc hM _ _ hD hR]
    exact (hE.msub_left _ (L + pc) (by rw [hDi.1, hS.1]) (by rw [hDi.1, hRi.1]) hDi.2 hS.2 hRi.2).divAll r
  refine ⟨hE', ?_, ?_⟩
  · rw [unIota_congr M L pr pc hM _ _
      (divAll_fastShaped M L pr pc _ r (msub_fastShaped M L pr pc _ _ hDi hS))
      (iota_fastShaped M L pr pc hM _ hQ) hE', unIota_iota M L pr pc hM _ hQ.1 hQ.2]
  · intro i
    rw [ent2_divAll, ent2_msub _ _ (L + pc) (by rw [hDi.1, hS.1]) hDi.2 hS.2,
      ent2_iota_outside M L pr pc hM _ hD i L (Or.inr (Or.inr (le_refl L))), zero_sub]

/-- `k_cross` commutes with `ι` -/
theorem kCross_iota (M L pr pc : Nat) (hM : 1 ≤ M) (u v : List (List F)) (hv : RealShaped M L v) :
    kCross (iota L pr pc u) (iota L pr pc v)
      = (iota L pr pc (kCross u v).1, iota L pr pc (kCross u v).2) := by
  simp only [kCross]
  rw [mneg_iota M L pr pc hM v hv]

theorem ent_map_mul_right (w : List F) (c : F) (j : Nat) : ent (w.map (· * c)) j = ent w j * c := by
  unfold ent
  simp only [List.getD_eq_getElem?_getD, List.getElem?_map]
  cases w[j]? <;> simp

theorem dotv_zerosN (a : List F) (n : Nat) : dotv a (zerosN n) = 0 := by
  rw [dotv_eq_sum a (zerosN n) n (by simp [zerosN])]
  apply Finset.sum_eq_zero
  intro i _
  rw [ent_zerosN]; ring

theorem dotv_padRight (a a' row : List F) (J pj : Nat) (ha : a.length = J) (hrow : row.length = J)
    (h : ∀ j, j < J → ent a' j = ent a j) : dotv a' (padRight pj row) = dotv a row := by
  rw [dotv_eq_sum a' _ (J + pj) (by simp [hrow]), dotv_eq_sum a row J (by simp [ha])]
  rw [sum_range_tail_zero _ J (J + pj) (by omega) (fun j hj => by
    rw [ent_padRight, ent_of_length_le row j (by omega)]; ring)]
  apply Finset.sum_congr rfl
  intro j hj
  rw [ent_padRight, h j (Finset.mem_range.1 hj)]

/-- **`integrate`**: the integral of the padded nodal field with the padded weights is the integral of
 the field (whatever the padded weights hold beyond `J`) -/
theorem integrate_pad (wR wF : List F) (r2 : F) (J pn pj : Nat) (z : List (List F))
    (hwR : wR.length = J) (hz : ∀ zi ∈ z, zi.length = J) (hw : ∀ j, j < J → ent wF j = ent wR j) :
    integrate wF r2 (padNodal pn pj J z) = integrate wR r2 z := by
  unfold integrate padNodal
  rw [List.map_append, List.sum_append, List.map_map, List.map_replicate, dotv_zerosN, List.sum_replicate,
    nsmul_zero, add_zero]
  congr 1
  apply List.map_congr_left
  intro row hrow
  simp only [Function.comp]
  apply dotv_padRight _ _ row J pj (by simp [hwR]) (hz row hrow)
  intro j hj
  rw [ent_map_mul_right, ent_map_mul_right, hw j hj]

/-- … in particular for two `ι`-related bases (the `w` of `IotaRel`) -/
theorem integrate_pad_of_rel (br bf : Basis F) (M L N J R : Nat) (hbr : Shaped br N R J L)
    (hrel : IotaRel br bf M L J) (r2 : F) (pn pj : Nat) (z : List (List F))
    (hz : ∀ zi ∈ z, zi.length = J) :
    integrate bf.w r2 (padNodal pn pj J z) = integrate br.w r2 z :=
  integrate_pad br.w bf.w r2 J pn pj z hbr.wl hz hrel.w

end composites

/-! ## N-C09-b: block locality of `cos_lat_grad` / `div_cos_lat` / `curl_cos_lat` on ARBITRARY fast arrays

The `…_iota_noclip` theorems above take `ι`-images as input, but the output of an unclipped operator is
not an `ι`-image (padding column `L`).  The theorems of this section hold for **every** array of the fast
shape — whatever it holds in row 1, the padding rows and the padding columns — and for both values of
`clip`: the unpadded block `unIota (2M) L` of the fast result is the real operator applied to the unpadded
block(s) of the input(s).  Side condition: `sqrt 0 = 0` (true of `numpy.sqrt`), which makes the masked
recurrence weight `a_fast[·][L]` vanish (`fastDD_block`).  As the results are again fast-shaped
(`…_fastShaped`), the statements compose to any depth; `fastDivCosLat_fastCosLatGrad_block`,
`fastCurlCosLat_fastCosLatGrad_block` and their `…_iota` corollaries spell out the two-fold case. -/
section blocks
variable {F : Type} [Field F]

theorem fastCosLatGrad_fastShaped (sqrt : F → F) (M L pr pc : Nat) (hM : 1 ≤ M) (r : F) (c : Bool)
    (y : List (List F)) (hy : FastShaped M L pr pc y) :
    FastShaped M L pr pc (fastCosLatGrad sqrt M L pr pc r c y).1 ∧
    FastShaped M L pr pc (fastCosLatGrad sqrt M L pr pc r c y).2 := by
  simp only [fastCosLatGrad, fastCosLatDDlat_eq]
  exact ⟨clipIf_fastShaped M L pr pc c _
      (divAll_fastShaped M L pr pc _ r (zeroImagDerivative_fastShaped M L pr pc y hy)),
    clipIf_fastShaped M L pr pc c _
      (divAll_fastShaped M L pr pc _ r (fastDD_fastShaped _ _ sqrt M L pr pc hM y hy))⟩

theorem fastDivCosLat_fastShaped (sqrt : F → F) (M L pr pc : Nat) (hM : 1 ≤ M) (r : F) (c : Bool)
    (u v : List (List F)) (hu : FastShaped M L pr pc u) (hv : FastShaped M L pr pc v) :
    FastShaped M L pr pc (fastDivCosLat sqrt M L pr pc r c u v) := by
  simp only [fastDivCosLat, fastSecLatDDlatCos2_eq]
  exact clipIf_fastShaped M L pr pc c _ (divAll_fastShaped M L pr pc _ r
    (madd_fastShaped M L pr pc _ _ (zeroImagDerivative_fastShaped M L pr pc u hu)
      (fastDD_fastShaped _ _ sqrt M L pr pc hM v hv)))

theorem fastCurlCosLat_fastShaped (sqrt : F → F) (M L pr pc : Nat) (hM : 1 ≤ M) (r : F) (c : Bool)
    (u v : List (List F)) (hu : FastShaped M L pr pc u) (hv : FastShaped M L pr pc v) :
    FastShaped M L pr pc (fastCurlCosLat sqrt M L pr pc r c u v) := by
  simp only [fastCurlCosLat, fastSecLatDDlatCos2_eq]
  exact clipIf_fastShaped M L pr pc c _ (divAll_fastShaped M L pr pc _ r
    (msub_fastShaped M L pr pc _ _ (zeroImagDerivative_fastShaped M L pr pc v hv)
      (fastDD_fastShaped _ _ sqrt M L pr pc hM u hu)))

/-- **`d_dlon`, block locality**: the unpadded block of the fast longitude derivative of any fast-shaped
 array is the real longitude derivative of its unpadded block -/
theorem zeroImagDerivative_block (M L pr pc : Nat) (hM : 1 ≤ M) (y : List (List F))
    (hy : FastShaped M L pr pc y) :
    unIota (2 * M) L (zeroImagDerivative y (L + pc) 0) = realDerivative (unIota (2 * M) L y) L :=
  Dino.SHEquiv.zeroImagDerivative_block M L pr pc hM y hy

/-- **`cos_lat_grad`, block locality** (any `clip`, any fast-shaped `y`; `√0 = 0`) -/
theorem fastCosLatGrad_block (sqrt : F → F) (hs : sqrt 0 = 0) (M L pr pc : Nat) (hM : 1 ≤ M) (r : F)
    (c : Bool) (y : List (List F)) (hy : FastShaped M L pr pc y) :
    unIota (2 * M) L (fastCosLatGrad sqrt M L pr pc r c y).1
        = (realCosLatGrad sqrt M L r c (unIota (2 * M) L y)).1 ∧
    unIota (2 * M) L (fastCosLatGrad sqrt M L pr pc r c y).2
        = (realCosLatGrad sqrt M L r c (unIota (2 * M) L y)).2 := by
  have hD := zeroImagDerivative_fastShaped M L pr pc y hy
  have hS := fastDD_fastShaped (fun l => (l : F) + 1) (fun l => -(l : F)) sqrt M L pr pc hM y hy
  simp only [fastCosLatGrad, realCosLatGrad, fastCosLatDDlat_eq, realCosLatDDlat_eq]
  constructor
  · rw [unIota_clipIf M L pr pc hM c _ (divAll_fastShaped M L pr pc _ r hD),
      unIota_divAll M L pr pc hM _ r hD, Dino.SHEquiv.zeroImagDerivative_block M L pr pc hM y hy]
  · rw [unIota_clipIf M L pr pc hM c _ (divAll_fastShaped M L pr pc _ r hS),
      unIota_divAll M L pr pc hM _ r hS, fastDD_block _ _ sqrt hs M L pr pc hM y hy.1 hy.2]

/-- **`div_cos_lat`, block locality** (any `clip`, any fast-shaped `u`, `v`; `√0 = 0`) -/
theorem fastDivCosLat_block (sqrt : F → F) (hs : sqrt 0 = 0) (M L pr pc : Nat) (hM : 1 ≤ M) (r : F)
    (c : Bool) (u v : List (List F)) (hu : FastShaped M L pr pc u) (hv : FastShaped M L pr pc v) :
    unIota (2 * M) L (fastDivCosLat sqrt M L pr pc r c u v)
      = realDivCosLat sqrt M L r c (unIota (2 * M) L u) (unIota (2 * M) L v) := by
  have hD := zeroImagDerivative_fastShaped M L pr pc u hu
  have hS := fastDD_fastShaped (fun l => (l : F) - 1) (fun l => -((l : F) + (1 + 1))) sqrt M L pr pc hM v hv
  have hA := madd_fastShaped M L pr pc _ _ hD hS
  simp only [fastDivCosLat, realDivCosLat, fastSecLatDDlatCos2_eq, realSecLatDDlatCos2_eq]
  rw [unIota_clipIf M L pr pc hM c _ (divAll_fastShaped M L pr pc _ r hA),
    unIota_divAll M L pr pc hM _ r hA, unIota_madd M L pr pc hM _ _ hD hS,
    Dino.SHEquiv.zeroImagDerivative_block M L pr pc hM u hu,
    fastDD_block _ _ sqrt hs M L pr pc hM v hv.1 hv.2]

/-- **`curl_cos_lat`, block locality** (any `clip`, any fast-shaped `u`, `v`; `√0 = 0`) -/
theorem fastCurlCosLat_block (sqrt : F → F) (hs : sqrt 0 = 0) (M L pr pc : Nat) (hM : 1 ≤ M) (r : F)
    (c : Bool) (u v : List (List F)) (hu : FastShaped M L pr pc u) (hv : FastShaped M L pr pc v) :
    unIota (2 * M) L (fastCurlCosLat sqrt M L pr pc r c u v)
      = realCurlCosLat sqrt M L r c (unIota (2 * M) L u) (unIota (2 * M) L v) := by
  have hD := zeroImagDerivative_fastShaped M L pr pc v hv
  have hS := fastDD_fastShaped (fun l => (l : F) - 1) (fun l => -((l : F) + (1 + 1))) sqrt M L pr pc hM u hu
  have hA := msub_fastShaped M L pr pc _ _ hD hS
  simp only [fastCurlCosLat, realCurlCosLat, fastSecLatDDlatCos2_eq, realSecLatDDlatCos2_eq]
  rw [unIota_clipIf M L pr pc hM c _ (divAll_fastShaped M L pr pc _ r hA),
    unIota_divAll M L pr pc hM _ r hA, unIota_msub M L pr pc hM _ _ hD hS,
    Dino.SHEquiv.zeroImagDerivative_block M L pr pc hM v hv,
    fastDD_block _ _ sqrt hs M L pr pc hM u hu.1 hu.2]

/-- `k_cross`, block locality -/
theorem kCross_block (M L pr pc : Nat) (hM : 1 ≤ M) (u v : List (List F)) (hv : FastShaped M L pr pc v) :
    unIota (2 * M) L (kCross u v).1 = (kCross (unIota (2 * M) L u) (unIota (2 * M) L v)).1 ∧
    unIota (2 * M) L (kCross u v).2 = (kCross (unIota (2 * M) L u) (unIota (2 * M) L v)).2 := by
  simp only [kCross]
  exact ⟨unIota_mneg M L pr pc hM v hv, trivial⟩

/-- **two unclipped (or clipped) operators in a row**: `div_cos_lat(cos_lat_grad(y, c₁), c₂)` on any
 fast-shaped `y` — in particular the value that `cos_lat_grad(·, clip=False)` leaves in padding column `L`
 does not reach the unpadded block of the divergence -/
theorem fastDivCosLat_fastCosLatGrad_block (sqrt : F → F) (hs : sqrt 0 = 0) (M L pr pc : Nat) (hM : 1 ≤ M)
    (r : F) (c₁ c₂ : Bool) (y : List (List F)) (hy : FastShaped M L pr pc y) :
    unIota (2 * M) L (fastDivCosLat sqrt M L pr pc r c₂ (fastCosLatGrad sqrt M L pr pc r c₁ y).1
        (fastCosLatGrad sqrt M L pr pc r c₁ y).2)
      = realDivCosLat sqrt M L r c₂ (realCosLatGrad sqrt M L r c₁ (unIota (2 * M) L y)).1
          (realCosLatGrad sqrt M L r c₁ (unIota (2 * M) L y)).2 := by
  obtain ⟨h1, h2⟩ := fastCosLatGrad_fastShaped sqrt M L pr pc hM r c₁ y hy
  obtain ⟨e1, e2⟩ := fastCosLatGrad_block sqrt hs M L pr pc hM r c₁ y hy
  rw [fastDivCosLat_block sqrt hs M L pr pc hM r c₂ _ _ h1 h2, e1, e2]

/-- `curl_cos_lat(cos_lat_grad(y, c₁), c₂)` on any fast-shaped `y` -/
theorem fastCurlCosLat_fastCosLatGrad_block (sqrt : F → F) (hs : sqrt 0 = 0) (M L pr pc : Nat) (hM : 1 ≤ M)
    (r : F) (c₁ c₂ : Bool) (y : List (List F)) (hy : FastShaped M L pr pc y) :
    unIota (2 * M) L (fastCurlCosLat sqrt M L pr pc r c₂ (fastCosLatGrad sqrt M L pr pc r c₁ y).1
        (fastCosLatGrad sqrt M L pr pc r c₁ y).2)
      = realCurlCosLat sqrt M L r c₂ (realCosLatGrad sqrt M L r c₁ (unIota (2 * M) L y)).1
          (realCosLatGrad sqrt M L r c₁ (unIota (2 * M) L y)).2 := by
  obtain ⟨h1, h2⟩ := fastCosLatGrad_fastShaped sqrt M L pr pc hM r c₁ y hy
  obtain ⟨e1, e2⟩ := fastCosLatGrad_block sqrt hs M L pr pc hM r c₁ y hy
  rw [fastCurlCosLat_block sqrt hs M L pr pc hM r c₂ _ _ h1 h2, e1, e2]

/-- **the `clip=False` composites compose**: on an `ι`-image the unpadded block of
 `div_cos_lat(cos_lat_grad(ι x, c₁), c₂)` is the reference `div_cos_lat(cos_lat_grad(x, c₁), c₂)`, for all
 four combinations of the clip flags (`c₁ = c₂ = false` is the case the `…_iota_noclip` theorems alone do
 not give) -/
theorem fastDivCosLat_fastCosLatGrad_iota (sqrt : F → F) (hs : sqrt 0 = 0) (M L pr pc : Nat) (hM : 1 ≤ M)
    (r : F) (c₁ c₂ : Bool) (x : List (List F)) (hx : RealShaped M L x) :
    unIota (2 * M) L (fastDivCosLat sqrt M L pr pc r c₂
        (fastCosLatGrad sqrt M L pr pc r c₁ (iota L pr pc x)).1
        (fastCosLatGrad sqrt M L pr pc r c₁ (iota L pr pc x)).2)
      = realDivCosLat sqrt M L r c₂ (realCosLatGrad sqrt M L r c₁ x).1
          (realCosLatGrad sqrt M L r c₁ x).2 := by
  rw [fastDivCosLat_fastCosLatGrad_block sqrt hs M L pr pc hM r c₁ c₂ _ (iota_fastShaped M L pr pc hM x hx),
    unIota_iota M L pr pc hM x hx.1 hx.2]

theorem fastCurlCosLat_fastCosLatGrad_iota (sqrt : F → F) (hs : sqrt 0 = 0) (M L pr pc : Nat) (hM : 1 ≤ M)
    (r : F) (c₁ c₂ : Bool) (x : List (List F)) (hx : RealShaped M L x) :
    unIota (2 * M) L (fastCurlCosLat sqrt M L pr pc r c₂
        (fastCosLatGrad sqrt M L pr pc r c₁ (iota L pr pc x)).1
        (fastCosLatGrad sqrt M L pr pc r c₁ (iota L pr pc x)).2)
      = realCurlCosLat sqrt M L r c₂ (realCosLatGrad sqrt M L r c₁ x).1
          (realCosLatGrad sqrt M L r c₁ x).2 := by
  rw [fastCurlCosLat_fastCosLatGrad_block sqrt hs M L pr pc hM r c₁ c₂ _ (iota_fastShaped M L pr pc hM x hx),
    unIota_iota M L pr pc hM x hx.1 hx.2]

/-! ### the whole array, not only the block: the deviation stays confined to padding column `L`

`EqOff L A B` — equal outside column `L` — is a congruence for the three operators (`√0 = 0`), so every
composition of them applied to `ι`-images is equal to `ι` of the reference composition on every entry
outside column `L`; in particular row 1, the padding rows and the padding columns beyond `L` stay zero
(`eqOff_iota_padding_zero`). -/

theorem realCosLatGrad_realShaped (sqrt : F → F) (M L : Nat) (hM : 1 ≤ M) (r : F) (c : Bool)
    (x : List (List F)) (hx : RealShaped M L x) :
    RealShaped M L (realCosLatGrad sqrt M L r c x).1 ∧ RealShaped M L (realCosLatGrad sqrt M L r c x).2 := by
  simp only [realCosLatGrad, realCosLatDDlat_eq]
  exact ⟨clipIf_realShaped M L c _ (divAll_realShaped M L _ r (realDerivative_realShaped M L x hx)),
    clipIf_realShaped M L c _ (divAll_realShaped M L _ r (realDD_realShaped _ _ sqrt M L hM x hx))⟩

theorem fastCosLatGrad_congr_eqOff (sqrt : F → F) (hs : sqrt 0 = 0) (M L pr pc : Nat) (hM : 1 ≤ M) (r : F)
    (c : Bool) (y y' : List (List F)) (hy : FastShaped M L pr pc y) (hy' : FastShaped M L pr pc y')
    (h : EqOff L y y') :
    EqOff L (fastCosLatGrad sqrt M L pr pc r c y).1 (fastCosLatGrad sqrt M L pr pc r c y').1 ∧
    EqOff L (fastCosLatGrad sqrt M L pr pc r c y).2 (fastCosLatGrad sqrt M L pr pc r c y').2 := by
  simp only [fastCosLatGrad, fastCosLatDDlat_eq]
  exact ⟨((h.zeroImagDerivative (by rw [hy.1, hy'.1]) (L + pc) 0).divAll r).clipIf c L pc,
    ((fastDD_congr_eqOff _ _ sqrt hs M L pr pc hM y y' hy hy' h).divAll r).clipIf c L pc⟩

theorem fastDivCosLat_congr_eqOff (sqrt : F → F) (hs : sqrt 0 = 0) (M L pr pc : Nat) (hM : 1 ≤ M) (r : F)
    (c : Bool) (u u' v v' : List (List F)) (hu : FastShaped M L pr pc u) (hu' : FastShaped M L pr pc u')
    (hv : FastShaped M L pr pc v) (hv' : FastShaped M L pr pc v') (h1 : EqOff L u u') (h2 : EqOff L v v') :
    EqOff L (fastDivCosLat sqrt M L pr pc r c u v) (fastDivCosLat sqrt M L pr pc r c u' v') := by
  have hD := zeroImagDerivative_fastShaped M L pr pc u hu
  have hD' := zeroImagDerivative_fastShaped M L pr pc u' hu'
  have hS := fastDD_fastShaped (fun l => (l : F) - 1) (fun l => -((l : F) + (1 + 1))) sqrt M L pr pc hM v hv
  have hS' := fastDD_fastShaped (fun l => (l : F) - 1) (fun l => -((l : F) + (1 + 1))) sqrt M L pr pc hM v' hv'
  simp only [fastDivCosLat, fastSecLatDDlatCos2_eq]
  exact (((h1.zeroImagDerivative (by rw [hu.1, hu'.1]) (L + pc) 0).madd
    (fastDD_congr_eqOff _ _ sqrt hs M L pr pc hM v v' hv hv' h2) (L + pc) (by rw [hD.1, hS.1])
    (by rw [hD'.1, hS'.1]) hD.2 hS.2 hD'.2 hS'.2).divAll r).clipIf c L pc

theorem fastCurlCosLat_congr_eqOff (sqrt : F → F) (hs : sqrt 0 = 0) (M L pr pc : Nat) (hM : 1 ≤ M) (r : F)
    (c : Bool) (u u' v v' : List (List F)) (hu : FastShaped M L pr pc u) (hu' : FastShaped M L pr pc u')
    (hv : FastShaped M L pr pc v) (hv' : FastShaped M L pr pc v') (h1 : EqOff L u u') (h2 : EqOff L v v') :
    EqOff L (fastCurlCosLat sqrt M L pr pc r c u v) (fastCurlCosLat sqrt M L pr pc r c u' v') := by
  have hD := zeroImagDerivative_fastShaped M L pr pc v hv
  have hD' := zeroImagDerivative_fastShaped M L pr pc v' hv'
  have hS := fastDD_fastShaped (fun l => (l : F) - 1) (fun l => -((l : F) + (1 + 1))) sqrt M L pr pc hM u hu
  have hS' := fastDD_fastShaped (fun l => (l : F) - 1) (fun l => -((l : F) + (1 + 1))) sqrt M L pr pc hM u' hu'
  simp only [fastCurlCosLat, fastSecLatDDlatCos2_eq]
  exact (((h2.zeroImagDerivative (by rw [hv.1, hv'.1]) (L + pc) 0).msub
    (fastDD_congr_eqOff _ _ sqrt hs M L pr pc hM u u' hu hu' h1) (L + pc) (by rw [hD.1, hS.1])
    (by rw [hD'.1, hS'.1]) hD.2 hS.2 hD'.2 hS'.2).divAll r).clipIf c L pc

/-- the three single-application theorems with the clip flag as a parameter -/
theorem fastCosLatGrad_iota_eqOff (sqrt : F → F) (M L pr pc : Nat) (hM : 1 ≤ M) (r : F) (c : Bool)
    (x : List (List F)) (hx : RealShaped M L x) :
    EqOff L (fastCosLatGrad sqrt M L pr pc r c (iota L pr pc x)).1
        (iota L pr pc (realCosLatGrad sqrt M L r c x).1) ∧
    EqOff L (fastCosLatGrad sqrt M L pr pc r c (iota L pr pc x)).2
        (iota L pr pc (realCosLatGrad sqrt M L r c x).2) := by
  cases c
  · have h := fastCosLatGrad_iota_noclip sqrt M L pr pc hM r x hx
    exact ⟨EqOff.of_eq h.1, h.2.1⟩
  · have h := fastCosLatGrad_iota_clip sqrt M L pr pc hM r x hx
    exact ⟨EqOff.of_eq (congrArg Prod.fst h), EqOff.of_eq (congrArg Prod.snd h)⟩

theorem fastDivCosLat_iota_eqOff (sqrt : F → F) (M L pr pc : Nat) (hM : 1 ≤ M) (r : F) (c : Bool)
    (u v : List (List F)) (hu : RealShaped M L u) (hv : RealShaped M L v) :
    EqOff L (fastDivCosLat sqrt M L pr pc r c (iota L pr pc u) (iota L pr pc v))
      (iota L pr pc (realDivCosLat sqrt M L r c u v)) := by
  cases c
  · exact (fastDivCosLat_iota_noclip sqrt M L pr pc hM r u v hu hv).1
  · exact EqOff.of_eq (fastDivCosLat_iota_clip sqrt M L pr pc hM r u v hu hv)

theorem fastCurlCosLat_iota_eqOff (sqrt : F → F) (M L pr pc : Nat) (hM : 1 ≤ M) (r : F) (c : Bool)
    (u v : List (List F)) (hu : RealShaped M L u) (hv : RealShaped M L v) :
    EqOff L (fastCurlCosLat sqrt M L pr pc r c (iota L pr pc u) (iota L pr pc v))
      (iota L pr pc (realCurlCosLat sqrt M L r c u v)) := by
  cases c
  · exact (fastCurlCosLat_iota_noclip sqrt M L pr pc hM r u v hu hv).1
  · exact EqOff.of_eq (fastCurlCosLat_iota_clip sqrt M L pr pc hM r u v hu hv)

/-- an array equal to an `ι`-image outside column `L` is zero in row 1, in the padding rows and in the
 padding columns beyond `L` -/
theorem eqOff_iota_padding_zero (M L pr pc : Nat) (hM : 1 ≤ M) (A z : List (List F)) (hz : RealShaped M L z)
    (h : EqOff L A (iota L pr pc z)) (i l : Nat) (ho : l ≠ L ∧ (i = 1 ∨ 2 * M ≤ i ∨ L < l)) :
    ent2 A i l = 0 := by
  rw [h i l ho.1]
  exact ent2_iota_outside M L pr pc hM z hz i l (by omega)

/-- **two operators in a row, every entry**: `div_cos_lat(cos_lat_grad(ι x, c₁), c₂)` equals
 `ι(div_cos_lat(cos_lat_grad(x, c₁), c₂))` outside padding column `L`, for all four combinations of the
 clip flags -/
theorem fastDivCosLat_fastCosLatGrad_iota_eqOff (sqrt : F → F) (hs : sqrt 0 = 0) (M L pr pc : Nat)
    (hM : 1 ≤ M) (r : F) (c₁ c₂ : Bool) (x : List (List F)) (hx : RealShaped M L x) :
    EqOff L (fastDivCosLat sqrt M L pr pc r c₂ (fastCosLatGrad sqrt M L pr pc r c₁ (iota L pr pc x)).1
        (fastCosLatGrad sqrt M L pr pc r c₁ (iota L pr pc x)).2)
      (iota L pr pc (realDivCosLat sqrt M L r c₂ (realCosLatGrad sqrt M L r c₁ x).1
        (realCosLatGrad sqrt M L r c₁ x).2)) := by
  have hX := iota_fastShaped M L pr pc hM x hx
  obtain ⟨f1, f2⟩ := fastCosLatGrad_fastShaped sqrt M L pr pc hM r c₁ _ hX
  obtain ⟨g1, g2⟩ := realCosLatGrad_realShaped sqrt M L hM r c₁ x hx
  obtain ⟨e1, e2⟩ := fastCosLatGrad_iota_eqOff sqrt M L pr pc hM r c₁ x hx
  exact (fastDivCosLat_congr_eqOff sqrt hs M L pr pc hM r c₂ _ _ _ _ f1 (iota_fastShaped M L pr pc hM _ g1)
    f2 (iota_fastShaped M L pr pc hM _ g2) e1 e2).trans
    (fastDivCosLat_iota_eqOff sqrt M L pr pc hM r c₂ _ _ g1 g2)

theorem fastCurlCosLat_fastCosLatGrad_iota_eqOff (sqrt : F → F) (hs : sqrt 0 = 0) (M L pr pc : Nat)
    (hM : 1 ≤ M) (r : F) (c₁ c₂ : Bool) (x : List (List F)) (hx : RealShaped M L x) :
    EqOff L (fastCurlCosLat sqrt M L pr pc r c₂ (fastCosLatGrad sqrt M L pr pc r c₁ (iota L pr pc x)).1
        (fastCosLatGrad sqrt M L pr pc r c₁ (iota L pr pc x)).2)
      (iota L pr pc (realCurlCosLat sqrt M L r c₂ (realCosLatGrad sqrt M L r c₁ x).1
        (realCosLatGrad sqrt M L r c₁ x).2)) := by
  have hX := iota_fastShaped M L pr pc hM x hx
  obtain ⟨f1, f2⟩ := fastCosLatGrad_fastShaped sqrt M L pr pc hM r c₁ _ hX
  obtain ⟨g1, g2⟩ := realCosLatGrad_realShaped sqrt M L hM r c₁ x hx
  obtain ⟨e1, e2⟩ := fastCosLatGrad_iota_eqOff sqrt M L pr pc hM r c₁ x hx
  exact (fastCurlCosLat_congr_eqOff sqrt hs M L pr pc hM r c₂ _ _ _ _ f1 (iota_fastShaped M L pr pc hM _ g1)
    f2 (iota_fastShaped M L pr pc hM _ g2) e1 e2).trans
    (fastCurlCosLat_iota_eqOff sqrt M L pr pc hM r c₂ _ _ g1 g2)

end blocks

/-! ## non-vacuity: a concrete pair of bases over ℚ

`M = 2, L = 2, N = 3, J = 2`, paddings `(pn, pr, pj, pc) = (1, 2, 1, 1)` (so `H = 3`): the "cosine"
and "sine" tables, the norms, the Legendre table and the weights are arbitrary rationals. -/
section examples

def csQ (k : Nat) : ℚ := [1, -1 / 2, -1 / 2].getD k 0
def snQ (k : Nat) : ℚ := [0, 7 / 8, -7 / 8].getD k 0
def PQ : List (List (List ℚ)) := [[[1 / 2, 1 / 3], [1 / 2, -1 / 3]], [[0, 3 / 5], [0, 3 / 4]]]
def wQ : List ℚ := [1 / 2, 2 / 3]
def brQ : Basis ℚ := realBasisOf (realBasis csQ snQ (5 / 2) (7 / 4) 2 3) PQ wQ
def bfQ : Basis ℚ := fastBasisOf (realBasisZeroImag csQ snQ (5 / 2) (7 / 4) 2 3) PQ wQ 1 2 1 1 (2 * 2) 2 2
def xQ : List (List ℚ) := [[1, 2], [3, 4], [5, 6]]
def zQ : List (List ℚ) := [[1, -2], [3, 5], [-7, 10]]

theorem PQ_rows : ∀ pm ∈ PQ, pm.length = 2 := by decide
theorem PQ_cols : ∀ pm ∈ PQ, ∀ pj ∈ pm, pj.length = 2 := by decide

/-- the structural hypothesis of T9.1 / T9.2 holds for the bases the code builds -/
example : IotaRel brQ bfQ 2 2 2 :=
  iotaRel_bases csQ snQ (5 / 2) (7 / 4) 2 3 2 2 1 2 1 1 (by omega) PQ wQ PQ_rows PQ_cols

theorem shapedQ : Shaped brQ 3 (2 * 2 - 1) 2 2 ∧ Shaped bfQ (3 + 1) (2 + 2 / 2) (2 + 1) (2 + 1) :=
  bases_shaped csQ snQ (5 / 2) (7 / 4) 2 3 2 2 1 2 1 1 PQ wQ rfl PQ_rows PQ_cols rfl

/-- T9.1 instantiated: every hypothesis is discharged on the concrete object -/
example : fastSynth bfQ (2 + 1) (iota 2 2 1 xQ) = padNodal 1 1 2 (realSynth brQ 2 xQ) :=
  fastSynth_iota brQ bfQ 2 2 3 2 3 1 1 2 1 (by omega) (by omega) shapedQ.1 shapedQ.2
    (iotaRel_bases csQ snQ (5 / 2) (7 / 4) 2 3 2 2 1 2 1 1 (by omega) PQ wQ PQ_rows PQ_cols)
    xQ rfl (by decide)

/-- … and the common value is not trivial -/
example : realSynth brQ 2 xQ
    = [[193 / 105, 173 / 105], [166 / 105, 557 / 420], [-212 / 105, -1333 / 420]] := by
  simp [realSynth, invFourier, invLegendre, matMul, vecMat, vadd, scale, dotv, zerosN, brQ, realBasisOf,
    realBasis, pairs, dup, PQ, xQ, csQ, snQ, List.range_succ]
  norm_num

/-- T9.1 (strong form) instantiated on an input with junk in row 1 and in the padding -/
example : fastSynth bfQ (2 + 1) [[1, 2, 9], [7, 7, 7], [3, 4, 9], [5, 6, 9], [8, 8, 8], [9, 9, 9]]
    = padNodal 1 1 2 (realSynth brQ 2 (unIota (2 * 2) 2
        [[1, 2, 9], [7, 7, 7], [3, 4, 9], [5, 6, 9], [8, 8, 8], [9, 9, 9]])) :=
  fastSynth_eq_real brQ bfQ 2 2 3 2 3 1 1 1 (by omega) (by omega) shapedQ.1 shapedQ.2
    (iotaRel_bases csQ snQ (5 / 2) (7 / 4) 2 3 2 2 1 2 1 1 (by omega) PQ wQ PQ_rows PQ_cols)
    _ rfl (by decide)

example : unIota (2 * 2) 2 ([[1, 2, 9], [7, 7, 7], [3, 4, 9], [5, 6, 9], [8, 8, 8], [9, 9, 9]] : List (List ℚ))
    = xQ := by decide

/-- T9.2 instantiated -/
example : fastAnalysis bfQ (2 * 3) (2 + 1) (2 + 1) (padNodal 1 1 2 zQ)
    = iota 2 2 1 (realAnalysis brQ (2 * 2 - 1) 2 2 zQ) :=
  fastAnalysis_pad brQ bfQ 2 2 3 2 3 1 1 2 1 (by omega) (by omega) shapedQ.1 shapedQ.2
    (iotaRel_bases csQ snQ (5 / 2) (7 / 4) 2 3 2 2 1 2 1 1 (by omega) PQ wQ PQ_rows PQ_cols)
    zQ (by decide) (by decide)

example : realAnalysis brQ (2 * 2 - 1) 2 2 zQ = [[43 / 30, -61 / 45], [0, -11 / 5], [0, 1 / 4]] := by
  simp [realAnalysis, fwdLegendre, fwdFourier, weight, transposeM, col, vecMat, vadd, scale, zerosN, brQ,
    realBasisOf, realBasis, pairs, dup, PQ, wQ, zQ, csQ, snQ, List.range_succ]
  norm_num

/-- T9.3 instantiated -/
example : zeroImagDerivative (iota 2 2 1 xQ) (2 + 1) 0 = iota 2 2 1 (realDerivative xQ 2) :=
  zeroImagDerivative_iota 2 2 1 xQ (by decide) (by decide)

example : realDerivative xQ 2 = [[0, 0], [5, 6], [-3, -4]] := by
  simp [realDerivative, scale, zerosN, xQ, List.range_succ]

/-- masks -/
example : fastMask 2 3 2 1 = iotaWith false 3 2 1 (realMask 2 3) := fastMask_eq_iota 2 3 2 1 (by omega)

example : realMask 2 3 = [[true, true, true], [false, true, true], [false, true, true]] := by decide

example : fastMask 2 3 2 1 = [[true, true, true, false], [false, false, false, false],
    [false, true, true, false], [false, true, true, false], [false, false, false, false],
    [false, false, false, false]] := by decide

/-- clipping and the eigenvalue operations -/
example : clipWavenumbers 2 1 1 (iota 2 2 1 xQ) = (clipWavenumbers 2 0 1 xQ).map (iota 2 2 1) :=
  clip_iota 2 2 1 1 xQ (by decide)

example : clipWavenumbers 2 0 1 xQ = some [[1, 0], [3, 0], [5, 0]] := by
  simp [clipWavenumbers, mulLast, clipMask, xQ, List.range_succ]

example : laplacian (4 : ℚ) 2 1 (iota 2 2 1 xQ) = iota 2 2 1 (laplacian 4 2 0 xQ) :=
  laplacian_iota 4 2 2 1 xQ (by decide)

example : laplacian (4 : ℚ) 2 0 xQ = [[0, -1], [0, -2], [0, -3]] := by
  simp [laplacian, mulLast, lapEig, lvals, xQ, List.range_succ]
  norm_num

example : inverseLaplacian (4 : ℚ) 2 1 (iota 2 2 1 xQ) = iota 2 2 1 (inverseLaplacian 4 2 0 xQ) :=
  inverseLaplacian_iota 4 2 2 1 xQ (by decide)

example : inverseLaplacian (4 : ℚ) 2 0 xQ = [[0, -4], [0, -8], [0, -12]] := by
  simp [inverseLaplacian, mulLast, invEig, lapEig, lvals, xQ, List.range_succ]
  norm_num

/-- T9.4 / T9.5 instantiated: the stacked, reversed contraction with another precision hint -/
example : fastSynthStacked bfQ 3 (iota 2 2 1 xQ) = fastSynth bfQ 3 (iota 2 2 1 xQ) :=
  fastSynthStacked_eq bfQ 3 _ (by decide) shapedQ.2.pj

example : fastSynthOpt ⟨true, true, "highest"⟩ bfQ 3 (iota 2 2 1 xQ) = fastSynth bfQ 3 (iota 2 2 1 xQ) :=
  fastSynthOpt_eq _ bfQ 3 _ (by decide) shapedQ.2.pj

example : fastAnalysisOpt ⟨true, true, "float32"⟩ bfQ (2 * 3) 3 3 (padNodal 1 1 2 zQ)
    = fastAnalysis bfQ (2 * 3) 3 3 (padNodal 1 1 2 zQ) :=
  fastAnalysisOpt_eq _ bfQ 3 3 3 _

/-! ### C09-1 instantiated: `M = 2, L = 2`, paddings `pr = 2, pc = 1`; `idQ` stands in for `√`
(the theorems hold for every function; `idQ 0 = 0`) -/

def idQ : ℚ → ℚ := fun q => q
def vQ : List (List ℚ) := [[2, -1], [0, 7], [1, 1]]
def yQ : List (List ℚ) := [[1, 2, 9], [7, 7, 7], [3, 4, 9], [5, 6, 9], [8, 8, 8], [9, 9, 9]]
theorem xQ_shaped : RealShaped 2 2 xQ := ⟨rfl, by decide⟩
theorem vQ_shaped : RealShaped 2 2 vQ := ⟨rfl, by decide⟩

/-- block equality, every hypothesis discharged -/
example : unIota (2 * 2) 2 (fastCosLatDDlat idQ 2 2 2 1 (iota 2 2 1 xQ)) = realCosLatDDlat idQ 2 2 xQ :=
  fastCosLatDDlat_iota_unIota idQ 2 2 2 1 (by omega) xQ rfl (by decide)

/-- the fast result is *not* `ι` of the real result: column `L = 2` is non-zero … -/
example : fastCosLatDDlat idQ 2 2 2 1 (iota 2 2 1 xQ)
    = [[4 / 3, 0, -8 / 15], [0, 0, 0], [0, 0, -4 / 5], [0, 0, -6 / 5], [0, 0, 0], [0, 0, 0]] := by
  simp [fastCosLatDDlat, cosLatDDlat, dDlatWith, fastWeights, recurrenceWeights, fastMvals, fastMask, lvals,
    shiftLeft, shiftRight, vadd, boolK, xQ, List.range_succ, List.zipIdx, iota, padRight, zerosN, idQ]
  norm_num

example : realCosLatDDlat idQ 2 2 xQ = [[4 / 3, 0], [0, 0], [0, 0]] := by
  simp [realCosLatDDlat, cosLatDDlat, dDlatWith, realWeights, recurrenceWeights, realMvals, realMask, lvals,
    shiftLeft, shiftRight, vadd, boolK, xQ, List.range_succ, List.zipIdx, idQ]
  norm_num

/-- … and its value is the one of `fastCosLatDDlat_iota_colL` (here `−1 · (4/15) · 2 = −8/15` in row 0) -/
example : ent2 (fastCosLatDDlat idQ 2 2 2 1 (iota 2 2 1 xQ)) (src 0) 2
    = -((2 - 1 : ℕ) : ℚ)
      * idQ (boolK (decide (mAbs 2 0 ≤ 2 - 1)) * (((2 : ℕ) : ℚ) * ((2 : ℕ) : ℚ) - (mAbs 2 0 : ℚ) * (mAbs 2 0 : ℚ))
          / ((1 + 1) * (1 + 1) * (((2 : ℕ) : ℚ) * ((2 : ℕ) : ℚ)) - 1))
      * ent2 xQ 0 (2 - 1) :=
  fastCosLatDDlat_iota_colL idQ 2 2 2 1 (by omega) (by omega) (by omega) xQ rfl (by decide) 0 (by omega)

example : -((2 - 1 : ℕ) : ℚ)
      * idQ (boolK (decide (mAbs 2 0 ≤ 2 - 1)) * (((2 : ℕ) : ℚ) * ((2 : ℕ) : ℚ) - (mAbs 2 0 : ℚ) * (mAbs 2 0 : ℚ))
          / ((1 + 1) * (1 + 1) * (((2 : ℕ) : ℚ) * ((2 : ℕ) : ℚ)) - 1))
      * ent2 xQ 0 (2 - 1) = -8 / 15 := by
  have h : mAbs 2 0 = 0 := by decide
  simp [h, idQ, boolK, xQ, ent2]
  norm_num

/-- clipping removes it -/
example : clipWavenumbers 2 1 1 (fastCosLatDDlat idQ 2 2 2 1 (iota 2 2 1 xQ))
    = (clipWavenumbers 2 0 1 (realCosLatDDlat idQ 2 2 xQ)).map (iota 2 2 1) :=
  clip_fastCosLatDDlat_iota idQ 2 2 2 1 (by omega) 1 xQ rfl (by decide)

/-- block locality on an array with junk in row 1 and in all padding -/
example : unIota (2 * 2) 2 (fastSecLatDDlatCos2 idQ 2 2 2 1 yQ)
    = realSecLatDDlatCos2 idQ 2 2 (unIota (2 * 2) 2 yQ) :=
  fastSecLatDDlatCos2_block idQ rfl 2 2 2 1 (by omega) yQ rfl (by decide)

example : realSecLatDDlatCos2 idQ 2 2 (unIota (2 * 2) 2 yQ) = [[0, -2 / 3], [0, 0], [0, 0]] := by
  simp [realSecLatDDlatCos2, secLatDDlatCos2, dDlatWith, realWeights, recurrenceWeights, realMvals, realMask,
    lvals, shiftLeft, shiftRight, vadd, boolK, yQ, unIota, dropRow1, List.range_succ, List.zipIdx, idQ]
  norm_num

/-- `div_cos_lat` with and without clipping -/
example : fastDivCosLat idQ 2 2 2 1 (5 / 2) true (iota 2 2 1 xQ) (iota 2 2 1 vQ)
    = iota 2 2 1 (realDivCosLat idQ 2 2 (5 / 2) true xQ vQ) :=
  fastDivCosLat_iota_clip idQ 2 2 2 1 (by omega) (5 / 2) xQ vQ xQ_shaped vQ_shaped

example : unIota (2 * 2) 2 (fastDivCosLat idQ 2 2 2 1 (5 / 2) false (iota 2 2 1 xQ) (iota 2 2 1 vQ))
    = realDivCosLat idQ 2 2 (5 / 2) false xQ vQ :=
  (fastDivCosLat_iota_noclip idQ 2 2 2 1 (by omega) (5 / 2) xQ vQ xQ_shaped vQ_shaped).2.1

example : realDivCosLat idQ 2 2 (5 / 2) false xQ vQ = [[0, -8 / 15], [2, 12 / 5], [-6 / 5, -8 / 5]] := by
  simp [realDivCosLat, clipIf, divAll, madd, realSecLatDDlatCos2, secLatDDlatCos2, dDlatWith, realWeights,
    recurrenceWeights, realMvals, realMask, lvals, shiftLeft, shiftRight, vadd, boolK, xQ, vQ,
    realDerivative, scale, zerosN, List.range_succ, List.zipIdx, idQ]
  norm_num

example : fastCurlCosLat idQ 2 2 2 1 (5 / 2) true (iota 2 2 1 xQ) (iota 2 2 1 vQ)
    = iota 2 2 1 (realCurlCosLat idQ 2 2 (5 / 2) true xQ vQ) :=
  fastCurlCosLat_iota_clip idQ 2 2 2 1 (by omega) (5 / 2) xQ vQ xQ_shaped vQ_shaped

example : fastCosLatGrad idQ 2 2 2 1 (5 / 2) true (iota 2 2 1 xQ)
    = (iota 2 2 1 (realCosLatGrad idQ 2 2 (5 / 2) true xQ).1, iota 2 2 1 (realCosLatGrad idQ 2 2 (5 / 2) true xQ).2) :=
  fastCosLatGrad_iota_clip idQ 2 2 2 1 (by omega) (5 / 2) xQ xQ_shaped

example : kCross (iota 2 2 1 xQ) (iota 2 2 1 vQ) = (iota 2 2 1 (kCross xQ vQ).1, iota 2 2 1 (kCross xQ vQ).2) :=
  kCross_iota 2 2 2 1 (by omega) xQ vQ vQ_shaped

/-- `integrate`: junk in the padded weight does not matter -/
example : integrate [1 / 2, 2 / 3, 5] (4 : ℚ) (padNodal 1 1 2 zQ) = integrate wQ 4 zQ :=
  integrate_pad wQ [1 / 2, 2 / 3, 5] 4 2 1 1 zQ rfl (by decide) (by
    intro j hj
    match j, hj with
    | 0, _ => rfl
    | 1, _ => rfl)

example : integrate wQ (4 : ℚ) zQ = 86 / 3 := by
  simp [integrate, dotv, wQ, zQ]
  norm_num

/-! ### N-C09-b instantiated: block locality of `div_cos_lat` / `curl_cos_lat` / `cos_lat_grad` on arrays
that are NOT `ι`-images (junk in row 1, in the padding rows and in the padding column), `clip=False` -/

def y2Q : List (List ℚ) := [[2, -1, 4], [5, 5, 5], [0, 7, -3], [1, 1, 6], [2, 3, 4], [-1, -2, -3]]
theorem yQ_fast : FastShaped 2 2 2 1 yQ := ⟨rfl, by decide⟩
theorem y2Q_fast : FastShaped 2 2 2 1 y2Q := ⟨rfl, by decide⟩

/-- neither array is an `ι`-image -/
example : yQ ≠ iota 2 2 1 (unIota (2 * 2) 2 yQ) ∧ y2Q ≠ iota 2 2 1 (unIota (2 * 2) 2 y2Q) := by decide

example : unIota (2 * 2) 2 yQ = xQ ∧ unIota (2 * 2) 2 y2Q = vQ := by decide

/-- `fastDivCosLat_block`, every hypothesis discharged (`idQ 0 = 0` is `rfl`) -/
example : unIota (2 * 2) 2 (fastDivCosLat idQ 2 2 2 1 (5 / 2) false yQ y2Q)
    = realDivCosLat idQ 2 2 (5 / 2) false (unIota (2 * 2) 2 yQ) (unIota (2 * 2) 2 y2Q) :=
  fastDivCosLat_block idQ rfl 2 2 2 1 (by omega) (5 / 2) false yQ y2Q yQ_fast y2Q_fast

/-- the fast result itself is full of junk outside the block (so the statement is not about an `ι`-image
 on either side); its block is `realDivCosLat … xQ vQ = [[0, -8/15], [2, 12/5], [-6/5, -8/5]]` (above) -/
example : fastDivCosLat idQ 2 2 2 1 (5 / 2) false yQ y2Q
    = [[0, -8 / 15, 8 / 25], [0, 0, 0], [2, 12 / 5, 48 / 25], [-6 / 5, -8 / 5, -96 / 25],
       [36 / 5, 36 / 5, 36 / 5], [-32 / 5, -32 / 5, -32 / 5]] := by decide +kernel

example : unIota (2 * 2) 2 (fastCurlCosLat idQ 2 2 2 1 (5 / 2) false yQ y2Q)
    = realCurlCosLat idQ 2 2 (5 / 2) false (unIota (2 * 2) 2 yQ) (unIota (2 * 2) 2 y2Q) :=
  fastCurlCosLat_block idQ rfl 2 2 2 1 (by omega) (5 / 2) false yQ y2Q yQ_fast y2Q_fast

example : realCurlCosLat idQ 2 2 (5 / 2) false xQ vQ = [[0, 4 / 15], [2 / 5, 2 / 5], [0, -14 / 5]] := by
  decide +kernel

example : unIota (2 * 2) 2 (fastCosLatGrad idQ 2 2 2 1 (5 / 2) false yQ).2
    = (realCosLatGrad idQ 2 2 (5 / 2) false (unIota (2 * 2) 2 yQ)).2 :=
  (fastCosLatGrad_block idQ rfl 2 2 2 1 (by omega) (5 / 2) false yQ yQ_fast).2

/-- two unclipped operators in a row on an `ι`-image: the intermediate result is not an `ι`-image
 (padding column `L = 2` holds `-16/75, -8/25, -12/25`) … -/
example : (fastCosLatGrad idQ 2 2 2 1 (5 / 2) false (iota 2 2 1 xQ)).2
    = [[8 / 15, 0, -16 / 75], [0, 0, 0], [0, 0, -8 / 25], [0, 0, -12 / 25], [0, 0, 0], [0, 0, 0]] := by
  decide +kernel

/-- … and the block of the divergence of that gradient is the reference value -/
example : unIota (2 * 2) 2 (fastDivCosLat idQ 2 2 2 1 (5 / 2) false
      (fastCosLatGrad idQ 2 2 2 1 (5 / 2) false (iota 2 2 1 xQ)).1
      (fastCosLatGrad idQ 2 2 2 1 (5 / 2) false (iota 2 2 1 xQ)).2)
    = realDivCosLat idQ 2 2 (5 / 2) false (realCosLatGrad idQ 2 2 (5 / 2) false xQ).1
        (realCosLatGrad idQ 2 2 (5 / 2) false xQ).2 :=
  fastDivCosLat_fastCosLatGrad_iota idQ rfl 2 2 2 1 (by omega) (5 / 2) false false xQ xQ_shaped

example : realDivCosLat idQ 2 2 (5 / 2) false (realCosLatGrad idQ 2 2 (5 / 2) false xQ).1
      (realCosLatGrad idQ 2 2 (5 / 2) false xQ).2
    = [[0, -32 / 225], [-12 / 25, -16 / 25], [-4 / 5, -24 / 25]] := by decide +kernel

/-- the same on the junk array, both flags off -/
example : unIota (2 * 2) 2 (fastDivCosLat idQ 2 2 2 1 (5 / 2) false
      (fastCosLatGrad idQ 2 2 2 1 (5 / 2) false yQ).1 (fastCosLatGrad idQ 2 2 2 1 (5 / 2) false yQ).2)
    = realDivCosLat idQ 2 2 (5 / 2) false (realCosLatGrad idQ 2 2 (5 / 2) false (unIota (2 * 2) 2 yQ)).1
        (realCosLatGrad idQ 2 2 (5 / 2) false (unIota (2 * 2) 2 yQ)).2 :=
  fastDivCosLat_fastCosLatGrad_block idQ rfl 2 2 2 1 (by omega) (5 / 2) false false yQ yQ_fast

/-- every entry outside column `L`, and the zeros of row 1 / the padding, for the two-fold composite -/
example : EqOff 2 (fastDivCosLat idQ 2 2 2 1 (5 / 2) false
      (fastCosLatGrad idQ 2 2 2 1 (5 / 2) false (iota 2 2 1 xQ)).1
      (fastCosLatGrad idQ 2 2 2 1 (5 / 2) false (iota 2 2 1 xQ)).2)
    (iota 2 2 1 (realDivCosLat idQ 2 2 (5 / 2) false (realCosLatGrad idQ 2 2 (5 / 2) false xQ).1
        (realCosLatGrad idQ 2 2 (5 / 2) false xQ).2)) :=
  fastDivCosLat_fastCosLatGrad_iota_eqOff idQ rfl 2 2 2 1 (by omega) (5 / 2) false false xQ xQ_shaped

def y3Q : List (List ℚ) := [[2, -1, 40], [5, 5, 50], [0, 7, -30], [1, 1, 60], [2, 3, 41], [-1, -2, -31]]
theorem y3Q_fast : FastShaped 2 2 2 1 y3Q := ⟨rfl, by decide⟩

/-- `y2Q` and `y3Q` differ in every entry of column `L = 2` and nowhere else -/
theorem y2Q_eqOff_y3Q : EqOff 2 y2Q y3Q :=
  EqOff.of_bounded 6 3 rfl rfl y2Q_fast.2 y3Q_fast.2 (by decide)

/-- `fastDivCosLat_congr_eqOff` on arrays that are not `ι`-images: changing padding column `L` of the input
 cannot change the output outside column `L` (here, as the next example shows, it changes nothing at all:
 the weights that read column `L` are masked) -/
example : EqOff 2 (fastDivCosLat idQ 2 2 2 1 (5 / 2) false yQ y2Q) (fastDivCosLat idQ 2 2 2 1 (5 / 2) false yQ y3Q) :=
  fastDivCosLat_congr_eqOff idQ rfl 2 2 2 1 (by omega) (5 / 2) false yQ yQ y2Q y3Q yQ_fast yQ_fast y2Q_fast
    y3Q_fast (EqOff.refl 2 yQ) y2Q_eqOff_y3Q

example : fastDivCosLat idQ 2 2 2 1 (5 / 2) false yQ y3Q
    = [[0, -8 / 15, 8 / 25], [0, 0, 0], [2, 12 / 5, 48 / 25], [-6 / 5, -8 / 5, -96 / 25],
       [36 / 5, 36 / 5, 36 / 5], [-32 / 5, -32 / 5, -32 / 5]] := by decide +kernel

/-! ### C09-2 instantiated: `base_shape_multiple = 3` gives the paddings `(pr, pc) = (2, 1)`,
`(pn, pj) = (0, 1)` for `M = 2, L = 2, N = 3, J = 2` -/

example : fastModalPadding 2 2 3 1 1 = (2, 1) ∧ fastNodalPadding 3 2 3 1 1 = (0, 1) := by decide

example : 2 * 2 + (fastModalPadding 2 2 3 1 1).1 = 2 * (2 + (fastModalPadding 2 2 3 1 1).1 / 2) :=
  (fastModalPadding_even 2 2 3 1 1 (by omega)).2.1

/-- T9.1 with no parity hypothesis left -/
example : fastSynth
      (fastBasisOf (realBasisZeroImag csQ snQ (5 / 2) (7 / 4) 2 3) PQ wQ (fastNodalPadding 3 2 3 1 1).1
        (fastModalPadding 2 2 3 1 1).1 (fastNodalPadding 3 2 3 1 1).2 (fastModalPadding 2 2 3 1 1).2 (2 * 2) 2 2)
      (2 + (fastNodalPadding 3 2 3 1 1).2)
      (iota 2 (fastModalPadding 2 2 3 1 1).1 (fastModalPadding 2 2 3 1 1).2 xQ)
    = padNodal (fastNodalPadding 3 2 3 1 1).1 (fastNodalPadding 3 2 3 1 1).2 2 (realSynth brQ 2 xQ) :=
  fastSynth_iota_built csQ snQ (5 / 2) (7 / 4) 2 3 2 2 3 1 1 (by omega) (by omega) PQ wQ rfl PQ_rows PQ_cols
    rfl xQ rfl (by decide)

example : fastAnalysis
      (fastBasisOf (realBasisZeroImag csQ snQ (5 / 2) (7 / 4) 2 3) PQ wQ (fastNodalPadding 3 2 3 1 1).1
        (fastModalPadding 2 2 3 1 1).1 (fastNodalPadding 3 2 3 1 1).2 (fastModalPadding 2 2 3 1 1).2 (2 * 2) 2 2)
      (fastModalShape 2 2 3 1 1).1 (2 + (fastNodalPadding 3 2 3 1 1).2) (2 + (fastModalPadding 2 2 3 1 1).2)
      (padNodal (fastNodalPadding 3 2 3 1 1).1 (fastNodalPadding 3 2 3 1 1).2 2 zQ)
    = iota 2 (fastModalPadding 2 2 3 1 1).1 (fastModalPadding 2 2 3 1 1).2
        (realAnalysis brQ (2 * 2 - 1) 2 2 zQ) :=
  fastAnalysis_pad_built csQ snQ (5 / 2) (7 / 4) 2 3 2 2 3 1 1 (by omega) (by omega) PQ wQ rfl PQ_rows PQ_cols
    rfl zQ (by decide) (by decide)

end examples

end Dino.C09
