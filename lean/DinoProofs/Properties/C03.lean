import DinoProofs.Lemmas.Implicit
import Mathlib.Algebra.Order.Field.Basic
import Mathlib.Tactic.Positivity
import Mathlib.Tactic.LinearCombination

/-!
# C03 — the implicit solve is the exact resolvent of `1 - η·L`
-/
namespace Dino.C03
open Dino.Sigma Dino.Implicit

variable {K : Type} [Field K]

/-! ## T3.1 shallow water -/

/-- the Schur-complement solve undoes `x ↦ x - η·L x`, for every step size of either sign -/
theorem swInverse_oneMinus (eta lam phi d p : K) (h : 1 - eta * eta * phi * lam ≠ 0) :
    swInverse eta lam phi (swOneMinus eta lam phi d p).1 (swOneMinus eta lam phi d p).2 = (d, p) := by
  simp only [swInverse, swOneMinus, swImplicit, one_div]
  have hs : (1 - eta * eta * phi * lam)⁻¹ * (1 - eta * eta * phi * lam) = 1 := inv_mul_cancel₀ h
  generalize (1 - eta * eta * phi * lam)⁻¹ = s at hs
  ext
  · show s * _ = d
    linear_combination d * hs
  · show s * _ = p
    linear_combination p * hs

/-- and it is a right inverse as well -/
theorem swOneMinus_inverse (eta lam phi d p : K) (h : 1 - eta * eta * phi * lam ≠ 0) :
    swOneMinus eta lam phi (swInverse eta lam phi d p).1 (swInverse eta lam phi d p).2 = (d, p) := by
  simp only [swInverse, swOneMinus, swImplicit, one_div]
  have hs : (1 - eta * eta * phi * lam)⁻¹ * (1 - eta * eta * phi * lam) = 1 := inv_mul_cancel₀ h
  generalize (1 - eta * eta * phi * lam)⁻¹ = s at hs
  ext
  · show _ = d
    linear_combination d * hs
  · show _ = p
    linear_combination p * hs

/-- the denominator never vanishes for a non-negative reference potential and the (non-positive)
 Laplacian eigenvalues, whatever the sign or size of the step -/
theorem sw_denominator_pos [LinearOrder K] [IsStrictOrderedRing K] (eta lam phi : K)
    (hphi : 0 ≤ phi) (hlam : lam ≤ 0) : 1 ≤ 1 - eta * eta * phi * lam := by
  have h1 : 0 ≤ eta * eta := mul_self_nonneg eta
  have h2 : eta * eta * phi * lam ≤ 0 :=
    mul_nonpos_of_nonneg_of_nonpos (mul_nonneg h1 hphi) hlam
  linarith


/-! ## T3.2 the block matrix is `1 - η·L`, for every layer count -/

/-- shape hypotheses of one column problem with `n` layers -/
structure Shaped (n : Nat) (ds T : List K) (g h : List (List K)) (x : Col K) : Prop where
  lds : ds.length = n
  lT : T.length = n
  lg : g.length = n
  lh : h.length = n
  grow : ∀ r ∈ g, r.length = n
  hrow : ∀ r ∈ h, r.length = n
  ld : x.d.length = n
  lt : x.t.length = n

theorem getD_eq {α : Type} (l : List α) (i : Nat) (d : α) (h : i < l.length) : l.getD i d = l[i] := by
  simp [List.getD_eq_getElem?_getD, List.getElem?_eq_getElem h]

variable (n : Nat) (eta lam R : K) (ds T : List K) (g h : List (List K)) (x : Col K)

theorem rows_div (hs : Shaped n ds T g h x) :
    (List.range n).map (fun j => dot (eyeRow n j ++ (g.getD j []).map (fun v => eta * (lam * v))
        ++ [eta * R * (lam * T.getD j 0)]) (x.d ++ x.t ++ [x.p]))
      = subv x.d (smul eta ((addv (matvec g x.t) (T.map fun tr => R * tr * x.p)).map
          fun v => -(v * lam))) := by
  obtain ⟨hds, hT, hg, hh, hgrow, hhrow, hd, ht⟩ := hs
  apply List.ext_getElem
  · simp [subv, smul, addv, matvec, hd, hg, hT]
  · intro j h1 h2
    have hj : j < n := by simpa using h1
    have hgj : (g.getD j []).length = n := by
      rw [getD_eq _ _ _ (by omega)]; exact hgrow _ (List.getElem_mem _)
    simp only [List.getElem_map, List.getElem_range]
    rw [List.append_assoc, List.append_assoc, dot_append _ _ _ _ (by simp [eyeRow, hd]),
      dot_append _ _ _ _ (by rw [List.length_map, hgj, ht]), dot_eyeRow n j x.d hd hj,
      dot_map_mul2, dot_singleton]
    simp only [subv, smul, addv, matvec, List.getElem_zipWith, List.getElem_map]
    rw [getD_eq _ _ _ (by omega), getD_eq _ _ _ (by omega), getD_eq _ _ _ (by omega)]
    simp only [dot]
    ring

theorem rows_temp (hs : Shaped n ds T g h x) :
    (List.range n).map (fun j => dot ((h.getD j []).map (fun v => eta * v) ++ eyeRow n j ++ [0])
        (x.d ++ x.t ++ [x.p]))
      = subv x.t (smul eta (tempImplicitDense h x.d)) := by
  obtain ⟨hds, hT, hg, hh, hgrow, hhrow, hd, ht⟩ := hs
  apply List.ext_getElem
  · simp [subv, smul, tempImplicitDense, matvec, negMat, ht, hh]
  · intro j h1 h2
    have hj : j < n := by simpa using h1
    have hhj : (h.getD j []).length = n := by
      rw [getD_eq _ _ _ (by omega)]; exact hhrow _ (List.getElem_mem _)
    simp only [List.getElem_map, List.getElem_range]
    rw [List.append_assoc, List.append_assoc, dot_append _ _ _ _ (by rw [List.length_map, hhj, hd]),
      dot_append _ _ _ _ (by simp [eyeRow, ht]), dot_eyeRow n j x.t ht hj, dot_map_mul,
      dot_singleton]
    simp only [subv, smul, tempImplicitDense, matvec, negMat, List.getElem_zipWith,
      List.getElem_map]
    rw [getD_eq _ _ _ (by omega), getD_eq _ _ _ (by omega)]
    have := dot_neg_left h[j] x.d
    simp only [dot] at this ⊢
    rw [this]
    ring

theorem row_logp (hs : Shaped n ds T g h x) :
    dot (ds.map (fun v => eta * v) ++ zeros n ++ [1]) (x.d ++ x.t ++ [x.p])
      = x.p - eta * -((mulv ds x.d).sum) := by
  obtain ⟨hds, hT, hg, hh, hgrow, hhrow, hd, ht⟩ := hs
  rw [List.append_assoc, List.append_assoc, dot_append _ _ _ _ (by simp [hds, hd]),
    dot_append _ _ _ _ (by simp [zeros, ht]), dot_map_mul, dot_zeros, dot_singleton]
  simp only [dot]
  ring

/-- `_get_implicit_term_matrix(η)` applied to the stacked column state is the stacked
 `x - η·implicit_terms(x)` (with the dense vertical products), for every layer count `n`. -/
theorem implicitMatrix_mul_eq_oneMinus (hs : Shaped n ds T g h x) :
    matvec (implicitMatrix eta lam R ds T g h) (stack x)
      = stack (oneMinus eta (implicitTerms lam R ds T (matvec g) (tempImplicitDense h)) x) := by
  have hn : ds.length = n := hs.lds
  unfold implicitMatrix
  simp only [matvec_eq_map_dot, List.map_append, List.map_map, List.map_cons, List.map_nil,
    Function.comp_def, hn]
  simp only [stack, oneMinus, implicitTerms]
  rw [rows_div n eta lam R ds T g h x hs, rows_temp n eta ds T g h x hs,
    row_logp n eta ds T g h x hs]


/-! ## T3.3 / T3.6 the solve strategies -/

omit eta lam R ds T g h in
/-- `method='split'` (nine block products) = `method='stacked'` (one product), for every matrix
 of the right shape: block decomposition of a matrix–vector product. -/
theorem inverseSplit_eq_inverseStacked (minv : List (List K))
    (hx : x.t.length = x.d.length) (hn : x.d.length = n)
    (hm : minv.length = 2 * n + 1) (hrow : ∀ r ∈ minv, r.length = 2 * n + 1) :
    inverseSplit minv x = inverseStacked minv x := by
  have ht : x.t.length = n := by omega
  have key : ∀ r ∈ minv, dot r (stack x)
      = dot ((r.drop 0).take n) x.d + dot ((r.drop n).take n) x.t
        + dot ((r.drop (2 * n)).take 1) [x.p] := by
    intro r hr
    exact dot_split3 n r x.d x.t x.p hn ht (hrow r hr)
  have rows : ∀ (r0 nr : Nat),
      addv (addv (matvec (block minv r0 nr 0 n) x.d) (matvec (block minv r0 nr n n) x.t))
        (matvec (block minv r0 nr (2 * n) 1) [x.p])
      = ((minv.drop r0).take nr).map fun r => dot r (stack x) := by
    intro r0 nr
    simp only [block, matvec_eq_map_dot, List.map_map, addv, List.zipWith_map_left,
      List.zipWith_map_right, List.zipWith_self, Function.comp_def]
    apply List.map_congr_left
    intro r hr
    rw [key r (List.mem_of_mem_drop (List.mem_of_mem_take hr))]
  simp only [inverseSplit, inverseStacked, unstack, hn]
  rw [rows 0 n, rows n n, rows (2 * n) 1]
  simp only [matvec_eq_map_dot, List.drop_zero, List.map_take, List.map_drop]
  congr 1
  cases List.drop (2 * n) (List.map (fun r => dot r (stack x)) minv) <;> rfl

omit eta lam R ds T g h in
/-- T3.6: whatever matrix the external inversion returns, if it is a left inverse of the
 implicit matrix `M` (as an action on vectors), the stacked solve applied to `M·stack x`
 returns `x`. -/
theorem inverseStacked_leftInverse (m minv : List (List K))
    (hx : x.t.length = x.d.length) (hn : x.d.length = n)
    (hinv : ∀ v : List K, v.length = 2 * n + 1 → matvec minv (matvec m v) = v)
    (y : Col K) (hy : stack y = matvec m (stack x)) (hyd : y.d.length = n) :
    inverseStacked minv y = x := by
  unfold inverseStacked
  rw [hy, hinv _ (by rw [stack_length]; omega), hyd, ← hn]
  exact unstack_stack x hx

/-- **The resolvent theorem for the primitive equations** (dense vertical products, strategies
 `split` and `stacked`): for every layer count, level set, reference profile, step size of
 either sign and column state, if the externally computed `minv` is a left inverse of the
 implicit matrix, then `implicit_inverse(x - η·implicit_terms(x)) = x`. -/
theorem primitive_resolvent (hs : Shaped n ds T g h x) (minv : List (List K))
    (hm : minv.length = 2 * n + 1) (hrow : ∀ r ∈ minv, r.length = 2 * n + 1)
    (hinv : ∀ v : List K, v.length = 2 * n + 1 →
      matvec minv (matvec (implicitMatrix eta lam R ds T g h) v) = v) :
    let y := oneMinus eta (implicitTerms lam R ds T (matvec g) (tempImplicitDense h)) x
    inverseStacked minv y = x ∧ inverseSplit minv y = x := by
  intro y
  have hyd : y.d.length = n := by
    simp [y, oneMinus, implicitTerms, subv, smul, addv, matvec, hs.ld, hs.lg, hs.lT]
  have hyt : y.t.length = n := by
    simp [y, oneMinus, implicitTerms, subv, smul, tempImplicitDense, matvec, negMat, hs.lt, hs.lh]
  have hxt : x.t.length = x.d.length := by rw [hs.lt, hs.ld]
  have h1 : inverseStacked minv y = x :=
    inverseStacked_leftInverse n x (implicitMatrix eta lam R ds T g h) minv hxt hs.ld hinv y
      (implicitMatrix_mul_eq_oneMinus n eta lam R ds T g h x hs).symm hyd
  refine ⟨h1, ?_⟩
  rw [inverseSplit_eq_inverseStacked n y minv (by omega) hyd hm hrow, h1]


/-! ### `method='blockwise'` -/

/-- action of the upper-right block `G̃ = [ηλg, ηx]` on `(t, p)` as the code computes it -/
def gAct (eta lam : K) (m : List (List K)) (gop : List K → List K) (n : Nat) (t : List K) (p : K) :
    List K :=
  addv ((gop t).map fun v => eta * lam * v) (matvec (block m 0 n (2 * n) 1) [p])

/-- action of the lower-left block `H̃ = [ηh; ηy]` on `d` -/
def hActT (eta : K) (hopNeg : List K → List K) (d : List K) : List K := smul eta (hopNeg d)
def hActP (m : List (List K)) (n : Nat) (d : List K) : K := (matvec (block m (2 * n) 1 0 n) d).headD 0

/-- the `(n+1)`-dimensional solve with the blocks of `tpInv`, as the code applies it -/
def tpApply (n : Nat) (tpInv : List (List K)) (t : List K) (p : K) : List K × K :=
  (addv (matvec (block tpInv 0 n 0 n) t) (matvec (block tpInv 0 n n 1) [p]),
   (addv (matvec (block tpInv n 1 0 n) t) (matvec (block tpInv n 1 n 1) [p])).headD 0)

omit ds T g h R in
/-- **Block-wise solve.**  Write `1 - ηL = [[I, G̃],[H̃, I]]`.  If the two externally inverted
 matrices are left inverses of `I - G̃H̃` and `I - H̃G̃` (as actions), and the block actions are
 additive, then the block-wise strategy applied to `(d + G̃(t,p), (t,p) + H̃ d)` returns
 `(d, t, p)`: it is the exact resolvent, for every layer count. -/
theorem inverseBlockwise_resolvent (m divInv tpInv : List (List K)) (gop hopNeg : List K → List K)
    (hd : x.d.length = n) (ht : x.t.length = n)
    (hgl : ∀ t p, (gAct eta lam m gop n t p).length = n)
    (hhl : ∀ d, (hActT eta hopNeg d).length = n)
    (hGadd : ∀ t1 t2 p1 p2, t1.length = n → t2.length = n →
      gAct eta lam m gop n (addv t1 t2) (p1 + p2)
        = addv (gAct eta lam m gop n t1 p1) (gAct eta lam m gop n t2 p2))
    (hHTadd : ∀ d1 d2, d1.length = n → d2.length = n →
      hActT eta hopNeg (addv d1 d2) = addv (hActT eta hopNeg d1) (hActT eta hopNeg d2))
    (hHPadd : ∀ d1 d2, d1.length = n → d2.length = n →
      hActP m n (addv d1 d2) = hActP m n d1 + hActP m n d2)
    (hA : ∀ d, d.length = n →
      matvec divInv (subv d (gAct eta lam m gop n (hActT eta hopNeg d) (hActP m n d))) = d)
    (hB : ∀ t p, t.length = n →
      tpApply n tpInv (subv t (hActT eta hopNeg (gAct eta lam m gop n t p)))
        (p - hActP m n (gAct eta lam m gop n t p)) = (t, p)) :
    inverseBlockwise eta lam m divInv tpInv gop hopNeg
        ⟨addv x.d (gAct eta lam m gop n x.t x.p), addv x.t (hActT eta hopNeg x.d), x.p + hActP m n x.d⟩
      = x := by
  have hgx := hgl x.t x.p
  have hhx := hhl x.d
  have hlen : (addv x.d (gAct eta lam m gop n x.t x.p)).length = n := by simp [addv, hd, hgx]
  -- divergence
  have hdiv : matvec divInv (subv (subv (addv x.d (gAct eta lam m gop n x.t x.p))
        ((gop (addv x.t (hActT eta hopNeg x.d))).map fun v => eta * lam * v))
        (matvec (block m 0 n (2 * n) 1) [x.p + hActP m n x.d])) = x.d := by
    rw [subv_subv]
    have : addv ((gop (addv x.t (hActT eta hopNeg x.d))).map fun v => eta * lam * v)
        (matvec (block m 0 n (2 * n) 1) [x.p + hActP m n x.d])
        = gAct eta lam m gop n (addv x.t (hActT eta hopNeg x.d)) (x.p + hActP m n x.d) := rfl
    rw [this, hGadd _ _ _ _ ht hhx, subv_addv_cancel _ _ _ (by rw [hgx, hd]) (by rw [hgl, hd])]
    exact hA x.d hd
  -- temperature and surface pressure
  have hT1 : subv (addv x.t (hActT eta hopNeg x.d))
      (smul eta (hopNeg (addv x.d (gAct eta lam m gop n x.t x.p))))
      = subv x.t (hActT eta hopNeg (gAct eta lam m gop n x.t x.p)) := by
    have : smul eta (hopNeg (addv x.d (gAct eta lam m gop n x.t x.p)))
        = hActT eta hopNeg (addv x.d (gAct eta lam m gop n x.t x.p)) := rfl
    rw [this, hHTadd _ _ hd hgx, subv_addv_cancel _ _ _ (by rw [hhx, ht]) (by rw [hhl, ht])]
  have hP1 : x.p + hActP m n x.d
      - (matvec (block m (2 * n) 1 0 n) (addv x.d (gAct eta lam m gop n x.t x.p))).headD 0
      = x.p - hActP m n (gAct eta lam m gop n x.t x.p) := by
    have : (matvec (block m (2 * n) 1 0 n) (addv x.d (gAct eta lam m gop n x.t x.p))).headD 0
        = hActP m n (addv x.d (gAct eta lam m gop n x.t x.p)) := rfl
    rw [this, hHPadd _ _ hd hgx]; ring
  have hB' := hB x.t x.p ht
  simp only [tpApply, Prod.mk.injEq] at hB'
  cases x with
  | mk d t p =>
    simp only [inverseBlockwise, hlen] at hdiv hT1 hP1 hB' ⊢
    rw [hdiv, hT1, hP1, hB'.1, hB'.2]


/-! ## T3.5 witnesses: the repaired cumulative-sum `H` agrees with the dense one on an uneven
 3-layer column where the code before the repair did not (exact rational arithmetic) -/

section witness
def wDs : List Rat := [1 / 10, 2 / 5, 1 / 2]
def wT : List Rat := [200, 250, 300]
def wAl : List Rat := [1 / 3, 1 / 4, 1 / 5]
def wNz (x : Rat) : Bool := x != 0

theorem sparse_eq_dense_witness :
    tempImplicitSparse wNz wDs (hMatrix wDs wT wAl (2 / 7)) [1, 2, 3]
      = tempImplicitDense (hMatrix wDs wT wAl (2 / 7)) [1, 2, 3] := by decide +kernel

/-- negative witness: the pre-repair sparse form differs from the dense product on uneven levels -/
theorem sparseOld_ne_dense :
    tempImplicitSparseOld wNz (hMatrix wDs wT wAl (2 / 7)) [1, 2, 3]
      ≠ tempImplicitDense (hMatrix wDs wT wAl (2 / 7)) [1, 2, 3] := by decide +kernel

/-- … while on equidistant levels the old form happened to be right -/
theorem sparseOld_eq_dense_equidistant_witness :
    tempImplicitSparseOld wNz (hMatrix [1 / 3, 1 / 3, 1 / 3] wT wAl (2 / 7)) [1, 2, 3]
      = tempImplicitDense (hMatrix [1 / 3, 1 / 3, 1 / 3] wT wAl (2 / 7)) [1, 2, 3] := by
  decide +kernel
end witness

/-! ## non-vacuity -/

/-- `Shaped` is inhabited by an uneven two-layer column -/
example : Shaped 2 ([1 / 4, 3 / 4] : List ℚ) [250, 300] [[1, 2], [0, 3]] [[1, 1], [2, 1]]
    ⟨[1, -1], [5, 7], 2⟩ :=
  ⟨rfl, rfl, rfl, rfl, by simp, by simp, rfl, rfl⟩

/-- the left-inverse hypothesis of `primitive_resolvent` is satisfiable: one layer, `η = 1`,
 `λ = -2`, with the exact inverse of the 3×3 implicit matrix. -/
example : ∀ v : List ℚ, v.length = 2 * 1 + 1 →
    matvec [[1 / 11, 2 / 11, 4 / 11], [-3 / 11, 5 / 11, -12 / 11], [-1 / 11, -2 / 11, 7 / 11]]
      (matvec (implicitMatrix 1 (-2) 1 [1] [2] [[1]] [[3]]) v) = v := by
  intro v hv
  match v, hv with
  | [a, b, c], _ =>
    simp [matvec, mulv, implicitMatrix, eyeRow, zeros, List.range_succ]
    refine ⟨?_, ?_, ?_⟩ <;> ring

end Dino.C03
