import DinoProofs.Lemmas.TreeReplace
import DinoProofs.Lemmas.TreeLeaf
import DinoProofs.Lemmas.TreeMore

/-!
# C19 — persistence and restructuring round trips: property theorems

All statements are about the executable model `Dino.Tree` (tied to `dinosaur/pytree_utils.py`,
`coordinate_systems.get_spectral_*_fn` and the shape → dims inference of `xarray_utils.py` by the
correspondence check of `harness/props/C19.py`).

* Keys are lists of characters of an arbitrary type with decidable equality, the separator is one
  character (`sep : α`, a single symbol). **Every dictionary theorem below (T19.1 and
  `replace_preserves_structure`) is for one-character separators only**: the API takes `sep: str`, and for a separator of two or more characters the real
  code does not round-trip keys that end / start with a part of the separator
  (`flatten_dict({'a:': {'b': 1}}, sep='::')` gives `{'a:::b': 1}`, which `unflatten_dict` reads as
  `{'a': {':b': 1}}`): known finding `multichar-separator-overlap`, measured by
  `harness/props/C19.py` on the real code, outside the model; a dictionary is the list of its `(key, value)` pairs in insertion order, `Dict.NoDup`
  says that keys are distinct at every level (a genuine Python dictionary), `Dict.SepFree sep` that
  no key contains the separator.
* `look d p` is the terminal lookup of the path `p` (`some (some b)`: leaf `b`, `some none`: empty
  dictionary); `Dict.pyEq` is Python `==` (order is ignored).
* An array is a `Leaf`: its shape without the working axis (`off`) and the list of its slices along the
  working axis (any number of slices, any slice contents); pytrees are lists of leaves (any number,
  leaves of different sizes, ranks and off-axis shapes).  `pack` / `stack` / `concat` accept exactly the
  inputs whose off-axis shapes agree size by size (`pack_ok_iff`, `stack_ok_iff`, `concat_ok_iff`), as
  `jnp.concatenate` / `jnp.stack` do.
* Keys are compared exactly (`List.Nodup`), as the code does since the repair 0ddc902 (keys that differ
  only by trailing NUL characters are distinct keys: asserted on the real code by `harness/props/C19.py`
  and part of the correspondence stream).
-/
set_option linter.unusedSectionVars false

namespace Dino.C19
open Dino.Tree

/-! ## T19.1 nested dictionaries -/
section Dicts
variable {α : Type} [DecidableEq α] {β : Type}

/-- `sep.join(ks).split(sep) == ks` for every non-empty list of separator-free keys
 (empty keys allowed); one-character separator (`sep : α` is a single symbol): for a multi-character
 `sep` the statement is false (`'::'.join(['a:', 'b']).split('::') == ['a', ':b']`) -/
theorem split_join (sep : α) (ks : List (List α)) (hne : ks ≠ []) (hk : ∀ k ∈ ks, sep ∉ k) :
    splitOn sep (joinSep sep ks) = ks :=
  splitOn_joinSep sep ks hne hk

/-- `sep.join(s.split(sep)) == s` for every string (one-character separator) -/
theorem join_split (sep : α) (s : List α) : joinSep sep (splitOn sep s) = s :=
  joinSep_splitOn sep s

/-- on genuine dictionaries Python `==` follows from equality of all terminal path lookups -/
theorem pyEq_of_look_eq [DecidableEq β] (d e : Dict α β) (hd : d.NoDup) (he : e.NoDup)
    (h : ∀ p, look d p = look e p) : d.pyEq e = true :=
  Dict.pyEq_of_look d e hd he h

/-- `flatten_dict` never raises on a genuine separator-free dictionary and returns, in tree order,
 one item `sep.join(path) ↦ leaf` per leaf and one empty key `sep.join(path)` per empty
 sub-dictionary; all these keys are distinct (one-character separator: with a multi-character `sep`
 the flattened keys of `{'a:': {'b': 1}}` and `{'a': {':b': 1}}` coincide) -/
theorem flatten_ok (sep : α) (d : Dict α β) (hs : d.SepFree sep) (hn : d.NoDup) :
    flatten sep d = .ok (leafItems sep none d.terms, emptyKeys sep none d.terms) ∧
    ((leafItems sep none d.terms).map Prod.fst ++ emptyKeys sep none d.terms).Nodup :=
  ⟨flatten_eq sep d hs hn, (d.goodTerms sep hs hn).keys_nodup none⟩

/-- conversely `flatten_dict` returns only when no key at any level contains the separator
 (for any `.items()`, repeated keys included; one-character separator) -/
theorem flatten_ok_only_if_sepFree (sep : α) (d : Dict α β) (r : Flat α β) (h : flatten sep d = .ok r) :
    d.SepFree sep :=
  flatten_sepFree sep d r h

/-- **round trip, one-character separators** (`sep : α` is a single symbol): for every genuine nested
 dictionary whose keys avoid the separator (empty keys, empty sub-dictionaries at any depth, shared
 prefixes allowed) `unflatten_dict(*flatten_dict(d))` returns a dictionary that is Python-equal to
 `d` (same terminal paths, same leaves).  Not claimed for `sep: str` of two or more characters, where
 the real code fails on keys ending / starting with a part of the separator (known finding
 `multichar-separator-overlap`: `{'a:': {'b': 1}}` with `sep='::'` comes back as `{'a': {':b': 1}}`) -/
theorem unflatten_flatten [DecidableEq β] (sep : α) (d : Dict α β) (hs : d.SepFree sep) (hn : d.NoDup) :
    ∃ fl r, flatten sep d = .ok fl ∧ unflatten sep fl.1 fl.2 = .ok r ∧ r.NoDup ∧
      (∀ p, look r p = look d p) ∧ r.pyEq d = true := by
  obtain ⟨r, hr, hnd, hlook⟩ := unflatten_terms sep d.terms (d.goodTerms sep hs hn)
  have hl : ∀ p, look r p = look d p := by
    intro p
    cases h : look d p with
    | some t => exact (hlook p t).2 ((d.mem_terms hn p t).2 h)
    | none =>
      cases h' : look r p with
      | none => rfl
      | some t =>
        have := (d.mem_terms hn p t).1 ((hlook p t).1 h')
        rw [h] at this; cases this
  exact ⟨_, r, flatten_eq sep d hs hn, hr, hnd, hl, Dict.pyEq_of_look r d hnd hn hl⟩

/-- negative witness (before commit dea0f39): two distinct empty sub-dictionaries whose keys share
 their first character were rejected as duplicates; the current code accepts them -/
theorem old_flatten_rejects_shared_initial (sep c : α) (k1 k2 : List α) (h1 : sep ∉ c :: k1)
    (h2 : sep ∉ c :: k2) (hne : k1 ≠ k2) :
    flattenOld sep (Dict.cons (c :: k1) (.dict .nil) (.cons (c :: k2) (.dict .nil) .nil) : Dict α β)
      = .error .dup ∧
    flatten sep (Dict.cons (c :: k1) (.dict .nil) (.cons (c :: k2) (.dict .nil) .nil) : Dict α β)
      = .ok ([], [c :: k1, c :: k2]) := by
  constructor
  · simp [flattenOld, flattenLoopOld, h1, h2, Dict.isNil, Except.bind, dupCheckOld, newKeyOld]
  · simp [flatten, flattenFrom, flattenLoop, h1, h2, Dict.isNil, Except.bind, dupCheck, newKey, hne]

/-- negative witness (before commit dea0f39): an empty sub-dictionary under the empty key raised
 `IndexError` (`x[0]` of the key `''`); the current code returns the empty key -/
theorem old_flatten_index_error_on_empty_key (sep : α) :
    flattenOld sep (Dict.cons [] (.dict .nil) .nil : Dict α β) = .error .index ∧
    flatten sep (Dict.cons [] (.dict .nil) .nil : Dict α β) = .ok ([], [[]]) := by
  constructor
  · simp [flattenOld, flattenLoopOld, Dict.isNil, Except.bind, dupCheckOld, newKeyOld]
  · simp [flatten, flattenFrom, flattenLoop, Dict.isNil, Except.bind, dupCheck, newKey]

/-- negative witness (before commit 97b3b0b): a sub-dictionary stored under the empty key was merged
 into its parent — `{'': {k: b}}` and `{k: b}` had the same flat form, so the round trip lost the
 level; the current code keeps the level (`sep + k`) -/
theorem old_flatten_loses_empty_key_level (sep : α) (k : List α) (b : β) (hk : sep ∉ k) :
    flattenOld sep (Dict.cons [] (.dict (.cons k (.leaf b) .nil)) .nil)
      = flattenOld sep (Dict.cons k (.leaf b) .nil) ∧
    flattenOld sep (Dict.cons [] (.dict (.cons k (.leaf b) .nil)) .nil) = .ok ([(k, b)], []) ∧
    flatten sep (Dict.cons [] (.dict (.cons k (.leaf b) .nil)) .nil) = .ok ([(sep :: k, b)], []) := by
  refine ⟨?_, ?_, ?_⟩
  · simp [flattenOld, flattenLoopOld, Dict.isNil, Except.bind, dupCheckOld, newKeyOld, hk]
  · simp [flattenOld, flattenLoopOld, Dict.isNil, Except.bind, dupCheckOld, newKeyOld, hk]
  · simp [flatten, flattenFrom, flattenLoop, Dict.isNil, Except.bind, dupCheck, newKey, hk]

/-! ## T19.2 `replace_with_matching_or_default` -/

/-- (one-character separator; the code always uses the default `'&'` here)
 whenever `replace_with_matching_or_default(x, replace, default, check)` returns, the result has
 the structure of `x` (same leaf paths, same empty sub-dictionaries: the trees with all leaves
 erased are Python-equal), and the leaf at `path` is `flat_replace.get(sep.join(path), default)`;
 `replace_ok_iff` below says exactly when it returns -/
theorem replace_preserves_structure (sep : α) (x repl : Dict α β) (dflt : β) (check : Bool)
    (r : Dict α β) (hx : x.NoDup) (h : replace sep x repl dflt check = .ok r) :
    (r.map fun _ => ()).pyEq (x.map fun _ => ()) = true ∧
    ∃ fr, flatten sep repl = .ok fr ∧
      ∀ p, look r p = (look x p).map (Option.map fun _ => (alookup (joinSep sep p) fr.1).getD dflt) := by
  obtain ⟨fr, hfr, hnd, hlook⟩ := replace_spec sep x repl dflt check r hx h
  refine ⟨?_, fr, hfr, hlook⟩
  refine Dict.pyEq_of_look _ _ (Dict.map_NoDup _ r hnd) (Dict.map_NoDup _ x hx) ?_
  intro p
  rw [look_map, look_map, hlook]
  cases look x p with
  | none => rfl
  | some t => cases t <;> rfl

/-- when `replace_with_matching_or_default` returns: on genuine dictionaries `x`, `replace` exactly
 when no key of `x` and no key of `replace` contains the separator and, with
 `check_used_all_replace_keys`, every flattened leaf key of `replace` is a flattened leaf key of `x`
 (`ValueError` "contains sep" / "not present in" otherwise; on such input it does raise, e.g.
 `replace_with_matching_or_default({'x': 2}, {'q': 7})`: see the example below) -/
theorem replace_ok_iff (sep : α) (x repl : Dict α β) (dflt : β) (check : Bool) (hx : x.NoDup)
    (hr : repl.NoDup) :
    (∃ r, replace sep x repl dflt check = .ok r) ↔
      x.SepFree sep ∧ repl.SepFree sep ∧
        (check = true → ∀ k ∈ (leafItems sep none repl.terms).map Prod.fst,
          k ∈ (leafItems sep none x.terms).map Prod.fst) := by
  have hcond : ∀ (l l' : List (List α × β)),
      ((check && l.any (fun kv => !(l'.any (fun kv' => kv'.1 == kv.1)))) = true) ↔
        ¬ (check = true → ∀ k ∈ l.map Prod.fst, k ∈ l'.map Prod.fst) := by
    intro l l'
    simp only [Bool.and_eq_true, List.any_eq_true, Bool.not_eq_true', List.any_eq_false, beq_iff_eq,
      List.mem_map, Classical.not_imp, not_forall, not_exists, not_and]
    constructor
    · rintro ⟨hc, kv, hkv, hno⟩
      exact ⟨hc, kv.1, ⟨kv, hkv, rfl⟩, fun kv' hkv' => by simpa using hno kv' hkv'⟩
    · rintro ⟨hc, k, ⟨kv, hkv, rfl⟩, hno⟩
      exact ⟨hc, kv, hkv, fun kv' hkv' => by simpa using hno kv' hkv'⟩
  constructor
  · rintro ⟨r, h⟩
    unfold replace at h
    have hsx : x.SepFree sep := by
      cases hfx : flatten sep x with
      | error e => simp [hfx] at h
      | ok fx => exact flatten_sepFree sep x fx hfx
    rw [flatten_eq sep x hsx hx] at h
    simp only at h
    have hsr : repl.SepFree sep := by
      cases hfr : flatten sep repl with
      | error e => simp [hfr] at h
      | ok fr => exact flatten_sepFree sep repl fr hfr
    rw [flatten_eq sep repl hsr hr] at h
    simp only at h
    refine ⟨hsx, hsr, ?_⟩
    by_contra hno
    rw [if_pos ((hcond _ _).2 hno)] at h
    cases h
  · rintro ⟨hsx, hsr, hused⟩
    unfold replace
    rw [flatten_eq sep x hsx hx, flatten_eq sep repl hsr hr]
    simp only
    rw [if_neg (fun hc => ((hcond _ _).1 hc) hused)]
    set g : List α → β := fun k => (alookup k (leafItems sep none repl.terms)).getD dflt
    rw [← leafItems_relabel sep g, ← emptyKeys_relabel sep g]
    obtain ⟨r', hr', _, _⟩ := unflatten_terms sep (relabel sep g x.terms) (relabel_good g (x.goodTerms sep hsx hx))
    exact ⟨r', hr'⟩

end Dicts

/-! ## T19.2 pytrees of arrays (axis-major view)

A leaf is `Leaf K`: its off-axis shape `off` (the shape with the working axis removed) and its slices
along the axis; `pack` / `stack` / `concat` accept exactly what `jnp.concatenate` / `jnp.stack` accept:
equal ranks and equal off-axis sizes, compared size by size (not only equal products). -/
section Arrays
variable {K : Type}

/-- `pack_pytree` returns an array exactly on the non-empty lists of leaves that all have the same
 off-axis shape (same rank, same size on every axis but the working one; any number of leaves ≥ 1, any
 sizes along the axis, zero included).  The empty list gives `None`; every other list raises
 (`TypeError` of `jnp.concatenate`), also when the products of the off-axis sizes agree
 (`pack_pytree([zeros((2,2,3)), zeros((2,3,2))], 0)`) and when the deviating leaf has no slice -/
theorem pack_ok_iff (leaves : List (Leaf K)) :
    (∃ arr, pack leaves = .ok (some arr)) ↔ leaves ≠ [] ∧ ∃ o, ∀ l ∈ leaves, l.off = o := by
  cases leaves with
  | nil => simp [pack]
  | cons l ls =>
    simp only [pack, ne_eq, reduceCtorEq, not_false_eq_true, List.mem_cons, forall_eq_or_imp, true_and]
    constructor
    · rintro ⟨arr, h⟩
      split at h
      · rename_i hall
        exact ⟨l.off, rfl, fun m hm => by simpa using (List.all_eq_true.1 hall) m hm⟩
      · cases h
    · rintro ⟨o, rfl, h⟩
      have : (ls.all fun m => decide (m.off = l.off)) = true := by
        simpa [List.all_eq_true] using h
      simp [this]

/-- the forward operation succeeds: `pack_pytree` returns the concatenation, with the common
 off-axis shape `o`, on every non-empty list of leaves whose off-axis shapes all equal `o` -/
theorem pack_ok (leaves : List (Leaf K)) (hl : leaves ≠ []) (o : List Nat) (ho : ∀ l ∈ leaves, l.off = o) :
    pack leaves = .ok (some ⟨o, (leaves.map Leaf.slices).flatten⟩) := by
  cases leaves with
  | nil => exact absurd rfl hl
  | cons l ls =>
    have hlo : l.off = o := ho l (by simp)
    have : (ls.all fun m => decide (m.off = l.off)) = true := by
      simp only [List.all_eq_true, decide_eq_true_eq]
      intro m hm
      rw [hlo]; exact ho m (by simp [hm])
    simp only [pack, this, if_true]
    simp [hlo]

/-- the packed array of genuine arrays is a genuine array: every slice has `off.prod` entries -/
theorem pack_wf (leaves : List (Leaf K)) (arr : Leaf K) (hwf : ∀ l ∈ leaves, l.WF)
    (h : pack leaves = .ok (some arr)) : arr.WF := by
  cases leaves with
  | nil => simp [pack] at h
  | cons l ls =>
    simp only [pack] at h
    split at h
    · rename_i hall
      simp only [Except.ok.injEq, Option.some.injEq] at h
      subst h
      intro row hrow
      simp only [List.mem_append, List.mem_flatten, List.mem_map] at hrow
      rcases hrow with hrow | ⟨_, ⟨m, hm, rfl⟩, hrow⟩
      · exact hwf l (by simp) row hrow
      · have : m.off = l.off := by simpa using (List.all_eq_true.1 hall) m hm
        show row.length = l.off.prod
        rw [← this]
        exact hwf m (by simp [hm]) row hrow
    · cases h

/-- `unpack_to_pytree(pack_pytree(tree), shapes) == tree` whenever `pack_pytree` returns an array
 (left inverse; `pack_ok_iff` says when it does): slices and off-axis shapes of every leaf come back -/
theorem unpack_pack (leaves : List (Leaf K)) (arr : Leaf K)
    (h : pack leaves = .ok (some arr)) : unpack arr (leaves.map fun l => l.slices.length) = .ok leaves := by
  cases leaves with
  | nil => simp [pack] at h
  | cons l ls =>
    simp only [pack] at h
    split at h
    · rename_i hall
      simp only [Except.ok.injEq, Option.some.injEq] at h
      subst h
      have hsp := splitIdxFrom_flatten ((l :: ls).map Leaf.slices) [] (by simp)
      simp only [List.nil_append, List.length_nil, List.map_map, List.map_cons, List.flatten_cons] at hsp
      simp only [unpack, List.map_cons, List.isEmpty_cons, Bool.false_eq_true, if_false, splitIdx, cumsum,
        Function.comp_def] at hsp ⊢
      rw [hsp]
      simp only [List.map_cons, List.map_map, Function.comp_def, Except.ok.injEq, List.cons.injEq, true_and]
      conv_rhs => rw [← List.map_id ls]
      apply List.map_congr_left
      intro m hm
      have : m.off = l.off := by simpa using (List.all_eq_true.1 hall) m hm
      exact Leaf.ext' this.symm rfl
    · cases h

/-- unconditional form of `unpack_pack`: on every non-empty list of leaves with one off-axis shape
 `pack_pytree` returns and `unpack_to_pytree` gives the leaves back -/
theorem unpack_pack_consistent (leaves : List (Leaf K)) (hl : leaves ≠ []) (o : List Nat)
    (ho : ∀ l ∈ leaves, l.off = o) :
    ∃ arr, pack leaves = .ok (some arr) ∧ unpack arr (leaves.map fun l => l.slices.length) = .ok leaves :=
  ⟨_, pack_ok leaves hl o ho, unpack_pack leaves _ (pack_ok leaves hl o ho)⟩

/-- `pack_pytree(unpack_to_pytree(arr, shapes)) == arr` for every array and every non-empty list of
 sizes, honest or not (`jnp.split` clips): the right-inverse law of the pair pack / unpack -/
theorem pack_unpack (arr : Leaf K) (sizes : List Nat) (hs : sizes ≠ []) :
    ∃ pieces, unpack arr sizes = .ok pieces ∧ pieces.length = sizes.length ∧
      (∀ p ∈ pieces, p.off = arr.off) ∧ (pieces.map Leaf.slices).flatten = arr.slices ∧
      pack pieces = .ok (some arr) := by
  have hm : sizes.isEmpty = false := by cases sizes <;> simp_all
  have hfl : (splitIdx arr.slices (cumsum sizes).dropLast).flatten = arr.slices := by
    simpa [splitIdx, cumsum] using flatten_splitIdxFrom_cumsum arr.slices sizes 0 hs
  have hlen : ∀ (idx : List Nat) (start : Nat), (splitIdxFrom arr.slices start idx).length = idx.length + 1 := by
    intro idx
    induction idx with
    | nil => intro start; rfl
    | cons i is ih => intro start; simp [splitIdxFrom, ih]
  have hclen : ∀ (l : List Nat) (acc : Nat), (cumsumFrom acc l).length = l.length := by
    intro l
    induction l with
    | nil => intro acc; rfl
    | cons a as ih => intro acc; simp [cumsumFrom, ih]
  have hplen : (splitIdx arr.slices (cumsum sizes).dropLast).length = sizes.length := by
    rw [splitIdx, hlen, List.length_dropLast, cumsum, hclen]
    cases sizes with
    | nil => exact absurd rfl hs
    | cons a as => simp
  set pieces := (splitIdx arr.slices (cumsum sizes).dropLast).map (fun s => (⟨arr.off, s⟩ : Leaf K)) with hp
  have hoff : ∀ p ∈ pieces, p.off = arr.off := by
    intro p hpm
    simp only [hp, List.mem_map] at hpm
    obtain ⟨s, _, rfl⟩ := hpm
    rfl
  have hsl : (pieces.map Leaf.slices).flatten = arr.slices := by
    rw [hp, List.map_map]
    simpa [Function.comp_def] using hfl
  have hne : pieces ≠ [] := by
    intro h0
    have : pieces.length = sizes.length := by rw [hp, List.length_map, hplen]
    rw [h0] at this
    cases sizes <;> simp_all
  refine ⟨pieces, by simp [unpack, hm, hp], by rw [hp, List.length_map, hplen], hoff, hsl, ?_⟩
  rw [pack_ok pieces hne arr.off hoff, hsl]

/-- `stack_pytree` returns an array exactly on the non-empty lists of leaves that all have the same
 shape (rank included; equal numbers of entries are not enough: `(2, 3)` and `(3, 2)` raise) -/
theorem stack_ok_iff (leaves : List (Arr K)) :
    (∃ arr, stack leaves = .ok (some arr)) ↔ leaves ≠ [] ∧ ∃ s, ∀ l ∈ leaves, l.shape = s := by
  cases leaves with
  | nil => simp [stack]
  | cons l ls =>
    simp only [stack, ne_eq, reduceCtorEq, not_false_eq_true, List.mem_cons, forall_eq_or_imp, true_and]
    constructor
    · rintro ⟨arr, h⟩
      split at h
      · rename_i hall
        exact ⟨l.shape, rfl, fun m hm => by simpa using (List.all_eq_true.1 hall) m hm⟩
      · cases h
    · rintro ⟨o, rfl, h⟩
      have : (ls.all fun m => decide (m.shape = l.shape)) = true := by
        simpa [List.all_eq_true] using h
      simp [this]

/-- the forward operation succeeds: `stack_pytree` returns on every non-empty list of leaves of one
 shape `s`; along the new axis the slices are the leaves and the off-axis shape is `s` -/
theorem stack_ok (leaves : List (Arr K)) (hl : leaves ≠ []) (s : List Nat) (hs : ∀ l ∈ leaves, l.shape = s) :
    stack leaves = .ok (some ⟨s, leaves.map Arr.data⟩) := by
  cases leaves with
  | nil => exact absurd rfl hl
  | cons l ls =>
    have hlo : l.shape = s := hs l (by simp)
    have : (ls.all fun m => decide (m.shape = l.shape)) = true := by
      simp only [List.all_eq_true, decide_eq_true_eq]
      intro m hm
      rw [hlo]; exact hs m (by simp [hm])
    simp only [stack, this, if_true]
    simp [hlo]

/-- `unstack_to_pytree(stack_pytree(tree), shapes) == tree` whenever `stack_pytree` returns an array
 (left inverse): data and shape of every leaf come back -/
theorem unstack_stack (leaves : List (Arr K)) (arr : Leaf K)
    (h : stack leaves = .ok (some arr)) : unstack arr leaves.length = .ok leaves := by
  cases leaves with
  | nil => simp [stack] at h
  | cons l ls =>
    simp only [stack] at h
    split at h
    · rename_i hall
      simp only [Except.ok.injEq, Option.some.injEq] at h
      subst h
      have hsec := sections_flatten (l.data :: ls.map Arr.data)
      simp only [unstack, List.length_cons, List.length_map, Nat.add_one_ne_zero, if_false, ne_eq,
        not_true_eq_false, Except.ok.injEq]
      have : (sections (l.data :: ls.map Arr.data)).map (fun s => (⟨l.shape, s.flatten⟩ : Arr K))
          = ((sections (l.data :: ls.map Arr.data)).map List.flatten).map (fun d => ⟨l.shape, d⟩) := by
        rw [List.map_map]; rfl
      rw [this, hsec]
      simp only [List.map_cons, List.map_map, Function.comp_def, List.cons.injEq, true_and]
      conv_rhs => rw [← List.map_id ls]
      apply List.map_congr_left
      intro m hm
      have : m.shape = l.shape := by simpa using (List.all_eq_true.1 hall) m hm
      cases m
      simp_all
    · cases h

/-- unconditional form of `unstack_stack`: on every non-empty list of leaves of one shape
 `stack_pytree` returns and `unstack_to_pytree` gives the leaves back -/
theorem unstack_stack_consistent (leaves : List (Arr K)) (hl : leaves ≠ []) (s : List Nat)
    (hs : ∀ l ∈ leaves, l.shape = s) :
    ∃ arr, stack leaves = .ok (some arr) ∧ unstack arr leaves.length = .ok leaves :=
  ⟨_, stack_ok leaves hl s hs, unstack_stack leaves _ (stack_ok leaves hl s hs)⟩

/-- the converse law: `stack_pytree(unstack_to_pytree(arr, shapes)) == arr` whenever
 `unstack_to_pytree` returns (the axis is not empty and the template has one leaf per index), so that
 stack / unstack are two-sided inverses -/
theorem stack_unstack (arr : Leaf K) (n : Nat) (leaves : List (Arr K)) (h : unstack arr n = .ok leaves) :
    leaves.length = n ∧ stack leaves = .ok (some arr) := by
  unfold unstack at h
  split_ifs at h with h0 hn
  simp only [Except.ok.injEq] at h
  have hsec := sections_flatten arr.slices
  have hl : leaves = arr.slices.map (fun d => (⟨arr.off, d⟩ : Arr K)) := by
    rw [← h]
    conv_rhs => rw [← hsec]
    rw [List.map_map]; rfl
  have hne : leaves ≠ [] := by
    rw [hl]
    intro h'
    exact h0 (by simpa using congrArg List.length h')
  have hshape : ∀ l ∈ leaves, l.shape = arr.off := by
    intro l hm
    rw [hl] at hm
    simp only [List.mem_map] at hm
    obtain ⟨d, _, rfl⟩ := hm
    rfl
  refine ⟨by rw [hl, List.length_map]; exact not_not.1 hn, ?_⟩
  rw [stack_ok leaves hne arr.off hshape, hl, List.map_map]
  simp [Function.comp_def]

/-- `unstack_to_pytree` returns exactly when the axis is not empty and the template has one leaf per
 index along the axis (`ZeroDivisionError` of `jnp.split(arr, 0)` / `ValueError` of `tree_unflatten`
 otherwise) -/
theorem unstack_ok_iff (arr : Leaf K) (n : Nat) :
    (∃ leaves, unstack arr n = .ok leaves) ↔ n ≠ 0 ∧ arr.slices.length = n := by
  unfold unstack
  constructor
  · rintro ⟨leaves, h⟩
    split_ifs at h with h0 hn
    exact ⟨fun hz => h0 (by rw [not_not.1 hn, hz]), not_not.1 hn⟩
  · rintro ⟨hn, hlen⟩
    simp [hlen, hn]

/-- `concat_along_axis(split_along_axis(tree, idx, axis), axis) == tree` for every tree (leaves of
 different sizes, ranks and off-axis shapes) and every index, negative and out-of-range ones included -/
theorem concat_split (leaves : List (Leaf K)) (idx : Int) :
    concat [(splitAlong leaves idx).1, (splitAlong leaves idx).2] = .ok leaves := by
  have hoff : offsAgree (splitAlong leaves idx).1 (splitAlong leaves idx).2 = true := by
    rw [offsAgree_iff _ _ (by simp [splitAlong])]
    simp [splitAlong, List.map_map, Function.comp_def]
  have hcat : catLeaves (splitAlong leaves idx).1 (splitAlong leaves idx).2 = leaves := by
    simp only [splitAlong, catLeaves]
    induction leaves with
    | nil => rfl
    | cons l ls ih => simp
  simp only [concat, List.any_cons, List.any_nil, List.all_cons, List.all_nil, hoff, List.foldl_cons,
    List.foldl_nil, hcat]
  simp [splitAlong]

/-- `concat_along_axis` returns exactly when there is a first tree and every other tree has the same
 number of leaves with, position by position, the off-axis shapes of the first tree's leaves -/
theorem concat_ok_iff (t : List (Leaf K)) (ts : List (List (Leaf K))) :
    (∃ r, concat (t :: ts) = .ok r) ↔ ∀ u ∈ ts, u.map Leaf.off = t.map Leaf.off := by
  simp only [concat]
  constructor
  · rintro ⟨r, h⟩
    split_ifs at h with h1 h2
    intro u hu
    have hlen : u.length = t.length := by
      by_contra hne
      exact h1 (List.any_eq_true.2 ⟨u, hu, by simpa using hne⟩)
    exact (offsAgree_iff t u hlen).1 ((List.all_eq_true.1 h2) u hu)
  · intro h
    have hlen : ∀ u ∈ ts, u.length = t.length := fun u hu => by
      simpa using congrArg List.length (h u hu)
    have h1 : ¬ (ts.any fun u => u.length != t.length) = true := by
      rw [List.any_eq_true]
      rintro ⟨u, hu, hne⟩
      simp [hlen u hu] at hne
    have h2 : ts.all (offsAgree t) = true :=
      List.all_eq_true.2 fun u hu => (offsAgree_iff t u (hlen u hu)).2 (h u hu)
    simp [h1, h2]

/-- the forward operation succeeds: `concat_along_axis([a, b], axis)` returns the leaf-wise
 concatenation for two trees with the same number of leaves and, position by position, the same
 off-axis shapes -/
theorem concat_ok_two (a b : List (Leaf K)) (ho : b.map Leaf.off = a.map Leaf.off) :
    concat [a, b] = .ok (catLeaves a b) := by
  have hlen : b.length = a.length := by simpa using congrArg List.length ho
  have := (offsAgree_iff a b hlen).2 ho
  simp [concat, hlen, this]

/-- splitting the concatenation of two trees where the first one has `n` slices in every leaf gives
 the two trees back -/
theorem split_concat (a b c : List (Leaf K)) (n : Nat) (ha : ∀ l ∈ a, l.slices.length = n)
    (h : concat [a, b] = .ok c) : splitAlong c (n : Int) = (a, b) := by
  have ho : b.map Leaf.off = a.map Leaf.off := (concat_ok_iff a [b]).1 ⟨c, h⟩ b (by simp)
  rw [concat_ok_two a b ho] at h
  simp only [Except.ok.injEq] at h
  subst h
  simp only [splitAlong, catLeaves, Prod.mk.injEq]
  induction a generalizing b with
  | nil =>
    cases b with
    | nil => simp
    | cons _ _ => simp at ho
  | cons x xs ih =>
    cases b with
    | nil => simp at ho
    | cons y ys =>
      simp only [List.map_cons, List.cons.injEq] at ho
      have hx : x.slices.length = n := ha x (by simp)
      have ih' := ih ys (fun l hl => ha l (by simp [hl])) ho.2
      have hp : pyIndex (x.slices ++ y.slices).length (n : Int) = n := by
        simp [pyIndex, hx]
      simp only [List.zipWith_cons_cons, List.map_cons, List.cons.injEq, hp]
      refine ⟨⟨?_, ih'.1⟩, ?_, ih'.2⟩
      · refine Leaf.ext' rfl ?_
        show (x.slices ++ y.slices).take n = x.slices
        rw [← hx]; simp
      · refine Leaf.ext' ho.1.symm ?_
        show (x.slices ++ y.slices).drop n = y.slices
        rw [← hx]; simp

/-- unconditional form of `split_concat`: for two trees with the same number of leaves and the same
 off-axis shapes, where every leaf of the first has `n` slices, the concatenation returns and
 splitting it at `n` gives the two trees back -/
theorem split_concat_consistent (a b : List (Leaf K)) (n : Nat) (ha : ∀ l ∈ a, l.slices.length = n)
    (ho : b.map Leaf.off = a.map Leaf.off) :
    ∃ c, concat [a, b] = .ok c ∧ splitAlong c (n : Int) = (a, b) :=
  ⟨_, concat_ok_two a b ho, split_concat a b _ n ha (concat_ok_two a b ho)⟩

/-- the forward operation succeeds: `split_axis(tree, axis, keep_dims=True)` returns one tree per index
 for every non-empty list of leaves that all have the same non-zero number `n` of slices -/
theorem splitAxis_ok (leaves : List (Leaf K)) (hl : leaves ≠ []) (n : Nat) (hn : n ≠ 0)
    (hlen : ∀ l ∈ leaves, l.slices.length = n) :
    splitAxis leaves = .ok ((List.range n).map (fun i => sliceAt i leaves)) := by
  cases leaves with
  | nil => exact absurd rfl hl
  | cons x xs =>
    have hx : x.slices.length = n := hlen x (by simp)
    have hall : (xs.map fun l => l.slices.length).all (· == n) = true := by
      simp only [List.all_eq_true, beq_iff_eq, List.mem_map]
      rintro a ⟨l, hl', rfl⟩
      exact hlen l (by simp [hl'])
    simp only [splitAxis, List.map_cons, hx, hall, if_true, hn, if_false]
    rfl

/-- whenever `split_axis` returns, all leaves have the same non-zero number of slices and the result is
 one tree per index -/
theorem splitAxis_spec (leaves : List (Leaf K)) (trees : List (List (Leaf K)))
    (h : splitAxis leaves = .ok trees) :
    ∃ n, n ≠ 0 ∧ leaves ≠ [] ∧ (∀ l ∈ leaves, l.slices.length = n) ∧
      trees = (List.range n).map (fun i => sliceAt i leaves) := by
  unfold splitAxis at h
  cases hl : leaves.map (fun l => l.slices.length) with
  | nil => simp [hl] at h
  | cons n rest =>
    simp only [hl] at h
    split at h
    · rename_i hall
      split at h
      · cases h
      · rename_i hn
        simp only [Except.ok.injEq] at h
        refine ⟨n, hn, ?_, ?_, h.symm⟩
        · rintro rfl; simp at hl
        · intro l hm
          have : l.slices.length ∈ n :: rest := by
            rw [← hl]; exact List.mem_map_of_mem (f := fun l : Leaf K => l.slices.length) hm
          simp only [List.mem_cons] at this
          rcases this with h' | h'
          · exact h'
          · simpa using (List.all_eq_true.1 hall) _ h'
    · cases h

/-- `concat_along_axis(split_axis(tree, axis, keep_dims=True), axis) == tree` whenever `split_axis`
 returns (left inverse) -/
theorem concat_splitAxis (leaves : List (Leaf K)) (trees : List (List (Leaf K)))
    (h : splitAxis leaves = .ok trees) : concat trees = .ok leaves := by
  obtain ⟨n, hn, _, hlen, rfl⟩ := splitAxis_spec leaves trees h
  obtain ⟨m, rfl⟩ : ∃ m, n = m + 1 := ⟨n - 1, by omega⟩
  have hfold := foldl_catLeaves_slices leaves m 1
  have h0 : sliceAt 0 leaves = leaves.map fun l => ⟨l.off, l.slices.take 1⟩ := by
    simp [sliceAt, slice]
  have htk : (leaves.map fun l => (⟨l.off, l.slices.take (1 + m)⟩ : Leaf K)) = leaves := by
    conv_rhs => rw [← List.map_id leaves]
    apply List.map_congr_left
    intro l hm
    refine Leaf.ext' rfl ?_
    show l.slices.take (1 + m) = l.slices
    rw [List.take_of_length_le (by rw [hlen l hm]; omega)]
  rw [List.range_eq_range', List.range'_succ, List.map_cons]
  have hok := (concat_ok_iff (sliceAt 0 leaves) ((List.range' (0 + 1) m).map fun i => sliceAt i leaves)).2
    (by
      intro u hu
      simp only [List.mem_map] at hu
      obtain ⟨i, _, rfl⟩ := hu
      rw [sliceAt_off, sliceAt_off])
  obtain ⟨r, hr⟩ := hok
  have hr' := hr
  simp only [concat] at hr'
  split_ifs at hr' with h1 h2
  rw [hr, ← hr']
  simp only [Nat.zero_add] at hfold ⊢
  rw [h0, hfold, htk]

/-- unconditional form of `concat_splitAxis`: on every non-empty list of leaves with `n ≠ 0` slices
 each, `split_axis` returns and concatenating its trees gives the leaves back -/
theorem concat_splitAxis_consistent (leaves : List (Leaf K)) (hl : leaves ≠ []) (n : Nat) (hn : n ≠ 0)
    (hlen : ∀ l ∈ leaves, l.slices.length = n) :
    ∃ trees, splitAxis leaves = .ok trees ∧ concat trees = .ok leaves :=
  ⟨_, splitAxis_ok leaves hl n hn hlen, concat_splitAxis leaves _ (splitAxis_ok leaves hl n hn hlen)⟩

/-- the converse law: `split_axis(concat_along_axis(trees, axis), axis, keep_dims=True) == trees`
 whenever `concat_along_axis` returns, for trees that have at least one leaf and whose leaves have
 exactly one slice along the axis (the trees that `split_axis` produces), so that split_axis /
 concat_along_axis are two-sided inverses on them -/
theorem splitAxis_concat (trees : List (List (Leaf K))) (leaves : List (Leaf K))
    (hleaf : ∀ t ∈ trees, t ≠ []) (h1 : ∀ t ∈ trees, ∀ l ∈ t, l.slices.length = 1)
    (h : concat trees = .ok leaves) : splitAxis leaves = .ok trees := by
  cases trees with
  | nil => simp [concat] at h
  | cons t ts =>
    have ho := (concat_ok_iff t ts).1 ⟨leaves, h⟩
    simp only [concat] at h
    split_ifs at h with h2 h3
    simp only [Except.ok.injEq] at h
    obtain ⟨s1, s2, s3, s4⟩ := foldl_catLeaves_spec ts t 1 (h1 t (by simp))
      (fun u hu => ⟨ho u hu, h1 u (by simp [hu])⟩)
    rw [h] at s1 s2 s3 s4
    have hne : leaves ≠ [] := by
      intro h0
      rw [h0] at s1
      have : t = [] := by simpa using s1.symm
      exact hleaf t (by simp) this
    rw [splitAxis_ok leaves hne (1 + ts.length) (by omega) s2]
    congr 1
    apply List.ext_getElem
    · simp; omega
    · intro i hi1 hi2
      simp only [List.getElem_map, List.getElem_range]
      cases i with
      | zero =>
        rw [s3 0 (by omega), sliceAt_zero_of_single t (h1 t (by simp))]
        rfl
      | succ j =>
        have hj : j < ts.length := by simpa using hi2
        have := s4 j hj
        rw [show 1 + j = j + 1 by omega] at this
        rw [this]
        simp

/-- `split_axis(tree, axis, keep_dims=False)` is the transpose: leaf `j` of tree `i` is slice `i`
 of leaf `j` with the off-axis shape of leaf `j` (so stacking the `j`-th leaves back along the axis
 gives leaf `j`) -/
theorem splitAxisSqueeze_transpose (leaves : List (Leaf K)) (ts : List (List (Arr K)))
    (h : splitAxisSqueeze leaves = .ok ts) :
    ∀ i j : Nat, (ts[i]?).bind (·[j]?) =
      (leaves[j]?).bind (fun l => (l.slices[i]?).map (fun s => ⟨l.off, s⟩)) := by
  unfold splitAxisSqueeze at h
  cases hs : splitAxis leaves with
  | error e => simp [hs, Except.map] at h
  | ok trees =>
    obtain ⟨n, hn, _, hlen, rfl⟩ := splitAxis_spec leaves trees hs
    simp only [hs, Except.map, Except.ok.injEq] at h
    subst h
    intro i j
    cases hj : leaves[j]? with
    | none =>
      simp only [Option.bind_none]
      by_cases hi : i < n
      · simp [hi, hj, sliceAt]
      · simp [hi]
    | some l =>
      have hm : l ∈ leaves := List.mem_of_getElem? hj
      simp only [Option.bind_some]
      by_cases hi : i < n
      · have hil : i < l.slices.length := by rw [hlen l hm]; exact hi
        have : ((l.slices.take (i + 1)).drop i) = [l.slices[i]] := by
          rw [List.drop_take, show i + 1 - i = 1 by omega, List.drop_eq_getElem_cons hil]
          rfl
        simp [hi, hj, sliceAt, slice, this, List.getElem?_eq_getElem hil]
      · have : l.slices.length ≤ i := by rw [hlen l hm]; omega
        simp [hi, List.getElem?_eq_none this]

end Arrays

/-! ## T19.3 spectral up- and down-sampling -/
section Spectral
variable {K : Type}

/-- `downsample ∘ upsample = id` on every block of shape `(m0, m1)`, for all pad widths -/
theorem downsample_upsample_id [Zero K] (w d0 d1 m0 m1 : Nat) (x : List (List K)) (hx : x.length = m0)
    (hr : ∀ r ∈ x, r.length = m1) : downsample m0 m1 (pad w d0 d1 x) = x :=
  downsample_pad w d0 d1 m0 m1 x hx hr

/-- whenever `get_spectral_upsample_fn(c1, c2)` accepts a block of the coarse modal shape, the
 result has the fine modal shape, and (for truncations that do not shrink, the only case in which
 `get_spectral_downsample_fn(c2, c1)` does not raise) down-sampling gives the block back exactly -/
theorem resample_roundtrip [Zero K] (c1 c2 : Horiz) (sameVertical expectSame : Bool) (x y : List (List K))
    (hx : x.length = c1.m0) (hr : ∀ r ∈ x, r.length = c1.m1)
    (h : upsampleFn c1 c2 sameVertical expectSame x = .ok y) :
    (y.length = c2.m0 ∧ ∀ r ∈ y, r.length = c2.m1) ∧
    (c1.M ≤ c2.M → c1.L ≤ c2.L → downsampleFn c2 c1 sameVertical expectSame y = .ok x) ∧
    (¬ (c1.M ≤ c2.M ∧ c1.L ≤ c2.L) → downsampleFn c2 c1 sameVertical expectSame y = .error .value) := by
  unfold upsampleFn at h
  split_ifs at h with hv hs
  simp only [Except.ok.injEq] at h
  subst h
  have hs' : c1.m0 ≤ c2.m0 ∧ c1.m1 ≤ c2.m1 := by omega
  have hshape := pad_shape (K := K) (c2.m0 - c1.m0) (c2.m1 - c1.m1) c1.m0 c1.m1 x hx hr
  refine ⟨⟨by omega, fun r hm => by rw [hshape.2 r hm]; omega⟩, ?_, ?_⟩
  · intro hM hL
    have : ¬ (c2.L < c1.L ∨ c2.M < c1.M) := by omega
    simp only [downsampleFn, hv, this, if_false, Bool.false_eq_true]
    rw [downsample_pad _ _ _ _ _ x hx hr]
  · intro hML
    have : c2.L < c1.L ∨ c2.M < c1.M := by omega
    simp [downsampleFn, hv, this]

/-- up-sampling represents the same function: with basis functions that do not depend on the
 truncation (prefix stability of the Fourier–Legendre basis) the series with the zero-padded
 coefficients has the same value, at every point (`b i j` is the value of basis function `(i, j)`).
 Prefix stability is a *hypothesis*, built into the single family `b : Nat → Nat → K` used for both
 truncations; it is not proved here for the real bases (C01 for the Legendre recurrence; for both
 transform implementations it is probed by synthesis on a shared nodal grid in `harness/props/C19.py`,
 i.e. "same function on the finer grid" is test-level for the real code) -/
theorem upsample_same_series [Semiring K] (b : Nat → Nat → K) (c1 c2 : Horiz) (sameVertical expectSame : Bool)
    (x y : List (List K)) (h : upsampleFn c1 c2 sameVertical expectSame x = .ok y) :
    series b y = series b x := by
  unfold upsampleFn at h
  split_ifs at h
  simp only [Except.ok.injEq] at h
  subst h
  exact series_pad b _ _ _ x

/-- `get_spectral_interpolate_fn` takes the up-sampling function exactly when both truncations grow
 strictly, the down-sampling function exactly when neither grows, and raises otherwise -/
theorem interpolate_dispatch [Zero K] (c1 c2 : Horiz) (sv es : Bool) (x : List (List K)) :
    (c1.L < c2.L ∧ c1.M < c2.M → interpolateFn c1 c2 sv es x = (upsampleFn c1 c2 sv es x).map (true, ·)) ∧
    (c2.L ≤ c1.L ∧ c2.M ≤ c1.M → interpolateFn c1 c2 sv es x = (downsampleFn c1 c2 sv es x).map (false, ·)) ∧
    (¬ (c1.L < c2.L ∧ c1.M < c2.M) → ¬ (c2.L ≤ c1.L ∧ c2.M ≤ c1.M) →
      interpolateFn c1 c2 sv es x = .error .value) := by
  refine ⟨fun h => by simp [interpolateFn, h], fun h => ?_, fun h1 h2 => ?_⟩
  · have : ¬ (c1.L < c2.L ∧ c1.M < c2.M) := by omega
    simp [interpolateFn, this, h]
  · have : ¬ (c1.L ≥ c2.L ∧ c1.M ≥ c2.M) := by omega
    simp [interpolateFn, h1, this]

end Spectral

/-! ## T19.4 shape → dimension names -/
section Dims

/-- the sample / time / realization prefix that `data_to_xarray` puts in front of an entry -/
abbrev prefixed (c : DimCfg) (e : List Nat × List String) : List Nat × List String :=
  withPrefix (withSurface c).times (withSurface c).samples
    ((withSurface c).addl.any fun a => a.1 == "realization") e

/-- `_infer_dims_shape_and_coords` raises exactly when an additional coordinate (other than
 `realization`) has the length of the level axis; otherwise an array whose shape was assigned names
 gets the names of the **last** assignment to that shape — in particular the intended names
 whenever no later assignment collides with it -/
theorem inferDims_no_collision (c : DimCfg) :
    (∀ shape x, inferDims c shape = .error x →
      x = .value ∧ ∃ a ∈ (withSurface c).addl, a.1 ≠ "realization" ∧ a.2 = c.layers) ∧
    ((∀ a ∈ (withSurface c).addl, a.1 ≠ "realization" → a.2 ≠ c.layers) →
      ∀ (l1 l2 : Table) (e : List Nat × List String), entries (withSurface c) = l1 ++ e :: l2 →
        (∀ e' ∈ l2, e'.1 ≠ e.1) → inferDims c (prefixed c e).1 = .ok (some (prefixed c e).2)) := by
  have hlay : (withSurface c).layers = c.layers := by
    unfold withSurface; split <;> rfl
  constructor
  · intro shape x h
    unfold inferDims at h
    cases hT : shapeTable (withSurface c) with
    | ok T => simp [hT, Except.map] at h
    | error y =>
      simp only [hT, Except.map, Except.error.injEq] at h
      subst h
      simpa [hlay] using shapeTable_error (withSurface c) y hT
  · intro hok l1 l2 e hent hlast
    obtain ⟨T, hT⟩ := shapeTable_ok (withSurface c) (by simpa [hlay] using hok)
    simp only [inferDims, hT, Except.map]
    rw [shapeTable_lookup (withSurface c) T hT l1 l2 e hent hlast]

/-- the standard configuration (at least two layers … any `layers ≠ 1`, no user coordinates, modal
 and nodal shapes different), with any `sample` / `time` axes: every kind of variable gets the
 intended names -/
theorem inferDims_standard (layers m0 m1 n0 n1 : Nat) (times samples : Option Nat)
    (hL : layers ≠ 1) (hmn : ¬ (m0 = n0 ∧ m1 = n1)) :
    let c : DimCfg := ⟨layers, [m0, m1], [n0, n1], [], times, samples⟩
    let pre := samples.toList ++ times.toList
    let preN := (samples.map fun _ => "sample").toList ++ (times.map fun _ => "time").toList
    inferDims c (pre ++ [layers, m0, m1]) = .ok (some (preN ++ ["level", "longitudinal_mode", "total_wavenumber"])) ∧
    inferDims c (pre ++ [layers, n0, n1]) = .ok (some (preN ++ ["level", "lon", "lat"])) ∧
    inferDims c (pre ++ [1, m0, m1]) = .ok (some (preN ++ ["surface", "longitudinal_mode", "total_wavenumber"])) ∧
    inferDims c (pre ++ [1, n0, n1]) = .ok (some (preN ++ ["surface", "lon", "lat"])) ∧
    inferDims c (pre ++ [m0, m1]) = .ok (some (preN ++ ["longitudinal_mode", "total_wavenumber"])) ∧
    inferDims c (pre ++ [n0, n1]) = .ok (some (preN ++ ["lon", "lat"])) ∧
    inferDims c pre = .ok (some preN) := by
  intro c pre preN
  have hws : withSurface c = ⟨layers, [m0, m1], [n0, n1], [("surface", 1)], times, samples⟩ := by
    simp [withSurface, c, hL]
  have hent : entries (withSurface c) =
      [([], []), ([layers, m0, m1], ["level", "longitudinal_mode", "total_wavenumber"]),
        ([layers, n0, n1], ["level", "lon", "lat"]), ([n0, n1], ["lon", "lat"]),
        ([m0, m1], ["longitudinal_mode", "total_wavenumber"]), ([1, n0, n1], ["lon", "lat"]),
        ([1, m0, m1], ["surface", "longitudinal_mode", "total_wavenumber"]),
        ([1, n0, n1], ["surface", "lon", "lat"]), ([1], ["surface"])] := by
    rw [hws]
    simp [entries, baseEntries, addlTriples, modalNames, nodalNames]
  have hok : ∀ a ∈ (withSurface c).addl, a.1 ≠ "realization" → a.2 ≠ c.layers := by
    rw [hws]
    intro a ha _
    simp only [List.mem_singleton] at ha
    subst ha
    exact fun h => hL h.symm
  have key := (inferDims_no_collision c).2 hok
  have hpre : ∀ e : List Nat × List String, e.1 ≠ [] → prefixed c e = (pre ++ e.1, preN ++ e.2) := by
    intro e _
    simp only [prefixed, hws]
    have : (List.any [("surface", 1)] fun a => a.1 == "realization") = false := by decide
    rw [this, withPrefix_noreal]
  have hpre0 : prefixed c ([], []) = (pre, preN) := by
    simp only [prefixed, hws]
    have : (List.any [("surface", 1)] fun a => a.1 == "realization") = false := by decide
    rw [this, withPrefix_noreal]
    simp [pre, preN]
  have hmn' : ¬ (n0 = m0 ∧ n1 = m1) := fun h => hmn ⟨h.1.symm, h.2.symm⟩
  have hL' : ¬ (1 = layers) := fun h => hL h.symm
  refine ⟨?_, ?_, ?_, ?_, ?_, ?_, ?_⟩
  · have := key [([], [])] [([layers, n0, n1], ["level", "lon", "lat"]), ([n0, n1], ["lon", "lat"]), ([m0, m1], ["longitudinal_mode", "total_wavenumber"]), ([1, n0, n1], ["lon", "lat"]), ([1, m0, m1], ["surface", "longitudinal_mode", "total_wavenumber"]), ([1, n0, n1], ["surface", "lon", "lat"]), ([1], ["surface"])]
      ([layers, m0, m1], ["level", "longitudinal_mode", "total_wavenumber"]) (by rw [hent]; rfl) (by simp [hL', hmn'])
    rwa [hpre _ (by simp)] at this
  · have := key [([], []), ([layers, m0, m1], ["level", "longitudinal_mode", "total_wavenumber"])] [([n0, n1], ["lon", "lat"]), ([m0, m1], ["longitudinal_mode", "total_wavenumber"]), ([1, n0, n1], ["lon", "lat"]), ([1, m0, m1], ["surface", "longitudinal_mode", "total_wavenumber"]), ([1, n0, n1], ["surface", "lon", "lat"]), ([1], ["surface"])]
      ([layers, n0, n1], ["level", "lon", "lat"]) (by rw [hent]; rfl) (by simp [hL'])
    rwa [hpre _ (by simp)] at this
  · have := key [([], []), ([layers, m0, m1], ["level", "longitudinal_mode", "total_wavenumber"]), ([layers, n0, n1], ["level", "lon", "lat"]), ([n0, n1], ["lon", "lat"]), ([m0, m1], ["longitudinal_mode", "total_wavenumber"]), ([1, n0, n1], ["lon", "lat"])] [([1, n0, n1], ["surface", "lon", "lat"]), ([1], ["surface"])]
      ([1, m0, m1], ["surface", "longitudinal_mode", "total_wavenumber"]) (by rw [hent]; rfl) (by simp [hmn'])
    rwa [hpre _ (by simp)] at this
  · have := key [([], []), ([layers, m0, m1], ["level", "longitudinal_mode", "total_wavenumber"]), ([layers, n0, n1], ["level", "lon", "lat"]), ([n0, n1], ["lon", "lat"]), ([m0, m1], ["longitudinal_mode", "total_wavenumber"]), ([1, n0, n1], ["lon", "lat"]), ([1, m0, m1], ["surface", "longitudinal_mode", "total_wavenumber"])] [([1], ["surface"])]
      ([1, n0, n1], ["surface", "lon", "lat"]) (by rw [hent]; rfl) (by simp)
    rwa [hpre _ (by simp)] at this
  · have := key [([], []), ([layers, m0, m1], ["level", "longitudinal_mode", "total_wavenumber"]), ([layers, n0, n1], ["level", "lon", "lat"]), ([n0, n1], ["lon", "lat"])] [([1, n0, n1], ["lon", "lat"]), ([1, m0, m1], ["surface", "longitudinal_mode", "total_wavenumber"]), ([1, n0, n1], ["surface", "lon", "lat"]), ([1], ["surface"])]
      ([m0, m1], ["longitudinal_mode", "total_wavenumber"]) (by rw [hent]; rfl) (by simp)
    rwa [hpre _ (by simp)] at this
  · have := key [([], []), ([layers, m0, m1], ["level", "longitudinal_mode", "total_wavenumber"]), ([layers, n0, n1], ["level", "lon", "lat"])] [([m0, m1], ["longitudinal_mode", "total_wavenumber"]), ([1, n0, n1], ["lon", "lat"]), ([1, m0, m1], ["surface", "longitudinal_mode", "total_wavenumber"]), ([1, n0, n1], ["surface", "lon", "lat"]), ([1], ["surface"])]
      ([n0, n1], ["lon", "lat"]) (by rw [hent]; rfl) (by simp; exact fun h1 h2 => hmn ⟨h1, h2⟩)
    rwa [hpre _ (by simp)] at this
  · have := key [] [([layers, m0, m1], ["level", "longitudinal_mode", "total_wavenumber"]), ([layers, n0, n1], ["level", "lon", "lat"]), ([n0, n1], ["lon", "lat"]), ([m0, m1], ["longitudinal_mode", "total_wavenumber"]), ([1, n0, n1], ["lon", "lat"]), ([1, m0, m1], ["surface", "longitudinal_mode", "total_wavenumber"]), ([1, n0, n1], ["surface", "lon", "lat"]), ([1], ["surface"])]
      ([], []) (by rw [hent]; rfl) (by simp)
    rwa [hpre0] at this

/-- the other collision (**known finding** `modal-equals-nodal-shape`, measured on the real code in
 every run, e.g. `Grid(longitude_wavenumbers=5, total_wavenumbers=7, longitude_nodes=10,
 latitude_nodes=7, FastSphericalHarmonics)`): when the nodal shape equals the modal shape, axes cannot
 be told apart by shape and the later assignment wins — every 3-d array is labelled
 `(level, lon, lat)` (also modal data), every 2-d array `(longitudinal_mode, total_wavenumber)` (also
 nodal data), silently -/
theorem inferDims_modal_eq_nodal_collision (layers a b : Nat) (times samples : Option Nat) (hL : layers ≠ 1) :
    let c : DimCfg := ⟨layers, [a, b], [a, b], [], times, samples⟩
    let pre := samples.toList ++ times.toList
    let preN := (samples.map fun _ => "sample").toList ++ (times.map fun _ => "time").toList
    inferDims c (pre ++ [layers, a, b]) = .ok (some (preN ++ ["level", "lon", "lat"])) ∧
    inferDims c (pre ++ [a, b]) = .ok (some (preN ++ ["longitudinal_mode", "total_wavenumber"])) ∧
    inferDims c (pre ++ [1, a, b]) = .ok (some (preN ++ ["surface", "lon", "lat"])) := by
  intro c pre preN
  have hws : withSurface c = ⟨layers, [a, b], [a, b], [("surface", 1)], times, samples⟩ := by
    simp [withSurface, c, hL]
  have hent : entries (withSurface c) =
      [([], []), ([layers, a, b], ["level", "longitudinal_mode", "total_wavenumber"]),
        ([layers, a, b], ["level", "lon", "lat"]), ([a, b], ["lon", "lat"]),
        ([a, b], ["longitudinal_mode", "total_wavenumber"]), ([1, a, b], ["lon", "lat"]),
        ([1, a, b], ["surface", "longitudinal_mode", "total_wavenumber"]),
        ([1, a, b], ["surface", "lon", "lat"]), ([1], ["surface"])] := by
    rw [hws]
    simp [entries, baseEntries, addlTriples, modalNames, nodalNames]
  have hok : ∀ x ∈ (withSurface c).addl, x.1 ≠ "realization" → x.2 ≠ c.layers := by
    rw [hws]
    intro x hx _
    simp only [List.mem_singleton] at hx
    subst hx
    exact fun h => hL h.symm
  have key := (inferDims_no_collision c).2 hok
  have hpre : ∀ e : List Nat × List String, prefixed c e = (pre ++ e.1, preN ++ e.2) := by
    intro e
    simp only [prefixed, hws]
    have : (List.any [("surface", 1)] fun x => x.1 == "realization") = false := by decide
    rw [this, withPrefix_noreal]
  have hL' : ¬ (1 = layers) := fun h => hL h.symm
  refine ⟨?_, ?_, ?_⟩
  · have := key [([], []), ([layers, a, b], ["level", "longitudinal_mode", "total_wavenumber"])]
      [([a, b], ["lon", "lat"]), ([a, b], ["longitudinal_mode", "total_wavenumber"]), ([1, a, b], ["lon", "lat"]),
        ([1, a, b], ["surface", "longitudinal_mode", "total_wavenumber"]), ([1, a, b], ["surface", "lon", "lat"]),
        ([1], ["surface"])]
      ([layers, a, b], ["level", "lon", "lat"]) (by rw [hent]; rfl) (by simp [hL'])
    rwa [hpre] at this
  · have := key [([], []), ([layers, a, b], ["level", "longitudinal_mode", "total_wavenumber"]),
        ([layers, a, b], ["level", "lon", "lat"]), ([a, b], ["lon", "lat"])]
      [([1, a, b], ["lon", "lat"]), ([1, a, b], ["surface", "longitudinal_mode", "total_wavenumber"]),
        ([1, a, b], ["surface", "lon", "lat"]), ([1], ["surface"])]
      ([a, b], ["longitudinal_mode", "total_wavenumber"]) (by rw [hent]; rfl) (by simp)
    rwa [hpre] at this
  · have := key [([], []), ([layers, a, b], ["level", "longitudinal_mode", "total_wavenumber"]),
        ([layers, a, b], ["level", "lon", "lat"]), ([a, b], ["lon", "lat"]),
        ([a, b], ["longitudinal_mode", "total_wavenumber"]), ([1, a, b], ["lon", "lat"]),
        ([1, a, b], ["surface", "longitudinal_mode", "total_wavenumber"])]
      [([1], ["surface"])] ([1, a, b], ["surface", "lon", "lat"]) (by rw [hent]; rfl) (by simp)
    rwa [hpre] at this

/-- **known finding**: with a single layer the 3-d nodal shape `(1, lon, lat)` is the surface shape;
 for every set of additional coordinates and every `sample` / `time` / `realization` prefix the
 lookup either raises or returns names `(…, lon, lat)` — one name fewer than the array has axes, so
 `data_to_xarray` cannot build the variable -/
theorem inferDims_single_layer_collision (c : DimCfg) (hL : c.layers = 1) (hn : c.nodal.length = 2) :
    let e : List Nat × List String := (1 :: c.nodal, nodalNames)
    inferDims c (prefixed c e).1 = .error .value ∨
    (inferDims c (prefixed c e).1 = .ok (some (prefixed c e).2) ∧
      (prefixed c e).2.length + 1 = (prefixed c e).1.length) := by
  intro e
  have hws : withSurface c = c := by simp [withSurface, hL]
  by_cases hok : ∀ a ∈ (withSurface c).addl, a.1 ≠ "realization" → a.2 ≠ c.layers
  · right
    constructor
    · refine (inferDims_no_collision c).2 hok
        [([], []), (c.layers :: c.modal, "level" :: modalNames), (c.layers :: c.nodal, "level" :: nodalNames),
          (c.nodal, nodalNames), (c.modal, modalNames)] (addlTriples c.modal c.nodal c.addl) e ?_ ?_
      · rw [hws]
        show baseEntries c ++ _ = _
        simp [baseEntries, e]
      · intro e' he'
        obtain ⟨a, ha, hne, hcase⟩ := mem_addlTriples _ _ _ _ he'
        have ha1 : a.2 ≠ 1 := by
          have := hok a (by rw [hws]; exact ha) hne
          rwa [hL] at this
        rcases hcase with h | h | h
        · rw [h]; simp [e, ha1]
        · rw [h]; simp [e, ha1]
        · rw [h]; simp [e, ha1]
    · have := withPrefix_lengths (withSurface c).times (withSurface c).samples
        ((withSurface c).addl.any fun a => a.1 == "realization") e
      simp only [e, List.length_cons, nodalNames, List.length_nil, hn] at this
      simp only [prefixed, e, nodalNames]
      omega
  · left
    obtain ⟨T, hT⟩ | ⟨x, hx⟩ : (∃ T, inferDims c (prefixed c e).1 = .ok T) ∨ ∃ x, inferDims c (prefixed c e).1 = .error x := by
      cases h : inferDims c (prefixed c e).1 with
      | ok T => exact Or.inl ⟨T, rfl⟩
      | error x => exact Or.inr ⟨x, rfl⟩
    · exfalso
      apply hok
      intro a ha hne heq
      unfold inferDims at hT
      cases hS : shapeTable (withSurface c) with
      | error y => simp [hS, Except.map] at hT
      | ok T' =>
        obtain ⟨t, ht⟩ : ∃ t, basicTable (withSurface c) = .ok t := by
          unfold shapeTable at hS
          cases hb : basicTable (withSurface c) with
          | ok t => exact ⟨t, rfl⟩
          | error y => simp [hb, Except.map] at hS
        have := (basicTable_eq (withSurface c) t ht).2 a ha hne
        exact this (by simpa [hws] using heq)
    · rw [hx, ((inferDims_no_collision c).1 _ x hx).1]

end Dims

/-! ## non-vacuity: the hypotheses hold on concrete non-trivial objects -/
section Examples

/-- `{'ab': {}, 'ac': {}, '': {'a': 1, '': {}}, 'x': 2}`: two empty branches sharing a first letter,
 the empty key at two levels -/
def exDict : Dict Char Nat :=
  .cons ['a', 'b'] (.dict .nil) (.cons ['a', 'c'] (.dict .nil)
    (.cons [] (.dict (.cons ['a'] (.leaf 1) (.cons [] (.dict .nil) .nil))) (.cons ['x'] (.leaf 2) .nil)))

example : exDict.SepFree '&' ∧ exDict.NoDup := by
  simp [exDict, Dict.SepFree, Val.SepFree, Dict.NoDup, Val.NoDup, Dict.keys]

example : flatten '&' exDict
    = .ok ([(['&', 'a'], 1), (['x'], 2)], [['a', 'b'], ['a', 'c'], ['&']]) := by decide

example : unflatten '&' [(['&', 'a'], 1), (['x'], 2)] [['a', 'b'], ['a', 'c'], ['&']]
    = .ok (.cons [] (.dict (.cons ['a'] (.leaf 1) (.cons [] (.dict .nil) .nil))) (.cons ['x'] (.leaf 2)
        (.cons ['a', 'b'] (.dict .nil) (.cons ['a', 'c'] (.dict .nil) .nil)))) := by rfl

example : (Dict.cons [] (.dict (.cons ['a'] (.leaf 1) (.cons [] (.dict .nil) .nil))) (.cons ['x'] (.leaf 2)
    (.cons ['a', 'b'] (.dict .nil) (.cons ['a', 'c'] (.dict .nil) .nil))) : Dict Char Nat).pyEq exDict = true := by
  decide

/-- `replace_with_matching_or_default` returns on a non-trivial input -/
example : replace '&' exDict (.cons ['x'] (.leaf 7) .nil) 0 true
    = .ok (.cons [] (.dict (.cons ['a'] (.leaf 0) (.cons [] (.dict .nil) .nil))) (.cons ['x'] (.leaf 7)
        (.cons ['a', 'b'] (.dict .nil) (.cons ['a', 'c'] (.dict .nil) .nil)))) := by rfl

/-- `replace_with_matching_or_default` does raise on well-formed input: an unused replace key with
 `check_used_all_replace_keys=True` (the hypothesis of `replace_ok_iff` fails), accepted without the check -/
example : replace '&' exDict (.cons ['q'] (.leaf 7) .nil) 0 true = .error .unused := by rfl
example : ∃ r, replace '&' exDict (.cons ['q'] (.leaf 7) .nil) 0 false = .ok r :=
  (replace_ok_iff '&' exDict _ 0 false (by simp [exDict, Dict.NoDup, Val.NoDup, Dict.keys])
    (by simp [Dict.NoDup, Val.NoDup, Dict.keys])).2
    ⟨by simp [exDict, Dict.SepFree, Val.SepFree], by simp [Dict.SepFree, Val.SepFree], by simp⟩

/-- three leaves with 2, 0 and 1 slices, off-axis shape `(2,)` -/
example : pack [⟨[2], [[1, 2], [3, 4]]⟩, ⟨[2], []⟩, ⟨[2], [[5, 6]]⟩]
    = .ok (some ⟨[2], [[1, 2], [3, 4], [5, 6]]⟩) := by decide
/-- equal products of the off-axis sizes are not enough (`pack_pytree([zeros((1,2,3)), zeros((1,3,2))], 0)`
 raises `TypeError`), nor are equal slice widths with different ranks, and a deviating leaf is refused
 also when it has no slice -/
example : pack [⟨[2, 3], [[0, 0, 0, 0, 0, 0]]⟩, ⟨[3, 2], [[0, 0, 0, 0, 0, 0]]⟩] = .error .shape := by decide
example : pack [⟨[6], [[0, 0, 0, 0, 0, 0]]⟩, ⟨[2, 3], [[0, 0, 0, 0, 0, 0]]⟩] = .error .shape := by decide
example : pack [⟨[2, 3], [[0, 0, 0, 0, 0, 0]]⟩, ⟨[3, 2], []⟩] = .error .shape := by decide
example : unpack ⟨[2], [[1, 2], [3, 4], [5, 6]]⟩ [1, 9, 1]
    = .ok [⟨[2], [[1, 2]]⟩, ⟨[2], [[3, 4], [5, 6]]⟩, ⟨[2], []⟩] := by decide
example : stack [⟨[2], [1, 2]⟩, ⟨[2], [3, 4]⟩] = .ok (some ⟨[2], [[1, 2], [3, 4]]⟩) := by decide
example : stack [⟨[2, 3], [1, 2, 3, 4, 5, 6]⟩, ⟨[3, 2], [1, 2, 3, 4, 5, 6]⟩] = .error .shape := by decide
example : splitAxis [⟨[2], [[1, 2], [3, 4]]⟩, ⟨[], [[5], [6]]⟩]
    = .ok [[⟨[2], [[1, 2]]⟩, ⟨[], [[5]]⟩], [⟨[2], [[3, 4]]⟩, ⟨[], [[6]]⟩]] := by decide
example : concat [[⟨[2], [[1, 2]]⟩, ⟨[], [[5]]⟩], [⟨[2], [[3, 4]]⟩, ⟨[], [[6]]⟩]]
    = .ok [⟨[2], [[1, 2], [3, 4]]⟩, ⟨[], [[5], [6]]⟩] := by decide
example : concat [[⟨[2, 3], []⟩], [⟨[3, 2], [[0, 0, 0, 0, 0, 0]]⟩]] = .error .shape := by decide

/-- the hypotheses of the unconditional inverse theorems hold on non-trivial leaves: three leaves with
 2, 0 and 1 slices and off-axis shape `(2,)` (pack); two leaves of shape `(2,)` (stack / unstack, both
 directions); two trees of two leaves with off-axis shapes `(2,)` and `()` (concat / split, split_axis /
 concat in both directions) -/
example : ∃ arr, pack [⟨[2], [[1, 2], [3, 4]]⟩, ⟨[2], []⟩, ⟨[2], [[5, 6]]⟩] = .ok (some arr) ∧
    unpack arr [2, 0, 1] = .ok [⟨[2], [[1, 2], [3, 4]]⟩, ⟨[2], []⟩, ⟨[2], [[5, 6]]⟩] :=
  unpack_pack_consistent (K := Nat) _ (by simp) [2] (by simp)
example : ∃ arr, stack [⟨[2], [1, 2]⟩, ⟨[2], [3, 4]⟩] = .ok (some arr) ∧
    unstack arr 2 = .ok [⟨[2], [1, 2]⟩, ⟨[2], [3, 4]⟩] :=
  unstack_stack_consistent (K := Nat) _ (by simp) [2] (by simp)
example : stack [⟨[2], [1, 2]⟩, ⟨[2], [3, 4]⟩] = .ok (some (⟨[2], [[1, 2], [3, 4]]⟩ : Leaf Nat)) :=
  (stack_unstack (K := Nat) ⟨[2], [[1, 2], [3, 4]]⟩ 2 _ (by decide)).2
example : ∃ c, concat [[⟨[2], [[1, 2]]⟩, ⟨[], [[5]]⟩], [⟨[2], [[3, 4]]⟩, ⟨[], []⟩]] = .ok c ∧
    splitAlong c (1 : Nat) = ([⟨[2], [[1, 2]]⟩, ⟨[], [[5]]⟩], [⟨[2], [[3, 4]]⟩, ⟨[], []⟩]) :=
  split_concat_consistent (K := Nat) _ _ 1 (by simp) (by simp)
example : ∃ trees, splitAxis [⟨[2], [[1, 2], [3, 4]]⟩, ⟨[1, 2], [[5, 7], [6, 8]]⟩] = .ok trees ∧
    concat trees = .ok [⟨[2], [[1, 2], [3, 4]]⟩, ⟨[1, 2], [[5, 7], [6, 8]]⟩] :=
  concat_splitAxis_consistent (K := Nat) _ (by simp) 2 (by simp) (by simp)
example : splitAxis [⟨[2], [[1, 2], [3, 4]]⟩, ⟨[], [[5], [6]]⟩]
    = .ok [[(⟨[2], [[1, 2]]⟩ : Leaf Nat), ⟨[], [[5]]⟩], [⟨[2], [[3, 4]]⟩, ⟨[], [[6]]⟩]] :=
  splitAxis_concat (K := Nat) _ _ (by simp) (by simp) (by decide)

/-- a proper up-sampling pair: `(M, L) = (1, 2)`, modal shape `(1, 2)` to `(2, 3)`, shape `(3, 3)` -/
example : upsampleFn (K := Int) ⟨1, 2, 1, 2⟩ ⟨2, 3, 3, 3⟩ true true [[5, 6]]
    = .ok [[5, 6, 0], [0, 0, 0], [0, 0, 0]] := by decide

/-- two layers, modal `(3, 3)`, nodal `(7, 4)`, two times: the hypotheses of `inferDims_standard` -/
example : inferDims ⟨2, [3, 3], [7, 4], [], some 2, none⟩ [2, 2, 7, 4] = .ok (some ["time", "level", "lon", "lat"]) :=
  (inferDims_standard 2 3 3 7 4 (some 2) none (by decide) (by decide)).2.1

/-- one layer: `(time, 1, lon, lat)` gets three names -/
example : inferDims ⟨1, [3, 3], [7, 4], [], some 2, none⟩ [2, 1, 7, 4] = .ok (some ["time", "lon", "lat"]) := by
  decide

end Examples

end Dino.C19
