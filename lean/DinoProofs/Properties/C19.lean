import DinoProofs.Lemmas.TreeReplace
import DinoProofs.Lemmas.TreeArr
import DinoProofs.Lemmas.TreeMore

/-!
# C19 — persistence and restructuring round trips: property theorems

All statements are about the executable model `Dino.Tree` (tied to `dinosaur/pytree_utils.py`,
`coordinate_systems.get_spectral_*_fn` and the shape → dims inference of `xarray_utils.py` by the
correspondence check of `harness/props/C19.py`).

* Keys are lists of characters of an arbitrary type with decidable equality, the separator is one
  character (`sep : α`, a single symbol). **Every dictionary theorem below (T19.1 and
  `replace_preserves_structure`) is for one-character separators only**: the API takes `sep: str`, and for a separator of two or more characters the real
  code does not round-trip keys that end / start with a part of the separator
  (`flatten_dict({'a:': {'b': 1}}, sep='::')` gives `{'a:::b': 1}`, which `unflatten_dict` reads as
  `{'a': {':b': 1}}`): known finding `multichar-separator-overlap`, measured by
  `harness/props/C19.py` on the real code, outside the model; a dictionary is the list of its `(key, value)` pairs in insertion order, `Dict.NoDup`
  says that keys are distinct at every level (a genuine Python dictionary), `Dict.SepFree sep` that
  no key contains the separator.
* `look d p` is the terminal lookup of the path `p` (`some (some b)`: leaf `b`, `some none`: empty
  dictionary); `Dict.pyEq` is Python `==` (order is ignored).
* Arrays are lists of slices along the working axis (any number of slices, any slice contents);
  pytrees are lists of leaves (any number, leaves of different sizes).
-/
set_option linter.unusedSectionVars false

namespace Dino.C19
open Dino.Tree

/-! ## T19.1 nested dictionaries -/
section Dicts
variable {α : Type} [DecidableEq α] {β : Type}

/-- `sep.join(ks).split(sep) == ks` for every non-empty list of separator-free keys
 (empty keys allowed); one-character separator (`sep : α` is a single symbol): for a multi-character
 `sep` the statement is false (`'::'.join(['a:', 'b']).split('::') == ['a', ':b']`) -/
theorem split_join (sep : α) (ks : List (List α)) (hne : ks ≠ []) (hk : ∀ k ∈ ks, sep ∉ k) :
    splitOn sep (joinSep sep ks) = ks :=
  splitOn_joinSep sep ks hne hk

/-- `sep.join(s.split(sep)) == s` for every string (one-character separator) -/
theorem join_split (sep : α) (s : List α) : joinSep sep (splitOn sep s) = s :=
  joinSep_splitOn sep s

/-- on genuine dictionaries Python `==` follows from equality of all terminal path lookups -/
theorem pyEq_of_look_eq [DecidableEq β] (d e : Dict α β) (hd : d.NoDup) (he : e.NoDup)
    (h : ∀ p, look d p = look e p) : d.pyEq e = true :=
  Dict.pyEq_of_look d e hd he h

/-- `flatten_dict` never raises on a genuine separator-free dictionary and returns, in tree order,
 one item `sep.join(path) ↦ leaf` per leaf and one empty key `sep.join(path)` per empty
 sub-dictionary; all these keys are distinct (one-character separator: with a multi-character `sep`
 the flattened keys of `{'a:': {'b': 1}}` and `{'a': {':b': 1}}` coincide) -/
theorem flatten_ok (sep : α) (d : Dict α β) (hs : d.SepFree sep) (hn : d.NoDup) :
    flatten sep d = .ok (leafItems sep none d.terms, emptyKeys sep none d.terms) ∧
    ((leafItems sep none d.terms).map Prod.fst ++ emptyKeys sep none d.terms).Nodup :=
  ⟨flatten_eq sep d hs hn, (d.goodTerms sep hs hn).keys_nodup none⟩

/-- conversely `flatten_dict` returns only when no key at any level contains the separator
 (for any `.items()`, repeated keys included; one-character separator) -/
theorem flatten_ok_only_if_sepFree (sep : α) (d : Dict α β) (r : Flat α β) (h : flatten sep d = .ok r) :
    d.SepFree sep :=
  flatten_sepFree sep d r h

/-- **round trip, one-character separators** (`sep : α` is a single symbol): for every genuine nested
 dictionary whose keys avoid the separator (empty keys, empty sub-dictionaries at any depth, shared
 prefixes allowed) `unflatten_dict(*flatten_dict(d))` returns a dictionary that is Python-equal to
 `d` (same terminal paths, same leaves).  Not claimed for `sep: str` of two or more characters, where
 the real code fails on keys ending / starting with a part of the separator (known finding
 `multichar-separator-overlap`: `{'a:': {'b': 1}}` with `sep='::'` comes back as `{'a': {':b': 1}}`) -/
theorem unflatten_flatten [DecidableEq β] (sep : α) (d : Dict α β) (hs : d.SepFree sep) (hn : d.NoDup) :
    ∃ fl r, flatten sep d = .ok fl ∧ unflatten sep fl.1 fl.2 = .ok r ∧ r.NoDup ∧
      (∀ p, look r p = look d p) ∧ r.pyEq d = true := by
  obtain ⟨r, hr, hnd, hlook⟩ := unflatten_terms sep d.terms (d.goodTerms sep hs hn)
  have hl : ∀ p, look r p = look d p := by
    intro p
    cases h : look d p with
    | some t => exact (hlook p t).2 ((d.mem_terms hn p t).2 h)
    | none =>
      cases h' : look r p with
      | none => rfl
      | some t =>
        have := (d.mem_terms hn p t).1 ((hlook p t).1 h')
        rw [h] at this; cases this
  exact ⟨_, r, flatten_eq sep d hs hn, hr, hnd, hl, Dict.pyEq_of_look r d hnd hn hl⟩

/-- negative witness (before commit dea0f39): two distinct empty sub-dictionaries whose keys share
 their first character were rejected as duplicates; the current code accepts them -/
theorem old_flatten_rejects_shared_initial (sep c : α) (k1 k2 : List α) (h1 : sep ∉ c :: k1)
    (h2 : sep ∉ c :: k2) (hne : k1 ≠ k2) :
    flattenOld sep (Dict.cons (c :: k1) (.dict .nil) (.cons (c :: k2) (.dict .nil) .nil) : Dict α β)
      = .error .dup ∧
    flatten sep (Dict.cons (c :: k1) (.dict .nil) (.cons (c :: k2) (.dict .nil) .nil) : Dict α β)
      = .ok ([], [c :: k1, c :: k2]) := by
  constructor
  · simp [flattenOld, flattenLoopOld, h1, h2, Dict.isNil, Except.bind, dupCheckOld, newKeyOld]
  · simp [flatten, flattenFrom, flattenLoop, h1, h2, Dict.isNil, Except.bind, dupCheck, newKey, hne]

/-- negative witness (before commit dea0f39): an empty sub-dictionary under the empty key raised
 `IndexError` (`x[0]` of the key `''`); the current code returns the empty key -/
theorem old_flatten_index_error_on_empty_key (sep : α) :
    flattenOld sep (Dict.cons [] (.dict .nil) .nil : Dict α β) = .error .index ∧
    flatten sep (Dict.cons [] (.dict .nil) .nil : Dict α β) = .ok ([], [[]]) := by
  constructor
  · simp [flattenOld, flattenLoopOld, Dict.isNil, Except.bind, dupCheckOld, newKeyOld]
  · simp [flatten, flattenFrom, flattenLoop, Dict.isNil, Except.bind, dupCheck, newKey]

/-- negative witness (before commit 97b3b0b): a sub-dictionary stored under the empty key was merged
 into its parent — `{'': {k: b}}` and `{k: b}` had the same flat form, so the round trip lost the
 level; the current code keeps the level (`sep + k`) -/
theorem old_flatten_loses_empty_key_level (sep : α) (k : List α) (b : β) (hk : sep ∉ k) :
    flattenOld sep (Dict.cons [] (.dict (.cons k (.leaf b) .nil)) .nil)
      = flattenOld sep (Dict.cons k (.leaf b) .nil) ∧
    flattenOld sep (Dict.cons [] (.dict (.cons k (.leaf b) .nil)) .nil) = .ok ([(k, b)], []) ∧
    flatten sep (Dict.cons [] (.dict (.cons k (.leaf b) .nil)) .nil) = .ok ([(sep :: k, b)], []) := by
  refine ⟨?_, ?_, ?_⟩
  · simp [flattenOld, flattenLoopOld, Dict.isNil, Except.bind, dupCheckOld, newKeyOld, hk]
  · simp [flattenOld, flattenLoopOld, Dict.isNil, Except.bind, dupCheckOld, newKeyOld, hk]
  · simp [flatten, flattenFrom, flattenLoop, Dict.isNil, Except.bind, dupCheck, newKey, hk]

/-! ## T19.2 `replace_with_matching_or_default` -/

/-- (one-character separator; the code always uses the default `'&'` here)
 whenever `replace_with_matching_or_default(x, replace, default, check)` returns, the result has
 the structure of `x` (same leaf paths, same empty sub-dictionaries: the trees with all leaves
 erased are Python-equal), and the leaf at `path` is `flat_replace.get(sep.join(path), default)` -/
theorem replace_preserves_structure (sep : α) (x repl : Dict α β) (dflt : β) (check : Bool)
    (r : Dict α β) (hx : x.NoDup) (h : replace sep x repl dflt check = .ok r) :
    (r.map fun _ => ()).pyEq (x.map fun _ => ()) = true ∧
    ∃ fr, flatten sep repl = .ok fr ∧
      ∀ p, look r p = (look x p).map (Option.map fun _ => (alookup (joinSep sep p) fr.1).getD dflt) := by
  obtain ⟨fr, hfr, hnd, hlook⟩ := replace_spec sep x repl dflt check r hx h
  refine ⟨?_, fr, hfr, hlook⟩
  refine Dict.pyEq_of_look _ _ (Dict.map_NoDup _ r hnd) (Dict.map_NoDup _ x hx) ?_
  intro p
  rw [look_map, look_map, hlook]
  cases look x p with
  | none => rfl
  | some t => cases t <;> rfl

end Dicts

/-! ## T19.2 pytrees of arrays (axis-major view) -/
section Arrays
variable {K : Type}

/-- `unpack_to_pytree(pack_pytree(tree), shapes) == tree` for every non-empty list of leaves
 (any sizes along the axis, zero included) -/
theorem unpack_pack (leaves : List (List (List K))) (arr : List (List K))
    (h : pack leaves = .ok (some arr)) : unpack arr (leaves.map List.length) = .ok leaves := by
  unfold pack at h
  by_cases hl : leaves = []
  · simp [hl] at h
  · have hne : leaves.isEmpty = false := by cases leaves <;> simp_all
    simp only [hne, Bool.false_eq_true, if_false] at h
    split at h
    · simp only [Except.ok.injEq, Option.some.injEq] at h
      subst h
      have := splitIdxFrom_flatten leaves [] hl
      simp only [List.nil_append, List.length_nil] at this
      have hm : (leaves.map List.length).isEmpty = false := by cases leaves <;> simp_all
      simp [unpack, hm, splitIdx, cumsum, this]
    · simp at h

/-- a list whose entries all equal `w` passes the `allSame` test -/
theorem allSame_of_forall_eq (l : List Nat) (w : Nat) (h : ∀ a ∈ l, a = w) : allSame l = true := by
  cases l with
  | nil => rfl
  | cons a as =>
    have ha : a = w := h a (by simp)
    simp only [allSame, List.all_eq_true, beq_iff_eq]
    intro x hx
    rw [ha]
    exact h x (by simp [hx])

/-- the forward operation succeeds: `pack_pytree` returns the concatenation on every non-empty list
 of leaves whose slices all have the same width `w` (leaves that agree off the axis; any number of
 leaves, any sizes along the axis, zero included).  The model compares flattened slice widths (the
 product of the off-axis sizes); `jnp.concatenate` compares them axis by axis, which is stricter and
 is exercised by the correspondence check only -/
theorem pack_ok (leaves : List (List (List K))) (hl : leaves ≠ []) (w : Nat)
    (hw : ∀ l ∈ leaves, ∀ row ∈ l, row.length = w) : pack leaves = .ok (some leaves.flatten) := by
  have hne : leaves.isEmpty = false := by cases leaves <;> simp_all
  have hs : allSame (rowWidths leaves) = true := by
    apply allSame_of_forall_eq _ w
    intro a ha
    simp only [rowWidths, List.mem_map, List.mem_flatten] at ha
    obtain ⟨row, ⟨l, hl', hrow⟩, rfl⟩ := ha
    exact hw l hl' row hrow
  simp [pack, hne, hs]

/-- unconditional form of `unpack_pack`: on every non-empty list of leaves with one slice width
 `pack_pytree` returns and `unpack_to_pytree` gives the leaves back -/
theorem unpack_pack_consistent (leaves : List (List (List K))) (hl : leaves ≠ []) (w : Nat)
    (hw : ∀ l ∈ leaves, ∀ row ∈ l, row.length = w) :
    ∃ arr, pack leaves = .ok (some arr) ∧ unpack arr (leaves.map List.length) = .ok leaves :=
  ⟨_, pack_ok leaves hl w hw, unpack_pack leaves _ (pack_ok leaves hl w hw)⟩

/-- `pack_pytree(unpack_to_pytree(arr, shapes)) == arr` for every array and every non-empty list of
 sizes, honest or not (`jnp.split` clips) -/
theorem pack_unpack (arr : List (List K)) (sizes : List Nat) (hs : sizes ≠ [])
    (harr : allSame (arr.map List.length) = true) :
    ∃ pieces, unpack arr sizes = .ok pieces ∧ pieces.length = sizes.length ∧ pieces.flatten = arr ∧
      pack pieces = .ok (some arr) := by
  have hm : sizes.isEmpty = false := by cases sizes <;> simp_all
  have hfl : (splitIdx arr (cumsum sizes).dropLast).flatten = arr := by
    simpa [splitIdx, cumsum] using flatten_splitIdxFrom_cumsum arr sizes 0 hs
  have hlen : ∀ (idx : List Nat) (start : Nat), (splitIdxFrom arr start idx).length = idx.length + 1 := by
    intro idx
    induction idx with
    | nil => intro start; rfl
    | cons i is ih => intro start; simp [splitIdxFrom, ih]
  have hclen : ∀ (l : List Nat) (acc : Nat), (cumsumFrom acc l).length = l.length := by
    intro l
    induction l with
    | nil => intro acc; rfl
    | cons a as ih => intro acc; simp [cumsumFrom, ih]
  have hplen : (splitIdx arr (cumsum sizes).dropLast).length = sizes.length := by
    rw [splitIdx, hlen, List.length_dropLast, cumsum, hclen]
    cases sizes with
    | nil => exact absurd rfl hs
    | cons a as => simp
  refine ⟨_, by simp [unpack, hm], hplen, hfl, ?_⟩
  have hne : (splitIdx arr (cumsum sizes).dropLast).isEmpty = false := by
    cases h : splitIdx arr (cumsum sizes).dropLast with
    | nil => rw [h] at hplen; cases sizes <;> simp_all
    | cons a as => rfl
  simp [pack, hne, rowWidths, hfl, harr]

/-- `unstack_to_pytree(stack_pytree(tree), shapes) == tree` for every non-empty list of leaves -/
theorem unstack_stack (leaves : List (List K)) (arr : List (List K))
    (h : stack leaves = .ok (some arr)) : unstack arr leaves.length = .ok leaves := by
  unfold stack at h
  cases leaves with
  | nil => simp at h
  | cons l ls =>
    simp only [List.isEmpty_cons, Bool.false_eq_true, if_false] at h
    split at h
    · simp only [Except.ok.injEq, Option.some.injEq] at h
      subst h
      simp [unstack, sections_flatten]
    · simp at h

/-- the forward operation succeeds: `stack_pytree` returns on every non-empty list of leaves of the
 same (flattened) size `w` -/
theorem stack_ok (leaves : List (List K)) (hl : leaves ≠ []) (w : Nat) (hw : ∀ l ∈ leaves, l.length = w) :
    stack leaves = .ok (some leaves) := by
  have hne : leaves.isEmpty = false := by cases leaves <;> simp_all
  have hs : allSame (leaves.map List.length) = true := by
    apply allSame_of_forall_eq _ w
    intro a ha
    simp only [List.mem_map] at ha
    obtain ⟨l, hl', rfl⟩ := ha
    exact hw l hl'
  simp [stack, hne, hs]

/-- unconditional form of `unstack_stack`: on every non-empty list of leaves of one size
 `stack_pytree` returns and `unstack_to_pytree` gives the leaves back -/
theorem unstack_stack_consistent (leaves : List (List K)) (hl : leaves ≠ []) (w : Nat)
    (hw : ∀ l ∈ leaves, l.length = w) :
    ∃ arr, stack leaves = .ok (some arr) ∧ unstack arr leaves.length = .ok leaves :=
  ⟨_, stack_ok leaves hl w hw, unstack_stack leaves _ (stack_ok leaves hl w hw)⟩

/-- `concat_along_axis(split_along_axis(tree, idx, axis), axis) == tree` for every tree (leaves of
 different sizes) and every index, negative and out-of-range ones included -/
theorem concat_split (leaves : List (List (List K))) (idx : Int)
    (hleaf : ∀ l ∈ leaves, allSame (l.map List.length) = true) :
    concat [(splitAlong leaves idx).1, (splitAlong leaves idx).2] = .ok leaves := by
  have hz := zipWith_take_drop leaves (fun l => pyIndex l.length idx)
  simp only [concat, splitAlong, List.any_cons, List.any_nil, List.length_map, bne_self_eq_false,
    Bool.or_false, Bool.false_eq_true, if_false, List.foldl_cons, List.foldl_nil, hz]
  have : leaves.all (fun leaf => allSame (leaf.map List.length)) = true := by
    simpa [List.all_eq_true] using hleaf
  simp [this]

/-- every entry of `zipWith (· ++ ·) a b` is `x ++ y` with `x ∈ a`, `y ∈ b` -/
theorem mem_zipWith_append {β : Type} (a b : List (List β)) (leaf : List β)
    (h : leaf ∈ List.zipWith (· ++ ·) a b) : ∃ x ∈ a, ∃ y ∈ b, leaf = x ++ y := by
  induction a generalizing b with
  | nil => simp at h
  | cons x xs ih =>
    cases b with
    | nil => simp at h
    | cons y ys =>
      simp only [List.zipWith_cons_cons, List.mem_cons] at h
      rcases h with h | h
      · exact ⟨x, by simp, y, by simp, h⟩
      · obtain ⟨x', hx', y', hy', e⟩ := ih ys h
        exact ⟨x', by simp [hx'], y', by simp [hy'], e⟩

/-- the forward operation succeeds: `concat_along_axis([a, b], axis)` returns the leaf-wise
 concatenation for two trees with the same number of leaves whose slices all have the same width -/
theorem concat_ok_two (a b : List (List (List K))) (hlen : b.length = a.length) (w : Nat)
    (hw : ∀ l ∈ a ++ b, ∀ row ∈ l, row.length = w) :
    concat [a, b] = .ok (List.zipWith (· ++ ·) a b) := by
  have hall : ((List.zipWith (· ++ ·) a b).all fun leaf => allSame (leaf.map List.length)) = true := by
    simp only [List.all_eq_true]
    intro leaf hleaf
    apply allSame_of_forall_eq _ w
    intro c hc
    simp only [List.mem_map] at hc
    obtain ⟨row, hrow, rfl⟩ := hc
    obtain ⟨x, hx, y, hy, rfl⟩ := mem_zipWith_append a b leaf hleaf
    rcases List.mem_append.1 hrow with h | h
    · exact hw x (by simp [hx]) row h
    · exact hw y (by simp [hy]) row h
  simp [concat, hlen, hall]

/-- splitting the concatenation of two trees where the first one has `n` slices in every leaf gives
 the two trees back -/
theorem split_concat (a b c : List (List (List K))) (n : Nat) (ha : ∀ l ∈ a, l.length = n)
    (h : concat [a, b] = .ok c) : splitAlong c (n : Int) = (a, b) := by
  have h' : (if ([b].any fun u => u.length != a.length) = true then (Except.error Err.tree : Except Err _)
      else if ((List.zipWith (· ++ ·) a b).all fun leaf => allSame (leaf.map List.length)) = true
        then Except.ok (List.zipWith (· ++ ·) a b) else Except.error Err.shape) = Except.ok c := h
  clear h
  split_ifs at h' with hlen hall
  · simp only [Except.ok.injEq] at h'
    subst h'
    · have hlen' : b.length = a.length := by simpa using hlen
      clear hlen hall
      simp only [splitAlong, Prod.mk.injEq]
      induction a generalizing b with
      | nil =>
        cases b with
        | nil => simp
        | cons _ _ => simp at hlen'
      | cons x xs ih =>
        cases b with
        | nil => simp at hlen'
        | cons y ys =>
          have hx : x.length = n := ha x (by simp)
          have ih' := ih ys (fun l hl => ha l (by simp [hl])) (by simpa using hlen')
          have hp : pyIndex (x ++ y).length (n : Int) = n := by
            simp [pyIndex, hx]
          simp only [List.zipWith_cons_cons, List.map_cons, List.cons.injEq, hp]
          refine ⟨⟨?_, ih'.1⟩, ?_, ih'.2⟩
          · rw [← hx]; simp
          · rw [← hx]; simp

/-- unconditional form of `split_concat`: for two trees with the same number of leaves and one slice
 width, where every leaf of the first has `n` slices, the concatenation returns and splitting it at
 `n` gives the two trees back -/
theorem split_concat_consistent (a b : List (List (List K))) (n : Nat) (ha : ∀ l ∈ a, l.length = n)
    (hlen : b.length = a.length) (w : Nat) (hw : ∀ l ∈ a ++ b, ∀ row ∈ l, row.length = w) :
    ∃ c, concat [a, b] = .ok c ∧ splitAlong c (n : Int) = (a, b) :=
  ⟨_, concat_ok_two a b hlen w hw, split_concat a b _ n ha (concat_ok_two a b hlen w hw)⟩

/-- `concat_along_axis(split_axis(tree, axis, keep_dims=True), axis) == tree` -/
theorem concat_splitAxis (leaves : List (List (List K))) (trees : List (List (List (List K))))
    (hleaf : ∀ l ∈ leaves, allSame (l.map List.length) = true)
    (h : splitAxis leaves = .ok trees) : concat trees = .ok leaves := by
  unfold splitAxis at h
  cases hl : leaves.map List.length with
  | nil => simp [hl] at h
  | cons n rest =>
    simp only [hl] at h
    split at h
    · rename_i hall
      split at h
      · cases h
      · rename_i hn
        simp only [Except.ok.injEq] at h
        subst h
        have hlen : ∀ l ∈ leaves, l.length = n := by
          intro l hm
          have : l.length ∈ n :: rest := by rw [← hl]; exact List.mem_map_of_mem hm
          simp only [List.mem_cons] at this
          rcases this with h' | h'
          · exact h'
          · simpa using (List.all_eq_true.1 hall) _ h'
        obtain ⟨m, rfl⟩ : ∃ m, n = m + 1 := ⟨n - 1, by omega⟩
        have hfold := foldl_zipWith_slices leaves m 1
        have h0 : (leaves.map fun l => slice l 0 (0 + 1)) = leaves.map fun l => l.take 1 := by
          simp [slice]
        have htk : (leaves.map fun l => l.take (1 + m)) = leaves := by
          conv_rhs => rw [← List.map_id leaves]
          apply List.map_congr_left
          intro l hm
          rw [id, List.take_of_length_le (by rw [hlen l hm]; omega)]
        rw [List.range_eq_range', List.range'_succ]
        simp only [concat, List.map_cons, List.any_map, List.length_map, bne_self_eq_false,
          Function.comp_def, List.any_eq_true, Bool.false_eq_true, and_false, exists_false, if_false]
        rw [h0, hfold, htk]
        have : leaves.all (fun leaf => allSame (leaf.map List.length)) = true := by
          simpa [List.all_eq_true] using hleaf
        simp [this]
    · cases h

/-- the forward operation succeeds: `split_axis(tree, axis, keep_dims=True)` returns one tree per index
 for every non-empty list of leaves that all have the same non-zero number `n` of slices -/
theorem splitAxis_ok (leaves : List (List (List K))) (hl : leaves ≠ []) (n : Nat) (hn : n ≠ 0)
    (hlen : ∀ l ∈ leaves, l.length = n) :
    splitAxis leaves = .ok ((List.range n).map (fun i => leaves.map (fun l => slice l i (i + 1)))) := by
  cases leaves with
  | nil => exact absurd rfl hl
  | cons x xs =>
    have hx : x.length = n := hlen x (by simp)
    have hxs : ∀ a ∈ xs.map List.length, a = n := by
      intro a ha
      simp only [List.mem_map] at ha
      obtain ⟨l, hl', rfl⟩ := ha
      exact hlen l (by simp [hl'])
    have hall : (xs.map List.length).all (· == n) = true := by
      simp only [List.all_eq_true, beq_iff_eq]
      exact hxs
    simp only [splitAxis, List.map_cons, hx, hall, if_true, hn, if_false]

/-- unconditional form of `concat_splitAxis`: on every non-empty list of leaves with `n ≠ 0` slices
 each and one slice width, `split_axis` returns and concatenating its trees gives the leaves back -/
theorem concat_splitAxis_consistent (leaves : List (List (List K))) (hl : leaves ≠ []) (n : Nat) (hn : n ≠ 0)
    (hlen : ∀ l ∈ leaves, l.length = n) (w : Nat) (hw : ∀ l ∈ leaves, ∀ row ∈ l, row.length = w) :
    ∃ trees, splitAxis leaves = .ok trees ∧ concat trees = .ok leaves := by
  refine ⟨_, splitAxis_ok leaves hl n hn hlen, concat_splitAxis leaves _ ?_ (splitAxis_ok leaves hl n hn hlen)⟩
  intro l hl'
  apply allSame_of_forall_eq _ w
  intro a ha
  simp only [List.mem_map] at ha
  obtain ⟨row, hr, rfl⟩ := ha
  exact hw l hl' row hr

/-- `split_axis(tree, axis, keep_dims=False)` is the transpose: leaf `j` of tree `i` is slice `i`
 of leaf `j` (so stacking the `j`-th leaves back along the axis gives leaf `j`) -/
theorem splitAxisSqueeze_transpose (leaves : List (List (List K))) (ts : List (List (List K)))
    (h : splitAxisSqueeze leaves = .ok ts) :
    ∀ i j : Nat, (ts[i]?).bind (·[j]?) = (leaves[j]?).bind (·[i]?) := by
  unfold splitAxisSqueeze splitAxis at h
  cases hl : leaves.map List.length with
  | nil => simp [hl, Except.map] at h
  | cons n rest =>
    simp only [hl] at h
    split at h
    · rename_i hall
      split at h
      · simp [Except.map] at h
      · simp only [Except.map, Except.ok.injEq] at h
        subst h
        have hlen : ∀ l ∈ leaves, l.length = n := by
          intro l hm
          have : l.length ∈ n :: rest := by rw [← hl]; exact List.mem_map_of_mem hm
          simp only [List.mem_cons] at this
          rcases this with h' | h'
          · exact h'
          · simpa using (List.all_eq_true.1 hall) _ h'
        intro i j
        cases hj : leaves[j]? with
        | none =>
          simp only [Option.bind_none]
          by_cases hi : i < n
          · simp [hi, hj]
          · simp [hi]
        | some l =>
          have hm : l ∈ leaves := List.mem_of_getElem? hj
          simp only [Option.bind_some]
          by_cases hi : i < n
          · have hil : i < l.length := by rw [hlen l hm]; exact hi
            have : ((l.take (i + 1)).drop i) = [l[i]] := by
              rw [List.drop_take, show i + 1 - i = 1 by omega, List.drop_eq_getElem_cons hil]
              rfl
            simp [hi, hj, slice, this, List.getElem?_eq_getElem hil]
          · have : l.length ≤ i := by rw [hlen l hm]; omega
            simp [hi, List.getElem?_eq_none this]
    · simp [Except.map] at h

end Arrays

/-! ## T19.3 spectral up- and down-sampling -/
section Spectral
variable {K : Type}

/-- `downsample ∘ upsample = id` on every block of shape `(m0, m1)`, for all pad widths -/
theorem downsample_upsample_id [Zero K] (w d0 d1 m0 m1 : Nat) (x : List (List K)) (hx : x.length = m0)
    (hr : ∀ r ∈ x, r.length = m1) : downsample m0 m1 (pad w d0 d1 x) = x :=
  downsample_pad w d0 d1 m0 m1 x hx hr

/-- whenever `get_spectral_upsample_fn(c1, c2)` accepts a block of the coarse modal shape, the
 result has the fine modal shape, and (for truncations that do not shrink, the only case in which
 `get_spectral_downsample_fn(c2, c1)` does not raise) down-sampling gives the block back exactly -/
theorem resample_roundtrip [Zero K] (c1 c2 : Horiz) (sameVertical expectSame : Bool) (x y : List (List K))
    (hx : x.length = c1.m0) (hr : ∀ r ∈ x, r.length = c1.m1)
    (h : upsampleFn c1 c2 sameVertical expectSame x = .ok y) :
    (y.length = c2.m0 ∧ ∀ r ∈ y, r.length = c2.m1) ∧
    (c1.M ≤ c2.M → c1.L ≤ c2.L → downsampleFn c2 c1 sameVertical expectSame y = .ok x) ∧
    (¬ (c1.M ≤ c2.M ∧ c1.L ≤ c2.L) → downsampleFn c2 c1 sameVertical expectSame y = .error .value) := by
  unfold upsampleFn at h
  split_ifs at h with hv hs
  simp only [Except.ok.injEq] at h
  subst h
  have hs' : c1.m0 ≤ c2.m0 ∧ c1.m1 ≤ c2.m1 := by omega
  have hshape := pad_shape (K := K) (c2.m0 - c1.m0) (c2.m1 - c1.m1) c1.m0 c1.m1 x hx hr
  refine ⟨⟨by omega, fun r hm => by rw [hshape.2 r hm]; omega⟩, ?_, ?_⟩
  · intro hM hL
    have : ¬ (c2.L < c1.L ∨ c2.M < c1.M) := by omega
    simp only [downsampleFn, hv, this, if_false, Bool.false_eq_true]
    rw [downsample_pad _ _ _ _ _ x hx hr]
  · intro hML
    have : c2.L < c1.L ∨ c2.M < c1.M := by omega
    simp [downsampleFn, hv, this]

/-- up-sampling represents the same function: with basis functions that do not depend on the
 truncation (prefix stability of the Fourier–Legendre basis) the series with the zero-padded
 coefficients has the same value, at every point (`b i j` is the value of basis function `(i, j)`).
 Prefix stability is a *hypothesis*, built into the single family `b : Nat → Nat → K` used for both
 truncations; it is not proved here for the real bases (C01 for the Legendre recurrence; for both
 transform implementations it is probed by synthesis on a shared nodal grid in `harness/props/C19.py`,
 i.e. "same function on the finer grid" is test-level for the real code) -/
theorem upsample_same_series [Semiring K] (b : Nat → Nat → K) (c1 c2 : Horiz) (sameVertical expectSame : Bool)
    (x y : List (List K)) (h : upsampleFn c1 c2 sameVertical expectSame x = .ok y) :
    series b y = series b x := by
  unfold upsampleFn at h
  split_ifs at h
  simp only [Except.ok.injEq] at h
  subst h
  exact series_pad b _ _ _ x

/-- `get_spectral_interpolate_fn` takes the up-sampling function exactly when both truncations grow
 strictly, the down-sampling function exactly when neither grows, and raises otherwise -/
theorem interpolate_dispatch [Zero K] (c1 c2 : Horiz) (sv es : Bool) (x : List (List K)) :
    (c1.L < c2.L ∧ c1.M < c2.M → interpolateFn c1 c2 sv es x = (upsampleFn c1 c2 sv es x).map (true, ·)) ∧
    (c2.L ≤ c1.L ∧ c2.M ≤ c1.M → interpolateFn c1 c2 sv es x = (downsampleFn c1 c2 sv es x).map (false, ·)) ∧
    (¬ (c1.L < c2.L ∧ c1.M < c2.M) → ¬ (c2.L ≤ c1.L ∧ c2.M ≤ c1.M) →
      interpolateFn c1 c2 sv es x = .error .value) := by
  refine ⟨fun h => by simp [interpolateFn, h], fun h => ?_, fun h1 h2 => ?_⟩
  · have : ¬ (c1.L < c2.L ∧ c1.M < c2.M) := by omega
    simp [interpolateFn, this, h]
  · have : ¬ (c1.L ≥ c2.L ∧ c1.M ≥ c2.M) := by omega
    simp [interpolateFn, h1, this]

end Spectral

/-! ## T19.4 shape → dimension names -/
section Dims

/-- the sample / time / realization prefix that `data_to_xarray` puts in front of an entry -/
abbrev prefixed (c : DimCfg) (e : List Nat × List String) : List Nat × List String :=
  withPrefix (withSurface c).times (withSurface c).samples
    ((withSurface c).addl.any fun a => a.1 == "realization") e

/-- `_infer_dims_shape_and_coords` raises exactly when an additional coordinate (other than
 `realization`) has the length of the level axis; otherwise an array whose shape was assigned names
 gets the names of the **last** assignment to that shape — in particular the intended names
 whenever no later assignment collides with it -/
theorem inferDims_no_collision (c : DimCfg) :
    (∀ shape x, inferDims c shape = .error x →
      x = .value ∧ ∃ a ∈ (withSurface c).addl, a.1 ≠ "realization" ∧ a.2 = c.layers) ∧
    ((∀ a ∈ (withSurface c).addl, a.1 ≠ "realization" → a.2 ≠ c.layers) →
      ∀ (l1 l2 : Table) (e : List Nat × List String), entries (withSurface c) = l1 ++ e :: l2 →
        (∀ e' ∈ l2, e'.1 ≠ e.1) → inferDims c (prefixed c e).1 = .ok (some (prefixed c e).2)) := by
  have hlay : (withSurface c).layers = c.layers := by
    unfold withSurface; split <;> rfl
  constructor
  · intro shape x h
    unfold inferDims at h
    cases hT : shapeTable (withSurface c) with
    | ok T => simp [hT, Except.map] at h
    | error y =>
      simp only [hT, Except.map, Except.error.injEq] at h
      subst h
      simpa [hlay] using shapeTable_error (withSurface c) y hT
  · intro hok l1 l2 e hent hlast
    obtain ⟨T, hT⟩ := shapeTable_ok (withSurface c) (by simpa [hlay] using hok)
    simp only [inferDims, hT, Except.map]
    rw [shapeTable_lookup (withSurface c) T hT l1 l2 e hent hlast]

/-- the standard configuration (at least two layers … any `layers ≠ 1`, no user coordinates, modal
 and nodal shapes different), with any `sample` / `time` axes: every kind of variable gets the
 intended names -/
theorem inferDims_standard (layers m0 m1 n0 n1 : Nat) (times samples : Option Nat)
    (hL : layers ≠ 1) (hmn : ¬ (m0 = n0 ∧ m1 = n1)) :
    let c : DimCfg := ⟨layers, [m0, m1], [n0, n1], [], times, samples⟩
    let pre := samples.toList ++ times.toList
    let preN := (samples.map fun _ => "sample").toList ++ (times.map fun _ => "time").toList
    inferDims c (pre ++ [layers, m0, m1]) = .ok (some (preN ++ ["level", "longitudinal_mode", "total_wavenumber"])) ∧
    inferDims c (pre ++ [layers, n0, n1]) = .ok (some (preN ++ ["level", "lon", "lat"])) ∧
    inferDims c (pre ++ [1, m0, m1]) = .ok (some (preN ++ ["surface", "longitudinal_mode", "total_wavenumber"])) ∧
    inferDims c (pre ++ [1, n0, n1]) = .ok (some (preN ++ ["surface", "lon", "lat"])) ∧
    inferDims c (pre ++ [m0, m1]) = .ok (some (preN ++ ["longitudinal_mode", "total_wavenumber"])) ∧
    inferDims c (pre ++ [n0, n1]) = .ok (some (preN ++ ["lon", "lat"])) ∧
    inferDims c pre = .ok (some preN) := by
  intro c pre preN
  have hws : withSurface c = ⟨layers, [m0, m1], [n0, n1], [("surface", 1)], times, samples⟩ := by
    simp [withSurface, c, hL]
  have hent : entries (withSurface c) =
      [([], []), ([layers, m0, m1], ["level", "longitudinal_mode", "total_wavenumber"]),
        ([layers, n0, n1], ["level", "lon", "lat"]), ([n0, n1], ["lon", "lat"]),
        ([m0, m1], ["longitudinal_mode", "total_wavenumber"]), ([1, n0, n1], ["lon", "lat"]),
        ([1, m0, m1], ["surface", "longitudinal_mode", "total_wavenumber"]),
        ([1, n0, n1], ["surface", "lon", "lat"]), ([1], ["surface"])] := by
    rw [hws]
    simp [entries, baseEntries, addlTriples, modalNames, nodalNames]
  have hok : ∀ a ∈ (withSurface c).addl, a.1 ≠ "realization" → a.2 ≠ c.layers := by
    rw [hws]
    intro a ha _
    simp only [List.mem_singleton] at ha
    subst ha
    exact fun h => hL h.symm
  have key := (inferDims_no_collision c).2 hok
  have hpre : ∀ e : List Nat × List String, e.1 ≠ [] → prefixed c e = (pre ++ e.1, preN ++ e.2) := by
    intro e _
    simp only [prefixed, hws]
    have : (List.any [("surface", 1)] fun a => a.1 == "realization") = false := by decide
    rw [this, withPrefix_noreal]
  have hpre0 : prefixed c ([], []) = (pre, preN) := by
    simp only [prefixed, hws]
    have : (List.any [("surface", 1)] fun a => a.1 == "realization") = false := by decide
    rw [this, withPrefix_noreal]
    simp [pre, preN]
  have hmn' : ¬ (n0 = m0 ∧ n1 = m1) := fun h => hmn ⟨h.1.symm, h.2.symm⟩
  have hL' : ¬ (1 = layers) := fun h => hL h.symm
  refine ⟨?_, ?_, ?_, ?_, ?_, ?_, ?_⟩
  · have := key [([], [])] [([layers, n0, n1], ["level", "lon", "lat"]), ([n0, n1], ["lon", "lat"]), ([m0, m1], ["longitudinal_mode", "total_wavenumber"]), ([1, n0, n1], ["lon", "lat"]), ([1, m0, m1], ["surface", "longitudinal_mode", "total_wavenumber"]), ([1, n0, n1], ["surface", "lon", "lat"]), ([1], ["surface"])]
      ([layers, m0, m1], ["level", "longitudinal_mode", "total_wavenumber"]) (by rw [hent]; rfl) (by simp [hL', hmn'])
    rwa [hpre _ (by simp)] at this
  · have := key [([], []), ([layers, m0, m1], ["level", "longitudinal_mode", "total_wavenumber"])] [([n0, n1], ["lon", "lat"]), ([m0, m1], ["longitudinal_mode", "total_wavenumber"]), ([1, n0, n1], ["lon", "lat"]), ([1, m0, m1], ["surface", "longitudinal_mode", "total_wavenumber"]), ([1, n0, n1], ["surface", "lon", "lat"]), ([1], ["surface"])]
      ([layers, n0, n1], ["level", "lon", "lat"]) (by rw [hent]; rfl) (by simp [hL'])
    rwa [hpre _ (by simp)] at this
  · have := key [([], []), ([layers, m0, m1], ["level", "longitudinal_mode", "total_wavenumber"]), ([layers, n0, n1], ["level", "lon", "lat"]), ([n0, n1], ["lon", "lat"]), ([m0, m1], ["longitudinal_mode", "total_wavenumber"]), ([1, n0, n1], ["lon", "lat"])] [([1, n0, n1], ["surface", "lon", "lat"]), ([1], ["surface"])]
      ([1, m0, m1], ["surface", "longitudinal_mode", "total_wavenumber"]) (by rw [hent]; rfl) (by simp [hmn'])
    rwa [hpre _ (by simp)] at this
  · have := key [([], []), ([layers, m0, m1], ["level", "longitudinal_mode", "total_wavenumber"]), ([layers, n0, n1], ["level", "lon", "lat"]), ([n0, n1], ["lon", "lat"]), ([m0, m1], ["longitudinal_mode", "total_wavenumber"]), ([1, n0, n1], ["lon", "lat"]), ([1, m0, m1], ["surface", "longitudinal_mode", "total_wavenumber"])] [([1], ["surface"])]
      ([1, n0, n1], ["surface", "lon", "lat"]) (by rw [hent]; rfl) (by simp)
    rwa [hpre _ (by simp)] at this
  · have := key [([], []), ([layers, m0, m1], ["level", "longitudinal_mode", "total_wavenumber"]), ([layers, n0, n1], ["level", "lon", "lat"]), ([n0, n1], ["lon", "lat"])] [([1, n0, n1], ["lon", "lat"]), ([1, m0, m1], ["surface", "longitudinal_mode", "total_wavenumber"]), ([1, n0, n1], ["surface", "lon", "lat"]), ([1], ["surface"])]
      ([m0, m1], ["longitudinal_mode", "total_wavenumber"]) (by rw [hent]; rfl) (by simp)
    rwa [hpre _ (by simp)] at this
  · have := key [([], []), ([layers, m0, m1], ["level", "longitudinal_mode", "total_wavenumber"]), ([layers, n0, n1], ["level", "lon", "lat"])] [([m0, m1], ["longitudinal_mode", "total_wavenumber"]), ([1, n0, n1], ["lon", "lat"]), ([1, m0, m1], ["surface", "longitudinal_mode", "total_wavenumber"]), ([1, n0, n1], ["surface", "lon", "lat"]), ([1], ["surface"])]
      ([n0, n1], ["lon", "lat"]) (by rw [hent]; rfl) (by simp; exact fun h1 h2 => hmn ⟨h1, h2⟩)
    rwa [hpre _ (by simp)] at this
  · have := key [] [([layers, m0, m1], ["level", "longitudinal_mode", "total_wavenumber"]), ([layers, n0, n1], ["level", "lon", "lat"]), ([n0, n1], ["lon", "lat"]), ([m0, m1], ["longitudinal_mode", "total_wavenumber"]), ([1, n0, n1], ["lon", "lat"]), ([1, m0, m1], ["surface", "longitudinal_mode", "total_wavenumber"]), ([1, n0, n1], ["surface", "lon", "lat"]), ([1], ["surface"])]
      ([], []) (by rw [hent]; rfl) (by simp)
    rwa [hpre0] at this

/-- the other collision (**known finding** `modal-equals-nodal-shape`, measured on the real code in
 every run, e.g. `Grid(longitude_wavenumbers=5, total_wavenumbers=7, longitude_nodes=10,
 latitude_nodes=7, FastSphericalHarmonics)`): when the nodal shape equals the modal shape, axes cannot
 be told apart by shape and the later assignment wins — every 3-d array is labelled
 `(level, lon, lat)` (also modal data), every 2-d array `(longitudinal_mode, total_wavenumber)` (also
 nodal data), silently -/
theorem inferDims_modal_eq_nodal_collision (layers a b : Nat) (times samples : Option Nat) (hL : layers ≠ 1) :
    let c : DimCfg := ⟨layers, [a, b], [a, b], [], times, samples⟩
    let pre := samples.toList ++ times.toList
    let preN := (samples.map fun _ => "sample").toList ++ (times.map fun _ => "time").toList
    inferDims c (pre ++ [layers, a, b]) = .ok (some (preN ++ ["level", "lon", "lat"])) ∧
    inferDims c (pre ++ [a, b]) = .ok (some (preN ++ ["longitudinal_mode", "total_wavenumber"])) ∧
    inferDims c (pre ++ [1, a, b]) = .ok (some (preN ++ ["surface", "lon", "lat"])) := by
  intro c pre preN
  have hws : withSurface c = ⟨layers, [a, b], [a, b], [("surface", 1)], times, samples⟩ := by
    simp [withSurface, c, hL]
  have hent : entries (withSurface c) =
      [([], []), ([layers, a, b], ["level", "longitudinal_mode", "total_wavenumber"]),
        ([layers, a, b], ["level", "lon", "lat"]), ([a, b], ["lon", "lat"]),
        ([a, b], ["longitudinal_mode", "total_wavenumber"]), ([1, a, b], ["lon", "lat"]),
        ([1, a, b], ["surface", "longitudinal_mode", "total_wavenumber"]),
        ([1, a, b], ["surface", "lon", "lat"]), ([1], ["surface"])] := by
    rw [hws]
    simp [entries, baseEntries, addlTriples, modalNames, nodalNames]
  have hok : ∀ x ∈ (withSurface c).addl, x.1 ≠ "realization" → x.2 ≠ c.layers := by
    rw [hws]
    intro x hx _
    simp only [List.mem_singleton] at hx
    subst hx
    exact fun h => hL h.symm
  have key := (inferDims_no_collision c).2 hok
  have hpre : ∀ e : List Nat × List String, prefixed c e = (pre ++ e.1, preN ++ e.2) := by
    intro e
    simp only [prefixed, hws]
    have : (List.any [("surface", 1)] fun x => x.1 == "realization") = false := by decide
    rw [this, withPrefix_noreal]
  have hL' : ¬ (1 = layers) := fun h => hL h.symm
  refine ⟨?_, ?_, ?_⟩
  · have := key [([], []), ([layers, a, b], ["level", "longitudinal_mode", "total_wavenumber"])]
      [([a, b], ["lon", "lat"]), ([a, b], ["longitudinal_mode", "total_wavenumber"]), ([1, a, b], ["lon", "lat"]),
        ([1, a, b], ["surface", "longitudinal_mode", "total_wavenumber"]), ([1, a, b], ["surface", "lon", "lat"]),
        ([1], ["surface"])]
      ([layers, a, b], ["level", "lon", "lat"]) (by rw [hent]; rfl) (by simp [hL'])
    rwa [hpre] at this
  · have := key [([], []), ([layers, a, b], ["level", "longitudinal_mode", "total_wavenumber"]),
        ([layers, a, b], ["level", "lon", "lat"]), ([a, b], ["lon", "lat"])]
      [([1, a, b], ["lon", "lat"]), ([1, a, b], ["surface", "longitudinal_mode", "total_wavenumber"]),
        ([1, a, b], ["surface", "lon", "lat"]), ([1], ["surface"])]
      ([a, b], ["longitudinal_mode", "total_wavenumber"]) (by rw [hent]; rfl) (by simp)
    rwa [hpre] at this
  · have := key [([], []), ([layers, a, b], ["level", "longitudinal_mode", "total_wavenumber"]),
        ([layers, a, b], ["level", "lon", "lat"]), ([a, b], ["lon", "lat"]),
        ([a, b], ["longitudinal_mode", "total_wavenumber"]), ([1, a, b], ["lon", "lat"]),
        ([1, a, b], ["surface", "longitudinal_mode", "total_wavenumber"])]
      [([1], ["surface"])] ([1, a, b], ["surface", "lon", "lat"]) (by rw [hent]; rfl) (by simp)
    rwa [hpre] at this

/-- **known finding**: with a single layer the 3-d nodal shape `(1, lon, lat)` is the surface shape;
 for every set of additional coordinates and every `sample` / `time` / `realization` prefix the
 lookup either raises or returns names `(…, lon, lat)` — one name fewer than the array has axes, so
 `data_to_xarray` cannot build the variable -/
theorem inferDims_single_layer_collision (c : DimCfg) (hL : c.layers = 1) (hn : c.nodal.length = 2) :
    let e : List Nat × List String := (1 :: c.nodal, nodalNames)
    inferDims c (prefixed c e).1 = .error .value ∨
    (inferDims c (prefixed c e).1 = .ok (some (prefixed c e).2) ∧
      (prefixed c e).2.length + 1 = (prefixed c e).1.length) := by
  intro e
  have hws : withSurface c = c := by simp [withSurface, hL]
  by_cases hok : ∀ a ∈ (withSurface c).addl, a.1 ≠ "realization" → a.2 ≠ c.layers
  · right
    constructor
    · refine (inferDims_no_collision c).2 hok
        [([], []), (c.layers :: c.modal, "level" :: modalNames), (c.layers :: c.nodal, "level" :: nodalNames),
          (c.nodal, nodalNames), (c.modal, modalNames)] (addlTriples c.modal c.nodal c.addl) e ?_ ?_
      · rw [hws]
        show baseEntries c ++ _ = _
        simp [baseEntries, e]
      · intro e' he'
        obtain ⟨a, ha, hne, hcase⟩ := mem_addlTriples _ _ _ _ he'
        have ha1 : a.2 ≠ 1 := by
          have := hok a (by rw [hws]; exact ha) hne
          rwa [hL] at this
        rcases hcase with h | h | h
        · rw [h]; simp [e, ha1]
        · rw [h]; simp [e, ha1]
        · rw [h]; simp [e, ha1]
    · have := withPrefix_lengths (withSurface c).times (withSurface c).samples
        ((withSurface c).addl.any fun a => a.1 == "realization") e
      simp only [e, List.length_cons, nodalNames, List.length_nil, hn] at this
      simp only [prefixed, e, nodalNames]
      omega
  · left
    obtain ⟨T, hT⟩ | ⟨x, hx⟩ : (∃ T, inferDims c (prefixed c e).1 = .ok T) ∨ ∃ x, inferDims c (prefixed c e).1 = .error x := by
      cases h : inferDims c (prefixed c e).1 with
      | ok T => exact Or.inl ⟨T, rfl⟩
      | error x => exact Or.inr ⟨x, rfl⟩
    · exfalso
      apply hok
      intro a ha hne heq
      unfold inferDims at hT
      cases hS : shapeTable (withSurface c) with
      | error y => simp [hS, Except.map] at hT
      | ok T' =>
        obtain ⟨t, ht⟩ : ∃ t, basicTable (withSurface c) = .ok t := by
          unfold shapeTable at hS
          cases hb : basicTable (withSurface c) with
          | ok t => exact ⟨t, rfl⟩
          | error y => simp [hb, Except.map] at hS
        have := (basicTable_eq (withSurface c) t ht).2 a ha hne
        exact this (by simpa [hws] using heq)
    · rw [hx, ((inferDims_no_collision c).1 _ x hx).1]

end Dims

/-! ## non-vacuity: the hypotheses hold on concrete non-trivial objects -/
section Examples

/-- `{'ab': {}, 'ac': {}, '': {'a': 1, '': {}}, 'x': 2}`: two empty branches sharing a first letter,
 the empty key at two levels -/
def exDict : Dict Char Nat :=
  .cons ['a', 'b'] (.dict .nil) (.cons ['a', 'c'] (.dict .nil)
    (.cons [] (.dict (.cons ['a'] (.leaf 1) (.cons [] (.dict .nil) .nil))) (.cons ['x'] (.leaf 2) .nil)))

example : exDict.SepFree '&' ∧ exDict.NoDup := by
  simp [exDict, Dict.SepFree, Val.SepFree, Dict.NoDup, Val.NoDup, Dict.keys]

example : flatten '&' exDict
    = .ok ([(['&', 'a'], 1), (['x'], 2)], [['a', 'b'], ['a', 'c'], ['&']]) := by decide

example : unflatten '&' [(['&', 'a'], 1), (['x'], 2)] [['a', 'b'], ['a', 'c'], ['&']]
    = .ok (.cons [] (.dict (.cons ['a'] (.leaf 1) (.cons [] (.dict .nil) .nil))) (.cons ['x'] (.leaf 2)
        (.cons ['a', 'b'] (.dict .nil) (.cons ['a', 'c'] (.dict .nil) .nil)))) := by rfl

example : (Dict.cons [] (.dict (.cons ['a'] (.leaf 1) (.cons [] (.dict .nil) .nil))) (.cons ['x'] (.leaf 2)
    (.cons ['a', 'b'] (.dict .nil) (.cons ['a', 'c'] (.dict .nil) .nil))) : Dict Char Nat).pyEq exDict = true := by
  decide

/-- `replace_with_matching_or_default` returns on a non-trivial input -/
example : replace '&' exDict (.cons ['x'] (.leaf 7) .nil) 0 true
    = .ok (.cons [] (.dict (.cons ['a'] (.leaf 0) (.cons [] (.dict .nil) .nil))) (.cons ['x'] (.leaf 7)
        (.cons ['a', 'b'] (.dict .nil) (.cons ['a', 'c'] (.dict .nil) .nil)))) := by rfl

/-- three leaves with 2, 0 and 1 slices of width 2 -/
example : pack [[[1, 2], [3, 4]], [], [[5, 6]]] = .ok (some [[1, 2], [3, 4], [5, 6]]) := by decide
example : unpack [[1, 2], [3, 4], [5, 6]] [1, 9, 1] = .ok [[[1, 2]], [[3, 4], [5, 6]], []] := by decide
example : stack [[1, 2], [3, 4]] = .ok (some [[1, 2], [3, 4]]) := by decide
example : splitAxis [[[1, 2], [3, 4]], [[5], [6]]] = .ok [[[[1, 2]], [[5]]], [[[3, 4]], [[6]]]] := by decide
example : concat [[[[1, 2]], [[5]]], [[[3, 4]], [[6]]]] = .ok [[[1, 2], [3, 4]], [[5], [6]]] := by decide

/-- the hypotheses of the unconditional inverse theorems hold on non-trivial leaves: three leaves with
 2, 0 and 1 slices of width 2 (pack); two leaves of size 2 (stack); two trees of two leaves (concat);
 two leaves with 2 slices of width 2 each (split_axis) -/
example : ∃ arr, pack [[[1, 2], [3, 4]], [], [[5, 6]]] = .ok (some arr) ∧
    unpack arr [2, 0, 1] = .ok [[[1, 2], [3, 4]], [], [[5, 6]]] :=
  unpack_pack_consistent (K := Nat) _ (by simp) 2 (by simp)
example : ∃ arr, stack [[1, 2], [3, 4]] = .ok (some arr) ∧ unstack arr 2 = .ok [[1, 2], [3, 4]] :=
  unstack_stack_consistent (K := Nat) _ (by simp) 2 (by simp)
example : ∃ c, concat [[[[1, 2]], [[5, 6]]], [[[3, 4]], []]] = .ok c ∧
    splitAlong c (1 : Nat) = ([[[1, 2]], [[5, 6]]], [[[3, 4]], []]) :=
  split_concat_consistent (K := Nat) _ _ 1 (by simp) (by simp) 2 (by simp)
example : ∃ trees, splitAxis [[[1, 2], [3, 4]], [[5, 7], [6, 8]]] = .ok trees ∧
    concat trees = .ok [[[1, 2], [3, 4]], [[5, 7], [6, 8]]] :=
  concat_splitAxis_consistent (K := Nat) _ (by simp) 2 (by simp) (by simp) 2 (by simp)

/-- a proper up-sampling pair: `(M, L) = (1, 2)`, modal shape `(1, 2)` to `(2, 3)`, shape `(3, 3)` -/
example : upsampleFn (K := Int) ⟨1, 2, 1, 2⟩ ⟨2, 3, 3, 3⟩ true true [[5, 6]]
    = .ok [[5, 6, 0], [0, 0, 0], [0, 0, 0]] := by decide

/-- two layers, modal `(3, 3)`, nodal `(7, 4)`, two times: the hypotheses of `inferDims_standard` -/
example : inferDims ⟨2, [3, 3], [7, 4], [], some 2, none⟩ [2, 2, 7, 4] = .ok (some ["time", "level", "lon", "lat"]) :=
  (inferDims_standard 2 3 3 7 4 (some 2) none (by decide) (by decide)).2.1

/-- one layer: `(time, 1, lon, lat)` gets three names -/
example : inferDims ⟨1, [3, 3], [7, 4], [], some 2, none⟩ [2, 1, 7, 4] = .ok (some ["time", "lon", "lat"]) := by
  decide

end Examples

end Dino.C19
