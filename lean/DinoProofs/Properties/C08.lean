import DinoProofs.Lemmas.AD
import DinoProofs.Lemmas.ADExtra
import DinoProofs.Lemmas.ADInterp
import DinoProofs.Lemmas.SH
import DinoProofs.Lemmas.Forcing
import DinoProofs.Properties.C14
import DinoProofs.Properties.C17
import Mathlib.Analysis.Calculus.Deriv.Add
import Mathlib.Analysis.Calculus.Deriv.Mul
import Mathlib.Analysis.Calculus.Deriv.Inv
import Mathlib.Analysis.SpecialFunctions.Trigonometric.Deriv
import Mathlib.Analysis.SpecialFunctions.ExpDeriv
import Mathlib.Analysis.SpecialFunctions.Log.Deriv
import Mathlib.Analysis.SpecialFunctions.Pow.Deriv
import Mathlib.Tactic.Ring
import Mathlib.Tactic.FieldSimp
import Mathlib.Tactic.Linarith
import Mathlib.Tactic.NormNum
import Mathlib.Algebra.Order.Field.Basic

/-!
# C08 — forward- and reverse-mode derivatives are finite, mutually adjoint and correct;
checkpointing and scan nesting do not change gradients: property theorems

C08 is **partial by design** (DESIGN.md §6 C08, §8): JAX's differentiation rules (`jax.jvp`,
`jax.vjp`, `jax.checkpoint`, the transpose rules of `lax.scan`) are executed, not modelled; the
probes of `harness/props/C08.py` evaluate the property itself on the real code and are labelled
tests.  What is proved here is the structure that makes the derivatives well defined and adjoint:

* **T8.1** `synth_analysis_adjoint`: analysis is the `w`-adjoint of synthesis (so the VJP of one
  transform is the other), for every basis and all sizes; `pairing`: `⟨J v, w⟩ = ⟨v, Jᵀ w⟩` for a
  Jacobian given as a matrix; `chain_pairing`: the pairing survives any number of composed steps;
  `jvp_matMul`, `vjp_matMul`: `(J₂J₁) v = J₂ (J₁ v)` and `(J₂J₁)ᵀ w = J₁ᵀ (J₂ᵀ w)`.
* **T8.2** forward mode by evaluation at `Dual K` (`Dino.AD`): every operator that is `K`-linear
  with static coefficients equals its own derivative — the value component of the result is the
  primal result and the tangent component is the same operator applied to the tangent: the
  spherical-harmonic transforms, vertical mat-vecs and cumulative sums, the geopotential and
  temperature implicit operators, `implicit_terms`, `implicit_inverse` (a fixed matrix, because
  the step size is static: `stacked`, the default `split`, and `blockwise` strategies), the sparse
  (cumulative-sum) forms of the two vertical operators, the shallow-water implicit terms and their
  Schur inverse (on the C03 domain `1 − η²Φλ ≠ 0`), the spectral filters (static scaling),
  Robert–Asselin.
* **T8.3** the nested checkpointed scan equals the flat scan *as a function* (C14), for every
  `checkpoint_fn` that is the identity on values, hence anything computed from the function — in
  particular every derivative, and the tangents carried by dual-number states — is the same.
* **T8.4** `interp` (`jnp.interp` path): in the data, the dual evaluation returns the same
  interpolation of the tangent data (weights in `[0,1]`, summing to one: `C17.interp_convex`); in
  the query it returns `slope · ẋ` with the slope `(f_{j+1} − f_j)/(x_{j+1} − x_j)` of the cell,
  which is the exact difference quotient of `interp` on that cell, and `0` beyond the end nodes;
  the guarded denominator is non-zero on the evaluated branch.  The same two statements for
  `linear_interp_with_linear_extrap` and `_linear_interp_with_safe_extrap` (the default of
  `interp_*_to_*`): same weights for the tangent data; slope of the active cell, the end cells
  extrapolating, for the query (NaN exactly where the primal is NaN).  Derivatives with respect to
  the NODES (`interp_hybrid_to_sigma`) and of `_dot_interp` are not covered by theorems
  (correspondence and probes only).  Held–Suarez `T_eq` is the maximum
  of a smooth expression and a constant: the dual evaluation returns the tangent of the active
  branch, and that tangent *is* the derivative (`HasDerivAt`) along the tangent direction.
* **T8.5** (extension) soundness of dual-number evaluation over `ℝ`: `Tracks F t` (the tangent
  component of `F t` is the derivative of the value component at `t`) is closed under every
  arithmetic operation and external function of the model, with the side conditions that make the
  derivative finite (denominator `≠ 0`, `log` of a non-zero and `pow` of a positive argument); the
  moist pointwise kernels: tangent = symbolic derivative, linear in the tangent, denominators
  positive on the admissible set `0 ≤ q ≤ 1`, `0 < Cp_v/Cp`; `moistAdiabatic_eq_kernels` ties the
  kernels to `MoistPrimitiveEquations.nodalTemperatureAdiabaticTendency` of `Dino.Dynamics`.

`jax.checkpoint` is MODELLED as the identity (`AD.checkpoint f := f`, an assumption about JAX, not a
theorem): `checkpoint_id` only records that definition.
-/

set_option linter.unusedSectionVars false
set_option linter.unusedSimpArgs false
set_option linter.unusedVariables false

namespace Dino.C08
open Dino Dino.AD Dino.AD.Dual Dino.Lin Finset

/-! ## T8.1 adjointness -/
section adjoint
variable {K : Type} [CommRing K]
open SH

/-- **T8.1** analysis is the `w`-adjoint of synthesis: for every basis of consistent shape
 (`f : N × R`, `p : R × J × L`, `w : J`), every spectral field `x` and every nodal field `z`,
 `Σ_ij w_j (S x)_ij z_ij = Σ_rl x_rl (A z)_rl`.  Consequently the VJP of synthesis with respect to
 the quadrature-weighted pairing is analysis, and vice versa. -/
theorem synth_analysis_adjoint (b : Basis K) (N R J L : Nat) (hb : Shaped b N R J L)
    (x : List (List K)) (hx : ∀ row ∈ x, row.length ≤ L)
    (z : List (List K)) (hz : ∀ zi ∈ z, zi.length = J) (hzl : z.length ≤ N) :
    ∑ i ∈ range N, ∑ j ∈ range J, ent b.w j * ent2 (realSynth b J x) i j * ent2 z i j
      = ∑ r ∈ range R, ∑ l ∈ range L, ent2 x r l * ent2 (realAnalysis b R J L z) r l := by
  have h1 : ∀ i j, ent2 (realSynth b J x) i j
      = ∑ r ∈ range R, ent2 b.f i r * ∑ l ∈ range L, ent3 b.p r j l * ent2 x r l :=
    fun i j => ent2_realSynth b N R J L hb x hx i j
  have h2 : ∀ r ∈ range R, ∀ l, ent2 (realAnalysis b R J L z) r l
      = ∑ j ∈ range J, (∑ i ∈ range N, ent2 b.f i r * (ent b.w j * ent2 z i j)) * ent3 b.p r j l :=
    fun r hr l => ent2_realAnalysis b N R J L hb z hz hzl r l (Finset.mem_range.mp hr)
  simp only [h1]
  have hR : ∑ r ∈ range R, ∑ l ∈ range L, ent2 x r l * ent2 (realAnalysis b R J L z) r l
      = ∑ r ∈ range R, ∑ l ∈ range L, ent2 x r l
          * ∑ j ∈ range J, (∑ i ∈ range N, ent2 b.f i r * (ent b.w j * ent2 z i j)) * ent3 b.p r j l :=
    Finset.sum_congr rfl fun r hr => Finset.sum_congr rfl fun l _ => by rw [h2 r hr l]
  rw [hR]
  simp only [Finset.mul_sum, Finset.sum_mul]
  rw [Finset.sum_comm, sum4_reorder]
  apply Finset.sum_congr rfl; intro r _
  apply Finset.sum_congr rfl; intro l _
  rw [Finset.sum_comm]
  apply Finset.sum_congr rfl; intro j _
  apply Finset.sum_congr rfl; intro i _
  ring

/-- **T8.1** `⟨J v, w⟩ = ⟨v, Jᵀ w⟩` for a Jacobian with `n` inputs given as a matrix (any number
 of outputs, any vectors): the pairing of `jax.jvp` and `jax.vjp` -/
theorem jvp_vjp_pairing (J : List (List K)) (n : Nat) (hJ : ∀ row ∈ J, row.length = n)
    (v w : List K) : dotv (jvp J v) w = dotv v (vjp J n w) := pairing J n hJ v w

/-- **T8.1** the pairing is preserved through any number of composed steps: forward mode pushes
 the tangent through `J₁, J₂, …`, reverse mode pulls the cotangent back through `…, J₂ᵀ, J₁ᵀ` -/
theorem jvp_vjp_chain_pairing (Js : List (List (List K))) (n : Nat) (h : ChainOK n Js)
    (v w : List K) : dotv (jvpChain Js v) w = dotv v (vjpChain Js n w) := chain_pairing Js n h v w

/-- **T8.1** chain rule, forward: `(J₂ J₁) v = J₂ (J₁ v)` -/
theorem jvp_comp (J1 J2 : List (List K)) (n : Nat) (h1 : ∀ row ∈ J1, row.length = n)
    (h2 : ∀ row ∈ J2, row.length = J1.length) (v : List K) :
    jvp (matMul J2 J1 n) v = jvp J2 (jvp J1 v) := jvp_matMul J1 J2 n h1 h2 v

/-- **T8.1** chain rule for adjoints: `(J₂ J₁)ᵀ w = J₁ᵀ (J₂ᵀ w)` -/
theorem vjp_comp (J1 J2 : List (List K)) (n : Nat) (h1 : ∀ row ∈ J1, row.length = n) (w : List K) :
    vjp (matMul J2 J1 n) n w = vjp J1 n (vjp J2 J1.length w) := vjp_matMul J1 J2 n h1 w

/-- the transform pair as an instance of the pairing: in entries, the Jacobian of synthesis is
 `∂(S x)_ij/∂x_rl = f_ir p_rjl` and that of analysis is `∂(A z)_rl/∂z_ij = f_ir w_j p_rjl`, i.e.
 the transpose of the former times the quadrature weight -/
theorem synth_analysis_jacobians (b : Basis K) (N R J L : Nat) (hb : Shaped b N R J L)
    (x : List (List K)) (hx : ∀ row ∈ x, row.length ≤ L)
    (z : List (List K)) (hz : ∀ zi ∈ z, zi.length = J) (hzl : z.length ≤ N) (i j r l : Nat)
    (hr : r < R) :
    ent2 (realSynth b J x) i j = ∑ r ∈ range R, ∑ l ∈ range L, (ent2 b.f i r * ent3 b.p r j l) * ent2 x r l
    ∧ ent2 (realAnalysis b R J L z) r l
      = ∑ j ∈ range J, ∑ i ∈ range N, (ent2 b.f i r * ent3 b.p r j l * ent b.w j) * ent2 z i j := by
  constructor
  · rw [ent2_realSynth b N R J L hb x hx i j]
    apply Finset.sum_congr rfl; intro r _
    rw [Finset.mul_sum]
    apply Finset.sum_congr rfl; intro l _; ring
  · rw [ent2_realAnalysis b N R J L hb z hz hzl r l hr]
    apply Finset.sum_congr rfl; intro j _
    rw [Finset.sum_mul]
    apply Finset.sum_congr rfl; intro i _; ring

end adjoint

/-! ## T8.2 a linear operator with static coefficients is its own derivative -/
section linear
variable {K : Type} [CommRing K]
open SH _root_.Dino.Sigma Implicit Filters

/-- **T8.2** synthesis (`to_nodal`): value = primal, tangent = synthesis of the tangent -/
theorem realSynth_dual (b : Basis K) (n : Nat) (X : List (List (Dual K))) :
    valsM (realSynth (constB b) n X) = realSynth b n (valsM X) ∧
    tansM (realSynth (constB b) n X) = realSynth b n (tansM X) :=
  ⟨isProj_v.realSynth_const b n X, isProj_d.realSynth_const b n X⟩

/-- **T8.2** analysis (`to_modal`) -/
theorem realAnalysis_dual (b : Basis K) (R J L : Nat) (Z : List (List (Dual K))) :
    valsM (realAnalysis (constB b) R J L Z) = realAnalysis b R J L (valsM Z) ∧
    tansM (realAnalysis (constB b) R J L Z) = realAnalysis b R J L (tansM Z) :=
  ⟨isProj_v.realAnalysis_const b R J L Z, isProj_d.realAnalysis_const b R J L Z⟩

/-- **T8.2** `_vertical_matvec` with a static matrix -/
theorem matvec_dual (a : List (List K)) (X : List (Dual K)) :
    vals (matvec (constM a) X) = matvec a (vals X) ∧ tans (matvec (constM a) X) = matvec a (tans X) :=
  ⟨isProj_v.matvec_constM a X, isProj_d.matvec_constM a X⟩

/-- **T8.2** cumulative sums (both directions) -/
theorem cumsum_dual (X : List (Dual K)) :
    vals (cumsum X) = cumsum (vals X) ∧ tans (cumsum X) = cumsum (tans X) ∧
    vals (rcumsum X) = rcumsum (vals X) ∧ tans (rcumsum X) = rcumsum (tans X) :=
  ⟨isProj_v.cumsum X, isProj_d.cumsum X, isProj_v.rcumsum X, isProj_d.rcumsum X⟩

/-- **T8.2** `get_geopotential_diff` (dense) with static `R`, `α` -/
theorem geopotentialDiff_dual (R : K) (al : List K) (T : List (Dual K)) :
    vals (geopotentialDiffDense (const R) (constL al) T) = geopotentialDiffDense R al (vals T) ∧
    tans (geopotentialDiffDense (const R) (constL al) T) = geopotentialDiffDense R al (tans T) :=
  ⟨isProj_v.geopotentialDiffDense_const R al T, isProj_d.geopotentialDiffDense_const R al T⟩

/-- **T8.2** `get_temperature_implicit` (dense) with a static matrix `H` -/
theorem tempImplicit_dual (h : List (List K)) (D : List (Dual K)) :
    vals (tempImplicitDense (constM h) D) = tempImplicitDense h (vals D) ∧
    tans (tempImplicitDense (constM h) D) = tempImplicitDense h (tans D) :=
  ⟨isProj_v.tempImplicitDense_const h D, isProj_d.tempImplicitDense_const h D⟩

/-- **T8.2** `PrimitiveEquations.implicit_terms` (one column, one mode) with the dense vertical
 operators: value = primal, tangent = `implicit_terms` of the tangent state -/
theorem implicitTerms_dual (lam R : K) (ds T al : List K) (h : List (List K)) (X : Col (Dual K)) :
    mapCol Dual.v (implicitTerms (const lam) (const R) (constL ds) (constL T)
        (geopotentialDiffDense (const R) (constL al)) (tempImplicitDense (constM h)) X)
      = implicitTerms lam R ds T (geopotentialDiffDense R al) (tempImplicitDense h) (mapCol Dual.v X) ∧
    mapCol Dual.d (implicitTerms (const lam) (const R) (constL ds) (constL T)
        (geopotentialDiffDense (const R) (constL al)) (tempImplicitDense (constM h)) X)
      = implicitTerms lam R ds T (geopotentialDiffDense R al) (tempImplicitDense h) (mapCol Dual.d X) :=
  ⟨isProj_v.implicitTerms_const lam R ds T _ _ _ _ (isProj_v.geopotentialDiffDense_const R al)
      (isProj_v.tempImplicitDense_const h) X,
   isProj_d.implicitTerms_const lam R ds T _ _ _ _ (isProj_d.geopotentialDiffDense_const R al)
      (isProj_d.tempImplicitDense_const h) X⟩

/-- **T8.2** `implicit_inverse` with a static step size is the fixed linear map `minv` (the
 numerically inverted matrix is a constant of the trace): tangent = `minv` applied to the tangent -/
theorem implicitInverse_dual (minv : List (List K)) (X : Col (Dual K)) :
    mapCol Dual.v (inverseStacked (constM minv) X) = inverseStacked minv (mapCol Dual.v X) ∧
    mapCol Dual.d (inverseStacked (constM minv) X) = inverseStacked minv (mapCol Dual.d X) :=
  ⟨isProj_v.inverseStacked_const minv X, isProj_d.inverseStacked_const minv X⟩

/-- **T8.2** `implicit_inverse(method='split')` — the repository default: nine products with the
 sub-blocks of the same static inverse matrix -/
theorem implicitInverseSplit_dual (minv : List (List K)) (X : Col (Dual K)) :
    mapCol Dual.v (inverseSplit (constM minv) X) = inverseSplit minv (mapCol Dual.v X) ∧
    mapCol Dual.d (inverseSplit (constM minv) X) = inverseSplit minv (mapCol Dual.d X) :=
  ⟨isProj_v.inverseSplit_const minv X, isProj_d.inverseSplit_const minv X⟩

/-- **T8.2** `implicit_inverse(method='blockwise')` with static `η`, `λ`, implicit matrix `m` and the
 two externally inverted blocks; `gopD` / `hopNegD` are the matrix-free vertical products
 (`get_geopotential_diff`, `−get_temperature_implicit`) run at `Dual K`, each being its own
 derivative (`hg`, `hh`: true of the dense and of the sparse forms, see
 `implicitInverseBlockwise_dense_dual`, `geopotentialDiffSparse_dual`, `tempImplicitSparse_dual`) -/
theorem implicitInverseBlockwise_dual (eta lam : K) (m divInv tpInv : List (List K))
    (gop hopNeg : List K → List K) (gopD hopNegD : List (Dual K) → List (Dual K))
    (hg : ∀ X, vals (gopD X) = gop (vals X) ∧ tans (gopD X) = gop (tans X))
    (hh : ∀ X, vals (hopNegD X) = hopNeg (vals X) ∧ tans (hopNegD X) = hopNeg (tans X))
    (X : Col (Dual K)) :
    mapCol Dual.v (inverseBlockwise (const eta) (const lam) (constM m) (constM divInv)
        (constM tpInv) gopD hopNegD X)
      = inverseBlockwise eta lam m divInv tpInv gop hopNeg (mapCol Dual.v X) ∧
    mapCol Dual.d (inverseBlockwise (const eta) (const lam) (constM m) (constM divInv)
        (constM tpInv) gopD hopNegD X)
      = inverseBlockwise eta lam m divInv tpInv gop hopNeg (mapCol Dual.d X) :=
  ⟨isProj_v.inverseBlockwise_const eta lam m divInv tpInv gop hopNeg gopD hopNegD
      (fun X => (hg X).1) (fun X => (hh X).1) X,
   isProj_d.inverseBlockwise_const eta lam m divInv tpInv gop hopNeg gopD hopNegD
      (fun X => (hg X).2) (fun X => (hh X).2) X⟩

/-- **T8.2** the blockwise inverse with the dense vertical products (static `R`, `α`, `H`) -/
theorem implicitInverseBlockwise_dense_dual (eta lam R : K) (al : List K)
    (h m divInv tpInv : List (List K)) (X : Col (Dual K)) :
    mapCol Dual.v (inverseBlockwise (const eta) (const lam) (constM m) (constM divInv)
        (constM tpInv) (geopotentialDiffDense (const R) (constL al)) (matvec (constM h)) X)
      = inverseBlockwise eta lam m divInv tpInv (geopotentialDiffDense R al) (matvec h)
          (mapCol Dual.v X) ∧
    mapCol Dual.d (inverseBlockwise (const eta) (const lam) (constM m) (constM divInv)
        (constM tpInv) (geopotentialDiffDense (const R) (constL al)) (matvec (constM h)) X)
      = inverseBlockwise eta lam m divInv tpInv (geopotentialDiffDense R al) (matvec h)
          (mapCol Dual.d X) :=
  implicitInverseBlockwise_dual eta lam m divInv tpInv _ _ _ _
    (fun T => geopotentialDiff_dual R al T) (fun D => matvec_dual h D) X

/-- **T8.2** `get_geopotential_diff(method='sparse')` (reverse cumulative sum) with static `R`, `α` -/
theorem geopotentialDiffSparse_dual (R : K) (al : List K) (T : List (Dual K)) :
    vals (geopotentialDiffSparse (const R) (constL al) T) = geopotentialDiffSparse R al (vals T) ∧
    tans (geopotentialDiffSparse (const R) (constL al) T) = geopotentialDiffSparse R al (tans T) :=
  ⟨isProj_v.geopotentialDiffSparse_const R al T, isProj_d.geopotentialDiffSparse_const R al T⟩

/-- **T8.2** `PrimitiveEquations.implicit_terms` with any vertical operators that are their own
 derivatives (in particular the sparse forms) -/
theorem implicitTerms_dual_of (lam R : K) (ds T : List K) (gop hop : List K → List K)
    (gopD hopD : List (Dual K) → List (Dual K))
    (hg : ∀ X, vals (gopD X) = gop (vals X) ∧ tans (gopD X) = gop (tans X))
    (hh : ∀ X, vals (hopD X) = hop (vals X) ∧ tans (hopD X) = hop (tans X)) (X : Col (Dual K)) :
    mapCol Dual.v (implicitTerms (const lam) (const R) (constL ds) (constL T) gopD hopD X)
      = implicitTerms lam R ds T gop hop (mapCol Dual.v X) ∧
    mapCol Dual.d (implicitTerms (const lam) (const R) (constL ds) (constL T) gopD hopD X)
      = implicitTerms lam R ds T gop hop (mapCol Dual.d X) :=
  ⟨isProj_v.implicitTerms_const lam R ds T gop hop gopD hopD (fun X => (hg X).1) (fun X => (hh X).1) X,
   isProj_d.implicitTerms_const lam R ds T gop hop gopD hopD (fun X => (hg X).2) (fun X => (hh X).2) X⟩

/-- **T8.2** `_make_filter_fn(scaling)` (exponential / diffusion filter: the scaling is a static
 numpy array): tangent = filter of the tangent tree -/
theorem filterTree_dual (ss : List Nat) (s : List K) (tree : List (List Nat × List (Dual K))) :
    (filterTree ss (constL s) tree).map (mapLeaf Dual.v) = filterTree ss s (tree.map (mapLeaf Dual.v)) ∧
    (filterTree ss (constL s) tree).map (mapLeaf Dual.d) = filterTree ss s (tree.map (mapLeaf Dual.d)) :=
  ⟨isProj_v.filterTree_const ss s tree, isProj_d.filterTree_const ss s tree⟩

/-- **T8.2** Robert–Asselin filter with a static strength `r` -/
theorem robertAsselin_dual (r : K) (P C F : List (Dual K)) :
    vals (map3 (raPoint (const r)) P C F) = map3 (raPoint r) (vals P) (vals C) (vals F) ∧
    tans (map3 (raPoint (const r)) P C F) = map3 (raPoint r) (tans P) (tans C) (tans F) :=
  ⟨isProj_v.map3_raPoint r P C F, isProj_d.map3_raPoint r P C F⟩

end linear

section linearField
variable {K : Type} [Field K]
open Implicit

/-- **T8.2** shallow-water `implicit_terms` and `implicit_inverse` (Schur complement) with static
 `η`, `λ`, `Φ`: the tangent is the same map applied to the tangent.  `1 − η²Φλ` is the
 denominator of C03; nothing here divides by a differentiated quantity.  `hden` is the named guard
 of that static division (DESIGN §3): the equations also hold at `1 − η²Φλ = 0` in the model, but
 only because its totalised `x/0 = 0` makes both sides zero where JAX returns inf/nan, so the
 statement is restricted to the C03 domain. -/
theorem shallowWater_dual (eta lam phi : K) (hden : 1 - eta * eta * phi * lam ≠ 0) (D P : Dual K) :
    ((swImplicit (const lam) (const phi) D P).1.d, (swImplicit (const lam) (const phi) D P).2.d)
      = swImplicit lam phi D.d P.d ∧
    ((swInverse (const eta) (const lam) (const phi) D P).1.d,
     (swInverse (const eta) (const lam) (const phi) D P).2.d) = swInverse eta lam phi D.d P.d ∧
    ((swInverse (const eta) (const lam) (const phi) D P).1.v,
     (swInverse (const eta) (const lam) (const phi) D P).2.v) = swInverse eta lam phi D.v P.v :=
  ⟨isProj_d.swImplicit_const lam phi D P, isProj_d.swInverse_const eta lam phi D P,
   isProj_v.swInverse_const eta lam phi D P⟩


/-- **T8.2** the spectral operators that multiply by a static table along the total-wavenumber
 axis — `Grid.laplacian`, `Grid.inverse_laplacian`, `Grid.clip_wavenumbers` — with a static radius:
 the tangent is the same operator applied to the tangent (nothing divides by a differentiated
 quantity: the eigenvalues are constants of the grid).  `hr : r ≠ 0` is the named guard of the
 static divisions `l(l+1)/r²` and `1/eigenvalue` (at `r = 0` the model's `x/0 = 0` would make the
 statement hold where JAX returns inf/nan). -/
theorem spectralScaling_dual (ly : Grid.Layout) (r : K) (hr : r ≠ 0) (n : Nat)
    (X : List (List (Dual K))) :
    tansM (Grid.laplacian ly (const r) X) = Grid.laplacian ly r (tansM X) ∧
    tansM (Grid.inverseLaplacian ly (const r) X) = Grid.inverseLaplacian ly r (tansM X) ∧
    tansM (Grid.clip ly n X) = Grid.clip ly n (tansM X) ∧
    valsM (Grid.laplacian ly (const r) X) = Grid.laplacian ly r (valsM X) ∧
    valsM (Grid.inverseLaplacian ly (const r) X) = Grid.inverseLaplacian ly r (valsM X) ∧
    valsM (Grid.clip ly n X) = Grid.clip ly n (valsM X) :=
  ⟨isProj_d.laplacian_const ly r X, isProj_d.inverseLaplacian_const ly r X, isProj_d.clip_const ly n X,
   isProj_v.laplacian_const ly r X, isProj_v.inverseLaplacian_const ly r X, isProj_v.clip_const ly n X⟩

/-- **T8.2** `get_temperature_implicit(method='sparse')` (cumulative sums of `Δσ·divergence`) with a
 static matrix `H` and static thicknesses.  `nzD` / `nz` are the tests `!= 0` of the guard
 `(down_weights != 0).any()` at `Dual K` / at `K`; they agree on constants (`hnz`), the weights
 being static -/
theorem tempImplicitSparse_dual (nzD : Dual K → Bool) (nz : K → Bool)
    (hnz : ∀ v, nzD (Dual.const v) = nz v) (ds : List K) (h : List (List K)) (D : List (Dual K)) :
    vals (tempImplicitSparse nzD (constL ds) (constM h) D) = tempImplicitSparse nz ds h (vals D) ∧
    tans (tempImplicitSparse nzD (constL ds) (constM h) D) = tempImplicitSparse nz ds h (tans D) :=
  ⟨isProj_v.tempImplicitSparse_const nzD nz hnz ds h D,
   isProj_d.tempImplicitSparse_const nzD nz hnz ds h D⟩

/-- **T8.2** `implicit_terms` with the sparse vertical operators -/
theorem implicitTermsSparse_dual (nzD : Dual K → Bool) (nz : K → Bool)
    (hnz : ∀ v, nzD (Dual.const v) = nz v) (lam R : K) (ds T al : List K) (h : List (List K))
    (X : Col (Dual K)) :
    mapCol Dual.v (implicitTerms (const lam) (const R) (constL ds) (constL T)
        (_root_.Dino.Sigma.geopotentialDiffSparse (const R) (constL al))
        (tempImplicitSparse nzD (constL ds) (constM h)) X)
      = implicitTerms lam R ds T (_root_.Dino.Sigma.geopotentialDiffSparse R al)
          (tempImplicitSparse nz ds h) (mapCol Dual.v X) ∧
    mapCol Dual.d (implicitTerms (const lam) (const R) (constL ds) (constL T)
        (_root_.Dino.Sigma.geopotentialDiffSparse (const R) (constL al))
        (tempImplicitSparse nzD (constL ds) (constM h)) X)
      = implicitTerms lam R ds T (_root_.Dino.Sigma.geopotentialDiffSparse R al)
          (tempImplicitSparse nz ds h) (mapCol Dual.d X) :=
  implicitTerms_dual_of lam R ds T _ _ _ _ (fun Y => geopotentialDiffSparse_dual R al Y)
    (fun Y => tempImplicitSparse_dual nzD nz hnz ds h Y) X

end linearField

/-! ## T8.3 scan nesting and checkpointing -/
section scans
open Comb
variable {C X Y : Type}

/-- `jax.checkpoint` is MODELLED as the identity on values: this is the definition
 `AD.checkpoint f := f` recorded as a lemma — a modelling assumption about JAX (rematerialisation
 changes the schedule of the reverse pass, not any value), not a result -/
theorem checkpoint_id {α β : Type} (f : α → β) : checkpoint f = f := rfl

/-- the recursion with an explicit `checkpoint_fn` that is the identity on values is the
 recursion of `Dino.Comb` -/
theorem innerNestedScanCk_eq
    (ck : (C → List X → Except Err (C × List Y)) → (C → List X → Except Err (C × List Y)))
    (hck : ∀ g, ck g = g) (f : C → X → C × Y) :
    ∀ (ls : List Nat) (c : C) (xs : List X),
      innerNestedScanCk ck f ls c xs = innerNestedScan f ls c xs
  | [], _, _ => by simp [innerNestedScanCk, innerNestedScan]
  | [l], _, _ => by simp [innerNestedScanCk, innerNestedScan]
  | l :: l' :: ls, c, xs => by
    have ih : (fun carry sub => innerNestedScanCk ck f (l' :: ls) carry sub)
        = fun carry sub => innerNestedScan f (l' :: ls) carry sub := by
      funext carry sub
      exact innerNestedScanCk_eq ck hck f (l' :: ls) carry sub
    rw [innerNestedScanCk, innerNestedScan, hck, ih]
    generalize scanE (fun carry sub => innerNestedScan f (l' :: ls) carry sub) c
      (chunks (prod (l' :: ls)) l xs) = r
    cases r <;> rfl

/-- **T8.3** with any `checkpoint_fn` that is the identity on values (in particular
 `jax.checkpoint`), for every admissible nesting, the nested checkpointed scan returns exactly the
 final carry and the stacked outputs of the flat `lax.scan` -/
theorem nestedCheckpointScanCk_eq_scan
    (ck : (C → List X → Except Err (C × List Y)) → (C → List X → Except Err (C × List Y)))
    (hck : ∀ g, ck g = g) (f : C → X → C × Y) (init : C) (xs : List X)
    (ls : List Nat) (hne : ls ≠ []) (hpos : ∀ l ∈ ls.dropLast, 0 < l) (hx : xs.length = prod ls) :
    nestedCheckpointScanCk ck f init xs none ls = .ok (scan f init xs) := by
  have := C14.nestedCheckpointScan_eq_scan f init xs none ls hne hpos hx (by simp)
  unfold nestedCheckpointScan at this
  unfold nestedCheckpointScanCk
  rw [innerNestedScanCk_eq ck hck]
  exact this

/-- **T8.3** nested scan = flat scan *as functions* of `(init, xs)` on the domain on which the
 reshape is defined (`xs` of `prod ls` rows) -/
theorem nested_eq_flat_fun (f : C → X → C × Y) (ls : List Nat) (hne : ls ≠ [])
    (hpos : ∀ l ∈ ls.dropLast, 0 < l) :
    (fun p : C × {xs : List X // xs.length = prod ls} =>
        nestedCheckpointScanCk checkpoint f p.1 p.2.1 none ls)
      = fun p => .ok (scan f p.1 p.2.1) := by
  funext p
  exact nestedCheckpointScanCk_eq_scan checkpoint (fun _ => rfl) f p.1 p.2.1 ls hne hpos p.2.2

/-- **T8.3** hence anything computed from the function — a JVP, a VJP, a gradient, whatever the
 differentiation operator `D` is — is the same for the nested checkpointed scan and the flat scan,
 and the same for any two admissible factorisations -/
theorem nested_derivative_eq_flat {α : Type} (f : C → X → C × Y) (ls : List Nat) (hne : ls ≠ [])
    (hpos : ∀ l ∈ ls.dropLast, 0 < l)
    (D : (C × {xs : List X // xs.length = prod ls} → Except Err (C × List Y)) → α) :
    D (fun p => nestedCheckpointScanCk checkpoint f p.1 p.2.1 none ls)
      = D (fun p => .ok (scan f p.1 p.2.1)) :=
  congrArg D (nested_eq_flat_fun f ls hne hpos)

/-- **T8.3** forward mode through the scan: when carry, inputs and outputs hold dual numbers (any
 types), the tangents delivered by the nested checkpointed scan are those of the flat scan —
 whatever projection `π` reads them off -/
theorem nested_tangent_eq_flat {T : Type} (π : C × List Y → T) (f : C → X → C × Y) (init : C)
    (xs : List X) (ls ls' : List Nat) (hne : ls ≠ []) (hpos : ∀ l ∈ ls.dropLast, 0 < l)
    (hx : xs.length = prod ls) (hne' : ls' ≠ []) (hpos' : ∀ l ∈ ls'.dropLast, 0 < l)
    (hx' : xs.length = prod ls') :
    (nestedCheckpointScanCk checkpoint f init xs none ls).map π = .ok (π (scan f init xs)) ∧
    nestedCheckpointScanCk checkpoint f init xs none ls
      = nestedCheckpointScanCk checkpoint f init xs none ls' := by
  rw [nestedCheckpointScanCk_eq_scan checkpoint (fun _ => rfl) f init xs ls hne hpos hx,
    nestedCheckpointScanCk_eq_scan checkpoint (fun _ => rfl) f init xs ls' hne' hpos' hx']
  exact ⟨rfl, rfl⟩

end scans

/-! ## T8.4 interpolation -/
section interp
open Interp
variable {K : Type} [Field K] [LinearOrder K] [IsStrictOrderedRing K]

/-- **T8.4** derivative of `interp` with respect to the data: the value is the primal result and
 the tangent is the *same interpolation* (same nodes, same query, hence the same weights) applied
 to the tangent data -/
theorem interp_dual_data (eps : K) (xp : List K) (FP : List (Dual K)) (x : K) :
    (interp (const eps) (constL xp) FP (const x)).v = interp eps xp (vals FP) x ∧
    (interp (const eps) (constL xp) FP (const x)).d = interp eps xp (tans FP) x :=
  ⟨isProj_v.interp_data eps xp FP x, isProj_d.interp_data eps xp FP x⟩

/-- **T8.4** `interp` is affine in the data: inside cell `j` the value is the convex combination
 `(1 − t) f_j + t f_{j+1}` of the two neighbouring data values with the weight
 `t = (x − x_j)/(x_{j+1} − x_j) ∈ [0, 1]` (weights in `[0,1]` summing to one; `C17.interp_convex`),
 so by `interp_dual_data` the tangent is the same convex combination of the tangent data -/
theorem interp_data_weights {eps : K} {xp fp : List K} (h0 : 0 ≤ eps) (hs : Sep eps xp)
    (hl : xp.length = fp.length) (j : Nat) (hj : j + 1 < xp.length) (x : K)
    (h1 : xp[j] ≤ x) (h2 : x ≤ xp[j + 1]) :
    0 ≤ (x - xp[j]) / (xp[j + 1] - xp[j]) ∧ (x - xp[j]) / (xp[j + 1] - xp[j]) ≤ 1 ∧
    interp eps xp fp x
      = (1 - (x - xp[j]) / (xp[j + 1] - xp[j])) * fp[j]'(by omega)
        + (x - xp[j]) / (xp[j + 1] - xp[j]) * fp[j + 1]'(by omega) :=
  C17.interp_convex h0 hs hl j hj x h1 h2

/-- the derivative of `interp` with respect to the query as the dual evaluation computes it -/
def interpSlope (eps : K) (xp fp : List K) (x : K) : K :=
  if xp.getLastD 0 < x then 0
  else if x < xp.headD 0 then 0
  else if ¬ eps < Interp.absK (xp.getD (cellIdx xp x) 0 - xp.getD (cellIdx xp x - 1) 0) then 0
  else (fp.getD (cellIdx xp x) 0 - fp.getD (cellIdx xp x - 1) 0)
        / (xp.getD (cellIdx xp x) 0 - xp.getD (cellIdx xp x - 1) 0)

/-- the guard of `jnp.interp` does its job: on the branch that divides, the divisor is non-zero -/
theorem interp_guard_ne_zero {eps : K} (h0 : 0 ≤ eps) {b : K} (h : eps < Interp.absK b) : b ≠ 0 := by
  rintro rfl
  unfold Interp.absK at h
  simp at h
  exact absurd h (not_lt.mpr h0)

/-- **T8.4** derivative of `interp` with respect to the query: the value is the primal result, the
 tangent is `interpSlope · ẋ` -/
theorem interp_dual_query {eps : K} (h0 : 0 ≤ eps) (xp fp : List K) (X : Dual K) :
    (interp (const eps) (constL xp) (constL fp) X).v = interp eps xp fp X.v ∧
    (interp (const eps) (constL xp) (constL fp) X).d = interpSlope eps xp fp X.v * X.d := by
  rw [interp_dual_normal, interp_normal]
  unfold interpSlope
  simp only [constL_getD, constL_headD, constL_getLastD]
  by_cases h1 : xp.getLastD 0 < X.v
  · simp only [h1, ↓reduceIte, const_v, const_d, zero_mul, and_self]
  · simp only [h1, ↓reduceIte]
    by_cases h2 : X.v < xp.headD 0
    · simp only [h2, ↓reduceIte, const_v, const_d, zero_mul, and_self]
    · simp only [h2, ↓reduceIte]
      by_cases h3 : eps < Interp.absK (xp.getD (cellIdx xp X.v) 0 - xp.getD (cellIdx xp X.v - 1) 0)
      · have hb := interp_guard_ne_zero h0 h3
        simp only [h3, not_true_eq_false, ↓reduceIte]
        constructor
        · simp
        · simp only [add_d, const_d, mul_d, div_d, sub_d, sub_v, const_v, div_v, mul_zero, sub_zero,
            zero_add, add_zero]
          field_simp
      · simp only [h3, not_false_eq_true, ↓reduceIte, const_v, const_d, zero_mul, and_self]


/-- **T8.4** inside cell `j` (right end excluded: at a node the implementation uses the cell to
 its right) the slope is `(f_{j+1} − f_j)/(x_{j+1} − x_j)` -/
theorem interpSlope_inside {eps : K} {xp : List K} (h0 : 0 ≤ eps) (hs : Sep eps xp) (fp : List K)
    (j : Nat) (hj : j + 1 < xp.length) (x : K) (h1 : xp.getD j 0 ≤ x) (h2 : x < xp.getD (j + 1) 0) :
    interpSlope eps xp fp x
      = (fp.getD (j + 1) 0 - fp.getD j 0) / (xp.getD (j + 1) 0 - xp.getD j 0) := by
  have hi := hs.inc h0
  have hc : cellIdx xp x = j + 1 := by
    rcases cell_cases hi hj (inCell_of_mem h1 h2.le) with h | ⟨_, hx, _⟩
    · exact h
    · exact absurd hx h2.ne
  have hlast : ¬ xp.getLastD 0 < x := by
    rw [getLastD_eq_getD]
    exact not_lt.mpr (le_trans h2.le (hi.getD_le (by omega) (by omega)))
  have hhead : ¬ x < xp.headD 0 := by
    rw [headD_eq_getD]
    exact not_lt.mpr (le_trans (hi.getD_le (Nat.zero_le j) (by omega)) h1)
  have hgap := hs j hj
  have hpos := hs.gap_pos h0 hj
  have habs : Interp.absK (xp.getD (j + 1) 0 - xp.getD j 0) = xp.getD (j + 1) 0 - xp.getD j 0 := by
    unfold Interp.absK; rw [if_neg (not_lt.mpr hpos.le)]
  unfold interpSlope
  rw [if_neg hlast, if_neg hhead, hc, Nat.add_sub_cancel, habs, if_neg (not_not.mpr hgap)]

/-- **T8.4** beyond the end nodes `interp` is constant: zero slope -/
theorem interpSlope_outside (eps : K) (xp fp : List K) (x : K)
    (h : x < xp.headD 0 ∨ xp.getLastD 0 < x) : interpSlope eps xp fp x = 0 := by
  unfold interpSlope
  rcases h with h | h
  · by_cases h' : xp.getLastD 0 < x
    · rw [if_pos h']
    · rw [if_neg h', if_pos h]
  · rw [if_pos h]

/-- **T8.4** `interp` is piecewise affine in the query: on the closed cell `[x_j, x_{j+1}]` every
 difference quotient equals the slope of the cell (so that slope is the derivative in the open
 cell, the right derivative at `x_j` and the left derivative at `x_{j+1}`) -/
theorem interp_difference_quotient {eps : K} {xp fp : List K} (h0 : 0 ≤ eps) (hs : Sep eps xp)
    (hl : xp.length = fp.length) (j : Nat) (hj : j + 1 < xp.length) (x x' : K)
    (h1 : xp[j] ≤ x) (h2 : x ≤ xp[j + 1]) (h1' : xp[j] ≤ x') (h2' : x' ≤ xp[j + 1]) :
    interp eps xp fp x' - interp eps xp fp x
      = (fp[j + 1]'(by omega) - fp[j]'(by omega)) / (xp[j + 1] - xp[j]) * (x' - x) := by
  obtain ⟨_, _, e⟩ := C17.interp_convex h0 hs hl j hj x h1 h2
  obtain ⟨_, _, e'⟩ := C17.interp_convex h0 hs hl j hj x' h1' h2'
  have hgap : xp[j + 1] - xp[j] ≠ 0 := by
    have := hs.gap_pos h0 hj
    rw [List.getD_eq_getElem xp 0 hj, List.getD_eq_getElem xp 0 (by omega : j < xp.length)] at this
    exact ne_of_gt this
  rw [e, e']
  field_simp
  ring

/-- **T8.4** altogether: the tangent that forward mode attaches to `interp(x)` for a query inside
 cell `j` is the exact slope of `interp` on that cell times the tangent of the query -/
theorem interp_dual_query_inside {eps : K} {xp : List K} (h0 : 0 ≤ eps) (hs : Sep eps xp)
    (fp : List K) (j : Nat) (hj : j + 1 < xp.length) (X : Dual K) (h1 : xp.getD j 0 ≤ X.v)
    (h2 : X.v < xp.getD (j + 1) 0) :
    (interp (const eps) (constL xp) (constL fp) X).d
      = (fp.getD (j + 1) 0 - fp.getD j 0) / (xp.getD (j + 1) 0 - xp.getD j 0) * X.d := by
  rw [(interp_dual_query h0 xp fp X).2, interpSlope_inside h0 hs fp j hj X.v h1 h2]

/-- **T8.4** beyond the end nodes the tangent vanishes -/
theorem interp_dual_query_outside {eps : K} (h0 : 0 ≤ eps) (xp fp : List K) (X : Dual K)
    (h : X.v < xp.headD 0 ∨ xp.getLastD 0 < X.v) :
    (interp (const eps) (constL xp) (constL fp) X).d = 0 := by
  rw [(interp_dual_query h0 xp fp X).2, interpSlope_outside eps xp fp X.v h, zero_mul]

/-! ### `linear_interp_with_linear_extrap` and `_linear_interp_with_safe_extrap` -/

/-- **T8.4** derivative of `linear_interp_with_linear_extrap` with respect to the data: the value is
 the primal result and the tangent is the same interpolation / extrapolation (same nodes, same
 query, hence the same weights) of the tangent data -/
theorem linearExtrap_dual_data (xp : List K) (FP : List (Dual K)) (x : K) :
    (linearExtrap (constL xp) FP (const x)).v = linearExtrap xp (vals FP) x ∧
    (linearExtrap (constL xp) FP (const x)).d = linearExtrap xp (tans FP) x :=
  ⟨isProj_v.linearExtrap_data xp FP x, isProj_d.linearExtrap_data xp FP x⟩

/-- the active cell of `searchsorted(side='right')` + `clip(·, 1, n−1)` on increasing nodes: the
 first cell for every query below the first node, the last cell for every query at or above the
 last node (these two cases are the linear extrapolation), cell `j` for `x_j ≤ x < x_{j+1}` -/
theorem cellSlope_cases {xp : List K} (hi : Inc xp) (hn : 2 ≤ xp.length) (fp : List K) (x : K) :
    (x < xp.getD 0 0 → cellSlope xp fp x = slopeAt xp fp 0) ∧
    (xp.getD (xp.length - 1) 0 ≤ x → cellSlope xp fp x = slopeAt xp fp (xp.length - 2)) ∧
    (∀ j, j + 1 < xp.length → xp.getD j 0 ≤ x → x < xp.getD (j + 1) 0 →
      cellSlope xp fp x = slopeAt xp fp j) := by
  have hk := ssr_le_length xp x
  refine ⟨fun h => ?_, fun h => ?_, fun j hj h1 h2 => ?_⟩
  · have h0 : ¬ 0 < ssr xp x := by
      rw [ssr_spec hi x (by omega : 0 < xp.length)]; exact not_le.mpr h
    have hc : cellIdx xp x = 1 := by unfold cellIdx clipIdx; omega
    unfold cellSlope; rw [hc]
  · have h0 : xp.length - 1 < ssr xp x := (ssr_spec hi x (by omega)).mpr h
    have hc : cellIdx xp x = xp.length - 1 := by unfold cellIdx clipIdx; omega
    unfold cellSlope; rw [hc]
    congr 1
  · have hc : cellIdx xp x = j + 1 := by
      rcases cell_cases hi hj (x := x) ⟨Or.inr h1, Or.inr h2.le⟩ with h | ⟨_, hx, _⟩
      · exact h
      · exact absurd hx h2.ne
    unfold cellSlope; rw [hc, Nat.add_sub_cancel]

/-- **T8.4** derivative of `linear_interp_with_linear_extrap` with respect to the query, on
 increasing nodes: the value is the primal result and the tangent is the slope
 `(f_{j+1} − f_j)/(x_{j+1} − x_j)` of the active cell (see `cellSlope_cases`: the end cells serve
 every query beyond the end nodes) times the tangent of the query -/
theorem linearExtrap_dual_query {xp fp : List K} (hi : Inc xp) (hl : xp.length = fp.length)
    (hn : 2 ≤ xp.length) (X : Dual K) :
    (linearExtrap (constL xp) (constL fp) X).v = linearExtrap xp fp X.v ∧
    (linearExtrap (constL xp) (constL fp) X).d = cellSlope xp fp X.v * X.d := by
  refine ⟨linearExtrap_dual_query_v xp fp X, linearExtrap_dual_query_d xp fp X hl hn ?_⟩
  obtain ⟨hu1, hu2⟩ := cellIdx_bounds xp X.v hn
  exact ne_of_gt (sub_pos.mpr (hi.getD_lt (by omega) (by omega)))

/-- **T8.4** `linear_interp_with_linear_extrap` is piecewise affine in the query with exactly that
 slope: on any two queries that select the same cell the difference quotient is `cellSlope` -/
theorem linearExtrap_difference_quotient {xp fp : List K} (hi : Inc xp)
    (hl : xp.length = fp.length) (hn : 2 ≤ xp.length) (x x' : K)
    (hc : cellIdx xp x' = cellIdx xp x) :
    linearExtrap xp fp x' - linearExtrap xp fp x = cellSlope xp fp x * (x' - x) := by
  obtain ⟨hu1, hu2⟩ := cellIdx_bounds xp x hn
  have hne : xp.getD (cellIdx xp x) 0 - xp.getD (cellIdx xp x - 1) 0 ≠ 0 :=
    ne_of_gt (sub_pos.mpr (hi.getD_lt (by omega) (by omega)))
  rw [linearExtrap_eq_cell xp fp x hl hn, linearExtrap_eq_cell xp fp x' hl hn, hc]
  unfold cellFormula cellSlope slopeAt
  have e : cellIdx xp x - 1 + 1 = cellIdx xp x := by omega
  rw [e]
  field_simp
  ring

/-- **T8.4** derivative of `_linear_interp_with_safe_extrap(n = k)` with respect to the data: NaN
 (`none`) exactly where the primal result is NaN; elsewhere value = primal result and tangent =
 the same interpolation of the tangent data -/
theorem safeInterp_dual_data (eps : K) (k : Nat) (xp : List K) (FP : List (Dual K)) (x : K) :
    (safeInterp (const eps) k (constL xp) FP (const x)).map Dual.v
      = safeInterp eps k xp (vals FP) x ∧
    (safeInterp (const eps) k (constL xp) FP (const x)).map Dual.d
      = safeInterp eps k xp (tans FP) x :=
  ⟨isProj_v.safeInterp_data eps k xp FP x, isProj_d.safeInterp_data eps k xp FP x⟩

/-- **T8.4** derivative of `_linear_interp_with_safe_extrap(n = k)` with respect to the query, on
 separated nodes: NaN exactly where the primal result is NaN (more than `k` end-cell widths beyond
 the node range: `C17.safeInterp_eq`); elsewhere the value is the primal result and the tangent is
 the slope of the active cell of the ORIGINAL node set — the end cells extrapolating — times the
 tangent of the query (padding does not change the slope: `cellSlope_padN`) -/
theorem safeInterp_dual_query {eps : K} {xp fp : List K} (h0 : 0 ≤ eps) (hs : Sep eps xp)
    (hl : xp.length = fp.length) (hn : 2 ≤ xp.length) (k : Nat) (X : Dual K) :
    (safeInterp (const eps) k (constL xp) (constL fp) X).map Dual.v = safeInterp eps k xp fp X.v ∧
    (safeInterp (const eps) k (constL xp) (constL fp) X).map Dual.d
      = (safeInterp eps k xp fp X.v).map (fun _ => cellSlope xp fp X.v * X.d) := by
  obtain ⟨hv, hd⟩ := AD.safeInterp_dual_query h0 k xp fp X
  refine ⟨hv, ?_⟩
  rw [hd, coreSlope_padN h0 hs hl hn k X.v]

end interp

/-! ## T8.5 soundness of dual-number evaluation over `ℝ` -/
section tracks
open Forcing

/-- the tangent component of `F t` is the derivative at `t` of the value component: the curve of
 dual numbers `F` carries its own derivative -/
def Tracks (F : ℝ → Dual ℝ) (t : ℝ) : Prop := HasDerivAt (fun s => (F s).v) (F t).d t

variable {F G : ℝ → Dual ℝ} {t : ℝ}

theorem Tracks.const (c t : ℝ) : Tracks (fun _ => Dual.const c) t := hasDerivAt_const t c

/-- the independent variable -/
theorem Tracks.var (t : ℝ) : Tracks (fun s => ⟨s, 1⟩) t := hasDerivAt_id t

/-- a straight line through `a` with velocity `da`: the input of a JVP along the tangent `da` -/
theorem Tracks.line (a da t : ℝ) : Tracks (fun s => ⟨a + (s - t) * da, da⟩) t := by
  unfold Tracks
  have h := (((hasDerivAt_id t).sub_const t).mul_const da).const_add a
  simpa using h

theorem Tracks.add (hF : Tracks F t) (hG : Tracks G t) : Tracks (fun s => F s + G s) t :=
  HasDerivAt.add hF hG

theorem Tracks.sub (hF : Tracks F t) (hG : Tracks G t) : Tracks (fun s => F s - G s) t :=
  HasDerivAt.sub hF hG

theorem Tracks.neg (hF : Tracks F t) : Tracks (fun s => -F s) t := HasDerivAt.neg hF

theorem Tracks.mul (hF : Tracks F t) (hG : Tracks G t) : Tracks (fun s => F s * G s) t :=
  HasDerivAt.mul hF hG

theorem Tracks.smul (c : ℝ) (hF : Tracks F t) : Tracks (fun s => c • F s) t :=
  HasDerivAt.const_mul c hF

/-- division: finite derivative when the denominator is non-zero -/
theorem Tracks.div (hF : Tracks F t) (hG : Tracks G t) (h : (G t).v ≠ 0) :
    Tracks (fun s => F s / G s) t := by
  have := HasDerivAt.div hF hG h
  unfold Tracks
  simp only [div_v, div_d]
  rw [← sq]
  exact this

theorem Tracks.powN (hF : Tracks F t) (n : ℕ) : Tracks (fun s => powN (F s) n) t := by
  induction n with
  | zero => exact Tracks.const 1 t
  | succ n ih => exact Tracks.mul ih hF

theorem Tracks.sin (hF : Tracks F t) : Tracks (fun s => Transc.sin (F s)) t :=
  HasDerivAt.sin hF

theorem Tracks.cos (hF : Tracks F t) : Tracks (fun s => Transc.cos (F s)) t := by
  have := HasDerivAt.cos hF
  unfold Tracks
  show HasDerivAt (fun s => Real.cos (F s).v) (-(Real.sin (F t).v * (F t).d)) t
  rw [← neg_mul]
  exact this

theorem Tracks.exp (hF : Tracks F t) : Tracks (fun s => Transc.exp (F s)) t :=
  HasDerivAt.exp hF

/-- logarithm: finite derivative away from zero -/
theorem Tracks.log (hF : Tracks F t) (h : (F t).v ≠ 0) : Tracks (fun s => Transc.log (F s)) t :=
  HasDerivAt.log hF h

/-- real power (both arguments may vary): finite derivative for a positive base -/
theorem Tracks.pow (hF : Tracks F t) (hG : Tracks G t) (h : 0 < (F t).v) :
    Tracks (fun s => Transc.pow (F s) (G s)) t := by
  have := HasDerivAt.rpow hF hG h
  unfold Tracks
  show HasDerivAt (fun s => (F s).v ^ (G s).v)
    ((G t).v * (F t).v ^ ((G t).v - 1) * (F t).d + Real.log (F t).v * (F t).v ^ (G t).v * (G t).d) t
  convert this using 1
  ring

theorem maxK_v (A B : Dual ℝ) : (Forcing.maxK A B).v = Forcing.maxK A.v B.v := by
  unfold Forcing.maxK
  by_cases h : A.v < B.v
  · have h' : A < B := h
    rw [if_pos h, if_pos h']
  · have h' : ¬ A < B := h
    rw [if_neg h, if_neg h']

/-- `jnp.maximum`: the tangent of the (strictly) larger argument -/
theorem maxK_d (A B : Dual ℝ) :
    (A.v < B.v → (Forcing.maxK A B).d = B.d) ∧ (B.v < A.v → (Forcing.maxK A B).d = A.d) := by
  unfold Forcing.maxK
  constructor
  · intro h
    have h' : A < B := h
    rw [if_pos h']
  · intro h
    have h' : ¬ A < B := not_lt.mpr (le_of_lt h)
    rw [if_neg h']

theorem Tracks.maxK_right (hF : Tracks F t) (hG : Tracks G t) (h : (F t).v < (G t).v) :
    Tracks (fun s => Forcing.maxK (F s) (G s)) t := by
  unfold Tracks
  rw [(maxK_d (F t) (G t)).1 h]
  have hev : ∀ᶠ s in nhds t, (F s).v < (G s).v :=
    ContinuousAt.eventually_lt hF.continuousAt hG.continuousAt h
  refine HasDerivAt.congr_of_eventuallyEq hG ?_
  filter_upwards [hev] with s hs
  rw [maxK_v]
  unfold Forcing.maxK
  rw [if_pos hs]

theorem Tracks.maxK_left (hF : Tracks F t) (hG : Tracks G t) (h : (G t).v < (F t).v) :
    Tracks (fun s => Forcing.maxK (F s) (G s)) t := by
  unfold Tracks
  rw [(maxK_d (F t) (G t)).2 h]
  have hev : ∀ᶠ s in nhds t, (G s).v < (F s).v :=
    ContinuousAt.eventually_lt hG.continuousAt hF.continuousAt h
  refine HasDerivAt.congr_of_eventuallyEq hF ?_
  filter_upwards [hev] with s hs
  rw [maxK_v]
  unfold Forcing.maxK
  rw [if_neg (not_lt.mpr (le_of_lt hs))]

end tracks

/-! ## T8.4 Held–Suarez equilibrium temperature -/
section heldSuarez
open Forcing

/-- the parameters as constants of `Dual ℝ` -/
def constParams (P : EqParams ℝ) : EqParams (Dual ℝ) :=
  ⟨.const P.p0, .const P.kappa, .const P.minT, .const P.maxT, .const P.dTy, .const P.dThz⟩

/-- the smooth argument of the `maximum` in `equilibrium_temperature` -/
def smoothTemperature {K : Type} [Add K] [Sub K] [Mul K] [Div K] [Neg K] [Zero K] [One K]
    [Transc K] (P : EqParams K) (sigma lat ps : K) : K :=
  Transc.pow (sigma * ps / P.p0) P.kappa *
    (P.maxT - P.dTy * powN (Transc.sin lat) 2
      - P.dThz * Transc.log (sigma * ps / P.p0) * powN (Transc.cos lat) 2)

theorem equilibriumTemperature_eq {K : Type} [Add K] [Sub K] [Mul K] [Div K] [Neg K] [Zero K]
    [One K] [LT K] [DecidableLT K] [Transc K] (P : EqParams K) (sigma lat ps : K) :
    equilibriumTemperature P sigma lat ps = Forcing.maxK P.minT (smoothTemperature P sigma lat ps) := rfl

theorem powN_v (A : Dual ℝ) (n : ℕ) : (powN A n).v = powN A.v n := by
  induction n with
  | zero => rfl
  | succ n ih => simp [powN, ih]

theorem smoothTemperature_v (P : EqParams ℝ) (σ lat : ℝ) (PS : Dual ℝ) :
    (smoothTemperature (constParams P) (.const σ) (.const lat) PS).v
      = smoothTemperature P σ lat PS.v := by
  unfold smoothTemperature constParams
  simp only [mul_v, sub_v, powN_v]
  rfl

/-- **T8.4** value of the dual evaluation of `T_eq` = `T_eq` of the value -/
theorem equilibriumTemperature_dual_value (P : EqParams ℝ) (σ lat : ℝ) (PS : Dual ℝ) :
    (equilibriumTemperature (constParams P) (.const σ) (.const lat) PS).v
      = equilibriumTemperature P σ lat PS.v := by
  rw [equilibriumTemperature_eq, equilibriumTemperature_eq, maxK_v, smoothTemperature_v]
  rfl

/-- **T8.4** `T_eq = max(floor, smooth)`: the tangent is that of the active branch — the tangent
 of the smooth expression where it exceeds the floor `minT`, zero where the floor is active -/
theorem equilibriumTemperature_dual_active (P : EqParams ℝ) (σ lat : ℝ) (PS : Dual ℝ) :
    (P.minT < smoothTemperature P σ lat PS.v →
      (equilibriumTemperature (constParams P) (.const σ) (.const lat) PS).d
        = (smoothTemperature (constParams P) (.const σ) (.const lat) PS).d) ∧
    (smoothTemperature P σ lat PS.v < P.minT →
      (equilibriumTemperature (constParams P) (.const σ) (.const lat) PS).d = 0) := by
  rw [equilibriumTemperature_eq]
  have hv := smoothTemperature_v P σ lat PS
  constructor
  · intro h
    exact (maxK_d _ _).1 (by rw [hv]; exact h)
  · intro h
    exact (maxK_d _ _).2 (by rw [hv]; exact h)

/-- the smooth branch carries its derivative: for a positive pressure ratio (`p₀ ≠ 0`,
 `σ p_s / p₀ > 0`: the `log` and the real power are differentiable there) -/
theorem smoothTemperature_tracks (P : EqParams ℝ) (σ lat : ℝ) {PS : ℝ → Dual ℝ} {t : ℝ}
    (hPS : Tracks PS t) (hp0 : P.p0 ≠ 0) (hpos : 0 < σ * (PS t).v / P.p0) :
    Tracks (fun s => smoothTemperature (constParams P) (.const σ) (.const lat) (PS s)) t := by
  unfold smoothTemperature constParams
  have hq : Tracks (fun s => Dual.const σ * PS s / Dual.const P.p0) t :=
    Tracks.div (Tracks.mul (Tracks.const σ t) hPS) (Tracks.const P.p0 t) hp0
  exact Tracks.mul (Tracks.pow hq (Tracks.const P.kappa t) hpos)
    (Tracks.sub
      (Tracks.sub (Tracks.const P.maxT t)
        (Tracks.mul (Tracks.const P.dTy t) (Tracks.powN (Tracks.sin (Tracks.const lat t)) 2)))
      (Tracks.mul (Tracks.mul (Tracks.const P.dThz t) (Tracks.log hq (ne_of_gt hpos)))
        (Tracks.powN (Tracks.cos (Tracks.const lat t)) 2)))

/-- **T8.4** away from the kink (`smooth ≠ minT`) the dual evaluation of `T_eq` along any tracked
 surface-pressure curve carries the derivative of `T_eq` along that curve: forward mode is correct
 and finite on the admissible set `σ p_s / p₀ > 0` -/
theorem equilibriumTemperature_tracks (P : EqParams ℝ) (σ lat : ℝ) {PS : ℝ → Dual ℝ} {t : ℝ}
    (hPS : Tracks PS t) (hp0 : P.p0 ≠ 0) (hpos : 0 < σ * (PS t).v / P.p0)
    (hne : smoothTemperature P σ lat (PS t).v ≠ P.minT) :
    Tracks (fun s => equilibriumTemperature (constParams P) (.const σ) (.const lat) (PS s)) t := by
  have hs := smoothTemperature_tracks P σ lat hPS hp0 hpos
  have hc : Tracks (fun _ : ℝ => (constParams P).minT) t := Tracks.const P.minT t
  have hv := smoothTemperature_v P σ lat (PS t)
  simp only [equilibriumTemperature_eq]
  rcases lt_or_gt_of_ne hne with h | h
  · exact Tracks.maxK_left hc hs (by rw [hv]; exact h)
  · exact Tracks.maxK_right hc hs (by rw [hv]; exact h)

/-- **T8.4** in terms of `jax.jvp`: the tangent returned for the input `(p_s, ṗ_s)` is the
 derivative of `s ↦ T_eq(p_s + s ṗ_s)` at `s = 0` -/
theorem equilibriumTemperature_jvp (P : EqParams ℝ) (σ lat ps dps : ℝ) (hp0 : P.p0 ≠ 0)
    (hpos : 0 < σ * ps / P.p0) (hne : smoothTemperature P σ lat ps ≠ P.minT) :
    HasDerivAt (fun s => equilibriumTemperature P σ lat (ps + s * dps))
      (equilibriumTemperature (constParams P) (.const σ) (.const lat) ⟨ps, dps⟩).d 0 := by
  have hl := Tracks.line ps dps 0
  have h := equilibriumTemperature_tracks P σ lat hl hp0 (by simpa using hpos) (by simpa using hne)
  unfold Tracks at h
  simp only [equilibriumTemperature_dual_value, sub_zero, zero_mul, add_zero] at h
  exact h

end heldSuarez

/-! ## T8.5 column physics -/
section kernels
variable {K : Type} [Field K]

theorem variationKernel_v (g h : K) (T Q : Dual K) :
    (variationKernel g h T Q).v = variationKernel g h T.v Q.v := rfl

theorem humidityKernel_v (g h : K) (T Q : Dual K) :
    (humidityKernel g h T Q).v = humidityKernel g h T.v Q.v := rfl

/-- **T8.5** `T' (1 + (g−1) q)/(1 + (h−1) q)`: the dual tangent is the symbolic derivative,
 `∂/∂T' = (1+(g−1)q)/(1+(h−1)q)`, `∂/∂q = T' (g − h)/(1+(h−1)q)²`, a linear form in `(Ṫ, q̇)` -/
theorem variationKernel_d (g h : K) (T Q : Dual K) (hden : 1 + (h - 1) * Q.v ≠ 0) :
    (variationKernel g h T Q).d
      = (1 + (g - 1) * Q.v) / (1 + (h - 1) * Q.v) * T.d
        + T.v * ((g - h) / (1 + (h - 1) * Q.v) ^ 2) * Q.d := by
  simp only [variationKernel, mul_d, div_d, add_d, add_v, one_d, one_v, smul_d, smul_v, div_v,
    zero_add]
  field_simp
  ring

/-- **T8.5** `T_ref (g − h) q/(1 + (h−1) q)` with a static `T_ref`: `∂/∂q = T_ref (g − h)/(1+(h−1)q)²` -/
theorem humidityKernel_d (g h tr : K) (Q : Dual K) (hden : 1 + (h - 1) * Q.v ≠ 0) :
    (humidityKernel g h (Dual.const tr) Q).d = tr * ((g - h) / (1 + (h - 1) * Q.v) ^ 2) * Q.d := by
  simp only [humidityKernel, mul_d, div_d, add_d, add_v, one_d, one_v, smul_d, smul_v, div_v,
    zero_add, const_d, const_v, zero_mul]
  field_simp
  ring

/-- **T8.5** the guarded denominator of the moist kernels is positive on the admissible set
 (`0 ≤ q ≤ 1`, heat-capacity ratio `h > 0`), so the tangents above are finite -/
theorem kernel_denominator_pos [LinearOrder K] [IsStrictOrderedRing K] (h q : K) (hh : 0 < h)
    (hq0 : 0 ≤ q) (hq1 : q ≤ 1) : 0 < 1 + (h - 1) * q := by
  have e : 1 + (h - 1) * q = (1 - q) + h * q := by ring
  rw [e]
  rcases eq_or_lt_of_le hq0 with h0 | h0
  · rw [← h0]; simp
  · have : 0 < h * q := mul_pos hh h0
    linarith

end kernels


section column2
open Dynamics
variable {K : Type} [Field K]

/-- `_t_omega_over_sigma_sp` is `T ⊙ (V − gPart G)` -/
theorem tOmega_eq {N : Type} [Add N] [Sub N] [Neg N] [Zero N] [Mul N] [One N] [SMul K N]
    (eq : PrimitiveEquations K N N) (T G V : List N) :
    eq.tOmegaOverSigmaSp T G V = Col.mul T (Col.sub V (gPart eq.vert.ds eq.vert.alpha G)) := rfl

/-- product rule on columns of dual numbers -/
theorem col_mul_dual (A B : List (Dual K)) :
    vals (Col.mul A B) = Col.mul (vals A) (vals B) ∧
    tans (Col.mul A B) = Col.add (Col.mul (tans A) (vals B)) (Col.mul (vals A) (tans B)) := by
  unfold Col.mul Col.add vals tans
  induction A generalizing B with
  | nil => simp
  | cons a t ih => cases B with
    | nil => simp
    | cons b u =>
      obtain ⟨i1, i2⟩ := ih u
      simp [i1, i2]

/-- **T8.5** the column routine `_t_omega_over_sigma_sp(T, G, v·∇ln p_s)` of `Dino.Dynamics`
 evaluated on a column of dual numbers: the value is the primal column, and the tangent is the
 bilinear rule `F(Ṫ, G, V) + F(T, Ġ, V̇)` — linear in the tangent, no division by a differentiated
 quantity (the only divisors are the static layer thicknesses) -/
theorem tOmegaOverSigmaSp_dual (vert : Vert K) (phys : Phys K) (tref : List K)
    (T G V : List (Dual K)) :
    vals ((pointEq vert phys tref : PrimitiveEquations K (Dual K) (Dual K)).tOmegaOverSigmaSp T G V)
      = (pointEq vert phys tref : PrimitiveEquations K K K).tOmegaOverSigmaSp (vals T) (vals G) (vals V) ∧
    tans ((pointEq vert phys tref : PrimitiveEquations K (Dual K) (Dual K)).tOmegaOverSigmaSp T G V)
      = Col.add
          ((pointEq vert phys tref : PrimitiveEquations K K K).tOmegaOverSigmaSp (tans T) (vals G) (vals V))
          ((pointEq vert phys tref : PrimitiveEquations K K K).tOmegaOverSigmaSp (vals T) (tans G) (tans V)) := by
  simp only [tOmega_eq]
  obtain ⟨h1, h2⟩ := col_mul_dual T (Col.sub V (gPart (pointEq vert phys tref :
    PrimitiveEquations K (Dual K) (Dual K)).vert.ds (pointEq vert phys tref :
    PrimitiveEquations K (Dual K) (Dual K)).vert.alpha G))
  have ev : vals (Col.sub V (gPart vert.ds vert.alpha G))
      = Col.sub (vals V) (gPart vert.ds vert.alpha (vals G)) := by
    unfold vals; rw [isProj_v.col_sub, isProj_v.gPart]
  have ed : tans (Col.sub V (gPart vert.ds vert.alpha G))
      = Col.sub (tans V) (gPart vert.ds vert.alpha (tans G)) := by
    unfold tans; rw [isProj_d.col_sub, isProj_d.gPart]
  constructor
  · rw [h1]; exact congrArg _ ev
  · rw [h2]
    show Col.add (Col.mul (tans T) (vals (Col.sub V (gPart vert.ds vert.alpha G))))
        (Col.mul (vals T) (tans (Col.sub V (gPart vert.ds vert.alpha G)))) = _
    rw [ev, ed]
    rfl

end column2

/-! ## T8.5 the kernels ARE the pointwise bodies of the Dynamics model -/
section moistKernels
open Dynamics
variable {K M N : Type}
  [Add K] [Sub K] [Mul K] [Div K] [Neg K] [Zero K] [One K]
  [Add M] [Sub M] [Neg M] [Zero M] [SMul K M]
  [Add N] [Sub N] [Neg N] [Zero N] [Mul N] [One N] [SMul K N] [Div N]

/-- **T8.5** the link between the kernel theorems and the model of the code:
 `MoistPrimitiveEquations.nodalTemperatureAdiabaticTendency` of `Dino.Dynamics` (the function the
 correspondence `ad adiabatic moist` runs) is built pointwise from `AD.variationKernel` and
 `AD.humidityKernel` with `g = R_v/R`, `h = Cp_v/(R/κ)`: the temperature field handed to the second
 `_t_omega_over_sigma_sp` is `zipWith variationKernel T' q + zipWith humidityKernel T_ref q`.
 For every scalar / field type (in particular `N = Dual K`), so every theorem about the two
 kernels (`variationKernel_d`, `humidityKernel_d`, `*_tracks`, `kernel_denominator_pos`) is about
 the Dynamics definition; editing the lambdas of `Dynamics.lean` breaks this theorem. -/
theorem moistAdiabatic_eq_kernels (eq : PrimitiveEquations K M N) (aux : Diag N) :
    MoistPrimitiveEquations.nodalTemperatureAdiabaticTendency eq aux
      = (MoistPrimitiveEquations.getSpecificHumidity aux.tracers).map fun q =>
          Col.smul eq.phys.kappa (Col.add
            (eq.tOmegaOverSigmaSp eq.tRef aux.uDotGradLogSp aux.uDotGradLogSp)
            (eq.tOmegaOverSigmaSp
              (Col.add
                (List.zipWith (variationKernel (eq.phys.Rvapor / eq.phys.R)
                  (eq.phys.CpVapor / (eq.phys.R / eq.phys.kappa))) aux.temperatureVariation q)
                (List.zipWith (humidityKernel (eq.phys.Rvapor / eq.phys.R)
                  (eq.phys.CpVapor / (eq.phys.R / eq.phys.kappa))) eq.tRef q))
              (Col.add aux.uDotGradLogSp aux.divergence) aux.uDotGradLogSp)) := by
  unfold MoistPrimitiveEquations.nodalTemperatureAdiabaticTendency
  cases MoistPrimitiveEquations.getSpecificHumidity aux.tracers <;> rfl

end moistKernels

/-! ## T8.5 the moist kernels carry their derivatives -/
section kernelTracks
variable {T Q : ℝ → Dual ℝ} {t : ℝ}

/-- **T8.5** along any tracked curves `T'(s)`, `q(s)` the dual evaluation of the kernel
 `T' (1 + (g−1) q)/(1 + (h−1) q)` carries its derivative, provided the denominator does not vanish
 (which `kernel_denominator_pos` guarantees on the admissible set) -/
theorem variationKernel_tracks (g h : ℝ) (hT : Tracks T t) (hQ : Tracks Q t)
    (hden : 1 + (h - 1) * (Q t).v ≠ 0) :
    Tracks (fun s => variationKernel g h (T s) (Q s)) t := by
  unfold variationKernel
  exact Tracks.mul hT (Tracks.div (Tracks.add (Tracks.const 1 t) (Tracks.smul (g - 1) hQ))
    (Tracks.add (Tracks.const 1 t) (Tracks.smul (h - 1) hQ)) hden)

theorem humidityKernel_tracks (g h : ℝ) (hT : Tracks T t) (hQ : Tracks Q t)
    (hden : 1 + (h - 1) * (Q t).v ≠ 0) :
    Tracks (fun s => humidityKernel g h (T s) (Q s)) t := by
  unfold humidityKernel
  exact Tracks.mul hT (Tracks.div (Tracks.smul (g - h) hQ)
    (Tracks.add (Tracks.const 1 t) (Tracks.smul (h - 1) hQ)) hden)

end kernelTracks

/-! ## non-vacuity: the hypotheses hold on concrete non-trivial objects -/
section examples
open SH

/-- a 2 × 2 × 2 × 2 basis with non-orthogonal tables and uneven weights -/
def exB : Basis ℚ := ⟨[[1, 1], [1, -1]], [[[1, 2], [1, -1]], [[1, 0], [3, 1]]], [1 / 3, 2 / 3]⟩

theorem exB_shaped : Shaped exB 2 2 2 2 :=
  ⟨rfl, rfl, by decide, by decide, rfl⟩

/-- T8.1 on a concrete basis: the transforms are non-trivial and both sides of the adjoint identity
 (written with the list operations) are the same non-zero number -/
example : realSynth exB 2 [[1, 2], [3, 4]] = [[8, 12], [2, -14]] ∧
    realAnalysis exB 2 2 2 [[1, 0], [2, 5]] = [[13 / 3, -4 / 3], [-31 / 3, -10 / 3]] ∧
    (List.zipWith dotv (weight exB.w (realSynth exB 2 [[1, 2], [3, 4]])) [[1, 0], [2, 5]]).sum
      = -128 / 3 ∧
    (List.zipWith dotv [[1, 2], [3, 4]] (realAnalysis exB 2 2 2 [[1, 0], [2, 5]])).sum = -128 / 3 := by
  refine ⟨?_, ?_, ?_, ?_⟩ <;> decide +kernel

example : ∑ i ∈ range 2, ∑ j ∈ range 2, ent exB.w j * ent2 (realSynth exB 2 [[1, 2], [3, 4]]) i j
        * ent2 [[1, 0], [2, 5]] i j
    = ∑ r ∈ range 2, ∑ l ∈ range 2, ent2 [[1, 2], [3, 4]] r l
        * ent2 (realAnalysis exB 2 2 2 [[1, 0], [2, 5]]) r l :=
  synth_analysis_adjoint exB 2 2 2 2 exB_shaped _ (by decide) _ (by decide) (by decide)

/-- T8.1 pairing on a 3 × 2 Jacobian and a chain of two steps (2 → 3 → 2) -/
def exJ1 : List (List ℚ) := [[1, 2], [3, 4], [5, 6]]
def exJ2 : List (List ℚ) := [[1, 0, 1], [0, 1, 1]]

example : dotv (jvp exJ1 [1, 1]) [2, 3, 1] = 38 ∧ dotv [1, 1] (vjp exJ1 2 [2, 3, 1]) = 38 := by
  constructor <;> decide +kernel

example : ChainOK 2 [exJ1, exJ2] := ⟨by decide, by decide, trivial⟩

example : dotv (jvpChain [exJ1, exJ2] [1, 1]) [2, 3] = dotv [1, 1] (vjpChain [exJ1, exJ2] 2 [2, 3]) :=
  jvp_vjp_chain_pairing [exJ1, exJ2] 2 ⟨by decide, by decide, trivial⟩ _ _

example : dotv (jvpChain [exJ1, exJ2] [1, 1]) [2, 3] = 82 := by decide +kernel

/-- T8.2: forward mode through a static matrix returns the matrix applied to the tangent -/
example : tans (Sigma.matvec (constM [[1, 2], [3, 4]]) [⟨5, 1⟩, ⟨7, -1⟩]) = ([-1, -1] : List ℚ) := by
  decide +kernel

/-- a *non*-linear operation is not its own derivative (the statement T8.2 is not vacuous):
 squaring `x = 3` with tangent `1` gives tangent `6`, not `1² = 1` -/
example : ((⟨3, 1⟩ : Dual ℚ) * ⟨3, 1⟩).d = 6 := by decide +kernel

/-- T8.3: two admissible factorisations of a scan of length 6 over dual numbers -/
example : ([2, 3] : List Nat) ≠ [] ∧ (∀ l ∈ ([2, 3] : List Nat).dropLast, 0 < l) ∧
    ([1, 2, 3, 4, 5, 6] : List ℚ).length = Comb.prod [2, 3] ∧
    ([1, 2, 3, 4, 5, 6] : List ℚ).length = Comb.prod [3, 2] := by decide

/-- a running product (nonlinear body) scanned over dual numbers: nested = flat, tangents included -/
example :
    nestedCheckpointScanCk checkpoint (fun (c : Dual ℚ) (x : Dual ℚ) => (c * x, c + x)) ⟨1, 1⟩
        [⟨1, 0⟩, ⟨2, 0⟩, ⟨3, 1⟩, ⟨4, 0⟩, ⟨5, 0⟩, ⟨6, 0⟩] none [2, 3]
      = .ok (Comb.scan (fun (c : Dual ℚ) (x : Dual ℚ) => (c * x, c + x)) ⟨1, 1⟩
        [⟨1, 0⟩, ⟨2, 0⟩, ⟨3, 1⟩, ⟨4, 0⟩, ⟨5, 0⟩, ⟨6, 0⟩]) :=
  nestedCheckpointScanCk_eq_scan checkpoint (fun _ => rfl) _ _ _ [2, 3] (by decide) (by decide) rfl

/-- T8.4: query 2 in the cell [1, 3] of the nodes [0, 1, 3] with data [1, 2, 5]: slope 3/2 -/
example : (Interp.interp (Dual.const C17.exEps) (constL [0, 1, 3]) (constL [1, 2, 5]) ⟨2, 1⟩).d
    = 3 / 2 := by
  rw [interp_dual_query_inside C17.exEps_nonneg C17.exSep [1, 2, 5] 1 (by decide) ⟨2, 1⟩
    (by norm_num) (by norm_num)]
  norm_num

/-- … and with respect to the data: tangent data [1, 0, 0] at the query 1/2 gives the weight 1/2 -/
example : (Interp.interp (Dual.const C17.exEps) (constL [0, 1, 3]) [⟨1, 1⟩, ⟨2, 0⟩, ⟨5, 0⟩]
    (Dual.const (1 / 2))).d = Interp.interp C17.exEps [0, 1, 3] [1, 0, 0] (1 / 2) :=
  (interp_dual_data C17.exEps [0, 1, 3] _ (1 / 2)).2

/-- the guard cannot be dropped: with coincident nodes the slope formula would divide by zero; the
 model (like `jnp.interp`) takes the guarded branch and returns a zero tangent -/
example : interpSlope (0 : ℚ) [1, 1] [2, 7] 1 = 0 := by decide +kernel

open Forcing in
/-- Held–Suarez: parameters, level and surface pressure for which the hypotheses of
 `equilibriumTemperature_jvp` hold (`σ p_s/p₀ = 1`, smooth branch `315 ≠ 200` active) -/
example :
    let P : EqParams ℝ := ⟨1, 2 / 7, 200, 315, 60, 10⟩
    P.p0 ≠ 0 ∧ 0 < (1 : ℝ) * 1 / P.p0 ∧ smoothTemperature P 1 0 1 ≠ P.minT := by
  refine ⟨by norm_num, by norm_num, ?_⟩
  simp [smoothTemperature, powN]

/-- T8.5: admissible humidity and heat-capacity ratio -/
example : (0 : ℚ) < 1 + (93 / 50 - 1) * (1 / 50) :=
  kernel_denominator_pos (93 / 50) (1 / 50) (by norm_num) (by norm_num) (by norm_num)

example : (variationKernel (8 / 5 : ℚ) (93 / 50) (⟨250, 1⟩ : Dual ℚ) ⟨1 / 50, 0⟩).d
    = (1 + (8 / 5 - 1) * (1 / 50)) / (1 + (93 / 50 - 1) * (1 / 50)) := by
  rw [variationKernel_d _ _ _ _ (by norm_num)]
  norm_num

/-! ### second-round additions -/

open Dynamics in
/-- T8.5 link: a two-layer column with `R = 1`, `R_v = 8/5`, `Cp_v = 4`, `κ = 2/7`, non-constant
 `T_ref`, humidity `[1/50, 1/100]`: the Dynamics function returns a value (`some`), it is the
 right-hand side of `moistAdiabatic_eq_kernels`, and a missing humidity tracer gives `none` on both
 sides -/
def exEq : PrimitiveEquations ℚ ℚ ℚ :=
  pointEq ⟨[0, 1 / 2, 1], [-2, -1 / 2]⟩ ⟨0, 0, 1, 8 / 5, 4, 2 / 7⟩ [250, 260]

open Dynamics in
example :
    MoistPrimitiveEquations.nodalTemperatureAdiabaticTendency exEq
        (pointDiag [1, 2] [3, -1] [1 / 2, 1 / 3] [(specificHumidityKey, [1 / 50, 1 / 100])])
      = some [78437 / 9828, -2013167 / 58884] ∧
    MoistPrimitiveEquations.nodalTemperatureAdiabaticTendency exEq
        (pointDiag [1, 2] [3, -1] [1 / 2, 1 / 3] []) = none := by
  constructor <;> decide +kernel

open Dynamics in
/-- … and at `N = Dual ℚ` (what the correspondence differentiates) the theorem applies verbatim -/
example (aux : Diag (Dual ℚ)) :=
  moistAdiabatic_eq_kernels (pointEq ⟨[0, 1 / 2, 1], [-2, -1 / 2]⟩ ⟨0, 0, 1, 8 / 5, 4, 2 / 7⟩
    [250, 260] : PrimitiveEquations ℚ (Dual ℚ) (Dual ℚ)) aux

/-- T8.2 `split` (the default): a 3 × 3 inverse (one layer), tangent of the solve = solve of the
 tangent `(1, 0, −1)` -/
example : mapCol Dual.d (Implicit.inverseSplit (constM [[1, 2, 3], [4, 5, 6], [7, 8, 10]])
      (⟨[⟨1, 1⟩], [⟨2, 0⟩], ⟨3, -1⟩⟩ : Implicit.Col (Dual ℚ)))
    = Implicit.inverseSplit [[1, 2, 3], [4, 5, 6], [7, 8, 10]] ⟨[1], [0], -1⟩ :=
  (implicitInverseSplit_dual _ _).2

example : (Implicit.inverseSplit ([[1, 2, 3], [4, 5, 6], [7, 8, 10]] : List (List ℚ)) ⟨[1], [0], -1⟩).d
    = [-2] := by decide +kernel

/-- T8.2 sparse: the guard test on dual numbers looks at the value; on constants it is the test at `ℚ` -/
example : ∀ v : ℚ, (fun a : Dual ℚ => decide (a.v ≠ 0)) (Dual.const v) = (fun a : ℚ => decide (a ≠ 0)) v :=
  fun _ => rfl

example : tans (Implicit.tempImplicitSparse (fun a : Dual ℚ => decide (a.v ≠ 0)) (constL [1 / 3, 2 / 3])
      (constM [[1, 2], [3, 4]]) [⟨1, 1⟩, ⟨2, -1⟩]) = ([1, 1] : List ℚ) := by
  rw [(tempImplicitSparse_dual _ (fun a : ℚ => decide (a ≠ 0)) (fun _ => rfl) _ _ _).2]
  decide +kernel

/-- the guards of `shallowWater_dual` / `spectralScaling_dual` on admissible constants
 (`η = 1/10`, `λ = −2`, `Φ = 3`; unit radius) -/
example : (1 : ℚ) - 1 / 10 * (1 / 10) * 3 * (-2) ≠ 0 ∧ (1 : ℚ) ≠ 0 := by constructor <;> norm_num

/-- T8.4 `linear_interp_with_linear_extrap`, nodes `[0, 1, 3]`, data `[1, 2, 5]`: beyond the last
 node (query 4) the tangent is the slope 3/2 of the last cell, below the first node (query −1) the
 slope 1 of the first cell — where `interp` has tangent 0 (`interp_dual_query_outside`) -/
example : (Interp.linearExtrap (constL [0, 1, 3]) (constL [1, 2, 5]) (⟨4, 1⟩ : Dual ℚ)).d = 3 / 2 ∧
    (Interp.linearExtrap (constL [0, 1, 3]) (constL [1, 2, 5]) (⟨-1, 1⟩ : Dual ℚ)).d = 1 := by
  have hi : Interp.Inc ([0, 1, 3] : List ℚ) := C17.exSep.inc C17.exEps_nonneg
  rw [(linearExtrap_dual_query hi (fp := [1, 2, 5]) rfl (by decide) ⟨4, 1⟩).2,
    (linearExtrap_dual_query hi (fp := [1, 2, 5]) rfl (by decide) ⟨-1, 1⟩).2]
  constructor <;> decide +kernel

/-- T8.4 `_linear_interp_with_safe_extrap(n = 1)` on the same nodes: one end-cell width beyond the
 last node (up to 5) the result is a number with the tangent of the last cell; beyond (query 6) the
 primal and the dual evaluation are both NaN -/
example :
    (Interp.safeInterp (Dual.const C17.exEps) 1 (constL [0, 1, 3]) (constL [1, 2, 5]) (⟨4, 1⟩ : Dual ℚ)).map
        Dual.d = some (3 / 2) ∧
    (Interp.safeInterp (Dual.const C17.exEps) 1 (constL [0, 1, 3]) (constL [1, 2, 5]) (⟨6, 1⟩ : Dual ℚ)).map
        Dual.d = none := by
  rw [(safeInterp_dual_query C17.exEps_nonneg C17.exSep (fp := [1, 2, 5]) rfl (by decide) 1 ⟨4, 1⟩).2,
    (safeInterp_dual_query C17.exEps_nonneg C17.exSep (fp := [1, 2, 5]) rfl (by decide) 1 ⟨6, 1⟩).2]
  constructor <;> decide +kernel

end examples

end Dino.C08
