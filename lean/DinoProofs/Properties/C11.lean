import DinoProofs.Lemmas.Invariants
import DinoProofs.Lemmas.InvariantsDyn
import DinoProofs.Properties.C15
import DinoGen.Tableaux
import Mathlib.Tactic.NormNum
import Mathlib.Data.Rat.Cast.CharZero
import Mathlib.Algebra.Algebra.Basic
import Mathlib.Algebra.Module.LinearMap.Defs

/-!
# C11 — structural invariants survive any number of steps

Model: `Dino.Dynamics` (the primitive-equation classes over an abstract horizontal record
`HOps`), `Dino.Imex` (the integrators), `Dino.Filters`, `Dino.Invariants` (clock advances, the
shallow-water equation set, histories).  Tie: `harness/props/C11.py`.

* **T11.1** the explicit terms of every class land in the structural submodule `S` (masked, top
  total wavenumber clipped), whatever the state; `(ζ, δ)` tendencies of the dry class have zero
  `(0,0)` coefficient; implicit terms and the implicit inverse map `S → S`, the implicit
  `(ζ, δ)` tendencies have zero `(0,0)` coefficient, the inverse passes `ζ`, tracers and the clock
  through.
* **T11.2** every integrator of `Dino.Imex` maps `S → S` and adds `(dt·adv) • c` to every
  observable whose explicit tendency is `c`, implicit tendency `0` and which the inverse passes
  through; hence the invariant after ANY history of filtered steps (`List.foldl`).
* **T11.3** the clock: `adv = 1` for Euler, CN-RK2, RK3 and SIL3 (certificates on the regenerated
  tables), within `1e-12` of one for the 13-digit RK4 table; filters leave scalar leaves alone.
* **T11.4** a uniform tracer has zero tendency given `roundtrip` and `div(uv) = δ`.
-/
set_option linter.unusedSectionVars false

namespace Dino.C11
open Dino Dino.Dynamics Dino.Imex Dino.Invariants

/-! ## T11.1 the terms of the primitive equations -/
section T111
variable {K M N : Type} [Field K] [AddCommGroup M] [Module K M]
  [Add N] [Sub N] [Neg N] [Zero N] [Mul N] [One N] [SMul K N]
variable {Mk S Z : Submodule K M} (eq : PrimitiveEquations K M N)

/-- the masked (pre-clip) form of the dry explicit tendencies, for every state -/
theorem explicit_preclip_mem [BEq K] (H : OpsClosed eq.ops Mk S) (ho : eq.orography ∈ Mk)
    (s : State M) : StateAll (· ∈ S) (eq.explicitTerms s) := by
  unfold PrimitiveEquations.explicitTerms
  apply clipState_mem eq H
  have hcd := curlAndDiv_mem eq H (computeDiagnosticState eq.ops eq.vert s)
    (Col.smul eq.phys.R (computeDiagnosticState eq.ops eq.vert s).temperatureVariation)
  have hth := thermo_mem eq H (computeDiagnosticState eq.ops eq.vert s)
    (eq.nodalTemperatureAdiabaticTendency (computeDiagnosticState eq.ops eq.vert s))
  exact ⟨hcd.1,
    col_addLevel_mem Mk (col_add_mem Mk hcd.2 (kineticEnergy_mem eq H _)) (orography_mem eq H ho),
    hth.1, hth.2.1, hth.2.2⟩

/-- **T11.1 (dry class)** for EVERY state the explicit tendencies lie in `S`: zero outside the
 modal mask and at the clipped top total wavenumber -/
theorem explicitTerms_mem [BEq K] (H : OpsClosed eq.ops Mk S) (ho : eq.orography ∈ Mk)
    (s : State M) : StateAll (· ∈ S) (eq.explicitTerms s) :=
  explicit_preclip_mem eq H ho s

/-- **T11.1 (dry class)** the vorticity and divergence tendencies have zero `(0,0)` coefficient
 (zero global mean: Stokes / Gauss), for every state and any orography -/
theorem explicitTerms_mean0 [BEq K] (H : Mean0 eq.ops Z) (s : State M) :
    AllP (· ∈ Z) (eq.explicitTerms s).vorticity ∧ AllP (· ∈ Z) (eq.explicitTerms s).divergence := by
  unfold PrimitiveEquations.explicitTerms PrimitiveEquations.clipState
  have hcd := curlAndDiv_mean0 eq H (computeDiagnosticState eq.ops eq.vert s)
    (Col.smul eq.phys.R (computeDiagnosticState eq.ops eq.vert s).temperatureVariation)
  exact ⟨clip_allP_mean0 eq H hcd.1,
    clip_allP_mean0 eq H (col_addLevel_mem Z (col_add_mem Z hcd.2 (kineticEnergy_mean0 eq H _))
      (orography_mean0 eq H))⟩

/-- **T11.1 / T11.3 (`PrimitiveEquationsWithTime`)** same tendencies, clock tendency one -/
theorem explicitTermsWithTime_mem [BEq K] (H : OpsClosed eq.ops Mk S) (ho : eq.orography ∈ Mk)
    (s : StateWithTime K M) :
    StateAll (· ∈ S) (PrimitiveEquationsWithTime.explicitTerms eq s).state ∧
    (PrimitiveEquationsWithTime.explicitTerms eq s).simTime = 1 :=
  ⟨explicitTerms_mem eq H ho s.state, rfl⟩

/-- **T11.1 (implicit terms)** map `S → S` -/
theorem implicitTerms_mem (H : OpsClosed eq.ops Mk S) {s : State M} (hs : StateAll (· ∈ S) s) :
    StateAll (· ∈ S) (eq.implicitTerms s) := by
  obtain ⟨_, h2, h3, h4, _⟩ := hs
  unfold PrimitiveEquations.implicitTerms
  refine ⟨col_zerosLike_mem S _, ?_, ?_, ?_, ?_⟩
  · refine allP_map _ (col_add_mem S (col_matvec_mem S _ h3) ?_) fun x hx =>
      S.neg_mem (H.laplacian_S x hx)
    exact allP_map_of _ _ fun t => S.smul_mem _ h4
  · exact col_matvec_mem S _ h2
  · exact S.neg_mem (col_sigmaIntegral_mem S _ h2)
  · exact tracersAll_map _ _ fun x => col_zerosLike_mem S x

/-- **T11.1 (implicit terms)** the implicit `(ζ, δ)` tendencies have zero `(0,0)` coefficient,
 for every state; the implicit clock tendency is zero -/
theorem implicitTerms_mean0 (H : Mean0 eq.ops Z) (s : State M) :
    AllP (· ∈ Z) (eq.implicitTerms s).vorticity ∧ AllP (· ∈ Z) (eq.implicitTerms s).divergence := by
  unfold PrimitiveEquations.implicitTerms
  exact ⟨col_zerosLike_mem Z _, allP_map_of _ _ fun _ => Z.neg_mem (H.laplacian_mem _)⟩

theorem implicitTermsWithTime_simTime (s : StateWithTime K M) :
    (PrimitiveEquationsWithTime.implicitTerms eq s).simTime = 0 := rfl

theorem matvecPerWavenumber_mem (H : OpsClosed eq.ops Mk S) (a : Nat → List (List K)) (rows : Nat)
    {x : List M} (hx : AllP (· ∈ S) x) : AllP (· ∈ S) (eq.matvecPerWavenumber a rows x) := by
  unfold PrimitiveEquations.matvecPerWavenumber
  apply foldl_col_add_mem S _ (col_zeros_mem S rows)
  intro l hl
  obtain ⟨i, _, rfl⟩ := List.mem_map.1 hl
  exact col_matvec_mem S _ (allP_map _ hx fun y hy => H.lproj_S i y hy)

/-- **T11.1 (implicit inverse)** maps `S → S` for every supplied matrix inverse (it acts per
 total wavenumber); vorticity, tracers and the clock pass through unchanged -/
theorem implicitInverse_mem (H : OpsClosed eq.ops Mk S) (inv : Nat → List (List K)) {s : State M}
    (hs : StateAll (· ∈ S) s) : StateAll (· ∈ S) (eq.implicitInverse inv s) := by
  obtain ⟨h1, h2, h3, h4, h5⟩ := hs
  have hp : AllP (· ∈ S) [s.logSurfacePressure] := by
    intro x hx; rw [List.mem_singleton.1 hx]; exact h4
  have mv := fun a rows (x : List M) (hx : AllP (· ∈ S) x) =>
    matvecPerWavenumber_mem eq H a rows hx
  unfold PrimitiveEquations.implicitInverse
  refine ⟨h1, ?_, ?_, ?_, h5⟩
  · exact col_add_mem S (col_add_mem S (mv _ _ _ h2) (mv _ _ _ h3)) (mv _ _ _ hp)
  · exact col_add_mem S (col_add_mem S (mv _ _ _ h2) (mv _ _ _ h3)) (mv _ _ _ hp)
  · exact headD_mem S (col_add_mem S (col_add_mem S (mv _ _ _ h2) (mv _ _ _ h3)) (mv _ _ _ hp))

theorem implicitInverse_passes (inv : Nat → List (List K)) (s : StateWithTime K M) :
    (PrimitiveEquationsWithTime.implicitInverse eq inv s).state.vorticity = s.state.vorticity ∧
    (PrimitiveEquationsWithTime.implicitInverse eq inv s).state.tracers = s.state.tracers ∧
    (PrimitiveEquationsWithTime.implicitInverse eq inv s).simTime = s.simTime :=
  ⟨rfl, rfl, rfl⟩

end T111

/-! ### the moist classes (`MoistPrimitiveEquations`, `…WithCloudMoisture`) -/
section T111moist
variable {K M N : Type} [Field K] [AddCommGroup M] [Module K M]
  [Add N] [Sub N] [Neg N] [Zero N] [Mul N] [One N] [SMul K N] [Div N]
variable {Mk S Z : Submodule K M} (eq : PrimitiveEquations K M N)

theorem moist_curlAndDiv_mem (H : OpsClosed eq.ops Mk S)
    (vt : Diag N → List N → Option (List N)) (aux : Diag N) (cd : List M × List M)
    (h : MoistPrimitiveEquations.curlAndDivTendencies eq vt aux = some cd) :
    AllP (· ∈ Mk) cd.1 ∧ AllP (· ∈ Mk) cd.2 := by
  simp only [MoistPrimitiveEquations.curlAndDivTendencies, bind, Option.bind_eq_some_iff, pure,
    Option.some.injEq] at h
  obtain ⟨q, _, rTv, _, rfl⟩ := h
  exact curlAndDiv_mem eq H aux rTv

theorem moist_vorticityHumidity_mem (H : OpsClosed eq.ops Mk S) (s : State M) (aux : Diag N)
    (r : List M) (h : MoistPrimitiveEquations.vorticityTendencyDueToHumidity eq s aux = some r) :
    AllP (· ∈ Mk) r := by
  simp only [MoistPrimitiveEquations.vorticityTendencyDueToHumidity, bind, Option.bind_eq_some_iff,
    pure, Option.some.injEq] at h
  obtain ⟨q, _, rfl⟩ := h
  exact allP_map_of _ _ H.toModal_mem

theorem moist_divergenceHumidity_mem (H : OpsClosed eq.ops Mk S) (s : State M) (aux : Diag N)
    (r : List M) (h : MoistPrimitiveEquations.divergenceTendencyDueToHumidity eq s aux = some r) :
    AllP (· ∈ Mk) r := by
  simp only [MoistPrimitiveEquations.divergenceTendencyDueToHumidity, bind,
    Option.bind_eq_some_iff, pure, Option.some.injEq] at h
  obtain ⟨q, _, qm, _, rfl⟩ := h
  exact allP_zipWith_of _ _ _ fun _ _ =>
    Mk.sub_mem (Mk.neg_mem (H.laplacian_mem _ (H.toModal_mem _))) (H.toModal_mem _)

/-- **T11.1 (moist classes)** -/
theorem moist_explicitTerms_mem [BEq K] (H : OpsClosed eq.ops Mk S) (ho : eq.orography ∈ Mk)
    (vt : Diag N → List N → Option (List N)) (s r : StateWithTime K M)
    (h : MoistPrimitiveEquations.explicitTermsWith eq vt s = some r) :
    StateAll (· ∈ S) r.state ∧ r.simTime = 1 := by
  simp only [MoistPrimitiveEquations.explicitTermsWith, bind, Option.bind_eq_some_iff, pure,
    Option.some.injEq] at h
  obtain ⟨cd, hcd, hv, hhv, hd, hhd, ad, _, rfl⟩ := h
  refine ⟨?_, rfl⟩
  apply clipState_mem eq H
  have h1 := moist_curlAndDiv_mem eq H vt _ cd hcd
  have h2 := moist_vorticityHumidity_mem eq H _ _ hv hhv
  have h3 := moist_divergenceHumidity_mem eq H _ _ hd hhd
  have hth := thermo_mem eq H (computeDiagnosticState eq.ops eq.vert s.state) ad
  exact ⟨col_add_mem Mk h1.1 h2,
    col_add_mem Mk (col_addLevel_mem Mk (col_add_mem Mk h1.2 (kineticEnergy_mem eq H _))
      (orography_mem eq H ho)) h3,
    hth.1, hth.2.1, hth.2.2⟩
end T111moist


/-! ## T11.2 every integrator, every history -/
section T112
variable {K V W : Type} [Field K] [AddCommGroup W] [Module K W] [Add V] [Zero V] [SMul K V]
variable {fr : Frame K V W} {c : W} {e : ImEx K V}

/-- **T11.2 (every one-state integrator)** if on the proper states `P` the explicit terms land in
 `S` with observable `c`, the implicit terms land in `S` with observable `0` and `G_inv` maps
 `P → P` passing the observable through, then one step of `backward_forward_euler`,
 `crank_nicolson_rk2`, any `low_storage_runge_kutta_crank_nicolson` and any `imex_runge_kutta`
 maps `P → P` and adds `(dt · adv) • c` to the observable -/
theorem every_scheme_step (R : Respects fr c e) (h2 : (1 + 1 : K) ≠ 0) (sch : Scheme K) (dt : K)
    (step : V → V) (hs : sch.step e dt = some step) {a : W} {τ : K} {u : V}
    (hu : At fr c a τ u) : At fr c a (τ + dt * sch.adv) (step u) :=
  R.scheme_at h2 sch dt step hs hu

/-- **T11.2 (leapfrog)** `semi_implicit_leapfrog` maps a pair `(previous, current)` whose clocks
 are `dt` apart to such a pair, one `dt` later, for every `α` -/
theorem leapfrog_step (R : Respects fr c e) (dt α : K) {a : W} {τ : K} {u : V × V}
    (hu : AtPair fr c a dt τ u) : AtPair fr c a dt (τ + dt) (leapfrog e dt α u) :=
  R.leapfrog_atPair dt α hu

/-- **all histories (one-state integrators)**: after ANY list of steps — each with its own scheme,
 step size and list of state filters, applied by `step_with_filters` — the state is proper and
 its observable has advanced by `Σ dtᵢ·advᵢ` times `c` -/
theorem inv_after_any_history (R : Respects fr c e) (h2 : (1 + 1 : K) ≠ 0) :
    ∀ (hist : List (Entry K V)), (∀ en ∈ hist, ∀ g ∈ en.filters, FilterOk fr g) →
      ∀ {a : W} {τ : K} {u u' : V}, At fr c a τ u → runHistory e hist u = some u' →
      At fr c a (τ + historyAdv hist) u' := by
  intro hist
  induction hist with
  | nil =>
    intro _ a τ u u' hu h
    simp only [runHistory, Option.some.injEq] at h
    subst h
    simpa [historyAdv] using hu
  | cons en rest ih =>
    intro hf a τ u u' hu h
    simp only [runHistory] at h
    split at h
    · cases h
    · rename_i f hfs
      have hstep : StepOk (fun τ x => At fr c a τ x) (en.dt * en.sch.adv) f
          (en.filters.map Filters.rkStepFilter) := by
        refine ⟨fun τ u hu => R.scheme_at h2 en.sch en.dt f hfs hu, ?_⟩
        intro g hg τ u uNext _ hn
        obtain ⟨g0, hg0, rfl⟩ := List.mem_map.1 hg
        exact (hf en List.mem_cons_self g0 hg0).at hn
      have h1 := stepWithFilters_inv _ _ _ _ hstep τ u hu
      have := ih (fun en' hen' => hf en' (List.mem_cons_of_mem _ hen')) h1 h
      simpa [historyAdv, add_assoc] using this

/-- **all histories (leapfrog)**: `k` leapfrog steps, each followed by any list of
 `leapfrog_step_filter`s and Robert–Asselin filters -/
theorem leapfrog_inv_after_k_steps (R : Respects fr c e) (dt α : K) (filters : List (LfFilter K V))
    (hf : ∀ flt ∈ filters, ∀ g, flt = LfFilter.state g → FilterOk fr g) (k : Nat) {a : W} {τ : K}
    {u : V × V} (hu : AtPair fr c a dt τ u) :
    AtPair fr c a dt (τ + k * dt) (runLeapfrog e dt α filters k u) := by
  unfold runLeapfrog
  apply run_replicate_inv (fun τ x => AtPair fr c a dt τ x) dt _ _ _ k τ u hu
  refine ⟨fun τ u hu => R.leapfrog_atPair dt α hu, ?_⟩
  intro g hg τ u uNext hu hn
  obtain ⟨flt, hflt, rfl⟩ := List.mem_map.1 hg
  cases flt with
  | state g0 => exact leapfrogStepFilter_atPair (hf _ hflt g0 rfl) u hn
  | ra r => exact robertAsselin_atPair r hu hn

end T112

/-! ### the two classical readings of T11.2 on a `K`-module -/
section T112module
variable {K V W : Type} [Field K] [AddCommGroup V] [Module K V] [AddCommGroup W] [Module K W]

/-- **`S`-closedness**: if `F`, `G` and `G_inv` map the submodule `S` into itself, so does every
 one-state integrator -/
theorem step_maps_submodule (S : Submodule K V) (e : ImEx K V) (hF : ∀ x ∈ S, e.F x ∈ S)
    (hG : ∀ x ∈ S, e.G x ∈ S) (hGinv : ∀ x ∈ S, ∀ η, e.Ginv x η ∈ S) (h2 : (1 + 1 : K) ≠ 0)
    (sch : Scheme K) (dt : K) (step : V → V) (hs : sch.step e dt = some step) :
    ∀ u ∈ S, step u ∈ S := by
  intro u hu
  have R : Respects (Frame.ofLinear S (0 : V →ₗ[K] K)) (0 : K) e :=
    { F_tend := fun x hx => ⟨hF x hx, by simp [Frame.ofLinear]⟩
      G_tend := fun x hx => ⟨hG x hx, by simp [Frame.ofLinear]⟩
      Ginv_mem := fun x η hx => hGinv x hx η
      Ginv_obs := fun x η _ => by simp [Frame.ofLinear] }
  exact (R.scheme_at h2 sch dt step hs (a := 0) (τ := 0) ⟨hu, by simp [Frame.ofLinear]⟩).1

/-- **conserved linear functionals** (`(ζ, δ)₀₀`, the shallow-water `φ₀₀`): if on `S` the
 functional `ℓ` vanishes on both tendencies and `G_inv` passes it through, every one-state
 integrator conserves it, and adds `dt · adv` times the constant explicit rate `c` otherwise -/
theorem step_functional (S : Submodule K V) (ℓ : V →ₗ[K] W) (c : W) (e : ImEx K V)
    (R : Respects (Frame.ofLinear S ℓ) c e) (h2 : (1 + 1 : K) ≠ 0)
    (sch : Scheme K) (dt : K) (step : V → V) (hs : sch.step e dt = some step) (u : V)
    (hu : u ∈ S) : step u ∈ S ∧ ℓ (step u) = ℓ u + (dt * sch.adv) • c := by
  have := R.scheme_at h2 sch dt step hs (a := ℓ u) (τ := 0) ⟨hu, by simp [Frame.ofLinear]⟩
  exact ⟨this.1, by simpa [Frame.ofLinear] using this.2⟩

end T112module

/-! ## T11.3 the clock -/
section clockTables

def nzQ (a : ℚ) : Bool := decide (a ≠ 0)
def sil3Q : Tableau ℚ := ⟨DinoGen.sil3_aEx, DinoGen.sil3_aIm, DinoGen.sil3_bEx, DinoGen.sil3_bIm⟩
def sil3QFloat : Tableau ℚ :=
  ⟨DinoGen.sil3_aEx_float, DinoGen.sil3_aIm_float, DinoGen.sil3_bEx_float, DinoGen.sil3_bIm_float⟩
def absQ (x : ℚ) : ℚ := if x < 0 then -x else x

/-- consistency certificate on the regenerated tables -/
theorem clock_tables :
    lsrkAdv DinoGen.rk3_alphas DinoGen.rk3_betas DinoGen.rk3_gammas = 1 ∧
    tabAdv nzQ sil3Q = 1 ∧
    decide (absQ (lsrkAdv DinoGen.rk4_alphas DinoGen.rk4_betas DinoGen.rk4_gammas - 1)
      ≤ 1 / 10 ^ 12) = true := by
  decide +kernel

theorem clock_tables_float :
    decide (absQ (lsrkAdv DinoGen.rk3_alphas_float DinoGen.rk3_betas_float DinoGen.rk3_gammas_float - 1)
      ≤ 1 / 2 ^ 52) = true ∧
    tabAdv nzQ sil3QFloat = 1 ∧
    decide (absQ (lsrkAdv DinoGen.rk4_alphas_float DinoGen.rk4_betas_float DinoGen.rk4_gammas_float - 1)
      ≤ 1 / 10 ^ 12) = true := by
  decide +kernel

theorem rk4_clock_not_exact :
    lsrkAdv DinoGen.rk4_alphas DinoGen.rk4_betas DinoGen.rk4_gammas ≠ 1 := by
  decide +kernel

end clockTables

section clockGeneral
variable {K : Type} [Field K]

/-- skipping falsy weights does not change their sum, provided only zeros are falsy -/
theorem wcoef_eq_sum (nz : K → Bool) (hnz : ∀ a, nz a = false → a = 0) (row : List K) (n : Nat) :
    wcoef nz row n = (row.take n).sum := by
  unfold wcoef
  have : ∀ (l : List K) (s : K),
      l.foldl (fun acc a => if nz a then acc + a else acc) s = s + l.sum := by
    intro l
    induction l with
    | nil => intro s; simp
    | cons a l ih =>
      intro s
      simp only [List.foldl_cons, List.sum_cons]
      rw [ih]
      cases h : nz a with
      | true => simp [add_assoc]
      | false => simp [hnz a h]
  rw [this, zero_add]

def castL (K : Type) [DivisionRing K] (l : List ℚ) : List K := l.map (Rat.cast : ℚ → K)
def castM (K : Type) [DivisionRing K] (m : List (List ℚ)) : List (List K) := m.map (castL K)

/-- `crank_nicolson_rk3` (intended rationals) over any field of characteristic zero -/
def rk3 (K : Type) [DivisionRing K] : Scheme K :=
  .lsrk (castL K DinoGen.rk3_alphas) (castL K DinoGen.rk3_betas) (castL K DinoGen.rk3_gammas)

/-- `imex_rk_sil3` -/
def sil3 (K : Type) [DivisionRing K] (nz : K → Bool) : Scheme K :=
  .tableau nz ⟨castM K DinoGen.sil3_aEx, castM K DinoGen.sil3_aIm, castL K DinoGen.sil3_bEx,
    castL K DinoGen.sil3_bIm⟩

variable [CharZero K]

theorem rk3_adv : (rk3 K).adv = 1 := by
  simp only [rk3, Scheme.adv, lsrkAdv, lsrkAdvLoop, castL, List.map_cons, List.map_nil,
    DinoGen.rk3_alphas, DinoGen.rk3_betas, DinoGen.rk3_gammas]
  push_cast
  norm_num

theorem sil3_adv (nz : K → Bool) (hnz : ∀ a, nz a = false → a = 0) : (sil3 K nz).adv = 1 := by
  simp only [sil3, Scheme.adv, tabAdv, wcoef_eq_sum nz hnz, tabStages, castL, castM, List.map_cons,
    List.map_nil, DinoGen.sil3_aEx, DinoGen.sil3_aIm, DinoGen.sil3_bEx, List.length_cons,
    List.length_nil]
  push_cast
  norm_num

end clockGeneral

section T114
variable {K M N : Type} [Field K] [AddCommGroup M] [Module K M] [CommRing N] [Algebra K N]
variable (eq : PrimitiveEquations K M N)

theorem diffs_replicate (a : N) : ∀ n, AllP (· = 0) (Col.diffs (List.replicate n a))
  | 0 => by simp [Col.diffs, AllP]
  | 1 => by simp [Col.diffs, AllP]
  | n + 2 => by
    have ih := diffs_replicate a (n + 1)
    intro x hx
    simp only [List.replicate_succ, Col.diffs, List.mem_cons] at hx ih
    rcases hx with rfl | hx
    · simp
    · exact ih x (by simpa [List.replicate_succ] using hx)

/-- the centred vertical advection of a vertically uniform column vanishes identically, whatever
 the vertical velocity -/
theorem centeredAdvection_const (ctc : List K) (w : List N) (a : N) (n : Nat) :
    AllP (· = 0) (Col.centeredAdvection ctc w (List.replicate n a)) := by
  unfold Col.centeredAdvection
  have hcd : AllP (· = (0 : N)) (Col.centeredDifference ctc (List.replicate n a)) := by
    unfold Col.centeredDifference
    exact allP_zipWith_left _ _ (diffs_replicate a n) fun x c hx => by rw [hx, smul_zero]
  have hxd : AllP (· = (0 : N)) ((0 : N) :: (Col.centeredDifference ctc (List.replicate n a) ++ [0])) := by
    intro x hx
    simp only [List.mem_cons, List.mem_append, List.not_mem_nil, or_false] at hx
    rcases hx with rfl | hx | rfl
    · rfl
    · exact hcd x hx
    · rfl
  have hf : AllP (· = (0 : N)) (Col.mul ((0 : N) :: (w ++ [0]))
      ((0 : N) :: (Col.centeredDifference ctc (List.replicate n a) ++ [0]))) :=
    allP_zipWith_right _ _ hxd fun x y hy => by rw [hy, mul_zero]
  exact allP_zipWith _ (fun x hx => hf x (List.mem_of_mem_tail hx)) hf
    fun x y hx hy => by rw [hx, hy, add_zero, smul_zero]

/-- **T11.4** a horizontally and vertically uniform tracer (`q` at every node of every level) has
 zero tendency, provided the horizontal operators are linear and, level by level,
 `div(u q)` and `q δ` agree after clipping for `q = 1` (`roundtrip` and `div(uv) = δ`):
 the vertical part vanishes identically, the horizontal part is `q·clip(δ − δ)` -/
theorem uniform_tracer_tendency_zero
    (hT : IsLinearMap K eq.ops.toModal) (hL : IsLinearMap K eq.ops.dDlon)
    (hD : IsLinearMap K eq.ops.secLatDDlatCos2) (hC : IsLinearMap K eq.ops.clip)
    (aux : Diag N) (q : K) (n : Nat)
    (hdiv : ∀ i (h1 : i < aux.cosLatU.1.length) (h2 : i < aux.cosLatU.2.length)
      (h3 : i < aux.divergence.length),
      eq.ops.clip (eq.ops.divSecLat aux.cosLatU.1[i] aux.cosLatU.2[i])
        = eq.ops.clip (eq.ops.toModal aux.divergence[i])) :
    AllP (· = 0) ((eq.tracerTendency aux (List.replicate n (constN q : N))).map eq.ops.clip) := by
  have hvert : AllP (· = (0 : N)) (if eq.includeVerticalAdvection
      then eq.verticalTendency aux.sigmaDotFull (List.replicate n (constN q : N))
      else Col.zerosLike (List.replicate n (constN q : N))) := by
    split
    · exact centeredAdvection_const _ _ _ _
    · exact allP_map_of _ _ fun _ => rfl
  unfold PrimitiveEquations.tracerTendency PrimitiveEquations.horizontalScalarAdvection
  generalize (if eq.includeVerticalAdvection then _ else _) = vert at hvert
  intro y hy
  obtain ⟨i, hi, rfl⟩ := List.mem_iff_getElem.1 hy
  simp only [Col.add, Col.mul, List.length_map, List.length_zipWith, List.length_replicate] at hi
  simp only [Col.add, Col.mul, List.getElem_map, List.getElem_zipWith, List.getElem_replicate]
  have hv0 : vert[i]'(by omega) = 0 := hvert _ (List.getElem_mem _)
  rw [hv0, zero_add]
  have e1 : (constN q : N) * aux.divergence[i]'(by omega) = q • aux.divergence[i]'(by omega) := by
    simp [constN, Algebra.smul_def]
  have e2 : ∀ u : N, u * (constN q : N) * eq.ops.sec2Lat = q • (u * eq.ops.sec2Lat) := by
    intro u; simp only [constN, Algebra.smul_def, mul_one]; ring
  have e3 : eq.ops.divSecLat (aux.cosLatU.1[i]'(by omega) * (constN q : N))
      (aux.cosLatU.2[i]'(by omega) * (constN q : N))
      = q • eq.ops.divSecLat (aux.cosLatU.1[i]'(by omega)) (aux.cosLatU.2[i]'(by omega)) := by
    simp only [HOps.divSecLat, HOps.divCosLat, Bool.false_eq_true, if_false, e2, hT.map_smul,
      hL.map_smul, hD.map_smul]
    module
  rw [e1, e3, hT.map_smul, hC.map_add, hC.map_smul, ← neg_smul, hC.map_smul,
    hdiv i (by omega) (by omega) (by omega)]
  module

end T114

/-! ## filters (on the model `Dino.Filters`) -/
section filters
open Dino.Filters
variable {K : Type} [Field K]

/-- **filters keep structural zeros**: on a spectral leaf (any leading axes) every coefficient
 that is zero stays zero -/
theorem filterLeaf_keeps_zeros (s : List K) (init : List Nat) (x : List K) (i : Nat)
    (h0 : x.getD i 0 = 0) :
    (filterLeaf [s.length] s (init ++ [s.length], x)).2.getD i 0 = 0 := by
  rw [C15.filterLeaf_last_axis]
  simp only [List.getD_eq_getElem?_getD, List.getElem?_mapIdx] at h0 ⊢
  cases hx : x[i]? with
  | none => simp
  | some v =>
    rw [hx] at h0
    simp only [Option.getD_some] at h0
    simp [h0]

/-- **filters fix the `l = 0` column** (in particular the `(0,0)` coefficient of every level)
 when the scaling is one at total wavenumber zero -/
theorem filterLeaf_fixes_mean (s : List K) (init : List Nat) (x : List K) (h1 : s.getD 0 0 = 1)
    (i : Nat) (hi : i % s.length = 0) :
    (filterLeaf [s.length] s (init ++ [s.length], x)).2.getD i 0 = x.getD i 0 := by
  rw [C15.filterLeaf_last_axis]
  simp only [List.getD_eq_getElem?_getD, List.getElem?_mapIdx] at h1 ⊢
  cases hx : x[i]? with
  | none => simp
  | some v => simp [hi, h1]

/-- **filters leave the clock alone**: a scalar leaf (`sim_time`) is untouched by every filter
 built from a spectral scaling, wherever it sits in the pytree -/
theorem filterTree_keeps_scalars (L : Nat) (s : List K) (tree : List (List Nat × List K))
    (i : Nat) (t : List K) (h : tree[i]? = some ([], t)) :
    (filterTree [L] s tree)[i]? = some ([], t) := by
  simp only [filterTree, List.getElem?_map, h, Option.map_some]
  rw [C15.filterLeaf_scalar [L] s t (by simp)]

end filters


/-! ## the primitive-equation classes on the executable `tree_math` vectors -/
section glue
variable {K M N : Type} [Field K] [AddCommGroup M] [Module K M]
  [Add N] [Sub N] [Neg N] [Zero N] [Mul N] [One N] [SMul K N] [Div N] [BEq K]
variable {Mk S : Submodule K M}

/-- the explicit clock tendency of the class: the plain `PrimitiveEquations` carries no clock -/
def clockRate (K : Type) [Field K] : Cls → K
  | .dry => 0
  | _ => 1

theorem explicitOf_spec (cls : Cls) (eq : PrimitiveEquations K M N) (H : OpsClosed eq.ops Mk S)
    (ho : eq.orography ∈ Mk) (s r : StateWithTime K M) (h : explicitOf cls eq s = some r) :
    StateAll (· ∈ S) r.state ∧ r.simTime = clockRate K cls := by
  cases cls with
  | dry =>
    simp only [explicitOf, Option.some.injEq] at h
    subst h
    exact ⟨explicitTerms_mem eq H ho s.state, rfl⟩
  | time =>
    simp only [explicitOf, Option.some.injEq] at h
    subst h
    exact ⟨explicitTerms_mem eq H ho s.state, rfl⟩
  | moist => exact moist_explicitTerms_mem eq H ho _ s r h
  | cloud => exact moist_explicitTerms_mem eq H ho _ s r h

/-- **the closure hypotheses of T11.2 hold for every class** (clock frame): under the structural
 hypotheses on the horizontal record, for any supplied matrix inverses; `hdef` = no `ValueError`
 (the humidity tracers are present) -/
theorem pe_respects_clock (cls : Cls) (eq : PrimitiveEquations K M N) (H : OpsClosed eq.ops Mk S)
    (ho : eq.orography ∈ Mk) (hdef : ∀ s, (explicitOf cls eq s).isSome)
    (invOf : K → Nat → List (List K)) :
    Respects (clockFrame S) (clockRate K cls) (peImEx cls eq invOf) where
  F_tend := by
    intro x hx
    cases x with
    | zero => exact absurd hx (by simp [clockFrame, TM.IsState])
    | err => exact absurd hx (by simp [clockFrame, TM.IsState])
    | val s =>
      obtain ⟨r, hr⟩ := Option.isSome_iff_exists.1 (hdef s)
      have hF : (peImEx cls eq invOf).F (.val s) = .val r := by simp [peImEx, TM.liftO, hr]
      obtain ⟨h1, h2⟩ := explicitOf_spec cls eq H ho s r hr
      rw [hF]
      exact ⟨h1, by simpa [clockFrame] using h2⟩
  G_tend := by
    intro x hx
    cases x with
    | zero => exact absurd hx (by simp [clockFrame, TM.IsState])
    | err => exact absurd hx (by simp [clockFrame, TM.IsState])
    | val s =>
      refine ⟨implicitTerms_mem eq H hx, ?_⟩
      simp [clockFrame, peImEx, TM.lift, implicitOf, PrimitiveEquationsWithTime.implicitTerms]
  Ginv_mem := by
    intro x η hx
    cases x with
    | zero => exact absurd hx (by simp [clockFrame, TM.IsState])
    | err => exact absurd hx (by simp [clockFrame, TM.IsState])
    | val s => exact implicitInverse_mem eq H (invOf η) hx
  Ginv_obs := by
    intro x η hx
    cases x with
    | zero => rfl
    | err => rfl
    | val s => rfl

/-- **`Inv` after any history (primitive equations, executable model)**: start from any state
 whose spectral leaves lie in `S`; after any list of steps of the one-state integrators with any
 filters that respect the frame, the result is again such a state and its `sim_time` is
 `t₀ + Σ dtᵢ·advᵢ` (`advᵢ = 1` for Euler, CN-RK2, RK3, SIL3 by `clock_tables`) -/
theorem pe_inv_after_any_history (cls : Cls) (eq : PrimitiveEquations K M N)
    (H : OpsClosed eq.ops Mk S) (ho : eq.orography ∈ Mk)
    (hdef : ∀ s, (explicitOf cls eq s).isSome) (invOf : K → Nat → List (List K))
    (h2 : (1 + 1 : K) ≠ 0) (hist : List (Entry K (TM (StateWithTime K M))))
    (hf : ∀ en ∈ hist, ∀ g ∈ en.filters, FilterOk (clockFrame S) g)
    (s₀ : StateWithTime K M) (hs₀ : StateAll (· ∈ S) s₀.state) (u' : TM (StateWithTime K M))
    (hrun : runHistory (peImEx cls eq invOf) hist (.val s₀) = some u') :
    ∃ s', u' = .val s' ∧ StateAll (· ∈ S) s'.state ∧
      s'.simTime = s₀.simTime + historyAdv hist * clockRate K cls := by
  have R := pe_respects_clock cls eq H ho hdef invOf
  have h0 : At (clockFrame S) (clockRate K cls) s₀.simTime 0 (.val s₀) :=
    ⟨hs₀, by simp [clockFrame]⟩
  obtain ⟨hP, hobs⟩ := inv_after_any_history R h2 hist hf h0 hrun
  cases u' with
  | zero => exact absurd hP (by simp [clockFrame, TM.IsState])
  | err => exact absurd hP (by simp [clockFrame, TM.IsState])
  | val s' => exact ⟨s', rfl, hP, by simpa [clockFrame] using hobs⟩

end glue

end Dino.C11
