import DinoProofs.Lemmas.Invariants
import DinoProofs.Lemmas.InvariantsDyn
import DinoProofs.Lemmas.InvariantsTM
import DinoProofs.Lemmas.InvariantsShape
import DinoProofs.Lemmas.InvariantsMean
import DinoProofs.Lemmas.InvariantsPE
import DinoProofs.Lemmas.InvariantsSW
import DinoProofs.Lemmas.InvariantsToy
import DinoProofs.Lemmas.InvariantsUniform
import DinoProofs.Properties.C15
import DinoGen.Tableaux
import Mathlib.Tactic.NormNum
import Mathlib.Data.Rat.Cast.CharZero
import Mathlib.Algebra.Algebra.Basic
import Mathlib.Algebra.Module.LinearMap.Defs

/-!
# C11 — structural invariants survive any number of steps

Model: `Dino.Dynamics` (the primitive-equation classes over an abstract horizontal record
`HOps`), `Dino.Imex` (the integrators), `Dino.Filters`, `Dino.Invariants` (clock advances, the
shallow-water equation set, histories).  Tie: `harness/props/C11.py`.

* **T11.1** the explicit terms of every class land in the structural submodule `S` (masked, top
  total wavenumber clipped), whatever the state; `(ζ, δ)` tendencies of the dry class have zero
  `(0,0)` coefficient; implicit terms and the implicit inverse map `S → S`, the implicit
  `(ζ, δ)` tendencies have zero `(0,0)` coefficient, the inverse passes `ζ`, tracers and the clock
  through.
* **T11.2** every integrator of `Dino.Imex` maps `S → S` and adds `(dt·adv) • c` to every
  observable whose explicit tendency is `c`, implicit tendency `0` and which the inverse passes
  through; hence the invariant after ANY history of filtered steps (`List.foldl`).
* **T11.3** the clock: `adv = 1` for Euler, CN-RK2, RK3 and SIL3 (certificates on the regenerated
  tables), within `1e-12` of one for the 13-digit RK4 table; filters leave scalar leaves alone.
* **T11.4** a uniform tracer has zero tendency given `roundtrip` and `div(uv) = δ`; hence it stays
  uniform, with the same value, after any history of filtered steps (dry classes, zero mean
  divergence).
* the frames live on the executable `tree_math` vectors: records with `n` levels that carry the tracer
  keys the class looks up (`PEQ`); shallow water is `Dino.DynamicsSW` (`sw_*`).
* **the pair `Mk ⊇ S`** of `OpsClosed h Mk S` is a parameter of every theorem.  On an unpadded layout
  `Mk` = the modal mask, `S` = the mask below the clipped wavenumber.  On a layout whose
  total-wavenumber axis is PADDED (`base_shape_multiple`, device meshes) `OpsClosed` is false for
  `Mk` = mask — the raw `sec_lat_d_dlat_cos2` writes into the first padding column — and holds for
  `Mk` := mask + first padding column of the `l` axis, `S` := mask below the clipped wavenumber: the
  theorems apply with that choice (`toy3p_closed`, `toy3p_mask_not_closed`, `toyPEp_respects`,
  `toyPEp_history` below; `harness/props/C11.py` validates every hypothesis for exactly this pair on
  `base_shape_multiple` grids).  The orography hypothesis is `eq.orography ∈ Mk` (masked orography,
  clipped or not; on a padded layout it may even be non-zero on that padding column).
-/
set_option linter.unusedSectionVars false

namespace Dino.C11
open Dino Dino.Dynamics Dino.Imex Dino.Invariants

/-! ## T11.1 the terms of the primitive equations -/
section T111
variable {K M N : Type} [Field K] [AddCommGroup M] [Module K M]
  [Add N] [Sub N] [Neg N] [Zero N] [Mul N] [One N] [SMul K N]
variable {Mk S Z : Submodule K M} (eq : PrimitiveEquations K M N)

/-- **T11.1 (dry class)** for EVERY state the explicit tendencies lie in `S`: zero outside the
 modal mask and at the clipped top total wavenumber (every pre-clip term lies in `Mk` — the mask,
 plus the first padding column on a layout with a padded total-wavenumber axis —, the final
 `clip_wavenumbers` maps `Mk` into `S`); the orography is any field of `Mk` -/
theorem explicitTerms_mem [BEq K] (H : OpsClosed eq.ops Mk S) (ho : eq.orography ∈ Mk)
    (s : State M) : StateAll (· ∈ S) (eq.explicitTerms s) := by
  unfold PrimitiveEquations.explicitTerms
  apply clipState_mem eq H
  have hcd := curlAndDiv_mem eq H (computeDiagnosticState eq.ops eq.vert s)
    (Col.smul eq.phys.R (computeDiagnosticState eq.ops eq.vert s).temperatureVariation)
  have hth := thermo_mem eq H (computeDiagnosticState eq.ops eq.vert s)
    (eq.nodalTemperatureAdiabaticTendency (computeDiagnosticState eq.ops eq.vert s))
  exact ⟨hcd.1,
    col_addLevel_mem Mk (col_add_mem Mk hcd.2 (kineticEnergy_mem eq H _)) (orography_mem eq H ho),
    hth.1, hth.2.1, hth.2.2⟩

/-- **T11.1 (dry class)** the vorticity and divergence tendencies have zero `(0,0)` coefficient
 (zero global mean: Stokes / Gauss), for every state and any orography -/
theorem explicitTerms_mean0 [BEq K] (H : Mean0 eq.ops Z) (s : State M) :
    AllP (· ∈ Z) (eq.explicitTerms s).vorticity ∧ AllP (· ∈ Z) (eq.explicitTerms s).divergence := by
  unfold PrimitiveEquations.explicitTerms PrimitiveEquations.clipState
  have hcd := curlAndDiv_mean0 eq H (computeDiagnosticState eq.ops eq.vert s)
    (Col.smul eq.phys.R (computeDiagnosticState eq.ops eq.vert s).temperatureVariation)
  exact ⟨clip_allP_mean0 eq H hcd.1,
    clip_allP_mean0 eq H (col_addLevel_mem Z (col_add_mem Z hcd.2 (kineticEnergy_mean0 eq H _))
      (orography_mean0 eq H))⟩

/-- **T11.1 / T11.3 (`PrimitiveEquationsWithTime`)** same tendencies, clock tendency one -/
theorem explicitTermsWithTime_mem [BEq K] (H : OpsClosed eq.ops Mk S) (ho : eq.orography ∈ Mk)
    (s : StateWithTime K M) :
    StateAll (· ∈ S) (PrimitiveEquationsWithTime.explicitTerms eq s).state ∧
    (PrimitiveEquationsWithTime.explicitTerms eq s).simTime = 1 :=
  ⟨explicitTerms_mem eq H ho s.state, rfl⟩

/-- **T11.1 (implicit terms)** map `S → S` -/
theorem implicitTerms_mem (H : OpsClosed eq.ops Mk S) {s : State M} (hs : StateAll (· ∈ S) s) :
    StateAll (· ∈ S) (eq.implicitTerms s) := by
  obtain ⟨_, h2, h3, h4, _⟩ := hs
  unfold PrimitiveEquations.implicitTerms
  refine ⟨col_zerosLike_mem S _, ?_, ?_, ?_, ?_⟩
  · refine allP_map _ (col_add_mem S (col_matvec_mem S _ h3) ?_) fun x hx =>
      S.neg_mem (H.laplacian_S x hx)
    exact allP_map_of _ _ fun t => S.smul_mem _ h4
  · exact col_matvec_mem S _ h2
  · exact S.neg_mem (col_sigmaIntegral_mem S _ h2)
  · exact tracersAll_map _ _ fun x => col_zerosLike_mem S x

/-- **T11.1 (implicit terms)** the implicit `(ζ, δ)` tendencies have zero `(0,0)` coefficient,
 for every state; the implicit clock tendency is zero -/
theorem implicitTerms_mean0 (H : Mean0 eq.ops Z) (s : State M) :
    AllP (· ∈ Z) (eq.implicitTerms s).vorticity ∧ AllP (· ∈ Z) (eq.implicitTerms s).divergence := by
  unfold PrimitiveEquations.implicitTerms
  exact ⟨col_zerosLike_mem Z _, allP_map_of _ _ fun _ => Z.neg_mem (H.laplacian_mem _)⟩

theorem implicitTermsWithTime_simTime (s : StateWithTime K M) :
    (PrimitiveEquationsWithTime.implicitTerms eq s).simTime = 0 := rfl

theorem matvecPerWavenumber_mem (H : OpsClosed eq.ops Mk S) (a : Nat → List (List K)) (rows : Nat)
    {x : List M} (hx : AllP (· ∈ S) x) : AllP (· ∈ S) (eq.matvecPerWavenumber a rows x) := by
  unfold PrimitiveEquations.matvecPerWavenumber
  apply foldl_col_add_mem S _ (col_zeros_mem S rows)
  intro l hl
  obtain ⟨i, _, rfl⟩ := List.mem_map.1 hl
  exact col_matvec_mem S _ (allP_map _ hx fun y hy => H.lproj_S i y hy)

/-- **T11.1 (implicit inverse)** maps `S → S` for every supplied matrix inverse (it acts per
 total wavenumber); vorticity, tracers and the clock pass through unchanged -/
theorem implicitInverse_mem (H : OpsClosed eq.ops Mk S) (inv : Nat → List (List K)) {s : State M}
    (hs : StateAll (· ∈ S) s) : StateAll (· ∈ S) (eq.implicitInverse inv s) := by
  obtain ⟨h1, h2, h3, h4, h5⟩ := hs
  have hp : AllP (· ∈ S) [s.logSurfacePressure] := by
    intro x hx; rw [List.mem_singleton.1 hx]; exact h4
  have mv := fun a rows (x : List M) (hx : AllP (· ∈ S) x) =>
    matvecPerWavenumber_mem eq H a rows hx
  unfold PrimitiveEquations.implicitInverse
  refine ⟨h1, ?_, ?_, ?_, h5⟩
  · exact col_add_mem S (col_add_mem S (mv _ _ _ h2) (mv _ _ _ h3)) (mv _ _ _ hp)
  · exact col_add_mem S (col_add_mem S (mv _ _ _ h2) (mv _ _ _ h3)) (mv _ _ _ hp)
  · exact headD_mem S (col_add_mem S (col_add_mem S (mv _ _ _ h2) (mv _ _ _ h3)) (mv _ _ _ hp))

theorem implicitInverse_passes (inv : Nat → List (List K)) (s : StateWithTime K M) :
    (PrimitiveEquationsWithTime.implicitInverse eq inv s).state.vorticity = s.state.vorticity ∧
    (PrimitiveEquationsWithTime.implicitInverse eq inv s).state.tracers = s.state.tracers ∧
    (PrimitiveEquationsWithTime.implicitInverse eq inv s).simTime = s.simTime :=
  ⟨rfl, rfl, rfl⟩

end T111

/-! ### the moist classes (`MoistPrimitiveEquations`, `…WithCloudMoisture`) -/
section T111moist
variable {K M N : Type} [Field K] [AddCommGroup M] [Module K M]
  [Add N] [Sub N] [Neg N] [Zero N] [Mul N] [One N] [SMul K N] [Div N]
variable {Mk S Z : Submodule K M} (eq : PrimitiveEquations K M N)

theorem moist_curlAndDiv_mem (H : OpsClosed eq.ops Mk S)
    (vt : Diag N → List N → Option (List N)) (aux : Diag N) (cd : List M × List M)
    (h : MoistPrimitiveEquations.curlAndDivTendencies eq vt aux = some cd) :
    AllP (· ∈ Mk) cd.1 ∧ AllP (· ∈ Mk) cd.2 := by
  simp only [MoistPrimitiveEquations.curlAndDivTendencies, bind, Option.bind_eq_some_iff, pure,
    Option.some.injEq] at h
  obtain ⟨q, _, rTv, _, rfl⟩ := h
  exact curlAndDiv_mem eq H aux rTv

theorem moist_vorticityHumidity_mem (H : OpsClosed eq.ops Mk S) (s : State M) (aux : Diag N)
    (r : List M) (h : MoistPrimitiveEquations.vorticityTendencyDueToHumidity eq s aux = some r) :
    AllP (· ∈ Mk) r := by
  simp only [MoistPrimitiveEquations.vorticityTendencyDueToHumidity, bind, Option.bind_eq_some_iff,
    pure, Option.some.injEq] at h
  obtain ⟨q, _, rfl⟩ := h
  exact allP_map_of _ _ H.toModal_mem

theorem moist_divergenceHumidity_mem (H : OpsClosed eq.ops Mk S) (s : State M) (aux : Diag N)
    (r : List M) (h : MoistPrimitiveEquations.divergenceTendencyDueToHumidity eq s aux = some r) :
    AllP (· ∈ Mk) r := by
  simp only [MoistPrimitiveEquations.divergenceTendencyDueToHumidity, bind,
    Option.bind_eq_some_iff, pure, Option.some.injEq] at h
  obtain ⟨q, _, qm, _, rfl⟩ := h
  exact allP_zipWith_of _ _ _ fun _ _ =>
    Mk.sub_mem (Mk.neg_mem (H.laplacian_mem _ (H.toModal_mem _))) (H.toModal_mem _)

/-- **T11.1 (moist classes)** -/
theorem moist_explicitTerms_mem [BEq K] (H : OpsClosed eq.ops Mk S) (ho : eq.orography ∈ Mk)
    (vt : Diag N → List N → Option (List N)) (s r : StateWithTime K M)
    (h : MoistPrimitiveEquations.explicitTermsWith eq vt s = some r) :
    StateAll (· ∈ S) r.state ∧ r.simTime = 1 := by
  simp only [MoistPrimitiveEquations.explicitTermsWith, bind, Option.bind_eq_some_iff, pure,
    Option.some.injEq] at h
  obtain ⟨cd, hcd, hv, hhv, hd, hhd, ad, _, rfl⟩ := h
  refine ⟨?_, rfl⟩
  apply clipState_mem eq H
  have h1 := moist_curlAndDiv_mem eq H vt _ cd hcd
  have h2 := moist_vorticityHumidity_mem eq H _ _ hv hhv
  have h3 := moist_divergenceHumidity_mem eq H _ _ hd hhd
  have hth := thermo_mem eq H (computeDiagnosticState eq.ops eq.vert s.state) ad
  exact ⟨col_add_mem Mk h1.1 h2,
    col_add_mem Mk (col_addLevel_mem Mk (col_add_mem Mk h1.2 (kineticEnergy_mem eq H _))
      (orography_mem eq H ho)) h3,
    hth.1, hth.2.1, hth.2.2⟩
end T111moist


/-! ## T11.2 every integrator, every history -/
section T112
variable {K V W : Type} [Field K] [AddCommGroup W] [Module K W] [Add V] [Zero V] [SMul K V]
variable {fr : Frame K V W} {c : W} {e : ImEx K V}

/-- **T11.2 (every one-state integrator)** if on the proper states `P` the explicit terms land in
 `S` with observable `c`, the implicit terms land in `S` with observable `0` and `G_inv` maps
 `P → P` passing the observable through, then one step of `backward_forward_euler`,
 `crank_nicolson_rk2`, any `low_storage_runge_kutta_crank_nicolson` and any `imex_runge_kutta`
 maps `P → P` and adds `(dt · adv) • c` to the observable -/
theorem every_scheme_step (R : Respects fr c e) (h2 : (1 + 1 : K) ≠ 0) (sch : Scheme K) (dt : K)
    (step : V → V) (hs : sch.step e dt = some step) {a : W} {τ : K} {u : V}
    (hu : At fr c a τ u) : At fr c a (τ + dt * sch.adv) (step u) :=
  R.scheme_at h2 sch dt step hs hu

/-- **T11.2 (leapfrog)** `semi_implicit_leapfrog` maps a pair `(previous, current)` whose clocks
 are `dt` apart to such a pair, one `dt` later, for every `α` -/
theorem leapfrog_step (R : Respects fr c e) (dt α : K) {a : W} {τ : K} {u : V × V}
    (hu : AtPair fr c a dt τ u) : AtPair fr c a dt (τ + dt) (leapfrog e dt α u) :=
  R.leapfrog_atPair dt α hu

/-- **all histories (one-state integrators)**: after ANY list of steps — each with its own scheme,
 step size and list of state filters, applied by `step_with_filters` — the state is proper and
 its observable has advanced by `Σ dtᵢ·advᵢ` times `c` -/
theorem inv_after_any_history (R : Respects fr c e) (h2 : (1 + 1 : K) ≠ 0) :
    ∀ (hist : List (Entry K V)), (∀ en ∈ hist, ∀ g ∈ en.filters, FilterOk fr g) →
      ∀ {a : W} {τ : K} {u u' : V}, At fr c a τ u → runHistory e hist u = some u' →
      At fr c a (τ + historyAdv hist) u' := by
  intro hist
  induction hist with
  | nil =>
    intro _ a τ u u' hu h
    simp only [runHistory, Option.some.injEq] at h
    subst h
    simpa [historyAdv] using hu
  | cons en rest ih =>
    intro hf a τ u u' hu h
    simp only [runHistory] at h
    split at h
    · cases h
    · rename_i f hfs
      have hstep : StepOk (fun τ x => At fr c a τ x) (en.dt * en.sch.adv) f
          (en.filters.map Filters.rkStepFilter) := by
        refine ⟨fun τ u hu => R.scheme_at h2 en.sch en.dt f hfs hu, ?_⟩
        intro g hg τ u uNext _ hn
        obtain ⟨g0, hg0, rfl⟩ := List.mem_map.1 hg
        exact (hf en List.mem_cons_self g0 hg0).at hn
      have h1 := stepWithFilters_inv _ _ _ _ hstep τ u hu
      have := ih (fun en' hen' => hf en' (List.mem_cons_of_mem _ hen')) h1 h
      simpa [historyAdv, add_assoc] using this

/-- **all histories (leapfrog)**: `k` leapfrog steps, each followed by any list of
 `leapfrog_step_filter`s and Robert–Asselin filters -/
theorem leapfrog_inv_after_k_steps (R : Respects fr c e) (dt α : K) (filters : List (LfFilter K V))
    (hf : ∀ flt ∈ filters, ∀ g, flt = LfFilter.state g → FilterOk fr g) (k : Nat) {a : W} {τ : K}
    {u : V × V} (hu : AtPair fr c a dt τ u) :
    AtPair fr c a dt (τ + k * dt) (runLeapfrog e dt α filters k u) := by
  unfold runLeapfrog
  apply run_replicate_inv (fun τ x => AtPair fr c a dt τ x) dt _ _ _ k τ u hu
  refine ⟨fun τ u hu => R.leapfrog_atPair dt α hu, ?_⟩
  intro g hg τ u uNext hu hn
  obtain ⟨flt, hflt, rfl⟩ := List.mem_map.1 hg
  cases flt with
  | state g0 => exact leapfrogStepFilter_atPair (hf _ hflt g0 rfl) u hn
  | ra r => exact robertAsselin_atPair r hu hn

end T112

/-! ### the two classical readings of T11.2 on a `K`-module -/
section T112module
variable {K V W : Type} [Field K] [AddCommGroup V] [Module K V] [AddCommGroup W] [Module K W]

/-- **`S`-closedness**: if `F`, `G` and `G_inv` map the submodule `S` into itself, so does every
 one-state integrator -/
theorem step_maps_submodule (S : Submodule K V) (e : ImEx K V) (hF : ∀ x ∈ S, e.F x ∈ S)
    (hG : ∀ x ∈ S, e.G x ∈ S) (hGinv : ∀ x ∈ S, ∀ η, e.Ginv x η ∈ S) (h2 : (1 + 1 : K) ≠ 0)
    (sch : Scheme K) (dt : K) (step : V → V) (hs : sch.step e dt = some step) :
    ∀ u ∈ S, step u ∈ S := by
  intro u hu
  have R : Respects (Frame.ofLinear S (0 : V →ₗ[K] K)) (0 : K) e :=
    { F_tend := fun x hx => ⟨hF x hx, by simp [Frame.ofLinear]⟩
      G_tend := fun x hx => ⟨hG x hx, by simp [Frame.ofLinear]⟩
      Ginv_mem := fun x η hx => hGinv x hx η
      Ginv_obs := fun x η _ => by simp [Frame.ofLinear] }
  exact (R.scheme_at h2 sch dt step hs (a := 0) (τ := 0) ⟨hu, by simp [Frame.ofLinear]⟩).1

/-- **conserved linear functionals** (`(ζ, δ)₀₀`, the shallow-water `φ₀₀`): if on `S` the
 functional `ℓ` vanishes on both tendencies and `G_inv` passes it through, every one-state
 integrator conserves it, and adds `dt · adv` times the constant explicit rate `c` otherwise -/
theorem step_functional (S : Submodule K V) (ℓ : V →ₗ[K] W) (c : W) (e : ImEx K V)
    (R : Respects (Frame.ofLinear S ℓ) c e) (h2 : (1 + 1 : K) ≠ 0)
    (sch : Scheme K) (dt : K) (step : V → V) (hs : sch.step e dt = some step) (u : V)
    (hu : u ∈ S) : step u ∈ S ∧ ℓ (step u) = ℓ u + (dt * sch.adv) • c := by
  have := R.scheme_at h2 sch dt step hs (a := ℓ u) (τ := 0) ⟨hu, by simp [Frame.ofLinear]⟩
  exact ⟨this.1, by simpa [Frame.ofLinear] using this.2⟩

end T112module

/-! ## T11.3 the clock -/
section clockTables

def nzQ (a : ℚ) : Bool := decide (a ≠ 0)
def sil3Q : Tableau ℚ := ⟨DinoGen.sil3_aEx, DinoGen.sil3_aIm, DinoGen.sil3_bEx, DinoGen.sil3_bIm⟩
def sil3QFloat : Tableau ℚ :=
  ⟨DinoGen.sil3_aEx_float, DinoGen.sil3_aIm_float, DinoGen.sil3_bEx_float, DinoGen.sil3_bIm_float⟩
def absQ (x : ℚ) : ℚ := if x < 0 then -x else x

/-- consistency certificate on the regenerated tables -/
theorem clock_tables :
    lsrkAdv DinoGen.rk3_alphas DinoGen.rk3_betas DinoGen.rk3_gammas = 1 ∧
    tabAdv nzQ sil3Q = 1 ∧
    decide (absQ (lsrkAdv DinoGen.rk4_alphas DinoGen.rk4_betas DinoGen.rk4_gammas - 1)
      ≤ 1 / 10 ^ 12) = true := by
  decide +kernel

theorem clock_tables_float :
    decide (absQ (lsrkAdv DinoGen.rk3_alphas_float DinoGen.rk3_betas_float DinoGen.rk3_gammas_float - 1)
      ≤ 1 / 2 ^ 52) = true ∧
    tabAdv nzQ sil3QFloat = 1 ∧
    decide (absQ (lsrkAdv DinoGen.rk4_alphas_float DinoGen.rk4_betas_float DinoGen.rk4_gammas_float - 1)
      ≤ 1 / 10 ^ 12) = true := by
  decide +kernel

theorem rk4_clock_not_exact :
    lsrkAdv DinoGen.rk4_alphas DinoGen.rk4_betas DinoGen.rk4_gammas ≠ 1 := by
  decide +kernel

end clockTables

section clockGeneral
variable {K : Type} [Field K]

/-- skipping falsy weights does not change their sum, provided only zeros are falsy -/
theorem wcoef_eq_sum (nz : K → Bool) (hnz : ∀ a, nz a = false → a = 0) (row : List K) (n : Nat) :
    wcoef nz row n = (row.take n).sum := by
  unfold wcoef
  have : ∀ (l : List K) (s : K),
      l.foldl (fun acc a => if nz a then acc + a else acc) s = s + l.sum := by
    intro l
    induction l with
    | nil => intro s; simp
    | cons a l ih =>
      intro s
      simp only [List.foldl_cons, List.sum_cons]
      rw [ih]
      cases h : nz a with
      | true => simp [add_assoc]
      | false => simp [hnz a h]
  rw [this, zero_add]

def castL (K : Type) [DivisionRing K] (l : List ℚ) : List K := l.map (Rat.cast : ℚ → K)
def castM (K : Type) [DivisionRing K] (m : List (List ℚ)) : List (List K) := m.map (castL K)

/-- `crank_nicolson_rk3` (intended rationals) over any field of characteristic zero -/
def rk3 (K : Type) [DivisionRing K] : Scheme K :=
  .lsrk (castL K DinoGen.rk3_alphas) (castL K DinoGen.rk3_betas) (castL K DinoGen.rk3_gammas)

/-- `imex_rk_sil3` -/
def sil3 (K : Type) [DivisionRing K] (nz : K → Bool) : Scheme K :=
  .tableau nz ⟨castM K DinoGen.sil3_aEx, castM K DinoGen.sil3_aIm, castL K DinoGen.sil3_bEx,
    castL K DinoGen.sil3_bIm⟩

variable [CharZero K]

theorem rk3_adv : (rk3 K).adv = 1 := by
  simp only [rk3, Scheme.adv, lsrkAdv, lsrkAdvLoop, castL, List.map_cons, List.map_nil,
    DinoGen.rk3_alphas, DinoGen.rk3_betas, DinoGen.rk3_gammas]
  push_cast
  norm_num

theorem sil3_adv (nz : K → Bool) (hnz : ∀ a, nz a = false → a = 0) : (sil3 K nz).adv = 1 := by
  simp only [sil3, Scheme.adv, tabAdv, wcoef_eq_sum nz hnz, tabStages, castL, castM, List.map_cons,
    List.map_nil, DinoGen.sil3_aEx, DinoGen.sil3_aIm, DinoGen.sil3_bEx, List.length_cons,
    List.length_nil]
  push_cast
  norm_num

end clockGeneral

section T114
variable {K M N : Type} [Field K] [AddCommGroup M] [Module K M] [CommRing N] [Algebra K N]
variable (eq : PrimitiveEquations K M N)

theorem diffs_replicate (a : N) : ∀ n, AllP (· = 0) (Col.diffs (List.replicate n a))
  | 0 => by simp [Col.diffs, AllP]
  | 1 => by simp [Col.diffs, AllP]
  | n + 2 => by
    have ih := diffs_replicate a (n + 1)
    intro x hx
    simp only [List.replicate_succ, Col.diffs, List.mem_cons] at hx ih
    rcases hx with rfl | hx
    · simp
    · exact ih x (by simpa [List.replicate_succ] using hx)

/-- the centred vertical advection of a vertically uniform column vanishes identically, whatever
 the vertical velocity -/
theorem centeredAdvection_const (ctc : List K) (w : List N) (a : N) (n : Nat) :
    AllP (· = 0) (Col.centeredAdvection ctc w (List.replicate n a)) := by
  unfold Col.centeredAdvection
  have hcd : AllP (· = (0 : N)) (Col.centeredDifference ctc (List.replicate n a)) := by
    unfold Col.centeredDifference
    exact allP_zipWith_left _ _ (diffs_replicate a n) fun x c hx => by rw [hx, smul_zero]
  have hxd : AllP (· = (0 : N)) ((0 : N) :: (Col.centeredDifference ctc (List.replicate n a) ++ [0])) := by
    intro x hx
    simp only [List.mem_cons, List.mem_append, List.not_mem_nil, or_false] at hx
    rcases hx with rfl | hx | rfl
    · rfl
    · exact hcd x hx
    · rfl
  have hf : AllP (· = (0 : N)) (Col.mul ((0 : N) :: (w ++ [0]))
      ((0 : N) :: (Col.centeredDifference ctc (List.replicate n a) ++ [0]))) :=
    allP_zipWith_right _ _ hxd fun x y hy => by rw [hy, mul_zero]
  exact allP_zipWith _ (fun x hx => hf x (List.mem_of_mem_tail hx)) hf
    fun x y hx hy => by rw [hx, hy, add_zero, smul_zero]

/-- **T11.4** a horizontally and vertically uniform tracer (`q` at every node of every level) has
 zero tendency, provided the horizontal operators are linear and, level by level,
 `div(u q)` and `q δ` agree after clipping for `q = 1` (`roundtrip` and `div(uv) = δ`):
 the vertical part vanishes identically, the horizontal part is `q·clip(δ − δ)` -/
theorem uniform_tracer_tendency_zero
    (hT : IsLinearMap K eq.ops.toModal) (hL : IsLinearMap K eq.ops.dDlon)
    (hD : IsLinearMap K eq.ops.secLatDDlatCos2) (hC : IsLinearMap K eq.ops.clip)
    (aux : Diag N) (q : K) (n : Nat)
    (hdiv : ∀ i (h1 : i < aux.cosLatU.1.length) (h2 : i < aux.cosLatU.2.length)
      (h3 : i < aux.divergence.length),
      eq.ops.clip (eq.ops.divSecLat aux.cosLatU.1[i] aux.cosLatU.2[i])
        = eq.ops.clip (eq.ops.toModal aux.divergence[i])) :
    AllP (· = 0) ((eq.tracerTendency aux (List.replicate n (constN q : N))).map eq.ops.clip) := by
  have hvert : AllP (· = (0 : N)) (if eq.includeVerticalAdvection
      then eq.verticalTendency aux.sigmaDotFull (List.replicate n (constN q : N))
      else Col.zerosLike (List.replicate n (constN q : N))) := by
    split
    · exact centeredAdvection_const _ _ _ _
    · exact allP_map_of _ _ fun _ => rfl
  unfold PrimitiveEquations.tracerTendency PrimitiveEquations.horizontalScalarAdvection
  generalize (if eq.includeVerticalAdvection then _ else _) = vert at hvert
  intro y hy
  obtain ⟨i, hi, rfl⟩ := List.mem_iff_getElem.1 hy
  simp only [Col.add, Col.mul, List.length_map, List.length_zipWith, List.length_replicate] at hi
  simp only [Col.add, Col.mul, List.getElem_map, List.getElem_zipWith, List.getElem_replicate]
  have hv0 : vert[i]'(by omega) = 0 := hvert _ (List.getElem_mem _)
  rw [hv0, zero_add]
  have e1 : (constN q : N) * aux.divergence[i]'(by omega) = q • aux.divergence[i]'(by omega) := by
    simp [constN, Algebra.smul_def]
  have e2 : ∀ u : N, u * (constN q : N) * eq.ops.sec2Lat = q • (u * eq.ops.sec2Lat) := by
    intro u; simp only [constN, Algebra.smul_def, mul_one]; ring
  have e3 : eq.ops.divSecLat (aux.cosLatU.1[i]'(by omega) * (constN q : N))
      (aux.cosLatU.2[i]'(by omega) * (constN q : N))
      = q • eq.ops.divSecLat (aux.cosLatU.1[i]'(by omega)) (aux.cosLatU.2[i]'(by omega)) := by
    simp only [HOps.divSecLat, HOps.divCosLat, Bool.false_eq_true, if_false, e2, hT.map_smul,
      hL.map_smul, hD.map_smul]
    module
  rw [e1, e3, hT.map_smul, hC.map_add, hC.map_smul, ← neg_smul, hC.map_smul,
    hdiv i (by omega) (by omega) (by omega)]
  module

end T114

/-! ## filters (on the model `Dino.Filters`) -/
section filters
open Dino.Filters
variable {K : Type} [Field K]

/-- **filters keep structural zeros**: on a spectral leaf (any leading axes) every coefficient
 that is zero stays zero -/
theorem filterLeaf_keeps_zeros (s : List K) (init : List Nat) (x : List K) (i : Nat)
    (h0 : x.getD i 0 = 0) :
    (filterLeaf [s.length] s (init ++ [s.length], x)).2.getD i 0 = 0 := by
  rw [C15.filterLeaf_last_axis]
  simp only [List.getD_eq_getElem?_getD, List.getElem?_mapIdx] at h0 ⊢
  cases hx : x[i]? with
  | none => simp
  | some v =>
    rw [hx] at h0
    simp only [Option.getD_some] at h0
    simp [h0]

/-- **filters fix the `l = 0` column** (in particular the `(0,0)` coefficient of every level)
 when the scaling is one at total wavenumber zero -/
theorem filterLeaf_fixes_mean (s : List K) (init : List Nat) (x : List K) (h1 : s.getD 0 0 = 1)
    (i : Nat) (hi : i % s.length = 0) :
    (filterLeaf [s.length] s (init ++ [s.length], x)).2.getD i 0 = x.getD i 0 := by
  rw [C15.filterLeaf_last_axis]
  simp only [List.getD_eq_getElem?_getD, List.getElem?_mapIdx] at h1 ⊢
  cases hx : x[i]? with
  | none => simp
  | some v => simp [hi, h1]

/-- **filters leave the clock alone**: a scalar leaf (`sim_time`) is untouched by every filter
 built from a spectral scaling, wherever it sits in the pytree -/
theorem filterTree_keeps_scalars (L : Nat) (s : List K) (tree : List (List Nat × List K))
    (i : Nat) (t : List K) (h : tree[i]? = some ([], t)) :
    (filterTree [L] s tree)[i]? = some ([], t) := by
  simp only [filterTree, List.getElem?_map, h, Option.map_some]
  rw [C15.filterLeaf_scalar [L] s t (by simp)]

end filters


/-! ## the concrete filter scalings of `Dino.Filters` are one at total wavenumber zero -/
section scalings
open Dino.Filters
variable {K : Type} [Field K] [LT K] [DecidableLT K]

theorem powN_zero_succ (k : Nat) : powN (0 : K) (k + 1) = 0 := by simp [powN]

/-- `exponential_filter` / `exponential_step_filter`: the factor at `l = 0` is `exp(0) = 1` for a
 cutoff that is not negative; the scaling has one factor per total wavenumber -/
theorem expScaling_zero (ex : K → K) (hex : ex 0 = 1) (a : K) (p : Nat) (c : K) (hc : ¬ c < 0)
    (ls s : List K) (h : expScaling ex a p c (0 :: ls) = some s) :
    s.getD 0 0 = 1 ∧ s.length = ls.length + 1 := by
  unfold expScaling at h
  cases hm : maxL (0 :: ls) with
  | none => simp [hm] at h
  | some lmax =>
    simp only [hm, Option.map_some, Option.some.injEq] at h
    subst h
    refine ⟨?_, by simp⟩
    simp [expFactor, ind, hc, hex]

theorem expStepScaling_zero (ex : K → K) (hex : ex 0 = 1) (dt tau : K) (p : Nat) (c : K)
    (hc : ¬ c < 0) (ls s : List K) (h : expStepScaling ex dt tau p c (0 :: ls) = some s) :
    s.getD 0 0 = 1 ∧ s.length = ls.length + 1 :=
  expScaling_zero ex hex _ p c hc ls s h

/-- `horizontal_diffusion_filter` / `horizontal_diffusion_step_filter` of order ≥ 1: the eigenvalue
 of `l = 0` is zero, the factor `exp(0) = 1`.  (Order `0` multiplies EVERY coefficient, the `(0,0)`
 one included, by `exp(-scale)`: excluded.) -/
theorem diffScaling_zero (ex : K → K) (hex : ex 0 = 1) (scale : K) (order : Nat) (ho : 0 < order)
    (radius : K) (ls : List K) :
    (diffScaling ex scale order (eigenvalues radius (0 :: ls))).getD 0 0 = 1 ∧
    (diffScaling ex scale order (eigenvalues radius (0 :: ls))).length = ls.length + 1 := by
  obtain ⟨k, rfl⟩ : ∃ k, order = k + 1 := ⟨order - 1, by omega⟩
  refine ⟨?_, by simp [diffScaling, eigenvalues]⟩
  simp [diffScaling, eigenvalues, eigenvalue, diffFactor, powN_zero_succ, hex]

theorem diffStepScaling_zero (ex : K → K) (hex : ex 0 = 1) (dt tau : K) (order : Nat)
    (ho : 0 < order) (radius : K) (ls s : List K)
    (h : diffStepScaling ex dt tau order (eigenvalues radius (0 :: ls)) = some s) :
    s.getD 0 0 = 1 ∧ s.length = ls.length + 1 := by
  unfold diffStepScaling at h
  cases hm : diffStepScale dt tau order (eigenvalues radius (0 :: ls)) with
  | none => simp [hm] at h
  | some sc =>
    simp only [hm, Option.map_some, Option.some.injEq] at h
    subst h
    exact diffScaling_zero ex hex sc order ho radius ls

end scalings

/-! ## the primitive-equation classes on the executable `tree_math` vectors -/
section glue
variable {K M N : Type} [Field K] [AddCommGroup M] [Module K M]
  [Add N] [Sub N] [Neg N] [Zero N] [Mul N] [One N] [SMul K N] [Div N] [BEq K]
variable {Mk S : Submodule K M} {n : ℕ} {ks : List String}

/-- the explicit clock tendency of the class: the plain `PrimitiveEquations` carries no clock -/
def clockRate (K : Type) [Field K] : Cls → K
  | .dry => 0
  | _ => 1

theorem explicitOf_spec (cls : Cls) (eq : PrimitiveEquations K M N) (H : OpsClosed eq.ops Mk S)
    (ho : eq.orography ∈ Mk) (s r : StateWithTime K M) (h : explicitOf cls eq s = some r) :
    StateAll (· ∈ S) r.state ∧ r.simTime = clockRate K cls := by
  cases cls with
  | dry =>
    simp only [explicitOf, Option.some.injEq] at h
    subst h
    exact ⟨explicitTerms_mem eq H ho s.state, rfl⟩
  | time =>
    simp only [explicitOf, Option.some.injEq] at h
    subst h
    exact ⟨explicitTerms_mem eq H ho s.state, rfl⟩
  | moist => exact moist_explicitTerms_mem eq H ho _ s r h
  | cloud => exact moist_explicitTerms_mem eq H ho _ s r h

/-- the externally supplied inverse matrices have at least `2n + 1` rows (`numpy.linalg.inv` of
 the `(2n+1) × (2n+1)` implicit matrix of every total wavenumber) -/
def InvShaped (eq : PrimitiveEquations K M N) (n : ℕ) (invOf : K → ℕ → List (List K)) : Prop :=
  ∀ η, ∀ l < eq.ops.nL, 2 * n + 1 ≤ (invOf η l).length

/-- **no `ValueError` on the frame** (review finding 1): on a record with `n` levels that carries
 the tracer keys the class looks up (`NeedsKeys`: none for the dry classes, `specific_humidity`
 for the moist class, the two condensate keys in addition for the cloud class) the explicit terms
 of the class are defined, and the tendency has the same levels and keys -/
theorem explicitOf_defined (cls : Cls) (eq : PrimitiveEquations K M N) (V : VertShaped eq n)
    (hk : NeedsKeys cls ks) (s : StateWithTime K M) (hs : Shaped n ks s.state) :
    ∃ r, explicitOf cls eq s = some r ∧ Shaped n ks r.state := by
  cases cls with
  | dry => exact ⟨_, rfl, explicitTerms_shaped eq V hs⟩
  | time => exact ⟨_, rfl, explicitTerms_shaped eq V hs⟩
  | moist => exact moist_explicitTermsWith_shaped eq V _ (virtualTemperature_ok eq) hk hs
  | cloud =>
    exact moist_explicitTermsWith_shaped eq V _
      (virtualTemperatureWithClouds_ok eq hk.2.1 hk.2.2) hk.1 hs

/-- the hypothesis `hdef` of the earlier statement is FALSE for the moist classes (a state
 without the humidity tracer raises): this is why the frame predicate carries the keys -/
theorem explicitOf_moist_undefined (eq : PrimitiveEquations K M N) :
    explicitOf .moist eq ⟨⟨[], [], [], 0, []⟩, 0⟩ = none := rfl

theorem pe_explicit_spec (cls : Cls) (eq : PrimitiveEquations K M N) (H : OpsClosed eq.ops Mk S)
    (ho : eq.orography ∈ Mk) (V : VertShaped eq n) (hk : NeedsKeys cls ks)
    (s : StateWithTime K M) (hs : PEQ S n ks s) :
    ∃ r, explicitOf cls eq s = some r ∧ PEQ S n ks r ∧ r.simTime = clockRate K cls := by
  obtain ⟨r, hr, hsh⟩ := explicitOf_defined cls eq V hk s hs.sh
  obtain ⟨h1, h2⟩ := explicitOf_spec cls eq H ho s r hr
  exact ⟨r, hr, ⟨h1, hsh⟩, h2⟩

theorem pe_implicit_spec (eq : PrimitiveEquations K M N) (H : OpsClosed eq.ops Mk S)
    (V : VertShaped eq n) (s : StateWithTime K M) (hs : PEQ S n ks s) :
    PEQ S n ks (implicitOf eq s) ∧ (implicitOf eq s).simTime = 0 :=
  ⟨⟨implicitTerms_mem eq H hs.mem, implicitTerms_shaped eq V hs.sh⟩, rfl⟩

theorem pe_inverse_spec (eq : PrimitiveEquations K M N) (H : OpsClosed eq.ops Mk S)
    (V : VertShaped eq n) (invOf : K → ℕ → List (List K)) (hI : InvShaped eq n invOf)
    (s : StateWithTime K M) (η : K) (hs : PEQ S n ks s) :
    PEQ S n ks (inverseOf eq invOf s η) ∧ (inverseOf eq invOf s η).simTime = s.simTime :=
  ⟨⟨implicitInverse_mem eq H (invOf η) hs.mem, implicitInverse_shaped eq V (invOf η) (hI η) hs.sh⟩,
    rfl⟩

/-- **the closure hypotheses of T11.2 hold for every class** (clock frame): under the structural
 hypotheses on the horizontal record (`OpsClosed` for a pair `Mk ⊇ S`: `Mk` = mask on unpadded
 layouts, mask + first padding column on padded ones — `toyPEp_respects`), for orography in `Mk`,
 for any supplied matrix inverses of the right size (`InvShaped`: at least `2n+1` rows), on the
 records with `n` levels that carry the tracer keys the class needs (`NeedsKeys cls ks`; the frame
 predicate replaces the hypothesis "`explicit_terms` never raises", which is false for the moist
 classes) -/
theorem pe_respects_clock (cls : Cls) (eq : PrimitiveEquations K M N) (H : OpsClosed eq.ops Mk S)
    (ho : eq.orography ∈ Mk) (V : VertShaped eq n) (hk : NeedsKeys cls ks)
    (invOf : K → Nat → List (List K)) (hI : InvShaped eq n invOf) :
    Respects (clockObs S n ks).frame (clockRate K cls) (peImEx cls eq invOf) :=
  (clockObs S n ks).respects (clockRate K cls) (explicitOf cls eq) (implicitOf eq)
    (inverseOf eq invOf)
    (fun s hs => pe_explicit_spec cls eq H ho V hk s hs)
    (fun s hs => pe_implicit_spec eq H V s hs)
    (fun s η hs => pe_inverse_spec eq H V invOf hI s η hs)

/-- **`Inv` after any history (primitive equations, executable model, all four classes)**: start
 from any record with `n` levels and the tracer keys the class needs whose spectral leaves lie in
 `S`; after any list of steps of the one-state integrators with any filters that respect the frame
 (`filterPE_filterOk_clock`: the exponential and horizontal-diffusion filters do), no exception was
 raised, the result is again such a record and its `sim_time` is `t₀ + Σ dtᵢ·advᵢ`
 (`advᵢ = 1` for Euler, CN-RK2, RK3, SIL3 by `clock_tables`) -/
theorem pe_inv_after_any_history (cls : Cls) (eq : PrimitiveEquations K M N)
    (H : OpsClosed eq.ops Mk S) (ho : eq.orography ∈ Mk) (V : VertShaped eq n)
    (hk : NeedsKeys cls ks) (invOf : K → Nat → List (List K)) (hI : InvShaped eq n invOf)
    (h2 : (1 + 1 : K) ≠ 0) (hist : List (Entry K (TM (StateWithTime K M))))
    (hf : ∀ en ∈ hist, ∀ g ∈ en.filters, FilterOk (clockObs S n ks).frame g)
    (s₀ : StateWithTime K M) (hs₀ : PEQ S n ks s₀) (u' : TM (StateWithTime K M))
    (hrun : runHistory (peImEx cls eq invOf) hist (.val s₀) = some u') :
    ∃ s', u' = .val s' ∧ PEQ S n ks s' ∧
      s'.simTime = s₀.simTime + historyAdv hist * clockRate K cls := by
  obtain ⟨s', e, hQ, hω⟩ := (clockObs S n ks).history
    (pe_respects_clock cls eq H ho V hk invOf hI) h2 hist hf s₀ hs₀ u' hrun
  exact ⟨s', e, hQ, by simpa using hω⟩

/-- **`Inv` after `k` leapfrog steps (all four classes)**: from a pair of records one `dt` apart;
 any `α`, any list of `leapfrog_step_filter`s of frame-respecting filters and Robert–Asselin filters -/
theorem pe_leapfrog_inv_after_k_steps (cls : Cls) (eq : PrimitiveEquations K M N)
    (H : OpsClosed eq.ops Mk S) (ho : eq.orography ∈ Mk) (V : VertShaped eq n)
    (hk : NeedsKeys cls ks) (invOf : K → Nat → List (List K)) (hI : InvShaped eq n invOf)
    (dt α : K) (filters : List (LfFilter K (TM (StateWithTime K M))))
    (hf : ∀ flt ∈ filters, ∀ g, flt = LfFilter.state g → FilterOk (clockObs S n ks).frame g)
    (k : Nat) (p₀ s₀ : StateWithTime K M) (hp₀ : PEQ S n ks p₀) (hs₀ : PEQ S n ks s₀)
    (hpair : s₀.simTime = p₀.simTime + dt * clockRate K cls) :
    ∃ p' s', runLeapfrog (peImEx cls eq invOf) dt α filters k (.val p₀, .val s₀) = (.val p', .val s')
      ∧ PEQ S n ks p' ∧ PEQ S n ks s' ∧
      s'.simTime = s₀.simTime + k * dt * clockRate K cls ∧
      s'.simTime = p'.simTime + dt * clockRate K cls := by
  obtain ⟨p', s', e, h1, h2, h3, h4⟩ := (clockObs S n ks).leapfrog_history
    (pe_respects_clock cls eq H ho V hk invOf hI) dt α filters hf k p₀ s₀ hp₀ hs₀
    (by simpa using hpair)
  exact ⟨p', s', e, h1, h2, by simpa using h3, by simpa using h4⟩

/-! ### the state filters of `filtering.py` respect the frames (review finding 5) -/

theorem stateAll_mapLevels (g : M → M) (hg : ∀ x ∈ S, g x ∈ S) {a : State M}
    (ha : StateAll (· ∈ S) a) : StateAll (· ∈ S) (State.mapLevels g a) :=
  ⟨allP_map _ ha.1 hg, allP_map _ ha.2.1 hg, allP_map _ ha.2.2.1 hg, hg _ ha.2.2.2.1,
    tracersAll_map_of _ ha.2.2.2.2 fun _ hx => allP_map _ hx hg⟩

theorem filterPE_simTime (h : HOps K M N) (scal : List K) (s : StateWithTime K M) :
    (filterPE h scal s).simTime = s.simTime := by
  unfold filterPE
  simp only []
  rw [C15.filterLeaf_scalar [scal.length] scal [s.simTime] (by simp)]
  rfl

theorem filterPE_PEQ (eq : PrimitiveEquations K M N) (H : OpsClosed eq.ops Mk S) (scal : List K)
    {s : StateWithTime K M} (hs : PEQ S n ks s) : PEQ S n ks (filterPE eq.ops scal s) :=
  ⟨stateAll_mapLevels _ (fun _ hx => filterLevel_mem H scal hx) hs.mem, hs.sh.mapLevels _⟩

/-- **`FilterOk` discharged (clock frame)**: `filtering._make_filter_fn(scaling)` lifted to
 `tree_math` vectors — for ANY 1-D scaling, in particular those of `exponential_filter`,
 `exponential_step_filter`, `horizontal_diffusion_filter`, `horizontal_diffusion_step_filter` —
 maps records in `S` to records in `S` (it acts per total wavenumber) and leaves `sim_time` alone
 (`_preserves_shape`: C15).  The Robert–Asselin filter is handled inside the leapfrog theorems
 (`robertAsselin_atPair`) without any hypothesis -/
theorem filterPE_filterOk_clock (eq : PrimitiveEquations K M N) (H : OpsClosed eq.ops Mk S)
    (scal : List K) : FilterOk (clockObs S n ks).frame (TM.lift (filterPE eq.ops scal)) :=
  (clockObs S n ks).filterOk_lift _ fun s hs =>
    ⟨filterPE_PEQ eq H scal hs, filterPE_simTime eq.ops scal s⟩

end glue

/-! ## `(ζ, δ)₀₀` along trajectories (review finding 4) -/
section mean00
variable {K M N : Type} [Field K] [AddCommGroup M] [Module K M]
  [Add N] [Sub N] [Neg N] [Zero N] [Mul N] [One N] [SMul K N] [Div N] [BEq K]
variable {Mk S : Submodule K M} {n : ℕ} {ks : List String} {ℓ : M →ₗ[K] K}

/-- the classes without humidity corrections (the moist corrections put quadrature-level values
 into `(ζ, δ)₀₀`: stated to rounding in the harness, no theorem) -/
def isDryCls : Cls → Prop
  | .dry => True
  | .time => True
  | _ => False

theorem explicitOf_dry_state {cls : Cls} (hc : isDryCls cls) (eq : PrimitiveEquations K M N)
    (s r : StateWithTime K M) (h : explicitOf cls eq s = some r) :
    r.state = eq.explicitTerms s.state := by
  cases cls with
  | dry => simp only [explicitOf, Option.some.injEq] at h; subst h; rfl
  | time => simp only [explicitOf, Option.some.injEq] at h; subst h; rfl
  | moist => exact absurd hc (by simp [isDryCls])
  | cloud => exact absurd hc (by simp [isDryCls])

/-- **`Respects (…(ζ | δ)₀₀ of level i…) 0 (peImEx …)`** for the dry classes: the explicit and the
 implicit `(ζ, δ)` tendencies have zero `(0,0)` coefficient (Stokes / Gauss), the implicit inverse
 passes `ζ` through literally and `δ₀₀` because the divergence rows of `1 − ηL` at `l = 0` are
 identity rows (`implicitInverse_passes_div00`, by the C03 right-inverse theorem); `Inv0Ok` is the
 contract on `numpy.linalg.inv` for total wavenumber `0` -/
theorem pe_respects_mean00 (cls : Cls) (hc : isDryCls cls) (eq : PrimitiveEquations K M N)
    (H : OpsClosed eq.ops Mk S) (ho : eq.orography ∈ Mk) (V : VertShaped eq n)
    (H0 : Mode0 eq.ops ℓ) (invOf : K → Nat → List (List K)) (hI : InvShaped eq n invOf)
    (h0 : ∀ η, Inv0Ok eq n η (invOf η 0)) (f : PEField) (i : ℕ) :
    Respects (mean00Obs S n ks ℓ f i).frame 0 (peImEx cls eq invOf) := by
  have hk : NeedsKeys cls ks := by cases cls <;> trivial
  refine (mean00Obs S n ks ℓ f i).respects 0 (explicitOf cls eq) (implicitOf eq) (inverseOf eq invOf)
    ?_ ?_ ?_
  · intro s hs
    obtain ⟨r, hr, hQ, _⟩ := pe_explicit_spec cls eq H ho V hk s hs
    refine ⟨r, hr, hQ, ?_⟩
    have hm := explicitTerms_mean0 eq H0.mean0 s.state
    rw [mean00Obs_ω, explicitOf_dry_state hc eq s r hr]
    cases f
    · exact getD_kerOf hm.1 i
    · exact getD_kerOf hm.2 i
  · intro s hs
    refine ⟨(pe_implicit_spec eq H V s hs).1, ?_⟩
    have hm := implicitTerms_mean0 eq H0.mean0 s.state
    rw [mean00Obs_ω]
    cases f
    · exact getD_kerOf hm.1 i
    · exact getD_kerOf hm.2 i
  · intro s η hs
    refine ⟨(pe_inverse_spec eq H V invOf hI s η hs).1, ?_⟩
    rw [mean00Obs_ω, mean00Obs_ω]
    cases f
    · rfl
    · exact getD_map_eq (implicitInverse_passes_div00 eq H0 V η (invOf η) (hI η) (h0 η) hs.sh) i

/-- **`FilterOk` discharged (mean frames)**: a scaling that is one at total wavenumber zero
 (`expScaling_zero`, `diffScaling_zero`: the exponential filter with a non-negative cutoff, the
 horizontal diffusion filter of order ≥ 1, and their step-filter forms) fixes the `(0,0)`
 coefficient of every level -/
theorem filterPE_filterOk_mean00 (eq : PrimitiveEquations K M N) (H : OpsClosed eq.ops Mk S)
    (H0 : Mode0 eq.ops ℓ) (scal : List K) (h1 : scal.getD 0 0 = 1) (f : PEField) (i : ℕ) :
    FilterOk (mean00Obs S n ks ℓ f i).frame (TM.lift (filterPE eq.ops scal)) :=
  (mean00Obs S n ks ℓ f i).filterOk_lift _ fun s hs => by
    refine ⟨filterPE_PEQ eq H scal hs, ?_⟩
    rw [mean00Obs_ω, mean00Obs_ω]
    have hg : ∀ (l : List M), ℓ ((l.map (filterLevel eq.ops scal)).getD i 0) = ℓ (l.getD i 0) := by
      intro l
      rw [List.getD_eq_getElem?_getD, List.getD_eq_getElem?_getD, List.getElem?_map]
      cases l[i]? with
      | none => rfl
      | some v => exact map_filterLevel H0 scal h1 v
    cases f <;> exact hg _

/-- **global means of vorticity and divergence never change** (dry classes): after ANY history of
 filtered steps of the one-state integrators the `(0,0)` coefficient of every level of `ζ` and of
 `δ` is the initial one -/
theorem pe_mean00_after_any_history (cls : Cls) (hc : isDryCls cls) (eq : PrimitiveEquations K M N)
    (H : OpsClosed eq.ops Mk S) (ho : eq.orography ∈ Mk) (V : VertShaped eq n)
    (H0 : Mode0 eq.ops ℓ) (invOf : K → Nat → List (List K)) (hI : InvShaped eq n invOf)
    (h0 : ∀ η, Inv0Ok eq n η (invOf η 0)) (h2 : (1 + 1 : K) ≠ 0) (f : PEField) (i : ℕ)
    (hist : List (Entry K (TM (StateWithTime K M))))
    (hf : ∀ en ∈ hist, ∀ g ∈ en.filters, FilterOk (mean00Obs S n ks ℓ f i).frame g)
    (s₀ : StateWithTime K M) (hs₀ : PEQ S n ks s₀) (u' : TM (StateWithTime K M))
    (hrun : runHistory (peImEx cls eq invOf) hist (.val s₀) = some u') :
    ∃ s', u' = .val s' ∧ PEQ S n ks s' ∧
      ℓ ((f.get s'.state).getD i 0) = ℓ ((f.get s₀.state).getD i 0) := by
  obtain ⟨s', e, hQ, hω⟩ := (mean00Obs S n ks ℓ f i).history
    (pe_respects_mean00 cls hc eq H ho V H0 invOf hI h0 f i) h2 hist hf s₀ hs₀ u' hrun
  exact ⟨s', e, hQ, by simpa using hω⟩

/-- the same for `k` leapfrog steps with step filters and Robert–Asselin filters, from a pair of
 records with equal `(0,0)` coefficients -/
theorem pe_mean00_after_k_leapfrog_steps (cls : Cls) (hc : isDryCls cls)
    (eq : PrimitiveEquations K M N) (H : OpsClosed eq.ops Mk S) (ho : eq.orography ∈ Mk)
    (V : VertShaped eq n) (H0 : Mode0 eq.ops ℓ) (invOf : K → Nat → List (List K))
    (hI : InvShaped eq n invOf) (h0 : ∀ η, Inv0Ok eq n η (invOf η 0)) (f : PEField) (i : ℕ)
    (dt α : K) (filters : List (LfFilter K (TM (StateWithTime K M))))
    (hf : ∀ flt ∈ filters, ∀ g, flt = LfFilter.state g →
      FilterOk (mean00Obs S n ks ℓ f i).frame g)
    (k : Nat) (p₀ s₀ : StateWithTime K M) (hp₀ : PEQ S n ks p₀) (hs₀ : PEQ S n ks s₀)
    (hpair : ℓ ((f.get s₀.state).getD i 0) = ℓ ((f.get p₀.state).getD i 0)) :
    ∃ p' s', runLeapfrog (peImEx cls eq invOf) dt α filters k (.val p₀, .val s₀) = (.val p', .val s')
      ∧ PEQ S n ks p' ∧ PEQ S n ks s' ∧
      ℓ ((f.get s'.state).getD i 0) = ℓ ((f.get s₀.state).getD i 0) ∧
      ℓ ((f.get p'.state).getD i 0) = ℓ ((f.get s₀.state).getD i 0) := by
  obtain ⟨p', s', e, h1, h2, h3, h4⟩ := (mean00Obs S n ks ℓ f i).leapfrog_history
    (pe_respects_mean00 cls hc eq H ho V H0 invOf hI h0 f i) dt α filters hf k p₀ s₀ hp₀ hs₀
    (by simpa using hpair)
  have h3' : ℓ ((f.get s'.state).getD i 0) = ℓ ((f.get s₀.state).getD i 0) := by simpa using h3
  have h4' : ℓ ((f.get s'.state).getD i 0) = ℓ ((f.get p'.state).getD i 0) := by simpa using h4
  exact ⟨p', s', e, h1, h2, h3', by rw [← h4', h3']⟩

end mean00

/-! ## a uniform tracer stays uniform along trajectories (review finding 6) -/
section uniformHistory
variable {K M N : Type} [Field K] [AddCommGroup M] [Module K M] [CommRing N] [Algebra K N] [Div N]
  [BEq K]
variable {Mk S : Submodule K M} {n : ℕ} {ks : List String} {ℓ : M →ₗ[K] K} {name : String} {u : M}

/-- what T11.4 needs of the horizontal record along a trajectory: linearity, the unit mode `u`
 (a field in `S` seen only by total wavenumber `0` whose nodal values are one), and
 `clip(div_sec_lat(u, v)) = clip(to_modal(to_nodal δ))` for the wind `(u, v)` of `(ζ, δ)` in `S` with
 zero mean divergence (`roundtrip` and `div(uv) = δ`; validated on the real grids, linear
 truncations included) -/
structure UniformOk (h : HOps K M N) (S : Submodule K M) (ℓ : M →ₗ[K] K) (u : M) : Prop where
  toNodal_lin : IsLinearMap K h.toNodal
  toModal_lin : IsLinearMap K h.toModal
  dDlon_lin : IsLinearMap K h.dDlon
  secLat_lin : IsLinearMap K h.secLatDDlatCos2
  clip_lin : IsLinearMap K h.clip
  toNodal_unit : h.toNodal u = 1
  lproj_unit_zero : ∀ q : K, h.lproj 0 (q • u) = q • u
  lproj_unit_pos : ∀ l, 0 < l → l < h.nL → ∀ q : K, h.lproj l (q • u) = 0
  div_uv : ∀ z d, z ∈ S → d ∈ S → ℓ d = 0 →
    h.clip (h.divSecLat (h.toNodal (h.cosLatVector false z d).1)
      (h.toNodal (h.cosLatVector false z d).2)) = h.clip (h.toModal (h.toNodal d))

/-- a filter scaling that is one at `l = 0` fixes every multiple of the unit mode -/
theorem filterLevel_unit {h : HOps K M N} (U : UniformOk h S ℓ u) (hpos : 0 < h.nL) (scal : List K)
    (h1 : scal.getD 0 0 = 1) (q : K) : filterLevel h scal (q • u) = q • u := by
  unfold filterLevel
  split
  · unfold DynamicsSW.lmul
    obtain ⟨m, hm⟩ : ∃ m, h.nL = m + 1 := ⟨h.nL - 1, by omega⟩
    rw [hm, List.range_succ_eq_map, List.map_cons, List.foldl_cons, zero_add, U.lproj_unit_zero]
    simp only [h1, one_smul]
    apply foldl_add_zeros
    intro x hx
    simp only [List.map_map, List.mem_map, List.mem_range, Function.comp_apply] at hx
    obtain ⟨i, hi, rfl⟩ := hx
    rw [U.lproj_unit_pos (i + 1) (by omega) (by omega), smul_zero]
  · rfl

theorem explicitTerms_tracers (eq : PrimitiveEquations K M N) (s : State M) :
    (eq.explicitTerms s).tracers
      = mapTracers (fun x => x.map eq.ops.clip)
          (mapTracers (eq.tracerTendency (computeDiagnosticState eq.ops eq.vert s))
            (mapTracers (fun x => x.map eq.ops.toNodal) s.tracers)) := rfl

/-- **the explicit tendency of a uniform tracer is the zero column**, for every record of the
 frame `UQ` (any `ζ`, `δ` in `S` with zero mean divergence) -/
theorem uniform_tracer_explicit_zero (eq : PrimitiveEquations K M N) (V : VertShaped eq n)
    (U : UniformOk eq.ops S ℓ u) {s : StateWithTime K M} (hs : UQ S n ks ℓ name u s) :
    lookup name (eq.explicitTerms s.state).tracers = some (List.replicate n ((0 : K) • u)) := by
  obtain ⟨q, hq⟩ := hs.unif
  have A := diagLen eq V hs.pe.sh
  rw [explicitTerms_tracers, lookup_mapTracers, lookup_mapTracers, lookup_mapTracers, hq]
  simp only [Option.map_some, Option.some.injEq, List.map_replicate]
  have hN : eq.ops.toNodal (q • u) = (constN q : N) := by
    rw [U.toNodal_lin.map_smul, U.toNodal_unit]; rfl
  rw [hN]
  have hz := uniform_tracer_tendency_zero eq U.toModal_lin U.dDlon_lin U.secLat_lin U.clip_lin
    (computeDiagnosticState eq.ops eq.vert s.state) q n
    (by
      intro i h1 h2 h3
      have hi : i < n := by rw [← A.d]; exact h3
      have hzl : i < s.state.vorticity.length := by rw [hs.pe.sh.z]; exact hi
      have hdl : i < s.state.divergence.length := by rw [hs.pe.sh.d]; exact hi
      have := U.div_uv (s.state.vorticity[i]) (s.state.divergence[i])
        (hs.pe.mem.1 _ (List.getElem_mem _)) (hs.pe.mem.2.1 _ (List.getElem_mem _))
        (hs.d0 _ (List.getElem_mem _))
      simpa [computeDiagnosticState] using this)
  have hl : ((eq.tracerTendency (computeDiagnosticState eq.ops eq.vert s.state)
      (List.replicate n (constN q : N))).map eq.ops.clip).length = n := by
    rw [List.length_map]
    exact tracerTendency_length eq V A (by simp)
  rw [eq_replicate_zero hz, hl, zero_smul]


theorem allP_of_map_eq {a b : List M} (h : a.map ℓ = b.map ℓ) (hb : AllP (fun x => ℓ x = 0) b) :
    AllP (fun x => ℓ x = 0) a := by
  intro x hx
  have : ℓ x ∈ b.map ℓ := by rw [← h]; exact List.mem_map_of_mem hx
  obtain ⟨y, hy, e⟩ := List.mem_map.1 this
  rw [← e]; exact hb y hy

/-- **`Respects (uniform tracer frame) 0 (peImEx …)`** for the dry classes: on records of `UQ` the
 explicit tendency of the uniform tracer is the zero column (T11.4), the implicit one is
 `zeros_like`, the implicit inverse passes tracers through; zero mean divergence is preserved
 (Gauss, and `implicitInverse_passes_div00`) -/
theorem pe_respects_uniform (cls : Cls) (hc : isDryCls cls) (eq : PrimitiveEquations K M N)
    (H : OpsClosed eq.ops Mk S) (ho : eq.orography ∈ Mk) (V : VertShaped eq n)
    (H0 : Mode0 eq.ops ℓ) (U : UniformOk eq.ops S ℓ u) (invOf : K → Nat → List (List K))
    (hI : InvShaped eq n invOf) (h0 : ∀ η, Inv0Ok eq n η (invOf η 0)) (name : String) :
    Respects (uniformObs S n ks ℓ name u).frame 0 (peImEx cls eq invOf) := by
  have hk : NeedsKeys cls ks := by cases cls <;> trivial
  refine (uniformObs S n ks ℓ name u).respects 0 (explicitOf cls eq) (implicitOf eq)
    (inverseOf eq invOf) ?_ ?_ ?_
  · intro s hs
    obtain ⟨r, hr, hQ, _⟩ := pe_explicit_spec cls eq H ho V hk s hs.pe
    have hst := explicitOf_dry_state hc eq s r hr
    have hu : lookup name r.state.tracers = some (List.replicate n ((0 : K) • u)) := by
      rw [hst]; exact uniform_tracer_explicit_zero eq V U hs
    refine ⟨r, hr, ⟨hQ, ?_, ⟨0, hu⟩⟩, ?_⟩
    · rw [hst]
      exact (explicitTerms_mean0 eq H0.mean0 s.state).2
    · rw [uniformObs_ω, tracer0_of_unif hu]
      split <;> simp
  · intro s hs
    obtain ⟨q, hq⟩ := hs.unif
    have hu : lookup name (implicitOf eq s).state.tracers = some (List.replicate n ((0 : K) • u)) := by
      show lookup name (mapTracers Col.zerosLike s.state.tracers) = _
      rw [lookup_mapTracers, hq]
      simp [Col.zerosLike]
    refine ⟨⟨(pe_implicit_spec eq H V s hs.pe).1, (implicitTerms_mean0 eq H0.mean0 s.state).2,
      ⟨0, hu⟩⟩, ?_⟩
    rw [uniformObs_ω, tracer0_of_unif hu]
    split <;> simp
  · intro s η hs
    refine ⟨⟨(pe_inverse_spec eq H V invOf hI s η hs.pe).1, ?_, hs.unif⟩, rfl⟩
    exact allP_of_map_eq
      (implicitInverse_passes_div00 eq H0 V η (invOf η) (hI η) (h0 η) hs.pe.sh) hs.d0

/-- the state filters with a scaling equal to one at `l = 0` respect the uniform-tracer frame -/
theorem filterPE_filterOk_uniform (eq : PrimitiveEquations K M N) (H : OpsClosed eq.ops Mk S)
    (H0 : Mode0 eq.ops ℓ) (U : UniformOk eq.ops S ℓ u) (scal : List K) (h1 : scal.getD 0 0 = 1)
    (name : String) :
    FilterOk (uniformObs S n ks ℓ name u).frame (TM.lift (filterPE eq.ops scal)) :=
  (uniformObs S n ks ℓ name u).filterOk_lift _ fun s hs => by
    obtain ⟨q, hq⟩ := hs.unif
    have hu : lookup name (filterPE eq.ops scal s).state.tracers
        = some (List.replicate n (q • u)) := by
      show lookup name (mapTracers (fun x => x.map (filterLevel eq.ops scal)) s.state.tracers) = _
      rw [lookup_mapTracers, hq]
      simp [filterLevel_unit U H0.nL_pos scal h1]
    refine ⟨⟨filterPE_PEQ eq H scal hs.pe, ?_, ⟨q, hu⟩⟩, ?_⟩
    · exact allP_map _ hs.d0 fun x hx => by rw [map_filterLevel H0 scal h1]; exact hx
    · rw [uniformObs_ω, uniformObs_ω, tracer0_of_unif hu, tracer0_of_unif hq]

/-- **a horizontally and vertically uniform tracer stays uniform, with the same value, after ANY
 history of filtered steps** (dry classes; records with zero mean divergence, which is itself
 preserved) -/
theorem pe_uniform_tracer_after_any_history (cls : Cls) (hc : isDryCls cls)
    (eq : PrimitiveEquations K M N) (H : OpsClosed eq.ops Mk S) (ho : eq.orography ∈ Mk)
    (V : VertShaped eq n) (H0 : Mode0 eq.ops ℓ) (U : UniformOk eq.ops S ℓ u)
    (invOf : K → Nat → List (List K)) (hI : InvShaped eq n invOf)
    (h0 : ∀ η, Inv0Ok eq n η (invOf η 0)) (h2 : (1 + 1 : K) ≠ 0) (name : String) (q : K)
    (hist : List (Entry K (TM (StateWithTime K M))))
    (hf : ∀ en ∈ hist, ∀ g ∈ en.filters, FilterOk (uniformObs S n ks ℓ name u).frame g)
    (s₀ : StateWithTime K M) (hs₀ : PEQ S n ks s₀)
    (hd₀ : AllP (fun x => ℓ x = 0) s₀.state.divergence)
    (hu₀ : lookup name s₀.state.tracers = some (List.replicate n (q • u)))
    (u' : TM (StateWithTime K M))
    (hrun : runHistory (peImEx cls eq invOf) hist (.val s₀) = some u') :
    ∃ s', u' = .val s' ∧ PEQ S n ks s' ∧ AllP (fun x => ℓ x = 0) s'.state.divergence ∧
      lookup name s'.state.tracers = some (List.replicate n (q • u)) := by
  obtain ⟨s', e, hQ, hω⟩ := (uniformObs S n ks ℓ name u).history
    (pe_respects_uniform cls hc eq H ho V H0 U invOf hI h0 name) h2 hist hf s₀
    ⟨hs₀, hd₀, ⟨q, hu₀⟩⟩ u' hrun
  obtain ⟨q', hq'⟩ := hQ.unif
  refine ⟨s', e, hQ.pe, hQ.d0, ?_⟩
  rw [uniformObs_ω, uniformObs_ω, tracer0_of_unif hq', tracer0_of_unif hu₀, smul_zero, add_zero,
    if_pos V.pos, if_pos V.pos] at hω
  rw [hq', hω]

/-- the same for `k` leapfrog steps with step filters and Robert–Asselin filters, from two records
 carrying the same uniform tracer -/
theorem pe_uniform_tracer_after_k_leapfrog_steps (cls : Cls) (hc : isDryCls cls)
    (eq : PrimitiveEquations K M N) (H : OpsClosed eq.ops Mk S) (ho : eq.orography ∈ Mk)
    (V : VertShaped eq n) (H0 : Mode0 eq.ops ℓ) (U : UniformOk eq.ops S ℓ u)
    (invOf : K → Nat → List (List K)) (hI : InvShaped eq n invOf)
    (h0 : ∀ η, Inv0Ok eq n η (invOf η 0)) (name : String) (q : K) (dt α : K)
    (filters : List (LfFilter K (TM (StateWithTime K M))))
    (hf : ∀ flt ∈ filters, ∀ g, flt = LfFilter.state g →
      FilterOk (uniformObs S n ks ℓ name u).frame g)
    (k : Nat) (p₀ s₀ : StateWithTime K M) (hp₀ : PEQ S n ks p₀) (hs₀ : PEQ S n ks s₀)
    (hdp : AllP (fun x => ℓ x = 0) p₀.state.divergence)
    (hds : AllP (fun x => ℓ x = 0) s₀.state.divergence)
    (hup : lookup name p₀.state.tracers = some (List.replicate n (q • u)))
    (hus : lookup name s₀.state.tracers = some (List.replicate n (q • u))) :
    ∃ p' s', runLeapfrog (peImEx cls eq invOf) dt α filters k (.val p₀, .val s₀) = (.val p', .val s')
      ∧ PEQ S n ks s' ∧ lookup name s'.state.tracers = some (List.replicate n (q • u)) := by
  obtain ⟨p', s', e, _, hQ, hω, _⟩ := (uniformObs S n ks ℓ name u).leapfrog_history
    (pe_respects_uniform cls hc eq H ho V H0 U invOf hI h0 name) dt α filters hf k p₀ s₀
    ⟨hp₀, hdp, ⟨q, hup⟩⟩ ⟨hs₀, hds, ⟨q, hus⟩⟩
    (by rw [uniformObs_ω, uniformObs_ω, tracer0_of_unif hup, tracer0_of_unif hus, smul_zero,
      add_zero])
  obtain ⟨q', hq'⟩ := hQ.unif
  refine ⟨p', s', e, hQ.pe, ?_⟩
  rw [uniformObs_ω, uniformObs_ω, tracer0_of_unif hq', tracer0_of_unif hus, smul_zero, add_zero,
    if_pos V.pos, if_pos V.pos] at hω
  rw [hq', hω]

end uniformHistory

/-! ## shallow water (review finding 3): the model is `Dino.DynamicsSW`, shared with C05 / C10 / C12 -/
section shallowWater
open Dino.DynamicsSW
variable {K M N : Type} [Field K] [LT K] [DecidableLT K] [AddCommGroup M] [Module K M]
  [Add N] [Sub N] [Neg N] [Zero N] [Mul N] [One N] [SMul K N]
variable {Mk S : Submodule K M} {n : ℕ} {ℓ : M →ₗ[K] K} {D : Submodule K K}

theorem sw_imex_eq (eq : ShallowWaterEquations K M N) :
    SW.imex eq = { F := TM.liftO fun s => some (eq.explicitTerms s)
                   G := TM.lift eq.implicitTerms
                   Ginv := fun x η => TM.lift (fun s => eq.implicitInverse η s) x } := by
  have e : (TM.lift eq.explicitTerms : TM (DynamicsSW.State M) → TM (DynamicsSW.State M))
      = TM.liftO fun s => some (eq.explicitTerms s) := by
    funext x
    cases x <;> rfl
  unfold SW.imex
  rw [e]

/-- **T11.1 / T11.2 for `ShallowWaterEquations`**: on records with `n` layers whose leaves lie in
 `S` (masked, top wavenumber clipped) the explicit terms, the implicit terms and the Schur-complement
 inverse stay in `S`; the `(0,0)` coefficient of every level of `ζ` and `δ` has zero tendency and is
 passed through by the inverse; so has that of the potential `φ` (the mean layer thickness) on
 the records of zero mean divergence (`D = ⊥`), a condition that is itself preserved -/
theorem sw_respects (eq : ShallowWaterEquations K M N) (H : OpsClosed eq.ops Mk S)
    (H0 : Mode0 eq.ops ℓ) (ho : ∀ o, eq.orography = some o → o ∈ Mk) (E : SWEqShaped eq n)
    (f : SWField) (i : ℕ) (hD : f = .potential → D = ⊥) :
    Respects (swObs S n ℓ D f i).frame 0 (SW.imex eq) := by
  rw [sw_imex_eq]
  refine (swObs S n ℓ D f i).respects 0 _ _ (fun s η => eq.implicitInverse η s) ?_ ?_ ?_
  · intro s hs
    exact ⟨_, rfl, sw_explicit_spec eq H H0 ho E hs f i⟩
  · intro s hs
    obtain ⟨h1, h2, h3, h4⟩ := sw_implicit_spec eq H H0 E hs
    refine ⟨h1, ?_⟩
    cases f
    · exact h2 i
    · exact h3 i
    · exact h4 (hD rfl) i
  · intro s η hs
    obtain ⟨h1, h2, h3, h4⟩ := sw_inverse_spec eq H H0 E η hs
    refine ⟨h1, ?_⟩
    cases f
    · show ℓ ((eq.implicitInverse η s).vorticity.getD i 0) = _
      rw [h2]; rfl
    · exact h3 i
    · exact h4 (hD rfl) i

/-- the state filters on shallow-water records respect every frame of `sw_respects` when the scaling
 is one at total wavenumber zero -/
theorem filterSW_filterOk (eq : ShallowWaterEquations K M N) (H : OpsClosed eq.ops Mk S)
    (H0 : Mode0 eq.ops ℓ) (scal : List K) (h1 : scal.getD 0 0 = 1) (f : SWField) (i : ℕ) :
    FilterOk (swObs S n ℓ D f i).frame (TM.lift (filterSW eq.ops scal)) :=
  (swObs S n ℓ D f i).filterOk_lift _ fun _ hs => filterSW_spec eq H H0 scal h1 hs f i

/-- **shallow water, any history of leapfrog steps**: `k` steps of `semi_implicit_leapfrog` (any
 `α`), each followed by any list of `leapfrog_step_filter`s of frame-respecting filters and
 Robert–Asselin filters, started from two records in `S` with equal `(0,0)` coefficients: both
 members stay in `S` (mask / clip closure), and the `(0,0)` coefficient of level `i` of the chosen
 field — `ζ`, `δ`, or (with `D = ⊥`, zero mean divergence) the potential `φ`, i.e. the mean layer
 thickness — is the initial one -/
theorem sw_inv_after_k_leapfrog_steps (eq : ShallowWaterEquations K M N)
    (H : OpsClosed eq.ops Mk S) (H0 : Mode0 eq.ops ℓ) (ho : ∀ o, eq.orography = some o → o ∈ Mk)
    (E : SWEqShaped eq n) (f : SWField) (i : ℕ) (hD : f = .potential → D = ⊥) (dt α : K)
    (filters : List (LfFilter K (TM (DynamicsSW.State M))))
    (hf : ∀ flt ∈ filters, ∀ g, flt = LfFilter.state g → FilterOk (swObs S n ℓ D f i).frame g)
    (k : Nat) (p₀ s₀ : DynamicsSW.State M) (hp₀ : SWQ S n ℓ D p₀) (hs₀ : SWQ S n ℓ D s₀)
    (hpair : ℓ ((f.get s₀).getD i 0) = ℓ ((f.get p₀).getD i 0)) :
    ∃ p' s', runLeapfrog (SW.imex eq) dt α filters k (.val p₀, .val s₀) = (.val p', .val s') ∧
      SWQ S n ℓ D p' ∧ SWQ S n ℓ D s' ∧
      ℓ ((f.get s').getD i 0) = ℓ ((f.get s₀).getD i 0) ∧
      ℓ ((f.get p').getD i 0) = ℓ ((f.get s₀).getD i 0) := by
  obtain ⟨p', s', e, h1, h2, h3, h4⟩ := (swObs S n ℓ D f i).leapfrog_history
    (sw_respects eq H H0 ho E f i hD) dt α filters hf k p₀ s₀ hp₀ hs₀
    (by simpa [swObs] using hpair)
  have h3' : ℓ ((f.get s').getD i 0) = ℓ ((f.get s₀).getD i 0) := by simpa [swObs] using h3
  have h4' : ℓ ((f.get s').getD i 0) = ℓ ((f.get p').getD i 0) := by simpa [swObs] using h4
  exact ⟨p', s', e, h1, h2, h3', by rw [← h4', h3']⟩

/-- the same for any history of the one-state integrators -/
theorem sw_inv_after_any_history (eq : ShallowWaterEquations K M N)
    (H : OpsClosed eq.ops Mk S) (H0 : Mode0 eq.ops ℓ) (ho : ∀ o, eq.orography = some o → o ∈ Mk)
    (E : SWEqShaped eq n) (f : SWField) (i : ℕ) (hD : f = .potential → D = ⊥)
    (h2 : (1 + 1 : K) ≠ 0) (hist : List (Entry K (TM (DynamicsSW.State M))))
    (hf : ∀ en ∈ hist, ∀ g ∈ en.filters, FilterOk (swObs S n ℓ D f i).frame g)
    (s₀ : DynamicsSW.State M) (hs₀ : SWQ S n ℓ D s₀) (u' : TM (DynamicsSW.State M))
    (hrun : runHistory (SW.imex eq) hist (.val s₀) = some u') :
    ∃ s', u' = .val s' ∧ SWQ S n ℓ D s' ∧ ℓ ((f.get s').getD i 0) = ℓ ((f.get s₀).getD i 0) := by
  obtain ⟨s', e, hQ, hω⟩ := (swObs S n ℓ D f i).history
    (sw_respects eq H H0 ho E f i hD) h2 hist hf s₀ hs₀ u' hrun
  exact ⟨s', e, hQ, by simpa [swObs] using hω⟩

end shallowWater

/-! ## non-vacuity: every hypothesis of the history theorems on a concrete non-trivial object
(review findings 1, 2) -/
section examples
open Dino.Invariants.Toy Dino.Dynamics.Toy

/-- a two-layer equation object on the toy grid `toy3` (three total wavenumbers, a mask, a clipped
 top wavenumber), uneven layers, varying reference temperature, orography inside the mask but NOT
 clipped -/
def toyPE : PrimitiveEquations ℚ J J :=
  { ops := toy3
    vert := { boundaries := [0, 1 / 3, 1], logCenters := [-2, -1 / 3] }
    phys := { angularVelocity := 1 / 2, g := 10, R := 3, Rvapor := 5, CpVapor := 18, kappa := 2 / 7 }
    referenceTemperature := [250, 260]
    orography := ⟨1, 2, 3, 4, 0, 5⟩ }

theorem toyPE_vert : VertShaped toyPE 2 := ⟨by decide, rfl, rfl, rfl⟩
theorem toyPE_oro : toyPE.orography ∈ MkJ := rfl

/-- the moist class needs (and this state carries) the humidity key -/
def toyKeys : List String := [specificHumidityKey]

/-- a moving two-layer state in `S` with a non-uniform humidity tracer -/
def toyS0 : StateWithTime ℚ J :=
  { state := { vorticity := [⟨0, 1, 2, 0, 0, 0⟩, ⟨1, 0, 1, 0, 0, 0⟩]
               divergence := [⟨0, 1 / 2, 0, 0, 0, 0⟩, ⟨0, 0, -1, 0, 0, 0⟩]
               temperatureVariation := [⟨1, 0, 1, 0, 0, 0⟩, ⟨2, 1, 0, 0, 0, 0⟩]
               logSurfacePressure := ⟨1 / 2, 1 / 3, 0, 0, 0, 0⟩
               tracers := [(specificHumidityKey, [⟨1 / 100, 0, 0, 0, 0, 0⟩, ⟨1 / 50, 1 / 100, 0, 0, 0, 0⟩])] }
    simTime := 3 }

theorem toyS0_PEQ : PEQ SJ 2 toyKeys toyS0 := by
  have m : ∀ a b : J, a ∈ SJ → b ∈ SJ → AllP (· ∈ SJ) [a, b] := by
    intro a b ha hb x hx
    simp only [List.mem_cons, List.not_mem_nil, or_false] at hx
    rcases hx with rfl | rfl <;> assumption
  refine ⟨⟨m _ _ ⟨rfl, rfl, rfl⟩ ⟨rfl, rfl, rfl⟩, m _ _ ⟨rfl, rfl, rfl⟩ ⟨rfl, rfl, rfl⟩,
    m _ _ ⟨rfl, rfl, rfl⟩ ⟨rfl, rfl, rfl⟩, ⟨rfl, rfl, rfl⟩, ?_⟩, ⟨rfl, rfl, rfl, rfl, ?_⟩⟩
  · intro kv hkv
    simp only [toyS0, List.mem_cons, List.not_mem_nil, or_false] at hkv
    subst hkv
    exact m _ _ ⟨rfl, rfl, rfl⟩ ⟨rfl, rfl, rfl⟩
  · intro kv hkv
    simp only [toyS0, List.mem_cons, List.not_mem_nil, or_false] at hkv
    subst hkv
    rfl

/-- any matrices of the right size may stand for `numpy.linalg.inv` in the structural theorems -/
def toyInv : ℚ → ℕ → List (List ℚ) := fun η l => List.replicate 5 (List.replicate 5 (η + l))

theorem toyInv_shaped : InvShaped toyPE 2 toyInv := by
  intro η l _
  simp [toyInv]

/-- a non-trivial state filter: damps total wavenumber 1 by ½ and 2 by ¼ -/
def toyFilter : TM (StateWithTime ℚ J) → TM (StateWithTime ℚ J) :=
  TM.lift (filterPE toy3 [1, 1 / 2, 1 / 4])

/-- the filter really acts: `x + y` becomes `½x + ½y` -/
example : filterLevel toy3 [1, 1 / 2, 1 / 4] (⟨1, 1, 1, 0, 0, 0⟩ : J) = ⟨1, 1 / 2, 1 / 2, 0, 0, 0⟩ := by
  ext <;> simp [filterLevel, toy3, DynamicsSW.lmul, degProj, List.range, List.range.loop, J.add_def,
    J.smul_def, J.zero_def]

/-- a proper submodule: `S ⊊ Mk ⊊ J` -/
example : (⟨0, 0, 0, 1, 0, 0⟩ : J) ∈ MkJ ∧ (⟨0, 0, 0, 1, 0, 0⟩ : J) ∉ SJ ∧
    (⟨0, 0, 0, 0, 1, 0⟩ : J) ∉ MkJ := SJ_proper

/-- the structural hypotheses on a concrete record with a proper `S` -/
example : OpsClosed toyPE.ops MkJ SJ ∧ Mode0 toyPE.ops c0ℓ := ⟨toy3_closed, toy3_mode0⟩

/-- **a `Respects` instance for a non-trivial equation**: the moist class on the toy grid -/
example : Respects (clockObs SJ 2 toyKeys).frame 1 (peImEx .moist toyPE toyInv) :=
  pe_respects_clock .moist toyPE toy3_closed toyPE_oro toyPE_vert List.mem_cons_self toyInv
    toyInv_shaped

/-- **a `FilterOk` filter** -/
example : FilterOk (clockObs SJ 2 toyKeys).frame toyFilter :=
  filterPE_filterOk_clock toyPE toy3_closed _

/-- the moist explicit terms ARE defined on the frame, and are NOT without the humidity key (the
 former hypothesis `∀ s, (explicitOf cls eq s).isSome` was false) -/
example : (∃ r, explicitOf .moist toyPE toyS0 = some r ∧ Shaped 2 toyKeys r.state) ∧
    explicitOf .moist toyPE { toyS0 with state := { toyS0.state with tracers := [] } } = none :=
  ⟨explicitOf_defined .moist toyPE toyPE_vert List.mem_cons_self toyS0 toyS0_PEQ.sh, rfl⟩

/-- **the moist class, a concrete history** (review finding 1): a filtered backward–forward Euler
 step followed by a Crank–Nicolson RK2 step of `MoistPrimitiveEquations` from `toyS0`: no
 exception, the result is a two-level record in `S` carrying the humidity key, and the clock has
 advanced by `1/10 + 1/5` -/
example : ∃ s', runHistory (peImEx .moist toyPE toyInv)
      [⟨.bfe, 1 / 10, [toyFilter]⟩, ⟨.cnrk2, 1 / 5, []⟩] (.val toyS0) = some (.val s') ∧
    PEQ SJ 2 toyKeys s' ∧ s'.simTime = 3 + 3 / 10 := by
  obtain ⟨u, hu⟩ : ∃ u, runHistory (peImEx .moist toyPE toyInv)
      [⟨.bfe, 1 / 10, [toyFilter]⟩, ⟨.cnrk2, 1 / 5, []⟩] (.val toyS0) = some u := ⟨_, rfl⟩
  obtain ⟨s', e, hQ, ht⟩ := pe_inv_after_any_history .moist toyPE toy3_closed toyPE_oro toyPE_vert
    List.mem_cons_self toyInv toyInv_shaped (by norm_num) _
    (by
      intro en hen g hg
      simp only [List.mem_cons, List.not_mem_nil, or_false] at hen
      rcases hen with rfl | rfl
      · simp only [List.mem_cons, List.not_mem_nil, or_false] at hg
        subst hg
        exact filterPE_filterOk_clock toyPE toy3_closed _
      · simp at hg)
    toyS0 toyS0_PEQ u hu
  refine ⟨s', by rw [hu, e], hQ, ?_⟩
  rw [ht]
  simp only [historyAdv, Scheme.adv, clockRate, toyS0]
  norm_num

/-- **an `AtPair`** and the leapfrog theorem on it: 7 leapfrog steps of the cloud-free moist class with
 a step filter and a Robert–Asselin filter -/
example : ∃ p' s', runLeapfrog (peImEx .moist toyPE toyInv) (1 / 10) (3 / 5)
      [.state toyFilter, .ra (1 / 20)] 7
      (.val { toyS0 with simTime := 3 - 1 / 10 }, .val toyS0) = (.val p', .val s') ∧
    PEQ SJ 2 toyKeys p' ∧ PEQ SJ 2 toyKeys s' ∧ s'.simTime = 3 + 7 / 10 := by
  obtain ⟨p', s', e, h1, h2, h3, _⟩ := pe_leapfrog_inv_after_k_steps .moist toyPE toy3_closed
    toyPE_oro toyPE_vert List.mem_cons_self toyInv toyInv_shaped (1 / 10) (3 / 5)
    [.state toyFilter, .ra (1 / 20)]
    (by
      intro flt hflt g hg
      simp only [List.mem_cons, List.not_mem_nil, or_false] at hflt
      rcases hflt with rfl | rfl
      · cases hg
        exact filterPE_filterOk_clock toyPE toy3_closed _
      · cases hg)
    7 { toyS0 with simTime := 3 - 1 / 10 } toyS0 ⟨toyS0_PEQ.mem, toyS0_PEQ.sh⟩ toyS0_PEQ
    (by simp [toyS0, clockRate])
  refine ⟨p', s', e, h1, h2, ?_⟩
  rw [h3]
  simp [toyS0, clockRate]
  norm_num

example : AtPair (clockObs SJ 2 toyKeys).frame (1 : ℚ) 3 (1 / 10) 0
    (.val { toyS0 with simTime := 3 - 1 / 10 }, .val toyS0) :=
  ⟨⟨⟨toyS0_PEQ.mem, toyS0_PEQ.sh⟩, by simp [toyS0, sub_eq_add_neg]⟩, ⟨toyS0_PEQ, by simp [toyS0]⟩⟩


/-! ### `(ζ, δ)₀₀` with the exact `l = 0` inverse (one layer) -/

/-- a one-layer equation object on the toy grid -/
def toyPE1 : PrimitiveEquations ℚ J J :=
  { ops := toy3
    vert := { boundaries := [0, 1], logCenters := [-1 / 2] }
    phys := { angularVelocity := 1 / 2, g := 10, R := 3, Rvapor := 5, CpVapor := 18, kappa := 2 / 7 }
    referenceTemperature := [250]
    orography := ⟨1, 2, 3, 4, 0, 5⟩ }

theorem toyPE1_matrix (η : ℚ) :
    toyPE1.implicitTermMatrix η 0 = [[1, 0, 0], [η * (250 / 7), 1, 0], [η, 0, 1]] := by
  simp [PrimitiveEquations.implicitTermMatrix, Implicit.implicitMatrix, toyPE1, toy3, Vert.ds,
    Vert.alpha, Sigma.thickness, Sigma.diffs, Sigma.sigmaRatios, Sigma.geopotentialWeights,
    Sigma.geoOffDiag, PrimitiveEquations.temperatureImplicitWeights, Implicit.hMatrix,
    Implicit.hEntry, Implicit.hK, Implicit.hK0, Implicit.tril, Implicit.eyeRow, Implicit.zeros,
    List.range, List.range.loop]
  norm_num

/-- the exact inverse of the `l = 0` matrix (for every other `l` any matrix of the right size) -/
def toyInv1 : ℚ → ℕ → List (List ℚ) :=
  fun η _ => [[1, 0, 0], [-(η * (250 / 7)), 1, 0], [-η, 0, 1]]

theorem toyInv1_ok (η : ℚ) : Inv0Ok toyPE1 1 η (toyInv1 η 0) where
  rows := rfl
  cols := by
    intro r hr
    simp only [toyInv1, List.mem_cons, List.not_mem_nil, or_false] at hr
    rcases hr with rfl | rfl | rfl <;> rfl
  right := by
    intro v hv
    match v, hv with
    | [a, b, c], _ =>
      rw [toyPE1_matrix]
      simp only [Sigma.matvec, Sigma.mulv, toyInv1, List.map_cons, List.map_nil,
        List.zipWith_cons_cons, List.zipWith_nil_right, List.sum_cons, List.sum_nil]
      congr 1
      · ring
      · congr 1
        · ring
        · congr 1
          ring

theorem toyPE1_vert : VertShaped toyPE1 1 := ⟨by decide, rfl, rfl, rfl⟩

/-- a one-layer state with NON-zero mean vorticity and divergence -/
def toyS1 : StateWithTime ℚ J :=
  { state := { vorticity := [⟨2, 1, 2, 0, 0, 0⟩], divergence := [⟨3, 1 / 2, 0, 0, 0, 0⟩]
               temperatureVariation := [⟨1, 0, 1, 0, 0, 0⟩]
               logSurfacePressure := ⟨1 / 2, 1 / 3, 0, 0, 0, 0⟩ }
    simTime := 0 }

theorem toyS1_PEQ : PEQ SJ 1 [] toyS1 := by
  have m : ∀ a : J, a ∈ SJ → AllP (· ∈ SJ) [a] := by
    intro a ha x hx
    rw [List.mem_singleton.1 hx]; exact ha
  refine ⟨⟨m _ ⟨rfl, rfl, rfl⟩, m _ ⟨rfl, rfl, rfl⟩, m _ ⟨rfl, rfl, rfl⟩, ⟨rfl, rfl, rfl⟩, ?_⟩,
    ⟨rfl, rfl, rfl, rfl, ?_⟩⟩
  · intro kv hkv; cases hkv
  · intro kv hkv; cases hkv

/-- **`(ζ, δ)₀₀` along a concrete trajectory** (review finding 4): the mean divergence `3` of `toyS1`
 survives a filtered Euler step and a CN-RK2 step of `PrimitiveEquationsWithTime` with the exact
 inverse of the `l = 0` matrix -/
example : ∃ s', runHistory (peImEx .time toyPE1 toyInv1)
      [⟨.bfe, 1 / 10, [TM.lift (filterPE toy3 [1, 1 / 2, 1 / 4])]⟩, ⟨.cnrk2, 1 / 5, []⟩] (.val toyS1)
        = some (.val s') ∧
    PEQ SJ 1 [] s' ∧ (s'.state.divergence.getD 0 0).c0 = 3 := by
  obtain ⟨u, hu⟩ : ∃ u, runHistory (peImEx .time toyPE1 toyInv1)
      [⟨.bfe, 1 / 10, [TM.lift (filterPE toy3 [1, 1 / 2, 1 / 4])]⟩, ⟨.cnrk2, 1 / 5, []⟩] (.val toyS1)
        = some u := ⟨_, rfl⟩
  obtain ⟨s', e, hQ, hm⟩ := pe_mean00_after_any_history (ℓ := c0ℓ) .time trivial toyPE1 toy3_closed
    (show toyPE1.orography ∈ MkJ from rfl) toyPE1_vert toy3_mode0 toyInv1
    (by intro η l _; simp [toyInv1]) toyInv1_ok (by norm_num) .divergence 0 _
    (by
      intro en hen g hg
      simp only [List.mem_cons, List.not_mem_nil, or_false] at hen
      rcases hen with rfl | rfl
      · simp only [List.mem_cons, List.not_mem_nil, or_false] at hg
        subst hg
        exact filterPE_filterOk_mean00 toyPE1 toy3_closed toy3_mode0 _ rfl _ _
      · simp at hg)
    toyS1 toyS1_PEQ u hu
  exact ⟨s', by rw [hu, e], hQ, hm⟩

/-! ### shallow water -/

def toySW : DynamicsSW.ShallowWaterEquations ℚ J J :=
  { ops := toy3
    specs := { densities := [1, 2], radius := 1, angularVelocity := 1 / 2, gravityAcceleration := 1 }
    orography := some ⟨1, 0, 1, 2, 0, 0⟩
    referencePotential := [1, 3 / 2] }

/-- two time levels in `S` with zero mean divergence and equal mean thickness `(5, 7)` -/
def swA : DynamicsSW.State J :=
  { vorticity := [⟨1, 1, 0, 0, 0, 0⟩, ⟨2, 0, 1, 0, 0, 0⟩]
    divergence := [⟨0, 1, 1, 0, 0, 0⟩, ⟨0, 2, 0, 0, 0, 0⟩]
    potential := [⟨5, 1, 0, 0, 0, 0⟩, ⟨7, 0, 2, 0, 0, 0⟩] }

def swB : DynamicsSW.State J :=
  { vorticity := [⟨1, 2, 0, 0, 0, 0⟩, ⟨2, 0, 3, 0, 0, 0⟩]
    divergence := [⟨0, 1, 2, 0, 0, 0⟩, ⟨0, 1, 0, 0, 0, 0⟩]
    potential := [⟨5, 0, 1, 0, 0, 0⟩, ⟨7, 1, 1, 0, 0, 0⟩] }

theorem sw_mem2 (a b : J) (ha : a ∈ SJ) (hb : b ∈ SJ) : AllP (· ∈ SJ) [a, b] := by
  intro x hx
  simp only [List.mem_cons, List.not_mem_nil, or_false] at hx
  rcases hx with rfl | rfl <;> assumption

theorem sw_zero2 (a b : J) (ha : a.c0 = 0) (hb : b.c0 = 0) :
    AllP (fun x => c0ℓ x ∈ (⊥ : Submodule ℚ ℚ)) [a, b] := by
  intro x hx
  simp only [List.mem_cons, List.not_mem_nil, or_false] at hx
  rcases hx with rfl | rfl
  · exact (Submodule.mem_bot ℚ).2 ha
  · exact (Submodule.mem_bot ℚ).2 hb

theorem swA_Q : SWQ SJ 2 c0ℓ ⊥ swA :=
  ⟨sw_mem2 _ _ ⟨rfl, rfl, rfl⟩ ⟨rfl, rfl, rfl⟩, sw_mem2 _ _ ⟨rfl, rfl, rfl⟩ ⟨rfl, rfl, rfl⟩,
    sw_mem2 _ _ ⟨rfl, rfl, rfl⟩ ⟨rfl, rfl, rfl⟩, ⟨rfl, rfl, rfl⟩, sw_zero2 _ _ rfl rfl⟩

theorem swB_Q : SWQ SJ 2 c0ℓ ⊥ swB :=
  ⟨sw_mem2 _ _ ⟨rfl, rfl, rfl⟩ ⟨rfl, rfl, rfl⟩, sw_mem2 _ _ ⟨rfl, rfl, rfl⟩ ⟨rfl, rfl, rfl⟩,
    sw_mem2 _ _ ⟨rfl, rfl, rfl⟩ ⟨rfl, rfl, rfl⟩, ⟨rfl, rfl, rfl⟩, sw_zero2 _ _ rfl rfl⟩

/-- **shallow water, a concrete leapfrog history** (review finding 3): two layers with orography
 that is masked but not clipped; five leapfrog steps with an exponential-type step filter and a
 Robert–Asselin filter: both time levels stay in `S` and the mean thickness of the lower layer is
 still `7` -/
example : ∃ p' s', runLeapfrog (SW.imex toySW) (1 / 10) (3 / 5)
      [.state (TM.lift (filterSW toy3 [1, 1 / 2, 1 / 4])), .ra (1 / 20)] 5 (.val swA, .val swB)
        = (.val p', .val s') ∧
    SWQ SJ 2 c0ℓ ⊥ p' ∧ SWQ SJ 2 c0ℓ ⊥ s' ∧ (s'.potential.getD 1 0).c0 = 7 := by
  obtain ⟨p', s', e, h1, h2, h3, _⟩ := sw_inv_after_k_leapfrog_steps (ℓ := c0ℓ) (D := ⊥) toySW
    toy3_closed toy3_mode0 (by intro o h; cases h; rfl) ⟨rfl, rfl⟩ .potential 1 (fun _ => rfl)
    (1 / 10) (3 / 5) [.state (TM.lift (filterSW toy3 [1, 1 / 2, 1 / 4])), .ra (1 / 20)]
    (by
      intro flt hflt g hg
      simp only [List.mem_cons, List.not_mem_nil, or_false] at hflt
      rcases hflt with rfl | rfl
      · cases hg
        exact filterSW_filterOk toySW toy3_closed toy3_mode0 _ rfl _ _
      · cases hg)
    5 swA swB swA_Q swB_Q rfl
  exact ⟨p', s', e, h1, h2, h3⟩


section uniformExample
open Dino.Invariants.Toy Dino.Dynamics.Toy Dino.Dynamics.Toy.J

theorem toy3_uniformOk : UniformOk toy3 SJ c0ℓ (1 : J) where
  toNodal_lin := toy_laws.toNodal_lin
  toModal_lin := toy3_linear.1
  dDlon_lin := toy3_linear.2.1
  secLat_lin := toy3_linear.2.2.1
  clip_lin := toy3_linear.2.2.2
  toNodal_unit := rfl
  lproj_unit_zero := fun q => by
    ext <;> simp [toy3, degProj, smul_def, one_def]
  lproj_unit_pos := fun l h0 h3 q => by
    have : l ≠ 0 := by omega
    show degProj l (q • (1 : J)) = 0
    unfold degProj
    simp only [this, if_false]
    split_ifs <;> ext <;> simp [smul_def, one_def, zero_def]
  div_uv := fun z d hz hd hm => by
    have h0 : d.c0 = 0 := hm
    obtain ⟨z1, z2, z3⟩ := hz
    obtain ⟨d1, d2, d3⟩ := hd
    ext <;> simp [toy3, mask, HOps.divSecLat, HOps.divCosLat, HOps.cosLatVector, HOps.cosLatGrad,
      HOps.kCross, toy, J.clip, dx, dy, invLap, mul_def, add_def, neg_def, one_def, h0, z1, z2, z3,
      d1, d2, d3]

/-- a one-layer record with zero mean divergence carrying the uniform tracer `7/2` -/
def toyU1 : StateWithTime ℚ J :=
  { state := { vorticity := [⟨2, 1, 2, 0, 0, 0⟩], divergence := [⟨0, 1 / 2, 1, 0, 0, 0⟩]
               temperatureVariation := [⟨1, 0, 1, 0, 0, 0⟩]
               logSurfacePressure := ⟨1 / 2, 1 / 3, 0, 0, 0, 0⟩
               tracers := [("uniform", [(7 / 2 : ℚ) • (1 : J)])] }
    simTime := 0 }

theorem toyU1_PEQ : PEQ SJ 1 ["uniform"] toyU1 := by
  have m : ∀ a : J, a ∈ SJ → AllP (· ∈ SJ) [a] := by
    intro a ha x hx
    rw [List.mem_singleton.1 hx]; exact ha
  refine ⟨⟨m _ ⟨rfl, rfl, rfl⟩, m _ ⟨rfl, rfl, rfl⟩, m _ ⟨rfl, rfl, rfl⟩, ⟨rfl, rfl, rfl⟩, ?_⟩,
    ⟨rfl, rfl, rfl, rfl, ?_⟩⟩
  · intro kv hkv
    simp only [toyU1, List.mem_cons, List.not_mem_nil, or_false] at hkv
    subst hkv
    exact m _ (SJ.smul_mem _ ⟨rfl, rfl, rfl⟩)
  · intro kv hkv
    simp only [toyU1, List.mem_cons, List.not_mem_nil, or_false] at hkv
    subst hkv
    rfl

/-- **the uniform tracer on a concrete trajectory** (review finding 6): after a filtered Euler step
 and a CN-RK2 step of `PrimitiveEquationsWithTime` the tracer is still `7/2` at every level -/
example : ∃ s', runHistory (peImEx .time toyPE1 toyInv1)
      [⟨.bfe, 1 / 10, [TM.lift (filterPE toy3 [1, 1 / 2, 1 / 4])]⟩, ⟨.cnrk2, 1 / 5, []⟩] (.val toyU1)
        = some (.val s') ∧
    lookup "uniform" s'.state.tracers = some [(7 / 2 : ℚ) • (1 : J)] := by
  obtain ⟨u, hu⟩ : ∃ u, runHistory (peImEx .time toyPE1 toyInv1)
      [⟨.bfe, 1 / 10, [TM.lift (filterPE toy3 [1, 1 / 2, 1 / 4])]⟩, ⟨.cnrk2, 1 / 5, []⟩] (.val toyU1)
        = some u := ⟨_, rfl⟩
  obtain ⟨s', e, _, _, hq⟩ := pe_uniform_tracer_after_any_history (ℓ := c0ℓ) .time trivial toyPE1
    toy3_closed (show toyPE1.orography ∈ MkJ from rfl) toyPE1_vert toy3_mode0 toy3_uniformOk toyInv1
    (by intro η l _; simp [toyInv1]) toyInv1_ok (by norm_num) "uniform" (7 / 2) _
    (by
      intro en hen g hg
      simp only [List.mem_cons, List.not_mem_nil, or_false] at hen
      rcases hen with rfl | rfl
      · simp only [List.mem_cons, List.not_mem_nil, or_false] at hg
        subst hg
        exact filterPE_filterOk_uniform toyPE1 toy3_closed toy3_mode0 toy3_uniformOk _ rfl _
      · simp at hg)
    toyU1 toyU1_PEQ
    (by intro x hx; rw [List.mem_singleton.1 hx]; rfl) rfl u hu
  exact ⟨s', by rw [hu, e], hq⟩

end uniformExample

end examples

/-! ## second review: two layers with the exact `l = 0` inverse, the cloud class, padded layouts -/
section review2
open Dino.Invariants.Toy Dino.Dynamics.Toy Dino.Dynamics.Toy.J

theorem allP_pair {T : Submodule ℚ J} (a b : J) (ha : a ∈ T) (hb : b ∈ T) : AllP (· ∈ T) [a, b] := by
  intro x hx
  simp only [List.mem_cons, List.not_mem_nil, or_false] at hx
  rcases hx with rfl | rfl <;> assumption

/-! ### `Inv0Ok` for TWO layers (review 2, N4) -/

/-- the `l = 0` implicit matrix of the two-layer toy equation (uneven layers, varying reference
 temperature): lower block-triangular with identity diagonal because the Laplacian eigenvalue of
 total wavenumber zero vanishes -/
theorem toyPE_matrix (η : ℚ) :
    toyPE.implicitTermMatrix η 0 = [[1, 0, 0, 0, 0], [0, 1, 0, 0, 0],
      [η * (3610 / 63), η * (20 / 9), 1, 0, 0], [η * (370 / 9), η * (1700 / 63), 0, 1, 0],
      [η * (1 / 3), η * (2 / 3), 0, 0, 1]] := by
  simp [PrimitiveEquations.implicitTermMatrix, Implicit.implicitMatrix, toyPE, toy3, Vert.ds,
    Vert.alpha, Sigma.thickness, Sigma.diffs, Sigma.sigmaRatios, Sigma.geopotentialWeights,
    Sigma.geoOffDiag, PrimitiveEquations.temperatureImplicitWeights, Implicit.hMatrix,
    Implicit.hEntry, Implicit.hK, Implicit.hK0, Implicit.tril, Implicit.eyeRow, Implicit.zeros,
    List.range, List.range.loop]
  norm_num

/-- the exact inverse of the two-layer `l = 0` matrix, for every `η` (for every other `l` any
 matrix of the right size: here the same one) -/
def toyInv2 : ℚ → ℕ → List (List ℚ) :=
  fun η _ => [[1, 0, 0, 0, 0], [0, 1, 0, 0, 0],
    [-(η * (3610 / 63)), -(η * (20 / 9)), 1, 0, 0], [-(η * (370 / 9)), -(η * (1700 / 63)), 0, 1, 0],
    [-(η * (1 / 3)), -(η * (2 / 3)), 0, 0, 1]]

theorem toyInv2_shaped : InvShaped toyPE 2 toyInv2 := by
  intro η l _
  simp [toyInv2]

/-- **`Inv0Ok` on a two-layer equation object, for every `η`** (review 2, N4): the contract of
 `pe_respects_mean00` / `pe_respects_uniform` on `numpy.linalg.inv` is satisfiable beyond one layer -/
theorem toyInv2_ok (η : ℚ) : Inv0Ok toyPE 2 η (toyInv2 η 0) where
  rows := rfl
  cols := by
    intro r hr
    simp only [toyInv2, List.mem_cons, List.not_mem_nil, or_false] at hr
    rcases hr with rfl | rfl | rfl | rfl | rfl <;> rfl
  right := by
    intro v hv
    match v, hv with
    | [a, b, c, d, e], _ =>
      rw [toyPE_matrix]
      simp only [Sigma.matvec, Sigma.mulv, toyInv2, List.map_cons, List.map_nil,
        List.zipWith_cons_cons, List.zipWith_nil_right, List.sum_cons, List.sum_nil]
      congr 1
      · ring
      · congr 1
        · ring
        · congr 1
          · ring
          · congr 1
            · ring
            · congr 1
              ring

/-- a two-layer state in `S` with NON-zero mean vorticity `(2, 1)` and divergence `(3, -2)` -/
def toyS2 : StateWithTime ℚ J :=
  { state := { vorticity := [⟨2, 1, 2, 0, 0, 0⟩, ⟨1, 0, 1, 0, 0, 0⟩]
               divergence := [⟨3, 1 / 2, 0, 0, 0, 0⟩, ⟨-2, 0, -1, 0, 0, 0⟩]
               temperatureVariation := [⟨1, 0, 1, 0, 0, 0⟩, ⟨2, 1, 0, 0, 0, 0⟩]
               logSurfacePressure := ⟨1 / 2, 1 / 3, 0, 0, 0, 0⟩ }
    simTime := 0 }

theorem toyS2_PEQ : PEQ SJ 2 [] toyS2 := by
  refine ⟨⟨allP_pair _ _ ⟨rfl, rfl, rfl⟩ ⟨rfl, rfl, rfl⟩, allP_pair _ _ ⟨rfl, rfl, rfl⟩ ⟨rfl, rfl, rfl⟩,
    allP_pair _ _ ⟨rfl, rfl, rfl⟩ ⟨rfl, rfl, rfl⟩, ⟨rfl, rfl, rfl⟩, ?_⟩, ⟨rfl, rfl, rfl, rfl, ?_⟩⟩
  · intro kv hkv; cases hkv
  · intro kv hkv; cases hkv

/-- **`(ζ, δ)₀₀` along a concrete TWO-layer trajectory** (review 2, N4): the mean divergence `-2` of
 the lower layer of `toyS2` survives a filtered Euler step and a CN-RK2 step of
 `PrimitiveEquationsWithTime` with the exact inverse of the `5 × 5` matrix of `l = 0` -/
theorem toyPE_two_layer_mean00 : ∃ s', runHistory (peImEx .time toyPE toyInv2)
      [⟨.bfe, 1 / 10, [TM.lift (filterPE toy3 [1, 1 / 2, 1 / 4])]⟩, ⟨.cnrk2, 1 / 5, []⟩] (.val toyS2)
        = some (.val s') ∧
    PEQ SJ 2 [] s' ∧ (s'.state.divergence.getD 1 0).c0 = -2 := by
  obtain ⟨u, hu⟩ : ∃ u, runHistory (peImEx .time toyPE toyInv2)
      [⟨.bfe, 1 / 10, [TM.lift (filterPE toy3 [1, 1 / 2, 1 / 4])]⟩, ⟨.cnrk2, 1 / 5, []⟩] (.val toyS2)
        = some u := ⟨_, rfl⟩
  obtain ⟨s', e, hQ, hm⟩ := pe_mean00_after_any_history (ℓ := c0ℓ) .time trivial toyPE toy3_closed
    toyPE_oro toyPE_vert toy3_mode0 toyInv2 toyInv2_shaped toyInv2_ok (by norm_num) .divergence 1 _
    (by
      intro en hen g hg
      simp only [List.mem_cons, List.not_mem_nil, or_false] at hen
      rcases hen with rfl | rfl
      · simp only [List.mem_cons, List.not_mem_nil, or_false] at hg
        subst hg
        exact filterPE_filterOk_mean00 toyPE toy3_closed toy3_mode0 _ rfl _ _
      · simp at hg)
    toyS2 toyS2_PEQ u hu
  exact ⟨s', by rw [hu, e], hQ, hm⟩

/-! ### the cloud class: three tracer keys (review 2, N4) -/

/-- the keys `MoistPrimitiveEquationsWithCloudMoisture` looks up -/
def toyKeysCloud : List String := [specificHumidityKey, cloudWaterKey, cloudIceKey]

theorem toyKeysCloud_needs : NeedsKeys .cloud toyKeysCloud :=
  ⟨List.mem_cons_self, List.mem_cons_of_mem _ List.mem_cons_self,
    List.mem_cons_of_mem _ (List.mem_cons_of_mem _ List.mem_cons_self)⟩

/-- a moving two-layer state in `S` carrying humidity and the two condensate tracers -/
def toyS0c : StateWithTime ℚ J :=
  { toyS0 with
    state := { toyS0.state with
      tracers := [(specificHumidityKey, [⟨1 / 100, 0, 0, 0, 0, 0⟩, ⟨1 / 50, 1 / 100, 0, 0, 0, 0⟩]),
                  (cloudWaterKey, [⟨1 / 1000, 1 / 2000, 0, 0, 0, 0⟩, ⟨0, 0, 1 / 1000, 0, 0, 0⟩]),
                  (cloudIceKey, [⟨1 / 4000, 0, 0, 0, 0, 0⟩, ⟨1 / 5000, 0, 1 / 3000, 0, 0, 0⟩])] } }

theorem toyS0c_PEQ : PEQ SJ 2 toyKeysCloud toyS0c := by
  refine ⟨⟨toyS0_PEQ.mem.1, toyS0_PEQ.mem.2.1, toyS0_PEQ.mem.2.2.1, toyS0_PEQ.mem.2.2.2.1, ?_⟩,
    ⟨rfl, rfl, rfl, rfl, ?_⟩⟩
  · intro kv hkv
    simp only [toyS0c, List.mem_cons, List.not_mem_nil, or_false] at hkv
    rcases hkv with rfl | rfl | rfl <;> exact allP_pair _ _ ⟨rfl, rfl, rfl⟩ ⟨rfl, rfl, rfl⟩
  · intro kv hkv
    simp only [toyS0c, List.mem_cons, List.not_mem_nil, or_false] at hkv
    rcases hkv with rfl | rfl | rfl <;> rfl

/-- **a `Respects` instance for the cloud class** (review 2, N4): `NeedsKeys .cloud` with the three
 tracer keys -/
theorem toyPE_cloud_respects :
    Respects (clockObs SJ 2 toyKeysCloud).frame 1 (peImEx .cloud toyPE toyInv) :=
  pe_respects_clock .cloud toyPE toy3_closed toyPE_oro toyPE_vert toyKeysCloud_needs toyInv
    toyInv_shaped

/-- the cloud explicit terms ARE defined on the frame, and are NOT when a condensate key is missing
 (the moist frame `toyS0` carries humidity only) -/
example : (∃ r, explicitOf .cloud toyPE toyS0c = some r ∧ Shaped 2 toyKeysCloud r.state) ∧
    explicitOf .cloud toyPE toyS0 = none :=
  ⟨explicitOf_defined .cloud toyPE toyPE_vert toyKeysCloud_needs toyS0c toyS0c_PEQ.sh, rfl⟩

/-- **the cloud class, a concrete history**: a filtered Euler step and a CN-RK2 step of
 `MoistPrimitiveEquationsWithCloudMoisture` from `toyS0c`: no exception, a two-level record in `S`
 with the three keys, the clock advanced by `1/10 + 1/5` -/
theorem toyPE_cloud_history : ∃ s', runHistory (peImEx .cloud toyPE toyInv)
      [⟨.bfe, 1 / 10, [toyFilter]⟩, ⟨.cnrk2, 1 / 5, []⟩] (.val toyS0c) = some (.val s') ∧
    PEQ SJ 2 toyKeysCloud s' ∧ s'.simTime = 3 + 3 / 10 := by
  obtain ⟨u, hu⟩ : ∃ u, runHistory (peImEx .cloud toyPE toyInv)
      [⟨.bfe, 1 / 10, [toyFilter]⟩, ⟨.cnrk2, 1 / 5, []⟩] (.val toyS0c) = some u := ⟨_, rfl⟩
  obtain ⟨s', e, hQ, ht⟩ := pe_inv_after_any_history .cloud toyPE toy3_closed toyPE_oro toyPE_vert
    toyKeysCloud_needs toyInv toyInv_shaped (by norm_num) _
    (by
      intro en hen g hg
      simp only [List.mem_cons, List.not_mem_nil, or_false] at hen
      rcases hen with rfl | rfl
      · simp only [List.mem_cons, List.not_mem_nil, or_false] at hg
        subst hg
        exact filterPE_filterOk_clock toyPE toy3_closed _
      · simp at hg)
    toyS0c toyS0c_PEQ u hu
  refine ⟨s', by rw [hu, e], hQ, ?_⟩
  rw [ht]
  simp only [historyAdv, Scheme.adv, clockRate, toyS0c, toyS0]
  norm_num

/-! ### padded layouts: `Mk` = mask + first padding column (review 2, N3)

On a layout whose total-wavenumber axis is padded (`FastSphericalHarmonics(base_shape_multiple=…)`,
device meshes) the raw `sec_lat_d_dlat_cos2` / `cos_lat_d_dlat` write the top resolved coefficient
into the FIRST padding column (`_derivative_recurrence_weights` zeroes `b[:, -1]`, the last column of
the PADDED layout; C09 `fastDD_iota_colL`, C07's domain statement).  So `OpsClosed h Mk S` is FALSE
there for `Mk` = the modal mask, and TRUE for

  `Mk` := mask + first padding column,   `S` := mask below the clipped wavenumber

(`clip_wavenumbers` zeroes the padding, the Laplacian eigenvalues vanish there, `to_nodal` ignores it).
Every theorem of this file is stated for an arbitrary pair `Mk ⊇ S`, so all of them apply to padded
layouts with this choice; `harness/props/C11.py` validates every hypothesis for exactly this pair on
`base_shape_multiple` grids (`_mk`, `PADDED_TABLE`), with the orography non-zero on the padding
column.  The toy grid `toy3p` below has the same shape: `to_modal` lands in the mask
`{cxy = cyy = 0}`, `cyy` plays the first padding column, the latitude derivative writes the top
resolved coefficient `cxx` there. -/

/-- `to_modal` of the padded toy grid: nothing on the padding (`cxy`, `cyy`) -/
def maskP (a : J) : J := ⟨a.c0, a.cx, a.cy, a.cxx, 0, 0⟩

/-- the raw latitude derivative of the padded toy grid: the top resolved coefficient `cxx` leaks into
 the first padding column `cyy`; what is on the padding is not propagated further -/
def dyP (a : J) : J := ⟨0, 0, a.cy, 0, a.cxy, a.cxx⟩

/-- the toy grid with a padded total-wavenumber axis -/
def toy3p : HOps ℚ J J :=
  { toy3 with toModal := maskP, cosLatDDlat := dyP, secLatDDlatCos2 := dyP }

/-- the modal mask of `toy3p` (the image of `to_modal`): a proper submodule of `MkJ` -/
def MaskJ : Submodule ℚ J where
  carrier := {a | a.cxy = 0 ∧ a.cyy = 0}
  add_mem' := by
    intro a b (ha : a.cxy = 0 ∧ a.cyy = 0) (hb : b.cxy = 0 ∧ b.cyy = 0)
    show (a + b).cxy = 0 ∧ (a + b).cyy = 0
    simp [add_def, ha.1, ha.2, hb.1, hb.2]
  zero_mem' := ⟨rfl, rfl⟩
  smul_mem' := by
    intro c a (ha : a.cxy = 0 ∧ a.cyy = 0)
    show (c • a).cxy = 0 ∧ (c • a).cyy = 0
    simp [smul_def, ha.1, ha.2]

/-- `S ⊊ mask ⊊ Mk ⊊ J`: `x²` is masked but clipped, `y²` (the padding column) is in `Mk` but not
 in the mask, `xy` is outside `Mk` -/
theorem MaskJ_between : (∀ x ∈ SJ, x ∈ MaskJ) ∧ (∀ x ∈ MaskJ, x ∈ MkJ) ∧
    (⟨0, 0, 0, 1, 0, 0⟩ : J) ∈ MaskJ ∧ (⟨0, 0, 0, 1, 0, 0⟩ : J) ∉ SJ ∧
    (⟨0, 0, 0, 0, 0, 1⟩ : J) ∈ MkJ ∧ (⟨0, 0, 0, 0, 0, 1⟩ : J) ∉ MaskJ ∧
    (⟨0, 0, 0, 0, 1, 0⟩ : J) ∉ MkJ := by
  refine ⟨fun x hx => ⟨hx.2.1, hx.2.2⟩, fun x hx => hx.1, ⟨rfl, rfl⟩, SJ_proper.2.1, rfl, ?_,
    SJ_proper.2.2⟩
  intro h
  exact absurd h.2 (by simp)

/-- **`OpsClosed` on the padded toy grid with `Mk` = mask + first padding column** -/
theorem toy3p_closed : OpsClosed toy3p MkJ SJ where
  S_le := fun x hx => hx.2.1
  toModal_mem := fun _ => rfl
  dDlon_mem := fun x (hx : x.cxy = 0) => by show (dx x).cxy = 0; simp [dx, hx]
  secLat_mem := fun x (hx : x.cxy = 0) => by show (dyP x).cxy = 0; simp [dyP, hx]
  laplacian_mem := fun x (hx : x.cxy = 0) => by show (lap x).cxy = 0; simp [lap, hx]
  clip_mem := fun x _ => ⟨rfl, rfl, rfl⟩
  laplacian_S := toy3_closed.laplacian_S
  lproj_S := toy3_closed.lproj_S

/-- **with `Mk` = the mask the hypothesis is FALSE on the padded toy grid**: the latitude derivative
 of the masked field `x²` has a non-zero coefficient on the padding column -/
theorem toy3p_mask_not_closed : ¬ OpsClosed toy3p MaskJ SJ := by
  intro H
  have h := (H.secLat_mem ⟨0, 0, 0, 1, 0, 0⟩ ⟨rfl, rfl⟩).2
  exact absurd h (by show ¬ ((1 : ℚ) = 0); norm_num)

/-- `to_modal` of the padded toy grid lands in the mask itself -/
theorem toy3p_toModal_mask (z : J) : toy3p.toModal z ∈ MaskJ := ⟨rfl, rfl⟩

/-- the two-layer toy equation on the padded grid; its orography `1 + 2x + 3y + 4x² + 5y²` lies in
 `Mk` but NOT in the mask (it is non-zero on the padding column) -/
def toyPEp : PrimitiveEquations ℚ J J := { toyPE with ops := toy3p }

theorem toyPEp_oro : toyPEp.orography ∈ MkJ ∧ toyPEp.orography ∉ MaskJ := by
  refine ⟨rfl, fun h => ?_⟩
  exact absurd h.2 (by show ¬ ((5 : ℚ) = 0); norm_num)

theorem toyPEp_vert : VertShaped toyPEp 2 := ⟨by decide, rfl, rfl, rfl⟩

/-- **the theorems apply on a padded layout** (review 2, N3): the closure hypotheses of T11.2 for the
 moist class on `toy3p`, with `Mk` = mask + first padding column (where `Mk` = mask would not do:
 `toy3p_mask_not_closed`) and orography on the padding column -/
theorem toyPEp_respects :
    Respects (clockObs SJ 2 toyKeys).frame 1 (peImEx .moist toyPEp toyInv) :=
  pe_respects_clock .moist toyPEp toy3p_closed toyPEp_oro.1 toyPEp_vert List.mem_cons_self toyInv
    (by intro η l _; simp [toyInv])

/-- for EVERY state — also one that is non-zero on the padding — the explicit tendencies of the
 padded toy equation lie in `S` (T11.1) -/
example (s : State J) : StateAll (· ∈ SJ) (toyPEp.explicitTerms s) :=
  explicitTerms_mem toyPEp toy3p_closed toyPEp_oro.1 s

/-- **a concrete history on the padded toy grid**: a filtered Euler step and a CN-RK2 step of the
 moist class from `toyS0`; the result is a two-level record in `S` (nothing on the padding, nothing
 at the clipped wavenumber), clock `3 + 3/10` -/
theorem toyPEp_history : ∃ s', runHistory (peImEx .moist toyPEp toyInv)
      [⟨.bfe, 1 / 10, [TM.lift (filterPE toy3p [1, 1 / 2, 1 / 4])]⟩, ⟨.cnrk2, 1 / 5, []⟩]
        (.val toyS0) = some (.val s') ∧
    PEQ SJ 2 toyKeys s' ∧ s'.simTime = 3 + 3 / 10 := by
  obtain ⟨u, hu⟩ : ∃ u, runHistory (peImEx .moist toyPEp toyInv)
      [⟨.bfe, 1 / 10, [TM.lift (filterPE toy3p [1, 1 / 2, 1 / 4])]⟩, ⟨.cnrk2, 1 / 5, []⟩]
        (.val toyS0) = some u := ⟨_, rfl⟩
  obtain ⟨s', e, hQ, ht⟩ := pe_inv_after_any_history .moist toyPEp toy3p_closed toyPEp_oro.1
    toyPEp_vert List.mem_cons_self toyInv (by intro η l _; simp [toyInv]) (by norm_num) _
    (by
      intro en hen g hg
      simp only [List.mem_cons, List.not_mem_nil, or_false] at hen
      rcases hen with rfl | rfl
      · simp only [List.mem_cons, List.not_mem_nil, or_false] at hg
        subst hg
        exact filterPE_filterOk_clock toyPEp toy3p_closed _
      · simp at hg)
    toyS0 toyS0_PEQ u hu
  refine ⟨s', by rw [hu, e], hQ, ?_⟩
  rw [ht]
  simp only [historyAdv, Scheme.adv, clockRate, toyS0]
  norm_num

/-- the padding column is really written to on the way: the raw divergence of a masked wind on
 `toy3p` leaves the mask (and stays in `Mk`) -/
example : toy3p.divCosLat false (⟨0, 1, 0, 0, 0, 0⟩, ⟨0, 0, 0, 3, 0, 0⟩) ∈ MkJ ∧
    toy3p.divCosLat false (⟨0, 1, 0, 0, 0, 0⟩, ⟨0, 0, 0, 3, 0, 0⟩) ∉ MaskJ := by
  refine ⟨toy3p_closed.divCosLat_mem rfl rfl, fun h => ?_⟩
  have h2 := h.2
  simp [HOps.divCosLat, toy3p, toy3, toy, dyP, dx, add_def] at h2

end review2

end Dino.C11
