import DinoProofs.Lemmas.SH
import DinoProofs.Lemmas.Fx
import DinoProofs.Lemmas.SHCert
import DinoProofs.Lemmas.SHFast
import DinoProofs.Lemmas.Legendre
import DinoProofs.Lemmas.FourierOrtho
import Dino.SHCheck
import DinoGen.SHCert
import Mathlib.Analysis.Real.Pi.Bounds
import Mathlib.Algebra.Order.BigOperators.Group.Finset
import Mathlib.Algebra.Order.BigOperators.Ring.Finset

/-!
# C01 — spherical-harmonic analysis inverts synthesis; discrete orthonormality

* `Dino.SH.ent2_roundtrip` (T1.1, in `Lemmas/SH.lean`): for every basis of consistent shape and
  every spectral field, `analysis (synth x)` is the action of the separable Gram tensor.
* `roundtrip_bound` (T1.2): an entrywise `ε`-identity Gram tensor gives an `ε·‖x‖₁` round trip.
* `gramCheck_sound`: the exact fixed-point check evaluated by the generated certificates
  (`DinoGen/SHCert_*.lean`, `decide +kernel`) implies the hypothesis of T1.2 for the basis arrays
  the implementation actually computed (as exact rationals).
* `roundtrip_of_cert`: the three combined.
* T1.5 (`Lemmas/FourierOrtho.lean`, section "T1.5" below): over `ℝ` the model's real Fourier basis is orthonormal under
  the trapezoid weights for EVERY `N ≥ 1`, `M ≥ 1` iff `2 (M − 1) < N`; hence the round trip reduces to the
  orthonormality of the Legendre tables under the latitude weights alone (both layouts, any padding).
-/
namespace Dino.C01
open Finset Dino.Lin Dino.SH Dino

/-! ## T1.2 -/

section bound
variable {K : Type} [Field K] [LinearOrder K] [IsStrictOrderedRing K]

/-- `ε`-Gram ⇒ `ε`-round-trip, for every spectral field supported where the Gram tensor was checked -/
theorem roundtrip_bound (b : Basis K) (N R J L : Nat) (hb : Shaped b N R J L) (eps : K)
    (x : List (List K)) (hx : ∀ row ∈ x, row.length ≤ L) (supp : Nat → Nat → Prop)
    (hsupp : ∀ r' l', ¬ supp r' l' → ent2 x r' l' = 0)
    (hG : ∀ r' < R, ∀ l' < L, supp r' l' → ∀ r < R, ∀ l < L,
      |fGram b N r r' * lGram b J r r' l l' - (if r = r' ∧ l = l' then 1 else 0)| ≤ eps)
    (r l : Nat) (hr : r < R) (hl : l < L) :
    |ent2 (realAnalysis b R J L (realSynth b J x)) r l - ent2 x r l|
      ≤ eps * ∑ r' ∈ range R, ∑ l' ∈ range L, |ent2 x r' l'| := by
  rw [ent2_roundtrip b N R J L hb x hx r l hr]
  have hx_eq : ent2 x r l
      = ∑ r' ∈ range R, ∑ l' ∈ range L, (if r = r' ∧ l = l' then (1 : K) else 0) * ent2 x r' l' := by
    rw [Finset.sum_eq_single r]
    · rw [Finset.sum_eq_single l]
      · simp
      · intro l' _ hne; simp [Ne.symm hne]
      · intro h; exact absurd (Finset.mem_range.2 hl) h
    · intro r' _ hne
      apply Finset.sum_eq_zero; intro l' _; simp [Ne.symm hne]
    · intro h; exact absurd (Finset.mem_range.2 hr) h
  rw [hx_eq, ← Finset.sum_sub_distrib, Finset.mul_sum]
  refine le_trans (Finset.abs_sum_le_sum_abs _ _) (Finset.sum_le_sum ?_)
  intro r' hr'
  rw [← Finset.sum_sub_distrib, Finset.mul_sum]
  refine le_trans (Finset.abs_sum_le_sum_abs _ _) (Finset.sum_le_sum ?_)
  intro l' hl'
  rw [← sub_mul, abs_mul]
  by_cases hs : supp r' l'
  · exact mul_le_mul_of_nonneg_right
      (hG r' (Finset.mem_range.1 hr') l' (Finset.mem_range.1 hl') hs r hr l hl) (abs_nonneg _)
  · rw [hsupp r' l' hs]; simp

end bound

/-! ## soundness of the exact check -/

/-- the basis arrays as rationals -/
def mapB (b : Basis Fx) : Basis ℚ :=
  ⟨b.f.map (·.map Fx.val), b.p.map (·.map (·.map Fx.val)), b.w.map Fx.val⟩

theorem ent_map_val (v : List Fx) (i : Nat) : ent (v.map Fx.val) i = Fx.val (v.getD i 0) := by
  simp only [ent, List.getD_eq_getElem?_getD, List.getElem?_map]
  cases v[i]? <;> simp

theorem ent2_map_val (a : List (List Fx)) (i j : Nat) :
    ent2 (a.map (·.map Fx.val)) i j = Fx.val ((a.getD i []).getD j 0) := by
  simp only [ent2, List.getD_eq_getElem?_getD, List.getElem?_map]
  cases a[i]? <;> simp
  rename_i v
  cases v[j]? <;> simp

theorem ent3_map_val (a : List (List (List Fx))) (i j k : Nat) :
    ent3 (a.map (·.map (·.map Fx.val))) i j k = Fx.val (((a.getD i []).getD j []).getD k 0) := by
  simp only [ent3, List.getD_eq_getElem?_getD, List.getElem?_map]
  cases a[i]? <;> simp
  rename_i v
  cases v[j]? <;> simp
  rename_i u
  cases u[k]? <;> simp

theorem val_sum_range (l : List Fx) (n : Nat) (h : l.length ≤ n) :
    Fx.val l.sum = ∑ i ∈ range n, Fx.val (l.getD i 0) := by
  rw [Fx.val_sum, sum_eq_sum_range _ n (by simpa using h)]
  apply Finset.sum_congr rfl
  intro i _
  exact ent_map_val l i

theorem val_fourierGram (b : Basis Fx) (N r r' : Nat) (hN : b.f.length = N) :
    Fx.val (fourierGram b.f r r') = fGram (mapB b) N r r' := by
  unfold fourierGram fGram
  rw [val_sum_range _ N (by simp [hN])]
  apply Finset.sum_congr rfl
  intro i _
  simp only [mapB, ent2_map_val]
  simp only [List.getD_eq_getElem?_getD, List.getElem?_map]
  cases b.f[i]? <;> simp [Fx.val_mul]

theorem val_legendreGram (b : Basis Fx) (J r r' l l' : Nat) (hw : b.w.length = J) :
    Fx.val (legendreGram b.p b.w r r' l l') = lGram (mapB b) J r r' l l' := by
  unfold legendreGram lGram
  rw [val_sum_range _ J (by simp [hw])]
  apply Finset.sum_congr rfl
  intro j _
  simp only [mapB, ent3_map_val, ent_map_val]
  simp only [List.getD_eq_getElem?_getD, List.getElem?_zipWith]
  cases hwj : b.w[j]? with
  | none => simp
  | some wj =>
    cases h1 : (b.p[r]?.getD [])[j]? with
    | none => simp [List.zip_eq_zipWith, List.getElem?_zipWith, h1]
    | some a =>
      cases h2 : (b.p[r']?.getD [])[j]? with
      | none => simp [List.zip_eq_zipWith, List.getElem?_zipWith, h1, h2]
      | some c => simp [List.zip_eq_zipWith, List.getElem?_zipWith, h1, h2, Fx.val_mul]

/-- the fixed-point Gram check (evaluated in the kernel by the generated certificates) implies the
 rational Gram bound needed by `roundtrip_bound` -/
theorem gramCheck_sound (b : Basis Fx) (mask : List (List Bool)) (N R J L : Nat) (eps : Fx)
    (hN : b.f.length = N) (hw : b.w.length = J)
    (hc : gramCheck b.f b.p b.w mask R L eps = true) :
    ∀ r' < R, ∀ l' < L, (mask.getD r' []).getD l' false = true → ∀ r < R, ∀ l < L,
      |fGram (mapB b) N r r' * lGram (mapB b) J r r' l l' - (if r = r' ∧ l = l' then 1 else 0)|
        ≤ Fx.val eps := by
  intro r' hr' l' hl' hm r hr l hl
  unfold gramCheck at hc
  rw [List.all_eq_true] at hc
  have h1 := hc r' (List.mem_range.2 hr')
  rw [List.all_eq_true] at h1
  have h2 := h1 l' (List.mem_range.2 hl')
  rw [if_pos hm, List.all_eq_true] at h2
  have h3 := h2 r (List.mem_range.2 hr)
  rw [List.all_eq_true] at h3
  have h4 := h3 l (List.mem_range.2 hl)
  rw [Fx.le_iff, Fx.val_abs, Fx.val_sub, Fx.val_mul, val_fourierGram b N r r' hN,
    val_legendreGram b J r r' l l' hw, Fx.val_ite] at h4
  exact h4

/-- **C01 main theorem.**  If the exact Gram check succeeds on the basis arrays, then for every
 rational spectral field supported inside the mask, `analysis (synth x)` returns `x` up to
 `ε·‖x‖₁` in every coefficient (inside and outside the mask). -/
theorem roundtrip_of_cert (b : Basis Fx) (mask : List (List Bool)) (N R J L : Nat) (eps : Fx)
    (hb : Shaped (mapB b) N R J L)
    (hc : gramCheck b.f b.p b.w mask R L eps = true)
    (x : List (List ℚ)) (hx : ∀ row ∈ x, row.length ≤ L)
    (hsupp : ∀ r' l', (mask.getD r' []).getD l' false ≠ true → ent2 x r' l' = 0)
    (r l : Nat) (hr : r < R) (hl : l < L) :
    |ent2 (realAnalysis (mapB b) R J L (realSynth (mapB b) J x)) r l - ent2 x r l|
      ≤ Fx.val eps * ∑ r' ∈ range R, ∑ l' ∈ range L, |ent2 x r' l'| := by
  have hN : b.f.length = N := by simpa [mapB] using hb.fl
  have hw : b.w.length = J := by simpa [mapB] using hb.wl
  exact roundtrip_bound (mapB b) N R J L hb (Fx.val eps) x hx
    (fun r' l' => (mask.getD r' []).getD l' false = true) hsupp
    (gramCheck_sound b mask N R J L eps hN hw hc) r l hr hl

/-! ## certificates in the integer-scaled form (`Dino/SHCheck2.lean`, `DinoGen/SHCert*.lean`) -/

/-- **C01 main theorem, certificate form.**  A kernel-checked separable Gram certificate for the
 basis arrays of a live grid implies: for every rational spectral field supported on the resolved
 block, `transform (inverse_transform x)` returns `x` up to `2^-k·‖x‖₁` in *every* coefficient
 (inside and outside the mask, padding rows included). -/
theorem roundtrip_of_icert (c : ICert) (mask : List (List Bool)) (k : Nat)
    (hs : c.shapeOk = true) (hg : c.gramOk mask k = true)
    (x : List (List ℚ)) (hx : ∀ row ∈ x, row.length ≤ c.L)
    (hsupp : ∀ r' l', (mask.getD r' []).getD l' false ≠ true → ent2 x r' l' = 0)
    (r l : Nat) (hr : r < c.R) (hl : l < c.L) :
    |ent2 (realAnalysis c.ratBasis c.R c.J c.L (realSynth c.ratBasis c.J x)) r l - ent2 x r l|
      ≤ 1 / 2 ^ k * ∑ r' ∈ range c.R, ∑ l' ∈ range c.L, |ent2 x r' l'| :=
  roundtrip_bound c.ratBasis c.N c.R c.J c.L c.ratBasis_shaped (1 / 2 ^ k) x hx
    (fun r' l' => (mask.getD r' []).getD l' false = true) hsupp
    (c.gramOk_sound mask k hs hg) r l hr hl

/-- the same for the `FastSphericalHarmonics` code path (`_unstack_m`, one table per `|m|`,
 `_stack_m`), on the basis as that class stores it -/
theorem roundtrip_fast_of_icert (c : ICert) (mask : List (List Bool)) (k : Nat)
    (hp : c.pdiv = 2) (hR : c.R % 2 = 0)
    (hs : c.shapeOk = true) (hg : c.gramOk mask k = true)
    (x : List (List ℚ)) (hxl : x.length % 2 = 0) (hx : ∀ row ∈ x, row.length ≤ c.L)
    (hsupp : ∀ r' l', (mask.getD r' []).getD l' false ≠ true → ent2 x r' l' = 0)
    (r l : Nat) (hr : r < c.R) (hl : l < c.L) :
    |ent2 (fastAnalysis c.rawBasis c.R c.J c.L (fastSynth c.rawBasis c.J x)) r l - ent2 x r l|
      ≤ 1 / 2 ^ k * ∑ r' ∈ range c.R, ∑ l' ∈ range c.L, |ent2 x r' l'| := by
  rw [fastSynth_eq_real _ _ _ hxl, fastAnalysis_eq_real _ _ _ _ _ hR, ← c.ratBasis_eq_fast hp hR]
  exact roundtrip_of_icert c mask k hs hg x hx hsupp r l hr hl

/-! ## T1.1 for the fast layout, T1.3, T1.4, T1.6 (all sizes) -/

/-- **T1.1 (fast layout)** -/
theorem roundtrip_fast_eq_gram {K : Type} [CommRing K] (b : Basis K) (N R J L : Nat)
    (hb : Shaped (fastBasis b) N R J L) (hR : R % 2 = 0) (x : List (List K))
    (hxl : x.length % 2 = 0) (hx : ∀ row ∈ x, row.length ≤ L) (r l : Nat) (hr : r < R) :
    ent2 (fastAnalysis b R J L (fastSynth b J x)) r l
      = ∑ r' ∈ range R, ∑ l' ∈ range L,
          fGram (fastBasis b) N r r' * lGram (fastBasis b) J r r' l l' * ent2 x r' l' :=
  ent2_roundtrip_fast b N R J L hb hR x hxl hx r l hr

section legendre
variable {F : Type} [Field F]

/-- **T1.3** `associated_legendre.evaluate` returns exact zeros for `l < m`, for every `n_m`, `n_l`,
 node list and square-root function -/
theorem evaluate_zero_of_lt (sqrt : F → F) (nm nl : Nat) (xs : List F) (m j l : Nat) (h : l < m) :
    ent3 (Legendre.evaluate sqrt nm nl xs) m j l = 0 :=
  Legendre.ent3_evaluate_of_lt sqrt nm nl xs m j l h

/-- **T1.3 (synthesis, real layout)** with the tables built by `evaluate`, two spectral fields that
 agree on the triangle `|m| ≤ l` (row `r` has `|m| = (r+1)/2`) have the same nodal values: entries
 outside the triangular truncation never influence the result.  Any `f`, `w`, any sizes. -/
theorem synth_ignores_outside_triangle (sqrt : F → F) (M L : Nat) (xs : List F) (f : List (List F))
    (w : List F) (N R J : Nat)
    (hb : Shaped ⟨f, realTables (Legendre.evaluate sqrt M L xs), w⟩ N R J L)
    (x x' : List (List F)) (hx : ∀ row ∈ x, row.length ≤ L) (hx' : ∀ row ∈ x', row.length ≤ L)
    (hag : ∀ r l, (r + 1) / 2 ≤ l → ent2 x r l = ent2 x' r l) (i j : Nat) :
    ent2 (realSynth ⟨f, realTables (Legendre.evaluate sqrt M L xs), w⟩ J x) i j
      = ent2 (realSynth ⟨f, realTables (Legendre.evaluate sqrt M L xs), w⟩ J x') i j :=
  ent2_realSynth_congr _ N R J L hb (fun r => (r + 1) / 2)
    (fun r j l h => realTables_zero sqrt M L xs r j l h) x x' hx hx' hag i j

/-- **T1.3 (analysis, real layout)** coefficients outside the triangle never appear -/
theorem analysis_zero_outside_triangle (sqrt : F → F) (M L : Nat) (xs : List F) (f : List (List F))
    (w : List F) (N R J : Nat)
    (hb : Shaped ⟨f, realTables (Legendre.evaluate sqrt M L xs), w⟩ N R J L)
    (z : List (List F)) (hzr : ∀ zi ∈ z, zi.length = J) (hzl : z.length ≤ N) (r l : Nat) (hr : r < R)
    (hl : l < (r + 1) / 2) :
    ent2 (realAnalysis ⟨f, realTables (Legendre.evaluate sqrt M L xs), w⟩ R J L z) r l = 0 :=
  ent2_realAnalysis_zero _ N R J L hb (fun r => (r + 1) / 2)
    (fun r j l h => realTables_zero sqrt M L xs r j l h) z hzr hzl r l hr hl

/-- **T1.3 (fast layout)** row `r` has `|m| = r/2`; `p` is stored once per `|m|` -/
theorem fast_synth_ignores_outside_triangle (sqrt : F → F) (M L : Nat) (xs : List F)
    (f : List (List F)) (w : List F) (N R J : Nat)
    (hb : Shaped (fastBasis ⟨f, Legendre.evaluate sqrt M L xs, w⟩) N R J L)
    (x x' : List (List F)) (hxl : x.length % 2 = 0) (hxl' : x'.length % 2 = 0)
    (hx : ∀ row ∈ x, row.length ≤ L) (hx' : ∀ row ∈ x', row.length ≤ L)
    (hag : ∀ r l, r / 2 ≤ l → ent2 x r l = ent2 x' r l) (i j : Nat) :
    ent2 (fastSynth ⟨f, Legendre.evaluate sqrt M L xs, w⟩ J x) i j
      = ent2 (fastSynth ⟨f, Legendre.evaluate sqrt M L xs, w⟩ J x') i j := by
  rw [fastSynth_eq_real _ _ _ hxl, fastSynth_eq_real _ _ _ hxl']
  exact ent2_realSynth_congr _ N R J L hb (fun r => r / 2)
    (fun r j l h => fastTables_zero sqrt M L xs r j l h) x x' hx hx' hag i j

theorem fast_analysis_zero_outside_triangle (sqrt : F → F) (M L : Nat) (xs : List F)
    (f : List (List F)) (w : List F) (N R J : Nat)
    (hb : Shaped (fastBasis ⟨f, Legendre.evaluate sqrt M L xs, w⟩) N R J L) (hR : R % 2 = 0)
    (z : List (List F)) (hzr : ∀ zi ∈ z, zi.length = J) (hzl : z.length ≤ N) (r l : Nat) (hr : r < R)
    (hl : l < r / 2) :
    ent2 (fastAnalysis ⟨f, Legendre.evaluate sqrt M L xs, w⟩ R J L z) r l = 0 := by
  rw [fastAnalysis_eq_real _ _ _ _ _ hR]
  exact ent2_realAnalysis_zero _ N R J L hb (fun r => r / 2)
    (fun r j l h => fastTables_zero sqrt M L xs r j l h) z hzr hzl r l hr hl

/-- **T1.6 (prefix stability)** raising the truncation `n_l` only appends entries -/
theorem legendre_prefix (sqrt : F → F) (nl nl' : Nat) (x : F) (m : Nat) (h : nl ≤ nl') :
    (Legendre.row sqrt nl' x m).take nl = Legendre.row sqrt nl x m :=
  Legendre.take_row sqrt nl nl' x m h

theorem evaluate_prefix (sqrt : F → F) (nm nl nl' : Nat) (xs : List F) (h : nl ≤ nl') :
    (Legendre.evaluate sqrt nm nl' xs).map (fun pm => pm.map fun pj => pj.take nl)
      = Legendre.evaluate sqrt nm nl xs :=
  Legendre.take_evaluate_rows sqrt nm nl nl' xs h

theorem evaluate_prefix_orders (sqrt : F → F) (nm nm' nl : Nat) (xs : List F) (h : nm ≤ nm') :
    (Legendre.evaluate sqrt nm' nl xs).take nm = Legendre.evaluate sqrt nm nl xs :=
  Legendre.take_evaluate_orders sqrt nm nm' nl xs h

/-- **T1.6 (parity)** `P^m_l(-x) = (-1)^(l+m)·P^m_l(x)` for the computed tables, every size -/
theorem legendre_parity (sqrt : F → F) (nl : Nat) (x : F) (m l : Nat) :
    ent (Legendre.row sqrt nl (-x) m) l = (-1) ^ (l + m) * ent (Legendre.row sqrt nl x m) l :=
  Legendre.ent_row_neg sqrt nl x m l

end legendre

/-- **T1.4** `Grid.integrate (inverse_transform x) = r²·Σ (∫Y_{r,l})·x[r][l]` for every basis of
 consistent shape, every radius and every spectral field -/
theorem integrate_synth {K : Type} [CommRing K] (b : Basis K) (N R J L : Nat) (hb : Shaped b N R J L)
    (r2 : K) (x : List (List K)) (hx : ∀ row ∈ x, row.length ≤ L) :
    integrate b.w r2 (realSynth b J x)
      = r2 * ∑ r ∈ range R, ∑ l ∈ range L, colInt b N J r l * ent2 x r l :=
  integrate_realSynth b N R J L hb r2 x hx

/-- **T1.4, certificate form.**  With `b₀` the constant `(0,0)` basis function of the grid:
 `|b₀·∫synth(x) − r²·x₀₀| ≤ |r²|·2^-k·‖x‖₁` for every field supported on the resolved block. -/
theorem integral_of_icert (c : ICert) (mask : List (List Bool)) (k : Nat)
    (hs : c.shapeOk = true) (hc : c.colIntOk mask k = true) (hR : 0 < c.R) (hL : 0 < c.L) (r2 : ℚ)
    (x : List (List ℚ)) (hx : ∀ row ∈ x, row.length ≤ c.L)
    (hsupp : ∀ r' l', (mask.getD r' []).getD l' false ≠ true → ent2 x r' l' = 0) :
    |c.b0q * integrate c.ratBasis.w r2 (realSynth c.ratBasis c.J x) - r2 * ent2 x 0 0|
      ≤ |r2| * (1 / 2 ^ k * ∑ r' ∈ range c.R, ∑ l' ∈ range c.L, |ent2 x r' l'|) := by
  rw [integrate_realSynth c.ratBasis c.N c.R c.J c.L c.ratBasis_shaped r2 x hx]
  have hx00 : ent2 x 0 0
      = ∑ r ∈ range c.R, ∑ l ∈ range c.L, (if r = 0 ∧ l = 0 then (1 : ℚ) else 0) * ent2 x r l := by
    rw [Finset.sum_eq_single 0]
    · rw [Finset.sum_eq_single 0]
      · simp
      · intro l' _ hne; simp [hne]
      · intro h; exact absurd (Finset.mem_range.2 hL) h
    · intro r' _ hne
      apply Finset.sum_eq_zero; intro l' _; simp [hne]
    · intro h; exact absurd (Finset.mem_range.2 hR) h
  have hrew : c.b0q * (r2 * ∑ r ∈ range c.R, ∑ l ∈ range c.L, colInt c.ratBasis c.N c.J r l * ent2 x r l)
      - r2 * ent2 x 0 0
      = r2 * ∑ r ∈ range c.R, ∑ l ∈ range c.L,
          (c.b0q * colInt c.ratBasis c.N c.J r l - (if r = 0 ∧ l = 0 then 1 else 0)) * ent2 x r l := by
    rw [hx00]
    simp only [Finset.mul_sum, ← Finset.sum_sub_distrib]
    apply Finset.sum_congr rfl; intro r _
    apply Finset.sum_congr rfl; intro l _
    ring
  rw [hrew, abs_mul]
  apply mul_le_mul_of_nonneg_left _ (abs_nonneg _)
  rw [Finset.mul_sum]
  refine le_trans (Finset.abs_sum_le_sum_abs _ _) (Finset.sum_le_sum ?_)
  intro r hr
  rw [Finset.mul_sum]
  refine le_trans (Finset.abs_sum_le_sum_abs _ _) (Finset.sum_le_sum ?_)
  intro l hl
  rw [abs_mul]
  by_cases hm : (mask.getD r []).getD l false = true
  · exact mul_le_mul_of_nonneg_right
      (c.colIntOk_sound mask k hs hc r (Finset.mem_range.1 hr) l (Finset.mem_range.1 hl) hm)
      (abs_nonneg _)
  · rw [hsupp r l hm]; simp

/-- **T1.4, the constant.**  `b₀² = 1/(4π)` to fifteen digits: `|b₀²·4π − 1| ≤ 10⁻¹⁵` for the basis
 constants the code computed in float64 (measured `−5.2·10⁻¹⁷`), so that
 `∫synth(x) ≈ r²·√(4π)·x₀₀` (`b₀ > 0`).  Uses Mathlib's 20-digit bounds on `π`. -/
theorem b0_sq_four_pi (c : ICert) (h : c.b0sqOk = true) :
    0 < c.b0q ∧ |((c.b0q : ℚ) : ℝ) ^ 2 * (4 * Real.pi) - 1| ≤ 1 / 10 ^ 15 := by
  refine ⟨c.b0q_pos h, ?_⟩
  obtain ⟨h1, h2⟩ := c.b0sqOk_sound h
  have r1 : ((96203260011544519986650 : ℚ) / 2 ^ 80 : ℚ) ≤ c.b0q ^ 2 := h1
  have q1 : (96203260011544519986650 : ℝ) / 2 ^ 80 ≤ ((c.b0q : ℚ) : ℝ) ^ 2 := by
    have := (Rat.cast_le (K := ℝ)).2 r1
    push_cast at this; exact this
  have q2 : ((c.b0q : ℚ) : ℝ) ^ 2 ≤ (96203260011544712392863 : ℝ) / 2 ^ 80 := by
    have := (Rat.cast_le (K := ℝ)).2 h2
    push_cast at this; exact this
  have p1 := Real.pi_gt_d20
  have p2 := Real.pi_lt_d20
  have hpos : (0 : ℝ) ≤ ((c.b0q : ℚ) : ℝ) ^ 2 := sq_nonneg _
  rw [abs_le]
  constructor
  · have : (96203260011544519986650 : ℝ) / 2 ^ 80 * (4 * 3.14159265358979323846)
        ≤ ((c.b0q : ℚ) : ℝ) ^ 2 * (4 * Real.pi) :=
      mul_le_mul q1 (by linarith) (by norm_num) hpos
    have e : (1 : ℝ) - 1 / 10 ^ 15
        ≤ (96203260011544519986650 : ℝ) / 2 ^ 80 * (4 * 3.14159265358979323846) := by norm_num
    linarith
  · have : ((c.b0q : ℚ) : ℝ) ^ 2 * (4 * Real.pi)
        ≤ (96203260011544712392863 : ℝ) / 2 ^ 80 * (4 * 3.14159265358979323847) :=
      mul_le_mul q2 (by linarith) (by positivity) (by norm_num)
    have e : (96203260011544712392863 : ℝ) / 2 ^ 80 * (4 * 3.14159265358979323847)
        ≤ 1 + 1 / 10 ^ 15 := by norm_num
    linarith

/-- the interval of `b0sqOk` is not vacuous and is as tight as the statement: its width is
 `< 2.1·10⁻¹⁵` relative, and a constant off by `10⁻¹⁴` relative is rejected -/
theorem b0sq_interval_tight :
    ICert.b0sqLo < ICert.b0sqHi ∧
    (ICert.b0sqHi - ICert.b0sqLo) * 10 ^ 15 < 21 * ICert.b0sqLo / 10 ∧
    ICert.b0sqHi * 10 ^ 14 < ICert.b0sqLo * (10 ^ 14 + 1) := by
  decide +kernel

/-- **the 8-digit literal** `_CONSTANT_NORMALIZATION_FACTOR = 3.5449077` of
 `primitive_equations.py` ("a constant field of ones has this value in entry [0, 0]") is `√(4π)`
 within its stated digits: `|3.5449077 − √(4π)| ≤ 2·10⁻⁹` (half a unit of the last digit is
 `5·10⁻⁸`), i.e. relative error `≤ 5.7·10⁻¹⁰` -/
theorem constant_normalization_literal :
    |(3.5449077 : ℝ) - Real.sqrt (4 * Real.pi)| ≤ 2 / 10 ^ 9 := by
  have p1 := Real.pi_gt_d20
  have p2 := Real.pi_lt_d20
  rw [abs_le]
  constructor
  · -- √(4π) ≤ 3.5449077 + 2e-9
    have h : Real.sqrt (4 * Real.pi) ≤ 3.5449077 + 2 / 10 ^ 9 := by
      rw [show (3.5449077 + 2 / 10 ^ 9 : ℝ) = Real.sqrt ((3.5449077 + 2 / 10 ^ 9) ^ 2) by
        rw [Real.sqrt_sq (by norm_num)]]
      apply Real.sqrt_le_sqrt
      have : (4 : ℝ) * 3.14159265358979323847 ≤ (3.5449077 + 2 / 10 ^ 9) ^ 2 := by norm_num
      linarith
    linarith
  · have h : (3.5449077 : ℝ) - 2 / 10 ^ 9 ≤ Real.sqrt (4 * Real.pi) := by
      rw [show (3.5449077 - 2 / 10 ^ 9 : ℝ) = Real.sqrt ((3.5449077 - 2 / 10 ^ 9) ^ 2) by
        rw [Real.sqrt_sq (by norm_num)]]
      apply Real.sqrt_le_sqrt
      have : ((3.5449077 : ℝ) - 2 / 10 ^ 9) ^ 2 ≤ 4 * 3.14159265358979323846 := by norm_num
      linarith
    linarith

/-- the literal against the basis constant the code computes: the spectral coefficient of the
 constant field `1` is `1/b₀`, and `|3.5449077·b₀ − 1| ≤ 10⁻⁹` for every certified basis -/
theorem constant_normalization_vs_b0 (c : ICert) (h : c.b0sqOk = true) :
    |(3.5449077 : ℝ) * ((c.b0q : ℚ) : ℝ) - 1| ≤ 1 / 10 ^ 9 := by
  obtain ⟨hb, hsq⟩ := b0_sq_four_pi c h
  have hlit := constant_normalization_literal
  have hb' : (0 : ℝ) < ((c.b0q : ℚ) : ℝ) := by exact_mod_cast hb
  set b : ℝ := ((c.b0q : ℚ) : ℝ)
  set s : ℝ := Real.sqrt (4 * Real.pi)
  have hs2 : s ^ 2 = 4 * Real.pi := Real.sq_sqrt (by positivity)
  have hs0 : 0 ≤ s := Real.sqrt_nonneg _
  have p1 := Real.pi_gt_d20
  have hs1 : (3.5 : ℝ) ≤ s := by
    rw [show (3.5 : ℝ) = Real.sqrt (3.5 ^ 2) by rw [Real.sqrt_sq (by norm_num)]]
    apply Real.sqrt_le_sqrt; norm_num; linarith
  -- |b·s − 1| ≤ |b²s² − 1| since b·s + 1 ≥ 1
  have hbs : |b * s - 1| ≤ 1 / 10 ^ 15 := by
    have hfac : b ^ 2 * (4 * Real.pi) - 1 = (b * s - 1) * (b * s + 1) := by rw [← hs2]; ring
    rw [hfac, abs_mul] at hsq
    have h1 : (1 : ℝ) ≤ |b * s + 1| := by
      rw [abs_of_nonneg (by positivity)]; nlinarith [mul_nonneg hb'.le hs0]
    calc |b * s - 1| ≤ |b * s - 1| * |b * s + 1| := le_mul_of_one_le_right (abs_nonneg _) h1
      _ ≤ 1 / 10 ^ 15 := hsq
  -- b ≤ (1 + 1e-15)/3.5
  have hbub : b ≤ 0.2858 := by
    have := (abs_le.1 hbs).2
    nlinarith
  have e : (3.5449077 : ℝ) * b - 1 = (3.5449077 - s) * b + (b * s - 1) := by ring
  rw [e]
  calc |(3.5449077 - s) * b + (b * s - 1)| ≤ |(3.5449077 - s) * b| + |b * s - 1| := abs_add_le _ _
    _ = |3.5449077 - s| * b + |b * s - 1| := by rw [abs_mul, abs_of_pos hb']
    _ ≤ 2 / 10 ^ 9 * 0.2858 + 1 / 10 ^ 15 := by
        apply add_le_add _ hbs
        exact mul_le_mul hlit hbub hb'.le (by norm_num)
    _ ≤ 1 / 10 ^ 9 := by norm_num

/-- **quadrature exactness, certificate form**: the latitude nodes and weights returned by scipy /
 `_compute_weights` integrate every monomial up to the degree the spacing rule promises -/
theorem quadrature_of_icert (c : ICert) (deg kk : Nat) (h : c.quadOk deg kk = true) (k : Nat)
    (hk : k ≤ deg) :
    |(∑ j ∈ range c.wl.length, ICert.sc (ent c.wl j) c.ewl * (ICert.sc (ent c.x j) c.ex) ^ k)
        - (if k % 2 = 0 then 2 / ((k : ℚ) + 1) else 0)| ≤ 1 / 2 ^ kk :=
  c.quadOk_sound deg kk h k hk

/-! ## the generated grids (`DinoGen/SHCert.lean`, regenerated from the live code on every run)

For each grid `g` of the quick family the kernel-checked certificates `g_shape`, `g_gram`,
`g_colint`, `g_b0sq`, `g_quad` are turned into the statements about every spectral field. -/

section generated
open DinoGen.SHCert

theorem roundtrip_g0 : ∀ (x : List (List ℚ)), (∀ row ∈ x, row.length ≤ g0.L) →
    (∀ r' l', (g0_mask.getD r' []).getD l' false ≠ true → ent2 x r' l' = 0) →
    ∀ r l, r < g0.R → l < g0.L →
    |ent2 (realAnalysis g0.ratBasis g0.R g0.J g0.L (realSynth g0.ratBasis g0.J x)) r l - ent2 x r l|
      ≤ 1 / 2 ^ 40 * ∑ r' ∈ range g0.R, ∑ l' ∈ range g0.L, |ent2 x r' l'| :=
  roundtrip_of_icert g0 g0_mask 40 g0_shape g0_gram

theorem integral_g0 : ∀ (r2 : ℚ) (x : List (List ℚ)), (∀ row ∈ x, row.length ≤ g0.L) →
    (∀ r' l', (g0_mask.getD r' []).getD l' false ≠ true → ent2 x r' l' = 0) →
    |g0.b0q * integrate g0.ratBasis.w r2 (realSynth g0.ratBasis g0.J x) - r2 * ent2 x 0 0|
      ≤ |r2| * (1 / 2 ^ 40 * ∑ r' ∈ range g0.R, ∑ l' ∈ range g0.L, |ent2 x r' l'|) :=
  integral_of_icert g0 g0_mask 40 g0_shape g0_colint (by decide) (by decide)

theorem b0_g0 : 0 < g0.b0q ∧ |((g0.b0q : ℚ) : ℝ) ^ 2 * (4 * Real.pi) - 1| ≤ 1 / 10 ^ 15 :=
  b0_sq_four_pi g0 g0_b0sq

/-- non-vacuity of `constant_normalization_vs_b0`: the literal against the constant of grid `g0` -/
example : |(3.5449077 : ℝ) * ((g0.b0q : ℚ) : ℝ) - 1| ≤ 1 / 10 ^ 9 :=
  constant_normalization_vs_b0 g0 g0_b0sq

/-- the remaining kernel-checked certificates of the generated grids read as propositions about the
 certified arrays (review2 E, C01-3): `…_sound` of `Lemmas/SHCert.lean` instantiated on a real grid
 (`g0`) and, for the padding, on a `FastSphericalHarmonics` grid (`g2`) -/
example := g0.constOk_sound _ _ g0_const
example := g0.nonnegOk_sound g0_nonneg
example := g0.zerosOk_sound g0_mabs g0_zeros
example := g0.zerosOk_ratBasis g0_mabs g0_zeros
example := g0.wprodOk_sound _ g0_wprod
example := g0.nodesOk_sound _ g0_nodes
example := g2.paddingOk_sound _ _ _ _ g2_padding

theorem roundtrip_g1 : ∀ (x : List (List ℚ)), (∀ row ∈ x, row.length ≤ g1.L) →
    (∀ r' l', (g1_mask.getD r' []).getD l' false ≠ true → ent2 x r' l' = 0) →
    ∀ r l, r < g1.R → l < g1.L →
    |ent2 (realAnalysis g1.ratBasis g1.R g1.J g1.L (realSynth g1.ratBasis g1.J x)) r l - ent2 x r l|
      ≤ 1 / 2 ^ 40 * ∑ r' ∈ range g1.R, ∑ l' ∈ range g1.L, |ent2 x r' l'| :=
  roundtrip_of_icert g1 g1_mask 40 g1_shape g1_gram

theorem integral_g1 : ∀ (r2 : ℚ) (x : List (List ℚ)), (∀ row ∈ x, row.length ≤ g1.L) →
    (∀ r' l', (g1_mask.getD r' []).getD l' false ≠ true → ent2 x r' l' = 0) →
    |g1.b0q * integrate g1.ratBasis.w r2 (realSynth g1.ratBasis g1.J x) - r2 * ent2 x 0 0|
      ≤ |r2| * (1 / 2 ^ 40 * ∑ r' ∈ range g1.R, ∑ l' ∈ range g1.L, |ent2 x r' l'|) :=
  integral_of_icert g1 g1_mask 40 g1_shape g1_colint (by decide) (by decide)

theorem b0_g1 : 0 < g1.b0q ∧ |((g1.b0q : ℚ) : ℝ) ^ 2 * (4 * Real.pi) - 1| ≤ 1 / 10 ^ 15 :=
  b0_sq_four_pi g1 g1_b0sq

theorem roundtrip_g2 : ∀ (x : List (List ℚ)), (∀ row ∈ x, row.length ≤ g2.L) →
    (∀ r' l', (g2_mask.getD r' []).getD l' false ≠ true → ent2 x r' l' = 0) →
    ∀ r l, r < g2.R → l < g2.L →
    |ent2 (realAnalysis g2.ratBasis g2.R g2.J g2.L (realSynth g2.ratBasis g2.J x)) r l - ent2 x r l|
      ≤ 1 / 2 ^ 40 * ∑ r' ∈ range g2.R, ∑ l' ∈ range g2.L, |ent2 x r' l'| :=
  roundtrip_of_icert g2 g2_mask 40 g2_shape g2_gram

theorem roundtrip_fast_g2 : ∀ (x : List (List ℚ)), x.length % 2 = 0 → (∀ row ∈ x, row.length ≤ g2.L) →
    (∀ r' l', (g2_mask.getD r' []).getD l' false ≠ true → ent2 x r' l' = 0) →
    ∀ r l, r < g2.R → l < g2.L →
    |ent2 (fastAnalysis g2.rawBasis g2.R g2.J g2.L (fastSynth g2.rawBasis g2.J x)) r l - ent2 x r l|
      ≤ 1 / 2 ^ 40 * ∑ r' ∈ range g2.R, ∑ l' ∈ range g2.L, |ent2 x r' l'| :=
  roundtrip_fast_of_icert g2 g2_mask 40 rfl (by decide) g2_shape g2_gram

theorem integral_g2 : ∀ (r2 : ℚ) (x : List (List ℚ)), (∀ row ∈ x, row.length ≤ g2.L) →
    (∀ r' l', (g2_mask.getD r' []).getD l' false ≠ true → ent2 x r' l' = 0) →
    |g2.b0q * integrate g2.ratBasis.w r2 (realSynth g2.ratBasis g2.J x) - r2 * ent2 x 0 0|
      ≤ |r2| * (1 / 2 ^ 40 * ∑ r' ∈ range g2.R, ∑ l' ∈ range g2.L, |ent2 x r' l'|) :=
  integral_of_icert g2 g2_mask 40 g2_shape g2_colint (by decide) (by decide)

theorem b0_g2 : 0 < g2.b0q ∧ |((g2.b0q : ℚ) : ℝ) ^ 2 * (4 * Real.pi) - 1| ≤ 1 / 10 ^ 15 :=
  b0_sq_four_pi g2 g2_b0sq

theorem roundtrip_g3 : ∀ (x : List (List ℚ)), (∀ row ∈ x, row.length ≤ g3.L) →
    (∀ r' l', (g3_mask.getD r' []).getD l' false ≠ true → ent2 x r' l' = 0) →
    ∀ r l, r < g3.R → l < g3.L →
    |ent2 (realAnalysis g3.ratBasis g3.R g3.J g3.L (realSynth g3.ratBasis g3.J x)) r l - ent2 x r l|
      ≤ 1 / 2 ^ 40 * ∑ r' ∈ range g3.R, ∑ l' ∈ range g3.L, |ent2 x r' l'| :=
  roundtrip_of_icert g3 g3_mask 40 g3_shape g3_gram

theorem roundtrip_fast_g3 : ∀ (x : List (List ℚ)), x.length % 2 = 0 → (∀ row ∈ x, row.length ≤ g3.L) →
    (∀ r' l', (g3_mask.getD r' []).getD l' false ≠ true → ent2 x r' l' = 0) →
    ∀ r l, r < g3.R → l < g3.L →
    |ent2 (fastAnalysis g3.rawBasis g3.R g3.J g3.L (fastSynth g3.rawBasis g3.J x)) r l - ent2 x r l|
      ≤ 1 / 2 ^ 40 * ∑ r' ∈ range g3.R, ∑ l' ∈ range g3.L, |ent2 x r' l'| :=
  roundtrip_fast_of_icert g3 g3_mask 40 rfl (by decide) g3_shape g3_gram

theorem integral_g3 : ∀ (r2 : ℚ) (x : List (List ℚ)), (∀ row ∈ x, row.length ≤ g3.L) →
    (∀ r' l', (g3_mask.getD r' []).getD l' false ≠ true → ent2 x r' l' = 0) →
    |g3.b0q * integrate g3.ratBasis.w r2 (realSynth g3.ratBasis g3.J x) - r2 * ent2 x 0 0|
      ≤ |r2| * (1 / 2 ^ 40 * ∑ r' ∈ range g3.R, ∑ l' ∈ range g3.L, |ent2 x r' l'|) :=
  integral_of_icert g3 g3_mask 40 g3_shape g3_colint (by decide) (by decide)

theorem b0_g3 : 0 < g3.b0q ∧ |((g3.b0q : ℚ) : ℝ) ^ 2 * (4 * Real.pi) - 1| ≤ 1 / 10 ^ 15 :=
  b0_sq_four_pi g3 g3_b0sq

theorem roundtrip_g4 : ∀ (x : List (List ℚ)), (∀ row ∈ x, row.length ≤ g4.L) →
    (∀ r' l', (g4_mask.getD r' []).getD l' false ≠ true → ent2 x r' l' = 0) →
    ∀ r l, r < g4.R → l < g4.L →
    |ent2 (realAnalysis g4.ratBasis g4.R g4.J g4.L (realSynth g4.ratBasis g4.J x)) r l - ent2 x r l|
      ≤ 1 / 2 ^ 40 * ∑ r' ∈ range g4.R, ∑ l' ∈ range g4.L, |ent2 x r' l'| :=
  roundtrip_of_icert g4 g4_mask 40 g4_shape g4_gram

theorem integral_g4 : ∀ (r2 : ℚ) (x : List (List ℚ)), (∀ row ∈ x, row.length ≤ g4.L) →
    (∀ r' l', (g4_mask.getD r' []).getD l' false ≠ true → ent2 x r' l' = 0) →
    |g4.b0q * integrate g4.ratBasis.w r2 (realSynth g4.ratBasis g4.J x) - r2 * ent2 x 0 0|
      ≤ |r2| * (1 / 2 ^ 40 * ∑ r' ∈ range g4.R, ∑ l' ∈ range g4.L, |ent2 x r' l'|) :=
  integral_of_icert g4 g4_mask 40 g4_shape g4_colint (by decide) (by decide)

theorem b0_g4 : 0 < g4.b0q ∧ |((g4.b0q : ℚ) : ℝ) ^ 2 * (4 * Real.pi) - 1| ≤ 1 / 10 ^ 15 :=
  b0_sq_four_pi g4 g4_b0sq

theorem roundtrip_g5 : ∀ (x : List (List ℚ)), (∀ row ∈ x, row.length ≤ g5.L) →
    (∀ r' l', (g5_mask.getD r' []).getD l' false ≠ true → ent2 x r' l' = 0) →
    ∀ r l, r < g5.R → l < g5.L →
    |ent2 (realAnalysis g5.ratBasis g5.R g5.J g5.L (realSynth g5.ratBasis g5.J x)) r l - ent2 x r l|
      ≤ 1 / 2 ^ 40 * ∑ r' ∈ range g5.R, ∑ l' ∈ range g5.L, |ent2 x r' l'| :=
  roundtrip_of_icert g5 g5_mask 40 g5_shape g5_gram

theorem integral_g5 : ∀ (r2 : ℚ) (x : List (List ℚ)), (∀ row ∈ x, row.length ≤ g5.L) →
    (∀ r' l', (g5_mask.getD r' []).getD l' false ≠ true → ent2 x r' l' = 0) →
    |g5.b0q * integrate g5.ratBasis.w r2 (realSynth g5.ratBasis g5.J x) - r2 * ent2 x 0 0|
      ≤ |r2| * (1 / 2 ^ 40 * ∑ r' ∈ range g5.R, ∑ l' ∈ range g5.L, |ent2 x r' l'|) :=
  integral_of_icert g5 g5_mask 40 g5_shape g5_colint (by decide) (by decide)

theorem b0_g5 : 0 < g5.b0q ∧ |((g5.b0q : ℚ) : ℝ) ^ 2 * (4 * Real.pi) - 1| ≤ 1 / 10 ^ 15 :=
  b0_sq_four_pi g5 g5_b0sq

theorem roundtrip_g6 : ∀ (x : List (List ℚ)), (∀ row ∈ x, row.length ≤ g6.L) →
    (∀ r' l', (g6_mask.getD r' []).getD l' false ≠ true → ent2 x r' l' = 0) →
    ∀ r l, r < g6.R → l < g6.L →
    |ent2 (realAnalysis g6.ratBasis g6.R g6.J g6.L (realSynth g6.ratBasis g6.J x)) r l - ent2 x r l|
      ≤ 1 / 2 ^ 40 * ∑ r' ∈ range g6.R, ∑ l' ∈ range g6.L, |ent2 x r' l'| :=
  roundtrip_of_icert g6 g6_mask 40 g6_shape g6_gram

theorem integral_g6 : ∀ (r2 : ℚ) (x : List (List ℚ)), (∀ row ∈ x, row.length ≤ g6.L) →
    (∀ r' l', (g6_mask.getD r' []).getD l' false ≠ true → ent2 x r' l' = 0) →
    |g6.b0q * integrate g6.ratBasis.w r2 (realSynth g6.ratBasis g6.J x) - r2 * ent2 x 0 0|
      ≤ |r2| * (1 / 2 ^ 40 * ∑ r' ∈ range g6.R, ∑ l' ∈ range g6.L, |ent2 x r' l'|) :=
  integral_of_icert g6 g6_mask 40 g6_shape g6_colint (by decide) (by decide)

theorem b0_g6 : 0 < g6.b0q ∧ |((g6.b0q : ℚ) : ℝ) ^ 2 * (4 * Real.pi) - 1| ≤ 1 / 10 ^ 15 :=
  b0_sq_four_pi g6 g6_b0sq

theorem roundtrip_g7 : ∀ (x : List (List ℚ)), (∀ row ∈ x, row.length ≤ g7.L) →
    (∀ r' l', (g7_mask.getD r' []).getD l' false ≠ true → ent2 x r' l' = 0) →
    ∀ r l, r < g7.R → l < g7.L →
    |ent2 (realAnalysis g7.ratBasis g7.R g7.J g7.L (realSynth g7.ratBasis g7.J x)) r l - ent2 x r l|
      ≤ 1 / 2 ^ 40 * ∑ r' ∈ range g7.R, ∑ l' ∈ range g7.L, |ent2 x r' l'| :=
  roundtrip_of_icert g7 g7_mask 40 g7_shape g7_gram

theorem roundtrip_fast_g7 : ∀ (x : List (List ℚ)), x.length % 2 = 0 → (∀ row ∈ x, row.length ≤ g7.L) →
    (∀ r' l', (g7_mask.getD r' []).getD l' false ≠ true → ent2 x r' l' = 0) →
    ∀ r l, r < g7.R → l < g7.L →
    |ent2 (fastAnalysis g7.rawBasis g7.R g7.J g7.L (fastSynth g7.rawBasis g7.J x)) r l - ent2 x r l|
      ≤ 1 / 2 ^ 40 * ∑ r' ∈ range g7.R, ∑ l' ∈ range g7.L, |ent2 x r' l'| :=
  roundtrip_fast_of_icert g7 g7_mask 40 rfl (by decide) g7_shape g7_gram

theorem integral_g7 : ∀ (r2 : ℚ) (x : List (List ℚ)), (∀ row ∈ x, row.length ≤ g7.L) →
    (∀ r' l', (g7_mask.getD r' []).getD l' false ≠ true → ent2 x r' l' = 0) →
    |g7.b0q * integrate g7.ratBasis.w r2 (realSynth g7.ratBasis g7.J x) - r2 * ent2 x 0 0|
      ≤ |r2| * (1 / 2 ^ 40 * ∑ r' ∈ range g7.R, ∑ l' ∈ range g7.L, |ent2 x r' l'|) :=
  integral_of_icert g7 g7_mask 40 g7_shape g7_colint (by decide) (by decide)

theorem b0_g7 : 0 < g7.b0q ∧ |((g7.b0q : ℚ) : ℝ) ^ 2 * (4 * Real.pi) - 1| ≤ 1 / 10 ^ 15 :=
  b0_sq_four_pi g7 g7_b0sq

/-- the `Fx`-literal form of the same certificate (grid `g0`), through `roundtrip_of_cert` -/
theorem roundtrip_g0_fx : ∀ (x : List (List ℚ)), (∀ row ∈ x, row.length ≤ 3) →
    (∀ r' l', (g0_mask.getD r' []).getD l' false ≠ true → ent2 x r' l' = 0) →
    ∀ r l, r < 3 → l < 3 →
    |ent2 (realAnalysis (mapB g0_fx) 3 3 3 (realSynth (mapB g0_fx) 3 x)) r l - ent2 x r l|
      ≤ Fx.val ⟨1, 40⟩ * ∑ r' ∈ range 3, ∑ l' ∈ range 3, |ent2 x r' l'| :=
  roundtrip_of_cert g0_fx g0_mask 5 3 3 3 ⟨1, 40⟩
    (by constructor <;> simp [mapB, g0_fx]) g0_fx_gram

/-! ### non-vacuity -/

/-- the resolved blocks are not empty, and differ from the full triangle where the rule says so -/
example : (g1_mask.getD 6 []).getD 4 false = true := by decide
example : (g6_mask.getD 0 []).getD 4 false = false := by decide   -- l' = 4 not resolved by 4 Gauss nodes
example : (g6_mask.getD 6 []).getD 3 false = true := by decide
example : (g7_mask.getD 4 []).getD 3 false = false := by decide   -- 6 equiangular nodes: only l' ≤ 2
example : (g3_mask.getD 1 []).getD 0 false = false := by decide   -- the `-0` row carries no coefficient

/-- a concrete non-trivial field satisfying the hypotheses of `roundtrip_g1` -/
example : ∀ r l, r < g1.R → l < g1.L →
    |ent2 (realAnalysis g1.ratBasis g1.R g1.J g1.L (realSynth g1.ratBasis g1.J [[2, 0, 1], [0, -3]])) r l
        - ent2 [[2, 0, 1], [0, -3]] r l|
      ≤ 1 / 2 ^ 40 * ∑ r' ∈ range g1.R, ∑ l' ∈ range g1.L, |ent2 ([[2, 0, 1], [0, -3]] : List (List ℚ)) r' l'| := by
  apply roundtrip_g1
  · decide
  · intro r' l' h
    match r', l' with
    | 0, 0 => exact absurd (by decide) h
    | 0, 1 => rfl
    | 0, 2 => exact absurd (by decide) h
    | 0, l' + 3 => simp [ent2]
    | 1, 0 => rfl
    | 1, 1 => exact absurd (by decide) h
    | 1, l' + 2 => simp [ent2]
    | r' + 2, _ => simp [ent2]

end generated


/-! ## T1.5 — the longitude direction, every size (`Lemmas/FourierOrtho.lean`)

The statements below are phrased on the model functions `SH.realBasis?`, `SH.realBasisZeroImag?`,
`SH.buildReal`, `SH.buildFast` (the ones the correspondence compares with `fourier.real_basis`,
`fourier.real_basis_with_zero_imag` and the two `basis` properties) instantiated with the real `cos`, `sin`,
`sqrt`, `π`; the weight `(1 + 1)·π/N` is `fourier.quadrature_nodes(N)[1]`.  `longitude_offset` does not enter
the basis (it only labels the nodes). -/

section fourier
open Dino.FourierOrtho

/-- **T1.5** for every `M ≥ 1` and every `N` accepted by `real_basis` (`N ≥ M`): the columns of
 `fourier.real_basis(M, N)` are orthonormal under the weight `2π/N` **iff** `2 (M − 1) < N` -/
theorem fourier_orthonormal_iff (M N : ℕ) (hM : 1 ≤ M) (f : List (List ℝ))
    (hf : SH.realBasis? Real.cos Real.sin Real.sqrt Real.pi M N = some f) :
    (∀ r < 2 * M - 1, ∀ r' < 2 * M - 1,
        (1 + 1) * Real.pi / N * ∑ i ∈ range N, ent2 f i r * ent2 f i r' = if r = r' then 1 else 0)
      ↔ 2 * (M - 1) < N := by
  rw [realBasis?_real] at hf
  by_cases h : N < M
  · rw [if_pos h] at hf; exact absurd hf (by simp)
  · rw [if_neg h] at hf
    obtain rfl := Option.some.inj hf
    exact gram_real_identity_iff M N (by omega) hM

/-- **T1.5, finer:** column `r'` (wavenumber `(r'+1)/2`) is a unit vector orthogonal to all others as soon
 as `(r'+1)/2 + (M − 1) < N` — the rule `resolved_mask` of the harness / `resolvedRealMask` of the model -/
theorem fourier_column_orthonormal (M N : ℕ) (hM : 1 ≤ M) (f : List (List ℝ))
    (hf : SH.realBasis? Real.cos Real.sin Real.sqrt Real.pi M N = some f)
    (r' : ℕ) (hr' : r' < 2 * M - 1) (hres : (r' + 1) / 2 + (M - 1) < N) (r : ℕ) :
    (1 + 1) * Real.pi / N * ∑ i ∈ range N, ent2 f i r * ent2 f i r' = if r = r' then 1 else 0 := by
  rw [realBasis?_real] at hf
  by_cases h : N < M
  · rw [if_pos h] at hf; exact absurd hf (by simp)
  · rw [if_neg h] at hf
    obtain rfl := Option.some.inj hf
    exact gram_real_col M N (by omega) hM r' hr' hres r

/-- **T1.5, zero-imag layout:** under `2 (M − 1) < N` the Gram matrix of
 `fourier.real_basis_with_zero_imag(M, N)` is the identity except the structurally zero row / column 1 -/
theorem fourier_zero_imag_orthonormal (M N : ℕ) (hM : 1 ≤ M) (h : 2 * (M - 1) < N) (f : List (List ℝ))
    (hf : SH.realBasisZeroImag? Real.cos Real.sin Real.sqrt Real.pi M N = some f)
    (c c' : ℕ) (hc' : c' < 2 * M) :
    (1 + 1) * Real.pi / N * ∑ i ∈ range N, ent2 f i c * ent2 f i c'
      = if c = c' ∧ c' ≠ 1 then 1 else 0 := by
  rw [realBasisZeroImag?_real] at hf
  by_cases h' : N < M
  · rw [if_pos h'] at hf; exact absurd hf (by simp)
  · rw [if_neg h'] at hf
    obtain rfl := Option.some.inj hf
    exact gram_zeroImag_identity M N (by omega) hM h c c' hc'

/-- **the aliasing counterexample at the boundary** `N = 2 (M − 1)`, `M = m + 2 ≥ 2`: the guard of `real_basis`
 accepts these sizes (`2 (m + 1) ≥ m + 2`), but the cosine column of the top wavenumber `M − 1 = N/2` has squared
 norm 2 and its sine column has squared norm 0 (it vanishes at every node) -/
theorem fourier_aliasing_at_boundary (m : ℕ) :
    ∃ f, SH.realBasis? Real.cos Real.sin Real.sqrt Real.pi (m + 2) (2 * (m + 1)) = some f ∧
      (1 + 1) * Real.pi / (2 * (m + 1) : ℕ) * ∑ i ∈ range (2 * (m + 1)),
          ent2 f i (2 * m + 1) * ent2 f i (2 * m + 1) = 2 ∧
      (1 + 1) * Real.pi / (2 * (m + 1) : ℕ) * ∑ i ∈ range (2 * (m + 1)),
          ent2 f i (2 * m + 2) * ent2 f i (2 * m + 2) = 0 := by
  refine ⟨fReal (m + 2) (2 * (m + 1)), ?_, (gram_boundary m).1, (gram_boundary m).2⟩
  rw [realBasis?_real, if_neg (by omega)]

/-- **T1.5, 2-D (`RealSphericalHarmonics`)**: see `Dino.FourierOrtho.roundtrip_real_triangle` -/
theorem roundtrip_real_exact_fourier (M L N J : ℕ) (xs wlat : List ℝ) (b : Basis ℝ)
    (hb : SH.buildReal Real.cos Real.sin Real.sqrt Real.pi M L N xs wlat = some b)
    (hM : 1 ≤ M) (hres : 2 * (M - 1) < N) (hxs : xs.length = J) (hwl : wlat.length = J)
    (hP : ∀ m < M, ∀ l' < L, m ≤ l' → ∀ l < L,
      ∑ j ∈ range J, ent wlat j * ent3 (Legendre.evaluate Real.sqrt M L xs) m j l
          * ent3 (Legendre.evaluate Real.sqrt M L xs) m j l' = if l = l' then 1 else 0)
    (x : List (List ℝ)) (hx : ∀ row ∈ x, row.length ≤ L)
    (hsupp : ∀ r' l', l' < (r' + 1) / 2 → ent2 x r' l' = 0)
    (r l : ℕ) (hr : r < 2 * M - 1) (hl : l < L) :
    ent2 (realAnalysis b (2 * M - 1) J L (realSynth b J x)) r l = ent2 x r l :=
  roundtrip_real_triangle M L N J xs wlat b hb hM hres hxs hwl hP x hx hsupp r l hr hl

/-- **T1.5, 2-D (`FastSphericalHarmonics`, any padding)**: see `Dino.FourierOrtho.roundtrip_fast_triangle` -/
theorem roundtrip_fast_exact_fourier (M L N J pn pr pj pc : ℕ) (xs wlat : List ℝ) (b : Basis ℝ)
    (hb : SH.buildFast Real.cos Real.sin Real.sqrt Real.pi M L N xs wlat pn pr pj pc = some b)
    (hM : 1 ≤ M) (hres : 2 * (M - 1) < N) (hpr : pr % 2 = 0) (hxs : xs.length = J)
    (hwl : wlat.length = J)
    (hP : ∀ m < M, ∀ l' < L, m ≤ l' → ∀ l < L,
      ∑ j ∈ range J, ent wlat j * ent3 (Legendre.evaluate Real.sqrt M L xs) m j l
          * ent3 (Legendre.evaluate Real.sqrt M L xs) m j l' = if l = l' then 1 else 0)
    (x : List (List ℝ)) (hxl : x.length % 2 = 0) (hx : ∀ row ∈ x, row.length ≤ L + pc)
    (hsupp : ∀ r' l', (r' = 1 ∨ 2 * M ≤ r' ∨ L ≤ l' ∨ l' < r' / 2) → ent2 x r' l' = 0)
    (r l : ℕ) (hr : r < 2 * M + pr) (hl : l < L + pc) :
    ent2 (fastAnalysis b (2 * M + pr) (J + pj) (L + pc) (fastSynth b (J + pj) x)) r l = ent2 x r l :=
  roundtrip_fast_triangle M L N J pn pr pj pc xs wlat b hb hM hres hpr hxs hwl hP x hxl hx hsupp r l hr hl

/-! ### non-vacuity -/

/-- `N = 4`, `M = 2` satisfies the resolution condition: the whole 3 × 3 Gram matrix is the identity -/
example : ∃ f, SH.realBasis? Real.cos Real.sin Real.sqrt Real.pi 2 4 = some f ∧
    ∀ r < 3, ∀ r' < 3,
      (1 + 1) * Real.pi / (4 : ℕ) * ∑ i ∈ range 4, ent2 f i r * ent2 f i r' = if r = r' then 1 else 0 :=
  ⟨_, rfl, (fourier_orthonormal_iff 2 4 (by norm_num) _ rfl).2 (by norm_num)⟩

/-- `N = 2`, `M = 2` is accepted by the guard but aliased (`2 (M − 1) = N`): the Gram matrix is not the identity -/
example : ∃ f, SH.realBasis? Real.cos Real.sin Real.sqrt Real.pi 2 2 = some f ∧
    ¬ ∀ r < 3, ∀ r' < 3,
      (1 + 1) * Real.pi / (2 : ℕ) * ∑ i ∈ range 2, ent2 f i r * ent2 f i r' = if r = r' then 1 else 0 :=
  ⟨_, rfl, fun h => absurd ((fourier_orthonormal_iff 2 2 (by norm_num) _ rfl).1 h) (by norm_num)⟩

/-- direct evaluation, N = 4, M = 2 -/
example : wGram (fReal 2 4) 4 1 1 = 1 := by
  have e : ∀ i, i < 4 → ent2 (fReal 2 4) i 1 = cs 4 ((i * 1) % 4) / Real.sqrt Real.pi := by
    intro i hi
    match i, hi with
    | 0, _ => rfl
    | 1, _ => rfl
    | 2, _ => rfl
    | 3, _ => rfl
    | i + 4, h => exact absurd h (by omega)
  unfold wGram
  rw [Finset.sum_range_succ, Finset.sum_range_succ, Finset.sum_range_succ, Finset.sum_range_one,
    e 0 (by norm_num), e 1 (by norm_num), e 2 (by norm_num), e 3 (by norm_num)]
  have c0 : cs 4 ((0 * 1) % 4) = 1 := by simp [cs]
  have c1 : cs 4 ((1 * 1) % 4) = 0 := by
    unfold cs
    rw [show (1 + 1) * Real.pi * ((1 * 1 % 4 : ℕ) : ℝ) / ((4 : ℕ) : ℝ) = Real.pi / 2 by norm_num; ring]
    exact Real.cos_pi_div_two
  have c2 : cs 4 ((2 * 1) % 4) = -1 := by
    unfold cs
    rw [show (1 + 1) * Real.pi * ((2 * 1 % 4 : ℕ) : ℝ) / ((4 : ℕ) : ℝ) = Real.pi by norm_num; ring]
    exact Real.cos_pi
  have c3 : cs 4 ((3 * 1) % 4) = 0 := by
    unfold cs
    rw [show (1 + 1) * Real.pi * ((3 * 1 % 4 : ℕ) : ℝ) / ((4 : ℕ) : ℝ) = Real.pi / 2 + Real.pi by norm_num; ring,
      Real.cos_add_pi, Real.cos_pi_div_two, neg_zero]
  rw [c0, c1, c2, c3]
  have hs : Real.sqrt Real.pi * Real.sqrt Real.pi = Real.pi := Real.mul_self_sqrt Real.pi_pos.le
  have hp := Real.pi_pos.ne'
  have hs0 : Real.sqrt Real.pi ≠ 0 := (Real.sqrt_pos.2 Real.pi_pos).ne'
  field_simp
  rw [show Real.sqrt Real.pi ^ 2 = Real.pi by rw [sq]; exact hs]
  ring

theorem q00 (x : ℝ) : ent (Legendre.row Real.sqrt 2 x 0) 0 = 1 / Real.sqrt 2 := by
  simp [Legendre.row, Legendre.recur, Legendre.sectoral, ent]
  norm_num
theorem q01 (x : ℝ) : ent (Legendre.row Real.sqrt 2 x 0) 1 = Real.sqrt 3 * (x * (1 / Real.sqrt 2)) := by
  simp [Legendre.row, Legendre.recur, Legendre.sectoral, Legendre.coefA, Legendre.coefB, ent]
  norm_num
theorem q10 (x : ℝ) : ent (Legendre.row Real.sqrt 2 x 1) 0 = 0 := by
  simp [Legendre.row, Legendre.recur, Legendre.sectoral, ent]
theorem q11 (x : ℝ) : ent (Legendre.row Real.sqrt 2 x 1) 1
    = -Real.sqrt (3 / 2) * Real.sqrt (1 - x * x) * (1 / Real.sqrt 2) := by
  simp [Legendre.row, Legendre.recur, Legendre.sectoral, ent]
  norm_num

/-- the hypothesis of `roundtrip_real_triangle` on the Legendre tables is satisfiable: `M = L = 2`, the three
 nodes `sin θ = −1, 0, 1` with Simpson's weights `1/3, 4/3, 1/3` (exact for degree ≤ 3 ≥ 2(L−1)) -/
theorem legendre_gram_example : ∀ m < 2, ∀ l' < 2, m ≤ l' → ∀ l < 2,
    ∑ j ∈ range 3, ent ([1 / 3, 4 / 3, 1 / 3] : List ℝ) j
        * ent3 (Legendre.evaluate Real.sqrt 2 2 [-1, 0, 1]) m j l
        * ent3 (Legendre.evaluate Real.sqrt 2 2 [-1, 0, 1]) m j l' = if l = l' then 1 else 0 := by
  have h2 : Real.sqrt 2 * Real.sqrt 2 = 2 := Real.mul_self_sqrt (by norm_num)
  have h3 : Real.sqrt 3 * Real.sqrt 3 = 3 := Real.mul_self_sqrt (by norm_num)
  have h32 : Real.sqrt (3 / 2) * Real.sqrt (3 / 2) = 3 / 2 := Real.mul_self_sqrt (by norm_num)
  have h2' : Real.sqrt 2 ^ 2 = 2 := Real.sq_sqrt (by norm_num)
  have h3' : Real.sqrt 3 ^ 2 = 3 := Real.sq_sqrt (by norm_num)
  have h20 : Real.sqrt 2 ≠ 0 := (Real.sqrt_pos.2 (by norm_num)).ne'
  have e : ∀ m < 2, ∀ j < 3, ∀ l, ent3 (Legendre.evaluate Real.sqrt 2 2 [-1, 0, 1]) m j l
      = ent (Legendre.row Real.sqrt 2 (([-1, 0, 1] : List ℝ).getD j 0) m) l := by
    intro m hm j hj l
    rw [Legendre.ent3_evaluate Real.sqrt 2 2 _ m j l hm (by simpa using hj)]
    congr 2
    simp [List.getD_eq_getElem?_getD, List.getElem?_eq_getElem (show j < ([-1, 0, 1] : List ℝ).length by simpa using hj)]
  have hw0 : ent ([1 / 3, 4 / 3, 1 / 3] : List ℝ) 0 = 1 / 3 := rfl
  have hw1 : ent ([1 / 3, 4 / 3, 1 / 3] : List ℝ) 1 = 4 / 3 := rfl
  have hw2 : ent ([1 / 3, 4 / 3, 1 / 3] : List ℝ) 2 = 1 / 3 := rfl
  have hx0 : ([-1, 0, 1] : List ℝ).getD 0 0 = -1 := rfl
  have hx1 : ([-1, 0, 1] : List ℝ).getD 1 0 = 0 := rfl
  have hx2 : ([-1, 0, 1] : List ℝ).getD 2 0 = 1 := rfl
  have e0 := fun j hj => e 0 (by norm_num) j hj
  have e1 := fun j hj => e 1 (by norm_num) j hj
  intro m hm l' hl' hml l hl
  rw [Finset.sum_range_succ, Finset.sum_range_succ, Finset.sum_range_one]
  match m, hm, l', hl', l, hl, hml with
  | 0, _, 0, _, 0, _, _ =>
    simp only [e0 0 (by norm_num), e0 1 (by norm_num), e0 2 (by norm_num), hw0, hw1, hw2, hx0, hx1, hx2, q00]
    field_simp; rw [sq, h2]; norm_num
  | 0, _, 0, _, 1, _, _ =>
    simp only [e0 0 (by norm_num), e0 1 (by norm_num), e0 2 (by norm_num), hw0, hw1, hw2, hx0, hx1, hx2, q00, q01]
    field_simp; norm_num
  | 0, _, 1, _, 0, _, _ =>
    simp only [e0 0 (by norm_num), e0 1 (by norm_num), e0 2 (by norm_num), hw0, hw1, hw2, hx0, hx1, hx2, q00, q01]
    field_simp; norm_num
  | 0, _, 1, _, 1, _, _ =>
    simp only [e0 0 (by norm_num), e0 1 (by norm_num), e0 2 (by norm_num), hw0, hw1, hw2, hx0, hx1, hx2, q01]
    field_simp; rw [h3', h2']; norm_num
  | 1, _, 1, _, 0, _, _ =>
    simp only [e1 0 (by norm_num), e1 1 (by norm_num), e1 2 (by norm_num), hw0, hw1, hw2, hx0, hx1, hx2, q10, q11]
    norm_num
  | 1, _, 1, _, 1, _, _ =>
    simp only [e1 0 (by norm_num), e1 1 (by norm_num), e1 2 (by norm_num), hw0, hw1, hw2, hx0, hx1, hx2, q11]
    norm_num
    field_simp
    rw [h3', show Real.sqrt 2 ^ 4 = (Real.sqrt 2 ^ 2) ^ 2 by ring, h2']; norm_num
  | 1, _, 0, _, _, _, h => exact absurd h (by omega)
  | m + 2, h, _, _, _, _, _ => exact absurd h (by omega)
  | _, _, l' + 2, h, _, _, _ => exact absurd h (by omega)
  | _, _, _, _, l + 2, h, _ => exact absurd h (by omega)

/-- non-vacuity of `roundtrip_real_triangle`: `M = L = 2`, `N = 4`, a field with `m ≠ 0` coefficients -/
example : ∃ b, SH.buildReal Real.cos Real.sin Real.sqrt Real.pi 2 2 4 [-1, 0, 1] [1 / 3, 4 / 3, 1 / 3] = some b ∧
    ∀ r < 3, ∀ l < 2,
      ent2 (realAnalysis b 3 3 2 (realSynth b 3 [[2, 5], [0, -3], [0, 7]])) r l
        = ent2 ([[2, 5], [0, -3], [0, 7]] : List (List ℝ)) r l := by
  refine ⟨_, rfl, ?_⟩
  intro r hr l hl
  refine roundtrip_real_triangle 2 2 4 3 [-1, 0, 1] [1 / 3, 4 / 3, 1 / 3] _ rfl (by norm_num) (by norm_num)
    rfl rfl legendre_gram_example _ (by simp) ?_ r l hr hl
  intro r' l' h
  match r', l', h with
  | 0, _, h => exact absurd h (by omega)
  | 1, 0, _ => rfl
  | 2, 0, _ => rfl
  | 1, l' + 1, h => exact absurd h (by omega)
  | 2, l' + 1, h => exact absurd h (by omega)
  | r' + 3, _, _ => simp [ent2]

end fourier

end Dino.C01
