import DinoProofs.Lemmas.Filters
import Mathlib.Analysis.Complex.Exponential
import Mathlib.Tactic.NormNum
import Mathlib.Tactic.Positivity
import Mathlib.Tactic.GCongr

/-!
# C15 — spectral filters: property theorems

All statements are about the executable model `Dino.Filters` (tied to `dinosaur/filtering.py` and
the step filters of `dinosaur/time_integration.py` by the correspondence check of
`harness/props/C15.py`).  `exp` is `Real.exp`; wavenumbers, attenuations, cut-offs, time scales are
arbitrary reals subject to the stated side conditions; orders, shapes and sizes are arbitrary
naturals; leaves are arbitrary row-major arrays.  The statements that do not involve `exp`
(broadcasting, slicing, Robert–Asselin) hold over any (ordered) field.
-/
namespace Dino.C15
open Dino.Filters

/-! ## T15.1 the factors: in `(0,1]`, `1` on the mean, antitone in the total wavenumber -/

theorem expFactor_eq (a : ℝ) (p : ℕ) (c lmax l : ℝ) :
    expFactor Real.exp a p c lmax l
      = Real.exp (if c < l / lmax then -a * ((l / lmax - c) / (1 - c)) ^ (2 * p) else 0) := by
  unfold expFactor ind
  rw [powN_eq_pow]
  by_cases h : c < l / lmax <;> simp [h]

theorem diffFactor_eq (scale : ℝ) (order : ℕ) (e : ℝ) :
    diffFactor Real.exp scale order e = Real.exp (-scale * (-e) ^ order) := by
  unfold diffFactor
  rw [powN_eq_pow]

theorem neg_eigenvalue (radius l : ℝ) : -eigenvalue radius l = l * (l + 1) / (radius * radius) := by
  unfold eigenvalue; ring

/-- the exponent of the exponential filter is never positive -/
theorem expExponent_nonpos (a : ℝ) (p : ℕ) (c k : ℝ) (ha : 0 ≤ a) :
    (if c < k then -a * ((k - c) / (1 - c)) ^ (2 * p) else 0) ≤ 0 := by
  split
  · have : 0 ≤ ((k - c) / (1 - c)) ^ (2 * p) := (even_two_mul p).pow_nonneg _
    nlinarith
  · exact le_refl _

/-- exponential filter: every factor lies in `(0, 1]`
 (`lmax > 0`: at least two total wavenumbers; `c < 1`: the division `1 / (1 - c)` is defined) -/
theorem expFactor_mem_Ioc (a : ℝ) (p : ℕ) (c lmax l : ℝ) (ha : 0 ≤ a) (_hc1 : c < 1)
    (_hl : 0 < lmax) :
    0 < expFactor Real.exp a p c lmax l ∧ expFactor Real.exp a p c lmax l ≤ 1 := by
  rw [expFactor_eq]
  exact ⟨Real.exp_pos _, Real.exp_le_one_iff.2 (expExponent_nonpos a p c _ ha)⟩

/-- exponential filter: the global mean (`l = 0`) is preserved -/
theorem expFactor_mean (a : ℝ) (p : ℕ) (c lmax : ℝ) (hc : 0 ≤ c) (_hc1 : c < 1) (_hl : 0 < lmax) :
    expFactor Real.exp a p c lmax 0 = 1 := by
  rw [expFactor_eq, zero_div, if_neg (not_lt.2 hc), Real.exp_zero]

/-- exponential filter: modes at or below the cut-off are untouched -/
theorem expFactor_below_cutoff (a : ℝ) (p : ℕ) (c lmax l : ℝ) (_hc1 : c < 1) (_hl : 0 < lmax)
    (h : l / lmax ≤ c) : expFactor Real.exp a p c lmax l = 1 := by
  rw [expFactor_eq, if_neg (not_lt.2 h), Real.exp_zero]

/-- exponential filter: the top wavenumber is multiplied by `exp(-attenuation)` -/
theorem expFactor_top (a : ℝ) (p : ℕ) (c lmax : ℝ) (hc1 : c < 1) (hl : 0 < lmax) :
    expFactor Real.exp a p c lmax lmax = Real.exp (-a) := by
  rw [expFactor_eq, div_self (ne_of_gt hl), if_pos hc1, div_self (by linarith), one_pow, mul_one]

/-- exponential filter: the factor is non-increasing in the total wavenumber -/
theorem expFactor_antitone (a : ℝ) (p : ℕ) (c lmax l₁ l₂ : ℝ) (ha : 0 ≤ a) (hc1 : c < 1)
    (hl : 0 < lmax) (h12 : l₁ ≤ l₂) :
    expFactor Real.exp a p c lmax l₂ ≤ expFactor Real.exp a p c lmax l₁ := by
  rw [expFactor_eq, expFactor_eq, Real.exp_le_exp]
  have hk : l₁ / lmax ≤ l₂ / lmax := by gcongr
  by_cases h1 : c < l₁ / lmax
  · have h2 : c < l₂ / lmax := lt_of_lt_of_le h1 hk
    rw [if_pos h1, if_pos h2]
    have hd : 0 < 1 - c := by linarith
    have hb1 : 0 ≤ (l₁ / lmax - c) / (1 - c) := div_nonneg (by linarith) hd.le
    have hb : (l₁ / lmax - c) / (1 - c) ≤ (l₂ / lmax - c) / (1 - c) := by gcongr
    have hp : ((l₁ / lmax - c) / (1 - c)) ^ (2 * p) ≤ ((l₂ / lmax - c) / (1 - c)) ^ (2 * p) :=
      pow_le_pow_left₀ hb1 hb _
    nlinarith
  · rw [if_neg h1]
    exact expExponent_nonpos a p c _ ha

/-- diffusion filter: every factor lies in `(0, 1]` -/
theorem diffFactor_mem_Ioc (scale : ℝ) (order : ℕ) (radius l : ℝ) (hs : 0 ≤ scale)
    (hr : radius ≠ 0) (hl : 0 ≤ l) :
    0 < diffFactor Real.exp scale order (eigenvalue radius l)
      ∧ diffFactor Real.exp scale order (eigenvalue radius l) ≤ 1 := by
  rw [diffFactor_eq, neg_eigenvalue]
  refine ⟨Real.exp_pos _, Real.exp_le_one_iff.2 ?_⟩
  have hr2 : 0 < radius * radius := mul_self_pos.2 hr
  have : 0 ≤ (l * (l + 1) / (radius * radius)) ^ order := by positivity
  nlinarith

/-- diffusion filter: the global mean is preserved (this needs `order ≥ 1`) -/
theorem diffFactor_mean (scale : ℝ) (order : ℕ) (radius : ℝ) (ho : 1 ≤ order) (_hr : radius ≠ 0) :
    diffFactor Real.exp scale order (eigenvalue radius 0) = 1 := by
  rw [diffFactor_eq, neg_eigenvalue, zero_mul, zero_div, zero_pow (by omega), mul_zero,
    Real.exp_zero]

/-- diffusion filter: the factor is non-increasing in the total wavenumber -/
theorem diffFactor_antitone (scale : ℝ) (order : ℕ) (radius l₁ l₂ : ℝ) (hs : 0 ≤ scale)
    (hr : radius ≠ 0) (h0 : 0 ≤ l₁) (h12 : l₁ ≤ l₂) :
    diffFactor Real.exp scale order (eigenvalue radius l₂)
      ≤ diffFactor Real.exp scale order (eigenvalue radius l₁) := by
  rw [diffFactor_eq, diffFactor_eq, neg_eigenvalue, neg_eigenvalue, Real.exp_le_exp]
  have hr2 : 0 < radius * radius := mul_self_pos.2 hr
  have h2 : 0 ≤ l₂ := le_trans h0 h12
  have hb1 : 0 ≤ l₁ * (l₁ + 1) / (radius * radius) := by positivity
  have hb : l₁ * (l₁ + 1) / (radius * radius) ≤ l₂ * (l₂ + 1) / (radius * radius) := by
    gcongr
  have hp := pow_le_pow_left₀ hb1 hb order
  nlinarith

/-- the 1-D scaling built from the wavenumber axis (padding included): it exists as soon as one
 wavenumber is positive, is the factor function mapped over the axis (so it depends on `l` only),
 and all its entries are in `(0,1]`, those at `l = 0` (the mean and the zero padding) being `1` -/
theorem expScaling_spec (a : ℝ) (p : ℕ) (c : ℝ) (ls : List ℝ) (ha : 0 ≤ a) (hc : 0 ≤ c)
    (hc1 : c < 1) (hpos : ∃ l ∈ ls, 0 < l) :
    ∃ lmax, maxL ls = some lmax ∧ 0 < lmax
      ∧ expScaling Real.exp a p c ls = some (ls.map (expFactor Real.exp a p c lmax))
      ∧ (∀ f ∈ ls.map (expFactor Real.exp a p c lmax), 0 < f ∧ f ≤ 1)
      ∧ (∀ i (h : i < ls.length), ls[i] = 0 →
          (ls.map (expFactor Real.exp a p c lmax))[i]'(by simpa using h) = 1) := by
  obtain ⟨l0, hl0, hl0pos⟩ := hpos
  obtain ⟨lmax, hm⟩ := maxL_isSome ls (List.ne_nil_of_mem hl0)
  have hmpos : 0 < lmax := lt_of_lt_of_le hl0pos ((maxL_spec ls lmax hm).2 l0 hl0)
  refine ⟨lmax, hm, hmpos, by simp [expScaling, hm], ?_, ?_⟩
  · intro f hf
    obtain ⟨l, _, rfl⟩ := List.mem_map.1 hf
    exact expFactor_mem_Ioc a p c lmax l ha hc1 hmpos
  · intro i h h0
    rw [List.getElem_map, h0]
    exact expFactor_mean a p c lmax hc hc1 hmpos

theorem diffScaling_spec (scale : ℝ) (order : ℕ) (radius : ℝ) (ls : List ℝ) (hs : 0 ≤ scale)
    (ho : 1 ≤ order) (hr : radius ≠ 0) (hls : ∀ l ∈ ls, 0 ≤ l) :
    (∀ f ∈ diffScaling Real.exp scale order (eigenvalues radius ls), 0 < f ∧ f ≤ 1)
      ∧ (∀ i (h : i < ls.length), ls[i] = 0 →
          (diffScaling Real.exp scale order (eigenvalues radius ls))[i]'(by
            simpa [diffScaling, eigenvalues] using h) = 1) := by
  constructor
  · intro f hf
    simp only [diffScaling, eigenvalues, List.map_map, List.mem_map, Function.comp] at hf
    obtain ⟨l, hl, rfl⟩ := hf
    exact diffFactor_mem_Ioc scale order radius l hs hr (hls l hl)
  · intro i h h0
    simp only [diffScaling, eigenvalues, List.getElem_map, h0]
    exact diffFactor_mean scale order radius ho hr

/-! ### the filter on a spectral leaf: each coefficient is multiplied by the factor of its own
total wavenumber (last axis), whatever the leading axes (levels, zonal index) are -/

section generic
variable {K : Type} [Field K]

theorem preservesShape_last (L : Nat) (init : List Nat) : preservesShape (init ++ [L]) [L] = true :=
  (preservesShape_iff_trailing _ _).2
    ⟨init, [L], rfl, List.Forall₂.cons (Or.inl rfl) List.Forall₂.nil⟩

/-- `_make_filter_fn` with a 1-D scaling of length `L` on a leaf whose last axis has length `L`:
 entry `i` is multiplied by `s[i mod L]` -/
theorem filterLeaf_last_axis (s : List K) (init : List Nat) (x : List K) :
    filterLeaf [s.length] s (init ++ [s.length], x)
      = (init ++ [s.length], x.mapIdx fun i v => s.getD (i % s.length) 0 * v) := by
  simp only [filterLeaf, preservesShape_last, if_true, bmul, bidx_last]

end generic

/-- `exponential_filter` on a spectral leaf (any leading axes): coefficient `i` is multiplied by
 the factor of the total wavenumber `ls[i mod L]` of its column — a function of `l` only -/
theorem exponentialFilter_spectral_leaf (a : ℝ) (p : ℕ) (c : ℝ) (ls : List ℝ) (lmax : ℝ)
    (hm : maxL ls = some lmax) (init : List Nat) (x : List ℝ) :
    exponentialFilter Real.exp a p c ls [(init ++ [ls.length], x)]
      = some [(init ++ [ls.length],
          x.mapIdx fun i v => expFactor Real.exp a p c lmax (ls.getD (i % ls.length) 0) * v)] := by
  have hne : ls ≠ [] := by rintro rfl; simp [maxL] at hm
  have hpos : 0 < ls.length := List.length_pos_iff.2 hne
  simp only [exponentialFilter, expScaling, hm, Option.map_some, filterTree, List.map_cons,
    List.map_nil]
  have := filterLeaf_last_axis (ls.map (expFactor Real.exp a p c lmax)) init x
  rw [List.length_map] at this
  rw [this]
  congr 3
  congr 1
  funext i v
  have hi : i % ls.length < ls.length := Nat.mod_lt _ hpos
  simp [List.getD_eq_getElem?_getD, List.getElem?_eq_getElem hi]

/-- `horizontal_diffusion_filter` on a spectral leaf: coefficient `i` is multiplied by the factor
 of the eigenvalue of its own total wavenumber `ls[i mod L]` -/
theorem horizontalDiffusionFilter_spectral_leaf (scale : ℝ) (order : ℕ) (radius : ℝ) (ls : List ℝ)
    (hne : ls ≠ []) (init : List Nat) (x : List ℝ) :
    horizontalDiffusionFilter Real.exp scale order radius ls [(init ++ [ls.length], x)]
      = [(init ++ [ls.length], x.mapIdx fun i v =>
          diffFactor Real.exp scale order (eigenvalue radius (ls.getD (i % ls.length) 0)) * v)] := by
  have hpos : 0 < ls.length := List.length_pos_iff.2 hne
  simp only [horizontalDiffusionFilter, filterTree, List.map_cons, List.map_nil]
  have := filterLeaf_last_axis (diffScaling Real.exp scale order (eigenvalues radius ls)) init x
  simp only [diffScaling, eigenvalues, List.length_map] at this ⊢
  rw [this]
  congr 3
  funext i v
  have hi : i % ls.length < ls.length := Nat.mod_lt _ hpos
  simp [List.getD_eq_getElem?_getD, List.getElem?_eq_getElem hi]

/-- non-amplification on a spectral leaf: no coefficient grows or changes sign, and coefficients
 of total wavenumber 0 (the global mean of every level) are returned unchanged -/
theorem exponentialFilter_nonamplifying (a : ℝ) (p : ℕ) (c : ℝ) (ls : List ℝ) (ha : 0 ≤ a)
    (hc : 0 ≤ c) (hc1 : c < 1) (hpos : ∃ l ∈ ls, 0 < l) (init : List Nat) (x : List ℝ) :
    ∃ out, exponentialFilter Real.exp a p c ls [(init ++ [ls.length], x)]
        = some [(init ++ [ls.length], out)]
      ∧ ∃ hlen : out.length = x.length, ∀ i (h : i < x.length),
          |out[i]'(hlen ▸ h)| ≤ |x[i]| ∧ 0 ≤ out[i]'(hlen ▸ h) * x[i]
          ∧ (ls.getD (i % ls.length) 0 = 0 → out[i]'(hlen ▸ h) = x[i]) := by
  obtain ⟨lmax, hm, hmpos, -, -, -⟩ := expScaling_spec a p c ls ha hc hc1 hpos
  refine ⟨_, exponentialFilter_spectral_leaf a p c ls lmax hm init x, by simp, ?_⟩
  intro i h
  simp only [List.getElem_mapIdx]
  obtain ⟨h0, h1⟩ := expFactor_mem_Ioc a p c lmax (ls.getD (i % ls.length) 0) ha hc1 hmpos
  refine ⟨?_, ?_, ?_⟩
  · rw [abs_mul, abs_of_pos h0]
    exact mul_le_of_le_one_left (abs_nonneg _) h1
  · nlinarith [mul_self_nonneg x[i]]
  · intro hz
    rw [hz, expFactor_mean a p c lmax hc hc1 hmpos, one_mul]

theorem horizontalDiffusionFilter_nonamplifying (scale : ℝ) (order : ℕ) (radius : ℝ) (ls : List ℝ)
    (hs : 0 ≤ scale) (ho : 1 ≤ order) (hr : radius ≠ 0) (hls : ∀ l ∈ ls, 0 ≤ l) (hne : ls ≠ [])
    (init : List Nat) (x : List ℝ) :
    ∃ out, horizontalDiffusionFilter Real.exp scale order radius ls [(init ++ [ls.length], x)]
        = [(init ++ [ls.length], out)]
      ∧ ∃ hlen : out.length = x.length, ∀ i (h : i < x.length),
          |out[i]'(hlen ▸ h)| ≤ |x[i]| ∧ 0 ≤ out[i]'(hlen ▸ h) * x[i]
          ∧ (ls.getD (i % ls.length) 0 = 0 → out[i]'(hlen ▸ h) = x[i]) := by
  refine ⟨_, horizontalDiffusionFilter_spectral_leaf scale order radius ls hne init x, by simp, ?_⟩
  intro i h
  simp only [List.getElem_mapIdx]
  have hmem : ls.getD (i % ls.length) 0 ∈ ls := by
    have hi : i % ls.length < ls.length := Nat.mod_lt _ (List.length_pos_iff.2 hne)
    simp [List.getD_eq_getElem?_getD, List.getElem?_eq_getElem hi]
  obtain ⟨h0, h1⟩ := diffFactor_mem_Ioc scale order radius _ hs hr (hls _ hmem)
  refine ⟨?_, ?_, ?_⟩
  · rw [abs_mul, abs_of_pos h0]
    exact mul_le_of_le_one_left (abs_nonneg _) h1
  · nlinarith [mul_self_nonneg x[i]]
  · intro hz
    rw [hz, diffFactor_mean scale order radius ho hr, one_mul]

/-! ## T15.2 step filters compose like damping over time -/

/-- exponential step filter: a step `dt₁` followed by a step `dt₂` damps like one step `dt₁ + dt₂` -/
theorem expStepFactor_add (dt₁ dt₂ tau : ℝ) (p : ℕ) (c lmax l : ℝ) (_htau : tau ≠ 0)
    (_hc1 : c ≠ 1) (_hl : lmax ≠ 0) :
    expFactor Real.exp (expStepAttenuation dt₁ tau) p c lmax l
        * expFactor Real.exp (expStepAttenuation dt₂ tau) p c lmax l
      = expFactor Real.exp (expStepAttenuation (dt₁ + dt₂) tau) p c lmax l := by
  simp only [expFactor_eq, expStepAttenuation, ← Real.exp_add]
  congr 1
  split
  · ring
  · ring

/-- two half steps = one full step (exponential step filter, per wavenumber) -/
theorem expStepFactor_half_half (dt tau : ℝ) (p : ℕ) (c lmax l : ℝ) (htau : tau ≠ 0)
    (hc1 : c ≠ 1) (hl : lmax ≠ 0) :
    expFactor Real.exp (expStepAttenuation (dt / 2) tau) p c lmax l
        * expFactor Real.exp (expStepAttenuation (dt / 2) tau) p c lmax l
      = expFactor Real.exp (expStepAttenuation dt tau) p c lmax l := by
  rw [expStepFactor_add _ _ _ _ _ _ _ htau hc1 hl, add_halves]

/-- diffusion step filter: steps add up; `m = max |eigenvalue|` is the normalisation of the
 current code, `tau * m ^ order ≠ 0` its guard -/
theorem diffStepFactor_add (dt₁ dt₂ tau : ℝ) (order : ℕ) (m e : ℝ) (_htau : tau ≠ 0) (_hm : m ≠ 0) :
    diffFactor Real.exp (dt₁ / (tau * m ^ order)) order e
        * diffFactor Real.exp (dt₂ / (tau * m ^ order)) order e
      = diffFactor Real.exp ((dt₁ + dt₂) / (tau * m ^ order)) order e := by
  simp only [diffFactor_eq, ← Real.exp_add]
  congr 1
  ring

theorem diffStepFactor_half_half (dt tau : ℝ) (order : ℕ) (m e : ℝ) (htau : tau ≠ 0) (hm : m ≠ 0) :
    diffFactor Real.exp (dt / 2 / (tau * m ^ order)) order e
        * diffFactor Real.exp (dt / 2 / (tau * m ^ order)) order e
      = diffFactor Real.exp (dt / (tau * m ^ order)) order e := by
  rw [diffStepFactor_add _ _ _ _ _ _ htau hm, add_halves]

/-- the diffusion step filter is normalised on the top mode: a mode whose `|eigenvalue|` is the
 maximum `m` decays by `exp(-dt/tau)` per step -/
theorem diffStepFactor_top (dt tau : ℝ) (order : ℕ) (m : ℝ) (htau : tau ≠ 0) (hm : m ≠ 0) :
    diffFactor Real.exp (dt / (tau * m ^ order)) order (-m) = Real.exp (-(dt / tau)) := by
  rw [diffFactor_eq, neg_neg]
  congr 1
  have : m ^ order ≠ 0 := pow_ne_zero _ hm
  field_simp

theorem zipWith_mul_map {α : Type} (f g : α → ℝ) (l : List α) :
    List.zipWith (· * ·) (l.map f) (l.map g) = l.map fun x => f x * g x := by
  induction l with
  | nil => rfl
  | cons a t ih => simp [ih]

/-- `exponential_step_filter` on whole pytrees: filtering twice with `dt/2` is filtering once with
 `dt` (the `u` arguments are ignored by the adapter, so they are arbitrary) -/
theorem exponentialStepFilter_half_half (dt tau : ℝ) (p : ℕ) (c : ℝ) (ls : List ℝ) (lmax : ℝ)
    (hm : maxL ls = some lmax) (htau : tau ≠ 0) (hc1 : c ≠ 1) (hl : lmax ≠ 0)
    (u u' u'' tree : List (List ℕ × List ℝ)) :
    (exponentialStepFilter Real.exp (dt / 2) tau p c ls u tree).bind
        (exponentialStepFilter Real.exp (dt / 2) tau p c ls u')
      = exponentialStepFilter Real.exp dt tau p c ls u'' tree := by
  simp only [exponentialStepFilter, expStepScaling, expScaling, hm, Option.map_some, rkStepFilter,
    Option.bind_some]
  rw [filterTree_filterTree _ _ _ _ rfl, zipWith_mul_map]
  congr 3
  funext l
  exact expStepFactor_half_half dt tau p c lmax l htau hc1 hl

/-- same for `exponential_leapfrog_step_filter`, which filters the newest time slice only -/
theorem exponentialLeapfrogStepFilter_half_half (dt tau : ℝ) (p : ℕ) (c : ℝ) (ls : List ℝ)
    (lmax : ℝ) (hm : maxL ls = some lmax) (htau : tau ≠ 0) (hc1 : c ≠ 1) (hl : lmax ≠ 0)
    (u u' u'' un : List (List ℕ × List ℝ) × List (List ℕ × List ℝ)) :
    (exponentialLeapfrogStepFilter Real.exp (dt / 2) tau p c ls u un).bind
        (exponentialLeapfrogStepFilter Real.exp (dt / 2) tau p c ls u')
      = exponentialLeapfrogStepFilter Real.exp dt tau p c ls u'' un := by
  simp only [exponentialLeapfrogStepFilter, expStepScaling, expScaling, hm, Option.map_some,
    leapfrogStepFilter, Option.bind_some]
  rw [filterTree_filterTree _ _ _ _ rfl, zipWith_mul_map]
  congr 4
  funext l
  exact expStepFactor_half_half dt tau p c lmax l htau hc1 hl

/-- `horizontal_diffusion_step_filter` on whole pytrees: two half steps = one full step -/
theorem horizontalDiffusionStepFilter_half_half (dt tau : ℝ) (order : ℕ) (radius : ℝ)
    (ls : List ℝ) (m : ℝ) (hm : maxAbs (eigenvalues radius ls) = some m) (htau : tau ≠ 0)
    (hm0 : m ≠ 0) (u u' u'' tree : List (List ℕ × List ℝ)) :
    (horizontalDiffusionStepFilter Real.exp (dt / 2) tau order radius ls u tree).bind
        (horizontalDiffusionStepFilter Real.exp (dt / 2) tau order radius ls u')
      = horizontalDiffusionStepFilter Real.exp dt tau order radius ls u'' tree := by
  simp only [horizontalDiffusionStepFilter, diffStepScaling, diffStepScale, hm, Option.map_some,
    rkStepFilter, Option.bind_some, diffScaling, powN_eq_pow]
  rw [filterTree_filterTree _ _ _ _ rfl, zipWith_mul_map]
  congr 3
  funext e
  exact diffStepFactor_half_half dt tau order m e htau hm0

/-! ### the normalisation of the diffusion step filter on padded layouts (shared with T7.8) -/

theorem absV_eq_abs (x : ℝ) : absV x = |x| := by
  unfold absV
  split
  · exact (abs_of_neg ‹_›).symm
  · exact (abs_of_nonneg (not_lt.1 ‹_›)).symm

/-- current code: with a positive wavenumber on the axis (zero padding anywhere is allowed) the
 normalising eigenvalue is positive, so the guard `tau * m ^ order ≠ 0` holds -/
theorem diffStepScale_guard (tau : ℝ) (order : ℕ) (radius : ℝ) (ls : List ℝ) (htau : tau ≠ 0)
    (hr : radius ≠ 0) (hls : ∀ l ∈ ls, 0 ≤ l) (hpos : ∃ l ∈ ls, 0 < l) :
    ∃ m, maxAbs (eigenvalues radius ls) = some m ∧ 0 < m ∧ tau * powN m order ≠ 0
      ∧ (∃ l ∈ ls, eigenvalue radius l = -m) := by
  obtain ⟨l0, hl0, hl0pos⟩ := hpos
  have hne : (eigenvalues radius ls).map absV ≠ [] := by
    simp [eigenvalues, List.ne_nil_of_mem hl0]
  obtain ⟨m, hm⟩ := maxL_isSome _ hne
  obtain ⟨hmem, hub⟩ := maxL_spec _ m hm
  have hr2 : 0 < radius * radius := mul_self_pos.2 hr
  have hmpos : 0 < m := by
    have h1 : absV (eigenvalue radius l0) ≤ m := hub _ (by
      simp only [eigenvalues, List.map_map, List.mem_map, Function.comp]
      exact ⟨l0, hl0, rfl⟩)
    have h2 : 0 < absV (eigenvalue radius l0) := by
      rw [absV_eq_abs, abs_pos, ← neg_ne_zero, neg_eigenvalue]
      positivity
    linarith
  refine ⟨m, hm, hmpos, ?_, ?_⟩
  · rw [powN_eq_pow]
    exact mul_ne_zero htau (pow_ne_zero _ (ne_of_gt hmpos))
  · simp only [eigenvalues, List.map_map, List.mem_map, Function.comp] at hmem
    obtain ⟨l, hl, rfl⟩ := hmem
    refine ⟨l, hl, ?_⟩
    have : eigenvalue radius l ≤ 0 := by
      rw [← neg_nonneg, neg_eigenvalue]
      have := hls l hl
      positivity
    rw [absV_eq_abs, abs_of_nonpos this, neg_neg]

/-- code before commit 3d38ca0: on a layout whose wavenumber axis ends with zero padding the
 normalisation `tau * |eigenvalues[-1]| ^ order` is `0` — the guard of `dt / (…)` fails
 (IEEE: `dt / 0 = inf`, `inf * 0 = NaN` on the mean and on the padding) -/
theorem diffStepScaleOld_guard_fails (dt tau : ℝ) (order : ℕ) (radius : ℝ) (ls : List ℝ)
    (ho : 1 ≤ order) :
    diffStepScaleOld dt tau order (eigenvalues radius (ls ++ [0]))
      = some (dt / (tau * powN (absV (eigenvalue radius 0)) order))
    ∧ tau * powN (absV (eigenvalue radius 0)) order = 0 := by
  constructor
  · simp [diffStepScaleOld, eigenvalues]
  · have : eigenvalue radius 0 = 0 := by simp [eigenvalue]
    rw [this, powN_eq_pow, absV_eq_abs, abs_zero, zero_pow (by omega), mul_zero]

/-- on an unpadded layout (non-decreasing wavenumber axis) the current normalisation
 `np.abs(eigenvalues).max()` is the old one `abs(eigenvalues[-1])`: commit 3d38ca0 changes nothing
 there -/
theorem diffStepScale_eq_old_of_sorted (dt tau : ℝ) (order : ℕ) (radius : ℝ) (ls : List ℝ)
    (hr : radius ≠ 0) (h0 : ∀ l ∈ ls, 0 ≤ l) (hs : ls.Pairwise (· ≤ ·)) :
    diffStepScale dt tau order (eigenvalues radius ls)
      = diffStepScaleOld dt tau order (eigenvalues radius ls) := by
  have hr2 : 0 < radius * radius := mul_self_pos.2 hr
  have hsorted : ((eigenvalues radius ls).map absV).Pairwise (· ≤ ·) := by
    simp only [eigenvalues, List.map_map, List.pairwise_map, Function.comp]
    refine List.Pairwise.imp_of_mem ?_ hs
    intro a b ha hb hab
    have ha0 := h0 a ha
    have hb0 := h0 b hb
    rw [absV_eq_abs, absV_eq_abs, ← abs_neg, ← abs_neg (eigenvalue radius b), neg_eigenvalue,
      neg_eigenvalue, abs_of_nonneg (by positivity), abs_of_nonneg (by positivity)]
    gcongr
  unfold diffStepScale diffStepScaleOld maxAbs
  rw [maxL_sorted _ hsorted, List.getLast?_map, Option.map_map]
  rfl

/-! ## T15.3 array-valued strengths act slice by slice -/

section generic
variable {K : Type} [Field K]

theorem forall₂_ones (mid : List Nat) (L : Nat) :
    List.Forall₂ DimOK (List.replicate mid.length 1 ++ [L]) (mid ++ [L]) := by
  induction mid with
  | nil => exact List.Forall₂.cons (Or.inl rfl) List.Forall₂.nil
  | cons d mid ih => exact List.Forall₂.cons (Or.inr rfl) ih

/-- a scaling of shape `(T, 1, …, 1, L)` (one row of length `L` per leading index, as produced by
 array-valued attenuation / order / scale) applied to a leaf of shape `(T, mid…, L)`: slice `t` of
 the result is the 1-D filter with row `t` applied to slice `t` of the leaf -/
theorem filterLeaf_table_slice (table : List (List K)) (T : Nat) (hT : table.length = T) (L : Nat)
    (hrows : ∀ r ∈ table, r.length = L) (mid : List Nat) (x : List K) (t : Nat)
    (ht : t < table.length) :
    slice (mid.prod * L) t
        (filterLeaf (T :: (List.replicate mid.length 1 ++ [L])) table.flatten
          (T :: (mid ++ [L]), x)).2
      = (filterLeaf [L] table[t] (mid ++ [L], slice (mid.prod * L) t x)).2 := by
  subst hT
  have hp' : preservesShape (mid ++ [L]) (List.replicate mid.length 1 ++ [L]) = true :=
    (preservesShape_iff_trailing _ _).2 ⟨[], _, rfl, forall₂_ones mid L⟩
  have hp : preservesShape (table.length :: (mid ++ [L]))
      (table.length :: (List.replicate mid.length 1 ++ [L])) = true :=
    (preservesShape_iff_trailing _ _).2
      ⟨[], _, rfl, List.Forall₂.cons (Or.inl rfl) (forall₂_ones mid L)⟩
  have hprod : (mid ++ [L]).prod = mid.prod * L := by simp
  have hsprod : (List.replicate mid.length 1 ++ [L]).prod = L := by simp
  simp only [filterLeaf, hp, preservesShape_last, if_true]
  have := bmul_slice table.length (List.replicate mid.length 1 ++ [L]) (mid ++ [L]) (by simp) hp'
    table.flatten x t ht
  rw [hprod, hsprod, slice_flatten L table hrows t ht] at this
  rw [this]
  simp only [bmul, bidx_ones_append]

end generic

/-- `exponential_filter` with array-valued attenuation and order (one value per leading slice):
 slice `t` of the filtered leaf = the scalar filter with `(as[t], ps[t])` applied to slice `t` -/
theorem exponentialFilter_array_slicewise {K : Type} [Field K] [LT K] [DecidableLT K] (ex : K → K)
    (as : List K) (ps : List Nat) (hlen : as.length = ps.length) (c : K) (ls : List K) (lmax : K)
    (hm : maxL ls = some lmax) (mid : List Nat) (x : List K) (t : Nat) (ht : t < as.length) :
    ∃ table st, expScalingArr ex as ps c ls = some table ∧ table.length = as.length
      ∧ expScaling ex as[t] (ps[t]'(hlen ▸ ht)) c ls = some st
      ∧ slice (mid.prod * ls.length) t
          (filterLeaf (as.length :: (List.replicate mid.length 1 ++ [ls.length])) table.flatten
            (as.length :: (mid ++ [ls.length]), x)).2
        = (filterLeaf [ls.length] st (mid ++ [ls.length], slice (mid.prod * ls.length) t x)).2 := by
  let table := List.zipWith (fun a p => ls.map (expFactor ex a p c lmax)) as ps
  have hT : table.length = as.length := by simp [table, hlen]
  refine ⟨table, ls.map (expFactor ex as[t] (ps[t]'(hlen ▸ ht)) c lmax), by simp [expScalingArr, hm, table],
    hT, by simp [expScaling, hm], ?_⟩
  have hrows : ∀ r ∈ table, r.length = ls.length := by
    intro r hr
    obtain ⟨i, hi, rfl⟩ := List.getElem_of_mem hr
    simp [table]
  rw [filterLeaf_table_slice table as.length hT ls.length hrows mid x t (by rw [hT]; exact ht)]
  simp [table]

/-- `horizontal_diffusion_filter` with an array-valued `scale` -/
theorem horizontalDiffusionFilter_array_slicewise {K : Type} [Field K] (ex : K → K)
    (scales : List K) (order : Nat) (eigs : List K) (mid : List Nat) (x : List K) (t : Nat)
    (ht : t < scales.length) :
    slice (mid.prod * eigs.length) t
        (filterLeaf (scales.length :: (List.replicate mid.length 1 ++ [eigs.length]))
          (diffScalingArr ex scales order eigs).flatten
          (scales.length :: (mid ++ [eigs.length]), x)).2
      = (filterLeaf [eigs.length] (diffScaling ex scales[t] order eigs)
          (mid ++ [eigs.length], slice (mid.prod * eigs.length) t x)).2 := by
  have hT : (diffScalingArr ex scales order eigs).length = scales.length := by simp [diffScalingArr]
  have hrows : ∀ r ∈ diffScalingArr ex scales order eigs, r.length = eigs.length := by
    intro r hr
    simp only [diffScalingArr, List.mem_map] at hr
    obtain ⟨sc, _, rfl⟩ := hr
    simp [diffScaling]
  rw [filterLeaf_table_slice _ scales.length hT eigs.length hrows mid x t (by rw [hT]; exact ht)]
  simp [diffScalingArr]

/-! ## T15.4 Robert–Asselin -/

section ra
variable {K : Type} [Field K]

/-- the newest time level is returned unchanged -/
theorem robertAsselin_newest (r : K) (u uNext : List K × List K) :
    (robertAsselin r u uNext).2 = uNext.2 := rfl

/-- the first component of `u_next` (a copy of the current level) is discarded -/
theorem robertAsselin_ignores (r : K) (u : List K × List K) (a a' f : List K) :
    robertAsselin r u (a, f) = robertAsselin r u (a', f) := rfl

theorem raPoint_linear (r c d : K) : raPoint r (c - d) c (c + d) = c := by
  unfold raPoint; ring

theorem map3_linear (r : K) (c d : List K) (h : c.length = d.length) :
    map3 (raPoint r) (List.zipWith (· - ·) c d) c (List.zipWith (· + ·) c d) = c := by
  induction c generalizing d with
  | nil => cases d <;> simp [map3]
  | cons a t ih =>
    cases d with
    | nil => simp at h
    | cons b s =>
      simp only [List.length_cons, Nat.add_right_cancel_iff] at h
      simp [map3, raPoint_linear, ih s h]

/-- three levels that are linear in time (`c - d, c, c + d`, any increment `d`) are a fixed point,
 for every filter strength `r` -/
theorem robertAsselin_linear_fixed (r : K) (c d : List K) (h : c.length = d.length) (a : List K) :
    robertAsselin r (List.zipWith (· - ·) c d, c) (a, List.zipWith (· + ·) c d)
      = (c, List.zipWith (· + ·) c d) := by
  simp [robertAsselin, map3_linear r c d h]

theorem map3_getElem? {α β γ δ : Type} (f : α → β → γ → δ) (p : List α) (c : List β) (g : List γ)
    (i : Nat) (hp : i < p.length) (hc : i < c.length) (hg : i < g.length) :
    (map3 f p c g)[i]? = some (f p[i] c[i] g[i]) := by
  induction p generalizing c g i with
  | nil => simp at hp
  | cons a p ih =>
    cases c with
    | nil => simp at hc
    | cons b c =>
      cases g with
      | nil => simp at hg
      | cons e g =>
        cases i with
        | zero => simp [map3]
        | succ i =>
          simp only [map3, List.getElem?_cons_succ, List.getElem_cons_succ]
          exact ih c g i (by simpa using hp) (by simpa using hc) (by simpa using hg)

theorem map3_length {α β γ δ : Type} (f : α → β → γ → δ) (p : List α) (c : List β) (g : List γ)
    (h1 : p.length = c.length) (h2 : c.length = g.length) : (map3 f p c g).length = c.length := by
  induction p generalizing c g with
  | nil => cases c <;> simp_all [map3]
  | cons a p ih =>
    cases c with
    | nil => simp at h1
    | cons b c =>
      cases g with
      | nil => simp at h2
      | cons e g =>
        simp only [List.length_cons, Nat.add_right_cancel_iff] at h1 h2
        simp [map3, ih c g h1 h2]

end ra

section raorder
variable {K : Type} [Field K] [LinearOrder K] [IsStrictOrderedRing K]

/-- for `0 ≤ r ≤ 1/2` the filtered value is a convex combination of the three levels
 (weights `r, 1 - 2r, r`), hence lies between their minimum and maximum -/
theorem raPoint_convex (r p c f : K) (h0 : 0 ≤ r) (h1 : r ≤ 1 / 2) :
    raPoint r p c f = r * p + (1 - 2 * r) * c + r * f ∧ 0 ≤ r ∧ 0 ≤ 1 - 2 * r
      ∧ r + (1 - 2 * r) + r = 1
      ∧ min p (min c f) ≤ raPoint r p c f ∧ raPoint r p c f ≤ max p (max c f) := by
  have hw : 0 ≤ 1 - 2 * r := by linarith
  have e : raPoint r p c f = r * p + (1 - 2 * r) * c + r * f := by unfold raPoint; ring
  refine ⟨e, h0, hw, by ring, ?_, ?_⟩
  · rw [e]
    have hp : min p (min c f) ≤ p := min_le_left _ _
    have hc : min p (min c f) ≤ c := le_trans (min_le_right _ _) (min_le_left _ _)
    have hf : min p (min c f) ≤ f := le_trans (min_le_right _ _) (min_le_right _ _)
    nlinarith [mul_le_mul_of_nonneg_left hp h0, mul_le_mul_of_nonneg_left hc hw,
      mul_le_mul_of_nonneg_left hf h0]
  · rw [e]
    have hp : p ≤ max p (max c f) := le_max_left _ _
    have hc : c ≤ max p (max c f) := le_trans (le_max_left _ _) (le_max_right _ _)
    have hf : f ≤ max p (max c f) := le_trans (le_max_right _ _) (le_max_right _ _)
    nlinarith [mul_le_mul_of_nonneg_left hp h0, mul_le_mul_of_nonneg_left hc hw,
      mul_le_mul_of_nonneg_left hf h0]

/-- the whole filtered level: entry by entry between the three input levels -/
theorem robertAsselin_convex (r : K) (p c f a : List K) (h0 : 0 ≤ r) (h1 : r ≤ 1 / 2)
    (hpc : p.length = c.length) (hcf : c.length = f.length) :
    (robertAsselin r (p, c) (a, f)).1.length = c.length
      ∧ ∀ i (hi : i < c.length), ∃ y, (robertAsselin r (p, c) (a, f)).1[i]? = some y
          ∧ min (p[i]'(hpc ▸ hi)) (min c[i] (f[i]'(hcf ▸ hi))) ≤ y
          ∧ y ≤ max (p[i]'(hpc ▸ hi)) (max c[i] (f[i]'(hcf ▸ hi))) := by
  refine ⟨map3_length _ p c f hpc hcf, ?_⟩
  intro i hi
  refine ⟨_, map3_getElem? _ p c f i (hpc ▸ hi) hi (hcf ▸ hi), ?_, ?_⟩
  · exact (raPoint_convex r _ _ _ h0 h1).2.2.2.2.1
  · exact (raPoint_convex r _ _ _ h0 h1).2.2.2.2.2

end raorder

/-! ## T15.5 `_preserves_shape` and the shape-selective tree map -/

/-- `_preserves_shape(target, scaling)` ⇔ the shapes are broadcast-compatible and the broadcast
 shape is the target's -/
theorem preservesShape_iff (t s : List Nat) :
    preservesShape t s = true ↔ ∃ b, broadcastShapes t s = some b ∧ b = t := by
  rw [preservesShape_iff_broadcast]; simp

/-- … ⇔ the scaling's dimensions pair up with the trailing dimensions of the leaf, each equal to
 the leaf's or equal to 1 -/
theorem preservesShape_iff_trailing_dims (t s : List Nat) :
    preservesShape t s = true
      ↔ ∃ pre suf, t = pre ++ suf ∧ List.Forall₂ (fun ds dt => ds = dt ∨ ds = 1) s suf :=
  preservesShape_iff_trailing t s

/-- scalars (shape `()`: floats, clocks, step counters) are rescaled only by a scalar scaling -/
theorem preservesShape_scalar_leaf (s : List Nat) : preservesShape [] s = true ↔ s = [] := by
  rw [preservesShape_iff_trailing]
  constructor
  · rintro ⟨pre, suf, e, f⟩
    have : suf = [] := by
      cases suf with
      | nil => rfl
      | cons _ _ => cases pre <;> simp at e
    subst this
    exact List.forall₂_nil_right_iff.1 f
  · rintro rfl
    exact ⟨[], [], rfl, List.Forall₂.nil⟩

/-- a 1-D scaling of length `L` rescales exactly the leaves whose last axis has length `L`
 (every non-scalar leaf when `L = 1`) -/
theorem preservesShape_1d_iff (t : List Nat) (L : Nat) :
    preservesShape t [L] = true ↔ ∃ init d, t = init ++ [d] ∧ (L = d ∨ L = 1) := by
  rw [preservesShape_iff_trailing]
  constructor
  · rintro ⟨pre, suf, e, f⟩
    cases f with
    | cons h f' =>
      cases f'
      exact ⟨pre, _, e, h⟩
  · rintro ⟨init, d, e, h⟩
    exact ⟨init, [d], e, List.Forall₂.cons h List.Forall₂.nil⟩

section generic
variable {K : Type} [Field K]

/-- leaves whose shape is not preserved are returned untouched -/
theorem filterLeaf_untouched (ss : List Nat) (s : List K) (leaf : List Nat × List K)
    (h : preservesShape leaf.1 ss = false) : filterLeaf ss s leaf = leaf := by
  simp [filterLeaf, h]

/-- scalars and clocks are untouched by every non-scalar scaling -/
theorem filterLeaf_scalar (ss : List Nat) (s : List K) (x : List K) (h : ss ≠ []) :
    filterLeaf ss s ([], x) = ([], x) := by
  apply filterLeaf_untouched
  rw [Bool.eq_false_iff]
  intro hp
  exact h ((preservesShape_scalar_leaf ss).1 hp)

/-- leaves of unrelated shape (last axis different from the spectrum's) are untouched -/
theorem filterLeaf_unrelated (L : Nat) (s : List K) (init : List Nat) (d : Nat) (x : List K)
    (hL : L ≠ 1) (hd : d ≠ L) : filterLeaf [L] s (init ++ [d], x) = (init ++ [d], x) := by
  apply filterLeaf_untouched
  rw [Bool.eq_false_iff]
  intro hp
  obtain ⟨init', d', e, h⟩ := (preservesShape_1d_iff _ _).1 hp
  have : d = d' := by
    have := congrArg List.getLast? e
    simpa using this
  subst this
  rcases h with h | h
  · exact hd h.symm
  · exact hL h

/-- the tree map keeps the tree structure, every leaf shape and every leaf size -/
theorem filterTree_structure (ss : List Nat) (s : List K) (tree : List (List Nat × List K)) :
    (filterTree ss s tree).length = tree.length
      ∧ (filterTree ss s tree).map (·.1) = tree.map (·.1)
      ∧ (filterTree ss s tree).map (·.2.length) = tree.map (·.2.length) := by
  simp [filterTree, List.map_map, Function.comp_def]

/-- whenever a leaf is rescaled, every index into the scaling is within the scaling's data
 (the `getD` default of the model is never used on consistent arrays) -/
theorem filterLeaf_index_in_range (ss ts : List Nat) (i : Nat) (h : preservesShape ts ss = true)
    (hi : i < ts.prod) : bidx ss ts i < ss.prod :=
  bidx_lt ss ts i h hi

/-- current and old `_preserves_shape` agree whenever the old one returns -/
theorem preservesShapeOld_eq (t s : List Nat) (b : Bool) (h : preservesShapeOld t s = some b) :
    preservesShape t s = b := by
  unfold preservesShapeOld at h
  unfold preservesShape
  cases hb : broadcastShapes t s with
  | none => simp [hb] at h
  | some sh => simpa [hb] using h

/-- negative witness for the code before commit 90e14fe: a leaf of shape `(3,)` or `(2,3)` next to a
 `(7,5)` spectrum makes `np.broadcast_shapes` raise, so the whole filter raises; the current code
 leaves such leaves untouched -/
theorem preservesShapeOld_raises :
    preservesShapeOld [3] [7, 5] = none ∧ preservesShapeOld [2, 3] [7, 5] = none
      ∧ preservesShape [3] [7, 5] = false ∧ preservesShape [2, 3] [7, 5] = false := by
  decide

theorem filterTreeOld_raises (s x y : List K) :
    filterTreeOld [7, 5] s [([7, 5], x), ([3], y)] = none
      ∧ filterTree [7, 5] s [([7, 5], x), ([3], y)] = [([7, 5], bmul [7, 5] s [7, 5] x), ([3], y)] := by
  have h1 : preservesShapeOld [3] [7, 5] = none := by decide
  have h2 : preservesShapeOld [7, 5] [7, 5] = some true := by decide
  have h3 : preservesShape [3] [7, 5] = false := by decide
  have h4 : preservesShape [7, 5] [7, 5] = true := by decide
  constructor
  · simp [filterTreeOld, h1, h2]
  · simp [filterTree, filterLeaf, h3, h4]

end generic

/-! ## adapters to the `(u, u_next)` signature -/

/-- `runge_kutta_step_filter`: `u` is dropped, the state filter is applied to `u_next` -/
theorem rkStepFilter_apply {S : Type} (f : S → S) (u uNext : S) : rkStepFilter f u uNext = f uNext :=
  rfl

/-- `leapfrog_step_filter`: `u` is dropped, the current slice of `u_next` is passed through and
 only the future slice is filtered -/
theorem leapfrogStepFilter_apply {S : Type} (f : S → S) (u : S × S) (cur fut : S) :
    leapfrogStepFilter f u (cur, fut) = (cur, f fut) := rfl

/-- the exponential leapfrog step filter filters the future slice exactly like the Runge–Kutta
 variant filters its state, and returns the current slice unchanged -/
theorem exponentialLeapfrogStepFilter_eq (dt tau : ℝ) (p : ℕ) (c : ℝ) (ls : List ℝ)
    (u : List (List ℕ × List ℝ) × List (List ℕ × List ℝ)) (v cur fut : List (List ℕ × List ℝ)) :
    exponentialLeapfrogStepFilter Real.exp dt tau p c ls u (cur, fut)
      = (exponentialStepFilter Real.exp dt tau p c ls v fut).map fun f => (cur, f) := by
  simp only [exponentialLeapfrogStepFilter, exponentialStepFilter, leapfrogStepFilter, rkStepFilter,
    Option.map_map]
  rfl

/-! ## non-vacuity: the hypotheses above are satisfiable on concrete, non-trivial objects -/

section examples

/-- a padded wavenumber axis (`FastSphericalHarmonics`, 4 wavenumbers padded to 6) -/
def lsPadded : List ℝ := [0, 1, 2, 3, 0, 0]

theorem maxL_lsPadded : maxL lsPadded = some 3 := by
  simp [maxL, lsPadded]; norm_num

example : ∃ lmax, maxL lsPadded = some lmax ∧ 0 < lmax
    ∧ expScaling Real.exp 16 18 0 lsPadded = some (lsPadded.map (expFactor Real.exp 16 18 0 lmax))
    ∧ (∀ f ∈ lsPadded.map (expFactor Real.exp 16 18 0 lmax), 0 < f ∧ f ≤ 1)
    ∧ (∀ i (h : i < lsPadded.length), lsPadded[i] = 0 →
        (lsPadded.map (expFactor Real.exp 16 18 0 lmax))[i]'(by simpa using h) = 1) :=
  expScaling_spec 16 18 0 lsPadded (by norm_num) (le_refl _) (by norm_num)
    ⟨1, by simp [lsPadded], by norm_num⟩

example (x : List ℝ) := exponentialFilter_nonamplifying 16 18 0 lsPadded (by norm_num) (le_refl _)
  (by norm_num) ⟨1, by simp [lsPadded], by norm_num⟩ [3, 12] x

example : expFactor Real.exp 16 18 (1 / 2) 3 3 ≤ expFactor Real.exp 16 18 (1 / 2) 3 2 :=
  expFactor_antitone 16 18 (1 / 2) 3 2 3 (by norm_num) (by norm_num) (by norm_num) (by norm_num)

example : expFactor Real.exp 16 18 (1 / 2) 3 3 = Real.exp (-16) :=
  expFactor_top 16 18 (1 / 2) 3 (by norm_num) (by norm_num)

example (dt : ℝ) (u u' u'' tree : List (List ℕ × List ℝ)) :
    (exponentialStepFilter Real.exp (dt / 2) (1 / 100) 18 0 lsPadded u tree).bind
        (exponentialStepFilter Real.exp (dt / 2) (1 / 100) 18 0 lsPadded u')
      = exponentialStepFilter Real.exp dt (1 / 100) 18 0 lsPadded u'' tree :=
  exponentialStepFilter_half_half dt (1 / 100) 18 0 lsPadded 3 maxL_lsPadded (by norm_num)
    (by norm_num) (by norm_num) u u' u'' tree

/-- the guard of the current diffusion step filter holds on the padded axis … -/
example : ∃ m, maxAbs (eigenvalues 2 lsPadded) = some m ∧ 0 < m ∧ (1 / 10 : ℝ) * powN m 2 ≠ 0
    ∧ (∃ l ∈ lsPadded, eigenvalue 2 l = -m) :=
  diffStepScale_guard (1 / 10) 2 2 lsPadded (by norm_num) (by norm_num)
    (by
      intro l hl
      simp only [lsPadded, List.mem_cons, List.mem_nil_iff, or_false] at hl
      rcases hl with h | h | h | h | h | h <;> rw [h] <;> norm_num)
    ⟨1, by simp [lsPadded], by norm_num⟩

/-- … while the old normalisation is a division by zero there -/
example : (1 / 10 : ℝ) * powN (absV (eigenvalue 2 0)) 2 = 0 :=
  (diffStepScaleOld_guard_fails 1 (1 / 10) 2 2 [0, 1, 2, 3, 0] (by norm_num)).2

/-- on the unpadded axis old and current normalisation coincide -/
example : diffStepScale 1 (1 / 10) 2 (eigenvalues 2 [0, 1, 2, 3])
    = diffStepScaleOld 1 (1 / 10 : ℝ) 2 (eigenvalues 2 [0, 1, 2, 3]) :=
  diffStepScale_eq_old_of_sorted 1 (1 / 10) 2 2 [0, 1, 2, 3] (by norm_num)
    (by intro l hl
        simp only [List.mem_cons, List.mem_nil_iff, or_false] at hl
        rcases hl with h | h | h | h <;> rw [h] <;> norm_num)
    (by simp; norm_num)

/-- broadcasting on exact rationals: a `(2,1,3)` scaling on a `(2,2,3)` leaf, and its slices -/
example : bmul [2, 1, 3] [1, 2, 3, 4, 5, 6] [2, 2, 3] (List.replicate 12 (1 : ℚ))
    = [1, 2, 3, 1, 2, 3, 4, 5, 6, 4, 5, 6] := by decide +kernel

example : slice 6 1 (filterLeaf (2 :: (List.replicate 1 1 ++ [3]))
      ([[1, 2, 3], [4, 5, 6]] : List (List ℚ)).flatten (2 :: ([2] ++ [3]), List.replicate 12 1)).2
    = (filterLeaf [3] [4, 5, 6] ([2] ++ [3], slice 6 1 (List.replicate 12 (1 : ℚ)))).2 :=
  filterLeaf_table_slice [[1, 2, 3], [4, 5, 6]] 2 rfl 3 (by simp) [2] _ 1 (by simp)

/-- mixed pytree: scalar, clock, `(3,)`, `(2,3)`, `(L,)`, spectrum, levels × spectrum -/
example : [[], [3], [2, 3], [5], [7, 5], [4, 7, 5]].map (fun t => preservesShape t [5])
    = [false, false, false, true, true, true] := by decide

/-- Robert–Asselin with `r = 1/4` on a non-linear triple, and the linear fixed point -/
example : robertAsselin (1 / 4 : ℚ) ([1, 0], [2, 5]) ([9, 9], [7, 1]) = ([3, 11 / 4], [7, 1]) := by
  decide +kernel

example : robertAsselin (1 / 4 : ℚ) (List.zipWith (· - ·) [2, 5] [3, -1], [2, 5])
    ([0, 0], List.zipWith (· + ·) [2, 5] [3, -1]) = ([2, 5], List.zipWith (· + ·) [2, 5] [3, -1]) :=
  robertAsselin_linear_fixed (1 / 4 : ℚ) [2, 5] [3, -1] rfl _

example :=
  robertAsselin_convex (1 / 4 : ℚ) [1, 0] [2, 5] [7, 1] [9, 9] (by norm_num) (by norm_num) rfl rfl

end examples

end Dino.C15
