import DinoProofs.Lemmas.Interp
import Mathlib.Algebra.Order.Field.Basic
import Mathlib.Tactic.Ring
import Mathlib.Tactic.Linarith
import Mathlib.Tactic.FieldSimp
import Mathlib.Tactic.NormNum
import Mathlib.Analysis.SpecialFunctions.Trigonometric.Basic

/-!
# C17 — vertical interpolation, pressure/sigma/hybrid regridding, bilinear / nearest regridding

All statements are about the executable model `Dino.Interp` (tied to
`dinosaur/vertical_interpolation.py`, `dinosaur/horizontal_interpolation.py` and
`primitive_equations._vertical_interp` by the correspondence check of `harness/props/C17.py`), over an
arbitrary linearly ordered field `K`, for node sets of any size, arbitrary data and arbitrary
queries.

Hypotheses used throughout:
* `0 ≤ eps`, `Sep eps xp`: every node spacing exceeds the guard `eps` of `jnp.interp`
  (`np.spacing(finfo.eps) = 2^-104` in float64); this implies that the nodes are strictly
  increasing (`Sep.inc`).  The harness validates it on every generated admissible node set; the
  `example`s at the end show that it cannot be dropped.
* `Inc xp`: strictly increasing nodes (for the routines that do not go through `jnp.interp`).
* `xp.length = fp.length`: the shape validation of the implementation (`interpChecked` …).
-/

set_option linter.unusedSectionVars false
set_option linter.unusedSimpArgs false

namespace Dino.C17
open Dino.Interp

variable {K : Type} [Field K] [LinearOrder K] [IsStrictOrderedRing K]

/-! ## T17.1 `interp` (the `jnp.interp` path): node values, convexity, constant beyond the ends -/

/-- with one node `interp` is constant (whatever the guard) -/
theorem interp_one_node (eps a f x : K) : interp eps [a] [f] x = f := by
  rw [interp_eq_cases]
  have hc : interpCore eps [a] [f] x = f := by
    unfold interpCore cellIdx clipIdx
    simp
  simp [hc]

/-- `interp` returns the node value at every node -/
theorem interp_node {eps : K} {xp fp : List K} (h0 : 0 ≤ eps) (hs : Sep eps xp)
    (hl : xp.length = fp.length) (j : Nat) (hj : j < xp.length) :
    interp eps xp fp xp[j] = fp[j]'(hl ▸ hj) := by
  have hi := hs.inc h0
  rw [← List.getD_eq_getElem xp 0 hj, ← List.getD_eq_getElem fp 0 (hl ▸ hj), interp_eq_cases,
    if_neg (not_lt.mpr (hi.getD_le (by omega) (by omega))),
    if_neg (not_lt.mpr (hi.getD_le (Nat.zero_le j) hj))]
  by_cases hj1 : j + 1 < xp.length
  · rw [interpCore_cell h0 hs fp hj1 (inCell_of_mem le_rfl (hi.getD_le (Nat.le_succ j) hj1)),
      cellFormula_left]
  · by_cases hn : 2 ≤ xp.length
    · obtain ⟨i, rfl⟩ : ∃ i, j = i + 1 := ⟨j - 1, by omega⟩
      have hc : InCell xp i (xp.getD (i + 1) 0) :=
        ⟨Or.inr (hi.getD_le (Nat.le_succ i) hj), Or.inl (by omega)⟩
      rw [interpCore_cell h0 hs fp hj hc, cellFormula_right _ _ _ (ne_of_gt (hs.gap_pos h0 hj))]
    · match xp, fp, hl with
      | [a], [f], _ =>
        have : j = 0 := by simp at hj; omega
        subst this
        have := interp_one_node eps a f a
        rw [interp_eq_cases] at this
        simpa using this
      | [], _, _ => simp at hj
      | _ :: _ :: _, _, _ => simp at hn

/-- inside cell `j` the value is the convex combination of the two neighbouring node values with
 the weight of the query in the cell -/
theorem interp_convex {eps : K} {xp fp : List K} (h0 : 0 ≤ eps) (hs : Sep eps xp)
    (hl : xp.length = fp.length) (j : Nat) (hj : j + 1 < xp.length) (x : K)
    (h1 : xp[j] ≤ x) (h2 : x ≤ xp[j + 1]) :
    0 ≤ (x - xp[j]) / (xp[j + 1] - xp[j]) ∧ (x - xp[j]) / (xp[j + 1] - xp[j]) ≤ 1 ∧
    interp eps xp fp x
      = (1 - (x - xp[j]) / (xp[j + 1] - xp[j])) * fp[j]'(by omega)
        + (x - xp[j]) / (xp[j + 1] - xp[j]) * fp[j + 1]'(by omega) := by
  have hi := hs.inc h0
  have hgap := hs.gap_pos h0 hj
  rw [← List.getD_eq_getElem xp 0 (by omega : j < xp.length)] at h1 ⊢
  rw [← List.getD_eq_getElem xp 0 hj] at h2 ⊢
  rw [← List.getD_eq_getElem fp 0 (by omega : j < fp.length),
    ← List.getD_eq_getElem fp 0 (by omega : j + 1 < fp.length)]
  refine ⟨div_nonneg (sub_nonneg.mpr h1) hgap.le, (div_le_one hgap).mpr (by linarith), ?_⟩
  have hlo : xp.getD 0 0 ≤ x := le_trans (hi.getD_le (Nat.zero_le j) (by omega)) h1
  have hhi : x ≤ xp.getD (xp.length - 1) 0 := le_trans h2 (hi.getD_le (by omega) (by omega))
  rw [interp_eq_cases, if_neg (not_lt.mpr hhi), if_neg (not_lt.mpr hlo),
    interpCore_cell h0 hs fp hj (inCell_of_mem h1 h2), cellFormula_convex]

/-- inside the node range the value lies between the two neighbouring node values -/
theorem interp_bounded {eps : K} {xp fp : List K} (h0 : 0 ≤ eps) (hs : Sep eps xp)
    (hl : xp.length = fp.length) (hn : 2 ≤ xp.length) (x : K)
    (h1 : xp[0] ≤ x) (h2 : x ≤ xp[xp.length - 1]) :
    ∃ (j : Nat) (hj : j + 1 < xp.length), xp[j] ≤ x ∧ x ≤ xp[j + 1] ∧
      min (fp[j]'(by omega)) (fp[j + 1]'(by omega)) ≤ interp eps xp fp x ∧
      interp eps xp fp x ≤ max (fp[j]'(by omega)) (fp[j + 1]'(by omega)) := by
  have hi := hs.inc h0
  rw [← List.getD_eq_getElem xp 0 (by omega : 0 < xp.length)] at h1
  rw [← List.getD_eq_getElem xp 0 (by omega : xp.length - 1 < xp.length)] at h2
  obtain ⟨j, hj, hj1, hj2⟩ := exists_closed_cell hi hn h1 h2
  rw [List.getD_eq_getElem xp 0 (by omega : j < xp.length)] at hj1
  rw [List.getD_eq_getElem xp 0 hj] at hj2
  refine ⟨j, hj, hj1, hj2, ?_⟩
  obtain ⟨ht0, ht1, hv⟩ := interp_convex h0 hs hl j hj x hj1 hj2
  rw [hv]
  set t := (x - xp[j]) / (xp[j + 1] - xp[j])
  set a := fp[j]'(by omega)
  set b := fp[j + 1]'(by omega)
  have hma := min_le_left a b
  have hmb := min_le_right a b
  have hMa := le_max_left a b
  have hMb := le_max_right a b
  have p1 := mul_nonneg (sub_nonneg.mpr ht1) (sub_nonneg.mpr hma)
  have p2 := mul_nonneg ht0 (sub_nonneg.mpr hmb)
  have p3 := mul_nonneg (sub_nonneg.mpr ht1) (sub_nonneg.mpr hMa)
  have p4 := mul_nonneg ht0 (sub_nonneg.mpr hMb)
  constructor <;> linarith

/-- beyond the ends `interp` is constant: the first / last node value -/
theorem interp_outside {eps : K} {xp fp : List K} (h0 : 0 ≤ eps) (hs : Sep eps xp)
    (hl : xp.length = fp.length) (hn : 1 ≤ xp.length) (x : K) :
    (x < xp[0] → interp eps xp fp x = fp[0]'(by omega)) ∧
    (xp[xp.length - 1] < x → interp eps xp fp x = fp[fp.length - 1]'(by omega)) := by
  have hi := hs.inc h0
  rw [← List.getD_eq_getElem xp 0 (by omega : 0 < xp.length),
    ← List.getD_eq_getElem xp 0 (by omega : xp.length - 1 < xp.length),
    ← List.getD_eq_getElem fp 0 (by omega : 0 < fp.length),
    ← List.getD_eq_getElem fp 0 (by omega : fp.length - 1 < fp.length)]
  constructor
  · intro hx
    have : ¬ xp.getD (xp.length - 1) 0 < x :=
      not_lt.mpr (le_trans hx.le (hi.getD_le (Nat.zero_le _) (by omega)))
    rw [interp_eq_cases, if_neg this, if_pos hx]
  · intro hx
    rw [interp_eq_cases, if_pos hx]

/-- constant data are reproduced for every query and every node set (no hypothesis on the nodes) -/
theorem interp_const (eps : K) (xp : List K) (c x : K) (hn : 1 ≤ xp.length) :
    interp eps xp (List.replicate xp.length c) x = c := by
  have hidx : cellIdx xp x < xp.length := by unfold cellIdx clipIdx; omega
  have g : ∀ i, i < xp.length → (List.replicate xp.length c).getD i 0 = c :=
    fun i hi => List.getD_replicate _ hi
  have hc : interpCore eps xp (List.replicate xp.length c) x = c := by
    unfold interpCore
    simp only [g _ hidx, g (cellIdx xp x - 1) (by omega), sub_self, mul_zero, add_zero, ite_self]
  rw [interp_eq_cases, hc, List.length_replicate, g _ (by omega), g 0 (by omega)]
  simp

/-- `interp` is the reference piecewise-linear interpolant `pwlRef` (constant beyond the ends,
 defined by recursion on the node list) for every query -/
theorem interp_eq_pwlRef {eps : K} {xp fp : List K} (h0 : 0 ≤ eps) (hs : Sep eps xp)
    (hl : xp.length = fp.length) (hn : 1 ≤ xp.length) (x : K) :
    interp eps xp fp x = pwlRef xp fp x := by
  have hi := hs.inc h0
  by_cases hn2 : 2 ≤ xp.length
  · rw [interp_eq_cases]
    by_cases h1 : xp.getD (xp.length - 1) 0 < x
    · rw [if_pos h1, pwlRef_right hi hl hn h1]
    · rw [if_neg h1]
      by_cases h2 : x < xp.getD 0 0
      · rw [if_pos h2, pwlRef_left hl hn h2]
      · rw [if_neg h2]
        obtain ⟨j, hj, hj1, hj2⟩ := exists_closed_cell hi hn2 (not_lt.mp h2) (not_lt.mp h1)
        rw [interpCore_cell h0 hs fp hj (inCell_of_mem hj1 hj2), pwlRef_cell j hi hl hj hj1 hj2]
  · match xp, fp, hl, hn with
    | [a], [f], _, _ => rw [interp_one_node]; simp [pwlRef]
    | _ :: _ :: _, _, _, _ => simp at hn2

/-! ## T17.2 the dot-product (accelerator) path agrees with the `jnp.interp` path -/

/-- with one node `linear_interp_with_linear_extrap` returns `0`, not the node value -/
theorem linearExtrap_one_node (a f x : K) : linearExtrap [a] [f] x = 0 := by
  simp [linearExtrap, linWeights, cellWeights, dot]

/-- with one node `_dot_interp` returns the node value for every query (at, below and above the
 node): the left override `x <= xp[0]` and the right override `x > xp[-1]` together cover every `x` -/
theorem dotInterp_one_node (a f x : K) : dotInterp [a] [f] x = f := by
  rw [dotInterp_eq_cases [a] [f] x rfl (by simp)]
  simp only [List.length_cons, List.length_nil, Nat.zero_add, Nat.sub_self, List.getD_cons_zero]
  by_cases h1 : a < x
  · rw [if_pos h1]
  · rw [if_neg h1, if_pos (not_lt.mp h1)]

/-- for every node count `n ≥ 1` `_dot_interp` and `jnp.interp` agree for every query, including
 ties with nodes, both ends and outside the range -/
theorem dotInterp_eq_interp {eps : K} {xp fp : List K} (h0 : 0 ≤ eps) (hs : Sep eps xp)
    (hl : xp.length = fp.length) (hn : 1 ≤ xp.length) (x : K) :
    dotInterp xp fp x = interp eps xp fp x := by
  by_cases hn2 : 2 ≤ xp.length
  · have hi := hs.inc h0
    rw [dotInterp_eq_cases xp fp x hl hn, interp_eq_cases]
    by_cases h1 : xp.getD (xp.length - 1) 0 < x
    · rw [if_pos h1, if_pos h1]
    · rw [if_neg h1, if_neg h1]
      by_cases h2 : x < xp.getD 0 0
      · rw [if_pos h2.le, if_pos h2]
      · rw [if_neg h2]
        by_cases h3 : x ≤ xp.getD 0 0
        · -- the query is the first node: the override returns `fp[0]`, which is what cell 0 gives
          have hx : x = xp.getD 0 0 := le_antisymm h3 (not_lt.mp h2)
          have hc : InCell xp 0 (xp.getD 0 0) :=
            ⟨Or.inl rfl, Or.inr (hi.getD_le (Nat.le_succ 0) (by omega))⟩
          rw [if_pos h3, hx, interpCore_cell h0 hs fp (j := 0) (by omega) hc, cellFormula_left]
        · rw [if_neg h3, linearExtrap_eq_cellValue xp fp x hl hn2,
            interpCore_eq_cellValue h0 hs fp x hn2]
  · match xp, fp, hl, hn with
    | [a], [f], _, _ => rw [dotInterp_one_node, interp_one_node]
    | _ :: _ :: _, _, _, _ => simp at hn2

/-! ### the pre-repair `_dot_interp` (left override `x < xp[0]`): regression witness

`dotInterpOld` is what `_dot_interp` computed before the repair of finding `dot-interp-one-node`.
It is no longer tied to the code; the harness replays the witness below against the model only and
reports a violation with the input `(x, xp, fp) = (2, [2], [7])` if the code falls back to it. -/

/-- with one node the pre-repair `_dot_interp` returns the node value everywhere except at the
 node, where it returns `0` -/
theorem dotInterpOld_one_node (a f x : K) : dotInterpOld [a] [f] x = if x = a then 0 else f := by
  rw [dotInterpOld_eq_cases [a] [f] x rfl (by simp), linearExtrap_one_node]
  simp only [List.length_cons, List.length_nil, Nat.zero_add, Nat.sub_self, List.getD_cons_zero]
  by_cases h1 : a < x
  · rw [if_pos h1, if_neg (ne_of_gt h1)]
  · rw [if_neg h1]
    by_cases h2 : x < a
    · rw [if_pos h2, if_neg (ne_of_lt h2)]
    · rw [if_neg h2, if_pos (le_antisymm (not_lt.mp h1) (not_lt.mp h2))]

/-- … so with one node the pre-repair accelerator path disagrees with the `jnp.interp` path at the
 node (finding `dot-interp-one-node`, repaired; measured on the unrepaired code: `7.0` vs `0.0`) -/
theorem dotInterpOld_one_node_ne_interp (eps a f : K) (hf : f ≠ 0) :
    dotInterpOld [a] [f] a ≠ interp eps [a] [f] a := by
  rw [dotInterpOld_one_node, interp_one_node, if_pos rfl]
  exact fun h => hf h.symm

/-- the repair is behaviour-preserving for two or more strictly increasing nodes: there the old and
 the new `_dot_interp` agree for every query (at the first node the un-overridden weights already
 give the first node value) -/
theorem dotInterpOld_eq_dotInterp {xp fp : List K} (hi : Inc xp) (hl : xp.length = fp.length)
    (hn : 2 ≤ xp.length) (x : K) : dotInterpOld xp fp x = dotInterp xp fp x := by
  rw [dotInterpOld_eq_cases xp fp x hl (by omega), dotInterp_eq_cases xp fp x hl (by omega)]
  by_cases h1 : xp.getD (xp.length - 1) 0 < x
  · rw [if_pos h1, if_pos h1]
  · rw [if_neg h1, if_neg h1]
    by_cases h2 : x < xp.getD 0 0
    · rw [if_pos h2, if_pos h2.le]
    · rw [if_neg h2]
      by_cases h3 : x ≤ xp.getD 0 0
      · have hx : x = xp.getD 0 0 := le_antisymm h3 (not_lt.mp h2)
        have hc : InCell xp 0 (xp.getD 0 0) :=
          ⟨Or.inl rfl, Or.inr (hi.getD_le (Nat.le_succ 0) (by omega))⟩
        rw [if_pos h3, hx, linearExtrap_cell hi hl (j := 0) (by omega) hc, cellFormula_left]
      · rw [if_neg h3]

/-! ## T17.3 exactness on affine data -/

/-- `interp` is exact on affine data inside the node range -/
theorem interp_affine {eps : K} {xp : List K} (h0 : 0 ≤ eps) (hs : Sep eps xp)
    (hn : 1 ≤ xp.length) (a s x : K) (h1 : xp[0] ≤ x) (h2 : x ≤ xp[xp.length - 1]) :
    interp eps xp (xp.map fun t => a + s * t) x = a + s * x := by
  have hi := hs.inc h0
  rw [← List.getD_eq_getElem xp 0 (by omega : 0 < xp.length)] at h1
  rw [← List.getD_eq_getElem xp 0 (by omega : xp.length - 1 < xp.length)] at h2
  by_cases hn2 : 2 ≤ xp.length
  · obtain ⟨j, hj, hj1, hj2⟩ := exists_closed_cell hi hn2 h1 h2
    rw [interp_eq_cases, if_neg (not_lt.mpr h2), if_neg (not_lt.mpr h1),
      interpCore_cell h0 hs _ hj (inCell_of_mem hj1 hj2),
      cellFormula_affine xp a s j hj x (ne_of_gt (hs.gap_pos h0 hj))]
  · match xp, hn with
    | [b], _ =>
      have : x = b := le_antisymm (by simpa using h2) (by simpa using h1)
      subst this
      simp only [List.map_cons, List.map_nil]
      rw [interp_one_node]
    | _ :: _ :: _, _ => simp at hn2

/-- `linear_interp_with_linear_extrap` is exact on affine data for every query -/
theorem linearExtrap_affine {xp : List K} (hi : Inc xp) (hn : 2 ≤ xp.length) (a s x : K) :
    linearExtrap xp (xp.map fun t => a + s * t) x = a + s * x := by
  obtain ⟨j, hj, hc⟩ := exists_cell hi hn x
  rw [linearExtrap_cell hi (by simp) hj hc,
    cellFormula_affine xp a s j hj x (ne_of_gt (sub_pos.mpr (hi.getD_lt (Nat.lt_succ_self j) hj)))]

/-- inside the node range it is the ordinary interpolant -/
theorem linearExtrap_inside {eps : K} {xp fp : List K} (h0 : 0 ≤ eps) (hs : Sep eps xp)
    (hl : xp.length = fp.length) (hn : 2 ≤ xp.length) (x : K)
    (h1 : xp[0] ≤ x) (h2 : x ≤ xp[xp.length - 1]) :
    linearExtrap xp fp x = interp eps xp fp x := by
  rw [← List.getD_eq_getElem xp 0 (by omega : 0 < xp.length)] at h1
  rw [← List.getD_eq_getElem xp 0 (by omega : xp.length - 1 < xp.length)] at h2
  rw [interp_eq_cases, if_neg (not_lt.mpr h2), if_neg (not_lt.mpr h1),
    linearExtrap_eq_cellValue xp fp x hl hn, interpCore_eq_cellValue h0 hs fp x hn]

/-- beyond the ends it continues the straight line of the first / last cell, without limit -/
theorem linearExtrap_outside {xp fp : List K} (hi : Inc xp) (hl : xp.length = fp.length)
    (hn : 2 ≤ xp.length) (x : K) :
    (x < xp[0] → linearExtrap xp fp x
        = fp[0]'(by omega) + (x - xp[0]) / (xp[1] - xp[0]) * (fp[1]'(by omega) - fp[0]'(by omega))) ∧
    (xp[xp.length - 1] < x → linearExtrap xp fp x
        = fp[fp.length - 1]'(by omega) + (x - xp[xp.length - 1])
            / (xp[xp.length - 1] - xp[xp.length - 2])
            * (fp[fp.length - 1]'(by omega) - fp[fp.length - 2]'(by omega))) := by
  rw [← List.getD_eq_getElem xp 0 (by omega : 0 < xp.length),
    ← List.getD_eq_getElem xp 0 (by omega : 1 < xp.length),
    ← List.getD_eq_getElem xp 0 (by omega : xp.length - 1 < xp.length),
    ← List.getD_eq_getElem xp 0 (by omega : xp.length - 2 < xp.length),
    ← List.getD_eq_getElem fp 0 (by omega : 0 < fp.length),
    ← List.getD_eq_getElem fp 0 (by omega : 1 < fp.length),
    ← List.getD_eq_getElem fp 0 (by omega : fp.length - 1 < fp.length),
    ← List.getD_eq_getElem fp 0 (by omega : fp.length - 2 < fp.length)]
  constructor
  · intro hx
    have hc : InCell xp 0 x :=
      ⟨Or.inl rfl, Or.inr (le_trans hx.le (hi.getD_le (Nat.zero_le _) (by omega)))⟩
    rw [linearExtrap_cell hi hl (by omega) hc]
    rfl
  · intro hx
    have e1 : xp.length - 2 + 1 = xp.length - 1 := by omega
    have hc : InCell xp (xp.length - 2) x :=
      ⟨Or.inr (le_trans (hi.getD_le (by omega) (by omega)) hx.le), Or.inl (by omega)⟩
    rw [linearExtrap_cell hi hl (by omega) hc]
    unfold cellFormula
    rw [e1, ← hl]
    have hne : xp.getD (xp.length - 1) 0 - xp.getD (xp.length - 2) 0 ≠ 0 :=
      ne_of_gt (sub_pos.mpr (hi.getD_lt (by omega) (by omega)))
    field_simp
    ring

/-! ## T17.4 safe extrapolation: linear within `k` end-cell widths, missing (NaN) beyond -/

/-- `_linear_interp_with_safe_extrap(n = k)` is the unlimited linear extrapolation when the query
 is within `k` first-cell widths below the first node and `k` last-cell widths above the last
 node, and is missing (`none` = NaN) otherwise -/
theorem safeInterp_eq {eps : K} {xp fp : List K} (h0 : 0 ≤ eps) (hs : Sep eps xp)
    (hl : xp.length = fp.length) (hn : 2 ≤ xp.length) (k : Nat) (x : K) :
    safeInterp eps k xp fp x
      = if xp[0] - k * (xp[1] - xp[0]) ≤ x ∧
          x ≤ xp[xp.length - 1] + k * (xp[xp.length - 1] - xp[xp.length - 2])
        then some (linearExtrap xp fp x) else none := by
  rw [← List.getD_eq_getElem xp 0 (by omega : 0 < xp.length),
    ← List.getD_eq_getElem xp 0 (by omega : 1 < xp.length),
    ← List.getD_eq_getElem xp 0 (by omega : xp.length - 1 < xp.length),
    ← List.getD_eq_getElem xp 0 (by omega : xp.length - 2 < xp.length)]
  exact safeInterp_eq_linearExtrap h0 hs hl hn k x

/-- inside the node range it is the ordinary interpolant, for every `k` -/
theorem safeInterp_inside {eps : K} {xp fp : List K} (h0 : 0 ≤ eps) (hs : Sep eps xp)
    (hl : xp.length = fp.length) (hn : 2 ≤ xp.length) (k : Nat) (x : K)
    (h1 : xp[0] ≤ x) (h2 : x ≤ xp[xp.length - 1]) :
    safeInterp eps k xp fp x = some (interp eps xp fp x) := by
  have hi := hs.inc h0
  have g1 : (0 : K) ≤ k * (xp[1] - xp[0]) := by
    have := hi.getD_lt (i := 0) (j := 1) (by omega) (by omega)
    rw [List.getD_eq_getElem _ _ (by omega), List.getD_eq_getElem _ _ (by omega)] at this
    exact mul_nonneg (Nat.cast_nonneg k) (sub_nonneg.mpr this.le)
  have g2 : (0 : K) ≤ k * (xp[xp.length - 1] - xp[xp.length - 2]) := by
    have := hi.getD_lt (i := xp.length - 2) (j := xp.length - 1) (by omega) (by omega)
    rw [List.getD_eq_getElem _ _ (by omega), List.getD_eq_getElem _ _ (by omega)] at this
    exact mul_nonneg (Nat.cast_nonneg k) (sub_nonneg.mpr this.le)
  rw [safeInterp_eq h0 hs hl hn, if_pos ⟨by linarith, by linarith⟩,
    linearExtrap_inside h0 hs hl hn x h1 h2]

/-- on affine data: exact within the `k`-cell limits, missing beyond -/
theorem safeInterp_affine {eps : K} {xp : List K} (h0 : 0 ≤ eps) (hs : Sep eps xp)
    (hn : 2 ≤ xp.length) (k : Nat) (a s x : K) :
    safeInterp eps k xp (xp.map fun t => a + s * t) x
      = if xp[0] - k * (xp[1] - xp[0]) ≤ x ∧
          x ≤ xp[xp.length - 1] + k * (xp[xp.length - 1] - xp[xp.length - 2])
        then some (a + s * x) else none := by
  rw [safeInterp_eq h0 hs (by simp) hn, linearExtrap_affine (hs.inc h0) hn]

/-! ## T17.5 pressure ↔ sigma ↔ hybrid regridding, surface pressure -/

/-- sigma → pressure (default `interpolate_fn`: safe extrapolation by one cell) of a column affine
 in sigma: exact at every pressure level whose sigma value `p / sp` is within one cell of the
 sigma range, missing at the others -/
theorem sigmaToPressure_affine {eps : K} {sigmaC : List K} (h0 : 0 ≤ eps) (hs : Sep eps sigmaC)
    (hn : 2 ≤ sigmaC.length) (pC : List K) (sp a s : K) :
    sigmaToPressure (safeInterp eps 1) sigmaC pC sp (sigmaC.map fun σ => a + s * σ)
      = pC.map fun p =>
          if sigmaC[0] - (sigmaC[1] - sigmaC[0]) ≤ p / sp ∧
              p / sp ≤ sigmaC[sigmaC.length - 1] + (sigmaC[sigmaC.length - 1] - sigmaC[sigmaC.length - 2])
          then some (a + s * (p / sp)) else none := by
  unfold sigmaToPressure
  apply List.map_congr_left
  intro p _
  rw [safeInterp_affine h0 hs hn 1]
  simp only [Nat.cast_one, one_mul]

/-- pressure → sigma of a column affine in pressure: exact at every sigma level whose pressure
 `σ · sp` is within one cell of the pressure range, missing at the others -/
theorem pressureToSigma_affine {eps : K} {pC : List K} (h0 : 0 ≤ eps) (hs : Sep eps pC)
    (hn : 2 ≤ pC.length) (sigmaC : List K) (sp a s : K) :
    pressureToSigma (safeInterp eps 1) pC sigmaC sp (pC.map fun p => a + s * p)
      = sigmaC.map fun σ =>
          if pC[0] - (pC[1] - pC[0]) ≤ σ * sp ∧
              σ * sp ≤ pC[pC.length - 1] + (pC[pC.length - 1] - pC[pC.length - 2])
          then some (a + s * (σ * sp)) else none := by
  unfold pressureToSigma
  apply List.map_congr_left
  intro σ _
  rw [safeInterp_affine h0 hs hn 1]
  simp only [Nat.cast_one, one_mul]

/-- sigma → pressure → sigma on a column affine in sigma: when every pressure level is within one
 cell of the sigma range (so nothing is missing on the pressure levels), the round trip returns the
 original value at every sigma level whose pressure is within one cell of the pressure range, and
 missing at the others -/
theorem sigma_pressure_roundtrip {eps : K} {sigmaC pC : List K} (h0 : 0 ≤ eps)
    (hsσ : Sep eps sigmaC) (hsp : Sep eps pC) (hnσ : 2 ≤ sigmaC.length) (hnp : 2 ≤ pC.length)
    (sp a s : K) (hsp0 : sp ≠ 0)
    (hin : ∀ p ∈ pC, sigmaC[0] - (sigmaC[1] - sigmaC[0]) ≤ p / sp ∧
      p / sp ≤ sigmaC[sigmaC.length - 1] + (sigmaC[sigmaC.length - 1] - sigmaC[sigmaC.length - 2])) :
    ∃ g : List K,
      sigmaToPressure (safeInterp eps 1) sigmaC pC sp (sigmaC.map fun σ => a + s * σ) = g.map some ∧
      pressureToSigma (safeInterp eps 1) pC sigmaC sp g
        = sigmaC.map fun σ =>
            if pC[0] - (pC[1] - pC[0]) ≤ σ * sp ∧
                σ * sp ≤ pC[pC.length - 1] + (pC[pC.length - 1] - pC[pC.length - 2])
            then some (a + s * σ) else none := by
  refine ⟨pC.map fun p => a + s / sp * p, ?_, ?_⟩
  · rw [sigmaToPressure_affine h0 hsσ hnσ, List.map_map]
    apply List.map_congr_left
    intro p hp
    rw [if_pos (hin p hp)]
    simp only [Function.comp]
    congr 1
    field_simp
  · rw [pressureToSigma_affine h0 hsp hnp]
    apply List.map_congr_left
    intro σ _
    have : a + s / sp * (σ * sp) = a + s * σ := by field_simp
    rw [this]

/-- hybrid → sigma of a field affine in the (surface-pressure dependent) sigma value of the hybrid
 level centres: exact within one cell of their range, missing beyond -/
theorem hybridToSigma_affine {eps : K} (h0 : 0 ≤ eps) (a b sigmaC : List K) (sp : K)
    (hs : Sep eps (hybridCenters a b sp)) (hn : 2 ≤ (hybridCenters a b sp).length) (α β : K) :
    hybridToSigma eps a b sigmaC sp ((hybridCenters a b sp).map fun c => α + β * c)
      = sigmaC.map fun σ =>
          if (hybridCenters a b sp)[0] - ((hybridCenters a b sp)[1] - (hybridCenters a b sp)[0]) ≤ σ ∧
              σ ≤ (hybridCenters a b sp)[(hybridCenters a b sp).length - 1]
                + ((hybridCenters a b sp)[(hybridCenters a b sp).length - 1]
                  - (hybridCenters a b sp)[(hybridCenters a b sp).length - 2])
          then some (α + β * σ) else none := by
  unfold hybridToSigma
  apply List.map_congr_left
  intro σ _
  rw [safeInterp_affine h0 hs hn 1]
  simp only [Nat.cast_one, one_mul]

/-- for strictly increasing nodes and strictly increasing data, interpolating with nodes and data
 exchanged inverts `linear_interp_with_linear_extrap`, for every query -/
theorem linearExtrap_inverse {xp fp : List K} (hx : Inc xp) (hf : Inc fp)
    (hl : xp.length = fp.length) (hn : 2 ≤ xp.length) (x : K) :
    linearExtrap fp xp (linearExtrap xp fp x) = x := by
  obtain ⟨j, hj, hc⟩ := exists_cell hx hn x
  rw [linearExtrap_cell hx hl hj hc]
  have hdx : 0 < xp.getD (j + 1) 0 - xp.getD j 0 := sub_pos.mpr (hx.getD_lt (Nat.lt_succ_self j) hj)
  have hdf : 0 < fp.getD (j + 1) 0 - fp.getD j 0 :=
    sub_pos.mpr (hf.getD_lt (Nat.lt_succ_self j) (by omega))
  have hc' : InCell fp j (cellFormula xp fp j x) := by
    constructor
    · rcases hc.1 with h | h
      · exact Or.inl h
      · right
        unfold cellFormula
        have : 0 ≤ (x - xp.getD j 0) / (xp.getD (j + 1) 0 - xp.getD j 0)
            * (fp.getD (j + 1) 0 - fp.getD j 0) :=
          mul_nonneg (div_nonneg (sub_nonneg.mpr h) hdx.le) hdf.le
        linarith
    · rcases hc.2 with h | h
      · exact Or.inl (by omega)
      · right
        unfold cellFormula
        have ht : (x - xp.getD j 0) / (xp.getD (j + 1) 0 - xp.getD j 0) ≤ 1 :=
          (div_le_one hdx).mpr (by linarith)
        have := mul_le_mul_of_nonneg_right ht hdf.le
        linarith
  rw [linearExtrap_cell hf hl.symm (by omega) hc']
  unfold cellFormula
  field_simp
  ring

/-- `get_surface_pressure` returns the pressure at which the relative height
 `orography · g − geopotential`, interpolated (and linearly extrapolated) in pressure, vanishes:
 the level where the geopotential meets the orography.  Needs the relative height to increase with
 the level (geopotential decreasing towards the surface), as the implementation documents. -/
theorem surfacePressure_root {levels geo : List K} (oro g : K) (hlev : Inc levels)
    (hrh : Inc (geo.map fun z => oro * g - z)) (hl : levels.length = geo.length)
    (hn : 2 ≤ levels.length) :
    linearExtrap levels (geo.map fun z => oro * g - z) (surfacePressure levels geo oro g) = 0 := by
  unfold surfacePressure
  exact linearExtrap_inverse hrh hlev (by simp [hl]) (by simp; omega) 0

/-- `PressureCoordinates.__init__` accepts exactly the strictly increasing level sets -/
theorem increasing_iff (c : List K) : increasing c = true ↔ Inc c := by
  unfold Inc
  rw [← List.isChain_iff_pairwise]
  induction c with
  | nil => simp [increasing]
  | cons a t ih =>
    cases t with
    | nil => simp [increasing]
    | cons b t' =>
      simp only [increasing, Bool.and_eq_true, decide_eq_true_eq, List.isChain_cons_cons, ih, sub_pos]

/-! ## T17.6 horizontal regridders -/

theorem map_eq_replicate {α β : Type} (l : List α) (f : α → β) (c : β) (h : ∀ a ∈ l, f a = c) :
    l.map f = List.replicate l.length c := by
  rw [List.eq_replicate_iff]
  refine ⟨by simp, ?_⟩
  intro b hb
  obtain ⟨a, ha, rfl⟩ := List.mem_map.mp hb
  exact h a ha

/-- bilinear regridding reproduces constants (the weights of every target point sum to one) -/
theorem bilinear_const (eps : K) (lonS latS lonT latT : List K) (c : K)
    (h1 : 1 ≤ lonS.length) (h2 : 1 ≤ latS.length) :
    bilinear eps lonS latS lonT latT (List.replicate lonS.length (List.replicate latS.length c))
      = List.replicate lonT.length (List.replicate latT.length c) := by
  unfold bilinear
  have e1 : (List.replicate lonS.length (List.replicate latS.length c)).map
        (fun row => latT.map (interp eps latS row))
      = List.replicate lonS.length (List.replicate latT.length c) := by
    rw [List.map_replicate]
    congr 1
    exact map_eq_replicate latT _ c (fun y _ => interp_const eps latS c y h2)
  simp only [e1]
  apply map_eq_replicate
  intro lo _
  have := map_eq_replicate (List.range latT.length)
    (fun j => interp eps lonS
      ((List.replicate lonS.length (List.replicate latT.length c)).map fun row => row.getD j 0) lo) c
    (by
      intro j hj
      have hj' : j < latT.length := List.mem_range.mp hj
      simp only [List.map_replicate, List.getD_replicate _ hj']
      exact interp_const eps lonS c lo h1)
  rw [List.length_range] at this
  exact this

/-- bilinear regridding between equal grids is the identity -/
theorem bilinear_id {eps : K} {lon lat : List K} (h0 : 0 ≤ eps) (hlon : Sep eps lon)
    (hlat : Sep eps lat) (field : List (List K)) (h1 : field.length = lon.length)
    (h2 : ∀ row ∈ field, row.length = lat.length) :
    bilinear eps lon lat lon lat field = field := by
  unfold bilinear
  have e1 : field.map (fun row => lat.map (interp eps lat row)) = field := by
    conv_rhs => rw [← List.map_id field]
    apply List.map_congr_left
    intro row hrow
    exact interp_map_nodes_aux
      (fun j hj _ => interp_node h0 hlat (h2 row hrow).symm j hj) (h2 row hrow).symm
  simp only [e1]
  apply List.ext_getElem
  · simp [h1]
  · intro i hi1 hi2
    rw [List.getElem_map]
    have hrow : (field[i]).length = lat.length := h2 _ (List.getElem_mem hi2)
    apply List.ext_getElem
    · simp [hrow]
    · intro j hj1 hj2
      rw [List.getElem_map, List.getElem_range]
      have hil : i < lon.length := by simpa using hi1
      have hcl : lon.length = (field.map fun row => row.getD j 0).length := by simp [h1]
      rw [interp_node h0 hlon hcl i hil, List.getElem_map, List.getD_eq_getElem _ _ hj2]

/-- `argminFirst` returns a valid index of a minimal entry, and every earlier entry is strictly
 larger (`np.argmin`) -/
theorem argmin_first_min (l : List K) (hl : l ≠ []) :
    ∃ h : argminFirst l < l.length,
      (∀ j (hj : j < l.length), l[argminFirst l] ≤ l[j]) ∧
      (∀ j (hj : j < argminFirst l), l[argminFirst l] < l[j]'(by omega)) := by
  obtain ⟨m, hm, hmin, hfirst⟩ := argminFirst_spec l hl
  obtain ⟨h, rfl⟩ := List.getElem?_eq_some_iff.mp hm
  refine ⟨h, fun j hj => hmin j _ (List.getElem?_eq_getElem hj), fun j hj => ?_⟩
  exact hfirst j _ hj (List.getElem?_eq_getElem (by omega))

/-- nearest-neighbour indices from a grid to itself are the identity, whenever every node is
 strictly closer to itself than to any other node (true for the haversine distance on grids
 without repeated points; false at the poles of `equiangular_with_poles`, where all longitudes
 coincide — the harness excludes those) -/
theorem nearest_self {P : Type} (d : P → P → K) (src : List P)
    (hd : ∀ i j (hi : i < src.length) (hj : j < src.length), i ≠ j →
      d src[i] src[i] < d src[i] src[j]) :
    nearest d src src = List.range src.length := by
  unfold nearest
  apply List.ext_getElem
  · simp
  · intro i hi1 hi2
    have hi : i < src.length := by simpa using hi1
    rw [List.getElem_map, List.getElem_range]
    have hne : src.map (d src[i]) ≠ [] := by
      intro h
      rw [List.map_eq_nil_iff] at h
      rw [h] at hi
      simp at hi
    obtain ⟨hr, hmin, _⟩ := argmin_first_min (src.map (d src[i])) hne
    by_contra hne'
    have hr' : argminFirst (src.map (d src[i])) < src.length := by simpa using hr
    have h1 := hmin i (by simpa using hi)
    simp only [List.getElem_map] at h1
    have h2 := hd i _ hi hr' (fun h => hne' h.symm)
    exact absurd h1 (not_le.mpr h2)

/-- the hypothesis of `nearest_self` for the haversine distance over ℝ: a point with latitude strictly
 between the poles is strictly closer to itself than to any other such point whose longitude differs
 by less than a full turn -/
theorem haversine_self_lt {lat1 lon1 lat2 lon2 : ℝ}
    (h1 : -(Real.pi / 2) < lat1 ∧ lat1 < Real.pi / 2) (h2 : -(Real.pi / 2) < lat2 ∧ lat2 < Real.pi / 2)
    (hlon : |lon2 - lon1| < 2 * Real.pi) (hne : lat1 ≠ lat2 ∨ lon1 ≠ lon2) :
    haversine Real.sin Real.cos lat1 lon1 lat1 lon1 < haversine Real.sin Real.cos lat1 lon1 lat2 lon2 := by
  have hpi := Real.pi_pos
  have hc1 : 0 < Real.cos lat1 := Real.cos_pos_of_mem_Ioo ⟨h1.1, h1.2⟩
  have hc2 : 0 < Real.cos lat2 := Real.cos_pos_of_mem_Ioo ⟨h2.1, h2.2⟩
  have hl := abs_lt.mp hlon
  have hself : haversine Real.sin Real.cos lat1 lon1 lat1 lon1 = 0 := by simp [haversine]
  rw [hself]
  unfold haversine
  simp only [one_add_one_eq_two]
  have q1 : 0 ≤ Real.sin ((lat2 - lat1) / 2) * Real.sin ((lat2 - lat1) / 2) := mul_self_nonneg _
  have q2 : 0 ≤ Real.sin ((lon2 - lon1) / 2) * Real.sin ((lon2 - lon1) / 2) := mul_self_nonneg _
  have hcc : 0 < Real.cos lat1 * Real.cos lat2 := mul_pos hc1 hc2
  rcases hne with hne | hne
  · have hs : Real.sin ((lat2 - lat1) / 2) ≠ 0 := by
      intro h0
      have := (Real.sin_eq_zero_iff_of_lt_of_lt (by linarith [h1.1, h1.2, h2.1, h2.2])
        (by linarith [h1.1, h1.2, h2.1, h2.2])).mp h0
      exact hne (by linarith)
    have : 0 < Real.sin ((lat2 - lat1) / 2) * Real.sin ((lat2 - lat1) / 2) :=
      lt_of_le_of_ne q1 (Ne.symm (mul_self_ne_zero.mpr hs))
    have := mul_nonneg hcc.le q2
    linarith
  · have hs : Real.sin ((lon2 - lon1) / 2) ≠ 0 := by
      intro h0
      have := (Real.sin_eq_zero_iff_of_lt_of_lt (by linarith [hl.1]) (by linarith [hl.2])).mp h0
      exact hne (by linarith)
    have : 0 < Real.sin ((lon2 - lon1) / 2) * Real.sin ((lon2 - lon1) / 2) :=
      lt_of_le_of_ne q2 (Ne.symm (mul_self_ne_zero.mpr hs))
    have := mul_pos hcc this
    linarith

/-- nearest-neighbour indices (haversine distance, `sin`/`cos` of ℝ) from a grid to itself are the
 identity for every grid without repeated points, with latitudes strictly between the poles and
 longitudes within one turn (Gaussian and equiangular grids without pole nodes) -/
theorem nearest_self_haversine (pts : List (ℝ × ℝ)) (hnd : pts.Nodup)
    (hlat : ∀ p ∈ pts, -(Real.pi / 2) < p.1 ∧ p.1 < Real.pi / 2)
    (hlon : ∀ p ∈ pts, ∀ q ∈ pts, |q.2 - p.2| < 2 * Real.pi) :
    nearest (fun t s : ℝ × ℝ => haversine Real.sin Real.cos t.1 t.2 s.1 s.2) pts pts
      = List.range pts.length := by
  apply nearest_self
  intro i j hi hj hij
  have hpi := List.getElem_mem hi
  have hpj := List.getElem_mem hj
  apply haversine_self_lt (hlat _ hpi) (hlat _ hpj) (hlon _ hpi _ hpj)
  by_contra hcon
  have hcon' := not_or.mp hcon
  have : pts[i] = pts[j] := Prod.ext (not_not.mp hcon'.1) (not_not.mp hcon'.2)
  exact hij ((List.Nodup.getElem_inj_iff hnd).mp this)

/-! ## non-vacuity: the hypotheses hold on concrete uneven node sets, and cannot be dropped -/

/-- the guard of `jnp.interp` in float64 -/
def exEps : ℚ := 1 / 20282409603651670423947251286016

theorem exEps_eq : exEps = 1 / 2 ^ 104 := by norm_num [exEps]

theorem exEps_nonneg : (0 : ℚ) ≤ exEps := by norm_num [exEps]

/-- an uneven three-node set satisfies the separation hypothesis -/
theorem exSep : Sep exEps [0, 1, 3] := by
  intro j hj
  have : j = 0 ∨ j = 1 := by simp at hj; omega
  rcases this with rfl | rfl <;> norm_num [exEps]

example : Inc ([0, 1, 3] : List ℚ) := exSep.inc exEps_nonneg

-- the theorems instantiated (node value, agreement of the two paths, reference interpolant)
example : interp exEps [0, 1, 3] [5, 7, 4] 1 = 7 :=
  interp_node (fp := [5, 7, 4]) exEps_nonneg exSep rfl 1 (by simp)
example (x : ℚ) : dotInterp [0, 1, 3] [5, 7, 4] x = interp exEps [0, 1, 3] [5, 7, 4] x :=
  dotInterp_eq_interp (fp := [5, 7, 4]) exEps_nonneg exSep rfl (by simp) x
example (x : ℚ) : dotInterpOld [0, 1, 3] [5, 7, 4] x = dotInterp [0, 1, 3] [5, 7, 4] x :=
  dotInterpOld_eq_dotInterp (fp := [5, 7, 4]) (exSep.inc exEps_nonneg) rfl (by simp) x
-- one node: the hypotheses of `dotInterp_eq_interp` hold (`Sep` is vacuous) and the paths agree
example (x : ℚ) : dotInterp [2] [7] x = interp exEps [2] [7] x :=
  dotInterp_eq_interp (xp := [2]) (fp := [7]) exEps_nonneg (by intro j hj; simp at hj) rfl (by simp) x
example (x : ℚ) : interp exEps [0, 1, 3] [5, 7, 4] x = pwlRef [0, 1, 3] [5, 7, 4] x :=
  interp_eq_pwlRef (fp := [5, 7, 4]) exEps_nonneg exSep rfl (by simp) x
example (x : ℚ) : linearExtrap ([0, 1, 3] : List ℚ) ([0, 1, 3].map fun t => 2 + 5 * t) x = 2 + 5 * x :=
  linearExtrap_affine (exSep.inc exEps_nonneg) (by simp) 2 5 x

-- the model evaluated (kernel computation over ℚ): inside, tie, outside, both branches of the
-- safe extrapolation, the last cell of the linear extrapolation
example : interp exEps [0, 1, 3] [5, 7, 4] 2 = 11 / 2 := by decide +kernel
example : dotInterp ([0, 1, 3] : List ℚ) [5, 7, 4] 3 = 4 ∧ dotInterp [0, 1, 3] [5, 7, 4] 10 = 4 ∧
    dotInterp [0, 1, 3] [5, 7, 4] (-1) = 5 := by decide +kernel
example : linearExtrap ([0, 1, 3] : List ℚ) [5, 7, 4] 5 = 1 ∧ linearExtrap [0, 1, 3] [5, 7, 4] (-1) = 3 := by
  decide +kernel
example : safeInterp exEps 1 [0, 1, 3] [5, 7, 4] (-1 / 2) = some 4 ∧
    safeInterp exEps 1 [0, 1, 3] [5, 7, 4] (-3 / 2) = none ∧
    safeInterp exEps 2 [0, 1, 3] [5, 7, 4] (-3 / 2) = some 2 ∧
    safeInterp exEps 1 [0, 1, 3] [5, 7, 4] 5 = some 1 ∧
    safeInterp exEps 1 [0, 1, 3] [5, 7, 4] (11 / 2) = none := by decide +kernel

/-- the separation hypothesis cannot be dropped: with two nodes closer than the guard the
 `jnp.interp` path returns the left node value while `_dot_interp` interpolates (replayed on the
 implementation by the harness: `0.0` and `0.5`) -/
example : interp exEps [0, 1 / 40564819207303340847894502572032, 1] [0, 1, 2]
      (1 / 81129638414606681695789005144064) = 0 ∧
    dotInterp ([0, 1 / 40564819207303340847894502572032, 1] : List ℚ) [0, 1, 2]
      (1 / 81129638414606681695789005144064) = 1 / 2 := by decide +kernel
example : (40564819207303340847894502572032 : ℚ) = 2 ^ 105 ∧
    (81129638414606681695789005144064 : ℚ) = 2 ^ 106 := by norm_num

/-- the one-node corner on concrete numbers: at, below and above the node both paths return the node
 value (replayed on the implementation); the pre-repair `_dot_interp` returns `0` at the node
 (replayed on the model only), as does `linear_interp_with_linear_extrap` everywhere -/
example : interp exEps [2] [7] 2 = 7 ∧ dotInterp ([2] : List ℚ) [7] 2 = 7 ∧
    dotInterp ([2] : List ℚ) [7] 1 = 7 ∧ dotInterp ([2] : List ℚ) [7] 3 = 7 ∧
    dotInterpOld ([2] : List ℚ) [7] 2 = 0 ∧ dotInterpOld ([2] : List ℚ) [7] 1 = 7 ∧
    dotInterpOld ([2] : List ℚ) [7] 3 = 7 ∧ linearExtrap ([2] : List ℚ) [7] 2 = 0 := by
  decide +kernel

-- surface pressure: levels 500/850/1000, geopotential 55000/14000/1000, orography·g = 5000
example : surfacePressure ([500, 850, 1000] : List ℚ) [55000, 14000, 1000] 500 10 = 12400 / 13 := by
  decide +kernel
example : linearExtrap ([500, 850, 1000] : List ℚ) ([55000, 14000, 1000].map fun z => 500 * 10 - z)
    (surfacePressure [500, 850, 1000] [55000, 14000, 1000] 500 10) = 0 :=
  surfacePressure_root 500 10 ((increasing_iff _).mp (by decide +kernel))
    ((increasing_iff _).mp (by decide +kernel)) rfl (by simp)

-- sigma → pressure → sigma on an affine column (three uneven sigma centres, two levels, sp = 1000)
example : ∃ g : List ℚ,
    sigmaToPressure (safeInterp exEps 1) [1 / 10, 1 / 2, 9 / 10] [600, 800] 1000
        ([1 / 10, 1 / 2, 9 / 10].map fun σ => 2 + 5 * σ) = g.map some ∧
    pressureToSigma (safeInterp exEps 1) [600, 800] [1 / 10, 1 / 2, 9 / 10] 1000 g
      = [none, some (2 + 5 * (1 / 2)), some (2 + 5 * (9 / 10))] :=
  ⟨[5, 6], by decide +kernel, by decide +kernel⟩

theorem exSepSigma : Sep exEps [1 / 10, 1 / 2, 9 / 10] := by
  intro j hj
  have : j = 0 ∨ j = 1 := by simp at hj; omega
  rcases this with rfl | rfl <;> norm_num [exEps]

theorem exSepP : Sep exEps [600, 800] := by
  intro j hj
  have : j = 0 := by simp at hj; omega
  subst this; norm_num [exEps]

-- the hypotheses of the round-trip theorem hold on this configuration
example := sigma_pressure_roundtrip exEps_nonneg exSepSigma exSepP (by simp) (by simp) 1000 2 5
  (by norm_num) (by intro p hp; simp at hp; rcases hp with rfl | rfl <;> norm_num)

-- hybrid → sigma (non-vacuity of `hybridToSigma_affine`): four hybrid boundaries `a/sp + b` with a genuinely
-- surface-pressure dependent part (`a ≠ 0`), three uneven centres, `sp = 1000`
theorem exHybridCenters :
    hybridCenters ([0, 100, 50, 0] : List ℚ) [0, 1 / 10, 1 / 2, 1] 1000 = [1 / 10, 3 / 8, 31 / 40] := by
  decide +kernel

theorem exSepHybrid : Sep exEps (hybridCenters ([0, 100, 50, 0] : List ℚ) [0, 1 / 10, 1 / 2, 1] 1000) := by
  rw [exHybridCenters]
  intro j hj
  have : j = 0 ∨ j = 1 := by simp at hj; omega
  rcases this with rfl | rfl <;> norm_num [exEps]

-- the hypotheses of `hybridToSigma_affine` hold on this configuration (any target sigma levels, any affine field)
example (sigmaC : List ℚ) (α β : ℚ) :=
  hybridToSigma_affine exEps_nonneg [0, 100, 50, 0] [0, 1 / 10, 1 / 2, 1] sigmaC 1000 exSepHybrid
    (by rw [exHybridCenters]; simp) α β

-- and the model evaluated on it: targets beyond one cell below (−1/5 < 1/10 − 11/40), inside, at a node,
-- within one cell above (1 ≤ 31/40 + 2/5), beyond one cell above
example : hybridToSigma exEps [0, 100, 50, 0] [0, 1 / 10, 1 / 2, 1] [-1 / 5, 0, 3 / 8, 1 / 2, 1, 6 / 5] 1000
      ((hybridCenters ([0, 100, 50, 0] : List ℚ) [0, 1 / 10, 1 / 2, 1] 1000).map fun c => 2 + 5 * c)
    = [none, some 2, some (2 + 5 * (3 / 8)), some (2 + 5 * (1 / 2)), some 7, none] := by decide +kernel

-- horizontal: first minimum with a tie, nearest neighbour of a grid to itself, bilinear identity
example : argminFirst ([3, 1, 2, 1] : List ℚ) = 1 := by decide +kernel
example : nearest (fun p q : ℚ => (p - q) * (p - q)) [0, 1, 3] [0, 1, 3] = [0, 1, 2] := by
  decide +kernel
example : bilinear exEps [0, 1, 3] [0, 2] [0, 1, 3] [0, 2] [[1, 2], [3, 4], [5, 6]]
    = [[1, 2], [3, 4], [5, 6]] := by decide +kernel
example : bilinear exEps [0, 1, 3] [0, 2] [1 / 2, 2] [1] [[1, 2], [3, 4], [5, 6]]
    = [[5 / 2], [9 / 2]] := by decide +kernel

end Dino.C17
