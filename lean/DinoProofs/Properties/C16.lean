import DinoProofs.Lemmas.Regrid
import DinoProofs.Lemmas.RegridCyclic
import Dino.RegridDrv
import Mathlib.Data.Rat.Floor
import Mathlib.Data.List.Range
import Mathlib.Order.Monotone.Defs
import Mathlib.Order.Interval.Set.Defs
import Mathlib.Analysis.SpecialFunctions.Trigonometric.Basic
import Mathlib.Tactic.NormNum

/-!
# C16 — conservative regridding preserves constants, bounds and integrals

All statements are about the executable model `Dino.Regrid` (tied to
`dinosaur/horizontal_interpolation.py` and the conservative part of
`dinosaur/vertical_interpolation.py` by the correspondence check of `harness/props/C16.py`), for
an arbitrary linearly ordered field `K`, coordinate vectors of any length and fields of any size.
`sin` enters as an arbitrary function `g`, (strictly) monotone on `[-hp, hp]`
(`latWeights_conservative_sin` instantiates `g = Real.sin`, `hp = π / 2`); Python's `%` enters as
`md`: the identity on `[0, P)` in `lonWeights_conservative_of_points`, the reduction into `[0, P)`
by an integer number of periods in the statements about offset grids
(`lonWeights_conservative_of_offset_points`; `pyModRat_reduces` shows that the exact `%` of the
driver is such a function).

Statements that hold by unfolding a definition (they mirror the code and carry no content beyond
the correspondence check; not to be counted as proved properties): the first conjunct of
`verticalWeights_rows` and of `lonWeights_rows` (the normalisation `weights /= sum`), and
`noskip_nan_iff` (the `jnp.where(jnp.isclose(...))` decision rule).

Hypotheses that the code does not check and that the claim must name:
* latitude: the points lie inside `[-hp, hp]` = `[-π/2, π/2]` (`hbs`, `hbt`; `sin` is only
  monotone there);
* longitude: the cell-width condition on the *largest circular gaps*, `gs + gt ≤ P/2` (outside it
  the code *need not be* conservative: `stated_precondition_insufficient`, known finding
  `lon-conservation-wide-cells`; some pairs outside the domain are conserved all the same); for
  equispaced grids this is `1/n_s + 1/n_t ≤ 1/2` (`lonWeights_conservative_equispaced`); and `hmd`:
  `%` reduces into `[0, P)` by an integer number of periods.  `hmd` is proved for the exact `%`
  (`pyModRat_reduces`); the floating-point `%` can return `P` itself (`-1e-20 % (2π) == 2π`), so
  for floats `hmd` is a hypothesis about the arithmetic, outside the theorems;
* vertical (`vertical_conservation`, `regridHybridToSigma_conservation`): the thickness-weighted
  sum is conserved *over the covered range only* (weights `covered`), for every output that agrees
  with `weights @ x` on the rows with non-zero overlap (`AgreesWhereCovered`; the other rows are
  `0/0` in the code), and both bound vectors must be sorted: the hybrid boundaries `a / sp + b`
  (`hs`) — true of `a`, `b` sets whose pressure increases with the index at that surface pressure —
  and the σ boundaries (`ht`).  For unsorted hybrid boundaries nothing is claimed;
* the two-dimensional statements `horizontal_conservation`, `regridWith_no_nan`,
  `regridWith_conservation` are conditional: on weight matrices that conserve the two
  one-dimensional sums and on a field without NaN whose shape fits the rows.  The statement from
  the coordinate vectors alone, about the entry point `regrid`, is `regrid_conservation`
  (`regrid_constant` for constants): there the only length hypotheses are about the caller's field
  (`latWeights_shape`, `lonWeights_shape` give the row lengths);
* `skipna_nan_iff` needs non-negative weights, `value_is_weighted_mean` needs `atol + rtol < 1`.

Totalised division never makes a statement true: every normalisation is accompanied by the
hypothesis (or the proof) that the row sum is not zero, and the vertical statements quantify over
every output that agrees with the model on the covered layers only.
-/

set_option linter.unusedSectionVars false
set_option linter.unusedSimpArgs false
set_option linter.unusedVariables false
set_option linter.unusedTactic false
set_option linter.unreachableTactic false

namespace Dino.C16
open Dino.Regrid

variable {K : Type} [Field K] [LinearOrder K] [IsStrictOrderedRing K]

/-! ## T16.1 two partitions of the same interval, any monotone `g` -/

/-- overlaps are non-negative when `g` is monotone on an interval containing all bounds -/
theorem latOverlap_nonneg (g : K → K) (lo hi : K) (hg : MonotoneOn g (Set.Icc lo hi))
    (sb tb : List K) (ht : ∀ v ∈ tb, lo ≤ v ∧ v ≤ hi) :
    ∀ row ∈ boundsOverlap g sb tb, ∀ w ∈ row, 0 ≤ w := by
  intro row hrow w hw
  simp only [boundsOverlap, kmat, List.mem_map] at hrow
  obtain ⟨t, htm, rfl⟩ := hrow
  obtain ⟨s, hsm, rfl⟩ := List.mem_map.mp hw
  have ht1 := ht _ (mem_of_mem_cells htm).1
  have ht2 := ht _ (mem_of_mem_cells htm).2
  apply latOv_nonneg
  intro u v h1 h2 h3
  have hu1 : lo ≤ u := le_trans ht1.1 (le_trans (le_max_left _ _) h1)
  have hv2 : v ≤ hi := le_trans h3 (le_trans (min_le_left _ _) ht2.2)
  exact hg ⟨hu1, le_trans h2 hv2⟩ ⟨le_trans hu1 h2, hv2⟩ h2

/-- `Σ_s overlap(t, s) = g(t_hi) − g(t_lo)`: the rows of the overlap matrix sum to the sizes of
 the target cells, for sorted bounds when the source bounds cover the target bounds -/
theorem latOverlap_row_sum (g : K → K) (s0 : K) (sr tb : List K)
    (hs : (s0 :: sr).Pairwise (· ≤ ·)) (ht : tb.Pairwise (· ≤ ·))
    (hc : ∀ v ∈ tb, s0 ≤ v ∧ v ≤ sr.getLastD s0) :
    (boundsOverlap g (s0 :: sr) tb).map List.sum = (cells tb).map fun t => g t.2 - g t.1 := by
  simp only [boundsOverlap, kmat, List.map_map]
  apply List.map_congr_left
  intro t htm
  obtain ⟨h1, h2⟩ := mem_of_mem_cells htm
  exact sum_latOv_cells_cover g (a := t.1) (b := t.2) (rel_of_mem_cells ht htm) s0 sr hs
    (hc _ h1).1 (hc _ h2).2

/-- `Σ_t overlap(t, s) = g(s_hi) − g(s_lo)`: the columns sum to the sizes of the source cells -/
theorem latOverlap_col_sum (g : K → K) (t0 : K) (tr sb : List K)
    (ht : (t0 :: tr).Pairwise (· ≤ ·)) (hs : sb.Pairwise (· ≤ ·))
    (hc : ∀ v ∈ sb, t0 ≤ v ∧ v ≤ tr.getLastD t0) :
    ∀ s ∈ cells sb, ((cells (t0 :: tr)).map fun t => latOv g t s).sum = g s.2 - g s.1 := by
  intro s hsm
  obtain ⟨h1, h2⟩ := mem_of_mem_cells hsm
  have e : ((cells (t0 :: tr)).map fun t => latOv g t s)
      = (cells (t0 :: tr)).map (latOv g (s.1, s.2)) := by
    apply List.map_congr_left; intro t _; exact latOv_comm g t s
  rw [e]
  exact sum_latOv_cells_cover g (rel_of_mem_cells hs hsm) t0 tr ht (hc _ h1).1 (hc _ h2).2

/-- `Σ_t size_t · out_t = Σ_s size_s · in_s` for two sorted partitions of the same interval whose
 target cells have non-zero size; sizes are `g(hi) − g(lo)` -/
theorem lat_conservation (g : K → K) (s0 t0 : K) (sr tr : List K)
    (hs : (s0 :: sr).Pairwise (· ≤ ·)) (ht : (t0 :: tr).Pairwise (· ≤ ·))
    (h0 : s0 = t0) (h1 : sr.getLastD s0 = tr.getLastD t0)
    (hne : ∀ t ∈ cells (t0 :: tr), g t.2 - g t.1 ≠ 0) (x : List K) :
    dot (diffs ((t0 :: tr).map g)) (matvec (normRows (boundsOverlap g (s0 :: sr) (t0 :: tr))) x)
      = dot (diffs ((s0 :: sr).map g)) x := by
  rw [← map_cells_eq_diffs, ← map_cells_eq_diffs]
  have hminT : ∀ v ∈ t0 :: tr, t0 ≤ v := by
    intro v hv
    rcases List.mem_cons.mp hv with rfl | hv'
    · exact le_refl _
    · exact (List.pairwise_cons.mp ht).1 v hv'
  have hminS : ∀ v ∈ s0 :: sr, s0 ≤ v := by
    intro v hv
    rcases List.mem_cons.mp hv with rfl | hv'
    · exact le_refl _
    · exact (List.pairwise_cons.mp hs).1 v hv'
  have hrow := latOverlap_row_sum g s0 sr (t0 :: tr) hs ht (fun v hv =>
    ⟨by rw [h0]; exact hminT v hv, by rw [h1]; exact le_getLastD_of_pairwise t0 tr ht v hv⟩)
  have hcol := latOverlap_col_sum g t0 tr (s0 :: sr) ht hs (fun v hv =>
    ⟨by rw [← h0]; exact hminS v hv, by rw [← h1]; exact le_getLastD_of_pairwise s0 sr hs v hv⟩)
  apply kernel_conservation (latOv g) (cells (t0 :: tr)) (cells (s0 :: sr))
    (fun t => g t.2 - g t.1) (fun s => g s.2 - g s.1) x _ hne hcol
  intro t htm
  simp only [boundsOverlap, kmat, List.map_map] at hrow
  have := List.map_inj_left.mp hrow t htm
  simpa using this

/-! ### the latitude weights of the code -/

/-- the target cell sizes the code divides by are not zero (they are positive) -/
theorem sizes_ne_zero (g : K → K) {hp : K} (hhp : 0 < hp)
    (hg : StrictMonoOn g (Set.Icc (-hp) hp)) {pts : List K} (hinc : pts.Pairwise (· < ·))
    (hb : ∀ v ∈ pts, -hp ≤ v ∧ v ≤ hp) :
    ∀ t ∈ cells (latBounds hp pts), 0 < g t.2 - g t.1 := by
  intro t htm
  have hlt : t.1 < t.2 := rel_of_mem_cells (latBounds_pairwise hhp hinc hb) htm
  obtain ⟨m1, m2⟩ := mem_of_mem_cells htm
  have b1 := latBounds_mem hhp hinc hb _ m1
  have b2 := latBounds_mem hhp hinc hb _ m2
  exact sub_pos.mpr (hg ⟨b1.1, b1.2⟩ ⟨b2.1, b2.2⟩ hlt)

/-- row sums of `_latitude_overlap` for admissible points -/
theorem latOverlap_rows (g : K → K) {hp : K} (hhp : 0 < hp) {src tgt : List K}
    (hs : src.Pairwise (· < ·)) (ht : tgt.Pairwise (· < ·))
    (hbs : ∀ v ∈ src, -hp ≤ v ∧ v ≤ hp) (hbt : ∀ v ∈ tgt, -hp ≤ v ∧ v ≤ hp) :
    (latOverlap g hp src tgt).map List.sum
      = (cells (latBounds hp tgt)).map fun t => g t.2 - g t.1 := by
  unfold latOverlap
  have hS := pairwise_le_of_lt (latBounds_pairwise hhp hs hbs)
  have hT := pairwise_le_of_lt (latBounds_pairwise hhp ht hbt)
  have hm := latBounds_mem hhp ht hbt
  unfold latBounds at hS ⊢
  apply latOverlap_row_sum g (-hp) (mids src ++ [hp]) _ hS hT
  intro v hv
  rw [latBounds_getLastD]
  exact hm v hv

/-- rows of `conservative_latitude_weights` sum to one -/
theorem latWeights_rows_sum_one (g : K → K) {hp : K} (hhp : 0 < hp)
    (hg : StrictMonoOn g (Set.Icc (-hp) hp)) {src tgt : List K} {W : List (List K)}
    (hW : latWeights g hp src tgt = some W)
    (hbs : ∀ v ∈ src, -hp ≤ v ∧ v ≤ hp) (hbt : ∀ v ∈ tgt, -hp ≤ v ∧ v ≤ hp) :
    ∀ row ∈ W, row.sum = 1 := by
  unfold latWeights at hW
  split_ifs at hW with hinc
  rw [Bool.and_eq_true, increasing_iff, increasing_iff] at hinc
  obtain ⟨hs, ht⟩ := hinc
  cases hW
  intro row hrow
  simp only [normRows, List.mem_map] at hrow
  obtain ⟨r, hr, rfl⟩ := hrow
  apply sum_map_div_self
  have hrows := latOverlap_rows g hhp hs ht hbs hbt
  have hsz := sizes_ne_zero g hhp hg ht hbt
  -- the sum of `r` is one of the target sizes
  have : r.sum ∈ (latOverlap g hp src tgt).map List.sum := List.mem_map.mpr ⟨r, hr, rfl⟩
  rw [hrows] at this
  obtain ⟨t, htm, e⟩ := List.mem_map.mp this
  rw [← e]
  exact (hsz t htm).ne'

/-- entries of `conservative_latitude_weights` are non-negative -/
theorem latWeights_nonneg (g : K → K) {hp : K} (hhp : 0 < hp)
    (hg : StrictMonoOn g (Set.Icc (-hp) hp)) {src tgt : List K} {W : List (List K)}
    (hW : latWeights g hp src tgt = some W)
    (hbs : ∀ v ∈ src, -hp ≤ v ∧ v ≤ hp) (hbt : ∀ v ∈ tgt, -hp ≤ v ∧ v ≤ hp) :
    ∀ row ∈ W, ∀ w ∈ row, 0 ≤ w := by
  unfold latWeights at hW
  split_ifs at hW with hinc
  rw [Bool.and_eq_true, increasing_iff, increasing_iff] at hinc
  obtain ⟨hs, ht⟩ := hinc
  cases hW
  intro row hrow w hw
  simp only [normRows, List.mem_map] at hrow
  obtain ⟨r, hr, rfl⟩ := hrow
  obtain ⟨a, ha, rfl⟩ := List.mem_map.mp hw
  have hnn := latOverlap_nonneg g (-hp) hp hg.monotoneOn (latBounds hp src) (latBounds hp tgt)
    (latBounds_mem hhp ht hbt)
  have hall : ∀ b ∈ r, 0 ≤ b := hnn r hr
  exact div_nonneg (hall a ha) (List.sum_nonneg hall)

/-- **Latitude.**  For strictly increasing source and target latitudes inside `[-hp, hp]` and `g`
 strictly increasing there, `conservative_latitude_weights` succeeds, its entries are
 non-negative, its rows sum to one and the `g`-area-weighted sum is conserved. -/
theorem latWeights_conservative (g : K → K) {hp : K} (hhp : 0 < hp)
    (hg : StrictMonoOn g (Set.Icc (-hp) hp)) {src tgt : List K}
    (hs : src.Pairwise (· < ·)) (ht : tgt.Pairwise (· < ·))
    (hbs : ∀ v ∈ src, -hp ≤ v ∧ v ≤ hp) (hbt : ∀ v ∈ tgt, -hp ≤ v ∧ v ≤ hp) :
    ∃ W, latWeights g hp src tgt = some W ∧
      (∀ row ∈ W, (∀ w ∈ row, 0 ≤ w) ∧ row.sum = 1) ∧
      ∀ x : List K, dot (diffs ((latBounds hp tgt).map g)) (matvec W x)
        = dot (diffs ((latBounds hp src).map g)) x := by
  have hW : latWeights g hp src tgt = some (normRows (latOverlap g hp src tgt)) := by
    unfold latWeights
    rw [if_pos]
    rw [Bool.and_eq_true, increasing_iff, increasing_iff]; exact ⟨hs, ht⟩
  refine ⟨_, hW, ?_, ?_⟩
  · intro row hrow
    exact ⟨latWeights_nonneg g hhp hg hW hbs hbt row hrow,
      latWeights_rows_sum_one g hhp hg hW hbs hbt row hrow⟩
  · intro x
    have hS := pairwise_le_of_lt (latBounds_pairwise hhp hs hbs)
    have hT := pairwise_le_of_lt (latBounds_pairwise hhp ht hbt)
    have hsz := sizes_ne_zero g hhp hg ht hbt
    unfold latOverlap
    unfold latBounds at hS hT hsz ⊢
    apply lat_conservation g (-hp) (-hp) (mids src ++ [hp]) (mids tgt ++ [hp]) hS hT rfl
    · rw [latBounds_getLastD, latBounds_getLastD]
    · intro t htm; exact (hsz t htm).ne'

/-- `_assert_increasing`: the weights are refused exactly when one of the two coordinate vectors
 is not strictly increasing -/
theorem latWeights_rejects (g : K → K) (hp : K) (src tgt : List K) :
    latWeights g hp src tgt = none ↔ ¬ (src.Pairwise (· < ·) ∧ tgt.Pairwise (· < ·)) := by
  unfold latWeights
  rw [← increasing_iff, ← increasing_iff, ← Bool.and_eq_true]
  split_ifs with h <;> simp [h]

/-- the statement for the function the code uses: `sin` on `[-π/2, π/2]` -/
theorem latWeights_conservative_sin {src tgt : List ℝ}
    (hs : src.Pairwise (· < ·)) (ht : tgt.Pairwise (· < ·))
    (hbs : ∀ v ∈ src, -(Real.pi / 2) ≤ v ∧ v ≤ Real.pi / 2)
    (hbt : ∀ v ∈ tgt, -(Real.pi / 2) ≤ v ∧ v ≤ Real.pi / 2) :
    ∃ W, latWeights Real.sin (Real.pi / 2) src tgt = some W ∧
      (∀ row ∈ W, (∀ w ∈ row, 0 ≤ w) ∧ row.sum = 1) ∧
      ∀ x : List ℝ, dot (diffs ((latBounds (Real.pi / 2) tgt).map Real.sin)) (matvec W x)
        = dot (diffs ((latBounds (Real.pi / 2) src).map Real.sin)) x :=
  latWeights_conservative Real.sin (by positivity) Real.strictMonoOn_sin hs ht hbs hbt

/-- non-vacuity: three uneven source latitudes, two target latitudes, `g = id`, `hp = 1` -/
example : ∃ W, latWeights (id : ℚ → ℚ) 1 [-1 / 2, 0, 3 / 4] [-1 / 4, 1 / 2] = some W ∧
    (∀ row ∈ W, (∀ w ∈ row, 0 ≤ w) ∧ row.sum = 1) ∧
    ∀ x : List ℚ, dot (diffs ((latBounds 1 [-1 / 4, 1 / 2]).map id)) (matvec W x)
      = dot (diffs ((latBounds 1 [-1 / 2, 0, 3 / 4]).map id)) x :=
  latWeights_conservative id one_pos strictMonoOn_id (by decide +kernel) (by decide +kernel)
    (by decide +kernel) (by decide +kernel)

/-! ## T16.2 convex combinations -/

/-- rows summing to one reproduce constants.  The length of the rows is a hypothesis here (`dot`
 truncates to the shorter list); `latWeights_shape` / `lonWeights_shape` discharge it for the
 weights of the code: `latWeights_constants_bounds`, `lonWeights_constants_bounds`. -/
theorem constants_reproduced (W : List (List K)) (n : Nat) (c : K)
    (h : ∀ row ∈ W, row.sum = 1 ∧ row.length = n) :
    matvec W (List.replicate n c) = W.map fun _ => c := by
  unfold matvec
  apply List.map_congr_left
  intro row hrow
  obtain ⟨h1, h2⟩ := h row hrow
  rw [← h2, dot_replicate, h1, one_mul]

/-- a row of non-negative weights summing to one maps values to a number between the smallest and
 the largest of the inputs that carry weight -/
theorem row_within_bounds {lo hi : K} {w x : List K} (hsum : w.sum = 1)
    (h : List.Forall₂ (fun wi xi => 0 ≤ wi ∧ (wi ≠ 0 → lo ≤ xi ∧ xi ≤ hi)) w x) :
    lo ≤ dot w x ∧ dot w x ≤ hi := by
  have := dot_bounds h
  rwa [hsum, one_mul, one_mul] at this

/-- every output of a weight matrix with such rows is within the bounds of the overlapping
 inputs.  `Forall₂` contains the hypothesis `row.length = x.length`; `matvec_within_bounds` states
 it explicitly and `latWeights_constants_bounds` / `lonWeights_constants_bounds` discharge it. -/
theorem output_within_bounds {lo hi : K} (W : List (List K)) (x : List K)
    (h : ∀ row ∈ W, row.sum = 1 ∧
      List.Forall₂ (fun wi xi => 0 ≤ wi ∧ (wi ≠ 0 → lo ≤ xi ∧ xi ≤ hi)) row x) :
    ∀ o ∈ matvec W x, lo ≤ o ∧ o ≤ hi := by
  intro o ho
  obtain ⟨row, hrow, rfl⟩ := List.mem_map.mp ho
  exact row_within_bounds (h row hrow).1 (h row hrow).2

/-- the two-dimensional mean (`einsum('ab,cd,bd->ac')`) reproduces constants -/
theorem mean2_constant (lw tw : List (List K)) (n m : Nat) (c : K)
    (hl : ∀ row ∈ lw, row.sum = 1 ∧ row.length = n)
    (ht : ∀ row ∈ tw, row.sum = 1 ∧ row.length = m) :
    mean2 lw tw (List.replicate n (List.replicate m c)) = lw.map fun _ => tw.map fun _ => c := by
  unfold mean2
  apply List.map_congr_left
  intro ra hra
  apply List.map_congr_left
  intro rc hrc
  obtain ⟨h1, h2⟩ := hl ra hra
  obtain ⟨h3, h4⟩ := ht rc hrc
  rw [List.map_replicate, ← h4, dot_replicate, h3, one_mul, ← h2, dot_replicate, h1, one_mul]

/-- every entry of the two-dimensional mean lies within the bounds of the inputs that carry
 weight -/
theorem mean2_within_bounds {lo hi : K} (ra rc : List K) (f : List (List K))
    (hra : ra.sum = 1) (hrc : rc.sum = 1)
    (h : List.Forall₂ (fun wb fb => 0 ≤ wb ∧ (wb ≠ 0 →
      List.Forall₂ (fun wd v => 0 ≤ wd ∧ (wd ≠ 0 → lo ≤ v ∧ v ≤ hi)) rc fb)) ra f) :
    lo ≤ cellSum ra rc f ∧ cellSum ra rc f ≤ hi := by
  unfold cellSum
  apply row_within_bounds hra
  rw [List.forall₂_map_right_iff]
  apply h.imp
  intro wb fb hb
  exact ⟨hb.1, fun hne => row_within_bounds hrc (hb.2 hne)⟩

example : (1 : ℚ) ≤ dot [1 / 4, 3 / 4, 0] [1, 2, 100] ∧ dot [1 / 4, 3 / 4, 0] [1, 2, 100] ≤ (2 : ℚ) :=
  row_within_bounds (by norm_num) (by
    refine List.Forall₂.cons ?_ (List.Forall₂.cons ?_ (List.Forall₂.cons ?_ List.Forall₂.nil)) <;>
      norm_num)

/-! ## T16.4 vertical: interval overlaps in sigma, over the covered range -/

/-- entries of `_interval_overlap` are non-negative (no hypothesis) -/
theorem intervalOverlap_nonneg (sb tb : List K) :
    ∀ row ∈ intervalOverlap sb tb, ∀ w ∈ row, 0 ≤ w := by
  intro row hrow w hw
  simp only [intervalOverlap, kmat, List.mem_map] at hrow
  obtain ⟨t, _, rfl⟩ := hrow
  obtain ⟨s, _, rfl⟩ := List.mem_map.mp hw
  simp only [intervalOv, mx_eq_max]
  exact le_max_right _ _

/-- rows of `_interval_overlap` sum to the covered thickness of the target layer
 (`min(t_hi, s_last) − max(t_lo, s₀)` when the two intersect); the full thickness when the source
 range contains the layer -/
theorem intervalOverlap_row_sum (s0 : K) (sr tb : List K) (hs : (s0 :: sr).Pairwise (· ≤ ·))
    (ht : tb.Pairwise (· ≤ ·)) :
    (intervalOverlap (s0 :: sr) tb).map List.sum
      = (cells tb).map fun t => covered t s0 (sr.getLastD s0) := by
  simp only [intervalOverlap, kmat, List.map_map]
  apply List.map_congr_left
  intro t htm
  have e : (cells (s0 :: sr)).map (fun s => intervalOv t s)
      = (cells (s0 :: sr)).map (latOv id (t.1, t.2)) := by
    apply List.map_congr_left; intro s _; exact intervalOv_eq_latOv t s
  simp only [Function.comp_def, e]
  exact sum_latOv_cells id (rel_of_mem_cells ht htm) s0 sr hs

/-- columns of `_interval_overlap` sum to the part of the source layer covered by the target
 range -/
theorem intervalOverlap_col_sum (t0 : K) (tr sb : List K) (ht : (t0 :: tr).Pairwise (· ≤ ·))
    (hs : sb.Pairwise (· ≤ ·)) :
    ∀ s ∈ cells sb, ((cells (t0 :: tr)).map fun t => intervalOv t s).sum
      = covered s t0 (tr.getLastD t0) := by
  intro s hsm
  have e : ((cells (t0 :: tr)).map fun t => intervalOv t s)
      = (cells (t0 :: tr)).map (latOv id (s.1, s.2)) := by
    apply List.map_congr_left; intro t _
    rw [intervalOv_comm]; exact intervalOv_eq_latOv s t
  rw [e]
  exact sum_latOv_cells id (rel_of_mem_cells hs hsm) t0 tr ht

/-- rows of `conservative_regrid_weights` with a non-zero overlap: non-negative entries summing
 to one.  (Rows without overlap are `0/0` in the code — NaN — and are excluded.)
 The first conjunct is the definition of the normalisation (`rfl`): it carries no content. -/
theorem verticalWeights_rows (sb tb : List K) :
    verticalWeights sb tb = (intervalOverlap sb tb).map (fun r => r.map (· / r.sum)) ∧
    ∀ r ∈ intervalOverlap sb tb, r.sum ≠ 0 →
      (∀ w ∈ r.map (· / r.sum), 0 ≤ w) ∧ (r.map (· / r.sum)).sum = 1 := by
  refine ⟨rfl, ?_⟩
  intro r hr hne
  have hall : ∀ b ∈ r, 0 ≤ b := intervalOverlap_nonneg sb tb r hr
  refine ⟨?_, sum_map_div_self r hne⟩
  intro w hw
  obtain ⟨a, ha, rfl⟩ := List.mem_map.mp hw
  exact div_nonneg (hall a ha) (List.sum_nonneg hall)

/-- **Vertical.**  For sorted source and target bounds the thickness-weighted sum over the covered
 range is conserved: `Σ_t covered_t · out_t = Σ_s covered_s · in_s`, for every `out` that agrees
 with `weights @ x` on the target layers with non-zero coverage. -/
theorem vertical_conservation (s0 t0 : K) (sr tr : List K) (hs : (s0 :: sr).Pairwise (· ≤ ·))
    (ht : (t0 :: tr).Pairwise (· ≤ ·)) (x out : List K)
    (hout : AgreesWhereCovered ((cells (t0 :: tr)).map fun t => covered t s0 (sr.getLastD s0))
      (matvec (verticalWeights (s0 :: sr) (t0 :: tr)) x) out) :
    dot ((cells (t0 :: tr)).map fun t => covered t s0 (sr.getLastD s0)) out
      = dot ((cells (s0 :: sr)).map fun s => covered s t0 (tr.getLastD t0)) x := by
  rw [dot_agrees hout]
  have hrow := intervalOverlap_row_sum s0 sr (t0 :: tr) hs ht
  have hcol := intervalOverlap_col_sum t0 tr (s0 :: sr) ht hs
  simp only [intervalOverlap, kmat, List.map_map] at hrow
  have hrow' : ∀ t ∈ cells (t0 :: tr), ((cells (s0 :: sr)).map (intervalOv t)).sum
      = covered t s0 (sr.getLastD s0) := fun t htm => by
    simpa using List.map_inj_left.mp hrow t htm
  -- row by row: covered_t · (row_t / covered_t) · x = row_t · x, also when covered_t = 0
  have h1 : matvec (verticalWeights (s0 :: sr) (t0 :: tr)) x
      = (cells (t0 :: tr)).map fun t => dot (((cells (s0 :: sr)).map (intervalOv t)).map
          (· / ((cells (s0 :: sr)).map (intervalOv t)).sum)) x := by
    simp [matvec, verticalWeights, normRows, intervalOverlap, kmat, List.map_map, Function.comp_def]
  rw [h1, dot_map_map]
  have h2 : ((cells (t0 :: tr)).map fun t => covered t s0 (sr.getLastD s0)
        * dot (((cells (s0 :: sr)).map (intervalOv t)).map
          (· / ((cells (s0 :: sr)).map (intervalOv t)).sum)) x)
      = (cells (t0 :: tr)).map fun t => dot ((cells (s0 :: sr)).map (intervalOv t)) x := by
    apply List.map_congr_left
    intro t htm
    rw [dot_map_div, hrow' t htm]
    by_cases hc : covered t s0 (sr.getLastD s0) = 0
    · -- all overlaps of this layer vanish
      rw [hc, zero_mul]
      have hz : ∀ w ∈ (cells (s0 :: sr)).map (intervalOv t), w = 0 := by
        have hnn : ∀ w ∈ (cells (s0 :: sr)).map (intervalOv t), 0 ≤ w := by
          intro w hw
          obtain ⟨s, _, rfl⟩ := List.mem_map.mp hw
          simp only [intervalOv, mx_eq_max]; exact le_max_right _ _
        have hsum := hrow' t htm
        rw [hc] at hsum
        have := (sum_map_eq_zero_iff ((cells (s0 :: sr)).map (intervalOv t)) id
          (by simpa using hnn)).mp (by simpa using hsum)
        simpa using this
      have : (cells (s0 :: sr)).map (intervalOv t) = (cells (s0 :: sr)).map fun _ => (0 : K) := by
        apply List.map_congr_left
        intro s hsm
        exact hz _ (List.mem_map.mpr ⟨s, hsm, rfl⟩)
      rw [this, dot_map_zero]
    · field_simp
  rw [h2, sum_dot_kmat]
  congr 1
  exact List.map_congr_left hcol

/-- `regrid_hybrid_to_sigma` on one column: the σ-thickness-weighted sum over the range covered by
 the hybrid levels is conserved.
 **Unchecked hypothesis `hs`:** the hybrid boundaries `a / sp + b` at this surface pressure are
 sorted (non-decreasing).  The code never checks it (`a` alone is not monotone in real hybrid
 sets, so sortedness depends on `sp`); for unsorted boundaries the statement is not claimed.
 `ht`: the σ boundaries are sorted (what `SigmaCoordinates.__post_init__` enforces). -/
theorem regridHybridToSigma_conservation (a b : List K) (sp : K) (s0 t0 : K) (sr tr : List K)
    (f r out : List K) (hb : hybridSigmaBounds a b sp = s0 :: sr)
    (hs : (s0 :: sr).Pairwise (· ≤ ·)) (ht : (t0 :: tr).Pairwise (· ≤ ·))
    (hr : regridHybridToSigma a b sp (t0 :: tr) f = some r)
    (hout : AgreesWhereCovered ((cells (t0 :: tr)).map fun t => covered t s0 (sr.getLastD s0))
      r out) :
    dot ((cells (t0 :: tr)).map fun t => covered t s0 (sr.getLastD s0)) out
      = dot ((cells (s0 :: sr)).map fun s => covered s t0 (tr.getLastD t0)) f := by
  unfold regridHybridToSigma at hr
  split_ifs at hr with hlen
  cases hr
  rw [hb] at hout
  exact vertical_conservation s0 t0 sr tr hs ht f out hout

/-- non-vacuity of `regridHybridToSigma_conservation`: three hybrid layers with a non-zero top
 pressure (`a = [10, 20, 30, 0]`, `b = [0, 1/10, 1/2, 1]`, `sp = 100`: boundaries
 `[1/10, 3/10, 4/5, 1]`, sorted) onto the σ boundaries `[0, 1/4, 1/2, 1]`; the top σ layer is
 only partly covered -/
example : ∃ r, regridHybridToSigma [(10 : ℚ), 20, 30, 0] [0, 1 / 10, 1 / 2, 1] 100
      [0, 1 / 4, 1 / 2, 1] [7, -2, 5] = some r ∧
    dot ((cells [(0 : ℚ), 1 / 4, 1 / 2, 1]).map fun t => covered t (1 / 10) 1) r
      = dot ((cells [(1 / 10 : ℚ), 3 / 10, 4 / 5, 1]).map fun s => covered s 0 1) [7, -2, 5] := by
  have hr : regridHybridToSigma [(10 : ℚ), 20, 30, 0] [0, 1 / 10, 1 / 2, 1] 100
      [0, 1 / 4, 1 / 2, 1] [7, -2, 5]
      = some (matvec (verticalWeights (hybridSigmaBounds [(10 : ℚ), 20, 30, 0]
          [0, 1 / 10, 1 / 2, 1] 100) [0, 1 / 4, 1 / 2, 1]) [7, -2, 5]) := by
    rw [regridHybridToSigma, if_neg (by decide)]
  refine ⟨_, hr, ?_⟩
  exact regridHybridToSigma_conservation [10, 20, 30, 0] [0, 1 / 10, 1 / 2, 1] 100 (1 / 10) 0
    [3 / 10, 4 / 5, 1] [1 / 4, 1 / 2, 1] [7, -2, 5] _ _ (by decide +kernel) (by decide +kernel)
    (by decide +kernel) hr (agreesWhereCovered_self _ _ (by
      simp [matvec, verticalWeights, normRows, intervalOverlap, kmat]))

/-- non-vacuity: the source range `[1/10, 9/10]` lies inside the target range `[0, 1]`;
 the middle target layer is fully covered, the outer ones partly -/
example : dot ((cells [(0 : ℚ), 1 / 4, 1 / 2, 1]).map fun t => covered t (1 / 10) (9 / 10))
      (matvec (verticalWeights [1 / 10, 3 / 10, 9 / 10] [0, 1 / 4, 1 / 2, 1]) [7, -2])
    = dot ((cells [(1 / 10 : ℚ), 3 / 10, 9 / 10]).map fun s => covered s 0 1) [7, -2] :=
  vertical_conservation (1 / 10) 0 [3 / 10, 9 / 10] [1 / 4, 1 / 2, 1] (by decide +kernel)
    (by decide +kernel) [7, -2] _ (agreesWhereCovered_self _ _ (by simp [matvec, verticalWeights,
      normRows, intervalOverlap, kmat]))

/-! ## T16.3 longitude: periodic overlaps -/

/-- `conservative_longitude_weights`: non-negative overlaps, and every row with a non-zero
 overlap sum is normalised to one — by definition, on every input.
 The first conjunct is the definition of the normalisation (`rfl`): it carries no content. -/
theorem lonWeights_rows (md : K → K → K) (P : K) (src tgt : List K) {W : List (List K)}
    (hW : lonWeights md P src tgt = some W) :
    W = (lonOverlap md P tgt src).map (fun r => r.map (· / r.sum)) ∧
    ∀ r ∈ lonOverlap md P tgt src, (∀ w ∈ r, 0 ≤ w) ∧
      (r.sum ≠ 0 → (∀ w ∈ r.map (· / r.sum), 0 ≤ w) ∧ (r.map (· / r.sum)).sum = 1) := by
  unfold lonWeights at hW
  split_ifs at hW with hinc
  cases hW
  refine ⟨rfl, ?_⟩
  intro r hr
  have hall : ∀ b ∈ r, 0 ≤ b := by
    intro b hb
    simp only [lonOverlap, kmat, List.mem_map] at hr
    obtain ⟨t, _, rfl⟩ := hr
    obtain ⟨s, _, rfl⟩ := List.mem_map.mp hb
    simp only [periodicOv, mx_eq_max]
    exact le_max_right _ _
  refine ⟨hall, fun hne => ⟨?_, sum_map_div_self r hne⟩⟩
  intro w hw
  obtain ⟨a, ha, rfl⟩ := List.mem_map.mp hw
  exact div_nonneg (hall a ha) (List.sum_nonneg hall)

theorem lonWeights_rejects (md : K → K → K) (P : K) (src tgt : List K) :
    lonWeights md P src tgt = none ↔ ¬ (src.Pairwise (· < ·) ∧ tgt.Pairwise (· < ·)) := by
  unfold lonWeights
  rw [← increasing_iff, ← increasing_iff, ← Bool.and_eq_true]
  split_ifs with h <;> simp [h]

/-- `_align_phase_with` does what its docstring says: the result is one of `x − P`, `x`, `x + P`,
 no other of the three is closer to the target, and it is within half a period of the target
 whenever `x` is within one and a half periods -/
theorem alignPhase_spec {P : K} (hP : 0 < P) (x t : K) :
    (alignPhase x t P = x - P ∨ alignPhase x t P = x ∨ alignPhase x t P = x + P) ∧
    (∀ c, c = x - P ∨ c = x ∨ c = x + P → |alignPhase x t P - t| ≤ |c - t|) ∧
    (|x - t| ≤ 3 * P / 2 → |alignPhase x t P - t| ≤ P / 2) := by
  have h2 : (1 + 1 : K) = 2 := one_add_one_eq_two
  by_cases hu : x < t - P / (1 + 1)
  · rw [alignPhase_up hP hu]
    rw [h2] at hu
    refine ⟨Or.inr (Or.inr rfl), ?_, ?_⟩
    · intro c hc
      rcases hc with h | h | h <;> rw [h] <;> apply abs_le_abs_of <;>
        first | (left; linarith) | (right; linarith)
    · intro h
      obtain ⟨h3, h4⟩ := abs_le.mp h
      rw [abs_le]; constructor <;> linarith
  by_cases hd : t + P / (1 + 1) < x
  · rw [alignPhase_down hP hd]
    rw [h2] at hd
    refine ⟨Or.inl rfl, ?_, ?_⟩
    · intro c hc
      rcases hc with h | h | h <;> rw [h] <;> apply abs_le_abs_of <;>
        first | (left; linarith) | (right; linarith)
    · intro h
      obtain ⟨h3, h4⟩ := abs_le.mp h
      rw [abs_le]; constructor <;> linarith
  · rw [alignPhase_same hu hd]
    rw [h2] at hu hd
    refine ⟨Or.inr (Or.inl rfl), ?_, ?_⟩
    · intro c hc
      rcases hc with h | h | h <;> rw [h] <;> apply abs_le_abs_of <;>
        first | (left; linarith) | (right; linarith)
    · intro _
      rw [abs_le]; constructor <;> linarith

/-- `_periodic_overlap` is correct — it equals the sum of the interval overlaps of `x` with the
 copies `y − P`, `y`, `y + P` — as soon as the widths of the two intervals add up to at most
 half a period.  (The comment in the code only asks that no interval be wider than half a
 period; see `stated_precondition_insufficient`.) -/
theorem periodicOv_correct {P : K} (hP : 0 < P) (x y : K × K) (hx : x.1 ≤ x.2) (hy : y.1 ≤ y.2)
    (hw : (x.2 - x.1) + (y.2 - y.1) ≤ P / 2) :
    periodicOv P x y = intervalOv x (y.1 - P, y.2 - P) + intervalOv x y
      + intervalOv x (y.1 + P, y.2 + P) :=
  periodicOv_three_copies hP x y hx hy hw

/-- Two partitions `A` (target), `B` (source) of one period into cells whose widths add up,
 pairwise, to at most half a period, with origins less than a period apart: the periodic overlaps
 have row sums = target widths, column sums = source widths, and the normalised matrix conserves
 the width-weighted sum. -/
theorem lon_conservation {P : K} (hP : 0 < P) (a0 b0 : K) (ra rb : List K)
    (hA : (a0 :: ra).Pairwise (· ≤ ·)) (hB : (b0 :: rb).Pairwise (· ≤ ·))
    (hAl : ra.getLastD a0 = a0 + P) (hBl : rb.getLastD b0 = b0 + P)
    (hw : ∀ x ∈ cells (a0 :: ra), ∀ y ∈ cells (b0 :: rb), (x.2 - x.1) + (y.2 - y.1) ≤ P / 2)
    (hr : a0 - P ≤ b0 ∧ b0 ≤ a0 + P) :
    (∀ x ∈ cells (a0 :: ra), ((cells (b0 :: rb)).map (periodicOv P x)).sum = x.2 - x.1) ∧
    (∀ y ∈ cells (b0 :: rb), ((cells (a0 :: ra)).map (periodicOv P · y)).sum = y.2 - y.1) ∧
    ((∀ x ∈ cells (a0 :: ra), x.2 - x.1 ≠ 0) → ∀ f : List K,
      dot ((cells (a0 :: ra)).map fun c => c.2 - c.1)
          (matvec (normRows (kmat (periodicOv P) (cells (a0 :: ra)) (cells (b0 :: rb)))) f)
        = dot ((cells (b0 :: rb)).map fun c => c.2 - c.1) f) := by
  have hrow : ∀ x ∈ cells (a0 :: ra),
      ((cells (b0 :: rb)).map (periodicOv P x)).sum = x.2 - x.1 := by
    intro x hxm
    obtain ⟨m1, m2⟩ := mem_of_mem_cells hxm
    have l1 : a0 ≤ x.1 := by
      rcases List.mem_cons.mp m1 with h | h
      · rw [h]
      · exact (List.pairwise_cons.mp hA).1 _ h
    have l2 : x.2 ≤ a0 + P := hAl ▸ le_getLastD_of_pairwise a0 ra hA _ m2
    exact sum_periodicOv_row hP x (rel_of_mem_cells hA hxm) b0 rb hB hBl (hw x hxm)
      (by linarith [hr.2]) (by linarith [hr.1])
  have hcol : ∀ y ∈ cells (b0 :: rb),
      ((cells (a0 :: ra)).map (periodicOv P · y)).sum = y.2 - y.1 := by
    intro y hym
    obtain ⟨m1, m2⟩ := mem_of_mem_cells hym
    have l1 : b0 ≤ y.1 := by
      rcases List.mem_cons.mp m1 with h | h
      · rw [h]
      · exact (List.pairwise_cons.mp hB).1 _ h
    have l2 : y.2 ≤ b0 + P := hBl ▸ le_getLastD_of_pairwise b0 rb hB _ m2
    exact sum_periodicOv_col hP y (rel_of_mem_cells hB hym) a0 ra hA hAl
      (fun x hxm => hw x hxm y hym) (by linarith [hr.1]) (by linarith [hr.2])
  refine ⟨hrow, hcol, fun hne f => ?_⟩
  exact kernel_conservation (periodicOv P) (cells (a0 :: ra)) (cells (b0 :: rb))
    (fun c => c.2 - c.1) (fun c => c.2 - c.1) f hrow hne hcol

/-- the same for `conservative_longitude_weights`, when the cells that the code builds from the
 points are such partitions -/
theorem lonWeights_conservative (md : K → K → K) {P : K} (hP : 0 < P) (src tgt : List K)
    (a0 b0 : K) (ra rb : List K)
    (hs : src.Pairwise (· < ·)) (ht : tgt.Pairwise (· < ·))
    (hT : lonCells md P tgt = cells (a0 :: ra)) (hS : lonCells md P src = cells (b0 :: rb))
    (hA : (a0 :: ra).Pairwise (· < ·)) (hB : (b0 :: rb).Pairwise (· ≤ ·))
    (hAl : ra.getLastD a0 = a0 + P) (hBl : rb.getLastD b0 = b0 + P)
    (hw : ∀ x ∈ cells (a0 :: ra), ∀ y ∈ cells (b0 :: rb), (x.2 - x.1) + (y.2 - y.1) ≤ P / 2)
    (hr : a0 - P ≤ b0 ∧ b0 ≤ a0 + P) :
    ∃ W, lonWeights md P src tgt = some W ∧
      (∀ row ∈ W, (∀ w ∈ row, 0 ≤ w) ∧ row.sum = 1) ∧
      ∀ x : List K, dot ((lonCells md P tgt).map fun c => c.2 - c.1) (matvec W x)
        = dot ((lonCells md P src).map fun c => c.2 - c.1) x := by
  have hW : lonWeights md P src tgt = some (normRows (lonOverlap md P tgt src)) := by
    unfold lonWeights
    rw [if_pos]
    rw [Bool.and_eq_true, increasing_iff, increasing_iff]; exact ⟨hs, ht⟩
  obtain ⟨hrow, hcol, hcons⟩ := lon_conservation hP a0 b0 ra rb (pairwise_le_of_lt hA) hB hAl hBl
    hw hr
  have hpos : ∀ x ∈ cells (a0 :: ra), x.2 - x.1 ≠ 0 := fun x hxm =>
    (sub_pos.mpr (rel_of_mem_cells hA hxm)).ne'
  refine ⟨_, hW, ?_, ?_⟩
  · intro row hrowm
    obtain ⟨_, hrows⟩ := lonWeights_rows md P src tgt hW
    simp only [normRows, List.mem_map] at hrowm
    obtain ⟨r, hr', rfl⟩ := hrowm
    have hne : r.sum ≠ 0 := by
      simp only [lonOverlap, kmat, hT, hS, List.mem_map] at hr'
      obtain ⟨x, hxm, rfl⟩ := hr'
      rw [hrow x hxm]; exact hpos x hxm
    exact (hrows r hr').2 hne
  · intro x
    unfold lonOverlap
    rw [hT, hS]
    exact hcons hpos x

/-- The precondition stated in `_periodic_overlap` ("valid as long as no intervals are larger than
 period/2") is not sufficient: 4 target and 3 source points, equispaced on a circle of length 12.
 Every cell is narrower than half the period, yet the overlaps of the last target cell add up to
 5/2 instead of its width 3 (and those of the first source cell to 7/2 instead of 4). -/
theorem stated_precondition_insufficient :
    let md : ℚ → ℚ → ℚ := fun x p => x - p * (Rat.floor (x / p) : ℚ)
    let P : ℚ := 12
    let first : List ℚ := [0, 3, 6, 9]
    let second : List ℚ := [0, 4, 8]
    first.Pairwise (· < ·) ∧ second.Pairwise (· < ·) ∧
    (∀ c ∈ lonCells md P first ++ lonCells md P second, 0 < c.2 - c.1 ∧ c.2 - c.1 < P / 2) ∧
    (lonCells md P first).map (fun c => c.2 - c.1) = [3, 3, 3, 3] ∧
    (lonOverlap md P first second).map List.sum = [3, 3, 3, 5 / 2] ∧
    (lonOverlap md P second first).map List.sum = [7 / 2, 4, 4] := by
  decide +kernel

/-! ### from the points to the cells -/

/-- **The cells partition the circle.**  For at least two strictly increasing points within one
 period on which `%` is the identity, with gaps (including the wrap-around gap) of at most
 `g < P/2`: the cells `(lower, upper)` built by `_longitude_overlap` are the consecutive cells of
 a strictly increasing vector of bounds that starts at `a₀ = (last − P + first)/2`, ends at
 `a₀ + P`, and has cell widths in `(0, g]`. -/
theorem lonCells_partition (md : K → K → K) {P : K} (hP : 0 < P) (p0 p1 : K) (r : List K) (g : K)
    (hmd : ∀ v ∈ p0 :: p1 :: r, md v P = v) (hinc : (p0 :: p1 :: r).Pairwise (· < ·))
    (hper : r.getLastD p1 - p0 < P)
    (hgap : ∀ d ∈ diffs (p0 :: p1 :: r), d ≤ g) (hwrap : P - (r.getLastD p1 - p0) ≤ g)
    (hg : g < P / 2) :
    ∃ ra : List K, lonCells md P (p0 :: p1 :: r)
        = cells (((r.getLastD p1 - P) + p0) / (1 + 1) :: ra) ∧
      ((((r.getLastD p1 - P) + p0) / (1 + 1)) :: ra).Pairwise (· < ·) ∧
      ra.getLastD (((r.getLastD p1 - P) + p0) / (1 + 1)) = ((r.getLastD p1 - P) + p0) / (1 + 1) + P ∧
      ∀ c ∈ cells ((((r.getLastD p1 - P) + p0) / (1 + 1)) :: ra), 0 < c.2 - c.1 ∧ c.2 - c.1 ≤ g := by
  set L := r.getLastD p1 with hL
  have hpos := diffs_pos_of_pairwise hinc
  have hLmax : ∀ v ∈ p0 :: p1 :: r, v ≤ L := by
    have := le_getLastD_of_pairwise p0 (p1 :: r) (pairwise_le_of_lt hinc)
    rwa [List.getLastD_cons] at this
  have hp0min : ∀ v ∈ p0 :: p1 :: r, p0 ≤ v := by
    intro v hv
    rcases List.mem_cons.mp hv with rfl | hv
    · exact le_refl _
    · exact ((List.pairwise_cons.mp hinc).1 v hv).le
  have hcells := lonCells_eq md hP p0 p1 r hmd
    (fun d hd => ⟨(hpos d hd).le, by linarith [hgap d hd]⟩) (by linarith)
  -- the extended vector of points
  have hext : (((L - P) :: p0 :: p1 :: r) ++ [p0 + P]).Pairwise (· < ·) := by
    rw [List.cons_append, List.pairwise_cons]
    constructor
    · intro v hv
      rcases List.mem_append.mp hv with hv | hv
      · linarith [hp0min v hv]
      · rw [List.mem_singleton.mp hv]; linarith
    · rw [List.pairwise_append]
      refine ⟨hinc, by simp, ?_⟩
      intro v hv w hw
      rw [List.mem_singleton.mp hw]; linarith [hLmax v hv]
  have hdiffs : ∀ d ∈ diffs (((L - P) :: p0 :: p1 :: r) ++ [p0 + P]), 0 < d ∧ d ≤ g := by
    intro d hd
    refine ⟨diffs_pos_of_pairwise hext d hd, ?_⟩
    rw [diffs_append_singleton, diffs_cons_cons, List.getLastD_cons, List.getLastD_cons,
      List.mem_append, List.mem_cons, List.mem_singleton] at hd
    rcases hd with (rfl | hd) | rfl
    · linarith
    · exact hgap d hd
    · linarith
  refine ⟨mids ((p0 :: p1 :: r) ++ [p0 + P]), ?_, ?_, ?_, ?_⟩
  · rw [hcells]; rfl
  · have := mids_pairwise hext
    simpa only [List.cons_append, mids_cons_cons] using this
  · rw [getLastD_mids_append, List.getLastD_cons]
    rw [one_add_one_eq_two]; ring
  · have := width_cells_mids hdiffs
    simpa only [List.cons_append, mids_cons_cons] using this

/-- **Longitude, from the coordinate vectors.**  Source and target longitudes in `[0, P)`, strictly
 increasing, at least two each, with circular gaps at most `gs` resp. `gt`, `gs + gt ≤ P/2`
 (for equispaced grids: `1/n_s + 1/n_t ≤ 1/2`, see `lonWeights_conservative_equispaced`).  Then
 `conservative_longitude_weights` succeeds,
 its entries are non-negative, its rows sum to one, the cells of each grid tile one period, and
 the width-weighted sum is conserved. -/
theorem lonWeights_conservative_of_points (md : K → K → K) {P : K} (hP : 0 < P)
    (hmd : ∀ v, 0 ≤ v → v < P → md v P = v)
    (s0 s1 t0 t1 : K) (sr tr : List K) (gs gt : K)
    (hs : (s0 :: s1 :: sr).Pairwise (· < ·)) (ht : (t0 :: t1 :: tr).Pairwise (· < ·))
    (hs0 : 0 ≤ s0) (hsl : sr.getLastD s1 < P) (ht0 : 0 ≤ t0) (htl : tr.getLastD t1 < P)
    (hgs : ∀ d ∈ diffs (s0 :: s1 :: sr), d ≤ gs) (hws : P - (sr.getLastD s1 - s0) ≤ gs)
    (hgt : ∀ d ∈ diffs (t0 :: t1 :: tr), d ≤ gt) (hwt : P - (tr.getLastD t1 - t0) ≤ gt)
    (hg : gs + gt ≤ P / 2) :
    ∃ W, lonWeights md P (s0 :: s1 :: sr) (t0 :: t1 :: tr) = some W ∧
      (∀ row ∈ W, (∀ w ∈ row, 0 ≤ w) ∧ row.sum = 1) ∧
      ((lonCells md P (t0 :: t1 :: tr)).map fun c => c.2 - c.1).sum = P ∧
      ((lonCells md P (s0 :: s1 :: sr)).map fun c => c.2 - c.1).sum = P ∧
      ∀ x : List K, dot ((lonCells md P (t0 :: t1 :: tr)).map fun c => c.2 - c.1) (matvec W x)
        = dot ((lonCells md P (s0 :: s1 :: sr)).map fun c => c.2 - c.1) x := by
  have hgs0 : 0 < gs := lt_of_lt_of_le (diffs_pos_of_pairwise hs (s1 - s0) (by simp))
    (hgs (s1 - s0) (by simp))
  have hgt0 : 0 < gt := lt_of_lt_of_le (diffs_pos_of_pairwise ht (t1 - t0) (by simp))
    (hgt (t1 - t0) (by simp))
  have hmaxS : ∀ v ∈ s0 :: s1 :: sr, v ≤ sr.getLastD s1 := by
    have := le_getLastD_of_pairwise s0 (s1 :: sr) (pairwise_le_of_lt hs)
    rwa [List.getLastD_cons] at this
  have hmaxT : ∀ v ∈ t0 :: t1 :: tr, v ≤ tr.getLastD t1 := by
    have := le_getLastD_of_pairwise t0 (t1 :: tr) (pairwise_le_of_lt ht)
    rwa [List.getLastD_cons] at this
  have hminS : ∀ v ∈ s0 :: s1 :: sr, s0 ≤ v := by
    intro v hv
    rcases List.mem_cons.mp hv with rfl | hv
    · exact le_refl _
    · exact ((List.pairwise_cons.mp hs).1 v hv).le
  have hminT : ∀ v ∈ t0 :: t1 :: tr, t0 ≤ v := by
    intro v hv
    rcases List.mem_cons.mp hv with rfl | hv
    · exact le_refl _
    · exact ((List.pairwise_cons.mp ht).1 v hv).le
  have hLs := hmaxS s0 (by simp)
  have hLt := hmaxT t0 (by simp)
  obtain ⟨rb, hS, hB, hBl, hwB⟩ := lonCells_partition md hP s0 s1 sr gs
    (fun v hv => hmd v (le_trans hs0 (hminS v hv)) (lt_of_le_of_lt (hmaxS v hv) hsl)) hs
    (by linarith) hgs hws (by linarith)
  obtain ⟨ra, hT, hA, hAl, hwA⟩ := lonCells_partition md hP t0 t1 tr gt
    (fun v hv => hmd v (le_trans ht0 (hminT v hv)) (lt_of_le_of_lt (hmaxT v hv) htl)) ht
    (by linarith) hgt hwt (by linarith)
  have hr : ((tr.getLastD t1 - P) + t0) / (1 + 1) - P ≤ ((sr.getLastD s1 - P) + s0) / (1 + 1) ∧
      ((sr.getLastD s1 - P) + s0) / (1 + 1) ≤ ((tr.getLastD t1 - P) + t0) / (1 + 1) + P := by
    rw [one_add_one_eq_two]; constructor <;> linarith
  obtain ⟨W, hW, hrows, hcons⟩ := lonWeights_conservative md hP (s0 :: s1 :: sr) (t0 :: t1 :: tr)
    _ _ ra rb hs ht hT hS hA (pairwise_le_of_lt hB) hAl hBl
    (fun x hx y hy => by linarith [(hwA x hx).2, (hwB y hy).2]) hr
  refine ⟨W, hW, hrows, ?_, ?_, hcons⟩
  · rw [hT, sum_cells_telescope (fun v => v), hAl]; ring
  · rw [hS, sum_cells_telescope (fun v => v), hBl]; ring

/-- non-vacuity: 4 source and 5 target longitudes on a circle of length 12, gaps 3 and 3,
 both grids offset -/
example : ∃ W, lonWeights (fun x _ => x) (12 : ℚ) [1, 4, 7, 10] [1 / 2, 3, 5, 8, 11] = some W ∧
    (∀ row ∈ W, (∀ w ∈ row, 0 ≤ w) ∧ row.sum = 1) ∧
    ((lonCells (fun x _ => x) (12 : ℚ) [1 / 2, 3, 5, 8, 11]).map fun c => c.2 - c.1).sum = 12 ∧
    ((lonCells (fun x _ => x) (12 : ℚ) [1, 4, 7, 10]).map fun c => c.2 - c.1).sum = 12 ∧
    ∀ x : List ℚ,
      dot ((lonCells (fun x _ => x) (12 : ℚ) [1 / 2, 3, 5, 8, 11]).map fun c => c.2 - c.1) (matvec W x)
        = dot ((lonCells (fun x _ => x) (12 : ℚ) [1, 4, 7, 10]).map fun c => c.2 - c.1) x :=
  lonWeights_conservative_of_points (fun x _ => x) (by norm_num) (fun _ _ _ => rfl)
    1 4 (1 / 2) 3 [7, 10] [5, 8, 11] 3 3 (by decide +kernel) (by decide +kernel) (by norm_num)
    (by decide +kernel) (by norm_num) (by decide +kernel) (by decide +kernel) (by decide +kernel)
    (by decide +kernel) (by decide +kernel) (by norm_num)

/-! ### offset grids: `% period` rotates the coordinate vector -/

/-- `lonWeights_conservative` when the cells that the code builds are such partitions *up to a
 permutation* (for offset grids: a cyclic rotation, see `lonCells_offset_rotate`): row sums,
 column sums and therefore conservation do not depend on the order of the cells. -/
theorem lonWeights_conservative_perm (md : K → K → K) {P : K} (hP : 0 < P) (src tgt : List K)
    (a0 b0 : K) (ra rb : List K)
    (hs : src.Pairwise (· < ·)) (ht : tgt.Pairwise (· < ·))
    (hT : (lonCells md P tgt).Perm (cells (a0 :: ra)))
    (hS : (lonCells md P src).Perm (cells (b0 :: rb)))
    (hA : (a0 :: ra).Pairwise (· < ·)) (hB : (b0 :: rb).Pairwise (· ≤ ·))
    (hAl : ra.getLastD a0 = a0 + P) (hBl : rb.getLastD b0 = b0 + P)
    (hw : ∀ x ∈ cells (a0 :: ra), ∀ y ∈ cells (b0 :: rb), (x.2 - x.1) + (y.2 - y.1) ≤ P / 2)
    (hr : a0 - P ≤ b0 ∧ b0 ≤ a0 + P) :
    ∃ W, lonWeights md P src tgt = some W ∧
      (∀ row ∈ W, (∀ w ∈ row, 0 ≤ w) ∧ row.sum = 1) ∧
      ((lonCells md P tgt).map fun c => c.2 - c.1).sum = P ∧
      ((lonCells md P src).map fun c => c.2 - c.1).sum = P ∧
      ∀ x : List K, dot ((lonCells md P tgt).map fun c => c.2 - c.1) (matvec W x)
        = dot ((lonCells md P src).map fun c => c.2 - c.1) x := by
  have hW : lonWeights md P src tgt = some (normRows (lonOverlap md P tgt src)) := by
    unfold lonWeights
    rw [if_pos]
    rw [Bool.and_eq_true, increasing_iff, increasing_iff]; exact ⟨hs, ht⟩
  obtain ⟨hrow, hcol, -⟩ := lon_conservation hP a0 b0 ra rb (pairwise_le_of_lt hA) hB hAl hBl
    hw hr
  have hrow' : ∀ x ∈ lonCells md P tgt,
      ((lonCells md P src).map (periodicOv P x)).sum = x.2 - x.1 := fun x hx => by
    rw [(hS.map (periodicOv P x)).sum_eq]; exact hrow x (hT.mem_iff.mp hx)
  have hcol' : ∀ y ∈ lonCells md P src,
      ((lonCells md P tgt).map (periodicOv P · y)).sum = y.2 - y.1 := fun y hy => by
    rw [(hT.map (periodicOv P · y)).sum_eq]; exact hcol y (hS.mem_iff.mp hy)
  have hpos : ∀ x ∈ lonCells md P tgt, x.2 - x.1 ≠ 0 := fun x hx =>
    (sub_pos.mpr (rel_of_mem_cells hA (hT.mem_iff.mp hx))).ne'
  refine ⟨_, hW, ?_, ?_, ?_, ?_⟩
  · intro row hrowm
    obtain ⟨_, hrows⟩ := lonWeights_rows md P src tgt hW
    simp only [normRows, List.mem_map] at hrowm
    obtain ⟨r, hr', rfl⟩ := hrowm
    have hne : r.sum ≠ 0 := by
      simp only [lonOverlap, kmat, List.mem_map] at hr'
      obtain ⟨x, hxm, rfl⟩ := hr'
      rw [hrow' x hxm]; exact hpos x hxm
    exact (hrows r hr').2 hne
  · rw [(hT.map fun c => c.2 - c.1).sum_eq, sum_cells_telescope (fun v => v), hAl]; ring
  · rw [(hS.map fun c => c.2 - c.1).sum_eq, sum_cells_telescope (fun v => v), hBl]; ring
  · intro x
    exact kernel_conservation (periodicOv P) (lonCells md P tgt) (lonCells md P src)
      (fun c => c.2 - c.1) (fun c => c.2 - c.1) x hrow' hpos hcol'

/-- **`% period` rotates the vector, and the cells with it.**  For at least two strictly
 increasing points spanning less than a period (a `Grid` with any `longitude_offset`: negative,
 beyond one cell, beyond `2π`, the `[-π, π)` layout) with circular gaps at most `g`:
 `points % P` is the cyclic rotation by some `k` of a strictly increasing vector `q` inside
 `[0, P)` with circular gaps at most `g`, on which `%` is the identity, and the cells the code
 builds from the points are the cells of `q` rotated by `k`. -/
theorem lonCells_offset_rotate (md : K → K → K) {P : K} (hP : 0 < P)
    (hmd : ∀ v, ∃ n : ℤ, md v P = v - n * P ∧ 0 ≤ md v P ∧ md v P < P)
    (p0 p1 : K) (r : List K) (g : K)
    (hinc : (p0 :: p1 :: r).Pairwise (· < ·)) (hper : r.getLastD p1 - p0 < P)
    (hgap : ∀ d ∈ diffs (p0 :: p1 :: r), d ≤ g) (hwrap : P - (r.getLastD p1 - p0) ≤ g) :
    ∃ (q0 q1 : K) (qr : List K) (k : ℕ),
      (p0 :: p1 :: r).map (md · P) = (q0 :: q1 :: qr).rotate k ∧
      (q0 :: q1 :: qr).Pairwise (· < ·) ∧ 0 ≤ q0 ∧ qr.getLastD q1 < P ∧
      (∀ v ∈ q0 :: q1 :: qr, md v P = v) ∧
      (∀ d ∈ diffs (q0 :: q1 :: qr), d ≤ g) ∧ P - (qr.getLastD q1 - q0) ≤ g ∧
      lonCells md P (p0 :: p1 :: r) = (lonCells md P (q0 :: q1 :: qr)).rotate k := by
  obtain ⟨q, k, hrot, hlen, hq, hrange, hch, hwr⟩ := map_mod_eq_rotate md hP hmd p0 (p1 :: r) hinc
    (by rw [List.getLastD_cons]; linarith) g ((diffs_le_iff_isChain g _).mp hgap)
    (by rw [List.getLastD_cons]; linarith)
  obtain ⟨q0, q1, qr, rfl⟩ : ∃ q0 q1 qr, q = q0 :: q1 :: qr := by
    match q, hlen with
    | q0 :: q1 :: qr, _ => exact ⟨q0, q1, qr, rfl⟩
  have hid : ∀ v ∈ q0 :: q1 :: qr, md v P = v := fun v hv => by
    have := mod_eq_sub hP hmd v 0 (by simpa using (hrange v hv).1) (by simpa using (hrange v hv).2)
    simpa using this
  have hlast : qr.getLastD q1 ∈ q0 :: q1 :: qr := by
    rw [List.getLastD_eq_getLast?]
    have : (q0 :: q1 :: qr).getLast? = some ((qr.getLast?).getD q1) := by
      rw [List.getLast?_cons, List.getLast?_cons]; simp
    exact List.mem_of_getLast? this
  refine ⟨q0, q1, qr, k, hrot, hq, (hrange q0 (by simp)).1, (hrange _ hlast).2, hid,
    (diffs_le_iff_isChain g _).mpr hch, ?_, ?_⟩
  · have := hwr q0 (by simp) (qr.getLastD q1) (by
      rw [List.getLast?_cons, List.getLast?_cons, List.getLastD_eq_getLast?]; simp)
    linarith
  · rw [lonCells_eq_cellsOf, hrot, cellsOf_rotate, lonCells_eq_cellsOf]
    congr 2
    have : (q0 :: q1 :: qr).map (md · P) = (q0 :: q1 :: qr).map id := List.map_congr_left hid
    rw [this, List.map_id]

/-- the weights of offset grids are the weights of the sorted reduced vectors with rows rotated
 like the target points and columns like the source points -/
theorem lonWeights_offset_rotate (md : K → K → K) (P : K) (src tgt qs qt : List K) (j k : ℕ)
    (hs : src.Pairwise (· < ·)) (ht : tgt.Pairwise (· < ·))
    (hqs : qs.Pairwise (· < ·)) (hqt : qt.Pairwise (· < ·))
    (hS : lonCells md P src = (lonCells md P qs).rotate j)
    (hT : lonCells md P tgt = (lonCells md P qt).rotate k) :
    lonWeights md P src tgt
      = (lonWeights md P qs qt).map fun W => (W.map (·.rotate j)).rotate k := by
  unfold lonWeights
  rw [if_pos (by rw [Bool.and_eq_true, increasing_iff, increasing_iff]; exact ⟨hs, ht⟩),
    if_pos (by rw [Bool.and_eq_true, increasing_iff, increasing_iff]; exact ⟨hqs, hqt⟩)]
  simp only [Option.map_some, lonOverlap]
  rw [hS, hT, kmat_rotate, normRows_rotate]

/-- **Longitude, from the coordinate vectors of offset grids.**  Source and target longitudes
 strictly increasing, at least two each, each spanning less than a period — anywhere on the real
 line, so `% period` may rotate them — with circular gaps at most `gs` resp. `gt`,
 `gs + gt ≤ P/2` (for equispaced grids with any `longitude_offset`: `1/n_s + 1/n_t ≤ 1/2`,
 proved as `lonWeights_conservative_equispaced`), and
 `%` the reduction into `[0, P)` by an integer number of periods.  Then
 `conservative_longitude_weights` succeeds, its entries are non-negative, its rows sum to one, the
 cells of each grid tile one period, and the width-weighted sum is conserved. -/
theorem lonWeights_conservative_of_offset_points (md : K → K → K) {P : K} (hP : 0 < P)
    (hmd : ∀ v, ∃ n : ℤ, md v P = v - n * P ∧ 0 ≤ md v P ∧ md v P < P)
    (s0 s1 t0 t1 : K) (sr tr : List K) (gs gt : K)
    (hs : (s0 :: s1 :: sr).Pairwise (· < ·)) (ht : (t0 :: t1 :: tr).Pairwise (· < ·))
    (hsp : sr.getLastD s1 - s0 < P) (htp : tr.getLastD t1 - t0 < P)
    (hgs : ∀ d ∈ diffs (s0 :: s1 :: sr), d ≤ gs) (hws : P - (sr.getLastD s1 - s0) ≤ gs)
    (hgt : ∀ d ∈ diffs (t0 :: t1 :: tr), d ≤ gt) (hwt : P - (tr.getLastD t1 - t0) ≤ gt)
    (hg : gs + gt ≤ P / 2) :
    ∃ W, lonWeights md P (s0 :: s1 :: sr) (t0 :: t1 :: tr) = some W ∧
      (∀ row ∈ W, (∀ w ∈ row, 0 ≤ w) ∧ row.sum = 1) ∧
      ((lonCells md P (t0 :: t1 :: tr)).map fun c => c.2 - c.1).sum = P ∧
      ((lonCells md P (s0 :: s1 :: sr)).map fun c => c.2 - c.1).sum = P ∧
      ∀ x : List K, dot ((lonCells md P (t0 :: t1 :: tr)).map fun c => c.2 - c.1) (matvec W x)
        = dot ((lonCells md P (s0 :: s1 :: sr)).map fun c => c.2 - c.1) x := by
  have hgs0 : 0 < gs := lt_of_lt_of_le (diffs_pos_of_pairwise hs (s1 - s0) (by simp))
    (hgs (s1 - s0) (by simp))
  have hgt0 : 0 < gt := lt_of_lt_of_le (diffs_pos_of_pairwise ht (t1 - t0) (by simp))
    (hgt (t1 - t0) (by simp))
  obtain ⟨u0, u1, ur, j, -, hu, hu0, hul, hidu, hgu, hwu, hcS⟩ :=
    lonCells_offset_rotate md hP hmd s0 s1 sr gs hs hsp hgs hws
  obtain ⟨v0, v1, vr, k, -, hv, hv0, hvl, hidv, hgv, hwv, hcT⟩ :=
    lonCells_offset_rotate md hP hmd t0 t1 tr gt ht htp hgt hwt
  have hLu : u0 ≤ ur.getLastD u1 := by
    have := le_getLastD_of_pairwise u0 (u1 :: ur) (pairwise_le_of_lt hu) u0 (by simp)
    rwa [List.getLastD_cons] at this
  have hLv : v0 ≤ vr.getLastD v1 := by
    have := le_getLastD_of_pairwise v0 (v1 :: vr) (pairwise_le_of_lt hv) v0 (by simp)
    rwa [List.getLastD_cons] at this
  obtain ⟨rb, hS, hB, hBl, hwB⟩ := lonCells_partition md hP u0 u1 ur gs hidu hu
    (by linarith) hgu hwu (by linarith)
  obtain ⟨ra, hT, hA, hAl, hwA⟩ := lonCells_partition md hP v0 v1 vr gt hidv hv
    (by linarith) hgv hwv (by linarith)
  have hr : ((vr.getLastD v1 - P) + v0) / (1 + 1) - P ≤ ((ur.getLastD u1 - P) + u0) / (1 + 1) ∧
      ((ur.getLastD u1 - P) + u0) / (1 + 1) ≤ ((vr.getLastD v1 - P) + v0) / (1 + 1) + P := by
    rw [one_add_one_eq_two]; constructor <;> linarith
  exact lonWeights_conservative_perm md hP (s0 :: s1 :: sr) (t0 :: t1 :: tr) _ _ ra rb hs ht
    (by rw [hcT, hT]; exact List.rotate_perm _ _) (by rw [hcS, hS]; exact List.rotate_perm _ _)
    hA (pairwise_le_of_lt hB) hAl hBl
    (fun x hx y hy => by linarith [(hwA x hx).2, (hwB y hy).2]) hr

/-- the exact `%` of the driver (`pyModRat`, Python's `x % p` on rationals) reduces into
 `[0, P)` by an integer number of periods: the hypothesis `hmd` of the offset-grid statements -/
theorem pyModRat_reduces {P : ℚ} (hP : 0 < P) :
    ∀ v : ℚ, ∃ n : ℤ, pyModRat v P = v - n * P ∧ 0 ≤ pyModRat v P ∧ pyModRat v P < P := by
  intro v
  have e : pyModRat v P = v - P * ((v / P).floor : ℚ) := by
    unfold pyModRat; rw [if_neg hP.ne']
  have h1 : (((v / P).floor : ℤ) : ℚ) ≤ v / P := Rat.le_floor_iff.mp le_rfl
  have h2 : v / P < ((v / P).floor : ℚ) + 1 := by
    by_contra h
    have h' : ((v / P).floor : ℚ) + 1 ≤ v / P := not_lt.mp h
    have : ((v / P).floor + 1 : ℤ) ≤ (v / P).floor := Rat.le_floor_iff.mpr (by push_cast; exact h')
    omega
  rw [le_div_iff₀ hP] at h1
  rw [div_lt_iff₀ hP] at h2
  exact ⟨(v / P).floor, by rw [e]; ring, by rw [e]; linarith, by rw [e]; linarith⟩

/-- non-vacuity (offset grids, the real `%`): 4 source longitudes in the `[-P/2, P/2)` layout and
 5 target longitudes whose last node lies beyond the period, on a circle of length 12 -/
example : ∃ W, lonWeights pyModRat (12 : ℚ) [-6, -3, 0, 3] [7 / 2, 6, 8, 11, 14] = some W ∧
    (∀ row ∈ W, (∀ w ∈ row, 0 ≤ w) ∧ row.sum = 1) ∧
    ((lonCells pyModRat (12 : ℚ) [7 / 2, 6, 8, 11, 14]).map fun c => c.2 - c.1).sum = 12 ∧
    ((lonCells pyModRat (12 : ℚ) [-6, -3, 0, 3]).map fun c => c.2 - c.1).sum = 12 ∧
    ∀ x : List ℚ,
      dot ((lonCells pyModRat (12 : ℚ) [7 / 2, 6, 8, 11, 14]).map fun c => c.2 - c.1) (matvec W x)
        = dot ((lonCells pyModRat (12 : ℚ) [-6, -3, 0, 3]).map fun c => c.2 - c.1) x :=
  lonWeights_conservative_of_offset_points pyModRat (by norm_num) (pyModRat_reduces (by norm_num))
    (-6) (-3) (7 / 2) 6 [0, 3] [8, 11, 14] 3 3 (by decide +kernel) (by decide +kernel)
    (by decide +kernel) (by decide +kernel) (by decide +kernel) (by decide +kernel)
    (by decide +kernel) (by decide +kernel) (by norm_num)

/-- in that example `%` really rotates both vectors (by 2 resp. 4 places), the cells and the
 weight matrix with them; the source vector is *not* increasing after `%`, so
 `lonWeights_conservative_of_points` does not apply to it -/
example :
    ([-6, -3, 0, 3] : List ℚ).map (pyModRat · 12) = ([0, 3, 6, 9] : List ℚ).rotate 2 ∧
    ([7 / 2, 6, 8, 11, 14] : List ℚ).map (pyModRat · 12) = ([2, 7 / 2, 6, 8, 11] : List ℚ).rotate 1 ∧
    lonCells pyModRat (12 : ℚ) [-6, -3, 0, 3] = (lonCells pyModRat 12 [0, 3, 6, 9]).rotate 2 ∧
    lonWeights pyModRat (12 : ℚ) [-6, -3, 0, 3] [7 / 2, 6, 8, 11, 14]
      = (lonWeights pyModRat 12 [0, 3, 6, 9] [2, 7 / 2, 6, 8, 11]).map
          fun W => (W.map (·.rotate 2)).rotate 1 := by
  decide +kernel

/-! ## the two-dimensional regridder -/

/-- **Horizontal conservation.**  If the longitude weights conserve the width-weighted sum and the
 latitude weights conserve the `g`-area-weighted sum, the regridded field (`_mean`) has the same
 area-weighted integral as the input: `Σ_{a,c} w_a A_c · out[a][c] = Σ_{b,d} w_b A_d · f[b][d]`. -/
theorem horizontal_conservation (lw tw : List (List K)) (wT wS aT aS : List K)
    (hl : ∀ x : List K, dot wT (matvec lw x) = dot wS x)
    (ht : ∀ y : List K, dot aT (matvec tw y) = dot aS y) (f : List (List K)) :
    dot wT ((mean2 lw tw f).map fun row => dot aT row) = dot wS (f.map fun fb => dot aS fb) := by
  rw [← hl]
  congr 1
  unfold mean2 matvec
  rw [List.map_map]
  apply List.map_congr_left
  intro ra _
  simp only [Function.comp_def]
  -- Σ_c A_c Σ_b ra_b (rc · f_b) = Σ_b ra_b Σ_c A_c (rc · f_b)
  have e : ∀ fb : List K, dot aS fb = dot aT (tw.map fun rc => dot rc fb) := fun fb => (ht fb).symm
  simp only [e]
  rw [dot_map_right, dot_map_right]
  simp only [dot_map_right, ← List.sum_map_mul_left]
  rw [sum_map_sum_comm]
  congr 1
  apply List.map_congr_left
  intro pb _
  congr 1
  apply List.map_congr_left
  intro pc _
  ring

/-- every output cell of `__call__` is the decision rule applied to the cell's weighted sum of the
 zero-filled values and to its non-NaN weight -/
theorem regridWith_cells (rtol atol : K) (skipna : Bool) (lw tw : List (List K))
    (f : List (List (Option K))) :
    regridWith rtol atol skipna lw tw f = lw.map fun ra => tw.map fun rc =>
      cellValue rtol atol skipna (cellMean ra rc f) (cellFrac ra rc f) := by
  unfold regridWith
  rw [mean2_eq, mean2_eq, List.zipWith_map, List.zipWith_self]
  apply List.map_congr_left
  intro ra _
  rw [List.zipWith_map, List.zipWith_self]
  rfl

/-! ## T16.5 missing values -/

/-- `skipna=True`: an output cell is NaN exactly when every input cell that carries weight is
 NaN (non-negative weights) -/
theorem skipna_nan_iff (rtol atol : K) (ra rc : List K) (f : List (List (Option K)))
    (hra : ∀ w ∈ ra, 0 ≤ w) (hrc : ∀ w ∈ rc, 0 ≤ w) :
    cellValue rtol atol true (cellMean ra rc f) (cellFrac ra rc f) = none ↔ AllNull ra rc f := by
  rw [← cellFrac_eq_zero_iff ra rc f hra hrc]
  unfold cellValue
  simp only [if_true]
  constructor
  · intro h
    split_ifs at h with hz
    rw [Bool.and_eq_true, isZero_iff, isZero_iff] at hz
    exact hz.1
  · intro h
    have hm := cellMean_eq_zero_of_allNull ra rc f ((cellFrac_eq_zero_iff ra rc f hra hrc).mp h)
    rw [if_pos]
    rw [Bool.and_eq_true, isZero_iff, isZero_iff]
    exact ⟨h, hm⟩

/-- `skipna=False`: an output cell is NaN exactly when the non-NaN weight is not within
 `atol + rtol·|1|` of one (`jnp.isclose(not_null_fraction, 1, rtol=1e-3)`).
 This unfolds the decision rule of the model (definitional); its content is the correspondence. -/
theorem noskip_nan_iff (rtol atol : K) (ra rc : List K) (f : List (List (Option K))) :
    cellValue rtol atol false (cellMean ra rc f) (cellFrac ra rc f) = none
      ↔ atol + rtol * |1| < |cellFrac ra rc f - 1| := by
  unfold cellValue
  simp only [Bool.false_eq_true, if_false]
  split_ifs with h
  · rw [isClose_iff] at h
    simp only [reduceCtorEq, false_iff, not_lt]
    exact h
  · rw [isClose_iff, not_le] at h
    simp only [true_iff]
    exact h

/-- `skipna=False` with complete rows summing to one, non-negative tolerances and no NaN among the
 inputs that carry weight: the output is not NaN, it is the weighted mean -/
theorem noskip_not_nan_of_no_null (rtol atol : K) (hr : 0 ≤ rtol) (ha : 0 ≤ atol)
    (ra rc : List K) (f : List (List (Option K)))
    (hsa : ra.sum = 1) (hsc : rc.sum = 1)
    (hf : f.length = ra.length) (hfb : ∀ fb ∈ f, fb.length = rc.length)
    (h : NoNull ra rc f) :
    cellValue rtol atol false (cellMean ra rc f) (cellFrac ra rc f) = some (cellMean ra rc f) := by
  have hfrac : cellFrac ra rc f = 1 := by
    rw [cellFrac_of_noNull ra rc f hf hfb h, hsa, hsc, one_mul]
  unfold cellValue
  simp only [Bool.false_eq_true, if_false]
  rw [if_pos, hfrac, div_one]
  rw [isClose_iff, hfrac, sub_self, abs_zero, abs_one, mul_one]
  linarith

/-- **The recorded finding.**  `skipna=False`: if the NaN inputs carry a weight of at most
 `atol + rtol` (0.1 % with the code's `rtol=1e-3`), the output is *not* NaN — the NaN is not
 propagated although it overlaps the target cell — and the value is the mean over the other
 inputs. -/
theorem noskip_sliver_not_propagated (rtol atol : K) (ra rc : List K)
    (f : List (List (Option K))) (h : |cellFrac ra rc f - 1| ≤ atol + rtol) :
    cellValue rtol atol false (cellMean ra rc f) (cellFrac ra rc f)
      = some (cellMean ra rc f / cellFrac ra rc f) := by
  unfold cellValue
  simp only [Bool.false_eq_true, if_false]
  rw [if_pos]
  rw [isClose_iff, abs_one, mul_one]
  exact h

/-- a concrete instance of the finding: the target cell takes 1/2000 of its area from a NaN
 source cell; rows are non-negative and sum to one; `rtol = 1/1000`, `atol = 1/10^8` -/
theorem noskip_sliver_witness :
    let lw : List (List ℚ) := [[1999 / 2000, 1 / 2000]]
    let tw : List (List ℚ) := [[1]]
    let f : List (List (Option ℚ)) := [[some 3], [none]]
    (∀ row ∈ lw ++ tw, (∀ w ∈ row, 0 ≤ w) ∧ row.sum = 1) ∧
    ¬ NoNull [1999 / 2000, 1 / 2000] [1] f ∧
    regridWith (1 / 1000) (1 / 100000000) false lw tw f = [[some 3]] ∧
    regridWith (1 / 1000) (1 / 100000000) true lw tw f = [[some 3]] := by
  refine ⟨by decide +kernel, ?_, by decide +kernel, by decide +kernel⟩
  intro h
  exact h (1 / 2000, [none]) (by simp) (1, none) (by simp) (by norm_num) rfl

/-- whenever an output cell is a number, it is the weighted mean of the non-NaN inputs:
 `Σ w·f / Σ w` over the non-NaN inputs — and the denominator is not zero (non-negative weights;
 tolerances below one) -/
theorem value_is_weighted_mean (rtol atol : K) (htol : atol + rtol < 1) (skipna : Bool)
    (ra rc : List K) (f : List (List (Option K)))
    (hra : ∀ w ∈ ra, 0 ≤ w) (hrc : ∀ w ∈ rc, 0 ≤ w) (v : K)
    (h : cellValue rtol atol skipna (cellMean ra rc f) (cellFrac ra rc f) = some v) :
    v = cellMean ra rc f / cellFrac ra rc f ∧ cellFrac ra rc f ≠ 0 := by
  unfold cellValue at h
  cases skipna with
  | true =>
    simp only [if_true] at h
    split_ifs at h with hz
    cases h
    refine ⟨rfl, ?_⟩
    intro h0
    apply hz
    rw [Bool.and_eq_true, isZero_iff, isZero_iff]
    exact ⟨h0, cellMean_eq_zero_of_allNull ra rc f ((cellFrac_eq_zero_iff ra rc f hra hrc).mp h0)⟩
  | false =>
    simp only [Bool.false_eq_true, if_false] at h
    split_ifs at h with hc
    cases h
    refine ⟨rfl, ?_⟩
    intro h0
    rw [isClose_iff, h0, abs_one, mul_one, zero_sub, abs_neg, abs_one] at hc
    linarith

/-! ## end to end -/

/-- On a field without NaN, `__call__` returns `_mean(field)` in both `skipna` modes
 (rows summing to one, complete rows — the lengths of the rows must fit the field —, non-negative
 tolerances).  `regrid_conservation` discharges the length hypotheses for the weights the code
 computes from the coordinate vectors. -/
theorem regridWith_no_nan (rtol atol : K) (hr : 0 ≤ rtol) (ha : 0 ≤ atol) (skipna : Bool)
    (lw tw : List (List K)) (F : List (List K))
    (hl : ∀ ra ∈ lw, ra.sum = 1 ∧ ra.length = F.length)
    (ht : ∀ rc ∈ tw, rc.sum = 1 ∧ ∀ fb ∈ F, fb.length = rc.length) :
    regridWith rtol atol skipna lw tw (F.map (·.map some))
      = (mean2 lw tw F).map (·.map some) := by
  rw [regridWith_cells, mean2_eq, List.map_map]
  apply List.map_congr_left
  intro ra hra
  simp only [Function.comp_def, List.map_map]
  apply List.map_congr_left
  intro rc hrc
  obtain ⟨h1, h2⟩ := hl ra hra
  obtain ⟨h3, h4⟩ := ht rc hrc
  have hmean : cellMean ra rc (F.map (·.map some)) = cellSum ra rc F := by
    unfold cellMean
    congr 1
    rw [List.map_map]
    conv_rhs => rw [← List.map_id F]
    apply List.map_congr_left
    intro fb _
    simp only [Function.comp_def, List.map_map, fill0, id]
    exact List.map_id' fb
  have hnn : NoNull ra rc (F.map (·.map some)) := by
    intro pb hpb pd hpd _
    obtain ⟨fb, _, hfb⟩ := List.mem_map.mp (List.of_mem_zip hpb).2
    have := (List.of_mem_zip hpd).2
    rw [← hfb] at this
    obtain ⟨v, _, hv⟩ := List.mem_map.mp this
    rw [← hv]; simp
  have hfrac : cellFrac ra rc (F.map (·.map some)) = 1 := by
    rw [cellFrac_of_noNull ra rc _ (by simp [h2]) (by
      intro fb hfb
      obtain ⟨fb', hfb', rfl⟩ := List.mem_map.mp hfb
      simp [h4 fb' hfb']) hnn, h1, h3, one_mul]
  rw [hmean, hfrac]
  unfold cellValue
  cases skipna with
  | true =>
    have : isZero (1 : K) = false := by
      rw [← Bool.not_eq_true, isZero_iff]; exact one_ne_zero
    simp [this]
  | false =>
    have : isClose rtol atol (1 : K) 1 = true := by
      rw [isClose_iff, sub_self, abs_zero, abs_one, mul_one]; linarith
    simp [this]

/-- **End to end.**  If the longitude weights conserve the width-weighted sum, the latitude weights
 the area-weighted sum, and the field has no NaN, then the output of `__call__` (either `skipna`
 mode) has no NaN and the same area-weighted integral as the input. -/
theorem regridWith_conservation (rtol atol : K) (hr : 0 ≤ rtol) (ha : 0 ≤ atol) (skipna : Bool)
    (lw tw : List (List K)) (wT wS aT aS : List K) (F : List (List K))
    (hl : ∀ ra ∈ lw, ra.sum = 1 ∧ ra.length = F.length)
    (ht : ∀ rc ∈ tw, rc.sum = 1 ∧ ∀ fb ∈ F, fb.length = rc.length)
    (hcl : ∀ x : List K, dot wT (matvec lw x) = dot wS x)
    (hct : ∀ y : List K, dot aT (matvec tw y) = dot aS y) :
    ∃ out : List (List K),
      regridWith rtol atol skipna lw tw (F.map (·.map some)) = out.map (·.map some) ∧
      dot wT (out.map fun row => dot aT row) = dot wS (F.map fun fb => dot aS fb) :=
  ⟨mean2 lw tw F, regridWith_no_nan rtol atol hr ha skipna lw tw F hl ht,
    horizontal_conservation lw tw wT wS aT aS hcl hct F⟩

/-- non-vacuity of `horizontal_conservation`: the weights the code computes for 4 → 5 longitudes
 (period 12) and 3 → 2 latitudes (`g = id`, `hp = 1`) satisfy its two hypotheses -/
example : ∃ lw tw : List (List ℚ),
    lonWeights (fun x _ => x) 12 [1, 4, 7, 10] [1 / 2, 3, 5, 8, 11] = some lw ∧
    latWeights id 1 [-1 / 2, 0, 3 / 4] [-1 / 4, 1 / 2] = some tw ∧
    ∀ f : List (List ℚ),
      dot ((lonCells (fun x _ => x) (12 : ℚ) [1 / 2, 3, 5, 8, 11]).map fun c => c.2 - c.1)
          ((mean2 lw tw f).map fun row => dot (diffs ((latBounds 1 [-1 / 4, 1 / 2]).map id)) row)
        = dot ((lonCells (fun x _ => x) (12 : ℚ) [1, 4, 7, 10]).map fun c => c.2 - c.1)
          (f.map fun fb => dot (diffs ((latBounds 1 [-1 / 2, 0, 3 / 4]).map id)) fb) := by
  obtain ⟨lw, h1, _, _, _, hcl⟩ := lonWeights_conservative_of_points (fun x _ => x)
    (by norm_num : (0 : ℚ) < 12) (fun _ _ _ => rfl)
    1 4 (1 / 2) 3 [7, 10] [5, 8, 11] 3 3 (by decide +kernel) (by decide +kernel) (by norm_num)
    (by decide +kernel) (by norm_num) (by decide +kernel) (by decide +kernel) (by decide +kernel)
    (by decide +kernel) (by decide +kernel) (by norm_num)
  obtain ⟨tw, h2, _, hct⟩ := latWeights_conservative (id : ℚ → ℚ) one_pos strictMonoOn_id
    (src := [-1 / 2, 0, 3 / 4]) (tgt := [-1 / 4, 1 / 2]) (by decide +kernel) (by decide +kernel)
    (by decide +kernel) (by decide +kernel)
  exact ⟨lw, tw, h1, h2, fun f => horizontal_conservation lw tw _ _ _ _ hcl hct f⟩

/-! ## shapes: the statements above without hidden length hypotheses -/

theorem length_mids (x : List K) : (mids x).length = x.length - 1 := by
  induction x with
  | nil => rfl
  | cons a t ih =>
    cases t with
    | nil => rfl
    | cons b t => simp only [mids, List.length_cons] at ih ⊢; omega

theorem length_cells (x : List K) : (cells x).length = x.length - 1 := by
  induction x with
  | nil => rfl
  | cons a t ih =>
    cases t with
    | nil => rfl
    | cons b t => simp only [cells, List.length_cons] at ih ⊢; omega

theorem length_latCells (hp : K) (x : List K) (hx : x ≠ []) :
    (cells (latBounds hp x)).length = x.length := by
  rw [length_cells]
  simp only [latBounds, List.length_cons, List.length_append, length_mids, List.length_nil]
  have : 0 < x.length := List.length_pos_iff.mpr hx
  omega

theorem length_lonCells (md : K → K → K) (P : K) (x : List K) :
    (lonCells md P x).length = x.length := by
  simp [lonCells, length_lowerBounds, length_upperBounds]

/-- **Shape of `conservative_latitude_weights`**: `(target, source)`. -/
theorem latWeights_shape (g : K → K) (hp : K) {src tgt : List K} {W : List (List K)}
    (hW : latWeights g hp src tgt = some W) :
    (tgt ≠ [] → W.length = tgt.length) ∧ (src ≠ [] → ∀ row ∈ W, row.length = src.length) := by
  unfold latWeights at hW
  split_ifs at hW with hinc
  cases hW
  refine ⟨fun ht => ?_, fun hs row hrow => ?_⟩
  · simp only [normRows, latOverlap, boundsOverlap, kmat, List.length_map]
    exact length_latCells hp tgt ht
  · simp only [normRows, latOverlap, boundsOverlap, kmat, List.mem_map] at hrow
    obtain ⟨r, ⟨t, _, rfl⟩, rfl⟩ := hrow
    simp only [List.length_map]
    exact length_latCells hp src hs

/-- **Shape of `conservative_longitude_weights`**: `(target, source)`, no hypothesis. -/
theorem lonWeights_shape (md : K → K → K) (P : K) {src tgt : List K} {W : List (List K)}
    (hW : lonWeights md P src tgt = some W) :
    W.length = tgt.length ∧ ∀ row ∈ W, row.length = src.length := by
  unfold lonWeights at hW
  split_ifs at hW with hinc
  cases hW
  refine ⟨?_, fun row hrow => ?_⟩
  · simp only [normRows, lonOverlap, kmat, List.length_map]
    exact length_lonCells md P tgt
  · simp only [normRows, lonOverlap, kmat, List.mem_map] at hrow
    obtain ⟨r, ⟨t, _, rfl⟩, rfl⟩ := hrow
    simp only [List.length_map]
    exact length_lonCells md P src


/-! ### the corollaries without a length hypothesis on the rows -/

/-- `output_within_bounds` with the `Forall₂` replaced by what the caller controls: the length of
 the input vector, and bounds on the inputs that carry weight -/
theorem matvec_within_bounds {lo hi : K} (W : List (List K)) (x : List K)
    (hW : ∀ row ∈ W, (∀ w ∈ row, 0 ≤ w) ∧ row.sum = 1 ∧ row.length = x.length)
    (hx : ∀ row ∈ W, ∀ p ∈ row.zip x, p.1 ≠ 0 → lo ≤ p.2 ∧ p.2 ≤ hi) :
    ∀ o ∈ matvec W x, lo ≤ o ∧ o ≤ hi := by
  apply output_within_bounds W x
  intro row hrow
  obtain ⟨h1, h2, h3⟩ := hW row hrow
  refine ⟨h2, List.forall₂_iff_zip.mpr ⟨h3, ?_⟩⟩
  intro a b hab
  exact ⟨h1 a (List.of_mem_zip hab).1, fun hne => hx row hrow (a, b) hab hne⟩

/-- **Latitude weights: constants and bounds, from the coordinate vectors.**  For admissible
 non-empty latitudes the weight matrix has the shape `(target, source)`, so a constant vector *of
 the source length* is mapped to the constant vector of the target length, and every output lies
 within the bounds of the inputs that carry weight (in particular within `[min x, max x]`). -/
theorem latWeights_constants_bounds (g : K → K) {hp : K} (hhp : 0 < hp)
    (hg : StrictMonoOn g (Set.Icc (-hp) hp)) {src tgt : List K} {W : List (List K)}
    (hW : latWeights g hp src tgt = some W) (hsne : src ≠ []) (htne : tgt ≠ [])
    (hbs : ∀ v ∈ src, -hp ≤ v ∧ v ≤ hp) (hbt : ∀ v ∈ tgt, -hp ≤ v ∧ v ≤ hp) :
    (∀ c : K, matvec W (List.replicate src.length c) = List.replicate tgt.length c) ∧
    ∀ (lo hi : K) (x : List K), x.length = src.length →
      (∀ row ∈ W, ∀ p ∈ row.zip x, p.1 ≠ 0 → lo ≤ p.2 ∧ p.2 ≤ hi) →
      ∀ o ∈ matvec W x, lo ≤ o ∧ o ≤ hi := by
  obtain ⟨hlen, hrowlen⟩ := latWeights_shape g hp hW
  have hsum := latWeights_rows_sum_one g hhp hg hW hbs hbt
  have hnn := latWeights_nonneg g hhp hg hW hbs hbt
  refine ⟨fun c => ?_, fun lo hi x hx hb => ?_⟩
  · rw [constants_reproduced W src.length c (fun row hrow => ⟨hsum row hrow, hrowlen hsne row hrow⟩),
      ← hlen htne]
    exact List.map_const'
  · exact matvec_within_bounds W x
      (fun row hrow => ⟨hnn row hrow, hsum row hrow, by rw [hrowlen hsne row hrow, hx]⟩) hb

/-- **Longitude weights: constants and bounds, from the coordinate vectors.**  Whenever the rows
 are non-negative and sum to one (e.g. under the hypotheses of
 `lonWeights_conservative_of_offset_points`), a constant vector of the source length is mapped to
 the constant vector of the target length and every output lies within the bounds of the inputs
 that carry weight. -/
theorem lonWeights_constants_bounds (md : K → K → K) (P : K) {src tgt : List K} {W : List (List K)}
    (hW : lonWeights md P src tgt = some W)
    (hrows : ∀ row ∈ W, (∀ w ∈ row, 0 ≤ w) ∧ row.sum = 1) :
    (∀ c : K, matvec W (List.replicate src.length c) = List.replicate tgt.length c) ∧
    ∀ (lo hi : K) (x : List K), x.length = src.length →
      (∀ row ∈ W, ∀ p ∈ row.zip x, p.1 ≠ 0 → lo ≤ p.2 ∧ p.2 ≤ hi) →
      ∀ o ∈ matvec W x, lo ≤ o ∧ o ≤ hi := by
  obtain ⟨hlen, hrowlen⟩ := lonWeights_shape md P hW
  refine ⟨fun c => ?_, fun lo hi x hx hb => ?_⟩
  · rw [constants_reproduced W src.length c (fun row hrow => ⟨(hrows row hrow).2, hrowlen row hrow⟩),
      ← hlen]
    exact List.map_const'
  · exact matvec_within_bounds W x
      (fun row hrow => ⟨(hrows row hrow).1, (hrows row hrow).2, by rw [hrowlen row hrow, hx]⟩) hb


/-! ### `ConservativeRegridder(source, target)(field)` from the coordinate vectors -/

/-- **End to end, from the coordinate vectors** (`regrid`, the model of
 `ConservativeRegridder(source_grid, target_grid, skipna)(field)`).  Longitudes as in
 `lonWeights_conservative_of_offset_points`, latitudes as in `latWeights_conservative` (non-empty),
 `%` the reduction into `[0, P)`, `g` strictly increasing on `[-hp, hp]`, non-negative
 tolerances, and a field without NaN *of the shape of the source grid* (`[lon][lat]`: the only
 length hypotheses, and they are about the caller's field, not about the weight matrices).
 Then the constructor succeeds, the output has no NaN and the shape of the target grid, and the
 area-weighted integral `Σ width_lon · (g(lat_hi) − g(lat_lo)) · value` is conserved, in both
 `skipna` modes. -/
theorem regrid_conservation (md : K → K → K) (g : K → K) {P hp : K} (hP : 0 < P) (hhp : 0 < hp)
    (hmd : ∀ v, ∃ n : ℤ, md v P = v - n * P ∧ 0 ≤ md v P ∧ md v P < P)
    (hg : StrictMonoOn g (Set.Icc (-hp) hp))
    (rtol atol : K) (hr : 0 ≤ rtol) (ha : 0 ≤ atol) (skipna : Bool)
    (s0 s1 t0 t1 : K) (sr tr : List K) (gs gt : K)
    (hs : (s0 :: s1 :: sr).Pairwise (· < ·)) (ht : (t0 :: t1 :: tr).Pairwise (· < ·))
    (hsp : sr.getLastD s1 - s0 < P) (htp : tr.getLastD t1 - t0 < P)
    (hgs : ∀ d ∈ diffs (s0 :: s1 :: sr), d ≤ gs) (hws : P - (sr.getLastD s1 - s0) ≤ gs)
    (hgt : ∀ d ∈ diffs (t0 :: t1 :: tr), d ≤ gt) (hwt : P - (tr.getLastD t1 - t0) ≤ gt)
    (hgg : gs + gt ≤ P / 2)
    {latS latT : List K} (hls : latS.Pairwise (· < ·)) (hlt : latT.Pairwise (· < ·))
    (hbs : ∀ v ∈ latS, -hp ≤ v ∧ v ≤ hp) (hbt : ∀ v ∈ latT, -hp ≤ v ∧ v ≤ hp)
    (hsne : latS ≠ []) (htne : latT ≠ [])
    (F : List (List K)) (hF : F.length = (s0 :: s1 :: sr).length)
    (hFb : ∀ fb ∈ F, fb.length = latS.length) :
    ∃ out : List (List K),
      regrid md g hp P rtol atol skipna (s0 :: s1 :: sr) (t0 :: t1 :: tr) latS latT
          (F.map (·.map some)) = some (out.map (·.map some)) ∧
      out.length = (t0 :: t1 :: tr).length ∧ (∀ row ∈ out, row.length = latT.length) ∧
      dot ((lonCells md P (t0 :: t1 :: tr)).map fun c => c.2 - c.1)
          (out.map fun row => dot (diffs ((latBounds hp latT).map g)) row)
        = dot ((lonCells md P (s0 :: s1 :: sr)).map fun c => c.2 - c.1)
          (F.map fun fb => dot (diffs ((latBounds hp latS).map g)) fb) := by
  obtain ⟨lw, hlw, hlrows, -, -, hcl⟩ := lonWeights_conservative_of_offset_points md hP hmd
    s0 s1 t0 t1 sr tr gs gt hs ht hsp htp hgs hws hgt hwt hgg
  obtain ⟨tw, htw, htrows, hct⟩ := latWeights_conservative g hhp hg hls hlt hbs hbt
  obtain ⟨hlwlen, hlwrow⟩ := lonWeights_shape md P hlw
  obtain ⟨htwlen, htwrow⟩ := latWeights_shape g hp htw
  have hl : ∀ ra ∈ lw, ra.sum = 1 ∧ ra.length = F.length := fun ra hra =>
    ⟨(hlrows ra hra).2, by rw [hlwrow ra hra, hF]⟩
  have ht' : ∀ rc ∈ tw, rc.sum = 1 ∧ ∀ fb ∈ F, fb.length = rc.length := fun rc hrc =>
    ⟨(htrows rc hrc).2, fun fb hfb => by rw [htwrow hsne rc hrc, hFb fb hfb]⟩
  refine ⟨mean2 lw tw F, ?_, ?_, ?_, horizontal_conservation lw tw _ _ _ _ hcl hct F⟩
  · unfold regrid
    rw [hlw, htw]
    simp only
    rw [regridWith_no_nan rtol atol hr ha skipna lw tw F hl ht']
  · simp only [mean2, List.length_map]; exact hlwlen
  · intro row hrow
    simp only [mean2, List.mem_map] at hrow
    obtain ⟨ra, _, rfl⟩ := hrow
    simp only [List.length_map]; exact htwlen htne

/-- **Constants, end to end.**  Under the same hypotheses on the coordinate vectors, the constant
 field of the shape of the source grid is mapped to the constant field of the shape of the target
 grid (both `skipna` modes). -/
theorem regrid_constant (md : K → K → K) (g : K → K) {P hp : K} (hP : 0 < P) (hhp : 0 < hp)
    (hmd : ∀ v, ∃ n : ℤ, md v P = v - n * P ∧ 0 ≤ md v P ∧ md v P < P)
    (hg : StrictMonoOn g (Set.Icc (-hp) hp))
    (rtol atol : K) (hr : 0 ≤ rtol) (ha : 0 ≤ atol) (skipna : Bool)
    (s0 s1 t0 t1 : K) (sr tr : List K) (gs gt : K)
    (hs : (s0 :: s1 :: sr).Pairwise (· < ·)) (ht : (t0 :: t1 :: tr).Pairwise (· < ·))
    (hsp : sr.getLastD s1 - s0 < P) (htp : tr.getLastD t1 - t0 < P)
    (hgs : ∀ d ∈ diffs (s0 :: s1 :: sr), d ≤ gs) (hws : P - (sr.getLastD s1 - s0) ≤ gs)
    (hgt : ∀ d ∈ diffs (t0 :: t1 :: tr), d ≤ gt) (hwt : P - (tr.getLastD t1 - t0) ≤ gt)
    (hgg : gs + gt ≤ P / 2)
    {latS latT : List K} (hls : latS.Pairwise (· < ·)) (hlt : latT.Pairwise (· < ·))
    (hbs : ∀ v ∈ latS, -hp ≤ v ∧ v ≤ hp) (hbt : ∀ v ∈ latT, -hp ≤ v ∧ v ≤ hp)
    (hsne : latS ≠ []) (htne : latT ≠ []) (c : K) :
    regrid md g hp P rtol atol skipna (s0 :: s1 :: sr) (t0 :: t1 :: tr) latS latT
        (List.replicate (s0 :: s1 :: sr).length (List.replicate latS.length (some c)))
      = some (List.replicate (t0 :: t1 :: tr).length (List.replicate latT.length (some c))) := by
  obtain ⟨lw, hlw, hlrows, -, -, -⟩ := lonWeights_conservative_of_offset_points md hP hmd
    s0 s1 t0 t1 sr tr gs gt hs ht hsp htp hgs hws hgt hwt hgg
  obtain ⟨tw, htw, htrows, -⟩ := latWeights_conservative g hhp hg hls hlt hbs hbt
  obtain ⟨hlwlen, hlwrow⟩ := lonWeights_shape md P hlw
  obtain ⟨htwlen, htwrow⟩ := latWeights_shape g hp htw
  set n := (s0 :: s1 :: sr).length with hn
  set F : List (List K) := List.replicate n (List.replicate latS.length c) with hFdef
  have hFsome : List.replicate n (List.replicate latS.length (some c)) = F.map (·.map some) := by
    simp [hFdef]
  have hl : ∀ ra ∈ lw, ra.sum = 1 ∧ ra.length = F.length := fun ra hra =>
    ⟨(hlrows ra hra).2, by rw [hlwrow ra hra, hFdef, List.length_replicate]⟩
  have ht' : ∀ rc ∈ tw, rc.sum = 1 ∧ ∀ fb ∈ F, fb.length = rc.length := fun rc hrc =>
    ⟨(htrows rc hrc).2, fun fb hfb => by
      rw [htwrow hsne rc hrc, (List.mem_replicate.mp hfb).2, List.length_replicate]⟩
  unfold regrid
  rw [hlw, htw]
  simp only
  rw [hFsome, regridWith_no_nan rtol atol hr ha skipna lw tw F hl ht', hFdef,
    mean2_constant lw tw n latS.length c
      (fun row hrow => ⟨(hlrows row hrow).2, hlwrow row hrow⟩)
      (fun row hrow => ⟨(htrows row hrow).2, htwrow hsne row hrow⟩)]
  simp [List.map_const', hlwlen, htwlen htne]


/-! ### non-vacuity of the NaN-free and end-to-end statements -/

/-- non-vacuity of `regridWith_no_nan`: a 3 × 2 field, two longitude rows (one with a zero
 weight), two latitude rows, `skipna=False` with the tolerances of the code; the output is the
 weighted mean, a non-constant field -/
example :
    regridWith (1 / 1000 : ℚ) (1 / 100000000) false [[1 / 2, 1 / 2, 0], [0, 1 / 4, 3 / 4]]
        [[1 / 3, 2 / 3], [1, 0]] (([[1, 2], [3, -4], [5, 6]] : List (List ℚ)).map (·.map some))
      = (mean2 [[1 / 2, 1 / 2, 0], [0, 1 / 4, 3 / 4]] [[1 / 3, 2 / 3], [1, 0]]
          ([[1, 2], [3, -4], [5, 6]] : List (List ℚ))).map (·.map some) ∧
    mean2 [[1 / 2, 1 / 2, 0], [0, 1 / 4, 3 / 4]] [[1 / 3, 2 / 3], [1, 0]]
        ([[1, 2], [3, -4], [5, 6]] : List (List ℚ)) = [[0, 2], [23 / 6, 9 / 2]] :=
  ⟨regridWith_no_nan _ _ (by norm_num) (by norm_num) false _ _ _ (by decide +kernel)
    (by decide +kernel), by decide +kernel⟩

/-- non-vacuity of `noskip_not_nan_of_no_null`: one of the inputs *is* NaN, but it carries no
 weight (third longitude row, weight 0): `skipna=False` returns the weighted mean `8/3` -/
example :
    cellValue (1 / 1000 : ℚ) (1 / 100000000) false
        (cellMean [1 / 2, 1 / 2, 0] [1 / 3, 2 / 3] [[some 1, some 2], [some 3, some 4], [none, some 6]])
        (cellFrac [1 / 2, 1 / 2, 0] [1 / 3, 2 / 3] [[some 1, some 2], [some 3, some 4], [none, some 6]])
      = some (cellMean [1 / 2, 1 / 2, 0] [1 / 3, 2 / 3]
          [[some 1, some 2], [some 3, some 4], [none, some 6]]) ∧
    cellMean [1 / 2, 1 / 2, 0] [1 / 3, 2 / 3]
        ([[some 1, some 2], [some 3, some 4], [none, some 6]] : List (List (Option ℚ))) = 8 / 3 :=
  ⟨noskip_not_nan_of_no_null _ _ (by norm_num) (by norm_num) _ _ _ (by norm_num) (by norm_num)
    (by decide) (by decide +kernel) (by unfold NoNull; decide +kernel), by decide +kernel⟩

/-- non-vacuity of `regridWith_conservation`: the weights the code computes for the offset grids
 of the example above (4 → 5 longitudes, the real `%`, period 12) and 3 → 2 latitudes (`g = id`,
 `hp = 1`), a 4 × 3 field -/
example : ∃ (lw tw : List (List ℚ)) (out : List (List ℚ)),
    lonWeights pyModRat 12 [-6, -3, 0, 3] [7 / 2, 6, 8, 11, 14] = some lw ∧
    latWeights id 1 [-1 / 2, 0, 3 / 4] [-1 / 4, 1 / 2] = some tw ∧
    regridWith (1 / 1000) (1 / 100000000) true lw tw
        (([[1, 2, 3], [4, -5, 6], [7, 8, 9], [0, 1, -1]] : List (List ℚ)).map (·.map some))
      = out.map (·.map some) ∧
    dot ((lonCells pyModRat (12 : ℚ) [7 / 2, 6, 8, 11, 14]).map fun c => c.2 - c.1)
        (out.map fun row => dot (diffs ((latBounds 1 [-1 / 4, 1 / 2]).map id)) row)
      = dot ((lonCells pyModRat (12 : ℚ) [-6, -3, 0, 3]).map fun c => c.2 - c.1)
        (([[1, 2, 3], [4, -5, 6], [7, 8, 9], [0, 1, -1]] : List (List ℚ)).map fun fb =>
          dot (diffs ((latBounds 1 [-1 / 2, 0, 3 / 4]).map id)) fb) := by
  obtain ⟨lw, h1, hlr, _, _, hcl⟩ := lonWeights_conservative_of_offset_points pyModRat
    (by norm_num : (0 : ℚ) < 12) (pyModRat_reduces (by norm_num))
    (-6) (-3) (7 / 2) 6 [0, 3] [8, 11, 14] 3 3 (by decide +kernel) (by decide +kernel)
    (by decide +kernel) (by decide +kernel) (by decide +kernel) (by decide +kernel)
    (by decide +kernel) (by decide +kernel) (by norm_num)
  obtain ⟨tw, h2, htr, hct⟩ := latWeights_conservative (id : ℚ → ℚ) one_pos strictMonoOn_id
    (src := [-1 / 2, 0, 3 / 4]) (tgt := [-1 / 4, 1 / 2]) (by decide +kernel) (by decide +kernel)
    (by decide +kernel) (by decide +kernel)
  obtain ⟨out, h3, h4⟩ := regridWith_conservation (1 / 1000 : ℚ) (1 / 100000000) (by norm_num)
    (by norm_num) true lw tw _ _ _ _ [[1, 2, 3], [4, -5, 6], [7, 8, 9], [0, 1, -1]]
    (fun ra hra => ⟨(hlr ra hra).2, by rw [(lonWeights_shape _ _ h1).2 ra hra]; rfl⟩)
    (fun rc hrc => ⟨(htr rc hrc).2, fun fb hfb => by
      rw [(latWeights_shape _ _ h2).2 (by simp) rc hrc]
      revert fb hfb; decide +kernel⟩) hcl hct
  exact ⟨lw, tw, out, h1, h2, h3, h4⟩

/-- non-vacuity of `regrid_conservation` / `regrid_constant`: the same grids, from the coordinate
 vectors only (no weight matrix, no length of a row appears among the hypotheses) -/
example : ∃ out : List (List ℚ),
    regrid pyModRat id 1 12 (1 / 1000) (1 / 100000000) false [-6, -3, 0, 3] [7 / 2, 6, 8, 11, 14]
        [-1 / 2, 0, 3 / 4] [-1 / 4, 1 / 2]
        (([[1, 2, 3], [4, -5, 6], [7, 8, 9], [0, 1, -1]] : List (List ℚ)).map (·.map some))
      = some (out.map (·.map some)) ∧
    out.length = 5 ∧ (∀ row ∈ out, row.length = 2) ∧
    dot ((lonCells pyModRat (12 : ℚ) [7 / 2, 6, 8, 11, 14]).map fun c => c.2 - c.1)
        (out.map fun row => dot (diffs ((latBounds 1 [-1 / 4, 1 / 2]).map id)) row)
      = dot ((lonCells pyModRat (12 : ℚ) [-6, -3, 0, 3]).map fun c => c.2 - c.1)
        (([[1, 2, 3], [4, -5, 6], [7, 8, 9], [0, 1, -1]] : List (List ℚ)).map fun fb =>
          dot (diffs ((latBounds 1 [-1 / 2, 0, 3 / 4]).map id)) fb) :=
  regrid_conservation pyModRat id (by norm_num) one_pos (pyModRat_reduces (by norm_num))
    strictMonoOn_id _ _ (by norm_num) (by norm_num) false
    (-6) (-3) (7 / 2) 6 [0, 3] [8, 11, 14] 3 3 (by decide +kernel) (by decide +kernel)
    (by decide +kernel) (by decide +kernel) (by decide +kernel) (by decide +kernel)
    (by decide +kernel) (by decide +kernel) (by norm_num)
    (by decide +kernel) (by decide +kernel) (by decide +kernel) (by decide +kernel)
    (by simp) (by simp) _ (by decide) (by decide +kernel)

example :
    regrid pyModRat id 1 12 (1 / 1000 : ℚ) (1 / 100000000) true [-6, -3, 0, 3] [7 / 2, 6, 8, 11, 14]
        [-1 / 2, 0, 3 / 4] [-1 / 4, 1 / 2] (List.replicate 4 (List.replicate 3 (some 7)))
      = some (List.replicate 5 (List.replicate 2 (some 7))) :=
  regrid_constant pyModRat id (by norm_num) one_pos (pyModRat_reduces (by norm_num))
    strictMonoOn_id _ _ (by norm_num) (by norm_num) true
    (-6) (-3) (7 / 2) 6 [0, 3] [8, 11, 14] 3 3 (by decide +kernel) (by decide +kernel)
    (by decide +kernel) (by decide +kernel) (by decide +kernel) (by decide +kernel)
    (by decide +kernel) (by decide +kernel) (by norm_num)
    (by decide +kernel) (by decide +kernel) (by decide +kernel) (by decide +kernel)
    (by simp) (by simp) 7

/-! ## equispaced grids -/

/-- the longitudes of an equispaced grid: `linspace(0, P, n, endpoint=False) + off`
 (`Grid.longitudes` with `longitude_offset = off`) -/
def equiPts (n : ℕ) (off P : K) : List K := (List.range n).map fun (i : ℕ) => off + (i : K) * (P / (n : K))

theorem equiPts_decomp (m : ℕ) (off P : K) :
    equiPts (m + 2) off P = off :: (off + P / ((m + 2 : ℕ) : K)) ::
      (List.range m).map fun (i : ℕ) => off + ((i + 2 : ℕ) : K) * (P / ((m + 2 : ℕ) : K)) := by
  unfold equiPts
  rw [List.range_succ_eq_map, List.range_succ_eq_map]
  simp [List.map_map, Function.comp_def]
  intro a _; left; ring

theorem equiPts_getLastD (m : ℕ) (off d : K) :
    ((List.range m).map fun (i : ℕ) => off + ((i + 2 : ℕ) : K) * d).getLastD (off + d)
      = off + ((m + 1 : ℕ) : K) * d := by
  cases m with
  | zero => simp
  | succ k =>
    rw [List.range_succ, List.map_append, List.map_singleton, List.getLastD_concat]

theorem equiPts_pairwise (n : ℕ) (off : K) {d : K} (hd : 0 < d) :
    ((List.range n).map fun (i : ℕ) => off + (i : K) * d).Pairwise (· < ·) := by
  rw [List.pairwise_map]
  apply List.pairwise_lt_range.imp
  intro a b hab
  have : (a : K) < b := by exact_mod_cast hab
  nlinarith

theorem equiPts_diffs (n : ℕ) (off d : K) :
    ∀ x ∈ diffs ((List.range n).map fun (i : ℕ) => off + (i : K) * d), x ≤ d := by
  rw [diffs_le_iff_isChain, List.isChain_map]
  cases n with
  | zero => simp
  | succ k =>
    rw [List.isChain_range_succ]
    intro m _
    push_cast
    linarith

/-- **Equispaced grids** (`Grid.longitudes`: `n` nodes `off + i·P/n`, any `longitude_offset`):
 the hypotheses of `lonWeights_conservative_of_offset_points` hold with `gs = P/n_s`,
 `gt = P/n_t` as soon as `1/n_s + 1/n_t ≤ 1/2` (both `≥ 4`, or 3 against `≥ 6`). -/
theorem lonWeights_conservative_equispaced (md : K → K → K) {P : K} (hP : 0 < P)
    (hmd : ∀ v, ∃ n : ℤ, md v P = v - n * P ∧ 0 ≤ md v P ∧ md v P < P)
    (ns nt : ℕ) (hns : 2 ≤ ns) (hnt : 2 ≤ nt) (hn : (1 : K) / ns + 1 / nt ≤ 1 / 2) (os ot : K) :
    ∃ W, lonWeights md P (equiPts ns os P) (equiPts nt ot P) = some W ∧
      (∀ row ∈ W, (∀ w ∈ row, 0 ≤ w) ∧ row.sum = 1) ∧
      ((lonCells md P (equiPts nt ot P)).map fun c => c.2 - c.1).sum = P ∧
      ((lonCells md P (equiPts ns os P)).map fun c => c.2 - c.1).sum = P ∧
      ∀ x : List K, dot ((lonCells md P (equiPts nt ot P)).map fun c => c.2 - c.1) (matvec W x)
        = dot ((lonCells md P (equiPts ns os P)).map fun c => c.2 - c.1) x := by
  obtain ⟨ms, rfl⟩ : ∃ m, ns = m + 2 := ⟨ns - 2, by omega⟩
  obtain ⟨mt, rfl⟩ : ∃ m, nt = m + 2 := ⟨nt - 2, by omega⟩
  have key : ∀ (m : ℕ) (off : K),
      let d := P / ((m + 2 : ℕ) : K)
      let sr := (List.range m).map fun (i : ℕ) => off + ((i + 2 : ℕ) : K) * d
      (off :: (off + d) :: sr).Pairwise (· < ·) ∧ sr.getLastD (off + d) - off < P ∧
      (∀ x ∈ diffs (off :: (off + d) :: sr), x ≤ d) ∧ P - (sr.getLastD (off + d) - off) ≤ d := by
    intro m off d sr
    have hm : (0 : K) < ((m + 2 : ℕ) : K) := by exact_mod_cast Nat.succ_pos _
    have hd : 0 < d := div_pos hP hm
    have hPd : P = ((m + 2 : ℕ) : K) * d := by simp only [d]; field_simp
    have hdec := equiPts_decomp m off P
    unfold equiPts at hdec
    have hlast : sr.getLastD (off + d) = off + ((m + 1 : ℕ) : K) * d := equiPts_getLastD m off d
    refine ⟨?_, ?_, ?_, ?_⟩
    · rw [← hdec]; exact equiPts_pairwise _ off hd
    · rw [hlast, hPd]; push_cast; linarith
    · rw [← hdec]; exact equiPts_diffs _ off d
    · rw [hlast]; nth_rewrite 1 [hPd]; push_cast; linarith
  obtain ⟨hs, hsp, hgs, hws⟩ := key ms os
  obtain ⟨ht, htp, hgt, hwt⟩ := key mt ot
  rw [equiPts_decomp, equiPts_decomp]
  apply lonWeights_conservative_of_offset_points md hP hmd _ _ _ _ _ _ _ _ hs ht hsp htp hgs hws hgt hwt
  have : P / ((ms + 2 : ℕ) : K) + P / ((mt + 2 : ℕ) : K)
      = P * (1 / ((ms + 2 : ℕ) : K) + 1 / ((mt + 2 : ℕ) : K)) := by ring
  rw [this]
  calc P * (1 / ((ms + 2 : ℕ) : K) + 1 / ((mt + 2 : ℕ) : K)) ≤ P * (1 / 2) :=
        mul_le_mul_of_nonneg_left hn hP.le
    _ = P / 2 := by ring

/-- non-vacuity: 3 against 6 equispaced longitudes with offsets −1 and 25/2 on a circle of length
 12 (the boundary case `1/3 + 1/6 = 1/2`; the target points lie beyond one period), the real `%` -/
example : ∃ W, lonWeights pyModRat (12 : ℚ) (equiPts 3 (-1) 12) (equiPts 6 (25 / 2) 12) = some W ∧
    (∀ row ∈ W, (∀ w ∈ row, 0 ≤ w) ∧ row.sum = 1) ∧
    ((lonCells pyModRat (12 : ℚ) (equiPts 6 (25 / 2) 12)).map fun c => c.2 - c.1).sum = 12 ∧
    ((lonCells pyModRat (12 : ℚ) (equiPts 3 (-1) 12)).map fun c => c.2 - c.1).sum = 12 ∧
    ∀ x : List ℚ, dot ((lonCells pyModRat (12 : ℚ) (equiPts 6 (25 / 2) 12)).map fun c => c.2 - c.1)
        (matvec W x)
      = dot ((lonCells pyModRat (12 : ℚ) (equiPts 3 (-1) 12)).map fun c => c.2 - c.1) x :=
  lonWeights_conservative_equispaced pyModRat (by norm_num) (pyModRat_reduces (by norm_num)) 3 6
    (by norm_num) (by norm_num) (by norm_num) _ _

example : equiPts 3 (-1 : ℚ) 12 = [-1, 3, 7] ∧ equiPts 6 (25 / 2 : ℚ) 12 = [25 / 2, 29 / 2, 33 / 2, 37 / 2, 41 / 2, 45 / 2] := by
  decide +kernel

end Dino.C16
