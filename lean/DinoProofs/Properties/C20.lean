import DinoProofs.Lemmas.Forcing
import DinoGen.ForcingConsts

/-!
# C20 — physical forcings are bounded, periodic and dissipative: property theorems

All statements are about the executable model `Dino.Forcing` (tied to `dinosaur/radiation.py` and
`dinosaur/held_suarez.py` by the correspondence check of `harness/props/C20.py`).

* `sin`, `cos`, `exp`, `log`, `**`, floor, `pi` are the real functions of Mathlib
  (`Dino.Forcing.realTransc`); phases, longitudes, latitudes, times, irradiances, sigma levels and
  all Held–Suarez parameters are arbitrary reals subject to the stated admissibility hypotheses.
* Statements that do not involve a transcendental function (cut-off, `kv`, the convex combination
  behind `kt`, the drag) hold over every ordered field.
* The admissibility hypotheses (`0 ≤ variation < mean`, `sigma_b < 1`, non-negative rates, the
  harmonics `2, 1, 1` of `equation_of_time`) are proved for the literal constants of the source,
  which `harness/gen/consts_c20.py` regenerates on every run (`src_*`, `decide +kernel`).
* Horizontal transforms are external: homogeneity and the wind round trip are explicit hypotheses
  of the drag theorems (T20.4), sampled on the real grid by the harness.
-/
namespace Dino.C20
open Dino.Forcing

/-! ## T20.1 bounds of the radiation -/

/-- `|cos φ cos δ cos h + sin φ sin δ| ≤ 1` for every latitude, declination and hour angle -/
theorem abs_sinAltitudeOf_le_one (lat decl h : ℝ) : |sinAltitudeOf lat decl h| ≤ 1 := by
  rw [sinAltitudeOf_eq]
  exact abs_trig_combination_le_one _ _ _ _ _ (Real.cos_sq_add_sin_sq lat)
    (Real.cos_sq_add_sin_sq decl) (Real.neg_one_le_cos h) (Real.cos_le_one h)

/-- `get_solar_sin_altitude` is a sine: for all constants, phases, longitudes and latitudes -/
theorem abs_solarSinAltitude_le_one (c : OrbitConsts ℝ) (o s lon lat : ℝ) :
    |solarSinAltitude c o s lon lat| ≤ 1 :=
  abs_sinAltitudeOf_le_one _ _ _

/-- `S₀ − |ΔS| ≤ I(φ) ≤ S₀ + |ΔS|` for every orbital phase and perihelion -/
theorem irradiance_bounds_abs (o mean var peri : ℝ) :
    mean - |var| ≤ irradiance o mean var peri ∧ irradiance o mean var peri ≤ mean + |var| := by
  rw [irradiance_eq]
  have h : |var * Real.cos (o - peri)| ≤ |var| := by
    rw [abs_mul]
    exact mul_le_of_le_one_right (abs_nonneg _) (Real.abs_cos_le_one _)
  have := abs_le.1 h
  constructor <;> linarith [this.1, this.2]

/-- `S₀ − ΔS ≤ I(φ) ≤ S₀ + ΔS` when `ΔS ≥ 0` -/
theorem irradiance_bounds (o mean var peri : ℝ) (hv : 0 ≤ var) :
    mean - var ≤ irradiance o mean var peri ∧ irradiance o mean var peri ≤ mean + var := by
  have := irradiance_bounds_abs o mean var peri
  rwa [abs_of_nonneg hv] at this

/-- the upper bound is attained at the perihelion (and at every whole orbit after it) -/
theorem irradiance_at_perihelion (mean var peri : ℝ) (n : ℤ) :
    irradiance (peri + n * (2 * Real.pi)) mean var peri = mean + var := by
  rw [irradiance_eq, show peri + n * (2 * Real.pi) - peri = 0 + n * (2 * Real.pi) by ring,
    Real.cos_add_int_mul_two_pi, Real.cos_zero, mul_one]

/-- the lower bound is attained at the aphelion: `variation ≤ mean` is necessary for a
 non-negative irradiance -/
theorem irradiance_at_aphelion (mean var peri : ℝ) :
    irradiance (peri + Real.pi) mean var peri = mean - var := by
  rw [irradiance_eq, show peri + Real.pi - peri = Real.pi by ring, Real.cos_pi]
  ring

/-- `flux * is_daytime * sin_altitude = I(φ) · max(0, sin(altitude))` -/
theorem flux_eq_irradiance_mul_max (c : OrbitConsts ℝ) (o s mean var lon lat : ℝ) :
    flux c o s mean var lon lat
      = irradiance o mean var c.perihelion * max 0 (solarSinAltitude c o s lon lat) :=
  flux_eq c o s mean var lon lat

/-- the irradiance is non-negative when `|ΔS| ≤ S₀` -/
theorem irradiance_nonneg (o mean var peri : ℝ) (hv : |var| ≤ mean) :
    0 ≤ irradiance o mean var peri := by
  linarith [(irradiance_bounds_abs o mean var peri).1]

/-- incident radiation is never negative (`|ΔS| ≤ S₀`) -/
theorem flux_nonneg (c : OrbitConsts ℝ) (o s mean var lon lat : ℝ) (hv : |var| ≤ mean) :
    0 ≤ flux c o s mean var lon lat := by
  rw [flux_eq]
  exact mul_nonneg (irradiance_nonneg _ _ _ _ hv) (le_max_left _ _)

/-- incident radiation never exceeds the perihelion solar constant `S₀ + |ΔS|` -/
theorem flux_le (c : OrbitConsts ℝ) (o s mean var lon lat : ℝ) (hv : |var| ≤ mean) :
    flux c o s mean var lon lat ≤ mean + |var| := by
  rw [flux_eq]
  have hI := irradiance_nonneg o mean var c.perihelion hv
  have hI2 := (irradiance_bounds_abs o mean var c.perihelion).2
  have hm : max 0 (solarSinAltitude c o s lon lat) ≤ 1 :=
    max_le zero_le_one (abs_le.1 (abs_solarSinAltitude_le_one c o s lon lat)).2
  calc irradiance o mean var c.perihelion * max 0 (solarSinAltitude c o s lon lat)
      ≤ irradiance o mean var c.perihelion * 1 := mul_le_mul_of_nonneg_left hm hI
    _ ≤ mean + |var| := by rw [mul_one]; exact hI2

/-- the flux vanishes exactly (not approximately) where the sun is at or below the horizon;
 no hypothesis on the irradiance -/
theorem flux_eq_zero_of_night (c : OrbitConsts ℝ) (o s mean var lon lat : ℝ)
    (h : solarSinAltitude c o s lon lat ≤ 0) : flux c o s mean var lon lat = 0 := by
  rw [flux_eq, max_eq_left h, mul_zero]

/-- the flux is positive where the sun is above the horizon (`|ΔS| < S₀`) -/
theorem flux_pos_of_day (c : OrbitConsts ℝ) (o s mean var lon lat : ℝ) (hv : |var| < mean)
    (h : 0 < solarSinAltitude c o s lon lat) : 0 < flux c o s mean var lon lat := by
  rw [flux_eq, max_eq_right h.le]
  have : 0 < irradiance o mean var c.perihelion := by
    linarith [(irradiance_bounds_abs o mean var c.perihelion).1]
  exact mul_pos this h

/-- `flux = 0` exactly when `sin(altitude) ≤ 0` (`|ΔS| < S₀`) -/
theorem flux_eq_zero_iff (c : OrbitConsts ℝ) (o s mean var lon lat : ℝ) (hv : |var| < mean) :
    flux c o s mean var lon lat = 0 ↔ solarSinAltitude c o s lon lat ≤ 0 := by
  constructor
  · intro h0
    by_contra hpos
    exact absurd h0 (ne_of_gt (flux_pos_of_day c o s mean var lon lat hv (not_le.1 hpos)))
  · exact flux_eq_zero_of_night c o s mean var lon lat

/-- the normalised variant is the flux divided by the perihelion constant `S₀ + ΔS ≠ 0` -/
theorem normalized_eq (c : OrbitConsts ℝ) (o s mean var lon lat : ℝ) (h : mean + var ≠ 0) :
    normalizedFlux c o s mean var lon lat = flux c o s mean var lon lat / (mean + var) := by
  unfold normalizedFlux
  simp only [flux_eq, irradiance_eq]
  field_simp

/-- the normalised variant lies in `[0, 1]` (`0 ≤ ΔS ≤ S₀`, `S₀ > 0`) -/
theorem normalized_mem_unit (c : OrbitConsts ℝ) (o s mean var lon lat : ℝ) (hv0 : 0 ≤ var)
    (hv : var ≤ mean) (hm : 0 < mean) :
    0 ≤ normalizedFlux c o s mean var lon lat ∧ normalizedFlux c o s mean var lon lat ≤ 1 := by
  have hs : 0 < mean + var := by linarith
  rw [normalized_eq c o s mean var lon lat (ne_of_gt hs)]
  have habs : |var| ≤ mean := by rwa [abs_of_nonneg hv0]
  have h1 := flux_nonneg c o s mean var lon lat habs
  have h2 := flux_le c o s mean var lon lat habs
  rw [abs_of_nonneg hv0] at h2
  exact ⟨div_nonneg h1 hs.le, (div_le_one hs).2 h2⟩

/-! ## T20.2 periodicity: every phase enters through sin/cos of integer multiples -/

theorem irradiance_periodic (o mean var peri : ℝ) (n : ℤ) :
    irradiance (o + n * (2 * Real.pi)) mean var peri = irradiance o mean var peri := by
  rw [irradiance_eq, irradiance_eq,
    show o + n * (2 * Real.pi) - peri = (o - peri) + n * (2 * Real.pi) by ring,
    Real.cos_add_int_mul_two_pi]

theorem declination_periodic (c : OrbitConsts ℝ) (o : ℝ) (n : ℤ) :
    declination c (o + n * (2 * Real.pi)) = declination c o := by
  rw [declination_eq, declination_eq,
    show o + n * (2 * Real.pi) - c.springEquinox = (o - c.springEquinox) + n * (2 * Real.pi) by ring,
    Real.sin_add_int_mul_two_pi]

theorem equationOfTime_periodic (c : OrbitConsts ℝ) (o : ℝ) (n : ℤ) :
    equationOfTime c (o + n * (2 * Real.pi)) = equationOfTime c o := by
  rw [equationOfTime_eq, equationOfTime_eq]
  have e2 : 2 * (o + n * (2 * Real.pi) - c.springEquinox)
      = 2 * (o - c.springEquinox) + ((2 * n : ℤ) : ℝ) * (2 * Real.pi) := by
    push_cast; ring
  have e1 : o + n * (2 * Real.pi) - c.springEquinox
      = (o - c.springEquinox) + n * (2 * Real.pi) := by ring
  rw [e2, e1, Real.sin_add_int_mul_two_pi, Real.cos_add_int_mul_two_pi,
    Real.sin_add_int_mul_two_pi]

/-- `sin(altitude)` is unchanged by whole turns of the orbital phase, of the synodic phase and
 of the longitude, independently -/
theorem solarSinAltitude_periodic (c : OrbitConsts ℝ) (o s lon lat : ℝ) (k m j : ℤ) :
    solarSinAltitude c (o + k * (2 * Real.pi)) (s + m * (2 * Real.pi)) (lon + j * (2 * Real.pi)) lat
      = solarSinAltitude c o s lon lat := by
  simp only [solarSinAltitude_eq, sinAltitudeOf_eq, hourAngle_eq, declination_periodic,
    equationOfTime_periodic]
  rw [show s + m * (2 * Real.pi) + equationOfTime c o + (lon + j * (2 * Real.pi)) - Real.pi
      = (s + equationOfTime c o + lon - Real.pi) + ((m + j : ℤ) : ℝ) * (2 * Real.pi) by
        push_cast; ring,
    Real.cos_add_int_mul_two_pi]

theorem flux_periodic (c : OrbitConsts ℝ) (o s mean var lon lat : ℝ) (k m j : ℤ) :
    flux c (o + k * (2 * Real.pi)) (s + m * (2 * Real.pi)) mean var (lon + j * (2 * Real.pi)) lat
      = flux c o s mean var lon lat := by
  rw [flux_eq, flux_eq, irradiance_periodic, solarSinAltitude_periodic]

theorem normalized_periodic (c : OrbitConsts ℝ) (o s mean var lon lat : ℝ) (k m j : ℤ) :
    normalizedFlux c (o + k * (2 * Real.pi)) (s + m * (2 * Real.pi)) mean var
        (lon + j * (2 * Real.pi)) lat
      = normalizedFlux c o s mean var lon lat := by
  unfold normalizedFlux
  exact flux_periodic c o s _ _ lon lat k m j

/-- the phase wrap `x - x // (2π) * (2π)` lands in `[0, 2π)` and removes a whole number of turns -/
theorem wrapPhase_spec (x : ℝ) :
    0 ≤ wrapPhase x ∧ wrapPhase x < 2 * Real.pi ∧
      ∃ n : ℤ, wrapPhase x = x + n * (2 * Real.pi) := by
  rw [wrapPhase_eq]
  refine ⟨(wrap_spec _ x two_pi_pos).1, (wrap_spec _ x two_pi_pos).2, -⌊x / (2 * Real.pi)⌋, ?_⟩
  push_cast; ring

/-- the wrap is invisible: `SolarRadiation.radiation_flux(t)` is the flux at the unwrapped phases
 `reference + rate · t`, for every time, reference and rate -/
theorem fluxAtTime_eq_unwrapped (c : OrbitConsts ℝ)
    (refO refS rateO rateS t mean var lon lat : ℝ) :
    fluxAtTime c refO refS rateO rateS t mean var lon lat
      = flux c (refO + rateO * t) (refS + rateS * t) mean var lon lat := by
  unfold fluxAtTime timeToOrbital
  obtain ⟨_, _, k, hk⟩ := wrapPhase_spec (refO + rateO * t)
  obtain ⟨_, _, m, hm⟩ := wrapPhase_spec (refS + rateS * t)
  simp only [hk, hm]
  have := flux_periodic c (refO + rateO * t) (refS + rateS * t) mean var lon lat k m 0
  simpa using this

/-- bounds at every model time -/
theorem fluxAtTime_bounds (c : OrbitConsts ℝ) (refO refS rateO rateS t mean var lon lat : ℝ)
    (hv : |var| ≤ mean) :
    0 ≤ fluxAtTime c refO refS rateO rateS t mean var lon lat ∧
      fluxAtTime c refO refS rateO rateS t mean var lon lat ≤ mean + |var| := by
  rw [fluxAtTime_eq_unwrapped]
  exact ⟨flux_nonneg _ _ _ _ _ _ _ hv, flux_le _ _ _ _ _ _ _ hv⟩

/-- array form: every entry of `get_radiation_flux` on a point set obeys the bounds -/
theorem fluxVec_bounds (c : OrbitConsts ℝ) (o s mean var : ℝ) (lons lats : List ℝ)
    (hv : |var| ≤ mean) : ∀ x ∈ fluxVec c o s mean var lons lats, 0 ≤ x ∧ x ≤ mean + |var| := by
  intro x hx
  unfold fluxVec at hx
  obtain ⟨i, hi, rfl⟩ := List.getElem_of_mem hx
  rw [List.getElem_zipWith]
  exact ⟨flux_nonneg _ _ _ _ _ _ _ hv, flux_le _ _ _ _ _ _ _ hv⟩

/-! ## certificates on the literal constants of the source (regenerated on every run) -/

section source
open DinoGen.ForcingConsts

/-- `0 ≤ SOLAR_IRRADIANCE_VARIATION < TOTAL_SOLAR_IRRADIANCE` -/
theorem src_irradiance_admissible :
    0 ≤ solarIrradianceVariation ∧ solarIrradianceVariation < totalSolarIrradiance := by
  decide +kernel

/-- the harmonics inside `equation_of_time` are the integers `2, 1, 1` of the model (so every
 orbital phase enters through sin/cos of integer multiples), and `MINUTES_PER_DAY > 0` -/
theorem src_eot_harmonics : eotHarmonics = [2, 1, 1] ∧ 0 < minutesPerDay := by
  decide +kernel

/-- the Held–Suarez defaults are admissible: `0 < sigma_b < 1`, non-negative rates with
 `ka ≤ ks`, positive reference pressure, `minT ≤ maxT` -/
theorem src_heldSuarez_admissible :
    0 < hsSigmaB ∧ hsSigmaB < 1 ∧ 0 ≤ hsKf ∧ 0 ≤ hsKa ∧ hsKa ≤ hsKs ∧ 0 < hsP0 ∧
      0 ≤ hsMinT ∧ hsMinT ≤ hsMaxT := by
  decide +kernel

/-- with the constants of the source in any unit system (`u > 0` the non-dimensionalisation
 factor): `0 ≤ flux ≤ u · (TSI + variation)` for all phases, longitudes, latitudes -/
theorem src_flux_bounds (u : ℝ) (hu : 0 < u) (c : OrbitConsts ℝ) (o s lon lat : ℝ) :
    0 ≤ flux c o s (u * totalSolarIrradiance) (u * solarIrradianceVariation) lon lat ∧
      flux c o s (u * totalSolarIrradiance) (u * solarIrradianceVariation) lon lat
        ≤ u * (totalSolarIrradiance + solarIrradianceVariation) := by
  obtain ⟨h0, h1⟩ := src_irradiance_admissible
  have h0' : (0 : ℝ) ≤ (solarIrradianceVariation : ℝ) := by exact_mod_cast h0
  have h1' : (solarIrradianceVariation : ℝ) < (totalSolarIrradiance : ℝ) := by exact_mod_cast h1
  have hnn : 0 ≤ u * (solarIrradianceVariation : ℝ) := mul_nonneg hu.le h0'
  have hv : |u * (solarIrradianceVariation : ℝ)| ≤ u * (totalSolarIrradiance : ℝ) := by
    rw [abs_of_nonneg hnn]
    exact mul_le_mul_of_nonneg_left h1'.le hu.le
  refine ⟨flux_nonneg _ _ _ _ _ _ _ hv, ?_⟩
  have := flux_le c o s _ _ lon lat hv
  rwa [abs_of_nonneg hnn, ← mul_add] at this

/-- with the constants of the source the flux is zero exactly on the night side -/
theorem src_flux_eq_zero_iff (u : ℝ) (hu : 0 < u) (c : OrbitConsts ℝ) (o s lon lat : ℝ) :
    flux c o s (u * totalSolarIrradiance) (u * solarIrradianceVariation) lon lat = 0
      ↔ solarSinAltitude c o s lon lat ≤ 0 := by
  obtain ⟨h0, h1⟩ := src_irradiance_admissible
  have h0' : (0 : ℝ) ≤ (solarIrradianceVariation : ℝ) := by exact_mod_cast h0
  have h1' : (solarIrradianceVariation : ℝ) < (totalSolarIrradiance : ℝ) := by exact_mod_cast h1
  apply flux_eq_zero_iff
  rw [abs_of_nonneg (mul_nonneg hu.le h0')]
  exact mul_lt_mul_of_pos_left h1' hu

/-- `SolarRadiation.normalized` with the constants of the source: values in `[0, 1]` -/
theorem src_normalized_mem_unit (u : ℝ) (hu : 0 < u) (c : OrbitConsts ℝ) (o s lon lat : ℝ) :
    0 ≤ normalizedFlux c o s (u * totalSolarIrradiance) (u * solarIrradianceVariation) lon lat ∧
      normalizedFlux c o s (u * totalSolarIrradiance) (u * solarIrradianceVariation) lon lat ≤ 1 := by
  obtain ⟨h0, h1⟩ := src_irradiance_admissible
  have h0' : (0 : ℝ) ≤ (solarIrradianceVariation : ℝ) := by exact_mod_cast h0
  have h1' : (solarIrradianceVariation : ℝ) < (totalSolarIrradiance : ℝ) := by exact_mod_cast h1
  apply normalized_mem_unit
  · exact mul_nonneg hu.le h0'
  · exact mul_le_mul_of_nonneg_left h1'.le hu.le
  · exact mul_pos hu (by linarith)

end source

/-! ## T20.3 Held–Suarez coefficients (over every ordered field) -/

section coefficients
variable {K : Type} [Field K] [LinearOrder K] [IsStrictOrderedRing K]

omit [IsStrictOrderedRing K] in
/-- the boundary-layer ramp is never negative (no hypothesis: it is a `maximum(0, ·)`) -/
theorem cutoff_nonneg (sigma sigmaB : K) : 0 ≤ cutoff sigma sigmaB := by
  rw [cutoff_eq_max]; exact le_max_left _ _

/-- the ramp vanishes at and above the top of the boundary layer (`sigma ≤ sigma_b < 1`) -/
theorem cutoff_eq_zero (sigma sigmaB : K) (hb : sigmaB < 1) (h : sigma ≤ sigmaB) :
    cutoff sigma sigmaB = 0 := by
  rw [cutoff_eq_max]
  exact max_eq_left (div_nonpos_of_nonpos_of_nonneg (by linarith) (by linarith))

/-- the ramp is at most one for `sigma ≤ 1` -/
theorem cutoff_le_one (sigma sigmaB : K) (hb : sigmaB < 1) (h : sigma ≤ 1) :
    cutoff sigma sigmaB ≤ 1 := by
  rw [cutoff_eq_max]
  exact max_le zero_le_one ((div_le_one (by linarith)).2 (by linarith))

/-- inside the boundary layer the ramp is `(sigma - sigma_b) / (1 - sigma_b)` -/
theorem cutoff_eq_ramp (sigma sigmaB : K) (hb : sigmaB < 1) (h : sigmaB ≤ sigma) :
    cutoff sigma sigmaB = (sigma - sigmaB) / (1 - sigmaB) := by
  rw [cutoff_eq_max]
  exact max_eq_right (div_nonneg (by linarith) (by linarith))

/-- Rayleigh friction rate is non-negative (`kf ≥ 0`) -/
theorem kv_nonneg (kf sigmaB sigma : K) (hk : 0 ≤ kf) : 0 ≤ kv kf sigmaB sigma :=
  mul_nonneg hk (cutoff_nonneg _ _)

/-- no friction above the boundary layer -/
theorem kv_eq_zero_above (kf sigmaB sigma : K) (hb : sigmaB < 1) (h : sigma ≤ sigmaB) :
    kv kf sigmaB sigma = 0 := by
  unfold kv; rw [cutoff_eq_zero sigma sigmaB hb h, mul_zero]

/-- in the boundary layer `kv = kf (sigma - sigma_b) / (1 - sigma_b)` -/
theorem kv_eq_ramp (kf sigmaB sigma : K) (hb : sigmaB < 1) (h : sigmaB ≤ sigma) :
    kv kf sigmaB sigma = kf * ((sigma - sigmaB) / (1 - sigmaB)) := by
  unfold kv; rw [cutoff_eq_ramp sigma sigmaB hb h]

/-- friction is at most `kf` (`sigma ≤ 1`) -/
theorem kv_le (kf sigmaB sigma : K) (hk : 0 ≤ kf) (hb : sigmaB < 1) (h : sigma ≤ 1) :
    kv kf sigmaB sigma ≤ kf := by
  unfold kv
  exact mul_le_of_le_one_right hk (cutoff_le_one sigma sigmaB hb h)

/-- `kt` is a convex combination of `ka` and `ks` (weight = ramp · cos⁴, both in `[0, 1]`) -/
theorem kt_convex (ka ks cut cos4 : K) (hc0 : 0 ≤ cut) (hc1 : cut ≤ 1) (h0 : 0 ≤ cos4)
    (h1 : cos4 ≤ 1) :
    ∃ w : K, 0 ≤ w ∧ w ≤ 1 ∧ ktCoeff ka ks cut cos4 = (1 - w) * ka + w * ks :=
  ⟨cut * cos4, mul_nonneg hc0 h0, mul_le_one₀ hc1 h0 h1, by unfold ktCoeff; ring⟩

/-- hence `min(ka, ks) ≤ kt ≤ max(ka, ks)` -/
theorem kt_between (ka ks cut cos4 : K) (hc0 : 0 ≤ cut) (hc1 : cut ≤ 1) (h0 : 0 ≤ cos4)
    (h1 : cos4 ≤ 1) :
    min ka ks ≤ ktCoeff ka ks cut cos4 ∧ ktCoeff ka ks cut cos4 ≤ max ka ks := by
  obtain ⟨w, hw0, hw1, hw⟩ := kt_convex ka ks cut cos4 hc0 hc1 h0 h1
  rw [hw]
  have hw1' : 0 ≤ 1 - w := by linarith
  constructor
  · calc min ka ks = (1 - w) * min ka ks + w * min ka ks := by ring
      _ ≤ (1 - w) * ka + w * ks :=
        add_le_add (mul_le_mul_of_nonneg_left (min_le_left _ _) hw1')
          (mul_le_mul_of_nonneg_left (min_le_right _ _) hw0)
  · calc (1 - w) * ka + w * ks ≤ (1 - w) * max ka ks + w * max ka ks :=
        add_le_add (mul_le_mul_of_nonneg_left (le_max_left _ _) hw1')
          (mul_le_mul_of_nonneg_left (le_max_right _ _) hw0)
      _ = max ka ks := by ring

/-- hence `kt ≥ 0` for non-negative `ka`, `ks` -/
theorem kt_nonneg (ka ks cut cos4 : K) (hka : 0 ≤ ka) (hks : 0 ≤ ks) (hc0 : 0 ≤ cut)
    (hc1 : cut ≤ 1) (h0 : 0 ≤ cos4) (h1 : cos4 ≤ 1) : 0 ≤ ktCoeff ka ks cut cos4 :=
  le_trans (le_min hka hks) (kt_between ka ks cut cos4 hc0 hc1 h0 h1).1

end coefficients

theorem cos_pow_four_mem (lat : ℝ) : 0 ≤ Real.cos lat ^ 4 ∧ Real.cos lat ^ 4 ≤ 1 := by
  have h := Real.cos_sq_le_one lat
  have h0 := sq_nonneg (Real.cos lat)
  have e : Real.cos lat ^ 4 = Real.cos lat ^ 2 * Real.cos lat ^ 2 := by ring
  rw [e]
  exact ⟨mul_nonneg h0 h0, mul_le_one₀ h h0 h⟩

theorem kt_eq_ktCoeff (ka ks sigmaB sigma lat : ℝ) :
    kt ka ks sigmaB sigma lat = ktCoeff ka ks (cutoff sigma sigmaB) (Real.cos lat ^ 4) := by
  rw [kt_eq]; rfl

/-- above the boundary layer the relaxation rate is `ka` at every latitude -/
theorem kt_eq_ka_above (ka ks sigmaB sigma lat : ℝ) (hb : sigmaB < 1) (h : sigma ≤ sigmaB) :
    kt ka ks sigmaB sigma lat = ka := by
  rw [kt_eq, cutoff_eq_zero sigma sigmaB hb h]; ring

/-- `min(ka, ks) ≤ kt ≤ max(ka, ks)` at every latitude and every level `sigma ≤ 1` -/
theorem kt_real_between (ka ks sigmaB sigma lat : ℝ) (hb : sigmaB < 1) (hs : sigma ≤ 1) :
    min ka ks ≤ kt ka ks sigmaB sigma lat ∧ kt ka ks sigmaB sigma lat ≤ max ka ks := by
  rw [kt_eq_ktCoeff]
  exact kt_between ka ks _ _ (cutoff_nonneg _ _) (cutoff_le_one _ _ hb hs)
    (cos_pow_four_mem lat).1 (cos_pow_four_mem lat).2

/-- the Newtonian cooling rate is non-negative at every latitude and every level `sigma ≤ 1` -/
theorem kt_real_nonneg (ka ks sigmaB sigma lat : ℝ) (hka : 0 ≤ ka) (hks : 0 ≤ ks)
    (hb : sigmaB < 1) (hs : sigma ≤ 1) : 0 ≤ kt ka ks sigmaB sigma lat :=
  le_trans (le_min hka hks) (kt_real_between ka ks sigmaB sigma lat hb hs).1

/-- the equilibrium temperature never falls below its floor: for all parameters, levels,
 latitudes and surface pressures (also non-physical ones) -/
theorem equilibriumTemperature_ge_min (P : EqParams ℝ) (sigma lat ps : ℝ) :
    P.minT ≤ equilibriumTemperature P sigma lat ps := by
  rw [equilibriumTemperature_eq]; exact le_max_left _ _

/-- with the defaults of the source in any unit system (`u > 0` the factor of `1/day`):
 non-negative friction and cooling rates on every level `sigma ≤ 1` at every latitude, no
 friction and `kt = ka` above `sigma_b` -/
theorem src_heldSuarez_rates (u : ℝ) (hu : 0 < u) (sigma lat : ℝ) (hs : sigma ≤ 1) :
    let sb : ℝ := DinoGen.ForcingConsts.hsSigmaB
    let kf : ℝ := u * DinoGen.ForcingConsts.hsKf
    let ka : ℝ := u * DinoGen.ForcingConsts.hsKa
    let ks : ℝ := u * DinoGen.ForcingConsts.hsKs
    0 ≤ kv kf sb sigma ∧ 0 ≤ kt ka ks sb sigma lat ∧
      (sigma ≤ sb → kv kf sb sigma = 0 ∧ kt ka ks sb sigma lat = ka) := by
  intro sb kf ka ks
  obtain ⟨_, hb, hkf, hka, hkas, _⟩ := src_heldSuarez_admissible
  have hb' : sb < 1 := by
    have : ((DinoGen.ForcingConsts.hsSigmaB : ℚ) : ℝ) < ((1 : ℚ) : ℝ) := Rat.cast_lt.2 hb
    simpa using this
  have hkf' : (0 : ℝ) ≤ kf := mul_nonneg hu.le (by exact_mod_cast hkf)
  have hka' : (0 : ℝ) ≤ ka := mul_nonneg hu.le (by exact_mod_cast hka)
  have hks' : (0 : ℝ) ≤ ks := mul_nonneg hu.le (by exact_mod_cast le_trans hka hkas)
  exact ⟨kv_nonneg kf sb sigma hkf', kt_real_nonneg ka ks sb sigma lat hka' hks' hb' hs,
    fun h => ⟨kv_eq_zero_above kf sb sigma hb' h, kt_eq_ka_above ka ks sb sigma lat hb' h⟩⟩

/-! ## T20.3/T20.4 `explicit_terms` -/

section tendencies
variable {K : Type} [Field K] [LinearOrder K] [Transc K]

/-- `∂ ln p_s / ∂t = 0`: the surface-pressure tendency is an array of zeros of the shape of the
 input, for every state, level set and parameter set -/
theorem logSurfacePressureTendency_eq_zero (H : Horiz K) (P : HSParams K) (sigmas trefs lsp : List K)
    (levels : List (List K × List K × List K)) :
    (explicitTerms H P sigmas trefs lsp levels).2 = List.replicate lsp.length 0 := by
  unfold explicitTerms logSurfacePressureTendency
  simp [List.map_const']

/-- one tendency record per level (as many as there are levels, sigma centres and reference
 temperatures) -/
theorem explicitTerms_length (H : Horiz K) (P : HSParams K) (sigmas trefs lsp : List K)
    (levels : List (List K × List K × List K)) :
    (explicitTerms H P sigmas trefs lsp levels).1.length
      = min (min sigmas.length trefs.length) levels.length := by
  unfold explicitTerms; simp

/-- each level of `explicit_terms` is the per-level function at that level's sigma centre and
 reference temperature -/
theorem explicitTerms_getElem (H : Horiz K) (P : HSParams K) (sigmas trefs lsp : List K)
    (levels : List (List K × List K × List K)) (k : ℕ)
    (hk : k < (explicitTerms H P sigmas trefs lsp levels).1.length)
    (h1 : k < sigmas.length) (h2 : k < trefs.length) (h3 : k < levels.length) :
    (explicitTerms H P sigmas trefs lsp levels).1[k]
      = explicitTermsLevel H P sigmas[k] trefs[k] lsp levels[k].1 levels[k].2.1 levels[k].2.2 := by
  simp only [explicitTerms, List.getElem_zipWith, List.getElem_zip]

omit [Transc K] in
/-- nodal velocity tendency, pointwise: `-kv · x / cos_lat²`, at every node where `cos_lat ≠ 0` (the
 named side condition of the division; at a pole node the real code divides by zero).  With it the
 quotient is genuine: multiplied back by `cos_lat²` it is `-kv · x` -/
theorem nodalVelocityTendency_eq (kf sigmaB sigma : K) (cosLats xs : List K) (i : ℕ)
    (hi : i < (velTendency kf sigmaB sigma cosLats xs).length) (h1 : i < cosLats.length)
    (h2 : i < xs.length) (hc : cosLats[i] ≠ 0) :
    (velTendency kf sigmaB sigma cosLats xs)[i] = -(kv kf sigmaB sigma) * xs[i] / cosLats[i] ^ 2 ∧
    (velTendency kf sigmaB sigma cosLats xs)[i] * cosLats[i] ^ 2 = -(kv kf sigmaB sigma) * xs[i] := by
  have h : (velTendency kf sigmaB sigma cosLats xs)[i]
      = -(kv kf sigmaB sigma) * xs[i] / cosLats[i] ^ 2 := by
    simp only [velTendency, velTend1, List.getElem_zipWith, powN_eq_pow]
  exact ⟨h, by rw [h, div_mul_cancel₀ _ (pow_ne_zero 2 hc)]⟩

omit [Transc K] in
/-- the nodal velocity tendency is `-kv` times the wind `cos_lat_u / cos_lat²`, on every slice without
 pole nodes (`cos_lat ≠ 0` everywhere: the named side condition of the division); there the wind is a
 genuine quotient: multiplied back by `cos_lat²` the tendency is `-kv · cos_lat_u`, pointwise -/
theorem drag_eq_neg_kv_smul (kf sigmaB sigma : K) (cosLats xs : List K)
    (hc : ∀ c ∈ cosLats, c ≠ 0) :
    velTendency kf sigmaB sigma cosLats xs = smul (-(kv kf sigmaB sigma)) (secSq cosLats xs) ∧
    ∀ (i : ℕ) (hi : i < (velTendency kf sigmaB sigma cosLats xs).length) (h1 : i < cosLats.length)
      (h2 : i < xs.length),
      (velTendency kf sigmaB sigma cosLats xs)[i] * cosLats[i] ^ 2 = -(kv kf sigmaB sigma) * xs[i] :=
  ⟨velTendency_eq_smul kf sigmaB sigma cosLats xs, fun i hi h1 h2 =>
    (nodalVelocityTendency_eq kf sigmaB sigma cosLats xs i hi h1 h2
      (hc _ (List.getElem_mem h1))).2⟩

omit [Transc K] in
/-- pole-free grids satisfy the side condition: when `cos_lat² = 1 − sin_lat²` pointwise (as for
 `grid.cos_lat = sqrt(1 − sin_lat²)`) and every node has `−1 < sin_lat < 1` (Gauss and equiangular
 spacing; NOT `equiangular_with_poles`, whose end nodes have `sin_lat = ±1`), `cos_lat ≠ 0` at
 every node -/
theorem cosLat_ne_zero_of_poleFree [IsStrictOrderedRing K] (sinLats cosLats : List K)
    (hl : cosLats.length = sinLats.length)
    (hcs : ∀ (i : ℕ) (h1 : i < cosLats.length) (h2 : i < sinLats.length),
      cosLats[i] ^ 2 = 1 - sinLats[i] ^ 2)
    (hp : ∀ s ∈ sinLats, -1 < s ∧ s < 1) :
    ∀ c ∈ cosLats, c ≠ 0 := by
  intro c hcm hc0
  obtain ⟨i, h1, rfl⟩ := List.getElem_of_mem hcm
  have h2 : i < sinLats.length := hl ▸ h1
  have h := hcs i h1 h2
  obtain ⟨hlo, hhi⟩ := hp _ (List.getElem_mem h2)
  rw [hc0] at h
  nlinarith

/-- hypotheses on the external transforms (T2.6): homogeneity of `to_modal`, `curl_cos_lat`,
 `div_cos_lat` -/
structure Homogeneous (H : Horiz K) : Prop where
  toModal_smul : ∀ (a : K) (x : List K), H.toModal (smul a x) = smul a (H.toModal x)
  curl_smul : ∀ (a : K) (x y : List K),
    H.curlCosLat (smul a x) (smul a y) = smul a (H.curlCosLat x y)
  div_smul : ∀ (a : K) (x y : List K),
    H.divCosLat (smul a x) (smul a y) = smul a (H.divCosLat x y)

/-- the wind round trip `(ζ, δ) → cos_lat_u → u = cos_lat_u / cos_lat² → (ζ, δ)` is the identity on this
 state, on a slice WITHOUT pole nodes (`cos_lat ≠ 0` at every node: the side condition of the division
 by `cos_lat²` inside `secSq` is part of the definition, so the totalised `x / 0 = 0` can never
 satisfy it).  It is true of the real transforms (measured, not proved) when the spare top total
 wavenumber `l = L − 1` of `ζ, δ` is clipped (vanishes); it FAILS for states with energy at `l = L − 1`
 (measured on every run: the drag then deviates from `−kv·(ζ, δ)` by O(1) at `l = L − 1`, by 0.1–0.4
 at `l = L − 3, L − 5, …`, and vorticity leaks into the divergence tendency at `l = L − 2, L − 4, …`) -/
def WindRoundTrip (H : Horiz K) (vor div : List K) : Prop :=
  (∀ c ∈ H.cosLat, c ≠ 0) ∧
  H.curlCosLat (H.toModal (secSq H.cosLat (H.cosLatU vor div).1))
      (H.toModal (secSq H.cosLat (H.cosLatU vor div).2)) = vor ∧
  H.divCosLat (H.toModal (secSq H.cosLat (H.cosLatU vor div).1))
      (H.toModal (secSq H.cosLat (H.cosLatU vor div).2)) = div

/-- T20.4: `(ζ̇, δ̇) = −kv · (ζ, δ)` on every level, on every slice without pole nodes (`hc`: the named
 side condition of the division by `cos_lat²`; also carried by `WindRoundTrip`) and for every state on
 which the wind round trip is exact -/
theorem drag_tendency (H : Horiz K) (P : HSParams K) (sigma tref : K) (lsp vor div tvar : List K)
    (_hc : ∀ c ∈ H.cosLat, c ≠ 0) (hH : Homogeneous H) (hR : WindRoundTrip H vor div) :
    (explicitTermsLevel H P sigma tref lsp vor div tvar).vorticity
        = smul (-(kv P.kf P.sigmaB sigma)) vor ∧
    (explicitTermsLevel H P sigma tref lsp vor div tvar).divergence
        = smul (-(kv P.kf P.sigmaB sigma)) div := by
  unfold explicitTermsLevel
  simp only [velTendency_eq_smul, hH.toModal_smul, hH.curl_smul, hH.div_smul]
  exact ⟨by rw [hR.2.1], by rw [hR.2.2]⟩

/-- no drag above the boundary layer: the vorticity and divergence tendencies are exactly zero (pole-free
 slice, exact wind round trip) -/
theorem drag_zero_above [IsStrictOrderedRing K] (H : Horiz K) (P : HSParams K) (sigma tref : K)
    (lsp vor div tvar : List K) (hc : ∀ c ∈ H.cosLat, c ≠ 0) (hH : Homogeneous H)
    (hR : WindRoundTrip H vor div) (hb : P.sigmaB < 1) (h : sigma ≤ P.sigmaB) :
    (explicitTermsLevel H P sigma tref lsp vor div tvar).vorticity = List.replicate vor.length 0 ∧
    (explicitTermsLevel H P sigma tref lsp vor div tvar).divergence
      = List.replicate div.length 0 := by
  obtain ⟨h1, h2⟩ := drag_tendency H P sigma tref lsp vor div tvar hc hH hR
  rw [h1, h2, kv_eq_zero_above P.kf P.sigmaB sigma hb h, neg_zero, smul_zero_eq, smul_zero_eq]
  simp [List.map_const']

/-- the drag is dissipative: `⟨ζ, ζ̇⟩ + ⟨δ, δ̇⟩ = −kv (‖ζ‖² + ‖δ‖²) ≤ 0` on every level (pole-free slice,
 exact wind round trip, `kf ≥ 0`) -/
theorem drag_dissipative [IsStrictOrderedRing K] (H : Horiz K) (P : HSParams K) (sigma tref : K)
    (lsp vor div tvar : List K) (hc : ∀ c ∈ H.cosLat, c ≠ 0) (hH : Homogeneous H)
    (hR : WindRoundTrip H vor div) (hk : 0 ≤ P.kf) :
    (List.zipWith (· * ·) vor (explicitTermsLevel H P sigma tref lsp vor div tvar).vorticity).sum
      + (List.zipWith (· * ·) div (explicitTermsLevel H P sigma tref lsp vor div tvar).divergence).sum
      = -(kv P.kf P.sigmaB sigma) * ((vor.map fun x => x * x).sum + (div.map fun x => x * x).sum) ∧
    (List.zipWith (· * ·) vor (explicitTermsLevel H P sigma tref lsp vor div tvar).vorticity).sum
      + (List.zipWith (· * ·) div (explicitTermsLevel H P sigma tref lsp vor div tvar).divergence).sum
      ≤ 0 := by
  obtain ⟨h1, h2⟩ := drag_tendency H P sigma tref lsp vor div tvar hc hH hR
  rw [h1, h2, sum_mul_smul, sum_mul_smul, ← mul_add]
  refine ⟨rfl, ?_⟩
  have hkv := kv_nonneg P.kf P.sigmaB sigma hk
  have hs := add_nonneg (sum_sq_nonneg vor) (sum_sq_nonneg div)
  exact mul_nonpos_of_nonpos_of_nonneg (by linarith) hs

/-- the temperature tendency is `to_modal` of the nodal relaxation `−kt (T − T_eq)`, pointwise
 with `T = T_ref + T'` and `T_eq` at `p_s = exp(ln p_s)` -/
theorem temperature_relaxation (H : Horiz K) (P : HSParams K) (sigma tref : K)
    (lsp vor div tvar : List K) :
    (explicitTermsLevel H P sigma tref lsp vor div tvar).temperature
      = H.toModal (tempTendency P.toEqParams P.ka P.ks P.sigmaB sigma tref H.lat
          (H.toNodal lsp) (H.toNodal tvar)) ∧
    ∀ (lats lsps tvs : List K) (i : ℕ)
      (_ : i < (tempTendency P.toEqParams P.ka P.ks P.sigmaB sigma tref lats lsps tvs).length)
      (_ : i < lats.length) (_ : i < lsps.length) (_ : i < tvs.length),
      (tempTendency P.toEqParams P.ka P.ks P.sigmaB sigma tref lats lsps tvs)[i]
        = -(kt P.ka P.ks P.sigmaB sigma lats[i]) *
            ((tref + tvs[i]) - equilibriumTemperature P.toEqParams sigma lats[i] (Transc.exp lsps[i])) := by
  refine ⟨rfl, ?_⟩
  intro lats lsps tvs i hi h1 h2 h3
  simp only [tempTendency, List.getElem_zipWith, List.getElem_zip, tempTend1]

end tendencies

/-- the relaxation is dissipative: `(T − T_eq) · Ṫ = −kt (T − T_eq)² ≤ 0` at every point, level
 `sigma ≤ 1` and latitude (non-negative `ka`, `ks`, `sigma_b < 1`) -/
theorem relaxation_dissipative (P : EqParams ℝ) (ka ks sigmaB sigma tref lat lsp tv : ℝ)
    (hka : 0 ≤ ka) (hks : 0 ≤ ks) (hb : sigmaB < 1) (hs : sigma ≤ 1) :
    ((tref + tv) - equilibriumTemperature P sigma lat (Real.exp lsp))
        * tempTend1 P ka ks sigmaB sigma tref lat lsp tv
      = -(kt ka ks sigmaB sigma lat)
          * ((tref + tv) - equilibriumTemperature P sigma lat (Real.exp lsp)) ^ 2 ∧
    ((tref + tv) - equilibriumTemperature P sigma lat (Real.exp lsp))
        * tempTend1 P ka ks sigmaB sigma tref lat lsp tv ≤ 0 := by
  have hkt := kt_real_nonneg ka ks sigmaB sigma lat hka hks hb hs
  have e : ((tref + tv) - equilibriumTemperature P sigma lat (Real.exp lsp))
        * tempTend1 P ka ks sigmaB sigma tref lat lsp tv
      = -(kt ka ks sigmaB sigma lat)
          * ((tref + tv) - equilibriumTemperature P sigma lat (Real.exp lsp)) ^ 2 := by
    unfold tempTend1; simp only [transc_exp]; ring
  refine ⟨e, ?_⟩
  rw [e]
  exact mul_nonpos_of_nonpos_of_nonneg (by linarith) (sq_nonneg _)

/-- the temperature is at rest exactly at equilibrium when the rate is positive, and the tendency
 always points toward the equilibrium -/
theorem relaxation_toward_equilibrium (P : EqParams ℝ) (ka ks sigmaB sigma tref lat lsp tv : ℝ)
    (hka : 0 ≤ ka) (hks : 0 ≤ ks) (hb : sigmaB < 1) (hs : sigma ≤ 1) :
    (equilibriumTemperature P sigma lat (Real.exp lsp) ≤ tref + tv →
      tempTend1 P ka ks sigmaB sigma tref lat lsp tv ≤ 0) ∧
    (tref + tv ≤ equilibriumTemperature P sigma lat (Real.exp lsp) →
      0 ≤ tempTend1 P ka ks sigmaB sigma tref lat lsp tv) := by
  have hkt := kt_real_nonneg ka ks sigmaB sigma lat hka hks hb hs
  unfold tempTend1
  simp only [transc_exp]
  constructor
  · intro h
    exact mul_nonpos_of_nonpos_of_nonneg (by linarith) (by linarith)
  · intro h
    rw [neg_mul]
    exact neg_nonneg.2 (mul_nonpos_of_nonneg_of_nonpos hkt (by linarith))

/-! ## non-vacuity: the hypotheses are satisfiable on concrete, non-trivial objects -/

/-- constants with a vanishing inclination and equation of time -/
def c0 : OrbitConsts ℝ := ⟨1440, 0, 0, 0, 0, 0, 0⟩

/-- the hypothesis of the bounds holds for the SI constants of the source -/
example : |(47 : ℝ)| ≤ 1361 := by norm_num

/-- a day-side point (noon on the equator) and a night-side point (midnight) exist -/
example : 0 < solarSinAltitude c0 0 Real.pi 0 0 := by
  simp [solarSinAltitude_eq, sinAltitudeOf_eq, hourAngle_eq, declination_eq, equationOfTime_eq, c0]

example : solarSinAltitude c0 0 0 0 0 ≤ 0 := by
  simp [solarSinAltitude_eq, sinAltitudeOf_eq, hourAngle_eq, declination_eq, equationOfTime_eq, c0]

/-- both sides of the night/day equivalence occur with the constants of the source -/
example : flux c0 0 0 1361 47 0 0 = 0 :=
  flux_eq_zero_of_night _ _ _ _ _ _ _ (by
    simp [solarSinAltitude_eq, sinAltitudeOf_eq, hourAngle_eq, declination_eq, equationOfTime_eq, c0])

example : 0 < flux c0 0 Real.pi 1361 47 0 0 :=
  flux_pos_of_day _ _ _ _ _ _ _ (by norm_num) (by
    simp [solarSinAltitude_eq, sinAltitudeOf_eq, hourAngle_eq, declination_eq, equationOfTime_eq, c0])

/-- levels on both sides of `sigma_b = 7/10`: the ramp is zero above and positive below -/
example : cutoff (1 / 2 : ℚ) (7 / 10) = 0 := cutoff_eq_zero _ _ (by norm_num) (by norm_num)
example : cutoff (17 / 20 : ℚ) (7 / 10) = 1 / 2 := by
  rw [cutoff_eq_ramp _ _ (by norm_num) (by norm_num)]; norm_num
example : kv (1 : ℚ) (7 / 10) (17 / 20) = 1 / 2 := by
  rw [kv_eq_ramp _ _ _ (by norm_num) (by norm_num)]; norm_num

/-- a concrete transform record satisfying the hypotheses of T20.4 (identity transforms on a
 two-point slice with `cos_lat = 1`), with a non-zero state in the boundary layer -/
noncomputable def hId : Horiz ℝ where
  toModal := id
  toNodal := id
  curlCosLat := fun x _ => x
  divCosLat := fun _ y => y
  cosLatU := fun vor div => (vor, div)
  cosLat := [1, 1]
  lat := [0, 0]

example : Homogeneous hId := ⟨fun _ _ => rfl, fun _ _ _ => rfl, fun _ _ _ => rfl⟩

example : WindRoundTrip hId [1, 2] [3, -1] := by
  unfold WindRoundTrip hId secSq
  simp [powN]

/-- the pole-free conjunct is not decoration: on a slice WITH a pole node the old (unguarded) equations
 hold through `x / 0 = 0` for the zero transforms, but `WindRoundTrip` is false -/
example : ¬ WindRoundTrip
    { toModal := id, toNodal := id, curlCosLat := fun x _ => x, divCosLat := fun _ y => y,
      cosLatU := fun vor div => (vor, div), cosLat := [0, 1], lat := [0, 0] : Horiz ℝ } [0, 2] [0, -1] := by
  intro h
  exact h.1 0 (by simp) rfl

/-! ### a non-toy witness for the hypotheses of T20.4

 A transform record on three nodes / three modes with
 * a pole-free latitude row `sin_lat = 4/5, 0, −3/5`, `cos_lat = 3/5, 1, 4/5` (so the division by
   `cos_lat²` is not by one);
 * a non-identity, exactly invertible analysis/synthesis pair (`to_nodal [a,b,c] = [a, a+b, a+b+c]`,
   `to_modal [x,y,z] = [x, y−x, z−y]`);
 * `cos_lat_u` mixing vorticity and divergence (`cos²·to_nodal(ζ+δ)`, `cos²·to_nodal(ζ−δ)`);
 * `curl_cos_lat`, `div_cos_lat` un-mixing them and CLIPPING the top mode, as the real operators do.

 It is homogeneous; the wind round trip holds exactly on the states whose top mode vanishes and fails
 on a state with energy in the top mode (the domain restriction measured on the real grid). -/

/-- `x[i]` with default 0 -/
private def g (x : List ℝ) (i : ℕ) : ℝ := x.getD i 0

private theorem g_smul (a : ℝ) (x : List ℝ) (i : ℕ) : g (smul a x) i = a * g x i := by
  unfold g smul
  rw [List.getD_eq_getElem?_getD, List.getD_eq_getElem?_getD, List.getElem?_map]
  cases x[i]? <;> simp

noncomputable def hQ : Horiz ℝ where
  toModal := fun x => [g x 0, g x 1 - g x 0, g x 2 - g x 1]
  toNodal := fun x => [g x 0, g x 0 + g x 1, g x 0 + g x 1 + g x 2]
  curlCosLat := fun x y => [(g x 0 + g y 0) / 2, (g x 1 + g y 1) / 2, 0]
  divCosLat := fun x y => [(g x 0 - g y 0) / 2, (g x 1 - g y 1) / 2, 0]
  cosLatU := fun vor div =>
    ([(3 / 5) ^ 2 * (g vor 0 + g div 0), 1 ^ 2 * (g vor 0 + g div 0 + (g vor 1 + g div 1)),
      (4 / 5) ^ 2 * (g vor 0 + g div 0 + (g vor 1 + g div 1) + (g vor 2 + g div 2))],
     [(3 / 5) ^ 2 * (g vor 0 - g div 0), 1 ^ 2 * (g vor 0 - g div 0 + (g vor 1 - g div 1)),
      (4 / 5) ^ 2 * (g vor 0 - g div 0 + (g vor 1 - g div 1) + (g vor 2 - g div 2))])
  cosLat := [3 / 5, 1, 4 / 5]
  lat := [1, 0, -1]

theorem hQ_homogeneous : Homogeneous hQ := by
  refine ⟨fun a x => ?_, fun a x y => ?_, fun a x y => ?_⟩ <;>
    simp only [hQ, g_smul] <;>
    simp only [smul, List.map_cons, List.map_nil, List.cons.injEq, and_true] <;>
    refine ⟨?_, ?_, ?_⟩ <;> first | trivial | ring

/-- the pole-free side condition of `drag_eq_neg_kv_smul` on this row, through
 `cosLat_ne_zero_of_poleFree` (`sin_lat = 4/5, 0, −3/5`) -/
theorem hQ_cosLat_ne_zero : ∀ c ∈ hQ.cosLat, c ≠ 0 := by
  refine cosLat_ne_zero_of_poleFree [4 / 5, 0, -3 / 5] hQ.cosLat rfl ?_ ?_
  · intro i h1 h2
    have : i = 0 ∨ i = 1 ∨ i = 2 := by simp [hQ] at h1; omega
    rcases this with rfl | rfl | rfl <;> simp [hQ] <;> norm_num
  · intro s hs
    simp at hs
    rcases hs with rfl | rfl | rfl <;> norm_num

/-- the wind round trip on EVERY state whose top mode is clipped -/
theorem hQ_windRoundTrip (a b c d : ℝ) : WindRoundTrip hQ [a, b, 0] [c, d, 0] := by
  refine ⟨hQ_cosLat_ne_zero, ?_⟩
  unfold hQ secSq g
  simp [powN]
  refine ⟨⟨?_, ?_⟩, ?_, ?_⟩ <;> ring

/-- and not on a state with energy in the top mode: the restriction is necessary -/
theorem hQ_not_windRoundTrip : ¬ WindRoundTrip hQ [0, 0, 1] [0, 0, 0] := by
  intro h
  have h2 := h.2
  revert h2
  unfold hQ secSq g
  simp [powN]

/-- T20.4 instantiated on it: in the boundary layer (`sigma = 17/20 > sigma_b = 7/10`, `kv = kf/2`) the
 drag of a state with non-zero vorticity and divergence is `−kv` times the state -/
example (P : HSParams ℝ) (tref : ℝ) (lsp tvar : List ℝ) :=
  drag_tendency hQ P (17 / 20) tref lsp [1, 2, 0] [3, -1, 0] tvar hQ_cosLat_ne_zero hQ_homogeneous
    (hQ_windRoundTrip 1 2 3 (-1))

/-- the drag is dissipative and vanishes above the boundary layer on the same non-trivial state -/
example (P : HSParams ℝ) (tref : ℝ) (lsp tvar : List ℝ) (hk : 0 ≤ P.kf) :=
  drag_dissipative hQ P (17 / 20) tref lsp [1, 2, 0] [3, -1, 0] tvar hQ_cosLat_ne_zero hQ_homogeneous
    (hQ_windRoundTrip 1 2 3 (-1)) hk

example (P : HSParams ℝ) (tref : ℝ) (lsp tvar : List ℝ) (hb : P.sigmaB < 1) (h : 1 / 2 ≤ P.sigmaB) :=
  drag_zero_above hQ P (1 / 2) tref lsp [1, 2, 0] [3, -1, 0] tvar hQ_cosLat_ne_zero hQ_homogeneous
    (hQ_windRoundTrip 1 2 3 (-1)) hb h

example (kf sigmaB sigma : ℝ) (xs : List ℝ) :=
  drag_eq_neg_kv_smul kf sigmaB sigma hQ.cosLat xs hQ_cosLat_ne_zero

/-- a row WITH pole nodes violates the side condition (`equiangular_with_poles`: `cos_lat = 0` at both
 ends); there the model's totalised division returns 0 where the real code returns ±inf/NaN -/
example : ¬ ∀ c ∈ ([0, 1, 0] : List ℝ), c ≠ 0 := by simp
example : velTendency (1 : ℝ) (7 / 10) (17 / 20) [0, 1, 0] [5, 5, 5] = [0, -5 / 2, 0] := by
  rw [velTendency_eq_smul]
  have hk : kv (1 : ℝ) (7 / 10) (17 / 20) = 1 / 2 := by
    rw [kv_eq_ramp _ _ _ (by norm_num) (by norm_num)]; norm_num
  simp [smul, secSq, powN, hk]
  norm_num

end Dino.C20
